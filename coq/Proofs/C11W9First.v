(* C11, wave 9: the first-match theorems of Proofs/C11W8First.v (about the model functions clone_memo /
   recon_refs with an EMPTY memo) lifted to the operations of the extended history language (step8), with a
   caller-owned memo of arbitrary content: after a successful operation that imports an item by label, every
   label of the item that the caller's memo does not name is resolved to the FIRST member of the destination
   namespace (as it is after the call) that matches it under the namespace's case rule. *)
From Coq Require Import List Bool Arith ZArith Lia.
From DV Require Import Model.PyPrims Model.C11Model Model.C11W7Model Model.C11W8Model
  Proofs.C11Base Proofs.C11Inv Proofs.C11Ops Proofs.C11Unify Proofs.C11W7 Proofs.C11W7b Proofs.C11W8 Proofs.C11W8First.
Import ListNotations.
Open Scope nat_scope.

Lemma Forall2_imp_in : forall A B (P Q : A -> B -> Prop) a b,
  (forall x y, In x a -> P x y -> Q x y) -> Forall2 P a b -> Forall2 Q a b.
Proof.
  intros A B P Q a b H F. induction F as [|x y a b Hxy F IH]; constructor.
  - apply H; [left; reflexivity | exact Hxy].
  - apply IH. intros x0 y0 I. apply H. right. exact I.
Qed.

Section WithLower.
Variable lower : lbl -> lbl.

(* entries the call itself made (keys the caller's memo m0 does not name) hold what a look-up by label gives *)
Definition memo_ok0 (m0 : list (oid * oid)) (n : oid) (cs : bool) (st : state) (mm : list (oid * oid)) : Prop :=
  forall x t, alookup x mm = Some t -> alookup x m0 = None ->
              x < length (s_lab st) /\ first_match lower st n cs (label st x) = Some t.
(* the memo's targets are existing taxon objects *)
Definition memo_valid (st : state) (mm : list (oid * oid)) : Prop :=
  forall x t, alookup x mm = Some t -> t < length (s_lab st).

Lemma memo_ok0_ext : forall m0 n cs st st' mm,
  ext n st st' -> wf_ns n st -> memo_ok0 m0 n cs st mm -> memo_ok0 m0 n cs st' mm.
Proof.
  intros m0 n cs st st' mm X W H x t A A0. destruct (H x t A A0) as [V F]. split.
  - pose proof (ext_len n st st' X). lia.
  - rewrite (label_ext n st st' x X V). eapply first_match_stable; eassumption.
Qed.

Lemma memo_valid_ext : forall n st st' mm, ext n st st' -> memo_valid st mm -> memo_valid st' mm.
Proof. intros n st st' mm X H x t A. pose proof (ext_len n st st' X). specialize (H x t A). lia. Qed.

Lemma add_member_ext : forall st n t, ext n st (add_member st n t).
Proof.
  intros st n t. unfold add_member. destruct (memb t (members st n)); [apply ext_refl|].
  split; [exists []; rewrite app_nil_r; reflexivity|]. split; [|reflexivity].
  exists [t]. apply members_set_members_same.
Qed.

Lemma add_member_wf : forall st n t, t < length (s_lab st) -> wf_ns n st -> wf_ns n (add_member st n t).
Proof.
  intros st n t V W. unfold add_member. destruct (memb t (members st n)); [exact W|].
  intros y Hy. rewrite members_set_members_same in Hy. cbn [s_lab set_members]. apply in_app_or in Hy.
  destruct Hy as [Hy|[Hy|[]]]; [apply W, Hy | subst; exact V].
Qed.

(* Tree.reconstruct_taxon_namespace(unify_taxa_by_label=True, taxon_mapping_memo=mm): the loop *)
Lemma recon_first_gen : forall n cs m0 refs st mm st' refs' mm',
  recon_refs lower st n true refs mm = (st', refs', mm') ->
  ns_cs st n = cs -> wf_ns n st -> memo_ok0 m0 n cs st mm -> memo_valid st mm ->
  (forall x, In x refs -> x < length (s_lab st)) ->
  ext n st st' /\ wf_ns n st' /\ memo_ok0 m0 n cs st' mm' /\ memo_valid st' mm'
  /\ Forall2 (fun x t => alookup x m0 = None -> first_match lower st' n cs (label st x) = Some t) refs refs'.
Proof.
  intros n cs m0 refs. induction refs as [|x r IH]; intros st mm st' refs' mm' H Ecs W Mo Mv V; cbn [recon_refs] in H.
  - injection H as H1 H2 H3. subst. split; [apply ext_refl|]. split; [exact W|]. split; [exact Mo|].
    split; [exact Mv | constructor].
  - cbn [orb] in H. destruct (alookup x mm) as [t|] eqn:A.
    + destruct (recon_refs lower (add_member st n t) n true r mm) as [[st2 r2] m2] eqn:R.
      injection H as H1 H2 H3. subst.
      pose proof (add_member_ext st n t) as Xa.
      pose proof (add_member_wf st n t (Mv x t A) W) as Wa.
      assert (Ecs1 : ns_cs (add_member st n t) n = ns_cs st n) by apply Xa.
      destruct (IH _ _ _ _ _ R Ecs1 Wa) as [X2 [W2 [Mo2 [Mv2 F2]]]].
      * eapply memo_ok0_ext; eassumption.
      * eapply memo_valid_ext; eassumption.
      * intros y Hy. pose proof (ext_len n _ _ Xa). specialize (V y (or_intror Hy)). lia.
      * split; [eapply ext_trans; eassumption|]. split; [exact W2|]. split; [exact Mo2|]. split; [exact Mv2|].
        constructor.
        -- intro A0. destruct (Mo x t A A0) as [_ F]. eapply first_match_stable; [|exact W|exact F].
           eapply ext_trans; eassumption.
        -- eapply Forall2_imp_in; [|exact F2]. intros y ty Hy P A0. cbv beta in P.
           rewrite <- (label_ext n st (add_member st n t) y Xa (V y (or_intror Hy))). apply P, A0.
    + destruct (require_taxon lower st n (label st x) (ns_cs st n)) as [st1 t] eqn:Q.
      destruct (recon_refs lower st1 n true r ((x, t) :: mm)) as [[st2 r2] m2] eqn:R.
      injection H as H1 H2 H3. subst.
      destruct (require_taxon_first lower _ _ _ _ _ Q W) as [X1 [W1 F1]].
      assert (Vx : x < length (s_lab st)) by (apply V; left; reflexivity).
      assert (Ecs1 : ns_cs st1 n = ns_cs st n) by apply X1.
      destruct (IH _ _ _ _ _ R Ecs1 W1) as [X2 [W2 [Mo2 [Mv2 F2]]]].
      * intros y t0 A0 B0. rewrite alookup_cons in A0. destruct (Nat.eqb y x) eqn:Eq.
        -- apply Nat.eqb_eq in Eq. subst y. injection A0 as A0. subst t0.
           split; [pose proof (ext_len n st st1 X1); lia|]. rewrite (label_ext n st st1 x X1 Vx). exact F1.
        -- apply (memo_ok0_ext m0 n (ns_cs st n) st st1 mm X1 W Mo y t0 A0 B0).
      * intros y t0 A0. rewrite alookup_cons in A0. destruct (Nat.eqb y x) eqn:Eq.
        -- injection A0 as A0. subst t0. destruct (first_match_some lower _ _ _ _ _ F1) as [I _]. apply W1, I.
        -- eapply memo_valid_ext; [exact X1 | exact Mv | exact A0].
      * intros y Hy. pose proof (ext_len n st st1 X1). specialize (V y (or_intror Hy)). lia.
      * split; [eapply ext_trans; eassumption|]. split; [exact W2|]. split; [exact Mo2|]. split; [exact Mv2|].
        constructor.
        -- intros _. eapply first_match_stable; eassumption.
        -- eapply Forall2_imp_in; [|exact F2]. intros y ty Hy P A0. cbv beta in P.
           rewrite <- (label_ext n st st1 y X1 (V y (or_intror Hy))). apply P, A0.
Qed.

Lemma recon_refs_trees : forall n u refs st mm st' refs' mm',
  recon_refs lower st n u refs mm = (st', refs', mm') -> s_trees st' = s_trees st.
Proof.
  intros n u refs st mm st' refs' mm' R. destruct (recon_refs_spec lower _ _ _ _ _ _ _ _ R) as [[S _] _].
  revert S. unfold same_objs. intro S. apply S.
Qed.

(* the imported item: tree object src as it was before the call, tree object dst as it is afterwards
   (src = dst for the routes that re-map the tree in place, dst a new tree object for the clone routes).
   m0 = the caller's memo as it was before the call ([] when the keyword is not given). *)
Definition tree_resolved (st st' : state) (n : oid) (m0 : list (oid * oid)) (src dst : oid) : Prop :=
  let refs := t_refs (gettree st src) in
  let refs' := t_refs (gettree st' dst) in
  t_ns (gettree st' dst) = n /\ length refs' = length refs /\
  forall i, i < length refs -> alookup (nth i refs 0) m0 = None ->
    first_match lower st' n (ns_cs st' n) (label st (nth i refs 0)) = Some (nth i refs' 0).

Lemma tree_resolved_same : forall st a b n m0 s d,
  s_lab b = s_lab a -> s_mem b = s_mem a -> s_cs b = s_cs a -> s_trees b = s_trees a ->
  tree_resolved st a n m0 s d -> tree_resolved st b n m0 s d.
Proof.
  intros st a b n m0 s d E1 E2 E3 E4 H. unfold tree_resolved, first_match, members, ns_cs, gettree, matches, label in *.
  rewrite E1, E2, E3, E4. exact H.
Qed.

(* later growth of the namespace does not disturb a resolved tree that is left alone *)
Lemma tree_resolved_ext : forall st a b n m0 s d,
  ext n a b -> wf_ns n a -> gettree b d = gettree a d ->
  tree_resolved st a n m0 s d -> tree_resolved st b n m0 s d.
Proof.
  intros st a b n m0 s d X W G [H1 [H2 H3]]. unfold tree_resolved. rewrite G. split; [exact H1|]. split; [exact H2|].
  intros i Hi A0. assert (E : ns_cs b n = ns_cs a n) by apply X. rewrite E.
  eapply first_match_stable; [exact X | exact W | apply H3; assumption].
Qed.

Lemma migrate_tree_first : forall st tr n m0 mm st' mm',
  migrate_tree lower st tr n true mm = (st', mm') ->
  tr < length (s_trees st) -> wf_ns n st -> memo_ok0 m0 n (ns_cs st n) st mm -> memo_valid st mm ->
  (forall x, In x (t_refs (gettree st tr)) -> x < length (s_lab st)) ->
  ext n st st' /\ wf_ns n st' /\ memo_ok0 m0 n (ns_cs st n) st' mm' /\ memo_valid st' mm'
  /\ tree_resolved st st' n m0 tr tr
  /\ (forall j, j <> tr -> gettree st' j = gettree st j)
  /\ length (s_trees st') = length (s_trees st)
  /\ (forall x, In x (t_refs (gettree st' tr)) -> x < length (s_lab st'))
  /\ s_lists st' = s_lists st.
Proof.
  intros st tr n m0 mm st' mm' H V W Mo Mv Vr. unfold migrate_tree in H.
  destruct (recon_refs lower st n true (t_refs (gettree st tr)) mm) as [[st1 refs'] m1] eqn:R.
  injection H as H1 H2. subst st' mm'.
  destruct (recon_first_gen n (ns_cs st n) m0 _ _ _ _ _ _ R eq_refl W Mo Mv Vr) as [X [W1 [Mo1 [Mv1 F]]]].
  pose proof (recon_refs_trees _ _ _ _ _ _ _ _ R) as T.
  split; [exact X|]. split; [exact W1|]. split; [exact Mo1|]. split; [exact Mv1|]. split; [|split].
  - unfold tree_resolved. rewrite gettree_set_same by (rewrite T; exact V). cbn [t_ns t_refs].
    split; [reflexivity|]. pose proof (Forall2_len _ _ _ _ _ F) as L. split; [symmetry; exact L|].
    intros i Hi A0. pose proof (Forall2_nth _ _ _ _ _ 0 0 i F Hi) as G. cbv beta in G.
    assert (E : ns_cs st1 n = ns_cs st n) by apply X.
    change (first_match lower st1 n (ns_cs st1 n) (label st (nth i (t_refs (gettree st tr)) 0)) = Some (nth i refs' 0)).
    rewrite E. apply G, A0.
  - intros j Hj. rewrite gettree_set_other by exact Hj. unfold gettree. rewrite T. reflexivity.
  - split; [cbn [set_tree s_trees]; rewrite upd_length, T; reflexivity|]. split.
    + rewrite gettree_set_same by (rewrite T; exact V). cbn [t_refs]. intros x Hx.
      destruct (recon_refs_spec lower _ _ _ _ _ _ _ _ R) as [_ [I _]]. apply (W1 x), I, Hx.
    + destruct (recon_refs_spec lower _ _ _ _ _ _ _ _ R) as [[[_ [S _]] _] _]. exact S.
Qed.

(* TreeList._import_tree_to_taxon_namespace(tree, "migrate", unify_taxa_by_label=True, taxon_mapping_memo=mm) *)
Lemma import_tree_m_first : forall st ln tr mm st1 ok mm1,
  import_tree_m lower st ln tr (SMigrate true) mm = (st1, ok, mm1) ->
  Nat.eqb (t_ns (gettree st tr)) ln = false ->
  tr < length (s_trees st) -> wf_ns ln st -> memo_valid st mm ->
  (forall x, In x (t_refs (gettree st tr)) -> x < length (s_lab st)) ->
  ok = true /\ tree_resolved st st1 ln mm tr tr.
Proof.
  intros st ln tr mm st1 ok mm1 H E V W Mv Vr. unfold import_tree_m in H. rewrite E in H.
  destruct (migrate_tree lower st tr ln true mm) as [s1 m1] eqn:M. injection H as H1 H2 H3. subst st1 ok mm1.
  split; [reflexivity|].
  destruct (migrate_tree_first st tr ln mm mm s1 m1 M V W) as [_ [_ [_ [_ [T _]]]]]; try assumption.
  intros x t A A0. rewrite A in A0. discriminate.
Qed.

Lemma import_tree_first : forall st ln tr st1 ok,
  import_tree lower st ln tr (SMigrate true) = (st1, ok) ->
  Nat.eqb (t_ns (gettree st tr)) ln = false ->
  tr < length (s_trees st) -> wf_ns ln st ->
  (forall x, In x (t_refs (gettree st tr)) -> x < length (s_lab st)) ->
  ok = true /\ tree_resolved st st1 ln [] tr tr.
Proof.
  intros st ln tr st1 ok H E V W Vr. rewrite <- (import_tree_m_nil lower) in H.
  destruct (import_tree_m lower st ln tr (SMigrate true) []) as [[s1 o1] m1] eqn:M. cbn [fst snd] in H.
  injection H as H1 H2. subst st1 ok. eapply import_tree_m_first; try eassumption. intros x t A. discriminate.
Qed.

Definition refs_wf (st : state) : Prop := forall j x, In x (t_refs (gettree st j)) -> x < length (s_lab st).

Lemma tree_resolved_pre : forall st st1 st' n m0 s d,
  gettree st1 s = gettree st s -> (forall x, In x (t_refs (gettree st s)) -> label st1 x = label st x) ->
  tree_resolved st1 st' n m0 s d -> tree_resolved st st' n m0 s d.
Proof.
  intros st st1 st' n m0 s d G L [H1 [H2 H3]]. unfold tree_resolved. rewrite G in *. split; [exact H1|]. split; [exact H2|].
  intros i Hi A0. rewrite <- L by (apply nth_In; exact Hi). apply H3; assumption.
Qed.

(* TreeList.migrate_taxon_namespace / reconstruct_taxon_namespace: one memo through all the trees *)
Lemma migrate_trees_first : forall n cs m0 trs st mm st' mm',
  migrate_trees lower st n true trs mm = (st', mm') ->
  ns_cs st n = cs ->
  (forall tr, In tr trs -> tr < length (s_trees st)) -> wf_ns n st -> memo_ok0 m0 n cs st mm -> memo_valid st mm ->
  refs_wf st ->
  ext n st st' /\ wf_ns n st' /\ memo_ok0 m0 n cs st' mm' /\ memo_valid st' mm' /\ refs_wf st'
  /\ (forall j, ~ In j trs -> gettree st' j = gettree st j)
  /\ length (s_trees st') = length (s_trees st)
  /\ forall tr, count_occ Nat.eq_dec trs tr = 1 -> tree_resolved st st' n m0 tr tr.
Proof.
  intros n cs m0 trs. induction trs as [|t0 r IH]; intros st mm st' mm' H Ecs V W Mo Mv Rw; cbn [migrate_trees] in H.
  - injection H as H1 H2. subst. split; [apply ext_refl|]. split; [exact W|]. split; [exact Mo|]. split; [exact Mv|].
    split; [exact Rw|]. split; [reflexivity|]. split; [reflexivity|]. intros tr C. simpl in C. discriminate.
  - destruct (migrate_tree lower st t0 n true mm) as [st1 mm1] eqn:M.
    assert (V0 : t0 < length (s_trees st)) by (apply V; left; reflexivity).
    subst cs.
    destruct (migrate_tree_first st t0 n m0 mm st1 mm1 M V0 W Mo Mv (Rw t0)) as [X1 [W1 [Mo1 [Mv1 [T1 [Fr1 [Len1 [Vn1 _]]]]]]]].
    assert (Ecs1 : ns_cs st1 n = ns_cs st n) by apply X1.
    assert (Rw1 : refs_wf st1).
    { intros j x Hx. destruct (Nat.eq_dec j t0) as [->|Nj]; [apply Vn1, Hx|].
      rewrite Fr1 in Hx by exact Nj. pose proof (ext_len n st st1 X1). specialize (Rw j x Hx). lia. }
    destruct (IH st1 mm1 st' mm' H Ecs1) as [X2 [W2 [Mo2 [Mv2 [Rw2 [Fr2 [Len2 T2]]]]]]]; try assumption.
    { intros tr Htr. rewrite Len1. apply V. right. exact Htr. }
    split; [eapply ext_trans; eassumption|]. split; [exact W2|]. split; [exact Mo2|]. split; [exact Mv2|].
    split; [exact Rw2|]. split; [|split].
    + intros j Hj. rewrite Fr2 by (intro I; apply Hj; right; exact I). apply Fr1. intro E. apply Hj. left. symmetry. exact E.
    + rewrite Len2. exact Len1.
    + intros tr C. cbn [count_occ] in C. destruct (Nat.eq_dec t0 tr) as [E|N].
      * subst tr. assert (C0 : count_occ Nat.eq_dec r t0 = 0) by lia.
        apply count_occ_not_In in C0. eapply tree_resolved_ext; [exact X2 | exact W1 | apply Fr2, C0 | exact T1].
      * specialize (T2 tr C). eapply tree_resolved_pre; [| |exact T2].
        -- apply Fr1. intro E. apply N. symmetry. exact E.
        -- intros x Hx. apply (label_ext n st st1 x X1). apply (Rw tr x Hx).
Qed.

(* ---- a list of trees imported one after the other (extend / += / + / slice assignment from an iterable of
   trees): f is one import ---- *)
Definition imp_step (n : oid) (st st1 : state) (tr : oid) : Prop :=
  ext n st st1 /\ wf_ns n st1 /\ refs_wf st1 /\ length (s_trees st1) = length (s_trees st)
  /\ (forall j, j <> tr -> gettree st1 j = gettree st j)
  /\ (Nat.eqb (t_ns (gettree st tr)) n = true -> gettree st1 tr = gettree st tr)
  /\ (Nat.eqb (t_ns (gettree st tr)) n = false -> tree_resolved st st1 n [] tr tr).

Section Fold.
Variable n : oid.
Variable f : state -> oid -> state.
Variable I : state -> Prop.
Hypothesis f_spec : forall st tr, I st -> wf_ns n st -> refs_wf st -> tr < length (s_trees st) ->
  I (f st tr) /\ imp_step n st (f st tr) tr.

Lemma fold_first : forall trs st,
  I st -> wf_ns n st -> refs_wf st -> (forall tr, In tr trs -> tr < length (s_trees st)) ->
  let st' := fold_left f trs st in
  I st' /\ ext n st st' /\ wf_ns n st' /\ refs_wf st' /\ length (s_trees st') = length (s_trees st)
  /\ (forall j, ~ In j trs \/ Nat.eqb (t_ns (gettree st j)) n = true -> gettree st' j = gettree st j)
  /\ (forall tr, In tr trs -> Nat.eqb (t_ns (gettree st tr)) n = false -> tree_resolved st st' n [] tr tr).
Proof.
  induction trs as [|t0 r IH]; intros st Hi W Rw V; cbn [fold_left]; cbv zeta.
  - split; [exact Hi|]. split; [apply ext_refl|]. split; [exact W|]. split; [exact Rw|]. split; [reflexivity|].
    split; [reflexivity|]. intros tr [].
  - assert (V0 : t0 < length (s_trees st)) by (apply V; left; reflexivity).
    destruct (f_spec st t0 Hi W Rw V0) as [Hi1 [X1 [W1 [Rw1 [Len1 [Fr1 [Same1 Res1]]]]]]].
    specialize (IH (f st t0) Hi1 W1 Rw1). cbv zeta in IH.
    destruct IH as [Hi2 [X2 [W2 [Rw2 [Len2 [Fr2 Res2]]]]]].
    { intros tr Htr. rewrite Len1. apply V. right. exact Htr. }
    assert (G1 : forall j, j <> t0 \/ Nat.eqb (t_ns (gettree st j)) n = true -> gettree (f st t0) j = gettree st j).
    { intros j [Hj|Hj]; [apply Fr1, Hj|]. destruct (Nat.eq_dec j t0) as [->|Nj]; [apply Same1, Hj | apply Fr1, Nj]. }
    split; [exact Hi2|]. split; [eapply ext_trans; eassumption|]. split; [exact W2|]. split; [exact Rw2|].
    split; [rewrite Len2; exact Len1|]. split.
    + intros j [Hj|Hj].
      * rewrite Fr2 by (left; intro K; apply Hj; right; exact K). apply G1. left. intro E. apply Hj. left. symmetry. exact E.
      * rewrite Fr2; [apply G1; right; exact Hj|]. right. rewrite G1 by (right; exact Hj). exact Hj.
    + intros tr Htr Ne. destruct (Nat.eq_dec tr t0) as [->|Nt].
      * specialize (Res1 Ne). eapply tree_resolved_ext; [exact X2 | exact W1 | | exact Res1].
        apply Fr2. right. destruct Res1 as [Q _]. rewrite Q. apply Nat.eqb_refl.
      * destruct Htr as [Htr|Htr]; [exfalso; apply Nt; symmetry; exact Htr|].
        assert (G : gettree (f st t0) tr = gettree st tr) by (apply Fr1; exact Nt).
        eapply tree_resolved_pre; [exact G| |apply Res2; [exact Htr | rewrite G; exact Ne]].
        intros x Hx. apply (label_ext n st (f st t0) x X1). apply (Rw tr x Hx).
Qed.
End Fold.

Lemma imp_step_same : forall n st a b tr,
  s_lab b = s_lab a -> s_mem b = s_mem a -> s_cs b = s_cs a -> s_trees b = s_trees a ->
  imp_step n st a tr -> imp_step n st b tr.
Proof.
  intros n st a b tr E1 E2 E3 E4 [X [W [Rw [Len [Fr [Sa Re]]]]]].
  unfold imp_step, ext, wf_ns, refs_wf, members, ns_cs, gettree in *. rewrite E1, E2, E3, E4.
  split; [exact X|]. split; [exact W|]. split; [exact Rw|]. split; [exact Len|]. split; [exact Fr|]. split; [exact Sa|].
  intro Ne. eapply tree_resolved_same; [exact E1|exact E2|exact E3|exact E4|]. apply Re, Ne.
Qed.

Lemma import_step_spec : forall n st tr,
  wf_ns n st -> refs_wf st -> tr < length (s_trees st) ->
  imp_step n st (fst (import_tree lower st n tr (SMigrate true))) tr
  /\ s_lists (fst (import_tree lower st n tr (SMigrate true))) = s_lists st.
Proof.
  intros n st tr W Rw V. unfold import_tree. destruct (Nat.eqb (t_ns (gettree st tr)) n) eqn:E; cbn [fst].
  - split; [|reflexivity]. split; [apply ext_refl|]. split; [exact W|]. split; [exact Rw|]. split; [reflexivity|].
    split; [reflexivity|]. split; [reflexivity|]. intro K. congruence.
  - destruct (migrate_tree lower st tr n true []) as [s1 m1] eqn:M. cbn [fst].
    destruct (migrate_tree_first st tr n [] [] s1 m1 M V W) as [X1 [W1 [_ [_ [T1 [Fr1 [Len1 [Vn1 SL]]]]]]]].
    { intros x t A. discriminate. }
    { intros x t A. discriminate. }
    { apply Rw. }
    split; [|exact SL]. split; [exact X1|]. split; [exact W1|]. split.
    { intros j x Hx. destruct (Nat.eq_dec j tr) as [->|Nj]; [apply Vn1, Hx|].
      rewrite Fr1 in Hx by exact Nj. pose proof (ext_len n st s1 X1). specialize (Rw j x Hx). lia. }
    split; [exact Len1|]. split; [exact Fr1|]. split; [intro K; congruence|]. intros _. exact T1.
Qed.

Lemma import_all_fold : forall trs st n,
  import_all lower st n trs = fold_left (fun s tr => fst (import_tree lower s n tr (SMigrate true))) trs st.
Proof. induction trs as [|t r IH]; intros st n; cbn [import_all fold_left]; [reflexivity | apply IH]. Qed.

Lemma append_all_fold : forall trs st l,
  append_all lower st l trs = fold_left (fun s tr => fst (append_tree lower s l tr (SMigrate true))) trs st.
Proof. induction trs as [|t r IH]; intros st l; cbn [append_all fold_left]; [reflexivity | apply IH]. Qed.

Lemma l_ns_list_push : forall st l tr, l_ns (getlist (list_push st l tr) l) = l_ns (getlist st l).
Proof.
  intros st l tr. unfold list_push, getlist, set_list. cbn [s_lists].
  destruct (nth_error (s_lists st) l) as [L|] eqn:E.
  - erewrite (nth_error_some_nth _ (upd (s_lists st) l _) l dlist); [|eapply nth_error_upd_same; exact E]. reflexivity.
  - apply nth_error_None in E. rewrite !nth_overflow; [reflexivity | exact E | rewrite upd_length; exact E].
Qed.

(* slice assignment from an iterable of trees *)
Lemma import_all_first : forall n trs st,
  wf_ns n st -> refs_wf st -> (forall tr, In tr trs -> tr < length (s_trees st)) ->
  let st' := import_all lower st n trs in
  ext n st st' /\ wf_ns n st' /\ refs_wf st' /\ length (s_trees st') = length (s_trees st)
  /\ (forall tr, In tr trs -> Nat.eqb (t_ns (gettree st tr)) n = false -> tree_resolved st st' n [] tr tr).
Proof.
  intros n trs st W Rw V. cbv zeta. rewrite import_all_fold.
  destruct (fold_first n (fun s tr => fst (import_tree lower s n tr (SMigrate true))) (fun _ => True)) with (trs := trs) (st := st)
    as [_ [X [W2 [Rw2 [Len [_ Res]]]]]]; try assumption; [|exact Logic.I|].
  - intros s tr _ Ws Rs Vs. split; [exact Logic.I|]. apply import_step_spec; assumption.
  - split; [exact X|]. split; [exact W2|]. split; [exact Rw2|]. split; [exact Len | exact Res].
Qed.

(* extend / += from an iterable of trees: self.append(t) for each *)
Lemma append_all_first : forall l trs st,
  let n := l_ns (getlist st l) in
  wf_ns n st -> refs_wf st -> (forall tr, In tr trs -> tr < length (s_trees st)) ->
  let st' := append_all lower st l trs in
  ext n st st' /\ wf_ns n st' /\ refs_wf st' /\ length (s_trees st') = length (s_trees st)
  /\ (forall tr, In tr trs -> Nat.eqb (t_ns (gettree st tr)) n = false -> tree_resolved st st' n [] tr tr).
Proof.
  intros l trs st n W Rw V. cbv zeta. rewrite append_all_fold.
  destruct (fold_first n (fun s tr => fst (append_tree lower s l tr (SMigrate true))) (fun s => l_ns (getlist s l) = n))
    with (trs := trs) (st := st) as [_ [X [W2 [Rw2 [Len [_ Res]]]]]]; try assumption; [|reflexivity|].
  - intros s tr Is Ws Rs Vs. unfold append_tree. rewrite Is.
    destruct (import_step_spec n s tr Ws Rs Vs) as [P SL].
    destruct (import_tree lower s n tr (SMigrate true)) as [s1 ok] eqn:Q. cbn [fst] in P, SL.
    assert (Ok : ok = true).
    { unfold import_tree in Q. destruct (Nat.eqb (t_ns (gettree s tr)) n); injection Q as _ Q; symmetry; exact Q. }
    subst ok. cbn [fst]. split.
    + rewrite l_ns_list_push. unfold getlist. rewrite SL. exact Is.
    + eapply imp_step_same; [| | | |exact P]; reflexivity.
  - split; [exact X|]. split; [exact W2|]. split; [exact Rw2|]. split; [exact Len | exact Res].
Qed.

(* ================= the clone route =================
   Tree(t0, taxon_namespace=n): Tree._clone_from maps every MEMBER of the source namespace by label
   (memo[t1] = n.require_taxon(t1.label)); a node taxon that is not a member of the source namespace is
   deep-copied into a free Taxon object - hence the premise In x (members ..) below. *)
Definition clone_resolved (st st' : state) (n src dst : oid) : Prop :=
  let refs := t_refs (gettree st src) in
  let refs' := t_refs (gettree st' dst) in
  t_ns (gettree st' dst) = n /\ length refs' = length refs /\
  forall i, i < length refs -> In (nth i refs 0) (members st (t_ns (gettree st src))) ->
    first_match lower st' n (ns_cs st' n) (label st (nth i refs 0)) = Some (nth i refs' 0).

Definition mem_wf (st : state) : Prop := forall n, wf_ns n st.

Lemma require_taxon_other : forall st n l cs st' t n',
  require_taxon lower st n l cs = (st', t) -> n' <> n -> members st' n' = members st n'.
Proof.
  intros st n l cs st' t n' H Ne. unfold require_taxon in H. destruct (first_match lower st n cs l).
  - injection H as H1 H2. subst. reflexivity.
  - unfold new_taxon, alloc_taxon in H. injection H as H1 H2. subst. rewrite members_set_members_other by exact Ne. reflexivity.
Qed.

Lemma clone_memo_other : forall n ms st mm st' mm' n',
  clone_memo lower st n ms mm = (st', mm') -> n' <> n -> members st' n' = members st n'.
Proof.
  intros n ms. induction ms as [|x r IH]; intros st mm st' mm' n' H Ne; cbn [clone_memo] in H.
  - injection H as H1 H2. subst. reflexivity.
  - destruct (require_taxon lower st n (label st x) (ns_cs st n)) as [st1 t] eqn:Q.
    rewrite (IH _ _ _ _ _ H Ne). eapply require_taxon_other; eassumption.
Qed.

Lemma clone_refs_keep : forall refs st mm st2 refs' mm',
  clone_refs st refs mm = (st2, refs', mm') ->
  (exists L, s_lab st2 = s_lab st ++ L) /\ s_mem st2 = s_mem st /\ s_cs st2 = s_cs st /\ s_trees st2 = s_trees st
  /\ s_lists st2 = s_lists st
  /\ Forall2 (fun x t => forall t0, alookup x mm = Some t0 -> t = t0) refs refs'.
Proof.
  induction refs as [|x r IH]; intros st mm st2 refs' mm' H; cbn [clone_refs] in H.
  - injection H as H1 H2 H3. subst. split; [exists []; rewrite app_nil_r; reflexivity|]. repeat (split; [reflexivity|]). constructor.
  - destruct (alookup x mm) as [t|] eqn:A.
    + destruct (clone_refs st r mm) as [[s2 r2] m2] eqn:R. injection H as H1 H2 H3. subst.
      destruct (IH _ _ _ _ _ R) as [L [E2 [E3 [E4 [E5 F]]]]]. split; [exact L|]. repeat (split; [assumption|]).
      constructor; [|exact F]. intros t0 A0. congruence.
    + destruct (alloc_taxon st (label st x)) as [s1 t] eqn:Q.
      destruct (clone_refs s1 r ((x, t) :: mm)) as [[s2 r2] m2] eqn:R. injection H as H1 H2 H3. subst.
      unfold alloc_taxon in Q. injection Q as Q1 Q2. subst s1.
      destruct (IH _ _ _ _ _ R) as [[L EL] [E2 [E3 [E4 [E5 F]]]]]. cbn [s_lab s_mem s_cs s_trees s_lists] in *.
      split; [exists ([label st x] ++ L); rewrite EL, app_assoc; reflexivity|]. repeat (split; [assumption|]).
      constructor; [intros t0 A0; congruence|].
      eapply Forall2_imp_in; [|exact F]. intros y ty _ P t0 A0. apply P.
      rewrite alookup_cons. destruct (Nat.eqb y x) eqn:Eq; [|exact A0].
      apply Nat.eqb_eq in Eq. subst y. congruence.
Qed.

Lemma clone_tree_first : forall st tr n st' c,
  clone_tree lower st tr n = (st', c) -> mem_wf st ->
  c = length (s_trees st) /\ ext n st st' /\ mem_wf st' /\ mono st st'
  /\ (exists t, s_trees st' = s_trees st ++ [t]) /\ s_lists st' = s_lists st
  /\ (Nat.eqb (t_ns (gettree st tr)) n = false -> clone_resolved st st' n tr c).
Proof.
  intros st tr n st' c H Mw. unfold clone_tree in H.
  set (sn := t_ns (gettree st tr)) in *.
  assert (P1 : forall st1 mm,
    (if Nat.eqb sn n then (st, map (fun x => (x, x)) (members st sn)) else clone_memo lower st n (members st sn) []) = (st1, mm) ->
    ext n st st1 /\ mem_wf st1 /\ same_objs st st1 /\ mono st st1 /\
    (Nat.eqb sn n = false -> memo_ok lower n (ns_cs st n) st1 mm /\ forall x, In x (members st sn) -> exists t, alookup x mm = Some t)).
  { intros st1 mm Q. destruct (Nat.eqb sn n) eqn:E.
    - injection Q as Q1 Q2. subst st1. split; [apply ext_refl|]. split; [exact Mw|].
      split; [repeat split; reflexivity|]. split; [intros a b K; exact K|]. intro K. discriminate.
    - destruct (clone_memo_first lower n (ns_cs st n) _ _ _ _ _ Q eq_refl (Mw n)) as [X [W1 Mo]].
      { intros x t A. discriminate. }
      { apply (Mw sn). }
      destruct (clone_memo_spec lower _ _ _ _ _ _ Q) as [[So Mn] [_ [Cov _]]]. { intros x t A. discriminate. }
      split; [exact X|]. split.
      { intros n' y Hy. destruct (Nat.eq_dec n' n) as [->|Ne]; [apply W1, Hy|].
        rewrite (clone_memo_other _ _ _ _ _ _ n' Q Ne) in Hy. pose proof (ext_len n st st1 X). specialize (Mw n' y Hy). lia. }
      split; [exact So|]. split; [exact Mn|]. intros _. split; [exact Mo | exact Cov]. }
  destruct (if Nat.eqb sn n then (st, map (fun x => (x, x)) (members st sn)) else clone_memo lower st n (members st sn) [])
    as [st1 mm] eqn:Q1.
  destruct (P1 st1 mm eq_refl) as [X1 [Mw1 [[T1 [L1 _]] [Mn1 Ok1]]]]. clear P1.
  destruct (clone_refs st1 (t_refs (gettree st tr)) mm) as [[st2 refs'] m2] eqn:Q2.
  destruct (clone_refs_keep _ _ _ _ _ _ Q2) as [[L EL] [E2 [E3 [E4 [E5 F]]]]].
  unfold alloc_tree in H. injection H as H1 H2. subst st' c.
  assert (X12 : ext n st1 st2).
  { split; [exists L; exact EL|]. unfold members, ns_cs. rewrite E2, E3. split; [exists []; rewrite app_nil_r; reflexivity | reflexivity]. }
  split; [rewrite E4, T1; reflexivity|].
  assert (X : ext n st st2) by (eapply ext_trans; eassumption).
  split; [exact X|]. split.
  { intros n' y Hy. unfold members in Hy. cbn [s_mem s_lab] in *. rewrite E2 in Hy. specialize (Mw1 n' y Hy).
    rewrite EL, app_length. lia. }
  split. { intros n' y Hy. unfold members. cbn [s_mem]. rewrite E2. apply Mn1, Hy. }
  split; [eexists; cbn [s_trees]; rewrite E4, T1; reflexivity|]. split; [cbn [s_lists]; rewrite E5; exact L1|].
  intro Ne. destruct (Ok1 Ne) as [Mo Cov]. unfold clone_resolved.
  assert (G : gettree (mkSt (s_lab st2) (s_mem st2) (s_cs st2) (s_nns st2) (s_trees st2 ++ [mkTree n refs']) (s_lists st2)
                (s_mats st2) (s_dss st2)) (length (s_trees st2)) = mkTree n refs').
  { unfold gettree. cbn [s_trees]. rewrite app_nth2 by lia. rewrite Nat.sub_diag. reflexivity. }
  rewrite G. cbn [t_ns t_refs]. split; [reflexivity|]. pose proof (Forall2_len _ _ _ _ _ F) as Len. split; [symmetry; exact Len|].
  intros i Hi Hin. fold sn in Hin. destruct (Cov _ Hin) as [t0 A0]. destruct (Mo _ _ A0) as [Vx Fm].
  pose proof (Forall2_nth _ _ _ _ _ 0 0 i F Hi) as K. cbv beta in K. specialize (K t0 A0). subst t0.
  assert (Vs : nth i (t_refs (gettree st tr)) 0 < length (s_lab st)) by (apply (Mw sn), Hin).
  rewrite (label_ext n st st1 _ X1 Vs) in Fm.
  assert (Ecs : ns_cs st2 n = ns_cs st n) by apply X.
  change (first_match lower st2 n (ns_cs st2 n) (label st (nth i (t_refs (gettree st tr)) 0)) = Some (nth i refs' 0)).
  rewrite Ecs. eapply first_match_stable; [exact X12 | apply Mw1 | exact Fm].
Qed.

Lemma clone_resolved_same : forall st a b n s d,
  s_lab b = s_lab a -> s_mem b = s_mem a -> s_cs b = s_cs a -> s_trees b = s_trees a ->
  clone_resolved st a n s d -> clone_resolved st b n s d.
Proof.
  intros st a b n s d E1 E2 E3 E4 H. unfold clone_resolved, first_match, members, ns_cs, gettree, matches, label in *.
  rewrite E1, E2, E3, E4. exact H.
Qed.

Lemma clone_resolved_ext : forall st a b n s d,
  ext n a b -> wf_ns n a -> gettree b d = gettree a d ->
  clone_resolved st a n s d -> clone_resolved st b n s d.
Proof.
  intros st a b n s d X W G [H1 [H2 H3]]. unfold clone_resolved. rewrite G. split; [exact H1|]. split; [exact H2|].
  intros i Hi A0. assert (E : ns_cs b n = ns_cs a n) by apply X. rewrite E.
  eapply first_match_stable; [exact X | exact W | apply H3; assumption].
Qed.

Lemma clone_resolved_pre : forall st st1 st' n s d,
  gettree st1 s = gettree st s -> mono st st1 ->
  (forall x, In x (members st (t_ns (gettree st s))) -> label st1 x = label st x) ->
  clone_resolved st1 st' n s d -> clone_resolved st st' n s d.
Proof.
  intros st st1 st' n s d G Mn L [H1 [H2 H3]]. unfold clone_resolved. rewrite G in *. split; [exact H1|]. split; [exact H2|].
  intros i Hi Hin. rewrite <- L by exact Hin. apply H3; [exact Hi|]. apply Mn, Hin.
Qed.

Definition clone_step (n : oid) (st st1 : state) (tr : oid) : Prop :=
  ext n st st1 /\ mem_wf st1 /\ mono st st1 /\ (exists t, s_trees st1 = s_trees st ++ [t])
  /\ (Nat.eqb (t_ns (gettree st tr)) n = false -> clone_resolved st st1 n tr (length (s_trees st))).

Lemma clone_step_same : forall n st a b tr,
  s_lab b = s_lab a -> s_mem b = s_mem a -> s_cs b = s_cs a -> s_trees b = s_trees a ->
  clone_step n st a tr -> clone_step n st b tr.
Proof.
  intros n st a b tr E1 E2 E3 E4 [X [Mw [Mn [T Re]]]].
  unfold clone_step, ext, mem_wf, wf_ns, mono, members, ns_cs in *. rewrite E1, E2, E3, E4.
  split; [exact X|]. split; [exact Mw|]. split; [exact Mn|]. split; [exact T|].
  intro Ne. eapply clone_resolved_same; [exact E1|exact E2|exact E3|exact E4|]. apply Re, Ne.
Qed.

Section CloneFold.
Variable n : oid.
Variable g : state -> oid -> state.
Variable I : state -> Prop.
Hypothesis g_spec : forall st tr, I st -> mem_wf st -> I (g st tr) /\ clone_step n st (g st tr) tr.

Lemma clone_fold_first : forall trs st,
  I st -> mem_wf st -> (forall tr, In tr trs -> tr < length (s_trees st)) ->
  let st' := fold_left g trs st in
  I st' /\ ext n st st' /\ mem_wf st' /\ mono st st'
  /\ (exists T, s_trees st' = s_trees st ++ T /\ length T = length trs)
  /\ (forall j, j < length trs -> Nat.eqb (t_ns (gettree st (nth j trs 0))) n = false ->
        clone_resolved st st' n (nth j trs 0) (length (s_trees st) + j)).
Proof.
  induction trs as [|t0 r IH]; intros st Hi Mw V; cbn [fold_left]; cbv zeta.
  - split; [exact Hi|]. split; [apply ext_refl|]. split; [exact Mw|]. split; [intros a b K; exact K|].
    split; [exists []; rewrite app_nil_r; split; reflexivity|]. intros j Hj. simpl in Hj. lia.
  - destruct (g_spec st t0 Hi Mw) as [Hi1 [X1 [Mw1 [Mn1 [[t T1] Re1]]]]].
    assert (Fr1 : forall j, j < length (s_trees st) -> gettree (g st t0) j = gettree st j).
    { intros j Hj. unfold gettree. rewrite T1. apply app_nth1. exact Hj. }
    specialize (IH (g st t0) Hi1 Mw1). cbv zeta in IH.
    destruct IH as [Hi2 [X2 [Mw2 [Mn2 [[T [T2 LT]] Re2]]]]].
    { intros tr Htr. rewrite T1, app_length. specialize (V tr (or_intror Htr)). lia. }
    split; [exact Hi2|]. split; [eapply ext_trans; eassumption|]. split; [exact Mw2|].
    split; [intros a b K; apply Mn2, Mn1, K|].
    split; [exists ([t] ++ T); split; [rewrite T2, T1, app_assoc; reflexivity | rewrite app_length, LT; reflexivity]|].
    intros j Hj Ne. destruct j as [|j]; cbn [nth] in *.
    + rewrite Nat.add_0_r. specialize (Re1 Ne). eapply clone_resolved_ext; [exact X2 | apply Mw1 | | exact Re1].
      unfold gettree. rewrite T2. apply app_nth1. rewrite T1, app_length. simpl. lia.
    + assert (Vj : nth j r 0 < length (s_trees st)) by (apply V; right; apply nth_In; simpl in Hj; lia).
      assert (G : gettree (g st t0) (nth j r 0) = gettree st (nth j r 0)) by (apply Fr1, Vj).
      assert (Re : clone_resolved (g st t0) (fold_left g r (g st t0)) n (nth j r 0) (length (s_trees (g st t0)) + j)).
      { apply Re2; [simpl in Hj; lia | rewrite G; exact Ne]. }
      rewrite T1, app_length in Re. cbn [length] in Re.
      replace (length (s_trees st) + S j) with (length (s_trees st) + 1 + j) by lia.
      eapply clone_resolved_pre; [exact G | exact Mn1 | | exact Re].
      intros x Hx. apply (label_ext n st (g st t0) x X1). apply (Mw _ x Hx).
Qed.
End CloneFold.

Lemma clone_step_spec : forall n st tr, mem_wf st ->
  clone_step n st (fst (clone_tree lower st tr n)) tr
  /\ s_lists (fst (clone_tree lower st tr n)) = s_lists st /\ snd (clone_tree lower st tr n) = length (s_trees st).
Proof.
  intros n st tr Mw. destruct (clone_tree lower st tr n) as [s1 c] eqn:Q. cbn [fst snd].
  destruct (clone_tree_first st tr n s1 c Q Mw) as [Ec [X [Mw1 [Mn [T [SL Re]]]]]].
  split; [|split; [exact SL | exact Ec]]. split; [exact X|]. split; [exact Mw1|]. split; [exact Mn|]. split; [exact T|].
  intro Ne. rewrite <- Ec. apply Re, Ne.
Qed.

Lemma clone_all_fold : forall trs st n acc,
  fst (clone_all lower st n trs acc) = fold_left (fun s tr => fst (clone_tree lower s tr n)) trs st.
Proof.
  induction trs as [|t r IH]; intros st n acc; cbn [clone_all fold_left]; [reflexivity|].
  destruct (clone_tree lower st t n) as [s1 c]. cbn [fst]. apply IH.
Qed.

Lemma clone_push_all_fold : forall trs st l,
  clone_push_all lower st l trs
  = fold_left (fun s tr => list_push (fst (clone_tree lower s tr (l_ns (getlist s l)))) l
                                     (snd (clone_tree lower s tr (l_ns (getlist s l))))) trs st.
Proof.
  induction trs as [|t r IH]; intros st l; cbn [clone_push_all fold_left]; [reflexivity|].
  destruct (clone_tree lower st t (l_ns (getlist st l))) as [s1 c]. cbn [fst snd]. apply IH.
Qed.

(* slice assignment from a TreeList *)
Lemma clone_all_first : forall n trs st acc,
  mem_wf st -> (forall tr, In tr trs -> tr < length (s_trees st)) ->
  let st' := fst (clone_all lower st n trs acc) in
  ext n st st' /\ mem_wf st'
  /\ (forall j, j < length trs -> Nat.eqb (t_ns (gettree st (nth j trs 0))) n = false ->
        clone_resolved st st' n (nth j trs 0) (length (s_trees st) + j)).
Proof.
  intros n trs st acc Mw V. cbv zeta. rewrite clone_all_fold.
  destruct (clone_fold_first n (fun s tr => fst (clone_tree lower s tr n)) (fun _ => True)) with (trs := trs) (st := st)
    as [_ [X [Mw2 [_ [_ Res]]]]]; try assumption; [|exact Logic.I|].
  - intros s tr _ Ms. split; [exact Logic.I|]. apply clone_step_spec. exact Ms.
  - split; [exact X|]. split; [exact Mw2 | exact Res].
Qed.

(* extend / += / + from a TreeList *)
Lemma clone_push_all_first : forall l trs st,
  let n := l_ns (getlist st l) in
  mem_wf st -> (forall tr, In tr trs -> tr < length (s_trees st)) ->
  let st' := clone_push_all lower st l trs in
  ext n st st' /\ mem_wf st' /\ l_ns (getlist st' l) = n
  /\ (exists T, s_trees st' = s_trees st ++ T)
  /\ (forall j, j < length trs -> Nat.eqb (t_ns (gettree st (nth j trs 0))) n = false ->
        clone_resolved st st' n (nth j trs 0) (length (s_trees st) + j)).
Proof.
  intros l trs st n Mw V. cbv zeta. rewrite clone_push_all_fold.
  destruct (clone_fold_first n
     (fun s tr => list_push (fst (clone_tree lower s tr (l_ns (getlist s l)))) l (snd (clone_tree lower s tr (l_ns (getlist s l)))))
     (fun s => l_ns (getlist s l) = n)) with (trs := trs) (st := st)
    as [In2 [X [Mw2 [_ [[T [ET _]] Res]]]]]; try assumption; [|reflexivity|].
  - intros s tr Is Ms. rewrite Is. destruct (clone_step_spec n s tr Ms) as [P [SL _]]. split.
    + rewrite l_ns_list_push. unfold getlist. rewrite SL. exact Is.
    + eapply clone_step_same; [| | | |exact P]; reflexivity.
  - split; [exact X|]. split; [exact Mw2|]. split; [exact In2|]. split; [exists T; exact ET | exact Res].
Qed.

(* ================= the matrix route =================
   CharacterMatrix.reconstruct_taxon_namespace(unify_taxa_by_label=True, taxon_mapping_memo=mm): the keys of
   _taxon_sequence_map are re-mapped one after the other (the old key is deleted, the new one appended); when
   the call succeeds (no TaxonNamespaceReconstructionError) the rows afterwards are the resolved taxa in the
   original row order. *)
Definition mat_resolved (st st' : state) (n : oid) (m0 : list (oid * oid)) (m : oid) : Prop :=
  let rows := m_rows (getmat st m) in
  let rows' := m_rows (getmat st' m) in
  m_ns (getmat st' m) = n /\ length rows' = length rows /\
  forall i, i < length rows -> alookup (nth i rows 0) m0 = None ->
    first_match lower st' n (ns_cs st' n) (label st (nth i rows 0)) = Some (nth i rows' 0).

Lemma remove_id_notin : forall x l, ~ In x l -> remove_id x l = l.
Proof.
  intros x l. induction l as [|y r IH]; intro H; cbn [remove_id]; [reflexivity|].
  destruct (Nat.eqb x y) eqn:E.
  - apply Nat.eqb_eq in E. subst. exfalso. apply H. left. reflexivity.
  - rewrite IH; [reflexivity|]. intro K. apply H. right. exact K.
Qed.

Lemma NoDup_snoc : forall (l : list nat) t, NoDup l -> ~ In t l -> NoDup (l ++ [t]).
Proof.
  intros l t N H. induction N as [|y r Hy N IH]; cbn [app]; [constructor; [intros []|constructor]|].
  constructor.
  - intro K. apply in_app_or in K. destruct K as [K|[K|[]]]; [exact (Hy K)|]. subst. apply H. left. reflexivity.
  - apply IH. intro K. apply H. right. exact K.
Qed.

Lemma recon_rows_first : forall n cs m0 orig acc st mm st' rows' mm',
  recon_rows lower st n true orig (orig ++ acc) mm = (st', rows', mm', true) ->
  ns_cs st n = cs -> wf_ns n st -> memo_ok0 m0 n cs st mm -> memo_valid st mm -> NoDup (orig ++ acc) ->
  (forall x, In x orig -> x < length (s_lab st)) ->
  ext n st st' /\ wf_ns n st'
  /\ exists ts, rows' = acc ++ ts
     /\ Forall2 (fun x t => alookup x m0 = None -> first_match lower st' n cs (label st x) = Some t) orig ts.
Proof.
  intros n cs m0 orig. induction orig as [|x r IH]; intros acc st mm st' rows' mm' H Ecs W Mo Mv Nd V; cbn [recon_rows] in H.
  - injection H as H1 H2 H3. subst. split; [apply ext_refl|]. split; [exact W|]. exists []. rewrite app_nil_r.
    split; [reflexivity | constructor].
  - cbn [orb] in H. cbn [app] in Nd. inversion Nd as [|x0 l0 Nx Nd']. subst x0 l0.
    assert (Rm : forall t, remove_id x ((x :: r) ++ acc) ++ [t] = r ++ (acc ++ [t])).
    { intro t. cbn [app remove_id]. rewrite Nat.eqb_refl, (remove_id_notin x _ Nx), app_assoc. reflexivity. }
    assert (Vx : x < length (s_lab st)) by (apply V; left; reflexivity).
    destruct (alookup x mm) as [t|] eqn:A.
    + destruct (memb t ((x :: r) ++ acc)) eqn:Mb; [injection H as _ _ _ H; discriminate H|].
      rewrite Rm in H.
      pose proof (add_member_ext st n t) as Xa.
      pose proof (add_member_wf st n t (Mv x t A) W) as Wa.
      assert (Ecs1 : ns_cs (add_member st n t) n = cs) by (rewrite <- Ecs; apply Xa).
      apply memb_false in Mb.
      destruct (IH _ _ _ _ _ _ H Ecs1 Wa) as [X2 [W2 [ts [Er F2]]]].
      * eapply memo_ok0_ext; eassumption.
      * eapply memo_valid_ext; eassumption.
      * rewrite app_assoc. apply NoDup_snoc; [exact Nd'|]. intro K. apply Mb. right. exact K.
      * intros y Hy. pose proof (ext_len n _ _ Xa). specialize (V y (or_intror Hy)). lia.
      * split; [eapply ext_trans; eassumption|]. split; [exact W2|]. exists (t :: ts).
        split; [rewrite Er, <- app_assoc; reflexivity|]. constructor.
        -- intro A0. destruct (Mo x t A A0) as [_ Fm]. eapply first_match_stable; [|exact W|exact Fm].
           eapply ext_trans; eassumption.
        -- eapply Forall2_imp_in; [|exact F2]. intros y ty Hy P A0. cbv beta in P.
           rewrite <- (label_ext n st (add_member st n t) y Xa (V y (or_intror Hy))). apply P, A0.
    + destruct (require_taxon lower st n (label st x) (ns_cs st n)) as [st1 t] eqn:Q.
      destruct (memb t ((x :: r) ++ acc)) eqn:Mb; [injection H as _ _ _ H; discriminate H|].
      rewrite Rm in H. apply memb_false in Mb.
      destruct (require_taxon_first lower _ _ _ _ _ Q W) as [X1 [W1 F1]].
      assert (Ecs1 : ns_cs st1 n = cs) by (rewrite <- Ecs; apply X1).
      destruct (IH _ _ _ _ _ _ H Ecs1 W1) as [X2 [W2 [ts [Er F2]]]].
      * intros y t0 A0 B0. rewrite alookup_cons in A0. destruct (Nat.eqb y x) eqn:Eq.
        -- apply Nat.eqb_eq in Eq. subst y. injection A0 as A0. subst t0.
           split; [pose proof (ext_len n st st1 X1); lia|]. rewrite (label_ext n st st1 x X1 Vx). rewrite <- Ecs. exact F1.
        -- apply (memo_ok0_ext m0 n cs st st1 mm X1 W Mo y t0 A0 B0).
      * intros y t0 A0. rewrite alookup_cons in A0. destruct (Nat.eqb y x) eqn:Eq.
        -- injection A0 as A0. subst t0. destruct (first_match_some lower _ _ _ _ _ F1) as [I _]. apply W1, I.
        -- eapply memo_valid_ext; [exact X1 | exact Mv | exact A0].
      * rewrite app_assoc. apply NoDup_snoc; [exact Nd'|]. intro K. apply Mb. right. exact K.
      * intros y Hy. pose proof (ext_len n st st1 X1). specialize (V y (or_intror Hy)). lia.
      * split; [eapply ext_trans; eassumption|]. split; [exact W2|]. exists (t :: ts).
        split; [rewrite Er, <- app_assoc; reflexivity|]. constructor.
        -- intros _. rewrite <- Ecs. eapply first_match_stable; eassumption.
        -- eapply Forall2_imp_in; [|exact F2]. intros y ty Hy P A0. cbv beta in P.
           rewrite <- (label_ext n st st1 y X1 (V y (or_intror Hy))). apply P, A0.
Qed.

Lemma recon_rows_mats_same : forall n u orig st rows mm st' rows' mm' ok,
  recon_rows lower st n u orig rows mm = (st', rows', mm', ok) -> s_mats st' = s_mats st.
Proof.
  intros n u orig. induction orig as [|x r IH]; intros st rows mm st' rows' mm' ok H; cbn [recon_rows] in H.
  - injection H as H1 _ _ _. subst. reflexivity.
  - destruct (u || negb (memb x (members st n))); [|eapply IH; exact H].
    destruct (alookup x mm) as [t|].
    + destruct (memb t rows).
      * injection H as H1 _ _ _. subst. unfold add_member. destruct (memb t (members st n)); reflexivity.
      * rewrite (IH _ _ _ _ _ _ _ H). unfold add_member. destruct (memb t (members st n)); reflexivity.
    + destruct (if u then require_taxon lower st n (label st x) (ns_cs st n) else new_taxon st n (label st x)) as [s1 t] eqn:Q.
      assert (E1 : s_mats s1 = s_mats st).
      { destruct u; [unfold require_taxon in Q; destruct (first_match lower st n (ns_cs st n) (label st x)); [injection Q as Q1 _; subst; reflexivity|]|];
        unfold new_taxon, alloc_taxon in Q; injection Q as Q1 _; subst; reflexivity. }
      destruct (memb t rows).
      * injection H as H1 _ _ _. subst. exact E1.
      * rewrite (IH _ _ _ _ _ _ _ H). exact E1.
Qed.

Lemma migrate_mat_first : forall st m n mm st' mm',
  migrate_mat lower st m n true mm = (st', mm', true) ->
  m < length (s_mats st) -> wf_ns n st -> memo_valid st mm -> NoDup (m_rows (getmat st m)) ->
  (forall x, In x (m_rows (getmat st m)) -> x < length (s_lab st)) ->
  mat_resolved st st' n mm m.
Proof.
  intros st m n mm st' mm' H V W Mv Nd Vr. unfold migrate_mat in H.
  destruct (recon_rows lower st n true (m_rows (getmat st m)) (m_rows (getmat st m)) mm) as [[[s1 rows'] m1] ok] eqn:R.
  injection H as H1 H2 H3. subst st' mm' ok.
  pose proof (recon_rows_mats_same _ _ _ _ _ _ _ _ _ _ R) as SM.
  rewrite <- (app_nil_r (m_rows (getmat st m))) in R at 2.
  destruct (recon_rows_first n (ns_cs st n) mm _ [] _ _ _ _ _ R eq_refl W) as [X [W1 [ts [Er F]]]].
  { intros x t A A0. rewrite A in A0. discriminate. }
  { exact Mv. }
  { rewrite app_nil_r. exact Nd. }
  { exact Vr. }
  cbn [app] in Er. subst rows'.
  assert (G : getmat (set_mat s1 m (mkMat n ts)) m = mkMat n ts).
  { unfold getmat, set_mat. cbn [s_mats]. destruct (nth_error (s_mats s1) m) as [M0|] eqn:E.
    - apply nth_error_some_nth. eapply nth_error_upd_same. exact E.
    - apply nth_error_None in E. rewrite SM in E. lia. }
  unfold mat_resolved. rewrite G. cbn [m_ns m_rows]. split; [reflexivity|].
  pose proof (Forall2_len _ _ _ _ _ F) as L. split; [symmetry; exact L|].
  intros i Hi A0. pose proof (Forall2_nth _ _ _ _ _ 0 0 i F Hi) as K. cbv beta in K.
  assert (E : ns_cs s1 n = ns_cs st n) by apply X.
  change (first_match lower s1 n (ns_cs s1 n) (label st (nth i (m_rows (getmat st m)) 0)) = Some (nth i ts 0)).
  rewrite E. apply K, A0.
Qed.

(* ---- more about the clone route, for  l + other  (a new list, first the clones of l's own trees, then other) ---- *)
Lemma alookup_idmap_inv : forall x t ms, alookup x (map (fun y => (y, y)) ms) = Some t -> t = x /\ In x ms.
Proof.
  intros x t ms. induction ms as [|y r IH]; cbn [map alookup]; [discriminate|].
  destruct (Nat.eqb x y) eqn:E.
  - intro H. injection H as <-. apply Nat.eqb_eq in E. subst. split; [reflexivity | left; reflexivity].
  - intro H. destruct (IH H) as [A B]. split; [exact A | right; exact B].
Qed.

Lemma clone_phase1 : forall st n sn st1 mm,
  (if Nat.eqb sn n then (st, map (fun x => (x, x)) (members st sn)) else clone_memo lower st n (members st sn) []) = (st1, mm) ->
  mem_wf st ->
  ext n st st1 /\ mem_wf st1 /\ same_objs st st1 /\ memo_valid st1 mm.
Proof.
  intros st n sn st1 mm Q Mw. destruct (Nat.eqb sn n) eqn:E.
  - injection Q as Q1 Q2. subst st1 mm. split; [apply ext_refl|]. split; [exact Mw|].
    split; [repeat split; reflexivity|]. intros x t A. apply alookup_idmap_inv in A. destruct A as [-> I]. apply (Mw sn), I.
  - destruct (clone_memo_first lower n (ns_cs st n) _ _ _ _ _ Q eq_refl (Mw n)) as [X [W1 Mo]].
    { intros x t A. discriminate. }
    { apply (Mw sn). }
    destruct (clone_memo_spec lower _ _ _ _ _ _ Q) as [[So Mn] [Vm _]]. { intros x t A. discriminate. }
    split; [exact X|]. split.
    { intros n' y Hy. destruct (Nat.eq_dec n' n) as [->|Ne]; [apply W1, Hy|].
      rewrite (clone_memo_other _ _ _ _ _ _ n' Q Ne) in Hy. pose proof (ext_len n st st1 X). specialize (Mw n' y Hy). lia. }
    split; [exact So|]. intros x t A. apply W1. eapply Vm. exact A.
Qed.

Lemma clone_refs_valid : forall refs st mm st2 refs' mm',
  clone_refs st refs mm = (st2, refs', mm') -> memo_valid st mm -> forall y, In y refs' -> y < length (s_lab st2).
Proof.
  induction refs as [|x r IH]; intros st mm st2 refs' mm' H Mv; cbn [clone_refs] in H.
  - injection H as H1 H2 H3. subst. intros y [].
  - destruct (alookup x mm) as [t|] eqn:A.
    + destruct (clone_refs st r mm) as [[s2 r2] m2] eqn:R. injection H as H1 H2 H3. subst.
      destruct (clone_refs_keep _ _ _ _ _ _ R) as [[L EL] _].
      intros y [Hy|Hy]; [|eapply IH; eassumption]. subst y. specialize (Mv x t A). rewrite EL, app_length. lia.
    + destruct (alloc_taxon st (label st x)) as [s1 t] eqn:Q.
      destruct (clone_refs s1 r ((x, t) :: mm)) as [[s2 r2] m2] eqn:R. injection H as H1 H2 H3. subst.
      unfold alloc_taxon in Q. injection Q as Q1 Q2. subst s1 t.
      destruct (clone_refs_keep _ _ _ _ _ _ R) as [[L EL] _]. cbn [s_lab] in EL.
      assert (Mv1 : memo_valid (mkSt (s_lab st ++ [label st x]) (s_mem st) (s_cs st) (s_nns st) (s_trees st) (s_lists st)
                                    (s_mats st) (s_dss st)) ((x, length (s_lab st)) :: mm)).
      { intros y t0 A0. cbn [s_lab]. rewrite app_length. cbn [length]. rewrite alookup_cons in A0.
        destruct (Nat.eqb y x); [injection A0 as <-; lia|]. specialize (Mv y t0 A0). lia. }
      intros y [Hy|Hy]; [|eapply IH; eassumption]. subst y. rewrite EL, !app_length. cbn [length]. lia.
Qed.

Lemma clone_tree_refs_wf : forall st tr n st' c,
  clone_tree lower st tr n = (st', c) -> mem_wf st -> refs_wf st -> refs_wf st'.
Proof.
  intros st tr n st' c H Mw Rw. unfold clone_tree in H.
  set (sn := t_ns (gettree st tr)) in *.
  destruct (if Nat.eqb sn n then (st, map (fun x => (x, x)) (members st sn)) else clone_memo lower st n (members st sn) [])
    as [st1 mm] eqn:Q1.
  destruct (clone_phase1 _ _ _ _ _ Q1 Mw) as [X1 [Mw1 [[T1 _] Mv1]]].
  destruct (clone_refs st1 (t_refs (gettree st tr)) mm) as [[st2 refs'] m2] eqn:Q2.
  destruct (clone_refs_keep _ _ _ _ _ _ Q2) as [[L EL] [E2 [E3 [E4 [E5 F]]]]].
  pose proof (clone_refs_valid _ _ _ _ _ _ Q2 Mv1) as Vn.
  unfold alloc_tree in H. injection H as H1 H2. subst st' c.
  intros j y Hy. unfold gettree in Hy. cbn [s_trees s_lab] in *.
  destruct (Nat.lt_ge_cases j (length (s_trees st2))) as [Lt|Ge].
  - rewrite app_nth1 in Hy by exact Lt. rewrite E4, T1 in Hy. specialize (Rw j y Hy).
    pose proof (ext_len n st st1 X1). rewrite EL, app_length. lia.
  - destruct (Nat.eq_dec j (length (s_trees st2))) as [->|Nj].
    + rewrite app_nth2, Nat.sub_diag in Hy by lia. cbn [nth t_refs] in Hy. apply Vn, Hy.
    + rewrite nth_overflow in Hy by (rewrite app_length; cbn [length]; lia). destruct Hy.
Qed.

(* extend / += / + from a TreeList, with everything the two-phase  l + other  needs *)
Lemma clone_push_all_full : forall l trs st,
  let n := l_ns (getlist st l) in
  mem_wf st -> refs_wf st -> (forall tr, In tr trs -> tr < length (s_trees st)) ->
  let st' := clone_push_all lower st l trs in
  ext n st st' /\ mem_wf st' /\ refs_wf st' /\ mono st st' /\ l_ns (getlist st' l) = n
  /\ (forall l2, l2 <> l -> getlist st' l2 = getlist st l2)
  /\ (exists T, s_trees st' = s_trees st ++ T /\ length T = length trs)
  /\ (forall j, j < length trs -> Nat.eqb (t_ns (gettree st (nth j trs 0))) n = false ->
        clone_resolved st st' n (nth j trs 0) (length (s_trees st) + j)).
Proof.
  intros l trs st n Mw Rw V. cbv zeta. rewrite clone_push_all_fold.
  destruct (clone_fold_first n
     (fun s tr => list_push (fst (clone_tree lower s tr (l_ns (getlist s l)))) l (snd (clone_tree lower s tr (l_ns (getlist s l)))))
     (fun s => l_ns (getlist s l) = n /\ refs_wf s /\ forall l2, l2 <> l -> getlist s l2 = getlist st l2))
    with (trs := trs) (st := st)
    as [[In2 [Rw2 Fr2]] [X [Mw2 [Mn2 [T Res]]]]]; try assumption.
  - intros s tr [Is [Rs Fs]] Ms. rewrite Is. destruct (clone_step_spec n s tr Ms) as [P [SL _]].
    destruct (clone_tree lower s tr n) as [s1 c] eqn:Q. cbn [fst snd] in *. split; [split; [|split]|].
    + rewrite l_ns_list_push. unfold getlist. rewrite SL. exact Is.
    + pose proof (clone_tree_refs_wf _ _ _ _ _ Q Ms Rs) as K. exact K.
    + intros l2 Nl. rewrite <- (Fs l2 Nl). unfold getlist, list_push, set_list. cbn [s_lists]. rewrite <- SL.
      apply nth_error_eq_nth'. apply nth_error_upd_other. exact Nl.
    + eapply clone_step_same; [| | | |exact P]; reflexivity.
  - split; [reflexivity|]. split; [exact Rw|]. reflexivity.
  - split; [exact X|]. split; [exact Mw2|]. split; [exact Rw2|]. split; [exact Mn2|]. split; [exact In2|].
    split; [exact Fr2|]. split; [exact T | exact Res].
Qed.

End WithLower.
