(* C13 (second wave): DataSet.get WITHOUT a namespace argument (a NEW TaxonNamespace per TAXA
   block: c1 = not attached, FacNew) against the routes that read into ONE namespace attached to
   the reader (c2).  As long as the first run creates at most one namespace object, the second run
   does exactly the same: same tokenizer moves, same namespace content, same trees per block.
   (With two or more namespaces the routes can differ: see Props/C13.v, dataset_multi_namespace_refuted.) *)
From Coq Require Import ZArith List Bool Lia.
From DV Require Import Model.PyPrims Model.C13Model Proofs.C13Lists Proofs.C13Lockstep Proofs.C13Suffix
  Proofs.C13Blocks Proofs.C13Namespace Proofs.C13Grows.
Import ListNotations.

(* the second run owns its (empty) namespace from the start; the first creates it on demand *)
Definition lift (k : core) : core :=
  match k_nss k with [] => mkCore (k_z k) (k_ntax k) [[]] | _ => k end.
Definition small (k : core) : Prop := (length (k_nss k) <= 1)%nat.
Definition has_ns (k : core) : Prop := k_nss k <> [].
Definition ids_ok (k : core) (g : regs) : Prop := Forall (fun i => (i < length (k_nss k))%nat) (g_reg g).

Lemma lift_z : forall k, k_z (lift k) = k_z k.
Proof. intros [z0 n nss]. destruct nss; reflexivity. Qed.
Lemma lift_ntax : forall k, k_ntax (lift k) = k_ntax k.
Proof. intros [z0 n nss]. destruct nss; reflexivity. Qed.
Lemma lift_set_z : forall k z, lift (set_z k z) = set_z (lift k) z.
Proof. intros [z0 n nss] z. destruct nss; reflexivity. Qed.
Lemma lift_set_ntax : forall k n, lift (set_ntax k n) = set_ntax (lift k) n.
Proof. intros [z0 n0 nss] n. destruct nss; reflexivity. Qed.
Lemma lift_has : forall k, has_ns k -> lift k = k.
Proof. intros [z0 n nss] H. unfold lift, has_ns in *. simpl in *. destruct nss; [congruence | reflexivity]. Qed.
Lemma lift_has_ns : forall k, has_ns (lift k).
Proof. intros [z0 n nss]. unfold lift, has_ns. simpl. destruct nss; simpl; discriminate. Qed.
Lemma lift_lift : forall k, lift (lift k) = lift k.
Proof. intros k. apply lift_has. apply lift_has_ns. Qed.
Lemma lift_taxa0 : forall k, ns_taxa_at (lift k) 0 = ns_taxa_at k 0.
Proof. intros [z0 n nss]. unfold lift, ns_taxa_at. simpl. destruct nss; reflexivity. Qed.

Lemma small_of_grows : forall k k', kgrows k k' -> small k' -> small k.
Proof. intros k k' [L _] S. unfold small in *. lia. Qed.
Lemma has_of_grows : forall k k', kgrows k k' -> has_ns k -> has_ns k'.
Proof. intros k k' [L _] H. unfold has_ns in *. destruct (k_nss k); [congruence|]. destruct (k_nss k'); [simpl in L; lia | discriminate]. Qed.

Lemma zstep_lift : forall k f, zstep (lift k) f = match zstep k f with Ok k' => Ok (lift k') | Err e => Err e | OutOfFuel => OutOfFuel end.
Proof.
  intros k f. unfold zstep. rewrite lift_z. destruct (f (k_z k)); cbn [bind]; try reflexivity.
  rewrite lift_set_z. reflexivity.
Qed.

Section Single.
Variable T : Type.
Variables lower upper : str -> str.
Variable parse_tree : mapper -> tz -> res (option T * mapper * tz).
Variable set_label : T -> option str -> T.
Variable add_comments : T -> list str -> T.
Variable vl : bool.
Variable vs : bool.
Variable fac : tns_factory.
Variable tlf : tl_factory.
Variable et : bool.

Hypothesis parse_tree_grows : forall m z ot m' z',
  parse_tree m z = Ok (ot, m', z') -> prefix_of (m_ns m) (m_ns m').

Notation c1 := (mkNsCfg false FacNew).
Notation c2 := (mkNsCfg true fac).

Lemma new_tns_A : forall k g t i k' g',
  new_tns c1 k g t = (i, k', g') -> small k' -> ids_ok k g ->
  i = O /\ k' = lift k /\ has_ns k' /\ ids_ok k' g'.
Proof.
  intros k g t i k' g' H S I. unfold new_tns in H. simpl in H. inversion H; subst; clear H.
  unfold small in S. simpl in S. rewrite app_length in S. simpl in S.
  destruct (k_nss k) as [|n r] eqn:E; [|simpl in S; lia].
  unfold ids_ok in I. rewrite E in I. simpl in I.
  assert (R : g_reg g = []).
  { destruct (g_reg g) as [|x r]; [reflexivity|]. inversion I; subst. lia. }
  repeat split.
  - unfold lift. rewrite E. reflexivity.
  - unfold has_ns. simpl. discriminate.
  - unfold ids_ok. simpl. rewrite R. simpl. constructor; [lia | constructor].
Qed.

Lemma new_tns_B : forall k g t, new_tns c2 k g t = (O, k, g).
Proof. reflexivity. Qed.
Lemma get_tns_B : forall k g t, get_tns upper c2 k g t = Ok (O, k, g).
Proof. reflexivity. Qed.

Lemma get_tns_A : forall k g t i k' g',
  get_tns upper c1 k g t = Ok (i, k', g') -> small k' -> ids_ok k g ->
  i = O /\ k' = lift k /\ has_ns k' /\ ids_ok k' g'.
Proof.
  intros k g t i k' g' H S I. unfold get_tns in H. simpl in H.
  assert (REG : forall x, In x (g_reg g) -> k' = k -> x = O /\ has_ns k).
  { intros x Hx E. subst k'. unfold ids_ok in I. rewrite Forall_forall in I. apply I in Hx.
    unfold small in S. split; [lia|]. unfold has_ns. destruct (k_nss k); [simpl in Hx; lia | discriminate]. }
  destruct t as [t|].
  - match type of H with match ?f with _ => _ end = _ => destruct f as [|x [|y r]] eqn:EF end; try discriminate.
    inversion H; subst.
    assert (Hx : In i (g_reg g')).
    { assert (X : In i (filter (fun i0 => match nth i0 (g_labels g') None with
                                           | Some l => str_eqb (upper l) (upper t) | None => false end) (g_reg g')))
        by (rewrite EF; left; reflexivity).
      apply filter_In in X. tauto. }
    destruct (REG i Hx eq_refl) as [A B]. repeat split; auto. symmetry. apply lift_has. assumption.
  - destruct (g_reg g) as [|x [|y r]] eqn:ER; try discriminate.
    + assert (H1 : new_tns c1 k g None = (i, k', g')) by congruence. exact (new_tns_A k g None i k' g' H1 S I).
    + inversion H; subst. destruct (REG i (or_introl eq_refl) eq_refl) as [A B].
      repeat split; auto. symmetry. apply lift_has. assumption.
Qed.

(* the namespace of the locals / of the TAXA block, once chosen, is namespace 0 and exists *)
Definition ns_ok (k : core) (o : option nat) : Prop := o = None \/ (o = Some O /\ has_ns k).

Lemma ns_ok_grows : forall k k' o, kgrows k k' -> ns_ok k o -> ns_ok k' o.
Proof. intros k k' o G [H|[H1 H2]]; [left; assumption | right; split; [assumption | eapply has_of_grows; eassumption]]. Qed.

Lemma loc_get_ns_A : forall k g l i k' g',
  loc_get_ns upper c1 k g l = Ok (i, k', g') -> small k' -> ids_ok k g -> ns_ok k (l_ns l) ->
  i = O /\ k' = lift k /\ has_ns k' /\ ids_ok k' g'
  /\ forall gB, loc_get_ns upper c2 (lift k) gB l = Ok (O, lift k, gB).
Proof.
  intros k g l i k' g' H S I N. unfold loc_get_ns in *. destruct N as [N|[N HN]]; rewrite N in *.
  - destruct (get_tns_A _ _ _ _ _ _ H S I) as [A [B [C D]]]. repeat split; auto.
  - inversion H; subst. repeat split; auto. symmetry. apply lift_has. assumption.
Qed.

Lemma taxlabels_AB : forall fuel z taxa n r,
  taxlabels_loop lower c1 fuel z taxa n = Ok r -> taxlabels_loop lower c2 fuel z taxa n = Ok r.
Proof.
  induction fuel as [|f IH]; intros z taxa n r H; simpl in *; [discriminate|].
  destruct (z_cur z) as [label|]; [|discriminate].
  destruct (str_eqb label K_SEMI); [assumption|].
  destruct (ns_get_taxon lower taxa label).
  - cbn [bind] in *. destruct (require_next_token z); cbn [bind] in *; try discriminate. apply IH. assumption.
  - destruct n as [n|];
      [|cbn [bind] in *; destruct (require_next_token z); cbn [bind] in *; try discriminate; apply IH; assumption].
    rewrite andb_true_r in H.
    destruct (n <=? Z.of_nat (length taxa))%Z; [discriminate|]. simpl andb. cbv iota.
    cbn [bind] in *. destruct (require_next_token z); cbn [bind] in *; try discriminate. apply IH. assumption.
Qed.

Lemma parse_taxlabels_AB : forall fuel k ns k',
  parse_taxlabels lower c1 fuel k ns = Ok k' -> parse_taxlabels lower c2 fuel k ns = Ok k'.
Proof.
  intros fuel k ns k' H. unfold parse_taxlabels in *.
  destruct (require_next_token (k_z k)) as [z1|e|]; cbn [bind] in *; try discriminate.
  destruct (taxlabels_loop lower c1 fuel z1 (ns_taxa_at k ns) (k_ntax k)) as [r|e|] eqn:E; cbn [bind] in H; try discriminate.
  rewrite (taxlabels_AB _ _ _ _ _ E). cbn [bind]. assumption.
Qed.


Lemma ids_ok_z : forall k z g, ids_ok k g -> ids_ok (set_z k z) g.
Proof. intros k z g H. exact H. Qed.
Lemma ids_ok_grows : forall k k' g, kgrows k k' -> ids_ok k g -> ids_ok k' g.
Proof.
  intros k k' g [L _] H. unfold ids_ok in *. rewrite Forall_forall in *. intros x Hx. apply H in Hx. lia.
Qed.

Lemma taxa_loop_AB : forall fuel k g tok tns k' g' gB,
  taxa_loop lower upper c1 fuel k g tok tns = Ok (k', g') -> small k' -> ids_ok k g -> ns_ok k tns ->
  taxa_loop lower upper c2 fuel (lift k) gB tok tns = Ok (lift k', gB) /\ ids_ok k' g'.
Proof.
  induction fuel as [|f IH]; intros k g tok tns k' g' gB H SM I N; [discriminate|].
  cbn [taxa_loop] in *.
  destruct (str_eqb tok K_END || str_eqb tok K_ENDBLOCK); [inversion H; subst; auto|].
  rewrite lift_z.
  destruct (require_next_token_ucase upper (k_z k)) as [z1|e|]; cbn [bind] in *; try discriminate.
  (* the TITLE step *)
  match type of H with bind ?r _ = _ => destruct r as [[[[token2 k2] g2] tns2]|e|] eqn:E2 end; cbn [bind] in H; try discriminate.
  (* the DIMENSIONS step *)
  match type of H with bind ?r _ = _ => destruct r as [k3|e|] eqn:E5 end; cbn [bind] in H; try discriminate.
  assert (G23 : kgrows k2 k3 /\ k_nss k3 = k_nss k2).
  { destruct (str_eqb token2 K_DIMENSIONS).
    - destruct (parse_dimensions upper (S f) (k_z k2) (k_ntax k2)) as [[n z3]|e|]; cbn [bind] in E5; try discriminate.
      inversion E5; subst. split; [apply nss_grows_refl | reflexivity].
    - inversion E5; subst. split; [apply kgrows_refl | reflexivity]. }
  destruct G23 as [G23 NSS3].
  (* growth of the rest, to know that the intermediate states are small *)
  assert (G3' : kgrows k3 k').
  { destruct (str_eqb token2 K_TAXLABELS).
    - destruct (match tns2 with Some i => (i, k3, g2) | None => new_tns c1 k3 g2 None end) as [[i k4] g4] eqn:E7.
      assert (G34 : kgrows k3 k4) by (destruct tns2; [inversion E7; apply kgrows_refl | eapply new_tns_grows; eassumption]).
      destruct (parse_taxlabels lower c1 (S f) (set_z k4 (clear_comments (k_z k4))) i) as [k5|e|] eqn:E8; cbn [bind] in H; try discriminate.
      apply parse_taxlabels_grows in E8. apply taxa_loop_grows in H.
      eapply kgrows_trans; [exact G34|]. eapply kgrows_trans; [exact E8 | exact H].
    - apply taxa_loop_grows in H. exact H. }
  assert (S3 : small k3) by (eapply small_of_grows; eassumption).
  assert (S2 : small k2) by (eapply small_of_grows; eassumption).
  (* the TITLE step on both sides *)
  assert (T2 : (if str_eqb (cur_text z1) K_TITLE
                then do r <- parse_title upper (k_z (set_z (lift k) z1)) ;;
                     let '(title, z2) := r in
                     let '(i, k2b, g2b) := new_tns c2 (set_z (set_z (lift k) z1) z2) gB (Some title) in
                     Ok (title, k2b, g2b, Some i)
                else Ok (cur_text z1, set_z (lift k) z1, gB, tns)) = Ok (token2, lift k2, gB, tns2)
               /\ ids_ok k2 g2 /\ ns_ok k2 tns2).
  { destruct (str_eqb (cur_text z1) K_TITLE).
    - simpl k_z in *. destruct (parse_title upper z1) as [[title z2]|e|]; cbn [bind] in *; try discriminate.
      destruct (new_tns c1 (set_z (set_z k z1) z2) g (Some title)) as [[i k2'] g2'] eqn:E4.
      inversion E2; subst.
      destruct (new_tns_A _ _ _ _ _ _ E4 S2 I) as [A [B [C D]]]. subst i k2.
      rewrite new_tns_B. split; [rewrite lift_lift, !lift_set_z; reflexivity|]. split; [exact D|]. right. split; [reflexivity | exact C].
    - inversion E2; subst. rewrite lift_set_z. split; [reflexivity|]. split; [exact I | exact N]. }
  destruct T2 as [T2 [I2 N2]]. rewrite T2. cbn [bind].
  (* the DIMENSIONS step on both sides *)
  assert (T3 : (if str_eqb token2 K_DIMENSIONS
                then do r <- parse_dimensions upper (S f) (k_z (lift k2)) (k_ntax (lift k2)) ;;
                     let '(n, z3) := r in Ok (set_z (set_ntax (lift k2) n) z3)
                else Ok (lift k2)) = Ok (lift k3)).
  { rewrite lift_z, lift_ntax. destruct (str_eqb token2 K_DIMENSIONS).
    - destruct (parse_dimensions upper (S f) (k_z k2) (k_ntax k2)) as [[n z3]|e|]; cbn [bind] in *; try discriminate.
      inversion E5; subst. rewrite lift_set_z, lift_set_ntax. reflexivity.
    - inversion E5; subst. reflexivity. }
  rewrite T3. cbn [bind].
  assert (I3 : ids_ok k3 g2) by (eapply ids_ok_grows; eassumption).
  assert (N3 : ns_ok k3 tns2) by (eapply ns_ok_grows; eassumption).
  destruct (str_eqb token2 K_TAXLABELS); [|apply (IH _ _ _ _ _ _ gB H SM I3 N3)].
  destruct (match tns2 with Some i => (i, k3, g2) | None => new_tns c1 k3 g2 None end) as [[i k4] g4] eqn:E7.
  destruct (parse_taxlabels lower c1 (S f) (set_z k4 (clear_comments (k_z k4))) i) as [k5|e|] eqn:E8; cbn [bind] in H; try discriminate.
  assert (G45 : kgrows k4 k5) by (apply parse_taxlabels_grows in E8; exact E8).
  assert (S5 : small k5) by (eapply small_of_grows; [eapply taxa_loop_grows; eassumption | assumption]).
  assert (S4 : small k4) by (eapply small_of_grows; eassumption).
  assert (X : i = O /\ k4 = lift k3 /\ has_ns k4 /\ ids_ok k4 g4).
  { destruct N3 as [N3|[N3 HN3]]; subst tns2.
    - exact (new_tns_A _ _ _ _ _ _ E7 S4 I3).
    - inversion E7; subst. repeat split; auto. symmetry. apply lift_has. assumption. }
  destruct X as [X1 [X2 [X3 X4]]]. subst i.
  assert (TB : match tns2 with Some i => (i, lift k3, gB) | None => new_tns c2 (lift k3) gB None end = (O, lift k3, gB)).
  { destruct N3 as [N3|[N3 _]]; subst tns2; reflexivity. }
  rewrite TB. rewrite <- X2.
  rewrite (parse_taxlabels_AB _ _ _ _ E8). cbn [bind].
  assert (H5 : has_ns k5) by (eapply has_of_grows; eassumption).
  assert (I5 : ids_ok k5 g4) by (eapply ids_ok_grows; eassumption).
  destruct (IH _ _ _ _ _ _ gB H SM I5 (or_intror (conj eq_refl H5))) as [R1 R2].
  rewrite (lift_has k5 H5) in R1. split; assumption.
Qed.

Lemma parse_taxa_block_AB : forall fuel k g k' g' gB,
  parse_taxa_block lower upper c1 fuel k g = Ok (k', g') -> small k' -> ids_ok k g ->
  parse_taxa_block lower upper c2 fuel (lift k) gB = Ok (lift k', gB) /\ ids_ok k' g'.
Proof.
  intros fuel k g k' g' gB H SM I. unfold parse_taxa_block in *. rewrite zstep_lift.
  destruct (zstep k (skip_to_semicolon fuel)) as [k1|e|] eqn:E1; cbn [bind] in *; try discriminate.
  destruct (taxa_loop lower upper c1 fuel k1 g [] None) as [[k2 g2]|e|] eqn:E2; cbn [bind] in H; try discriminate.
  destruct (zstep k2 (skip_to_semicolon fuel)) as [k3|e|] eqn:E3; cbn [bind] in H; try discriminate.
  inversion H; subst.
  assert (S2 : small k2) by (eapply small_of_grows; [eapply zstep_grows; eassumption | exact SM]).
  assert (I1 : ids_ok k1 g) by (eapply ids_ok_grows; [eapply zstep_grows; eassumption | assumption]).
  destruct (taxa_loop_AB _ _ _ _ _ _ _ gB E2 S2 I1 (or_introl eq_refl)) as [R1 R2].
  rewrite R1. cbn [bind]. rewrite zstep_lift, E3. cbn [bind]. split; [reflexivity|].
  eapply ids_ok_grows; [eapply zstep_grows; eassumption | assumption].
Qed.


Notation RTL := (r_tree_loop T upper parse_tree set_label add_comments).
Notation RTS cc := (r_trees_loop T lower upper parse_tree set_label add_comments vl cc tlf).
Notation RTB cc := (r_parse_trees_block T lower upper parse_tree set_label add_comments vl cc tlf et).
Notation RBL cc := (r_blocks_loop T lower upper parse_tree set_label add_comments vl cc tlf et vs).
Notation RST cc := (r_parse_nexus_stream T lower upper parse_tree set_label add_comments vl cc tlf et vs).
Notation GRT := (r_trees_loop_grows T lower upper parse_tree set_label add_comments vl c1 tlf parse_tree_grows).

Definition lift_rs (s : rs T) (gB : regs) : rs T := mkRs (lift (r_k s)) gB (r_tls s) (r_tlreg s).

Lemma r_trees_loop_AB : forall fuel k g tls reg l tb s' gB,
  RTS c1 fuel (mkRs k g tls reg) l tb = Ok s' -> small (r_k s') -> ids_ok k g -> ns_ok k (l_ns l) -> loc_ok k l ->
  RTS c2 fuel (mkRs (lift k) gB tls reg) l tb = Ok (lift_rs s' gB) /\ ids_ok (r_k s') (r_g s').
Proof.
  induction fuel as [|f IH]; intros k g tls reg l tb s' gB H SM I N LO; [discriminate|].
  cbn [r_trees_loop r_k r_g r_tls r_tlreg] in *. rewrite lift_z.
  destruct (loop_guard (k_z k) (l_token l)); [|inversion H; subst; simpl; auto].
  rewrite zstep_lift.
  destruct (zstep k (next_token_ucase upper)) as [k1|e|] eqn:E1; cbn [bind] in *; try discriminate.
  assert (G1 : kgrows k k1) by (eapply zstep_grows; eassumption).
  assert (I1 : ids_ok k1 g) by (eapply ids_ok_grows; eassumption).
  assert (N1 : ns_ok k1 (l_ns l)) by (eapply ns_ok_grows; eassumption).
  assert (LO1 : loc_ok k1 l).
  { unfold zstep in E1. destruct (next_token_ucase upper (k_z k)); cbn [bind] in E1; inversion E1; subst. exact LO. }
  rewrite lift_z.
  destruct (otok_is (z_cur (k_z k1)) K_LINK).
  { destruct (parse_link upper vl (S f) (k_z k1)) as [[lt z2]|e|]; cbn [bind] in *; try discriminate.
    rewrite <- lift_set_z. apply (IH _ _ _ _ _ _ _ gB H SM); auto. }
  destruct (otok_is (z_cur (k_z k1)) K_TITLE).
  { destruct (parse_title upper (k_z k1)) as [[bt z2]|e|]; cbn [bind] in *; try discriminate.
    rewrite <- lift_set_z. apply (IH _ _ _ _ _ _ _ gB H SM); auto. }
  destruct (otok_is (z_cur (k_z k1)) K_TRANSLATE).
  { destruct (loc_get_ns upper c1 k1 g l) as [[[ns k2] g2]|e|] eqn:E2; cbn [bind] in H; try discriminate.
    destruct (parse_translate lower (S f) k2 ns) as [[m k3]|e|] eqn:E3; cbn [bind] in H; try discriminate.
    destruct (parse_translate_grows lower _ _ _ _ _ E3) as [G3 P3].
    assert (LO3 : loc_ok k3 (mkLoc (Some []) (l_link l) (Some ns) (Some m) (l_title l))) by (unfold loc_ok; simpl; exact P3).
    assert (S3 : small k3) by (eapply small_of_grows; [exact (GRT _ (mkRs k3 g2 tls reg) _ _ _ LO3 H) | exact SM]).
    assert (S2 : small k2) by (eapply small_of_grows; eassumption).
    destruct (loc_get_ns_A _ _ _ _ _ _ E2 S2 I1 N1) as [A [B [C [D F]]]]. subst ns k2.
    rewrite F. cbn [bind]. rewrite E3. cbn [bind].
    assert (H3 : has_ns k3) by (eapply has_of_grows; eassumption).
    destruct (IH _ _ _ _ _ _ _ gB H SM (ids_ok_grows _ _ _ G3 D) (or_intror (conj eq_refl H3)) LO3) as [R1 R2].
    rewrite (lift_has k3 H3) in R1. split; assumption. }
  destruct (otok_is (z_cur (k_z k1)) K_TREE).
  { destruct (loc_get_ns upper c1 k1 g l) as [[[ns k2] g2]|e|] eqn:E2; cbn [bind] in H; try discriminate.
    destruct (pull_comments (k_z k2)) as [pre z3] eqn:EP.
    destruct (match tb with Some i => (i, tls, reg) | None => new_tree_list T tlf tls reg (l_title l) end) as [[i tls4] reg4] eqn:ETB.
    match type of H with bind ?r _ = _ => destruct r as [[[[k6 tls6] m1] tk]|e|] eqn:E3 end; cbn [bind] in H; try discriminate.
    assert (PM : prefix_of (ns_taxa_at (set_z k2 z3) ns)
                           (m_ns match l_map l with Some m => m | None => new_mapper lower (ns_taxa_at k2 ns) true end)).
    { unfold loc_ok in LO1. destruct (l_map l) as [m|] eqn:EM; [|apply pre_refl].
      destruct (l_ns l) as [ns'|] eqn:EN; [|contradiction].
      unfold loc_get_ns in E2. rewrite EN in E2. inversion E2; subst. exact LO1. }
    destruct (r_tree_loop_grows T upper parse_tree set_label add_comments parse_tree_grows _ _ _ _ _ _ _ _ _ _ PM E3) as [G6 P6].
    set (l6 := mkLoc (match tk with Some t => t | None => z_cur (k_z k1) end) (l_link l) (Some ns) (Some m1) (l_title l)) in *.
    assert (LO6 : loc_ok k6 l6) by (unfold loc_ok, l6; simpl; exact P6).
    assert (S6 : small k6) by (eapply small_of_grows; [exact (GRT _ (mkRs k6 g2 tls6 reg4) _ _ _ LO6 H) | exact SM]).
    assert (S2 : small k2) by (eapply small_of_grows; [exact G6 | exact S6]).
    destruct (loc_get_ns_A _ _ _ _ _ _ E2 S2 I1 N1) as [A [B [C [D F]]]]. subst ns k2.
    rewrite F. cbn [bind]. rewrite EP. rewrite E3. cbn [bind].
    assert (H6 : has_ns k6) by (eapply has_of_grows; [exact G6 | exact C]).
    destruct (IH _ _ _ _ _ _ _ gB H SM (ids_ok_grows _ _ _ G6 D) (or_intror (conj eq_refl H6)) LO6) as [R1 R2].
    rewrite (lift_has k6 H6) in R1. split; assumption. }
  destruct (otok_is (z_cur (k_z k1)) K_BEGIN); [discriminate|].
  apply (IH _ _ _ _ _ _ _ gB H SM); auto.
Qed.


Notation GRB := (r_blocks_loop_grows T lower upper parse_tree set_label add_comments vl vs c1 tlf et parse_tree_grows).

Lemma block_head_lift : forall fuel k,
  block_head upper fuel (lift k) = match block_head upper fuel k with Ok k' => Ok (lift k') | Err e => Err e | OutOfFuel => OutOfFuel end.
Proof.
  intros fuel k. unfold block_head. rewrite zstep_lift.
  destruct (zstep k (next_token_ucase upper)) as [k1|e|]; cbn [bind]; try reflexivity.
  rewrite zstep_lift. destruct (zstep k1 (scan_begin upper fuel)) as [k2|e|]; cbn [bind]; try reflexivity.
  rewrite lift_z, <- lift_set_z. apply zstep_lift.
Qed.

Lemma r_trees_block_AB : forall fuel k g tls reg s' gB,
  RTB c1 fuel (mkRs k g tls reg) = Ok s' -> small (r_k s') -> ids_ok k g ->
  RTB c2 fuel (mkRs (lift k) gB tls reg) = Ok (lift_rs s' gB) /\ ids_ok (r_k s') (r_g s').
Proof.
  intros fuel k g tls reg s' gB H SM I. unfold r_parse_trees_block in *. cbn [r_k r_g r_tls r_tlreg] in *.
  rewrite lift_z, <- lift_set_z.
  destruct (negb (tok_is (cast_ucase upper (k_z k)) K_TREES)); [discriminate|].
  destruct et.
  - rewrite zstep_lift. destruct (zstep (set_z k (cast_ucase upper (k_z k))) _) as [k1|e|] eqn:E; cbn [bind] in *; try discriminate.
    inversion H; subst. split; [reflexivity|]. simpl. eapply ids_ok_grows; [|exact I].
    apply zstep_grows in E. exact E.
  - rewrite zstep_lift.
    destruct (zstep (set_z k (cast_ucase upper (k_z k))) (skip_to_semicolon fuel)) as [k1|e|] eqn:E; cbn [bind] in *; try discriminate.
    match type of H with bind ?r _ = _ => destruct r as [s2|e|] eqn:E2 end; cbn [bind] in H; try discriminate.
    destruct (zstep (r_k s2) (skip_to_semicolon fuel)) as [k3|e|] eqn:E3; cbn [bind] in H; try discriminate.
    inversion H; subst. simpl in SM.
    assert (S2 : small (r_k s2)) by (eapply small_of_grows; [eapply zstep_grows; eassumption | exact SM]).
    assert (I1 : ids_ok k1 g) by (eapply ids_ok_grows; [apply zstep_grows in E; exact E | exact I]).
    destruct (r_trees_loop_AB _ _ _ _ _ _ _ _ gB E2 S2 I1 (or_introl eq_refl) Logic.I) as [R1 R2].
    rewrite R1. cbn [bind]. unfold lift_rs at 1. cbn [r_k r_g r_tls r_tlreg]. rewrite zstep_lift, E3. cbn [bind].
    split; [reflexivity|]. simpl. eapply ids_ok_grows; [apply zstep_grows in E3; exact E3 | exact R2].
Qed.

Lemma r_blocks_loop_AB : forall fuel k g tls reg s' gB,
  RBL c1 fuel (mkRs k g tls reg) = Ok s' -> small (r_k s') -> ids_ok k g ->
  RBL c2 fuel (mkRs (lift k) gB tls reg) = Ok (lift_rs s' gB).
Proof.
  induction fuel as [|f IH]; intros k g tls reg s' gB H SM I; [discriminate|].
  cbn [r_blocks_loop r_k r_g r_tls r_tlreg] in *. rewrite lift_z.
  destruct (negb (z_eof (k_z k))); [|inversion H; subst; reflexivity].
  rewrite block_head_lift.
  destruct (block_head upper (S f) k) as [k4|e|] eqn:EH; cbn [bind] in *; try discriminate.
  assert (G4 : kgrows k k4) by (eapply block_head_grows; eassumption).
  assert (I4 : ids_ok k4 g) by (eapply ids_ok_grows; eassumption).
  rewrite lift_z.
  destruct (otok_is (z_cur (k_z k4)) K_TAXA).
  { destruct (parse_taxa_block lower upper c1 (S f) k4 g) as [[k5 g5]|e|] eqn:E5; cbn [bind] in H; try discriminate.
    assert (S5 : small k5) by (eapply small_of_grows; [exact (GRB _ (mkRs k5 g5 tls reg) _ H) | exact SM]).
    destruct (parse_taxa_block_AB _ _ _ _ _ gB E5 S5 I4) as [R1 R2]. rewrite R1. cbn [bind].
    apply (IH _ _ _ _ _ gB H SM R2). }
  destruct (otok_is (z_cur (k_z k4)) K_CHARACTERS || otok_is (z_cur (k_z k4)) K_DATA).
  { destruct (negb (tok_is (cast_ucase upper (k_z k4)) K_CHARACTERS || tok_is (cast_ucase upper (k_z k4)) K_DATA)); [discriminate|].
    rewrite <- lift_set_z, zstep_lift.
    destruct (zstep (set_z k4 (cast_ucase upper (k_z k4))) _) as [k5|e|] eqn:E5; cbn [bind] in *; try discriminate.
    apply (IH _ _ _ _ _ gB H SM). eapply ids_ok_grows; [apply zstep_grows in E5; exact E5 | exact I4]. }
  destruct (otok_is (z_cur (k_z k4)) K_TREES).
  { match type of H with bind ?r _ = _ => destruct r as [s5|e|] eqn:E5 end; cbn [bind] in H; try discriminate.
    assert (S5 : small (r_k s5)) by (eapply small_of_grows; [exact (GRB _ s5 _ H) | exact SM]).
    destruct (r_trees_block_AB _ _ _ _ _ _ gB E5 S5 I4) as [R1 R2]. rewrite R1. cbn [bind].
    destruct s5 as [k5 g5 tls5 reg5]. unfold lift_rs. cbn [r_k r_g r_tls r_tlreg] in *.
    apply (IH _ _ _ _ _ gB H SM R2). }
  destruct (is_sets_kw (z_cur (k_z k4))).
  { destruct vs; [|apply (IH _ _ _ _ _ gB H SM I4)].
    rewrite zstep_lift.
    destruct (zstep k4 _) as [k5|e|] eqn:E5; cbn [bind] in *; try discriminate.
    apply (IH _ _ _ _ _ gB H SM). eapply ids_ok_grows; [apply zstep_grows in E5; exact E5 | exact I4]. }
  destruct (otok_is (z_cur (k_z k4)) K_BEGIN); [discriminate|].
  rewrite zstep_lift.
  destruct (zstep k4 _) as [k5|e|] eqn:E5; cbn [bind] in *; try discriminate.
  apply (IH _ _ _ _ _ gB H SM). eapply ids_ok_grows; [apply zstep_grows in E5; exact E5 | exact I4].
Qed.

Lemma r_stream_AB : forall fuel k g tls reg s' gB,
  RST c1 fuel (mkRs k g tls reg) = Ok s' -> small (r_k s') -> ids_ok k g ->
  RST c2 fuel (mkRs (lift k) gB tls reg) = Ok (lift_rs s' gB).
Proof.
  intros fuel k g tls reg s' gB H SM I. unfold r_parse_nexus_stream in *. cbn [r_k r_g r_tls r_tlreg] in *.
  rewrite zstep_lift.
  destruct (zstep k require_next_token) as [k1|e|] eqn:E1; cbn [bind] in *; try discriminate.
  rewrite lift_z. destruct (z_cur (k_z k1)); [|discriminate].
  destruct (negb (str_eqb (upper s) K_NEXUS)); [discriminate|].
  apply (r_blocks_loop_AB _ _ _ _ _ _ gB H SM). eapply ids_ok_grows; [apply zstep_grows in E1; exact E1 | exact I].
Qed.

End Single.
