(* C10: the namespace invariant, its preservation by every operation, and the
   primitive-transition view (grow / shrink) of `step` used by the other proofs. *)
From Coq Require Import ZArith List Bool Lia Permutation.
From DV Require Import Model.PyPrims Model.C10Model Proofs.C10Lists.
Import ListNotations.
Open Scope Z_scope.

Ltac nsimpl := cbn [taxa acc rev count bm is_mut is_cs w_ns w_lab w_next fst snd] in *.

Record Inv (n : ns) : Prop := mkInv {
  inv_nodup : NoDup (taxa n);
  inv_dom : forall t, In t (taxa n) <-> exists i, alookup t (acc n) = Some i;
  inv_range : forall t i, alookup t (acc n) = Some i -> 0 <= i < count n;
  inv_inj : forall t1 t2 i, alookup t1 (acc n) = Some i -> alookup t2 (acc n) = Some i -> t1 = t2;
  inv_rev : forall t i, alookup i (rev n) = Some t <-> alookup t (acc n) = Some i;
  inv_bm : forall t m, alookup t (bm n) = Some m ->
             exists i, alookup t (acc n) = Some i /\ m = Z.shiftl 1 i;
  inv_count : 0 <= count n
}.

Lemma Inv_intro n :
  NoDup (taxa n) ->
  (forall t, In t (taxa n) <-> exists i, alookup t (acc n) = Some i) ->
  (forall t i, alookup t (acc n) = Some i -> 0 <= i < count n) ->
  (forall t i, alookup i (rev n) = Some t <-> alookup t (acc n) = Some i) ->
  (forall t m, alookup t (bm n) = Some m -> exists i, alookup t (acc n) = Some i /\ m = Z.shiftl 1 i) ->
  0 <= count n -> Inv n.
Proof.
  intros H1 H2 H3 H4 H5 H6. constructor; auto.
  intros t1 t2 i A1 A2. apply H4 in A1. apply H4 in A2. congruence.
Qed.

Lemma Inv_empty (m c : bool) : Inv (mkNs [] [] [] 0 [] m c).
Proof.
  apply Inv_intro; simpl; try discriminate; try lia.
  - constructor.
  - intros t. split; [contradiction| intros [i H]; discriminate].
  - intros t i. split; discriminate.
Qed.

Lemma Inv_keys_members n : Inv n -> forall k v, In (k, v) (acc n) -> In k (taxa n).
Proof. intros I k v H. apply (inv_dom n I). eapply In_alookup_some. exact H. Qed.

Lemma Inv_bmkeys_members n : Inv n -> forall k v, In (k, v) (bm n) -> In k (taxa n).
Proof.
  intros I k v H. apply In_alookup_some in H. destruct H as [v' H].
  apply (inv_bm n I) in H. destruct H as (i & H & _). apply (inv_dom n I). eauto.
Qed.

Lemma Inv_member_index n t : Inv n -> In t (taxa n) ->
  exists i, alookup t (acc n) = Some i /\ 0 <= i < count n /\ alookup i (rev n) = Some t.
Proof.
  intros I H. apply (inv_dom n I) in H. destruct H as [i H]. exists i. split; [exact H|].
  split; [eapply inv_range; eauto| apply (inv_rev n I); exact H].
Qed.

(* only the flags differ *)
Lemma Inv_flags tx ac rv c b m1 c1 m2 c2 :
  Inv (mkNs tx ac rv c b m1 c1) -> Inv (mkNs tx ac rv c b m2 c2).
Proof. intros [A B C D E F G]. constructor; nsimpl; assumption. Qed.

Lemma Inv_perm n tx m c : Permutation (taxa n) tx -> Inv n ->
  Inv (mkNs tx (acc n) (rev n) (count n) (bm n) m c).
Proof.
  intros P [A B C D E F G]. constructor; nsimpl; try assumption.
  - eapply Permutation_NoDup; eauto.
  - intros t. rewrite <- B. split; apply Permutation_in; [apply Permutation_sym|]; exact P.
Qed.

(* ---------- add_taxon ---------- *)

Lemma add_taxon_inv n t n' : Inv n -> add_taxon n t = Ok n' -> Inv n'.
Proof.
  intros I. unfold add_taxon. destruct (alookup t (acc n)) eqn:A.
  - intros E; inversion E; subst; exact I.
  - destruct (negb (is_mut n)); [discriminate|]. intros E; inversion E; subst; clear E.
    destruct I as [Hnd Hdom Hrng Hinj Hrev Hbm Hc].
    apply Inv_intro; nsimpl.
    + apply NoDup_app_single; [exact Hnd|]. rewrite Hdom. intros [i Hi]. congruence.
    + intros t'. rewrite in_app_iff, alookup_aset. simpl. destruct (Z.eqb t' t) eqn:E.
      * apply Z.eqb_eq in E. subst. split; eauto.
      * apply Z.eqb_neq in E. rewrite <- Hdom. split; [intros [H|[H|[]]]; [exact H| congruence] | tauto].
    + intros t' i. rewrite alookup_aset. destruct (Z.eqb t' t); intros H;
        [inversion H; lia | apply Hrng in H; lia].
    + intros t' i. rewrite !alookup_aset.
      destruct (Z.eqb_spec i (count n)) as [E1|E1]; destruct (Z.eqb_spec t' t) as [E2|E2]; subst.
      * split; reflexivity.
      * split; [intros H; inversion H; congruence|]. intros H. apply Hrng in H. lia.
      * split; [|intros H; inversion H; congruence]. intros H. apply Hrev in H. congruence.
      * apply Hrev.
    + intros t' m H. destruct (Hbm t' m H) as (i & Hi & Hm). exists i. split; [|exact Hm].
      rewrite alookup_aset_neq; [exact Hi| congruence].
    + lia.
Qed.

(* ---------- remove_taxon ---------- *)

Lemma remove_taxon_inv n t n' : Inv n -> remove_taxon n t = Ok n' -> Inv n'.
Proof.
  intros I. unfold remove_taxon. destruct (memb t (taxa n)) eqn:M; simpl; [|discriminate].
  intros E; inversion E; subst; clear E.
  apply memb_In in M. destruct (Inv_member_index n t I M) as (i & Hi & Hr & Hv).
  rewrite Hi. destruct I as [Hnd Hdom Hrng Hinj Hrev Hbm Hc].
  apply Inv_intro; nsimpl.
  - apply NoDup_remove_all. exact Hnd.
  - intros t'. rewrite In_remove_all, alookup_aremove. destruct (Z.eqb t' t) eqn:E.
    + apply Z.eqb_eq in E. split; [tauto| intros [j H]; discriminate].
    + apply Z.eqb_neq in E. rewrite Hdom. tauto.
  - intros t' j. rewrite alookup_aremove. destruct (Z.eqb t' t); [discriminate| apply Hrng].
  - intros t' j. rewrite !alookup_aremove.
    destruct (Z.eqb_spec j i) as [E1|E1]; destruct (Z.eqb_spec t' t) as [E2|E2]; subst.
    + split; discriminate.
    + split; [discriminate|]. intros H. exfalso. apply E2. eapply Hinj; eauto.
    + split; [|discriminate]. intros H. apply Hrev in H. congruence.
    + apply Hrev.
  - intros t' m. rewrite !alookup_aremove. destruct (Z.eqb t' t); [discriminate| apply Hbm].
  - exact Hc.
Qed.

(* ---------- taxon_bitmask (memo) ---------- *)

Definition same_core (n n' : ns) : Prop :=
  taxa n' = taxa n /\ acc n' = acc n /\ rev n' = rev n /\ count n' = count n
  /\ is_mut n' = is_mut n /\ is_cs n' = is_cs n.

Lemma same_core_refl n : same_core n n.
Proof. repeat split. Qed.

Lemma same_core_trans a b c : same_core a b -> same_core b c -> same_core a c.
Proof. unfold same_core. intuition congruence. Qed.

Lemma taxon_bitmask_spec n t n' m : Inv n -> taxon_bitmask n t = Ok (n', m) ->
  Inv n' /\ same_core n n' /\ exists i, alookup t (acc n) = Some i /\ m = Z.shiftl 1 i.
Proof.
  intros I. unfold taxon_bitmask. destruct (alookup t (bm n)) eqn:B.
  - intros E; inversion E; subst n' m. split; [exact I|]. split; [apply same_core_refl|].
    apply (inv_bm n I). exact B.
  - destruct (alookup t (acc n)) eqn:A; [|discriminate]. intros E; inversion E; subst n' m; clear E.
    split; [|split; [repeat split| eauto]].
    destruct I as [Hnd Hdom Hrng Hinj Hrev Hbm Hc]. constructor; nsimpl; try assumption.
    intros t' m. rewrite alookup_aset. destruct (Z.eqb t' t) eqn:E.
    + apply Z.eqb_eq in E. subst. intros H; inversion H. eauto.
    + apply Hbm.
Qed.

Lemma taxon_bitmask_member n t : Inv n -> In t (taxa n) ->
  exists n' i, taxon_bitmask n t = Ok (n', Z.shiftl 1 i) /\ alookup t (acc n) = Some i.
Proof.
  intros I H. apply (inv_dom n I) in H. destruct H as [i H].
  unfold taxon_bitmask. destruct (alookup t (bm n)) eqn:B.
  - destruct (inv_bm n I t z B) as (j & Hj & Hz). assert (j = i) by congruence. subst.
    eexists; exists i; split; [reflexivity| exact H].
  - rewrite H. eexists; exists i; split; reflexivity.
Qed.

Lemma taxon_bitmask_err n t : taxon_bitmask n t <> OutOfFuel.
Proof.
  unfold taxon_bitmask. destruct (alookup t (bm n)); [discriminate|].
  destruct (alookup t (acc n)); discriminate.
Qed.

(* ---------- primitive transitions ---------- *)

Inductive star {A} (R : A -> A -> Prop) : A -> A -> Prop :=
| star_refl x : star R x x
| star_step x y z : R x y -> star R y z -> star R x z.

Lemma star_one {A} (R : A -> A -> Prop) x y : R x y -> star R x y.
Proof. intros H. eapply star_step; [exact H| apply star_refl]. Qed.

Lemma star_trans {A} (R : A -> A -> Prop) x y z : star R x y -> star R y z -> star R x z.
Proof. induction 1; [auto|]. intros H2. eapply star_step; eauto. Qed.

(* P says which taxa the transition sequence is allowed to add *)
Inductive grow1 (P : tid -> Prop) : ns -> ns -> Prop :=
| G_add n t n' : P t -> add_taxon n t = Ok n' -> grow1 P n n'
| G_memo n t n' m : taxon_bitmask n t = Ok (n', m) -> grow1 P n n'
| G_perm n tx : Permutation (taxa n) tx ->
    grow1 P n (mkNs tx (acc n) (rev n) (count n) (bm n) (is_mut n) (is_cs n))
| G_cs n b : grow1 P n (mkNs (taxa n) (acc n) (rev n) (count n) (bm n) (is_mut n) b).

Lemma grow1_mono (P Q : tid -> Prop) n n' : (forall t, P t -> Q t) -> grow1 P n n' -> grow1 Q n n'.
Proof.
  intros H G. destruct G; [eapply G_add; eauto| eapply G_memo; eauto| apply G_perm; auto| apply G_cs].
Qed.

Lemma star_grow_mono (P Q : tid -> Prop) n n' :
  (forall t, P t -> Q t) -> star (grow1 P) n n' -> star (grow1 Q) n n'.
Proof.
  intros H S. induction S; [apply star_refl|].
  eapply star_step; [eapply grow1_mono; eauto| assumption].
Qed.

Inductive shrink1 : ns -> ns -> Prop :=
| S_remove n t n' : remove_taxon n t = Ok n' -> shrink1 n n'
| S_clear n : shrink1 n (mkNs [] [] [] (count n) [] (is_mut n) (is_cs n)).

Lemma grow1_inv P n n' : Inv n -> grow1 P n n' -> Inv n'.
Proof.
  intros I G. destruct G.
  - eapply add_taxon_inv; eauto.
  - eapply taxon_bitmask_spec; eauto.
  - apply Inv_perm; assumption.
  - destruct n. eapply Inv_flags. exact I.
Qed.

Lemma shrink1_inv n n' : Inv n -> shrink1 n n' -> Inv n'.
Proof.
  intros I G. destruct G.
  - eapply remove_taxon_inv; eauto.
  - destruct I. apply Inv_intro; simpl; try discriminate; try assumption.
    + constructor.
    + intros t. split; [contradiction| intros [i H]; discriminate].
    + intros t i. split; discriminate.
Qed.

Lemma star_inv (R : ns -> ns -> Prop) :
  (forall n n', Inv n -> R n n' -> Inv n') -> forall n n', star R n n' -> Inv n -> Inv n'.
Proof. intros H n n' S. induction S; eauto. Qed.

(* what a growing transition keeps *)
Record grows (n n' : ns) : Prop := {
  g_acc : forall t i, alookup t (acc n) = Some i -> alookup t (acc n') = Some i;
  g_taxa : forall t, In t (taxa n) -> In t (taxa n');
  g_count : count n <= count n';
  g_mut : is_mut n' = is_mut n;
  g_immut : is_mut n = false -> Permutation (taxa n) (taxa n')
}.

Lemma grows_refl n : grows n n.
Proof. constructor; auto. lia. Qed.

Lemma grows_trans a b c : grows a b -> grows b c -> grows a c.
Proof.
  intros [A1 A2 A3 A4 A5] [B1 B2 B3 B4 B5]. constructor; auto.
  - lia.
  - congruence.
  - intros H. eapply Permutation_trans; [apply A5; exact H| apply B5; congruence].
Qed.

Lemma grow1_grows P n n' : grow1 P n n' -> grows n n'.
Proof.
  intros G. destruct G as [n t n' _ E|n t n' m E|n tx Pm|n b].
  - unfold add_taxon in E. destruct (alookup t (acc n)) eqn:A.
    + inversion E; subst. apply grows_refl.
    + destruct (is_mut n) eqn:M; simpl in E; [|discriminate]. inversion E; subst; clear E.
      constructor; nsimpl.
      * intros t' i H. rewrite alookup_aset_neq; [exact H| congruence].
      * intros t' H. apply in_or_app. left. exact H.
      * lia.
      * congruence.
      * congruence.
  - unfold taxon_bitmask in E. destruct (alookup t (bm n)).
    + inversion E; subst. apply grows_refl.
    + destruct (alookup t (acc n)); [|discriminate]. inversion E; subst.
      constructor; nsimpl; auto. lia.
  - constructor; nsimpl; auto. + intros t. apply Permutation_in. exact Pm. + lia.
  - constructor; nsimpl; auto. lia.
Qed.

Lemma star_grows P n n' : star (grow1 P) n n' -> grows n n'.
Proof.
  induction 1; [apply grows_refl|]. eapply grows_trans; [eapply grow1_grows; eassumption| assumption].
Qed.

Lemma grow1_members P n n' x : grow1 P n n' -> In x (taxa n') -> In x (taxa n) \/ P x.
Proof.
  intros G. destruct G as [n t n' Pt E|n t n' m E|n tx Pm|n b]; nsimpl; auto.
  - unfold add_taxon in E. destruct (alookup t (acc n)).
    + inversion E; subst. auto.
    + destruct (negb (is_mut n)); [discriminate|]. inversion E; subst; nsimpl.
      rewrite in_app_iff. simpl. intros [H|[H|[]]]; [auto| subst; auto].
  - unfold taxon_bitmask in E. destruct (alookup t (bm n)).
    + inversion E; subst. auto.
    + destruct (alookup t (acc n)); [|discriminate]. inversion E; subst; nsimpl. auto.
  - intros H. left. eapply Permutation_in; [apply Permutation_sym; exact Pm| exact H].
Qed.

Lemma star_grow_members P n n' x : star (grow1 P) n n' -> In x (taxa n') -> In x (taxa n) \/ P x.
Proof.
  induction 1 as [|a b c G S IH]; [auto|]. intros H. destruct (IH H) as [H1|H1]; [|auto].
  eapply grow1_members; eauto.
Qed.

Record shrinks (n n' : ns) : Prop := {
  s_acc : forall t i, alookup t (acc n') = Some i -> alookup t (acc n) = Some i;
  s_taxa : forall t, In t (taxa n') -> In t (taxa n);
  s_count : count n' = count n;
  s_mut : is_mut n' = is_mut n;
  s_cs : is_cs n' = is_cs n
}.

Lemma shrinks_refl n : shrinks n n.
Proof. constructor; auto. Qed.

Lemma shrinks_trans a b c : shrinks a b -> shrinks b c -> shrinks a c.
Proof.
  intros [A1 A2 A3 A4 A5] [B1 B2 B3 B4 B5]. constructor; auto; congruence.
Qed.

Lemma shrink1_shrinks n n' : shrink1 n n' -> shrinks n n'.
Proof.
  intros G. destruct G as [n t n' E|n].
  - unfold remove_taxon in E. destruct (memb t (taxa n)); simpl in E; [|discriminate].
    inversion E; subst; clear E. constructor; nsimpl; auto.
    + intros t' i. rewrite alookup_aremove. destruct (Z.eqb t' t); [discriminate| auto].
    + intros t'. rewrite In_remove_all. tauto.
  - constructor; nsimpl; auto. + discriminate. + contradiction.
Qed.

Lemma star_shrinks n n' : star shrink1 n n' -> shrinks n n'.
Proof.
  induction 1; [apply shrinks_refl|].
  eapply shrinks_trans; [apply shrink1_shrinks; eassumption| assumption].
Qed.

(* ---------- the composite functions as sequences of primitive transitions ---------- *)

Lemma remove_each_star n ts n' : remove_each n ts = Ok n' -> star shrink1 n n'.
Proof.
  revert n. induction ts as [|t r IH]; intros n; simpl.
  - intros E; inversion E. apply star_refl.
  - destruct (remove_taxon n t) eqn:R; try discriminate. intros E.
    eapply star_step; [eapply S_remove; exact R| apply IH; exact E].
Qed.

(* add_taxa = the per-element add_taxon transitions, one after the other *)
Lemma add_taxa_star (P : tid -> Prop) n ts n' : (forall t, In t ts -> P t) -> add_taxa n ts = Ok n' -> star (grow1 P) n n'.
Proof.
  revert n. induction ts as [|t r IH]; intros n HP; simpl.
  - intros E; inversion E. apply star_refl.
  - destruct (add_taxon n t) eqn:A; try discriminate. intros E.
    eapply star_step; [eapply G_add; [apply HP; left; reflexivity| exact A]|].
    apply IH; [intros x Hx; apply HP; right; exact Hx| exact E].
Qed.

(* add_taxa never runs out of fuel, and an exception means: immutable namespace, every element
   before the offending one was already a member (so nothing had been changed when it was raised) *)
Lemma add_taxa_err n ts : add_taxa n ts <> OutOfFuel.
Proof.
  revert n. induction ts as [|t r IH]; intros n; simpl; [discriminate|].
  unfold add_taxon at 1. destruct (alookup t (acc n)); [apply IH|].
  destruct (negb (is_mut n)); [discriminate| apply IH].
Qed.

Lemma add_taxa_mutable_ok ts : forall n, is_mut n = true -> exists n', add_taxa n ts = Ok n' /\ is_mut n' = true.
Proof.
  induction ts as [|t r IH]; intros n M; simpl; [eauto|].
  unfold add_taxon at 1. destruct (alookup t (acc n)); [apply IH; exact M|].
  rewrite M. simpl. apply IH. reflexivity.
Qed.

Lemma add_taxa_err_unchanged n ts e : add_taxa n ts = Err e ->
  e = TypeErr /\ is_mut n = false
  /\ exists pre t post, ts = pre ++ t :: post /\ alookup t (acc n) = None
       /\ (forall x, In x pre -> exists i, alookup x (acc n) = Some i) /\ add_taxa n pre = Ok n.
Proof.
  destruct (is_mut n) eqn:M.
  { intros E. destruct (add_taxa_mutable_ok ts n M) as (n' & E' & _). congruence. }
  induction ts as [|t r IH]; simpl; [discriminate|].
  unfold add_taxon at 1. destruct (alookup t (acc n)) as [i|] eqn:A.
  - intros E. destruct (IH E) as (He & _ & pre & x & post & Ets & Ax & Hpre & Hrun).
    split; [exact He|]. split; [reflexivity|]. exists (t :: pre), x, post. subst r.
    split; [reflexivity|]. split; [exact Ax|]. split.
    + intros y [Hy|Hy]; [subst; eauto| apply Hpre; exact Hy].
    + simpl. unfold add_taxon. rewrite A. exact Hrun.
  - rewrite M. simpl. intros E. inversion E; subst. split; [reflexivity|]. split; [reflexivity|].
    exists [], t, r. split; [reflexivity|]. split; [exact A|]. split; [intros x []| reflexivity].
Qed.

Lemma taxa_bitmask_star P n ts b n' m : taxa_bitmask n ts b = Ok (n', m) -> star (grow1 P) n n'.
Proof.
  revert n b. induction ts as [|t r IH]; intros n b; simpl.
  - intros E; inversion E. apply star_refl.
  - destruct (taxon_bitmask n t) as [[n1 m1]| |] eqn:R; try discriminate. intros E.
    eapply star_step; [eapply G_memo; exact R| eapply IH; exact E].
Qed.

Lemma op_eq_DeepCopy_dec (o : op) : {o = DeepCopy} + {o <> DeepCopy}.
Proof. destruct o; try (right; discriminate). left; reflexivity. Qed.

Lemma newick_groups_star P w n m ts l r n' g :
  newick_groups w n m ts l r = Ok (n', g) -> star (grow1 P) n n'.
Proof.
  revert n l r. induction ts as [|t rest IH]; intros n l r; simpl.
  - intros E; inversion E. apply star_refl.
  - destruct (taxon_bitmask n t) as [[n1 m1]| |] eqn:R; try discriminate.
    destruct (negb (Z.land m m1 =? 0)); intros E;
      (eapply star_step; [eapply G_memo; exact R| eapply IH; exact E]).
Qed.

Lemma new_taxon_spec w l w' t : new_taxon w l = Ok (w', t) ->
  t = w_next w /\ is_mut (w_ns w) = true /\ add_taxon (w_ns w) t = Ok (w_ns w')
  /\ w_lab w' = (t, l) :: w_lab w /\ w_next w' = w_next w + 1.
Proof.
  unfold new_taxon. destruct (is_mut (w_ns w)) eqn:M; simpl; [|discriminate].
  destruct (add_taxon (w_ns w) (w_next w)) eqn:A; try discriminate.
  intros E; inversion E; subst; simpl. auto.
Qed.

Lemma new_taxa_star w ls a w' ts : new_taxa w ls a = Ok (w', ts) ->
  star (grow1 (fun t => w_next w <= t < w_next w')) (w_ns w) (w_ns w') /\ w_next w <= w_next w'.
Proof.
  revert w a. induction ls as [|l r IH]; intros w a; simpl.
  - intros E; inversion E; subst. split; [apply star_refl| lia].
  - destruct (new_taxon w l) as [[w1 t]| |] eqn:N; try discriminate. intros E.
    apply new_taxon_spec in N. destruct N as (Ht & _ & Ha & _ & Hn).
    destruct (IH _ _ E) as (S & Hle). split; [|lia].
    eapply star_step; [eapply G_add; [|exact Ha]; cbv beta; lia|].
    eapply star_grow_mono; [|exact S]. cbv beta. intros; lia.
Qed.

(* ---------- deep copy ---------- *)

Lemma fresh_map_lookup ts next t x : alookup t (fresh_map ts next) = Some x ->
  In t ts /\ next <= x < next + Z.of_nat (length ts).
Proof.
  revert next. induction ts as [|y r IH]; intros next; simpl; [discriminate|].
  destruct (Z.eqb t y) eqn:E.
  - apply Z.eqb_eq in E. intros H; inversion H; subst. split; [left; reflexivity| lia].
  - intros H. apply IH in H. destruct H as [H1 H2]. split; [right; exact H1| lia].
Qed.

Lemma fresh_map_member ts next t : In t ts -> exists x, alookup t (fresh_map ts next) = Some x.
Proof.
  revert next. induction ts as [|y r IH]; intros next; simpl; [contradiction|].
  intros H. destruct (Z.eqb t y) eqn:E; [eauto|]. apply Z.eqb_neq in E.
  destruct H as [H|H]; [congruence| apply IH; exact H].
Qed.

Lemma fresh_map_inj ts next t1 t2 x :
  alookup t1 (fresh_map ts next) = Some x -> alookup t2 (fresh_map ts next) = Some x -> t1 = t2.
Proof.
  revert next. induction ts as [|y r IH]; intros next; simpl; [discriminate|].
  destruct (Z.eqb_spec t1 y) as [E1|E1]; destruct (Z.eqb_spec t2 y) as [E2|E2]; subst.
  - reflexivity.
  - intros H1 H2. inversion H1; subst. apply fresh_map_lookup in H2. lia.
  - intros H1 H2. inversion H2; subst. apply fresh_map_lookup in H1. lia.
  - apply IH.
Qed.

Lemma ren_fresh_inj ts next t1 t2 : In t1 ts -> In t2 ts ->
  ren (fresh_map ts next) t1 = ren (fresh_map ts next) t2 -> t1 = t2.
Proof.
  intros H1 H2. unfold ren.
  destruct (fresh_map_member ts next t1 H1) as [x1 E1].
  destruct (fresh_map_member ts next t2 H2) as [x2 E2]. rewrite E1, E2. intros; subst.
  eapply fresh_map_inj; eauto.
Qed.

Lemma ren_fresh_range ts next t : In t ts ->
  next <= ren (fresh_map ts next) t < next + Z.of_nat (length ts).
Proof.
  intros H. unfold ren. destruct (fresh_map_member ts next t H) as [x E]. rewrite E.
  apply fresh_map_lookup in E. tauto.
Qed.

Lemma NoDup_map_inj_on {A B} (f : A -> B) (l : list A) :
  (forall x y, In x l -> In y l -> f x = f y -> x = y) -> NoDup l -> NoDup (map f l).
Proof.
  intros Hinj Hd. induction Hd as [|y r Hy Hd IH]; simpl; [constructor|].
  constructor.
  - rewrite in_map_iff. intros (x & E & I). apply Hy.
    assert (x = y) by (apply Hinj; [right; exact I| left; reflexivity| exact E]). subst. exact I.
  - apply IH. intros x z Hx Hz. apply Hinj; right; assumption.
Qed.

Definition dc_ren (w : world) : tid -> tid := ren (fresh_map (taxa (w_ns w)) (w_next w)).

Lemma deep_copy_acc w t : Inv (w_ns w) -> In t (taxa (w_ns w)) ->
  alookup (dc_ren w t) (acc (w_ns (deep_copy w))) = alookup t (acc (w_ns w)).
Proof.
  intros I H. unfold deep_copy, dc_ren. simpl. apply alookup_map_key.
  intros k v Hk E. apply (ren_fresh_inj (taxa (w_ns w)) (w_next w)); [|exact H| exact E].
  eapply Inv_keys_members; eauto.
Qed.

Lemma deep_copy_acc_inv w x i : Inv (w_ns w) ->
  alookup x (acc (w_ns (deep_copy w))) = Some i ->
  exists t, In t (taxa (w_ns w)) /\ x = dc_ren w t /\ alookup t (acc (w_ns w)) = Some i.
Proof.
  intros I H. pose proof H as H0. unfold deep_copy in H. simpl in H.
  apply alookup_map_key_inv in H. destruct H as (k & v0 & Hk & Ex).
  assert (M : In k (taxa (w_ns w))) by (eapply Inv_keys_members; eauto).
  exists k. split; [exact M|]. split; [exact Ex|]. subst x.
  pose proof (deep_copy_acc w k I M) as Q. unfold dc_ren in Q. rewrite Q in H0. exact H0.
Qed.

Lemma deep_copy_inv w : Inv (w_ns w) -> Inv (w_ns (deep_copy w)).
Proof.
  intros I. apply Inv_intro.
  - unfold deep_copy; simpl. apply NoDup_map_inj_on; [|apply (inv_nodup _ I)].
    intros x y. apply ren_fresh_inj.
  - intros x. split.
    + intros H. unfold deep_copy in H; simpl in H. apply in_map_iff in H.
      destruct H as (t & E & M). subst x. fold (dc_ren w t). rewrite deep_copy_acc by assumption.
      apply (inv_dom _ I). exact M.
    + intros [i H]. apply deep_copy_acc_inv in H; [|exact I]. destruct H as (t & M & E & _).
      subst x. unfold deep_copy; simpl. apply in_map. exact M.
  - intros x i H. apply deep_copy_acc_inv in H; [|exact I]. destruct H as (t & M & E & A).
    unfold deep_copy; simpl. eapply inv_range; eauto.
  - intros x i. split.
    + intros H. unfold deep_copy in H; simpl in H. rewrite alookup_map_val in H.
      destruct (alookup i (rev (w_ns w))) as [t|] eqn:R; [|discriminate]. simpl in H. inversion H; subst.
      apply (inv_rev _ I) in R. fold (dc_ren w t). rewrite deep_copy_acc; [exact R| exact I|].
      apply (inv_dom _ I). eauto.
    + intros H. apply deep_copy_acc_inv in H; [|exact I]. destruct H as (t & M & E & A).
      subst x. unfold deep_copy; simpl. rewrite alookup_map_val.
      apply (inv_rev _ I) in A. rewrite A. reflexivity.
  - intros x m H. pose proof H as H0. unfold deep_copy in H; simpl in H.
    apply alookup_map_key_inv in H. destruct H as (k & v0 & Hk & Ex).
    assert (M : In k (taxa (w_ns w))) by (eapply Inv_bmkeys_members; eauto).
    subst x. unfold deep_copy in H0; simpl in H0. rewrite alookup_map_key in H0.
    + destruct (inv_bm _ I k m H0) as (i & A & Em). exists i. split; [|exact Em].
      fold (dc_ren w k). rewrite deep_copy_acc; assumption.
    + intros k' v Hk' E. apply (ren_fresh_inj (taxa (w_ns w)) (w_next w)); [|exact M| exact E].
      eapply Inv_bmkeys_members; eauto.
  - unfold deep_copy; simpl. apply (inv_count _ I).
Qed.

(* ---------- sorting is a permutation ---------- *)

Lemma ins_sorted_perm w t l : Permutation (t :: l) (ins_sorted w t l).
Proof.
  induction l as [|x r IH]; simpl; [apply Permutation_refl|].
  destruct (Z.leb (label_of w t) (label_of w x)); [apply Permutation_refl|].
  eapply Permutation_trans; [apply perm_swap| apply perm_skip; exact IH].
Qed.

Lemma sort_by_label_perm w l : Permutation l (sort_by_label w l).
Proof.
  unfold sort_by_label. induction l as [|x r IH]; simpl; [constructor|].
  eapply Permutation_trans; [apply perm_skip; exact IH| apply ins_sorted_perm].
Qed.

Lemma py_sort_perm w b l : Permutation l (py_sort w b l).
Proof.
  unfold py_sort. destruct b; [|apply sort_by_label_perm].
  eapply Permutation_trans; [apply Permutation_rev|].
  eapply Permutation_trans; [apply sort_by_label_perm| apply Permutation_rev].
Qed.

(* ---------- every step is a sequence of primitive transitions ---------- *)

Definition set_mut (n : ns) (b : bool) : ns :=
  mkNs (taxa n) (acc n) (rev n) (count n) (bm n) b (is_cs n).

Lemma ns_eta n : mkNs (taxa n) (acc n) (rev n) (count n) (bm n) (is_mut n) (is_cs n) = n.
Proof. destruct n; reflexivity. Qed.

Lemma lift_ns_ns w r o :
  w_ns (fst (lift_ns w r o)) = match r with Ok n => n | _ => w_ns w end.
Proof. destruct r; reflexivity. Qed.

Section WithLower.
Variable lower : lbl -> lbl.

Definition added (w : world) (o : op) (t : tid) : Prop :=
  o = AddTaxon t \/ (exists ts, o = AddTaxa ts /\ In t ts) \/ w_next w <= t < w_next (fst (step lower w o)).

Theorem step_trans w o : o <> DeepCopy ->
  star (grow1 (added w o)) (w_ns w) (w_ns (fst (step lower w o)))
  \/ star shrink1 (w_ns w) (w_ns (fst (step lower w o)))
  \/ exists b, o = SetMutable b /\ w_ns (fst (step lower w o)) = set_mut (w_ns w) b.
Proof.
  intros ND. destruct o; cbn [step fst w_ns set_ns]; try (left; apply star_refl); try congruence.
  - (* AddTaxon *) left. rewrite lift_ns_ns. destruct (add_taxon (w_ns w) t) eqn:A; try apply star_refl.
    apply star_one. eapply G_add; [left; reflexivity| exact A].
  - (* AddTaxa *) left. rewrite lift_ns_ns. destruct (add_taxa (w_ns w) ts) eqn:A; try apply star_refl.
    eapply add_taxa_star; [|exact A]. intros t Ht. right; left. eauto.
  - (* NewTaxon *) left. destruct (new_taxon w l) as [[w' t]| |] eqn:N; try apply star_refl.
    pose proof (new_taxon_spec _ _ _ _ N) as (Ht & _ & Ha & _ & Hn).
    cbn [fst w_ns set_ns]. apply star_one. eapply G_add; [|exact Ha].
    right; right. cbn [step]. rewrite N. cbn [fst]. lia.
  - (* NewTaxa *) left. destruct (negb (is_mut (w_ns w))) eqn:M; [apply star_refl|].
    destruct (new_taxa w ls []) as [[w' ts]| |] eqn:N; try apply star_refl.
    pose proof (new_taxa_star _ _ _ _ _ N) as (S & _). cbn [fst].
    eapply star_grow_mono; [|exact S]. cbv beta. intros t H. right; right. cbn [step]. rewrite M, N. exact H.
  - (* RequireTaxon *) left. destruct (lookup_first lower w l cs) eqn:L; [apply star_refl|].
    destruct (negb (is_mut (w_ns w))) eqn:M; [apply star_refl|].
    destruct (new_taxon w l) as [[w' t]| |] eqn:N; try apply star_refl.
    pose proof (new_taxon_spec _ _ _ _ N) as (Ht & _ & Ha & _ & Hn).
    cbn [fst w_ns set_ns]. apply star_one. eapply G_add; [|exact Ha].
    right; right. cbn [step]. rewrite L, M, N. cbn [fst]. lia.
  - (* RemoveTaxon *) right; left. rewrite lift_ns_ns.
    destruct (remove_taxon (w_ns w) t) eqn:A; try apply star_refl.
    apply star_one. eapply S_remove; exact A.
  - (* RemoveLabel *) right; left. destruct (lookup_all lower w l cs); [apply star_refl|].
    rewrite lift_ns_ns. destruct (remove_each _ _) eqn:A; try apply star_refl.
    eapply remove_each_star; exact A.
  - (* DiscardLabel *) right; left. destruct (lookup_all lower w l cs); [apply star_refl|].
    rewrite lift_ns_ns. destruct (remove_each _ _) eqn:A; try apply star_refl.
    eapply remove_each_star; exact A.
  - (* Clear *) right; left. apply star_one. apply S_clear.
  - (* Sort *) left. apply star_one. apply G_perm. apply py_sort_perm.
  - (* Reverse *) left. apply star_one. apply G_perm. apply Permutation_rev.
  - (* TaxonBitmask *) left. destruct (taxon_bitmask (w_ns w) t) as [[n' m]| |] eqn:A; try apply star_refl.
    cbn [fst w_ns set_ns]. apply star_one. eapply G_memo; exact A.
  - (* TaxaBitmask *) left. destruct (taxa_bitmask (w_ns w) ts 0) as [[n' m]| |] eqn:A; try apply star_refl.
    cbn [fst w_ns set_ns]. eapply taxa_bitmask_star; exact A.
  - (* BitmaskTaxa *) left. destruct (bitmask_taxa_list _ _ _ _ _); apply star_refl.
  - (* AccIndex *) left. destruct (alookup t (acc (w_ns w))); apply star_refl.
  - (* NewickGroups *) left. destruct (_ || _); [apply star_refl|].
    destruct (newick_groups w (w_ns w) m (taxa (w_ns w)) [] []) as [[n' [l r]]| |] eqn:A; try apply star_refl.
    cbn [fst w_ns set_ns]. eapply newick_groups_star; exact A.
  - (* SetMutable *) right; right. exists b. split; reflexivity.
  - (* SetCS *) left. apply star_one. apply G_cs.
Qed.

Lemma set_mut_inv n b : Inv n -> Inv (set_mut n b).
Proof. intros I. unfold set_mut. destruct n. eapply Inv_flags. exact I. Qed.

(* 1a. the invariant is preserved by every operation *)
Theorem step_inv w o : Inv (w_ns w) -> Inv (w_ns (fst (step lower w o))).
Proof.
  intros I. destruct (op_eq_DeepCopy_dec o) as [E|E].
  - subst. simpl. apply deep_copy_inv. exact I.
  - destruct (step_trans w o E) as [S|[S|(b & _ & S)]].
    + eapply (star_inv (grow1 _) (grow1_inv _)); eauto.
    + eapply (star_inv shrink1 shrink1_inv); eauto.
    + rewrite S. apply set_mut_inv. exact I.
Qed.

End WithLower.
