(* C05: generated collapse_edges_with_less_than_minimum_support and frequency_of_bipartition
   equal the model *)
From Coq Require Import ZArith QArith Qabs Qreduction List Bool Lia Permutation String.
From DV Require Import Model.PyPrims Gen.BitFns Gen.Consts Model.C05Model Model.C05Spec Model.C05Model2
     Model.C05GenPrims Model.C05GenPrims2 Gen.SplitDist
     Proofs.C05Lists Proofs.C05Freq Proofs.C05Trees Proofs.C05Scores Proofs.C05GenDist Proofs.C05GenDist3
     Proofs.C05GenScores.
Import ListNotations.
Open Scope Z_scope.

(* ---------------------------------------------------------------- structural equality of nodes *)
Lemma q_same_eq a b : q_same a b = true <-> a = b.
Proof.
  destruct a as [n d], b as [n' d']. unfold q_same. simpl.
  rewrite andb_true_iff, Z.eqb_eq, Pos.eqb_eq. split; [intros [-> ->]; reflexivity | intro E; inversion E; tauto].
Qed.

Lemma oq_same_eq a b : oq_same a b = true <-> a = b.
Proof.
  destruct a, b; simpl; split; intro E; try discriminate; try reflexivity.
  - apply q_same_eq in E. now subst.
  - inversion E. now apply q_same_eq.
Qed.

Lemma stree_same_eq : forall a b, stree_same a b = true <-> a = b.
Proof.
  induction a as [s l ks IH] using stree_ind'. intros [s' l' ks']. simpl.
  rewrite !andb_true_iff, Z.eqb_eq, oq_same_eq.
  assert (G : forall q,
    (fix go (p q : list stree) : bool :=
       match p, q with
       | [], [] => true
       | x :: r1, y :: r2 => stree_same x y && go r1 r2
       | _, _ => false
       end) ks q = true <-> ks = q).
  { induction IH as [|k r Hk Hr IHr]; intros [|b1 r2]; split; intro E; try reflexivity; try discriminate.
    - apply andb_true_iff in E. destruct E as [E1 E2]. apply Hk in E1. apply IHr in E2. now subst.
    - inversion E; subst. apply andb_true_iff. split; [now apply Hk | now apply IHr]. }
  rewrite G. split; [intros [[-> ->] ->]; reflexivity | intro E; inversion E; tauto].
Qed.

(* ---------------------------------------------------------------- collapse_with = the model's collapse *)
Fixpoint collapse_with_list (pred : stree -> bool) (ks : list stree) : res (list stree) :=
  match ks with
  | [] => Ok []
  | k :: r => match collapse_with_below pred k, collapse_with_list pred r with
              | Ok a, Ok b => Ok (a ++ b)
              | Err e, _ => Err e
              | _, Err e => Err e
              | _, _ => OutOfFuel
              end
  end.

Lemma collapse_with_below_eq pred s l kids :
  collapse_with_below pred (SN s l kids) =
  match collapse_with_list pred kids with
  | Ok kids' =>
    if pred (SN s l kids) then
      match kids with [] => Err ValueErr | _ => Ok (map (lift_child l) kids') end
    else Ok [SN s l kids']
  | Err e => Err e
  | OutOfFuel => OutOfFuel
  end.
Proof.
  simpl.
  match goal with |- match ?X with _ => _ end = _ => replace X with (collapse_with_list pred kids) end.
  - reflexivity.
  - induction kids as [|k r IH]; simpl; [reflexivity | rewrite IH; reflexivity].
Qed.

Lemma collapse_with_root_eq pred s l kids :
  collapse_with_root pred (SN s l kids) =
  match collapse_with_list pred kids with
  | Ok kids' => Ok (SN s l kids')
  | Err e => Err e
  | OutOfFuel => OutOfFuel
  end.
Proof.
  unfold collapse_with_root.
  match goal with |- match ?X with _ => _ end = _ => replace X with (collapse_with_list pred kids) end.
  - reflexivity.
  - induction kids as [|k r IH]; simpl; [reflexivity | rewrite IH; reflexivity].
Qed.

Section Agree.
  Variables (pred : stree -> bool) (ftbl : list (Z * Q)) (mf : Q).

  Lemma below_agree : forall k,
    (forall n, In n (st_preorder k) -> pred n = low_support ftbl mf (sn_split n)) ->
    collapse_with_below pred k = collapse_below ftbl mf k.
  Proof.
    induction k as [s l ks IH] using stree_ind'. intro H.
    rewrite collapse_with_below_eq, collapse_below_eq.
    assert (L : collapse_with_list pred ks = collapse_list ftbl mf ks).
    { assert (Hk : forall k n, In k ks -> In n (st_preorder k) -> pred n = low_support ftbl mf (sn_split n)).
      { intros k n Ik In_. apply H. simpl. right. apply in_flat_map. now exists k. }
      clear H. induction IH as [|k r Hk' Hr IHr]; simpl; [reflexivity|].
      rewrite Hk' by (intros n In_; apply (Hk k n); [now left | assumption]).
      rewrite IHr by (intros k' n Ik' In_; apply (Hk k' n); [now right | assumption]). reflexivity. }
    rewrite L. rewrite (H (SN s l ks)) by (simpl; now left). reflexivity.
  Qed.

  Lemma root_agree t :
    (forall n, In n (st_preorder t) -> pred n = low_support ftbl mf (sn_split n)) ->
    collapse_with_root pred t = collapse_root ftbl mf t.
  Proof.
    destruct t as [s l ks]. intro H. rewrite collapse_with_root_eq, collapse_root_eq.
    assert (L : collapse_with_list pred ks = collapse_list ftbl mf ks).
    { assert (Hk : forall k n, In k ks -> In n (st_preorder k) -> pred n = low_support ftbl mf (sn_split n)).
      { intros k n Ik In_. apply H. simpl. right. apply in_flat_map. now exists k. }
      clear H. induction ks as [|k r IHr]; simpl; [reflexivity|].
      rewrite below_agree by (intros n In_; apply (Hk k n); [now left | assumption]).
      rewrite IHr by (intros k' n Ik' In_; apply (Hk k' n); [now right | assumption]). reflexivity. }
    now rewrite L.
  Qed.
End Agree.

Lemma existsb_same_filter (p : stree -> bool) l n : In n l ->
  existsb (stree_same n) (filter p l) = p n.
Proof.
  intro I. destruct (p n) eqn:P.
  - apply existsb_exists. exists n. split; [apply filter_In; tauto | now apply stree_same_eq].
  - destruct (existsb (stree_same n) (filter p l)) eqn:E; [|reflexivity].
    apply existsb_exists in E. destruct E as [m [Im Em]]. apply stree_same_eq in Em. subst m.
    apply filter_In in Im. destruct Im as [_ X]. congruence.
Qed.

Theorem gen_collapse_edges_eq c x rt t mf :
  NoDup (keys (counts (x_sd x))) ->
  match snd (collapse_tree (x_sd x) rt mf t) with
  | Ok t' => exists x', gen_collapse_edges c x rt t mf = Ok (x', t') /\
                        x_sd x' = fst (collapse_tree (x_sd x) rt mf t)
  | Err e => gen_collapse_edges c x rt t mf = Err e
  | OutOfFuel => gen_collapse_edges c x rt t mf = OutOfFuel
  end.
Proof.
  intro ND. unfold gen_collapse_edges, collapse_tree.
  rewrite gen_is_all_counted_trees_rooted_eq.
  change (py_truth_obool rt) with (truthy rt).
  destruct (negb (truthy rt) && is_all_rooted (x_sd x)); [reflexivity|].
  rewrite gen_is_all_counted_trees_treated_as_unrooted_eq.
  destruct (truthy rt && is_all_treated_as_unrooted (x_sd x)); [reflexivity|].
  pose proof (gen_get_sd c x ND) as Esd.
  destruct (gen_get_split_frequencies_eq c x ND) as [_ E2].
  destruct (gen_get_split_frequencies c x) as [x' r1]. cbn [fst snd] in *. subst r1.
  destruct (get_freqs (x_sd x)) as [d' ftbl]. cbn [fst snd] in *.
  set (low' := fun n : stree => low_support ftbl mf (sn_split n)).
  assert (TC : py_for (py_tree_iter PostAll t)
                      (fun nd to_collapse =>
                         if negb (py_odict_has (Some ftbl) (py_node_split_bitmask nd))
                         then py_append to_collapse nd
                         else if py_flt (py_odict_get (Some ftbl) (py_node_split_bitmask nd) 0%Q) mf
                              then py_append to_collapse nd else to_collapse) []
               = filter low' (st_postorder t)).
  { unfold py_for, py_tree_iter.
    rewrite (fold_left_ext_in _ (fun acc n => if low' n then acc ++ [n] else acc)).
    - rewrite (fold_append_if low' (fun n => n)). simpl. now rewrite map_id.
    - intros acc n _. unfold low', low_support, collapse_test_is_lt, py_odict_has, py_dict_has, py_odict_get,
                        py_node_split_bitmask, aget_d, py_append, py_flt, qlt_bool.
      destruct (aget (sn_split n) ftbl); reflexivity. }
  cbv zeta. rewrite TC. unfold py_collapse_nodes.
  rewrite (root_agree _ ftbl mf).
  - destruct (collapse_root ftbl mf t) as [t'| |]; cbn [py_bind bind]; [|reflexivity|reflexivity].
    exists x'. split; [reflexivity | exact Esd].
  - intros n In_. apply existsb_same_filter.
    apply (Permutation_in n (Permutation_sym (post_pre_perm t)) In_).
Qed.

(* ---------------------------------------------------------------- frequency_of_bipartition *)
Lemma fob_loop all s ts : forall tot fnd,
  py_for ts (fun tree '(total, found) =>
               (Z.add total 1,
                if py_truth_obool (py_ftree_is_unrooted tree)
                   && py_set_has_int (py_ftree_splits tree) (py_normalize_bitmask s all 1)
                then Z.add found 1
                else if negb (py_truth_obool (py_ftree_is_unrooted tree)) && py_set_has_int (py_ftree_splits tree) s
                     then Z.add found 1 else found)) (tot, fnd)
  = (tot + Z.of_nat (List.length ts), fnd + Z.of_nat (List.length (filter (fob_found all s) ts))).
Proof.
  induction ts as [|t r IH]; intros tot fnd; [simpl; f_equal; lia|].
  unfold py_for in *. simpl fold_left. rewrite IH. simpl filter.
  unfold fob_found at 2, py_truth_obool, py_ftree_is_unrooted, py_set_has_int, py_ftree_splits.
  destruct (f_unrooted t) as [[|]|]; simpl;
    try destruct (zmem (py_normalize_bitmask s all 1) (f_splits t));
    try destruct (zmem s (f_splits t)); simpl List.length; f_equal; lia.
Qed.

Theorem gen_frequency_of_bipartition_eq c ts all b s :
  gen_frequency_of_bipartition c ts all b s = (ts, frequency_of_bipartition all s ts).
Proof.
  unfold gen_frequency_of_bipartition. cbv zeta.
  rewrite (fob_loop all s ts 0 0).
  unfold frequency_of_bipartition, py_div_or_zero. simpl Z.add.
  destruct ts as [|t r]; [reflexivity|].
  assert (N : (Z.of_nat (List.length (t :: r)) =? 0) = false) by (apply Z.eqb_neq; simpl; lia).
  rewrite N. reflexivity.
Qed.

(* ---------------------------------------------------------------- the property theorems, of the generated code *)
From DV Require Import Proofs.C05Stats.

Theorem gen_mcc_is_argmax_l : forall (c : config) (a : ta) (ext : bool) (idx : Z),
  NoDup (keys (counts (ta_sd a))) ->
  snd (snd (gen_calculate_sum_of_split_supports c a ext)) = Some idx ->
  let scores := fst (snd (gen_calculate_sum_of_split_supports c a ext)) in
  exists i : nat, idx = Z.of_nat i /\ (i < List.length scores)%nat /\
    (forall k, (k < List.length scores)%nat -> (nth k scores 0%Q <= nth i scores 0%Q)%Q) /\
    (forall k, (k < i)%nat -> (nth k scores 0%Q < nth i scores 0%Q)%Q).
Proof.
  intros c a ext idx ND. rewrite (gen_calculate_sum_of_split_supports_eq c a ext ND). cbn [fst snd].
  unfold ta_scores. destruct (get_freqs (ta_sd a)) as [d' ftbl]. cbn [fst snd].
  set (sc := map _ _).
  destruct (argmax_first sc) as [i|] eqn:E; simpl; [|discriminate].
  intro H. inversion H. subst idx. exists i. split; [reflexivity|].
  now apply argmax_first_spec_l.
Qed.

Theorem gen_collapse_low_support_exact_l :
  forall (c : config) (x x' : sdx) (rt : option bool) (t t' : stree) (mf : Q),
  NoDup (keys (counts (x_sd x))) ->
  gen_collapse_edges c x rt t mf = Ok (x', t') ->
  let ftbl := snd (get_freqs (x_sd x)) in
  sn_split t' = sn_split t /\ sn_len t' = sn_len t /\
  st_nonroot t' = filter (fun p => snd p || negb (low_support ftbl mf (fst p))) (st_nonroot t) /\
  Forall2 (fun a b => fst a = fst b /\ (snd a == snd b)%Q) (st_root_tips t') (st_root_tips t).
Proof.
  intros c x x' rt t t' mf ND G ftbl.
  pose proof (gen_collapse_edges_eq c x rt t mf ND) as M.
  unfold collapse_tree in M.
  destruct (negb (truthy rt) && is_all_rooted (x_sd x)); [simpl in M; congruence|].
  destruct (truthy rt && is_all_treated_as_unrooted (x_sd x)); [simpl in M; congruence|].
  unfold ftbl. destruct (get_freqs (x_sd x)) as [d' tb]. cbn [fst snd] in *.
  destruct (collapse_root tb mf t) as [t2| |] eqn:CR; try congruence.
  destruct M as [x2 [M1 _]]. rewrite M1 in G. inversion G. subst t2.
  exact (collapse_root_spec_l tb mf t t' CR).
Qed.
