(* Translator tie, part 2: the generated Tokenizer methods (Gen/NewickGen.v: _get_next_char,
   _skip_to_significant_char, _handle_comment, _scan_token, __next__) against Model/Tokenizer.v. *)
From Coq Require Import ZArith List Bool Lia.
From DV Require Import Model.PyPrims Model.Tokenizer Model.Newick Model.C02GenPrims Gen.NewickGen Model.C02GenSpec Proofs.C02Tok.
Import ListNotations.
Open Scope Z_scope.

Lemma same_refl o : tk_same o o. Proof. repeat split. Qed.
Lemma same_trans a b c : tk_same a b -> tk_same b c -> tk_same a c.
Proof. intros (A1 & A2 & A3) (B1 & B2 & B3). repeat split; congruence. Qed.

Lemma ostr_eqb_1 c q : ostr_eqb (Some [c]) (Some [q]) = (c =? q).
Proof. cbn. apply andb_true_r. Qed.

Lemma str_join_single (d : str) : str_join [] (map (fun c => [c]) d) = d.
Proof.
  destruct d as [|c d]; [reflexivity|]. cbn [map str_join app]. f_equal.
  induction d as [|x d IH]; [reflexivity|]. cbn [map flat_map app]. f_equal. exact IH.
Qed.

Ltac fin := repeat match goal with |- _ /\ _ => split end; try assumption; try reflexivity; try apply same_refl.

Section TokGen.
Variable cfg : tok_cfg.

(* ---- _get_next_char ---- *)
Definition gnc (o : tkst) : tkst :=
  let o1 := set_k_cur (set_k_src o (skipn 1 (k_src o))) (Some (firstn 1 (k_src o))) in
  if negb (ostr_eqb (k_cur o1) (Some [])) then
    if ostr_eqb (k_cur o1) (Some [10]) then set_k_col (set_k_line o1 (k_line o1 + 1)) 1
    else set_k_col o1 (k_col o1 + 1)
  else o1.

Lemma get_next_char_eq o : py_tk_get_next_char cfg o = MRet (k_cur (gnc o)) (gnc o).
Proof.
  unfold py_tk_get_next_char, gnc, run, s_seq, s_do, s_if, s_ret, s_skip, src_read. cbn [fst snd].
  destruct (k_src o) as [|c r]; cbn; [reflexivity|]. destruct (c =? 10); reflexivity.
Qed.

Lemma gnc_proj o :
  k_src (gnc o) = skipn 1 (k_src o) /\ k_cur (gnc o) = Some (firstn 1 (k_src o)) /\ tk_same o (gnc o).
Proof.
  unfold gnc, tk_same. cbn [k_cur set_k_cur].
  destruct (negb (ostr_eqb (Some (firstn 1 (k_src o))) (Some []))); [|repeat split].
  destruct (ostr_eqb (Some (firstn 1 (k_src o))) (Some [10])); repeat split.
Qed.

Lemma gnc_src o : k_src (gnc o) = skipn 1 (k_src o). Proof. apply gnc_proj. Qed.
Lemma gnc_cur o : k_cur (gnc o) = Some (firstn 1 (k_src o)). Proof. apply gnc_proj. Qed.
Lemma gnc_same o : tk_same o (gnc o). Proof. apply gnc_proj. Qed.
Lemma gnc_stream o : tk_stream (gnc o) = k_src o.
Proof. unfold tk_stream. rewrite gnc_cur, gnc_src. apply firstn_skipn. Qed.
Lemma gnc_wf o : tk_wf (gnc o).
Proof. unfold tk_wf. rewrite gnc_cur, gnc_src. destruct (k_src o) as [|c r]; cbn; trivial. Qed.
Lemma gnc_cur_some o : k_cur (gnc o) <> None.
Proof. rewrite gnc_cur. discriminate. Qed.

Opaque gnc.

Lemma stream_cur o c : k_cur o = Some [c] -> tk_stream o = c :: k_src o.
Proof. unfold tk_stream. intros ->. reflexivity. Qed.
Lemma stream_end o : tk_wf o -> k_cur o = Some [] -> tk_stream o = [].
Proof. unfold tk_stream, tk_wf. intros W E. rewrite E in *. exact W. Qed.

(* the cases of _cur_char in a well-formed state where a character has been read *)
Lemma cur_cases o : tk_wf o -> k_cur o <> None ->
  (k_cur o = Some [] /\ tk_stream o = []) \/ (exists c, k_cur o = Some [c] /\ tk_stream o = c :: k_src o).
Proof.
  intros W N. destruct (k_cur o) as [[|c [|c2 r]]|] eqn:E.
  - left. split; [reflexivity | apply stream_end; assumption].
  - right. exists c. split; [reflexivity | apply stream_cur; assumption].
  - unfold tk_wf in W. rewrite E in W. contradiction.
  - contradiction.
Qed.

(* what a method leaves behind: well-formed, a character has been read, the tk_stream is `rest`, the
   comments `cs` were appended *)
Definition post (o o' : tkst) (cs : list str) (rest : str) : Prop :=
  tk_wf o' /\ k_cur o' <> None /\ tk_stream o' = rest /\ k_comments o' = k_comments o ++ cs.

(* one round of a while loop *)
Lemma while_S {S R} f (c : S -> res bool) (b : @stmt S R) (s : S) :
  while_loop (Datatypes.S f) c b s =
  match c s with
  | Ok true => match b s with FNext s' => while_loop f c b s' | FBreak s' => FNext s' | o => o end
  | Ok false => FNext s
  | Err e => FExc (ExErr e) s
  | OutOfFuel => FFuel
  end.
Proof. reflexivity. Qed.

(* ---- _skip_to_significant_char ---- *)
Lemma skip_loop : forall fuel o, tk_wf o -> k_cur o <> None -> (length (tk_stream o) < fuel)%nat ->
  exists o', while_loop fuel (fun s => Ok (py_tk_skip_to_significant_char_loop0_test cfg s))
                        (py_tk_skip_to_significant_char_loop0_body cfg) (o, tt) = @FNext _ unit (o', tt)
             /\ tk_wf o' /\ k_cur o' <> None /\ tk_stream o' = skip_ws cfg (tk_stream o) /\ tk_same o o'.
Proof.
  induction fuel as [|f IH]; intros o W N Hf; [lia|].
  rewrite while_S. cbv beta.
  assert (Ht : py_tk_skip_to_significant_char_loop0_test cfg (o, tt)
               = match tk_stream o with [] => false | c :: _ => zmem c (tc_uncaptured cfg) end).
  { unfold py_tk_skip_to_significant_char_loop0_test. cbn [fst snd].
    destruct (cur_cases o W N) as [[E S]|[c [E S]]]; rewrite E, S; [reflexivity|].
    cbn [in_cset]. reflexivity. }
  rewrite Ht.
  destruct (cur_cases o W N) as [[E S]|[c [E S]]]; rewrite S.
  - exists o. cbn [skip_ws]. fin.
  - cbn [skip_ws]. destruct (zmem c (tc_uncaptured cfg)) eqn:Z.
    + assert (Hb : py_tk_skip_to_significant_char_loop0_body cfg (o, tt) = FNext (gnc o, tt)).
      { unfold py_tk_skip_to_significant_char_loop0_body, s_call. cbn [fst snd]. rewrite get_next_char_eq. reflexivity. }
      rewrite Hb.
      destruct (IH (gnc o) (gnc_wf o) (gnc_cur_some o)) as (o' & E1 & W' & N' & S' & Sm).
      { rewrite gnc_stream. rewrite S in Hf. cbn [length] in Hf. lia. }
      exists o'. rewrite E1. rewrite gnc_stream in S'. fin.
      eapply same_trans; [apply gnc_same | exact Sm].
    + exists o. fin.
Qed.

Lemma tk_fuel_ok o : tk_wf o -> (length (tk_stream o) < tk_fuel o)%nat.
Proof.
  unfold tk_fuel, tk_stream, tk_wf. destruct (k_cur o) as [[|c [|c2 r]]|]; intro W; cbn [length app]; try lia; try contradiction.
Qed.

Ltac ev1 := cbv beta iota delta [fst snd]; cbn [ostr_eqb str_eqb list_eqb is_none in_cset negb andb].
Ltac evE E := ev1; repeat (rewrite E; ev1).

Lemma skip_spec o : tk_wf o ->
  exists o', py_tk_skip_to_significant_char cfg o = MRet tt o'
             /\ tk_wf o' /\ k_cur o' <> None /\ tk_stream o' = skip_ws cfg (tk_stream o) /\ tk_same o o'.
Proof.
  intro W. unfold py_tk_skip_to_significant_char, run, s_seq, s_if, s_ret, s_skip, s_call, s_while, s_whilee.
  destruct (k_cur o) as [[|c [|c2 r]]|] eqn:E.
  - evE E. exists o. rewrite (stream_end o W E). fin. congruence.
  - evE E.
    rewrite (stream_cur o c E). cbn [skip_ws].
    destruct (zmem c (tc_uncaptured cfg)) eqn:Z; evE E.
    + destruct (skip_loop (tk_fuel o) o W ltac:(congruence) (tk_fuel_ok o W)) as (o' & E1 & W' & N' & S' & Sm).
      rewrite E1. exists o'. rewrite (stream_cur o c E) in S'. cbn [skip_ws] in S'. rewrite Z in S'.
      fin.
    + exists o. rewrite (stream_cur o c E). fin. congruence.
  - unfold tk_wf in W. rewrite E in W. contradiction.
  - evE E. rewrite get_next_char_eq. ev1.
    assert (So : tk_stream o = k_src o) by (unfold tk_stream; rewrite E; reflexivity).
    destruct (cur_cases (gnc o) (gnc_wf o) (gnc_cur_some o)) as [[E2 S2]|[c [E2 S2]]].
    + evE E2. exists (gnc o). rewrite gnc_stream in S2. rewrite So, S2. cbn [skip_ws].
      fin; try apply gnc_wf; try apply gnc_cur_some; try apply gnc_same. rewrite gnc_stream. exact S2.
    + evE E2. rewrite gnc_stream in S2. rewrite So, S2. cbn [skip_ws].
      destruct (zmem c (tc_uncaptured cfg)) eqn:Z; evE E2.
      * destruct (skip_loop (tk_fuel (gnc o)) (gnc o) (gnc_wf o) (gnc_cur_some o) (tk_fuel_ok _ (gnc_wf o)))
          as (o' & E1 & W' & N' & S' & Sm).
        rewrite E1. exists o'. rewrite gnc_stream, S2 in S'. cbn [skip_ws] in S'. rewrite Z in S'.
        fin. eapply same_trans; [apply gnc_same | exact Sm].
      * exists (gnc o). fin; try apply gnc_wf; try apply gnc_cur_some; try apply gnc_same.
        rewrite gnc_stream. exact S2.
Qed.

(* ---- _handle_comment ---- *)
Notation hc_nesting := py_tk_handle_comment_v_nesting.
Notation hc_dest := py_tk_handle_comment_v_dest.

Lemma handle_comment_nocapture : tc_capture_comments cfg = false ->
  forall s n, fst (handle_comment cfg s n) = [].
Proof.
  intros C s. induction s as [|c r IH]; intro n; [reflexivity|]. cbn [handle_comment].
  destruct (zmem c (tc_cend cfg)); [destruct (n - 1 <=? 0); [reflexivity | apply IH]|].
  destruct (zmem c (tc_cbegin cfg)); [apply IH|].
  specialize (IH n). destruct (handle_comment cfg r n) as [t r']. rewrite C. exact IH.
Qed.

Ltac ev2 := cbv beta iota delta [fst snd
       py_tk_handle_comment_v_nesting py_tk_handle_comment_v_dest py_tk_handle_comment_v_comment_complete
       set_py_tk_handle_comment_v_nesting set_py_tk_handle_comment_v_dest set_py_tk_handle_comment_v_comment_complete];
  cbn [ostr_eqb str_eqb list_eqb is_none in_cset negb andb bind need_str].
Ltac evE2 E := ev2; repeat (rewrite E; ev2).

Lemma hc_loop : forall fuel o lc, tk_wf o -> k_cur o <> None -> (length (tk_stream o) < fuel)%nat ->
  exists o' lc', while_loop fuel (fun s => Ok (py_tk_handle_comment_loop0_test cfg s))
                            (py_tk_handle_comment_loop0_body cfg) (o, lc) = @FNext _ unit (o', lc')
    /\ tk_wf o' /\ k_cur o' <> None
    /\ tk_stream o' = snd (handle_comment cfg (tk_stream o) (hc_nesting lc))
    /\ hc_dest lc' = hc_dest lc ++ map (fun c => [c]) (fst (handle_comment cfg (tk_stream o) (hc_nesting lc)))
    /\ tk_same o o'.
Proof.
  induction fuel as [|f IH]; intros o [cmp dst nst] W N Hf; [lia|].
  rewrite while_S. cbv beta. cbn [hc_nesting hc_dest].
  destruct (cur_cases o W N) as [[E S]|[c [E S]]].
  - assert (Ht : py_tk_handle_comment_loop0_test cfg (o, mk_lc_py_tk_handle_comment cmp dst nst) = false).
    { unfold py_tk_handle_comment_loop0_test. evE2 E. reflexivity. }
    rewrite Ht, S. eexists o, _. split; [reflexivity|]. cbn [handle_comment fst snd map hc_dest]. rewrite app_nil_r. fin.
  - assert (Ht : py_tk_handle_comment_loop0_test cfg (o, mk_lc_py_tk_handle_comment cmp dst nst) = true).
    { unfold py_tk_handle_comment_loop0_test. evE2 E. reflexivity. }
    rewrite Ht, S. cbn [handle_comment].
    assert (Hlen : (length (tk_stream (gnc o)) < f)%nat).
    { rewrite gnc_stream. rewrite S in Hf. cbn [length] in Hf. lia. }
    destruct (zmem c (tc_cend cfg)) eqn:Zend.
    + destruct (nst - 1 <=? 0) eqn:Zn.
      * assert (Hb : py_tk_handle_comment_loop0_body cfg (o, mk_lc_py_tk_handle_comment cmp dst nst)
                     = FBreak (gnc o, mk_lc_py_tk_handle_comment true dst (nst - 1))).
        { unfold py_tk_handle_comment_loop0_body, s_seq, s_if, s_do, s_doe, s_call, s_break, s_skip.
          evE2 E. rewrite Zend. evE2 E. rewrite Zn. evE2 E. rewrite get_next_char_eq. reflexivity. }
        rewrite Hb. eexists _, _. split; [reflexivity|]. cbn [fst snd map hc_dest]. rewrite app_nil_r.
        fin; try apply gnc_wf; try apply gnc_cur_some; try apply gnc_stream; try apply gnc_same.
      * assert (Hb : py_tk_handle_comment_loop0_body cfg (o, mk_lc_py_tk_handle_comment cmp dst nst)
                     = FNext (gnc o, mk_lc_py_tk_handle_comment cmp dst (nst - 1))).
        { unfold py_tk_handle_comment_loop0_body, s_seq, s_if, s_do, s_doe, s_call, s_break, s_skip.
          evE2 E. rewrite Zend. evE2 E. rewrite Zn. evE2 E. rewrite get_next_char_eq. reflexivity. }
        rewrite Hb.
        destruct (IH (gnc o) (mk_lc_py_tk_handle_comment cmp dst (nst - 1)) (gnc_wf o) (gnc_cur_some o) Hlen)
          as (o' & lc' & E1 & W' & N' & S' & D' & Sm).
        rewrite E1. exists o', lc'. rewrite gnc_stream in S', D'. cbn [hc_nesting hc_dest] in S', D'.
        fin. eapply same_trans; [apply gnc_same | exact Sm].
    + destruct (zmem c (tc_cbegin cfg)) eqn:Zbeg.
      * assert (Hb : py_tk_handle_comment_loop0_body cfg (o, mk_lc_py_tk_handle_comment cmp dst nst)
                     = FNext (gnc o, mk_lc_py_tk_handle_comment cmp dst (nst + 1))).
        { unfold py_tk_handle_comment_loop0_body, s_seq, s_if, s_do, s_doe, s_call, s_break, s_skip.
          evE2 E. rewrite Zend. evE2 E. rewrite Zbeg. evE2 E. rewrite get_next_char_eq. reflexivity. }
        rewrite Hb.
        destruct (IH (gnc o) (mk_lc_py_tk_handle_comment cmp dst (nst + 1)) (gnc_wf o) (gnc_cur_some o) Hlen)
          as (o' & lc' & E1 & W' & N' & S' & D' & Sm).
        rewrite E1. exists o', lc'. rewrite gnc_stream in S', D'. cbn [hc_nesting hc_dest] in S', D'.
        fin. eapply same_trans; [apply gnc_same | exact Sm].
      * destruct (tc_capture_comments cfg) eqn:Cap.
        -- assert (Hb : py_tk_handle_comment_loop0_body cfg (o, mk_lc_py_tk_handle_comment cmp dst nst)
                        = FNext (gnc o, mk_lc_py_tk_handle_comment cmp (dst ++ [[c]]) nst)).
           { unfold py_tk_handle_comment_loop0_body, s_seq, s_if, s_do, s_doe, s_call, s_break, s_skip.
             evE2 E. rewrite Zend. evE2 E. rewrite Zbeg. evE2 E. rewrite Cap. evE2 E. rewrite get_next_char_eq. reflexivity. }
           rewrite Hb.
           destruct (IH (gnc o) (mk_lc_py_tk_handle_comment cmp (dst ++ [[c]]) nst) (gnc_wf o) (gnc_cur_some o) Hlen)
             as (o' & lc' & E1 & W' & N' & S' & D' & Sm).
           rewrite E1. exists o', lc'. rewrite gnc_stream in S', D'. cbn [hc_nesting hc_dest] in S', D'.
           destruct (handle_comment cfg (k_src o) nst) as [t r']. cbn [fst snd] in *.
           fin. { rewrite D'. rewrite <- app_assoc. reflexivity. } eapply same_trans; [apply gnc_same | exact Sm].
        -- assert (Hb : py_tk_handle_comment_loop0_body cfg (o, mk_lc_py_tk_handle_comment cmp dst nst)
                        = FNext (gnc o, mk_lc_py_tk_handle_comment cmp dst nst)).
           { unfold py_tk_handle_comment_loop0_body, s_seq, s_if, s_do, s_doe, s_call, s_break, s_skip.
             evE2 E. rewrite Zend. evE2 E. rewrite Zbeg. evE2 E. rewrite Cap. evE2 E. rewrite get_next_char_eq. reflexivity. }
           rewrite Hb.
           destruct (IH (gnc o) (mk_lc_py_tk_handle_comment cmp dst nst) (gnc_wf o) (gnc_cur_some o) Hlen)
             as (o' & lc' & E1 & W' & N' & S' & D' & Sm).
           rewrite E1. exists o', lc'. rewrite gnc_stream in S', D'. cbn [hc_nesting hc_dest] in S', D'.
           destruct (handle_comment cfg (k_src o) nst) as [t r']. cbn [fst snd] in *.
           fin. eapply same_trans; [apply gnc_same | exact Sm].
Qed.

(* _handle_comment, entered at any character: the tk_stream after the comment, its text appended to
   captured_comments when comments are captured *)
Lemma hc_spec o : tk_wf o -> k_cur o <> None ->
  exists o', py_tk_handle_comment cfg o = MRet tt o'
    /\ post o o' (if tc_capture_comments cfg then [fst (handle_comment cfg (tk_stream o) 0)] else [])
            (snd (handle_comment cfg (tk_stream o) 0))
    /\ k_token o' = k_token o /\ k_quoted o' = k_quoted o.
Proof.
  intros W N. unfold py_tk_handle_comment, run, s_seq, s_do, s_if, s_skip, s_while, s_whilee. ev2.
  destruct (hc_loop (tk_fuel o) o (mk_lc_py_tk_handle_comment false [] 0) W N (tk_fuel_ok o W))
    as (o' & [cmp' dst' nst'] & E1 & W' & N' & S' & D' & (T & Q & C)).
  rewrite E1. cbn [hc_nesting hc_dest app] in S', D'. unfold post.
  destruct (handle_comment cfg (tk_stream o) 0) as [t r']. cbn [fst snd] in *.
  destruct (tc_capture_comments cfg) eqn:Cap; ev2.
  - eexists. split; [reflexivity|]. subst dst'. rewrite str_join_single, C.
    unfold tk_wf, tk_stream in *. cbn [k_cur k_src set_k_comments k_comments k_token k_quoted]. fin.
  - exists o'. rewrite C, app_nil_r. fin.
Qed.

(* ---- _scan_token: the quoted-token loop ---- *)
Ltac ev3 := cbv beta iota delta [fst snd py_tk_scan_token_v_cur_quote_char py_tk_scan_token_v_dest
       set_py_tk_scan_token_v_cur_quote_char set_py_tk_scan_token_v_dest];
  cbn [ostr_eqb str_eqb list_eqb is_none in_cset negb andb bind need_str firstn]; rewrite ?andb_true_r.
Ltac evE3 E := ev3; repeat (rewrite E; ev3).
Ltac unf_body := unfold s_seq, s_if, s_do, s_doe, s_call, s_break, s_skip, s_raise, s_ret.

Lemma quoted_loop_gen : forall fuel o dst q, tk_wf o -> k_cur o <> None -> (length (tk_stream o) < fuel)%nat ->
  match quoted_loop cfg q (tk_stream o) with
  | None => exists s', while_loop fuel (fun s => Ok (py_tk_scan_token_loop0_test cfg s)) (py_tk_scan_token_loop0_body cfg)
                                  (o, mk_lc_py_tk_scan_token (Some [q]) dst) = FExc (ExErr ParseErr) s'
  | Some (d, rest) =>
    exists o', while_loop fuel (fun s => Ok (py_tk_scan_token_loop0_test cfg s)) (py_tk_scan_token_loop0_body cfg)
                          (o, mk_lc_py_tk_scan_token (Some [q]) dst)
               = FNext (o', mk_lc_py_tk_scan_token (Some [q]) (dst ++ map (fun c => [c]) d))
      /\ tk_wf o' /\ k_cur o' <> None /\ tk_stream o' = rest /\ tk_same o o'
  end.
Proof.
  induction fuel as [|f IH]; intros o dst q W N Hf; [lia|].
  rewrite while_S. cbv beta. change (py_tk_scan_token_loop0_test cfg (o, mk_lc_py_tk_scan_token (Some [q]) dst)) with true. cbv iota.
  destruct (cur_cases o W N) as [[E S]|[c [E S]]]; rewrite S; cbn [quoted_loop].
  - assert (Hb : py_tk_scan_token_loop0_body cfg (o, mk_lc_py_tk_scan_token (Some [q]) dst)
                 = FExc (ExErr ParseErr) (o, mk_lc_py_tk_scan_token (Some [q]) dst)).
    { unfold py_tk_scan_token_loop0_body. unf_body. evE3 E. reflexivity. }
    rewrite Hb. eexists. reflexivity.
  - destruct (c =? q) eqn:Zq.
    + destruct (tc_double cfg) eqn:Dbl.
      * destruct (k_src o) as [|c2 r2] eqn:Esrc.
        -- assert (Hb : py_tk_scan_token_loop0_body cfg (o, mk_lc_py_tk_scan_token (Some [q]) dst)
                        = FBreak (gnc o, mk_lc_py_tk_scan_token (Some [q]) dst)).
           { unfold py_tk_scan_token_loop0_body. unf_body. evE3 E. rewrite Zq. evE3 E. rewrite get_next_char_eq. evE3 E.
             rewrite Dbl. ev3. rewrite gnc_cur, Esrc. ev3. reflexivity. }
           rewrite Hb. exists (gnc o). rewrite app_nil_r. fin; try apply gnc_wf; try apply gnc_cur_some; try apply gnc_same.
           rewrite gnc_stream. exact Esrc.
        -- destruct (c2 =? q) eqn:Zq2.
           ++ assert (Hb : py_tk_scan_token_loop0_body cfg (o, mk_lc_py_tk_scan_token (Some [q]) dst)
                           = FNext (gnc (gnc o), mk_lc_py_tk_scan_token (Some [q]) (dst ++ [[q]]))).
              { unfold py_tk_scan_token_loop0_body. unf_body. evE3 E. rewrite Zq. evE3 E. rewrite get_next_char_eq. evE3 E.
                rewrite Dbl. ev3. rewrite gnc_cur, Esrc. ev3. rewrite Zq2. ev3. rewrite get_next_char_eq. reflexivity. }
              rewrite Hb.
              assert (S2 : tk_stream (gnc (gnc o)) = r2).
              { rewrite gnc_stream, gnc_src, Esrc. reflexivity. }
              specialize (IH (gnc (gnc o)) (dst ++ [[q]]) q (gnc_wf _) (gnc_cur_some _)).
              rewrite S2 in IH. rewrite S in Hf. cbn [length] in Hf. specialize (IH ltac:(lia)).
              destruct (quoted_loop cfg q r2) as [[d rest]|].
              ** destruct IH as (o' & E1 & W' & N' & S' & Sm). exists o'. rewrite E1. cbn [map]. rewrite <- app_assoc. fin.
                 eapply same_trans; [apply gnc_same|]. eapply same_trans; [apply gnc_same | exact Sm].
              ** exact IH.
           ++ assert (Hb : py_tk_scan_token_loop0_body cfg (o, mk_lc_py_tk_scan_token (Some [q]) dst)
                           = FBreak (gnc o, mk_lc_py_tk_scan_token (Some [q]) dst)).
              { unfold py_tk_scan_token_loop0_body. unf_body. evE3 E. rewrite Zq. evE3 E. rewrite get_next_char_eq. evE3 E.
                rewrite Dbl. ev3. rewrite gnc_cur, Esrc. ev3. rewrite Zq2. reflexivity. }
              rewrite Hb. exists (gnc o). rewrite app_nil_r. fin; try apply gnc_wf; try apply gnc_cur_some; try apply gnc_same.
              rewrite gnc_stream. exact Esrc.
      * assert (Hb : py_tk_scan_token_loop0_body cfg (o, mk_lc_py_tk_scan_token (Some [q]) dst)
                     = FBreak (gnc (gnc o), mk_lc_py_tk_scan_token (Some [q]) dst)).
        { unfold py_tk_scan_token_loop0_body. unf_body. evE3 E. rewrite Zq. evE3 E. rewrite get_next_char_eq. evE3 E.
          rewrite Dbl. ev3. rewrite get_next_char_eq. reflexivity. }
        rewrite Hb. exists (gnc (gnc o)). rewrite app_nil_r. fin; try apply gnc_wf; try apply gnc_cur_some.
        -- rewrite gnc_stream, gnc_src. destruct (k_src o); reflexivity.
        -- eapply same_trans; apply gnc_same.
    + assert (Hb : py_tk_scan_token_loop0_body cfg (o, mk_lc_py_tk_scan_token (Some [q]) dst)
                   = FNext (gnc o, mk_lc_py_tk_scan_token (Some [q]) (dst ++ [[c]]))).
      { unfold py_tk_scan_token_loop0_body. unf_body. evE3 E. rewrite Zq. evE3 E. rewrite get_next_char_eq. reflexivity. }
      rewrite Hb.
      specialize (IH (gnc o) (dst ++ [[c]]) q (gnc_wf _) (gnc_cur_some _)).
      rewrite gnc_stream in IH. rewrite S in Hf. cbn [length] in Hf. specialize (IH ltac:(lia)).
      destruct (quoted_loop cfg q (k_src o)) as [[d rest]|].
      * destruct IH as (o' & E1 & W' & N' & S' & Sm). exists o'. rewrite E1. cbn [map]. rewrite <- app_assoc. fin.
        eapply same_trans; [apply gnc_same | exact Sm].
      * exact IH.
Qed.

(* ---- _scan_token: the unquoted-token loop ---- *)
Lemma set_cur_same o x : tk_same o (set_k_cur o x). Proof. repeat split. Qed.

Lemma unquoted_loop_gen : forall n o cq dst fuel mf, tk_wf o -> k_cur o <> None ->
  (length (tk_stream o) <= n)%nat -> (n < fuel)%nat -> (n < mf)%nat ->
  exists d cs rest o',
    unquoted_loop cfg mf (tk_stream o) = Some (d, cs, rest)
    /\ while_loop fuel (fun s => Ok (py_tk_scan_token_loop1_test cfg s)) (py_tk_scan_token_loop1_body cfg)
                  (o, mk_lc_py_tk_scan_token cq dst)
       = FNext (o', mk_lc_py_tk_scan_token cq (dst ++ map (fun c => [c]) d))
    /\ post o o' cs rest /\ k_token o' = k_token o /\ k_quoted o' = k_quoted o.
Proof.
  induction n as [|n IH]; intros o cq dst fuel mf W N Hn Hf Hm;
    (destruct fuel as [|f]; [lia|]); (destruct mf as [|m]; [lia|]); rewrite while_S; cbv beta;
    destruct (cur_cases o W N) as [[E S]|[c [E S]]]; try (rewrite S in Hn; cbn [length] in Hn; lia).
  - assert (Ht : py_tk_scan_token_loop1_test cfg (o, mk_lc_py_tk_scan_token cq dst) = false).
    { unfold py_tk_scan_token_loop1_test. evE3 E. reflexivity. }
    rewrite Ht, S. exists [], [], [], o. cbn [unquoted_loop map]. rewrite !app_nil_r. unfold post. rewrite app_nil_r. fin.
  - assert (Ht : py_tk_scan_token_loop1_test cfg (o, mk_lc_py_tk_scan_token cq dst) = false).
    { unfold py_tk_scan_token_loop1_test. evE3 E. reflexivity. }
    rewrite Ht, S. exists [], [], [], o. cbn [unquoted_loop map]. rewrite !app_nil_r. unfold post. rewrite app_nil_r. fin.
  - assert (Ht : py_tk_scan_token_loop1_test cfg (o, mk_lc_py_tk_scan_token cq dst) = true).
    { unfold py_tk_scan_token_loop1_test. evE3 E. reflexivity. }
    rewrite Ht, S. cbn [unquoted_loop]. rewrite S in Hn. cbn [length] in Hn.
    destruct (zmem c (tc_uncaptured cfg)) eqn:Zu.
    { assert (Hb : py_tk_scan_token_loop1_body cfg (o, mk_lc_py_tk_scan_token cq dst)
                   = FBreak (gnc o, mk_lc_py_tk_scan_token cq dst)).
      { unfold py_tk_scan_token_loop1_body. unf_body. evE3 E. rewrite Zu. evE3 E. rewrite get_next_char_eq. reflexivity. }
      rewrite Hb. exists [], [], (k_src o), (gnc o). cbn [map]. rewrite !app_nil_r. unfold post.
      destruct (gnc_same o) as (T & Q & C). rewrite C, app_nil_r.
      fin; try apply gnc_wf; try apply gnc_cur_some; try apply gnc_stream. }
    destruct (zmem c (tc_captured cfg)) eqn:Zc.
    { assert (Hb : py_tk_scan_token_loop1_body cfg (o, mk_lc_py_tk_scan_token cq dst)
                   = FBreak (o, mk_lc_py_tk_scan_token cq dst)).
      { unfold py_tk_scan_token_loop1_body. unf_body. evE3 E. rewrite Zu. evE3 E. rewrite Zc. reflexivity. }
      rewrite Hb. exists [], [], (c :: k_src o), o. cbn [map]. rewrite !app_nil_r. unfold post. rewrite app_nil_r. fin. }
    destruct (zmem c (tc_cbegin cfg)) eqn:Zb.
    { destruct (hc_spec o W N) as (o1 & Ehc & (W1 & N1 & S1 & C1) & T1 & Q1).
      pose proof (handle_comment_progress cfg c (k_src o) 0) as Prog. rewrite S in S1, C1.
      destruct (handle_comment cfg (c :: k_src o) 0) as [txt r'] eqn:Ehcm. cbn [fst snd] in S1, C1, Prog. cbn [length] in Prog.
      destruct (cur_cases o1 W1 N1) as [[E1 S1']|[c1 [E1 S1']]].
      - assert (Hb : py_tk_scan_token_loop1_body cfg (o, mk_lc_py_tk_scan_token cq dst)
                     = FBreak (o1, mk_lc_py_tk_scan_token cq dst)).
        { unfold py_tk_scan_token_loop1_body. unf_body. evE3 E. rewrite Zu. evE3 E. rewrite Zc. evE3 E. rewrite Zb. evE3 E.
          rewrite Ehc. evE3 E1. reflexivity. }
        rewrite Hb. rewrite S1' in S1. subst r'. destruct m as [|m]; [lia|]. cbn [unquoted_loop].
        eexists [], _, [], o1. cbn [map]. rewrite !app_nil_r. split; [reflexivity|]. split; [reflexivity|].
        unfold post. rewrite C1. destruct (tc_capture_comments cfg); fin.
      - assert (Hb : py_tk_scan_token_loop1_body cfg (o, mk_lc_py_tk_scan_token cq dst)
                     = FNext (o1, mk_lc_py_tk_scan_token cq dst)).
        { unfold py_tk_scan_token_loop1_body. unf_body. evE3 E. rewrite Zu. evE3 E. rewrite Zc. evE3 E. rewrite Zb. evE3 E.
          rewrite Ehc. evE3 E1. reflexivity. }
        rewrite Hb.
        destruct (IH o1 cq dst f m W1 N1 ltac:(rewrite S1; lia) ltac:(lia) ltac:(lia))
          as (d & cs & rest & o' & Em & Ew & (W' & N' & S' & C') & T' & Q').
        rewrite S1 in Em. rewrite Em, Ew. eexists d, _, rest, o'. split; [reflexivity|]. split; [reflexivity|].
        unfold post. rewrite C', C1. destruct (tc_capture_comments cfg); rewrite <- ?app_assoc; cbn [app]; fin; congruence. }
    set (c' := if (c =? UNDERSCORE) && negb (tc_preserve_underscores cfg) then SPACE else c).
    set (o2 := if (c =? UNDERSCORE) && negb (tc_preserve_underscores cfg) then set_k_cur o (Some [SPACE]) else o).
    assert (Hb : py_tk_scan_token_loop1_body cfg (o, mk_lc_py_tk_scan_token cq dst)
                 = FNext (gnc o2, mk_lc_py_tk_scan_token cq (dst ++ [[c']]))).
    { unfold py_tk_scan_token_loop1_body. unf_body. evE3 E. rewrite Zu. evE3 E. rewrite Zc. evE3 E. rewrite Zb. evE3 E.
      subst c' o2. change 95 with UNDERSCORE. change 32 with SPACE.
      destruct ((c =? UNDERSCORE) && negb (tc_preserve_underscores cfg)); ev3.
      - cbn [k_cur set_k_cur]. ev3. rewrite get_next_char_eq. reflexivity.
      - evE3 E. rewrite get_next_char_eq. reflexivity. }
    rewrite Hb.
    assert (Src2 : k_src o2 = k_src o) by (subst o2; destruct ((c =? UNDERSCORE) && negb (tc_preserve_underscores cfg)); reflexivity).
    assert (Sm2 : tk_same o o2) by (subst o2; destruct ((c =? UNDERSCORE) && negb (tc_preserve_underscores cfg)); [apply set_cur_same | apply same_refl]).
    destruct (IH (gnc o2) cq (dst ++ [[c']]) f m (gnc_wf _) (gnc_cur_some _) ltac:(rewrite gnc_stream, Src2; lia) ltac:(lia) ltac:(lia))
      as (d & cs & rest & o' & Em & Ew & (W' & N' & S' & C') & T' & Q').
    rewrite gnc_stream, Src2 in Em. rewrite Em, Ew. exists (c' :: d), cs, rest, o'. cbn [map]. rewrite <- app_assoc.
    destruct (gnc_same o2) as (A & B & C). destruct Sm2 as (A2 & B2 & C2). unfold post. fin; congruence.
Qed.

(* ---- _scan_token: one scan = one round of the model's next_tok ---- *)
Inductive scan_res : Type :=
| SStop (cs : list str) | SErr | SFuel
| STok (t : str) (q : bool) (cs : list str) (rest : str)
| SAgain (cs : list str) (rest : str).

Definition scan_model (s : str) : scan_res :=
  match skip_ws cfg s with
  | [] => SStop []
  | c :: r =>
    if zmem c (tc_captured cfg) then STok [c] false [] r
    else if zmem c (tc_quotes cfg) then
      match quoted_loop cfg c r with None => SErr | Some (d, rest) => STok d true [] rest end
    else
      match unquoted_loop cfg (Datatypes.S (length (c :: r))) (c :: r) with
      | None => SFuel
      | Some (d, cs, rest) =>
        match d with
        | [] => match rest with [] => SStop cs | _ => SAgain cs rest end
        | _ => STok d false cs rest
        end
      end
  end.

Lemma next_tok_scan f s :
  next_tok cfg (Datatypes.S f) s =
  match scan_model s with
  | SStop cs => TEof cs
  | SErr => TErr ParseErr
  | SFuel => TFuel
  | STok t q cs rest => TTok t q cs rest
  | SAgain cs rest =>
    match next_tok cfg f rest with
    | TEof cs' => TEof (cs ++ cs')
    | TTok t q cs' rest' => TTok t q (cs ++ cs') rest'
    | TErr e => TErr e
    | TFuel => TFuel
    end
  end.
Proof.
  cbn [next_tok]. unfold scan_model. destruct (skip_ws cfg s) as [|c r]; [reflexivity|].
  destruct (zmem c (tc_captured cfg)); [reflexivity|]. destruct (zmem c (tc_quotes cfg)).
  - destruct (quoted_loop cfg c r) as [[d rest]|]; reflexivity.
  - destruct (unquoted_loop cfg (Datatypes.S (length (c :: r))) (c :: r)) as [[[d cs] rest]|]; [|reflexivity].
    destruct d; [|reflexivity]. destruct rest; reflexivity.
Qed.

Lemma scan_spec o : tk_wf o ->
  match scan_model (tk_stream o) with
  | SStop cs => exists o', py_tk_scan_token cfg o = MExc ExStop o' /\ post o o' cs []
  | SErr => exists o', py_tk_scan_token cfg o = MExc (ExErr ParseErr) o'
  | SFuel => False
  | STok t q cs rest => exists o', py_tk_scan_token cfg o = MRet (Some t) o' /\ post o o' cs rest
                                   /\ k_token o' = Some t /\ k_quoted o' = q
  | SAgain cs rest => exists o', py_tk_scan_token cfg o = MRet None o' /\ post o o' cs rest
  end.
Proof.
  intro W.
  (* the prefix: is_token_quoted = False; read the first character if necessary; skip *)
  set (o0 := set_k_quoted o false).
  assert (W0 : tk_wf o0) by exact W.
  assert (S0 : tk_stream o0 = tk_stream o) by reflexivity.
  assert (C0 : k_comments o0 = k_comments o) by reflexivity.
  set (o1 := if is_none (k_cur o0) then gnc o0 else o0).
  assert (W1 : tk_wf o1) by (subst o1; destruct (is_none (k_cur o0)); [apply gnc_wf | exact W0]).
  assert (S1 : tk_stream o1 = tk_stream o).
  { subst o1. destruct (k_cur o0) eqn:E; cbn [is_none]; [exact S0|]. rewrite gnc_stream, <- S0. unfold tk_stream. rewrite E. reflexivity. }
  assert (C1 : k_comments o1 = k_comments o).
  { subst o1. destruct (is_none (k_cur o0)); [|exact C0]. destruct (gnc_same o0) as (_ & _ & C). congruence. }
  assert (Q1 : k_quoted o1 = false).
  { subst o1. destruct (is_none (k_cur o0)); [|reflexivity]. destruct (gnc_same o0) as (_ & Q & _). rewrite Q. reflexivity. }
  destruct (skip_spec o1 W1) as (o2 & Esk & W2 & N2 & S2 & (T2 & Q2 & C2)).
  rewrite S1 in S2. rewrite C1 in C2. rewrite Q1 in Q2.
  assert (Pre : forall K : @stmt (tkst * lc_py_tk_scan_token) (option str),
    (s_seq (s_do (fun s => (set_k_quoted (fst s) false, snd s)))
      (s_seq (s_if (fun s => is_none (k_cur (fst s))) (s_call (py_tk_get_next_char cfg) (fun _ lc => lc)) s_skip)
        (s_seq (s_call (py_tk_skip_to_significant_char cfg) (fun _ lc => lc)) K)))
      (o, mk_lc_py_tk_scan_token None []) = K (o2, mk_lc_py_tk_scan_token None [])).
  { intro K. unfold s_seq at 1, s_do at 1. cbv beta iota delta [fst snd]. fold o0.
    unfold s_seq at 1, s_if at 1. cbv beta iota delta [fst snd].
    assert (E1 : (if is_none (k_cur o0) then s_call (py_tk_get_next_char cfg) (fun _ lc => lc) (o0, mk_lc_py_tk_scan_token None [])
                  else @s_skip _ (option str) (o0, mk_lc_py_tk_scan_token None [])) = FNext (o1, mk_lc_py_tk_scan_token None [])).
    { subst o1. destruct (is_none (k_cur o0)); [|reflexivity]. unfold s_call. cbv beta iota delta [fst snd]. rewrite get_next_char_eq. reflexivity. }
    rewrite E1. unfold s_seq at 1, s_call at 1. cbv beta iota delta [fst snd]. rewrite Esk. reflexivity. }
  unfold py_tk_scan_token, run. rewrite Pre. clear Pre.
  unfold scan_model. rewrite <- S2.
  destruct (cur_cases o2 W2 N2) as [[E S]|[c [E S]]]; rewrite S.
  - (* end of tk_stream *)
    unf_body. evE3 E. exists o2. unfold post. rewrite C2, app_nil_r. fin.
  - destruct (zmem c (tc_captured cfg)) eqn:Zc.
    { unf_body. evE3 E. rewrite Zc. evE3 E. rewrite get_next_char_eq. ev3.
      match goal with |- context [gnc ?x] => set (o3 := x) end.
      destruct (gnc_same o3) as (T3 & Q3 & C3). rewrite T3.
      assert (T3' : k_token o3 = Some [c]) by reflexivity. rewrite T3'.
      eexists. split; [reflexivity|]. unfold post. rewrite T3, Q3, C3. subst o3.
      cbn [k_token k_quoted k_comments set_k_tcol set_k_tline set_k_token]. rewrite C2, app_nil_r, Q2.
      fin; try apply gnc_wf; try apply gnc_cur_some. rewrite gnc_stream. reflexivity. }
    destruct (zmem c (tc_quotes cfg)) eqn:Zq.
    { match goal with |- context [quoted_loop cfg c ?r] => set (r0 := r) end.
      unf_body. evE3 E. rewrite Zc. evE3 E. rewrite Zq. evE3 E. rewrite get_next_char_eq. ev3. cbn [k_cur set_k_quoted set_k_tcol set_k_tline]. rewrite E.
      unfold s_while, s_whilee. cbv beta iota delta [fst snd].
      match goal with |- context [gnc ?x] => set (o3 := x) end.
      assert (S3 : tk_stream (gnc o3) = r0) by (rewrite gnc_stream; reflexivity).
      pose proof (quoted_loop_gen (tk_fuel (gnc o3)) (gnc o3) [] c (gnc_wf _) (gnc_cur_some _) (tk_fuel_ok _ (gnc_wf _))) as QL.
      rewrite S3 in QL. destruct (quoted_loop cfg c r0) as [[d rest]|].
      - destruct QL as (o' & Eq & W' & N' & S' & (T' & Q' & C')). rewrite Eq. ev3. cbn [app]. rewrite str_join_single.
        eexists. split; [reflexivity|]. unfold post, tk_wf, tk_stream in *. cbn [k_cur k_src k_comments k_token k_quoted set_k_token].
        destruct (gnc_same o3) as (T3 & Q3 & C3). rewrite C', C3, Q', Q3. subst o3. cbn [k_comments k_quoted set_k_quoted set_k_tcol set_k_tline].
        rewrite C2, app_nil_r. fin.
      - destruct QL as (s' & Eq). rewrite Eq. eexists. reflexivity. }
    (* unquoted *)
    unf_body. evE3 E. rewrite Zc. evE3 E. rewrite Zq. evE3 E.
    unfold s_while, s_whilee. cbv beta iota delta [fst snd].
    match goal with |- context [while_loop _ _ _ (?x, _)] => set (o3 := x) end.
    assert (W3 : tk_wf o3) by exact W2. assert (N3 : k_cur o3 <> None) by exact N2.
    assert (S3 : tk_stream o3 = c :: k_src o2) by exact S.
    destruct (unquoted_loop_gen (length (tk_stream o3)) o3 None [] (tk_fuel o3) (Datatypes.S (length (tk_stream o3))) W3 N3 (le_n _) (tk_fuel_ok _ W3) ltac:(lia))
      as (d & cs & rest & o' & Em & Ew & (W' & N' & S' & C') & T' & Q').
    rewrite S3 in Em. change (k_src o3) with (k_src o2). rewrite Em, Ew. ev3. cbn [app]. rewrite str_join_single.
    cbn [k_token set_k_token k_cur]. unfold post.
    assert (C3 : k_comments o3 = k_comments o) by exact C2.
    destruct d as [|d0 d].
    + ev3. destruct (cur_cases o' W' N') as [[E' S'']|[c' [E' S'']]]; rewrite S'' in S'; subst rest; evE3 E'.
      * eexists. split; [reflexivity|]. unfold tk_wf, tk_stream in *. cbn [k_cur k_src k_comments set_k_token]. rewrite C', C3. fin.
      * eexists. split; [reflexivity|]. unfold tk_wf, tk_stream in *. cbn [k_cur k_src k_comments set_k_token]. rewrite C', C3. fin.
    + ev3. eexists. split; [reflexivity|]. unfold tk_wf, tk_stream in *. cbn [k_cur k_src k_comments k_token k_quoted set_k_token].
      rewrite C', C3, Q'. fin.
Qed.

(* ---- __next__ ---- *)
Lemma scan_again_progress s cs rest : scan_model s = SAgain cs rest -> (length rest < length s)%nat.
Proof.
  unfold scan_model. pose proof (skip_ws_len cfg s) as L. destruct (skip_ws cfg s) as [|c r] eqn:Esk; [discriminate|].
  pose proof (skip_ws_head cfg s c r Esk) as Hu.
  destruct (zmem c (tc_captured cfg)) eqn:Hc; [discriminate|]. destruct (zmem c (tc_quotes cfg)).
  - destruct (quoted_loop cfg c r) as [[d rest']|]; discriminate.
  - destruct (unquoted_loop cfg (Datatypes.S (length (c :: r))) (c :: r)) as [[[d cs'] rest']|] eqn:Eu; [|discriminate].
    destruct d; [|discriminate]. destruct rest' as [|z r2]; [discriminate|]. intro H. injection H as E1 E2. rewrite <- E2.
    pose proof (unquoted_loop_empty_progress cfg _ c r cs' (z :: r2) Hu Hc Eu). lia.
Qed.

Lemma post_trans o o1 o2 cs cs' rest rest' : post o o1 cs rest -> post o1 o2 cs' rest' -> post o o2 (cs ++ cs') rest'.
Proof. intros (W1 & N1 & S1 & C1) (W2 & N2 & S2 & C2). unfold post. rewrite C2, C1, app_assoc. fin. Qed.

Lemma next_loop : forall n o lc fuel mf, tk_wf o -> (length (tk_stream o) < n)%nat -> (n <= fuel)%nat -> (n <= mf)%nat ->
  match next_tok cfg mf (tk_stream o) with
  | TTok t q cs rest =>
    exists o' lc', while_loop fuel (fun s => Ok (py_tk_next_loop0_test cfg s)) (py_tk_next_loop0_body cfg) (o, lc)
                   = FRet (Some t) (o', lc') /\ post o o' cs rest /\ k_token o' = Some t /\ k_quoted o' = q
  | TEof cs =>
    exists o' lc', while_loop fuel (fun s => Ok (py_tk_next_loop0_test cfg s)) (py_tk_next_loop0_body cfg) (o, lc)
                   = FExc ExStop (o', lc') /\ post o o' cs []
  | TErr e =>
    e = ParseErr /\ exists s', while_loop fuel (fun s => Ok (py_tk_next_loop0_test cfg s)) (py_tk_next_loop0_body cfg) (o, lc)
                              = FExc (ExErr ParseErr) s'
  | TFuel => False
  end.
Proof.
  induction n as [|n IH]; intros o lc fuel mf W Hn Hf Hm; [lia|].
  destruct fuel as [|f]; [lia|]. destruct mf as [|m]; [lia|].
  rewrite while_S. cbv beta. change (py_tk_next_loop0_test cfg (o, lc)) with true. cbv iota.
  rewrite next_tok_scan. pose proof (scan_spec o W) as SP.
  destruct (scan_model (tk_stream o)) as [cs| | |t q cs rest|cs rest] eqn:Esm.
  - destruct SP as (o' & Es & P).
    assert (Hb : py_tk_next_loop0_body cfg (o, lc) = FExc ExStop (o', lc)).
    { unfold py_tk_next_loop0_body. unf_body. cbv beta iota delta [fst snd]. rewrite Es. reflexivity. }
    rewrite Hb. eexists _, _. split; [reflexivity | exact P].
  - destruct SP as (o' & Es).
    assert (Hb : py_tk_next_loop0_body cfg (o, lc) = FExc (ExErr ParseErr) (o', lc)).
    { unfold py_tk_next_loop0_body. unf_body. cbv beta iota delta [fst snd]. rewrite Es. reflexivity. }
    rewrite Hb. split; [reflexivity|]. eexists. reflexivity.
  - contradiction.
  - destruct SP as (o' & Es & P & T & Q).
    assert (Hb : py_tk_next_loop0_body cfg (o, lc) = FRet (Some t) (o', set_py_tk_next_v_token lc (Some t))).
    { unfold py_tk_next_loop0_body. unf_body. cbv beta iota delta [fst snd]. rewrite Es. reflexivity. }
    rewrite Hb. eexists _, _. split; [reflexivity|]. fin.
  - destruct SP as (o' & Es & P).
    assert (Hb : py_tk_next_loop0_body cfg (o, lc) = FNext (o', set_py_tk_next_v_token lc None)).
    { unfold py_tk_next_loop0_body. unf_body. cbv beta iota delta [fst snd]. rewrite Es. reflexivity. }
    rewrite Hb. pose proof (scan_again_progress _ _ _ Esm) as Prog.
    destruct P as (W' & N' & S' & C').
    specialize (IH o' (set_py_tk_next_v_token lc None) f m W' ltac:(rewrite S'; lia) ltac:(lia) ltac:(lia)).
    rewrite S' in IH. destruct (next_tok cfg m rest) as [cs'|e| |t q cs' rest'].
    + destruct IH as (o'' & lc'' & Ew & P2). eexists _, _. split; [exact Ew|].
      apply (post_trans o o' o'' cs cs' rest []); [unfold post; fin | exact P2].
    + exact IH.
    + exact IH.
    + destruct IH as (o'' & lc'' & Ew & P2 & T2 & Q2). eexists _, _. split; [exact Ew|]. fin.
      apply (post_trans o o' o'' cs cs' rest rest'); [unfold post; fin | exact P2].
Qed.

Lemma new_comments_post o o' cs rest : post o o' cs rest -> new_comments o o' = cs.
Proof. intros (_ & _ & _ & C). unfold new_comments. rewrite C. rewrite skipn_app, skipn_all, Nat.sub_diag. reflexivity. Qed.

Lemma next_spec o : tk_wf o ->
  match next_token cfg (tk_stream o) with
  | TTok t q cs rest => exists o', py_tk_next cfg o = MRet (Some t) o' /\ post o o' cs rest /\ k_token o' = Some t /\ k_quoted o' = q
  | TEof cs => exists o', py_tk_next cfg o = MExc ExStop o' /\ post o o' cs []
  | TErr e => e = ParseErr /\ exists o', py_tk_next cfg o = MExc (ExErr ParseErr) o'
  | TFuel => False
  end.
Proof.
  intro W. unfold next_token, py_tk_next, run, s_while, s_whilee. cbv beta iota delta [fst snd].
  pose proof (next_loop (Datatypes.S (length (tk_stream o))) o (mk_lc_py_tk_next None) (tk_fuel o) (Datatypes.S (length (tk_stream o))) W
                        ltac:(lia) ltac:(pose proof (tk_fuel_ok o W); lia) ltac:(lia)) as NL.
  destruct (next_tok cfg (Datatypes.S (length (tk_stream o))) (tk_stream o)) as [cs|e| |t q cs rest].
  - destruct NL as (o' & lc' & Ew & P). rewrite Ew. exists o'. fin.
  - destruct NL as (-> & s' & Ew). rewrite Ew. split; [reflexivity|]. eexists. reflexivity.
  - exact NL.
  - destruct NL as (o' & lc' & Ew & P & T & Q). rewrite Ew. exists o'. fin.
Qed.

(* Tokenizer.__next__ (generated) = next_token (model) *)
Theorem py_tk_next_eq o : tk_wf o -> tok_view o (py_tk_next cfg o) = next_token cfg (tk_stream o).
Proof.
  intro W. pose proof (next_spec o W) as NS. destruct (next_token cfg (tk_stream o)) as [cs|e| |t q cs rest].
  - destruct NS as (o' & -> & P). cbn [tok_view]. rewrite (new_comments_post _ _ _ _ P). reflexivity.
  - destruct NS as (-> & o' & ->). reflexivity.
  - contradiction.
  - destruct NS as (o' & -> & P & T & Q). cbn [tok_view]. rewrite (new_comments_post _ _ _ _ P).
    destruct P as (_ & _ & S & _). rewrite S, Q. reflexivity.
Qed.

Lemma py_tokens_eq : forall fuel o, tk_wf o -> py_tokens cfg fuel o = tokenize_fuel cfg fuel (tk_stream o).
Proof.
  induction fuel as [|f IH]; intros o W; [reflexivity|]. cbn [py_tokens tokenize_fuel].
  pose proof (next_spec o W) as NS. destruct (next_token cfg (tk_stream o)) as [cs|e| |t q cs rest].
  - destruct NS as (o' & -> & P). rewrite (new_comments_post _ _ _ _ P). reflexivity.
  - destruct NS as (-> & o' & ->). reflexivity.
  - contradiction.
  - destruct NS as (o' & -> & P & T & Q). rewrite (new_comments_post _ _ _ _ P).
    destruct P as (W' & N' & S' & C'). rewrite (IH o' W'), S', Q.
    assert (Eof : ostr_eqb (k_cur o') (Some []) = is_nil rest).
    { destruct (cur_cases o' W' N') as [[E S]|[c [E S]]]; rewrite S in S'; subst rest; rewrite E; reflexivity. }
    rewrite Eof. reflexivity.
Qed.
End TokGen.

Theorem py_tokenize_eq cfg text : py_tokens cfg (Datatypes.S (length text)) (tk_init text) = tokenize cfg text.
Proof. unfold tokenize. rewrite py_tokens_eq; [reflexivity | exact I]. Qed.
