(* C12, wave 7: object-level statement of "no mutable container of the copy is an object of the source".

   The model's heap is object-level from the start (every Python object with identity - EMPTY lists, dicts and sets
   included - is an entry; copy.deepcopy is transcribed as to which object is allocated, stored and written), so the
   statement is a corollary of deep_shares_nothing / scoped_shares_only_namespace: with the atomic objects opaque (as
   dumped), whatever the copy and the source both reach IS an atomic object (deep copy), or is atomic or reachable
   from the namespace / one of its taxa (scoped copy).  In particular no list, dict, set, plain object (Bipartition,
   frozen or not) or annotable object is shared, whatever its content - emptiness plays no role.  *)
From Coq Require Import ZArith List Bool Lia.
From DV Require Import Model.PyPrims Model.C12Model Model.C12Classes Proofs.C12Heap Proofs.C12Wf Proofs.C12Proofs.
Import ListNotations.
Open Scope Z_scope.

Lemma atomic_opaque_body : forall h b ob, atomic_opaque h = true -> hget h b = Some ob -> okind ob = KAtomic -> obody ob = [].
Proof.
  intros h b ob AO G K. unfold atomic_opaque in AO. rewrite forallb_forall in AO.
  specialize (AO ob (hget_In _ _ _ G)). rewrite K in AO. destruct (obody ob); [reflexivity | discriminate].
Qed.

Lemma reach_from_atomic : forall h b, atomic_opaque h = true -> is_atomic h b = true -> forall o, reach h b o -> o = b.
Proof.
  intros h b AO A o RE. induction RE as [|c o RE IH ED]; [reflexivity|]. subst c.
  destruct ED as [ob [k [v [G [I _]]]]]. unfold is_atomic, kind_at in A. rewrite G in A.
  destruct (okind ob) eqn:K; try discriminate. rewrite (atomic_opaque_body h b ob AO G K) in I. destruct I.
Qed.

Theorem deep_shares_only_atomic_l : forall nf h root fuel s' y,
  wf_heap h [] = true -> atomic_opaque h = true -> 0 <= root < hlen h -> (length h < fuel)%nat ->
  run nf fuel h root RDeep = Ok (s', R y) ->
  forall o, reach (sh s') y o -> reach (sh s') root o -> is_atomic h o = true.
Proof.
  intros nf h root fuel s' y WF AO Hr Hf E o R1 R2.
  destruct (deep_shares_nothing_l nf h root fuel s' y WF Hr Hf E o R1 R2) as [b [A RB]].
  rewrite (reach_from_atomic h b AO A o RB). exact A.
Qed.

Theorem scoped_shares_only_region_l : forall nf h root ns fuel s' y,
  wf_heap h (ns_seeds h ns) = true -> atomic_opaque h = true -> 0 <= root < hlen h -> (length h < fuel)%nat ->
  run nf fuel h root (RScoped ns) = Ok (s', R y) ->
  forall o, reach (sh s') y o -> reach (sh s') root o ->
    is_atomic h o = true \/ exists b, In b (ns_seeds h ns) /\ reach h b o.
Proof.
  intros nf h root ns fuel s' y WF AO Hr Hf E o R1 R2.
  destruct (scoped_shares_only_namespace_l nf h root ns fuel s' y WF Hr Hf E o R1 R2) as [b [[S|A] RB]].
  - right. exists b. split; assumption.
  - left. rewrite (reach_from_atomic h b AO A o RB). exact A.
Qed.

(* ---- satisfiable, and the EMPTY containers are copied like any other: a tip node with an empty child list, an empty
   comments list, an empty dict attribute, and an edge with a (frozen) bipartition ------------------------------- *)
Definition tip_heap : heap := [
  mkObj 10 KAnnotable [(P 100, R 1); (P 101, R 2); (P 102, R 3); (P 103, R 4)];   (* 0 the node                      *)
  mkObj 0 KList [];                                                               (* 1 node._child_nodes = []        *)
  mkObj 0 KList [];                                                               (* 2 node.comments = []            *)
  mkObj 1 KDict [];                                                               (* 3 an empty dict attribute       *)
  mkObj 11 KAnnotable [(P 104, R 0); (P 105, R 5); (P 101, R 6)];                 (* 4 node._edge                    *)
  mkObj 12 KPlain [(P 106, P 1003); (P 107, P 1); (P 108, R 4)];                  (* 5 edge._bipartition (is_mutable False) *)
  mkObj 0 KList []                                                                (* 6 edge.comments = []            *)
].

Example tip_heap_hyp : wf_heap tip_heap [] = true /\ atomic_opaque tip_heap = true.
Proof. vm_compute. split; reflexivity. Qed.

(* every container and the bipartition of the copy is a NEW object (index >= 7) with the same (empty) content, and the
   seven source objects are reached by the source only *)
Example tip_heap_copy_shares_nothing :
  exists s y, run false 20 tip_heap 0 RDeep = Ok (s, R y) /\ y = 7
    /\ body_of s 7 = [(P 100, R 8); (P 101, R 9); (P 102, R 10); (P 103, R 11)]
    /\ body_of s 8 = [] /\ body_of s 9 = [] /\ body_of s 10 = []
    /\ body_of s 11 = [(P 104, R 7); (P 105, R 12); (P 101, R 13)]
    /\ body_of s 12 = [(P 106, P 1003); (P 107, P 1); (P 108, R 11)] /\ body_of s 13 = []
    /\ reach_list (sh s) [7] = [13; 12; 11; 10; 9; 8; 7].
Proof. eexists. eexists. vm_compute. repeat split. Qed.

(* ---- an attribute-bound annotation given another object as owner_instance: annotation 6 of node 0 is bound to
   attribute P 101 of node 9, an object that the traversal reaches LATER than the annotation (it is the last attribute
   of the root).  The copy's annotation is bound to the COPY of that owner. -------------------------------------- *)
Definition owner_heap : heap := [
  mkObj 10 KAnnotable [(P 100, R 1); (P 109, R 9)];                               (* 0 root: first child, later child *)
  mkObj 10 KAnnotable [(P 101, P 50); (NM_ANN, R 3)];                             (* 1 the annotated node            *)
  mkObj 0 KList [];                                                               (* 2 (unused)                      *)
  mkObj 4 KAnnSet [(NM_ILIST, R 4); (NM_ISET, R 5); (NM_TARGET, R 1)];            (* 3 node1._annotations            *)
  mkObj 0 KList [(pidx 0, R 6)];                                                  (* 4 ._item_list                   *)
  mkObj 2 KSet [(R 6, P 0)];                                                      (* 5 ._item_set                    *)
  mkObj 12 KAnnotable [(NM_VALUE, R 8); (NM_ISATTR, P 2)];                        (* 6 the annotation                *)
  mkObj 0 KList [];                                                               (* 7 (unused)                      *)
  mkObj 3 KTuple [(pidx 0, R 9); (pidx 1, P 101)];                                (* 8 (later sibling, "attr")       *)
  mkObj 10 KAnnotable [(P 101, P 60)]                                             (* 9 the later sibling: the owner  *)
].

Example owner_heap_hyp : wf_heap owner_heap [] = true /\ atomic_opaque owner_heap = true.
Proof. vm_compute. split; reflexivity. Qed.

(* the owner recorded in the copy's annotation is the object the copy's root holds as its later child *)
Example foreign_owner_follows_copy :
  match run false 20 owner_heap 0 RDeep with
  | Ok (s, R y) =>
    match bget (body_of s y) (P 100), bget (body_of s y) (P 109) with
    | Some (R n1), Some (R later) =>
      match bget (body_of s n1) NM_ANN with
      | Some (R sy) =>
        match bget (body_of s sy) NM_ILIST with
        | Some (R ly) =>
          match values (body_of s ly) with
          | [R a2] => match bget (body_of s a2) NM_VALUE with
                      | Some (R t2) => (values (body_of s t2), later, Z.leb (hlen owner_heap) later)
                      | _ => ([], 0, false)
                      end
          | _ => ([], 0, false)
          end
        | _ => ([], 0, false)
        end
      | _ => ([], 0, false)
      end
    | _, _ => ([], 0, false)
    end
  | _ => ([], 0, false)
  end = ([R 14; P 101], 14, true).
Proof. vm_compute. reflexivity. Qed.
