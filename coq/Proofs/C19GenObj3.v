(* C19 translator tie, object level, part 3: fill, pack, export_character_indices, export_character_subset as
   compiled from the current source (Gen/CharMatrixObj.v) against the object-level model Model/C19RowHeap.v.

   The source mutates a row object cell by cell (`v.append(value)` in a while loop, `del vec[i]` in a for loop):
   the generated code performs one `mutate` per cell operation, the model ONE `mutate` per row with the final
   content.  The two stores are therefore not the same association list; they are OBSERVATIONALLY equal:
   the same next object id and the same content for every object id (store_eqv).  Everything the model reads
   from a store is hget / s_next, so this is equality for every purpose of the model.  The maps (which taxon
   holds which object) and the results are equal on the nose. *)
From Coq Require Import ZArith List Bool Lia.
From DV Require Import Model.PyPrims Model.C19Model Model.C19RowHeap Model.C19Prims Model.C19ObjPrims
                       Gen.CharMatrixObj Proofs.C19Alist Proofs.C19Cols Proofs.C19Slice Proofs.C19GenObj Proofs.C19GenObj2.
Import ListNotations.
Open Scope Z_scope.


(* ---- the cell-level loops (as in Proofs/C19GenCols.v, repeated here so that the object-level tie does not depend
   on the value-level generated file Gen/CharMatrix.v) ---- *)
Lemma repeat_snoc_cons' {A} (x : A) n (v : list A) : repeat x n ++ x :: v = x :: repeat x n ++ v.
Proof. induction n as [|n IH]; simpl; [reflexivity | rewrite IH; reflexivity]. Qed.

Lemma while_pad' (value : cell) (size : Z) (append : bool) (body : row -> row * res unit) :
  (forall v, body v = (if append then py_seq_append v value else py_seq_insert0 v value, Ok tt)) ->
  forall n (v : row),
  Z.to_nat (size - zlen v) = n ->
  while_loop (S n) (fun v => Z.ltb (zlen v) size) body v = (pad value size append v, Ok tt).
Proof.
  intros HB. induction n as [|n IH]; intros v E.
  - cbn [while_loop]. destruct (Z.ltb_spec (zlen v) size) as [L|L]; [lia|].
    unfold pad. rewrite E. simpl. destruct append; [rewrite app_nil_r|]; reflexivity.
  - cbn [while_loop]. destruct (Z.ltb_spec (zlen v) size) as [L|L]; [|lia].
    rewrite HB. unfold pad at 1. rewrite E. destruct append.
    + etransitivity; [apply IH; unfold py_seq_append; rewrite zlen_app; unfold zlen at 2; simpl; lia|].
      unfold pad, py_seq_append. rewrite zlen_app. unfold zlen at 2. simpl length.
      replace (Z.to_nat (size - (zlen v + Z.of_nat 1))) with n by lia.
      rewrite <- app_assoc. reflexivity.
    + etransitivity; [apply IH; unfold py_seq_insert0; rewrite zlen_cons; lia|].
      unfold pad, py_seq_insert0. rewrite zlen_cons.
      replace (Z.to_nat (size - (zlen v + 1))) with n by lia.
      simpl. rewrite repeat_snoc_cons'. reflexivity.
Qed.

Lemma range_down_cons' n : 0 <= n -> py_range_down n (-1) = n :: py_range_down (n - 1) (-1).
Proof.
  intros H. unfold py_range_down. replace (Z.to_nat (n - -1)) with (S (Z.to_nat (n - 1 - -1))) by lia.
  simpl. f_equal; [lia|]. rewrite <- seq_shift, map_map. apply map_ext. intros i. lia.
Qed.

Lemma remove_nth_app' {A} (a : list A) c t : remove_nth (length a) (a ++ c :: t) = a ++ t.
Proof. induction a as [|x a IH]; simpl; [reflexivity | rewrite IH; reflexivity]. Qed.

Definition del_body' (idx : list Z) (cell_idx : Z) (vec : row) : row * res unit :=
  if negb (py_set_contains cell_idx (py_set idx))
  then match py_seq_del vec cell_idx with
       | Ok vec => (vec, Ok tt)
       | Err e_ => (vec, Err e_)
       | OutOfFuel => (vec, OutOfFuel)
       end
  else (vec, Ok tt).

Lemma del_loop' (idx : list Z) : forall (a t : row),
  for_each (py_range_down (zlen a - 1) (-1)) (del_body' idx) (a ++ t) = (select_from idx 0 a ++ t, Ok tt).
Proof.
  intros a. induction a as [|c a IH] using rev_ind; intros t.
  - reflexivity.
  - assert (L : zlen (a ++ [c]) - 1 = zlen a) by (rewrite zlen_app; unfold zlen at 2; simpl; lia).
    rewrite L. rewrite range_down_cons' by apply zlen_nonneg. cbn [for_each].
    rewrite select_from_app. rewrite Z.add_0_l. cbn [select_from].
    unfold del_body' at 1. change (py_set_contains (zlen a) (py_set idx)) with (memb (zlen a) idx).
    destruct (memb (zlen a) idx); cbn [negb].
    + rewrite <- !app_assoc. simpl. apply IH.
    + unfold py_seq_del. rewrite <- app_assoc. simpl app.
      assert (Z1 : zlen (a ++ c :: t) = zlen a + zlen t + 1) by (rewrite zlen_app, zlen_cons; lia).
      pose proof (zlen_nonneg a). pose proof (zlen_nonneg t).
      destruct (Z.ltb_spec (zlen a) 0); [lia|].
      destruct (Z.leb_spec 0 (zlen a)); [|lia]. destruct (Z.ltb_spec (zlen a) (zlen (a ++ c :: t))); [|lia].
      cbn [andb]. replace (Z.to_nat (zlen a)) with (length a) by (unfold zlen; lia). rewrite remove_nth_app'. rewrite app_nil_r. apply IH.
Qed.

Lemma has_key_find_sub' lower l (ss : subsets) :
  has_key lower l ss = match find_sub lower l ss with Some _ => true | None => false end.
Proof.
  unfold has_key. induction ss as [|[l' i'] ss IH]; simpl; [reflexivity|].
  destruct (Z.eqb (lower l') (lower l)); [reflexivity | exact IH].
Qed.

Definition store_eqv (s s' : store) : Prop := s_next s = s_next s' /\ forall r, hget s r = hget s' r.

(* s' is s with the content of object x replaced by c *)
Definition upd_rel (s s' : store) (x : rid) (c : row) : Prop :=
  s_next s' = s_next s /\ hget s' x = c /\ forall y, y <> x -> hget s' y = hget s y.

Lemma hget_mutate s x c y : hget (mutate s x c) y = if Z.eqb y x then c else hget s y.
Proof. unfold hget, mutate. cbn [s_heap aget]. destruct (Z.eqb y x); reflexivity. Qed.

Lemma upd_refl s x : upd_rel s s x (hget s x).
Proof. repeat split. Qed.

Lemma upd_mutate s x c : upd_rel s (mutate s x c) x c.
Proof.
  repeat split.
  - rewrite hget_mutate, Z.eqb_refl. reflexivity.
  - intros y N. rewrite hget_mutate. destruct (Z.eqb_spec y x); [contradiction | reflexivity].
Qed.

Lemma upd_trans s s1 s2 x c c' : upd_rel s s1 x c -> upd_rel s1 s2 x c' -> upd_rel s s2 x c'.
Proof.
  intros [A [B C]] [A' [B' C']]. repeat split; [congruence | exact B' |].
  intros y N. rewrite (C' y N). apply C, N.
Qed.

Lemma eqv_step s1 s2 s1' x (P : row -> row) :
  store_eqv s1 s2 -> upd_rel s1 s1' x (P (hget s1 x)) -> store_eqv s1' (mutate s2 x (P (hget s2 x))).
Proof.
  intros [N H] [A [B C]]. split; [cbn [mutate s_next]; congruence|].
  intros r. rewrite hget_mutate. destruct (Z.eqb_spec r x) as [E|E].
  - subst r. rewrite B, H. reflexivity.
  - rewrite (C r E). apply H.
Qed.

(* ---- a loop over the store that works on ONE object x simulates the loop on its cells ---- *)
Lemma while_sim (x : rid) (sr : orows) (condS : ost -> bool) (condR : row -> bool)
      (bodyS : ost -> ost * res unit) (bodyR : row -> row * res unit) :
  (forall s, condS (s, sr) = condR (hget s x)) ->
  (forall s, exists s1, bodyS (s, sr) = ((s1, sr), snd (bodyR (hget s x))) /\ upd_rel s s1 x (fst (bodyR (hget s x)))) ->
  forall fuel s, exists s',
    while_loop fuel condS bodyS (s, sr) = ((s', sr), snd (while_loop fuel condR bodyR (hget s x)))
    /\ upd_rel s s' x (fst (while_loop fuel condR bodyR (hget s x))).
Proof.
  intros HC HB. induction fuel as [|f IH]; intros s.
  - exists s. split; [reflexivity | apply upd_refl].
  - cbn [while_loop]. rewrite HC. destruct (condR (hget s x)).
    + destruct (HB s) as [s1 [E U]]. rewrite E.
      destruct (bodyR (hget s x)) as [c r]. cbn [fst snd] in *.
      destruct r as [u|e|].
      * destruct (IH s1) as [s' [E' U']]. assert (G : hget s1 x = c) by apply U. rewrite G in *.
        exists s'. split; [exact E' | exact (upd_trans _ _ _ _ _ _ U U')].
      * exists s1. split; [reflexivity | exact U].
      * exists s1. split; [reflexivity | exact U].
    + exists s. split; [reflexivity | apply upd_refl].
Qed.

Lemma for_each_sim {A} (x : rid) (sr : orows) (bodyS : A -> ost -> ost * res unit) (bodyR : A -> row -> row * res unit) :
  (forall a s, exists s1, bodyS a (s, sr) = ((s1, sr), snd (bodyR a (hget s x))) /\ upd_rel s s1 x (fst (bodyR a (hget s x)))) ->
  forall l s, exists s',
    for_each l bodyS (s, sr) = ((s', sr), snd (for_each l bodyR (hget s x)))
    /\ upd_rel s s' x (fst (for_each l bodyR (hget s x))).
Proof.
  intros HB. induction l as [|a l IH]; intros s.
  - exists s. split; [reflexivity | apply upd_refl].
  - cbn [for_each]. destruct (HB a s) as [s1 [E U]]. rewrite E.
    destruct (bodyR a (hget s x)) as [c r]. cbn [fst snd] in *.
    destruct r as [u|e|].
    + destruct (IH s1) as [s' [E' U']]. assert (G : hget s1 x = c) by apply U. rewrite G in *.
      exists s'. split; [exact E' | exact (upd_trans _ _ _ _ _ _ U U')].
    + exists s1. split; [reflexivity | exact U].
    + exists s1. split; [reflexivity | exact U].
Qed.

(* ---- the outer loop: every visited object x gets P (its cells) ---- *)
Lemma obj_loop_eqv {A} (g : tid * rid -> A) (P : row -> row) (sr : orows) (l0 : orows) (body : A -> ost -> ost * res unit) :
  (forall p s, In p l0 -> exists s1, body (g p) (s, sr) = ((s1, sr), Ok tt) /\ upd_rel s s1 (snd p) (P (hget s (snd p)))) ->
  forall l, incl l l0 -> forall s1 s2, store_eqv s1 s2 ->
  exists s', for_each (map g l) body (s1, sr) = ((s', sr), Ok tt)
             /\ store_eqv s' (fold_left (fun s p => mutate s (snd p) (P (hget s (snd p)))) l s2).
Proof.
  intros HB. induction l as [|p l IH]; intros I s1 s2 E.
  - exists s1. split; [reflexivity | exact E].
  - cbn [map for_each fold_left].
    destruct (HB p s1 (I p (or_introl eq_refl))) as [s1' [B U]]. rewrite B.
    apply IH; [intros q Hq; apply I; right; exact Hq|].
    exact (eqv_step _ _ _ _ P E U).
Qed.

Lemma oitems_aget T (sr : orows) p : In p (oitems T sr) -> aget (fst p) sr = Some (snd p).
Proof.
  induction T as [|t T IH]; cbn [oitems]; [intros []|].
  destruct (aget t sr) as [r|] eqn:G; [|exact IH].
  intros [H|H]; [subst p; exact G | exact (IH H)].
Qed.

Lemma eqv_refl s : store_eqv s s.
Proof. split; reflexivity. Qed.

(* ---- fill ---- *)
Theorem gen_o_fill_eq T s (m : omatrix) value size append :
  exists s', gen_o_fill T (s, om_rows m) value size append = ((s', om_rows m), Ok (snd (o_fill T s m value size append)))
             /\ store_eqv s' (fst (o_fill T s m value size append)).
Proof.
  unfold gen_o_fill, o_fill. cbn [fst snd].
  set (sr := om_rows m).
  set (sz := fill_size T (abs_m s m) size).
  replace (match size with None => max_size_st T (s, sr) | Some size0 => size0 end) with sz
    by (unfold sz, fill_size; destruct size; reflexivity).
  cbv zeta. unfold map_iter, o_fill_store. cbn [snd].
  edestruct (obj_loop_eqv (@fst tid rid) (pad value sz append) sr (oitems T sr)
              (fun k st =>
                 bind_val (gen_o_getitem T st (KTax k)) (fun st0 x_1 =>
                   bind_blk (while_loop (S (Z.to_nat (sz - row_len st0 x_1))) (fun st1 => Z.ltb (row_len st1 x_1) sz)
                               (fun st1 => bind_blk (if append then (row_append st1 x_1 value, Ok tt)
                                                     else (row_insert0 st1 x_1 value, Ok tt)) (fun st2 => (st2, Ok tt))) st0)
                            (fun st1 => (st1, Ok tt))))) as [s' [E V]].
  - intros [k x] s0 I. apply oitems_aget in I. cbn [fst snd] in *.
    unfold gen_o_getitem. cbn [resolve_key]. unfold map_get. cbn [snd]. rewrite I. cbn [bind_val]. rewrite bind_ret.
    destruct (while_sim x sr (fun st1 => Z.ltb (row_len st1 x) sz) (fun v => Z.ltb (zlen v) sz)
                (fun st1 => bind_blk (if append then (row_append st1 x value, Ok tt)
                                      else (row_insert0 st1 x value, Ok tt)) (fun st2 => (st2, Ok tt)))
                (fun v => (if append then py_seq_append v value else py_seq_insert0 v value, Ok tt))
                (fun s1 => eq_refl)) with (fuel := S (Z.to_nat (sz - row_len (s0, sr) x))) (s := s0) as [s1 [E U]].
    + intros s1. destruct append; cbn [bind_blk fst snd]; eexists; (split; [reflexivity | apply upd_mutate]).
    + unfold row_len in E, U. cbn [fst] in E, U.
      set (w := while_loop _ _ _ (hget s0 x)) in E, U.
      assert (W : w = (pad value sz append (hget s0 x), Ok tt))
        by (apply (while_pad' value sz append); [intros v; reflexivity | reflexivity]).
      rewrite W in E, U. cbn [fst snd] in E, U.
      exists s1. split; [exact E | exact U].
  - apply incl_refl.
  - apply (eqv_refl s).
  - exists s'. split; [|exact V]. rewrite E. reflexivity.
Qed.

(* ---- pack = fill_taxa, then fill ---- *)
Theorem gen_o_pack_eq g T s (m : omatrix) value size append :
  exists s', gen_o_pack g T (s, om_rows m) value size append
             = ((s', om_rows (snd (o_pack g T s m value size append))), Ok tt)
             /\ store_eqv s' (fst (o_pack g T s m value size append)).
Proof.
  unfold gen_o_pack, o_pack. rewrite gen_o_fill_taxa_eq. cbn [bind_blk].
  destruct (o_fill_taxa_rows g T (s, om_rows m)) as [s1 sr1].
  destruct (gen_o_fill_eq T s1 (oset_rows m sr1) value size append) as [s' [E V]].
  cbn [oset_rows om_rows] in E. rewrite E. cbn [drop_val bind_blk fst snd oset_rows om_rows].
  exists s'. split; [reflexivity | exact V].
Qed.

(* ---- export_character_indices: deep copy, then the column deletion IN PLACE on the clone's objects ---- *)
Theorem gen_o_export_character_indices_eq T s (m : omatrix) idx :
  exists s', gen_o_export_character_indices T (s, om_rows m) idx
             = ((s', om_rows m), Ok (om_rows (snd (o_export T s m idx))))
             /\ store_eqv s' (fst (o_export T s m idx)).
Proof.
  unfold gen_o_export_character_indices, o_export, deepcopy_st. cbn [fst snd].
  destruct (o_deepcopy_rows s [] (om_rows m)) as [s1 cr]. cbn [fst snd om_rows].
  set (sr := om_rows m). cbv zeta. unfold mat_values, o_select_store.
  edestruct (obj_loop_eqv (@snd tid rid) (select_from idx 0) sr (oitems T cr)
              (fun vec st =>
                 bind_blk (for_each (py_range_down (Z.sub (row_len st vec) 1) (Z.opp 1))
                             (fun cell_idx st0 =>
                                bind_blk (if negb (py_set_contains cell_idx (py_set idx))
                                          then bind_blk (row_del st0 vec cell_idx) (fun st1 => (st1, Ok tt))
                                          else (st0, Ok tt)) (fun st1 => (st1, Ok tt))) st)
                          (fun st0 => (st0, Ok tt)))) as [s' [E V]].
  - intros [k x] s0 _. cbn [fst snd]. rewrite bind_ret.
    destruct (for_each_sim x sr
                (fun cell_idx st0 =>
                   bind_blk (if negb (py_set_contains cell_idx (py_set idx))
                             then bind_blk (row_del st0 x cell_idx) (fun st1 => (st1, Ok tt))
                             else (st0, Ok tt)) (fun st1 => (st1, Ok tt)))
                (del_body' idx)) with (l := py_range_down (Z.sub (row_len (s0, sr) x) 1) (Z.opp 1)) (s := s0) as [s1' [E U]].
    + intros i s2. unfold del_body'. destruct (negb (py_set_contains i (py_set idx))); cbn [bind_blk].
      * unfold row_del. cbn [fst snd]. destruct (py_seq_del (hget s2 x) i) as [c|e|]; cbn [bind_blk fst snd].
        -- eexists. split; [reflexivity | apply upd_mutate].
        -- eexists. split; [reflexivity | apply upd_refl].
        -- eexists. split; [reflexivity | apply upd_refl].
      * eexists. split; [reflexivity | apply upd_refl].
    + unfold row_len in E, U. cbn [fst] in E, U.
      change (Z.sub (zlen (hget s0 x)) 1) with (zlen (hget s0 x) - 1) in E, U. change (Z.opp 1) with (-1) in E, U.
      set (w := for_each _ _ (hget s0 x)) in E, U.
      assert (W : w = (select_from idx 0 (hget s0 x), Ok tt)).
      { pose proof (del_loop' idx (hget s0 x) []) as D. rewrite !app_nil_r in D. exact D. }
      rewrite W in E, U. cbn [fst snd] in E, U.
      exists s1'. split; [exact E | exact U].
  - apply incl_refl.
  - apply (eqv_refl s1).
  - exists s'. split; [|exact V]. rewrite E. reflexivity.
Qed.

(* ---- export_character_subset: the lookup, then export_character_indices ---- *)
Theorem gen_o_export_character_subset_eq lower T (subs : subsets) (st : ost) (cs : lbl + list Z) :
  gen_o_export_character_subset lower T subs st cs
  = match cs with
    | inl l => match find_sub lower l subs with
               | None => (st, Err KeyErr)
               | Some idx => gen_o_export_character_indices T st idx
               end
    | inr idx => gen_o_export_character_indices T st idx
    end.
Proof.
  unfold gen_o_export_character_subset. destruct cs as [l|idx]; [|reflexivity].
  rewrite (has_key_find_sub' lower l subs). destruct (find_sub lower l subs); reflexivity.
Qed.

(* the stores really differ as lists (so equality is the wrong statement) but agree on every object *)
Example fill_run :
  gen_o_fill [1; 2] (mkS [(11, [3]); (10, [1; 2])] 12, [(1, 10); (2, 11)]) 9 (Some 3) true
  = ((mkS [(11, [3; 9; 9]); (11, [3; 9]); (10, [1; 2; 9]); (11, [3]); (10, [1; 2])] 12, [(1, 10); (2, 11)]), Ok 3).
Proof. reflexivity. Qed.

(* the deep copy: objects 12, 13 are new; the deletion reaches only them, the source rows 10, 11 keep their cells *)
Example export_run :
  exists h, gen_o_export_character_indices [1; 2] (mkS [(11, [3; 4]); (10, [1; 2])] 12, [(1, 10); (2, 11)]) [1]
            = ((mkS h 14, [(1, 10); (2, 11)]), Ok [(1, 12); (2, 13)])
            /\ hget (mkS h 14) 10 = [1; 2] /\ hget (mkS h 14) 11 = [3; 4]
            /\ hget (mkS h 14) 12 = [2] /\ hget (mkS h 14) 13 = [4].
Proof. eexists. split; [reflexivity|]. repeat split. Qed.
