(* C07 link, part 6: randomly_rotate / randomly_reorient on the heap.  C03 proves that the heap
   programs stay well formed under ANY script (children named twice or not at all are dropped or
   kept once); here, for scripts in which every shuffle result is a permutation of the child list it
   was given (what random.shuffle delivers), the result is the same tree up to child order, hence
   the same unrooted tree.  Node.set_child_nodes = clear_child_nodes + add_child for each. *)
From Coq Require Import ZArith List Bool Lia Permutation.
From DV Require Import Model.PyPrims Model.Tree.
From DV Require Import Model.Heap Model.HeapOps Proofs.C03Base Proofs.C03Abs Proofs.C03Local Proofs.C03Prims
     Proofs.C03Ops Proofs.C03Order Proofs.C03Hist Proofs.C03SetKids.
From DV Require Model.C07Model Proofs.C07Base Proofs.C07Blocks Proofs.C07Ops Proofs.C07LinkOps.
From DV Require Import Model.C07Spec Proofs.C07Equiv Proofs.C07LinkOrder.
Import ListNotations.
Open Scope Z_scope.

(* ---------- index scripts ---------- *)
Lemma nths_perm l : forall sg sg' xs, Permutation sg sg' -> nths l sg = Some xs ->
  exists xs', nths l sg' = Some xs' /\ Permutation xs xs'.
Proof.
  intros sg sg' xs HP. revert xs. induction HP as [|j sg sg' HP IH|j1 j2 sg|sg1 sg2 sg3 H1 IH1 H2 IH2]; intros xs Hl.
  - exists xs. split; [assumption | apply Permutation_refl].
  - simpl in *. destruct (nth_error l j) as [k|]; [|discriminate].
    destruct (nths l sg) as [r|] eqn:E; [|discriminate]. inversion Hl; subst.
    destruct (IH r eq_refl) as [r' [Hr' Hp]]. rewrite Hr'. exists (k :: r'). split; [reflexivity | apply perm_skip; assumption].
  - simpl in *. destruct (nth_error l j2) as [k2|]; [|discriminate].
    destruct (nth_error l j1) as [k1|]; [|discriminate].
    destruct (nths l sg) as [r|]; [|discriminate]. inversion Hl; subst.
    exists (k1 :: k2 :: r). split; [reflexivity | apply perm_swap].
  - destruct (IH1 xs Hl) as [l2 [E2 P2]]. destruct (IH2 l2 E2) as [l3 [E3 P3]].
    exists l3. split; [assumption | eapply Permutation_trans; eauto].
Qed.

Lemma nths_shift sg a l : nths (a :: l) (map S sg) = nths l sg.
Proof. induction sg as [|j r IH]; [reflexivity|]. simpl. rewrite IH. reflexivity. Qed.

Lemma nths_seq l : nths l (seq 0 (length l)) = Some l.
Proof.
  induction l as [|a l IH]; [reflexivity|]. cbn [length]. rewrite <- cons_seq, <- seq_shift.
  cbn [nths nth_error]. rewrite nths_shift, IH. reflexivity.
Qed.

Lemma nths_of_perm l pm : Permutation pm (seq 0 (length l)) ->
  exists sel, nths l pm = Some sel /\ Permutation sel l.
Proof.
  intro P. destruct (nths_perm l _ _ l (Permutation_sym P) (nths_seq l)) as [sel [E Ps]].
  exists sel. split; [exact E | apply Permutation_sym; exact Ps].
Qed.

(* ---------- the child list after set_child_nodes ---------- *)
Lemma hfold_add_child_kids p : forall sel h0 h',
  hfold (add_child p) sel h0 = HOk h' -> NoDup sel -> (forall c, In c sel -> ~ In c (kids h0 p)) ->
  kids h' p = kids h0 p ++ sel.
Proof.
  induction sel as [|c r IH]; intros h0 h' H N D.
  - simpl in H. inversion H. rewrite app_nil_r. reflexivity.
  - simpl in H. unfold add_child in H at 1.
    destruct (Z.eqb c p); [discriminate|]. destruct (oz_eqb (parent h0 p) (Some c)); [discriminate|].
    simpl hbind in H. inversion N as [|? ? Hc Nr]; subst.
    assert (K1 : kids (set_parent c (Some p) h0) p = kids h0 p) by apply kids_set_parent.
    assert (M : memz c (kids (set_parent c (Some p) h0) p) = false).
    { rewrite K1. apply memz_false. apply D. left. reflexivity. }
    rewrite M in H.
    rewrite (IH _ _ H Nr).
    + rewrite kids_set_kids, Z.eqb_refl, K1, <- app_assoc. reflexivity.
    + intros d Hd. rewrite kids_set_kids, Z.eqb_refl, K1. intro C. apply in_app_or in C. destruct C as [C|[C|[]]].
      * apply (D d (or_intror Hd) C).
      * subst d. contradiction.
Qed.

Lemma nodup_incl_perm {A} (f : A -> Z) (ks ks' : list A) :
  NoDup (map f ks') -> incl ks' ks -> length ks' = length ks -> Permutation ks' ks.
Proof.
  intros N I L. apply NoDup_Permutation_bis; [eapply NoDup_map_inv; eauto | lia | assumption].
Qed.

Lemma set_child_nodes_perm h c p x l e ks sel :
  Wr h (plug c (T p x l e ks)) -> Permutation sel (map t_id ks) ->
  exists h' ks', set_child_nodes p sel h = HOk h' /\ Wr h' (plug c (T p x l e ks')) /\
                 Permutation ks ks' /\ pres h h'.
Proof.
  intros W P.
  destruct (wr_focus _ _ _ _ _ _ _ W) as [_ [_ [_ [N1 _]]]].
  assert (Nsel : NoDup sel).
  { eapply Permutation_NoDup; [apply Permutation_sym; exact P | apply NoDup_kids_ids; exact N1]. }
  destruct (set_child_nodes_own_full h c p x l e ks sel W) as [h' [ks' [E [W' [Sub [Nk' [_ [Pr _]]]]]]]].
  { intros ci Hci. eapply Permutation_in; eauto. }
  assert (K' : kids h' p = sel).
  { unfold set_child_nodes, clear_child_nodes in E.
    rewrite (hfold_add_child_kids p sel _ _ E Nsel).
    - rewrite kids_set_kids, Z.eqb_refl. reflexivity.
    - intros d _. rewrite kids_set_kids, Z.eqb_refl. intros []. }
  assert (M' : map t_id ks' = sel) by (rewrite <- K'; symmetry; apply (kids_of_focus h' c (T p x l e ks') W')).
  exists h', ks'. split; [exact E|]. split; [exact W'|]. split; [|exact Pr].
  apply Permutation_sym. apply (nodup_incl_perm t_id); [exact Nk' | exact Sub|].
  rewrite <- (map_length t_id ks'), M', (Permutation_length P), map_length. reflexivity.
Qed.

(* ---------- the fold ---------- *)
(* every shuffle result that gets consumed is a permutation of the child list it was computed from *)
Fixpoint perms_ok (nodes : list Z) (perms : list (list nat)) (h : heap) : Prop :=
  match nodes with
  | [] => True
  | nd :: r =>
    match perms with
    | [] => False
    | pm :: ps =>
      Permutation pm (seq 0 (length (kids h nd))) /\
      forall sel h1, nths (kids h nd) pm = Some sel -> set_child_nodes nd sel h = HOk h1 -> perms_ok r ps h1
    end
  end.

Lemma rotate_each_same : forall nodes perms h t,
  Wr h t -> (forall nd, In nd nodes -> In nd (ids t)) -> NoDup (leaf_taxa t) -> perms_ok nodes perms h ->
  exists h' t', rotate_each nodes perms h = HOk h' /\ Wr h' t' /\ same_tree t t' /\ pres h h'.
Proof.
  induction nodes as [|nd r IH]; intros perms h t W HL ND OK.
  - exists h, t. split; [reflexivity|]. split; [exact W|]. split; [apply same_tree_refl | apply pres_refl].
  - destruct perms as [|pm ps]; [contradiction|]. destruct OK as [Ppm OK].
    destruct (nths_of_perm (kids h nd) pm Ppm) as [sel [En Psel]].
    simpl. rewrite En.
    assert (Hn : In nd (ids t)) by (apply HL; left; reflexivity).
    destruct (find_ctx t nd Hn) as [c [s [Et Es]]]. subst t. destruct s as [i x l e ks]. simpl in Es. subst i.
    assert (K : kids h nd = map t_id ks) by (apply (kids_of_focus h c (T nd x l e ks) W)).
    rewrite K in Psel.
    destruct (set_child_nodes_perm h c nd x l e ks sel W Psel) as [h1 [ks' [E1 [W1 [Pk P1]]]]].
    rewrite E1. simpl hbind.
    assert (ST : same_tree (plug c (T nd x l e ks)) (plug c (T nd x l e ks'))).
    { split; [apply same_nodes_plug_kids, Pk|]. apply equivT_plug. destruct ks as [|k0 kr].
      - apply Permutation_nil in Pk. subst ks'. apply equivT_refl.
      - apply equivT_perm; [discriminate | exact Pk|].
        apply nodup_lt_plug in ND. rewrite C07Base.leaf_taxa_node in ND by discriminate. exact ND. }
    destruct (IH ps h1 _ W1) as [h' [t' [E' [W' [ST' P']]]]].
    + intros n Hn'. destruct ST as [[_ [PI _]] _]. eapply Permutation_in; [exact PI|]. apply HL. right. exact Hn'.
    + destruct ST as [_ ET]. eapply Permutation_NoDup; [apply (et_lt _ _ ET) | exact ND].
    + apply (OK sel h1 En E1).
    + exists h', t'. split; [exact E'|]. split; [exact W'|]. split; [eapply same_tree_trans; eauto | eapply pres_trans; eauto].
Qed.

Definition rotate_nodes (h : heap) (t : tree) : list Z := filter (is_internal h) (pre_ids t).

Lemma heap_randomly_rotate_l perms h t :
  WF h -> abs h = Some t -> NoDup (leaf_taxa t) -> perms_ok (rotate_nodes h t) perms h ->
  exists h' t', HeapOps.randomly_rotate perms h = HOk h' /\ WF h' /\ abs h' = Some t' /\ rooted h' = rooted h
    /\ t_id t' = t_id t /\ Permutation (ids t) (ids t')
    /\ Permutation (leaf_taxa t) (leaf_taxa t')
    /\ (forall S, is_usplit t S <-> is_usplit t' S)
    /\ total_length t' = total_length t
    /\ (forall a b, dist a b t' = dist a b t).
Proof.
  intros Wf A ND OK. pose proof (WF_abs_t h t Wf A) as W. pose proof W as [W0 S].
  unfold randomly_rotate. rewrite (with_sub_seed h t _ W).
  destruct (rotate_each_same (rotate_nodes h t) perms h t W0) as [h' [t' [E' [W' [[[I1 [I2 _]] ET] [P1 [P2 P3]]]]]]]; try assumption.
  { intros nd Hn. apply filter_In in Hn. exact (proj1 Hn). }
  assert (Wt' : WFt h' t') by (split; [exact W'|]; congruence).
  exists h', t'. split; [exact E'|]. split; [eapply WFt_WF; eauto|]. split; [apply abs_WFt; exact Wt'|].
  split; [exact P2|]. split; [exact I1|]. split; [exact I2|].
  apply C07Ops.equivU_unfold, equivT_U, ET.
Qed.

(* randomly_reorient when the sampled node is internal (for a leaf the library calls
   to_outgroup_position with unifurcation suppression, which C03 shows can break the structure) *)
Lemma heap_randomly_reorient_l pick perms ub h t nd :
  WF h -> abs h = Some t -> nth_error (pre_ids t) pick = Some nd -> is_internal_node nd t ->
  (2 <= length (t_kids t))%nat -> NoDup (leaf_taxa t) ->
  (forall h1 t1, HeapOps.reseed_at nd ub true true h = HOk h1 -> abs h1 = Some t1 ->
                 perms_ok (rotate_nodes h1 t1) perms h1) ->
  exists h' t', HeapOps.randomly_reorient pick perms ub h = HOk h' /\ WF h' /\ abs h' = Some t'
    /\ Permutation (leaf_taxa t) (leaf_taxa t')
    /\ (forall S, is_usplit t S <-> is_usplit t' S)
    /\ total_length t' = total_length t
    /\ (forall a b, dist a b t' = dist a b t).
Proof.
  intros Wf A Hp HI TK ND OK. pose proof (WF_abs_t h t Wf A) as W.
  unfold randomly_reorient. rewrite (with_sub_seed h t _ W), Hp.
  destruct (C07LinkOps.focus_of_internal h t nd W HI) as [c [s [Et [Es [Hk [_ _]]]]]].
  assert (Hint : is_internal h nd = true).
  { subst t nd. destruct W as [[R _] _]. apply rep_plug in R. destruct R as [_ Rs].
    unfold is_internal. rewrite (rep_kids h _ s Rs). destruct (t_kids s); [congruence | reflexivity]. }
  rewrite Hint.
  destruct (C07LinkOps.heap_reseed_at_l ub true true h t nd Wf A HI TK ND)
    as [h1 [t1 [r1 [E1 [W1 [A1 [_ [I1 [I2 [I3 I4]]]]]]]]]].
  rewrite E1. simpl hbind.
  assert (ND1 : NoDup (leaf_taxa t1)) by (eapply Permutation_NoDup; eauto).
  destruct (heap_randomly_rotate_l perms h1 t1 W1 A1 ND1 (OK h1 t1 E1 A1))
    as [h' [t' [E' [W' [A' [_ [_ [_ [J1 [J2 [J3 J4]]]]]]]]]]].
  exists h', t'. split; [exact E'|]. split; [exact W'|]. split; [exact A'|].
  split; [eapply Permutation_trans; eauto|]. split; [intro S; rewrite I2; apply J2|].
  split; [congruence|]. intros a b. rewrite J4. apply I4.
Qed.
