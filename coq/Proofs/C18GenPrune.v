(* C18 - the extinct-tip pruning loop of birth_death_tree: the upward climb over parent pointers
   (as the source does it) removes exactly what the model's bottom-up prune1 removes *)
From Coq Require Import QArith ZArith List Bool Arith Lia Permutation.
From DV Require Import Model.C18Model Model.C18Prims.
From DV Require Import Proofs.C18Lists Proofs.C18Tree Proofs.C18Monad Proofs.C18BD.
From DV Require Model.PyPrims.
Import ListNotations.
Open Scope nat_scope.

(* ---------------- first hit in a child list ---------------- *)

Definition first_val {A B} (f : A -> option B) (l : list A) : option B :=
  fold_right (fun k acc => match f k with Some p => Some p | None => acc end) None l.

Lemma first_val_split {A B} (f : A -> option B) : forall l1 k l2,
  (forall k', In k' l1 -> f k' = None) ->
  first_val f (l1 ++ k :: l2) = match f k with Some p => Some p | None => first_val f l2 end.
Proof.
  induction l1 as [|a l1 IH]; intros k l2 H; simpl; [reflexivity|].
  rewrite (H a (or_introl eq_refl)). apply IH. intros k' Hk'. apply H. right. exact Hk'.
Qed.

Lemma first_val_none {A B} (f : A -> option B) : forall l, (forall k, In k l -> f k = None) -> first_val f l = None.
Proof.
  induction l as [|a l IH]; intros H; simpl; [reflexivity|]. rewrite (H a (or_introl eq_refl)). apply IH.
  intros k Hk. apply H. right. exact Hk.
Qed.

Lemma parent_of_unfold : forall x i l tx ks,
  parent_of x (B i l tx ks) = if existsb (fun k => b_id k =? x) ks then Some i else first_val (parent_of x) ks.
Proof. reflexivity. Qed.

Lemma nkids_of_unfold : forall x i l tx ks,
  nkids_of x (B i l tx ks) = if i =? x then Some (length ks) else first_val (nkids_of x) ks.
Proof. reflexivity. Qed.

Lemma parent_of_notin : forall x t, ~ In x (ids t) -> parent_of x t = None.
Proof.
  intros x. induction t as [i l tx ks IH] using btree_ind2. intros H. rewrite parent_of_unfold.
  assert (E : existsb (fun k => b_id k =? x) ks = false).
  { apply not_true_is_false. intro Hc. apply existsb_exists in Hc. destruct Hc as (k & Hk & Ek).
    apply Nat.eqb_eq in Ek. apply H. simpl. right. apply in_flat_map. exists k. split; auto. rewrite <- Ek. apply ids_root. }
  rewrite E. apply first_val_none. rewrite Forall_forall in IH. intros k Hk. apply (IH k Hk).
  intro Hc. apply H. simpl. right. apply in_flat_map. eauto.
Qed.

Lemma nkids_of_notin : forall x t, ~ In x (ids t) -> nkids_of x t = None.
Proof.
  intros x. induction t as [i l tx ks IH] using btree_ind2. intros H. rewrite nkids_of_unfold.
  destruct (i =? x) eqn:E; [apply Nat.eqb_eq in E; exfalso; apply H; simpl; auto|].
  apply first_val_none. rewrite Forall_forall in IH. intros k Hk. apply (IH k Hk).
  intro Hc. apply H. simpl. right. apply in_flat_map. eauto.
Qed.

(* ---------------- parent pointers, read off the structure ---------------- *)

(* in a tree with unique identities, the children of a node s (anywhere in T) have s as parent, and
   s has as many children as its list says *)
Lemma parent_global : forall T, NoDup (ids T) ->
  forall s, In s (subtrees T) -> forall k, In k (b_kids s) ->
  parent_of (b_id k) T = Some (b_id s) /\ nkids_of (b_id s) T = Some (length (b_kids s)).
Proof.
  induction T as [j l tx js IH] using btree_ind2. intros Hn s Hs k Hk.
  destruct (NoDup_kids _ _ _ _ Hn) as [Hj Hnk].
  simpl in Hs. destruct Hs as [<-|Hs].
  - simpl in Hk. split.
    + rewrite parent_of_unfold.
      replace (existsb (fun k0 => b_id k0 =? b_id k) js) with true; [reflexivity|].
      symmetry. apply existsb_exists. exists k. split; [exact Hk|apply Nat.eqb_refl].
    + simpl. rewrite Nat.eqb_refl. reflexivity.
  - apply in_flat_map in Hs. destruct Hs as (k0 & Hk0 & Hs).
    rewrite Forall_forall in IH.
    destruct (IH k0 Hk0 (NoDup_kid _ k0 Hnk Hk0) s Hs k Hk) as [P1 P2].
    destruct (in_split k0 js Hk0) as (l1 & l2 & ->).
    rewrite flat_map_split in Hnk. apply NoDup_app_iff in Hnk. destruct Hnk as (_ & Hn2 & Hd1).
    apply NoDup_app_iff in Hn2. destruct Hn2 as (Hnk0 & _ & Hd2).
    assert (Hsub : forall z, In z (ids s) -> In z (ids k0)).
    { clear - Hs. intros z Hz. revert s Hs z Hz. induction k0 as [i l tx ks IHk] using btree_ind2.
      intros s Hs z Hz. simpl in Hs. destruct Hs as [<-|Hs]; [exact Hz|].
      apply in_flat_map in Hs. destruct Hs as (k' & Hk' & Hs). rewrite Forall_forall in IHk.
      simpl. right. apply in_flat_map. exists k'. split; [exact Hk'|]. eapply IHk; eauto. }
    assert (Hkin : In (b_id k) (ids k0)).
    { apply Hsub. destruct s as [i0 l0 tx0 ks0]. simpl in *. right. apply in_flat_map. exists k. split; [exact Hk|apply ids_root]. }
    assert (Hsin : In (b_id s) (ids k0)) by (apply Hsub; apply ids_root).
    assert (Hl1 : forall z, In z (ids k0) -> forall k', In k' l1 -> ~ In z (ids k')).
    { intros z Hz k' Hk' Hc. apply (Hd1 z); [apply in_flat_map; eauto|apply in_or_app; left; exact Hz]. }
    assert (Hl2 : forall z, In z (ids k0) -> forall k', In k' l2 -> ~ In z (ids k')).
    { intros z Hz k' Hk' Hc. apply (Hd2 z Hz). apply in_flat_map. eauto. }
    split.
    + rewrite parent_of_unfold.
      assert (E : existsb (fun k1 => b_id k1 =? b_id k) (l1 ++ k0 :: l2) = false).
      { apply not_true_is_false. intro Hc. apply existsb_exists in Hc. destruct Hc as (k1 & Hk1 & Ek).
        apply Nat.eqb_eq in Ek. apply in_app_or in Hk1. destruct Hk1 as [Hk1|[<-|Hk1]].
        - apply (Hl1 _ Hkin k1 Hk1). rewrite <- Ek. apply ids_root.
        - (* the root of k0 is not a proper descendant of k0 *)
          assert (Hp : parent_of (b_id k0) k0 = None).
          { destruct k0 as [i0 l0 tx0 ks0]. simpl b_id. rewrite parent_of_unfold.
            destruct (NoDup_kids _ _ _ _ Hnk0) as [Hi0 _].
            replace (existsb (fun k2 => b_id k2 =? i0) ks0) with false.
            - apply first_val_none. intros k2 Hk2. apply parent_of_notin. intro Hc. apply Hi0. apply in_flat_map. eauto.
            - symmetry. apply not_true_is_false. intro Hc. apply existsb_exists in Hc. destruct Hc as (k2 & Hk2 & E2).
              apply Nat.eqb_eq in E2. apply Hi0. apply in_flat_map. exists k2. split; auto. rewrite <- E2. apply ids_root. }
          rewrite Ek in Hp. congruence.
        - apply (Hl2 _ Hkin k1 Hk1). rewrite <- Ek. apply ids_root. }
      rewrite E. rewrite first_val_split by (intros k' Hk'; apply parent_of_notin; apply Hl1; assumption).
      rewrite P1. reflexivity.
    + rewrite nkids_of_unfold.
      assert (E : j =? b_id s = false).
      { apply Nat.eqb_neq. intro Hc. apply Hj. rewrite Hc. rewrite flat_map_split. apply in_or_app. right.
        apply in_or_app. left. exact Hsin. }
      rewrite E. rewrite first_val_split by (intros k' Hk'; apply nkids_of_notin; apply Hl1; assumption).
      rewrite P2. reflexivity.
Qed.

Lemma parent_root : forall T, NoDup (ids T) -> parent_of (b_id T) T = None.
Proof.
  intros [i0 l0 tx0 ks0] Hn. simpl b_id. rewrite parent_of_unfold.
  destruct (NoDup_kids _ _ _ _ Hn) as [Hi0 _].
  replace (existsb (fun k2 => b_id k2 =? i0) ks0) with false.
  - apply first_val_none. intros k2 Hk2. apply parent_of_notin. intro Hc. apply Hi0. apply in_flat_map. eauto.
  - symmetry. apply not_true_is_false. intro Hc. apply existsb_exists in Hc. destruct Hc as (k2 & Hk2 & E2).
    apply Nat.eqb_eq in E2. apply Hi0. apply in_flat_map. exists k2. split; auto. rewrite <- E2. apply ids_root.
Qed.

(* ---------------- where the climb from x stops, computed top-down ---------------- *)

Section FirstSome.
  Context {A B : Type} (f : A -> option B).
  Fixpoint first_some (l : list A) : option (A * B) :=
    match l with
    | [] => None
    | a :: r => match f a with Some b => Some (a, b) | None => first_some r end
    end.
End FirstSome.

Lemma first_some_split {A B} (f : A -> option B) : forall l1 k l2 b,
  (forall k', In k' l1 -> f k' = None) -> f k = Some b -> first_some f (l1 ++ k :: l2) = Some (k, b).
Proof.
  induction l1 as [|a l1 IH]; intros k l2 b H Hk; simpl; [rewrite Hk; reflexivity|].
  rewrite (H a (or_introl eq_refl)). apply IH; [|exact Hk]. intros k' Hk'. apply H. right. exact Hk'.
Qed.

Lemma first_some_none {A B} (f : A -> option B) : forall l, (forall k, In k l -> f k = None) -> first_some f l = None.
Proof.
  induction l as [|a l IH]; intros H; simpl; [reflexivity|]. rewrite (H a (or_introl eq_refl)). apply IH.
  intros k Hk. apply H. right. exact Hk.
Qed.

(* (y, n): starting at x and moving to the parent while the parent has exactly one child, one stops
   at y after n moves - inside t; reaching t's root means "to be continued above t" *)
Fixpoint ctop (x : nat) (t : btree) : option (nat * nat) :=
  match t with B i _ _ ks =>
    if i =? x then Some (x, 0)
    else match first_some (ctop x) ks with
         | Some (k, (y, n)) => if (y =? b_id k) && (length ks =? 1) then Some (i, S n) else Some (y, n)
         | None => None
         end
  end.

Lemma ctop_notin : forall x t, ~ In x (ids t) -> ctop x t = None.
Proof.
  intros x. induction t as [i l tx ks IH] using btree_ind2. intros H. simpl.
  destruct (i =? x) eqn:E; [apply Nat.eqb_eq in E; exfalso; apply H; simpl; auto|].
  rewrite first_some_none; [reflexivity|]. rewrite Forall_forall in IH. intros k Hk. apply (IH k Hk).
  intro Hc. apply H. simpl. right. apply in_flat_map. eauto.
Qed.

Lemma ctop_in : forall x t, NoDup (ids t) -> In x (ids t) ->
  exists y n, ctop x t = Some (y, n) /\ In y (ids t) /\ n < length (ids t).
Proof.
  intros x. induction t as [i l tx ks IH] using btree_ind2. intros Hn Hx. simpl ctop.
  destruct (i =? x) eqn:E.
  - apply Nat.eqb_eq in E. subst. exists x, 0. simpl. split; [reflexivity|]. split; [auto|lia].
  - apply Nat.eqb_neq in E. simpl in Hx. destruct Hx as [Hx|Hx]; [congruence|].
    destruct (NoDup_kids _ _ _ _ Hn) as [Hi Hnk].
    destruct (kids_split x ks Hnk Hx) as (l1 & k & l2 & -> & Hk & Ha & Hb).
    rewrite Forall_forall in IH.
    destruct (IH k (in_elt k l1 l2) (NoDup_kid _ k Hnk (in_elt k l1 l2)) Hk) as (y & n & Ey & Hy & Hlt).
    rewrite (first_some_split (ctop x) l1 k l2 (y, n)); [|intros k' Hk'; apply ctop_notin; apply Ha; exact Hk'|exact Ey].
    assert (Hlen : length (ids k) <= length (flat_map ids (l1 ++ k :: l2))).
    { rewrite flat_map_split, !app_length. lia. }
    destruct ((y =? b_id k) && (length (l1 ++ k :: l2) =? 1)).
    + exists i, (S n). split; [reflexivity|]. split; [simpl; auto|simpl; lia].
    + exists y, n. split; [reflexivity|]. split; [|simpl; lia].
      simpl. right. rewrite flat_map_split. apply in_or_app. right. apply in_or_app. left. exact Hy.
Qed.

(* the climb over parent pointers, with fuel *)
Fixpoint climbf (f : nat) (t : btree) (x : nat) : option nat :=
  match f with
  | 0 => None
  | S f' => match parent_of x t with
            | Some p => if b_nkids t p =? 1 then climbf f' t p else Some x
            | None => Some x
            end
  end.

Lemma subtrees_ids : forall t s z, In s (subtrees t) -> In z (ids s) -> In z (ids t).
Proof.
  induction t as [i l tx ks IHk] using btree_ind2. intros s z Hs Hz. simpl in Hs. destruct Hs as [<-|Hs]; [exact Hz|].
  apply in_flat_map in Hs. destruct Hs as (k' & Hk' & Hs). rewrite Forall_forall in IHk.
  simpl. right. apply in_flat_map. exists k'. split; [exact Hk'|]. eapply IHk; eauto.
Qed.

Lemma subtrees_trans : forall t s k, In s (subtrees t) -> In k (b_kids s) -> In k (subtrees t).
Proof.
  induction t as [i l tx ks IHk] using btree_ind2. intros s k Hs Hk. simpl in Hs. destruct Hs as [<-|Hs].
  - simpl in Hk. simpl. right. apply in_flat_map. exists k. split; [exact Hk|]. destruct k. simpl. auto.
  - apply in_flat_map in Hs. destruct Hs as (k' & Hk' & Hs). rewrite Forall_forall in IHk.
    simpl. right. apply in_flat_map. exists k'. split; [exact Hk'|]. eapply IHk; eauto.
Qed.

Lemma subtrees_NoDup : forall t s, NoDup (ids t) -> In s (subtrees t) -> NoDup (ids s).
Proof.
  induction t as [i l tx ks IHk] using btree_ind2. intros s Hn Hs. simpl in Hs. destruct Hs as [<-|Hs]; [exact Hn|].
  apply in_flat_map in Hs. destruct Hs as (k' & Hk' & Hs). rewrite Forall_forall in IHk.
  destruct (NoDup_kids _ _ _ _ Hn) as [_ Hnk]. eapply IHk; eauto. eapply NoDup_kid; eauto.
Qed.

(* the climb inside a subtree s of T follows ctop; at the root of s it continues in T *)
Lemma climb_in_subtree : forall T, NoDup (ids T) ->
  forall s, In s (subtrees T) -> forall x y n, ctop x s = Some (y, n) ->
  forall f, climbf (n + S f) T x = if y =? b_id s then climbf (S f) T (b_id s) else Some y.
Proof.
  intros T HT. induction s as [i l tx ks IH] using btree_ind2. intros Hs x y n Hc f.
  simpl in Hc. destruct (i =? x) eqn:E.
  - apply Nat.eqb_eq in E. inversion Hc; subst. simpl b_id. rewrite Nat.eqb_refl. reflexivity.
  - destruct (first_some (ctop x) ks) as [[k [y0 n0]]|] eqn:Ef; [|discriminate].
    assert (Hk : In k ks /\ ctop x k = Some (y0, n0)).
    { clear - Ef. induction ks as [|a r IHr]; simpl in Ef; [discriminate|].
      destruct (ctop x a) as [b|] eqn:Ea.
      - inversion Ef; subst. split; [left; reflexivity|exact Ea].
      - destruct (IHr Ef) as [H1 H2]. split; [right; exact H1|exact H2]. }
    destruct Hk as [Hk Ek].
    assert (Hsk : In k (subtrees T)) by (eapply subtrees_trans; eauto).
    rewrite Forall_forall in IH. specialize (IH k Hk Hsk x y0 n0 Ek).
    destruct (parent_global T HT (B i l tx ks) Hs k Hk) as [P1 P2]. simpl b_id in P1, P2. simpl b_kids in P2.
    assert (Hns : NoDup (ids (B i l tx ks))) by (eapply subtrees_NoDup; eauto).
    destruct (NoDup_kids _ _ _ _ Hns) as [Hi Hnk].
    assert (Hy0 : In y0 (ids k)).
    { destruct (in_dec Nat.eq_dec x (ids k)) as [Hx|Hx].
      - destruct (ctop_in x k (NoDup_kid _ k Hnk Hk) Hx) as (y1 & n1 & E1 & H1 & _). congruence.
      - rewrite (ctop_notin x k Hx) in Ek. discriminate. }
    assert (Hy0i : y0 <> i).
    { intro; subst. apply Hi. apply in_flat_map. eauto. }
    destruct (y0 =? b_id k) eqn:Ey.
    + apply Nat.eqb_eq in Ey. subst y0. destruct (length ks =? 1) eqn:El; simpl andb in Hc; inversion Hc; subst.
      * (* the parent has one child: the climb goes on to i *)
        simpl b_id. rewrite ?Nat.eqb_refl.
        replace (S n0 + S f) with (n0 + S (S f)) by lia. rewrite IH, ?Nat.eqb_refl.
        cbn [climbf]. rewrite P1. unfold b_nkids. rewrite P2, El. reflexivity.
      * simpl b_id. rewrite (proj2 (Nat.eqb_neq (b_id k) i) Hy0i).
        rewrite IH, ?Nat.eqb_refl. cbn [climbf]. rewrite P1. unfold b_nkids. rewrite P2, El. reflexivity.
    + simpl andb in Hc. inversion Hc; subst. simpl b_id. rewrite (proj2 (Nat.eqb_neq y i) Hy0i).
      rewrite IH. rewrite ?Ey. reflexivity.
Qed.

Theorem climb_is_ctop : forall T x, NoDup (ids T) -> In x (ids T) ->
  exists y n, ctop x T = Some (y, n) /\ climbf (S (length (ids T))) T x = Some y.
Proof.
  intros T x HT Hx. destruct (ctop_in x T HT Hx) as (y & n & Ey & Hy & Hlt).
  exists y, n. split; [exact Ey|].
  assert (HsT : In T (subtrees T)) by (destruct T; simpl; auto).
  replace (S (length (ids T))) with (n + S (length (ids T) - n)) by lia.
  rewrite (climb_in_subtree T HT T HsT x y n Ey).
  destruct (y =? b_id T) eqn:E; [|reflexivity].
  apply Nat.eqb_eq in E. cbn [climbf]. rewrite (parent_root T HT). congruence.
Qed.

(* ---------------- removing the subtree at the top of the climb = prune1 ---------------- *)

Lemma remove_child_notin : forall y t, ~ In y (ids t) -> remove_child y t = t.
Proof.
  intros y. induction t as [i l tx ks IH] using btree_ind2. intros H. simpl. f_equal.
  rewrite Forall_forall in IH.
  assert (Hk : forall k, In k ks -> ~ In y (ids k)).
  { intros k Hk Hc. apply H. simpl. right. apply in_flat_map. eauto. }
  clear H. induction ks as [|k r IHr]; [reflexivity|]. simpl.
  assert (E : b_id k =? y = false).
  { apply Nat.eqb_neq. intro Hc. apply (Hk k (or_introl eq_refl)). rewrite <- Hc. apply ids_root. }
  rewrite E, (IH k (or_introl eq_refl) (Hk k (or_introl eq_refl))). simpl. f_equal.
  apply IHr; intros; [apply IH|apply Hk]; try right; assumption.
Qed.

Lemma remove_child_kids_notin : forall y (l : list btree), (forall k, In k l -> ~ In y (ids k)) ->
  flat_map (fun k => if b_id k =? y then [] else [remove_child y k]) l = l.
Proof.
  intros y. induction l as [|k r IH]; intros H; [reflexivity|]. simpl.
  assert (E : b_id k =? y = false).
  { apply Nat.eqb_neq. intro Hc. apply (H k (or_introl eq_refl)). rewrite <- Hc. apply ids_root. }
  rewrite E, (remove_child_notin y k (H k (or_introl eq_refl))). simpl. f_equal. apply IH.
  intros k' Hk'. apply H. right. exact Hk'.
Qed.

Lemma prune1_ctop : forall x t, NoDup (ids t) -> In x (ids t) ->
  forall y n, ctop x t = Some (y, n) ->
  prune1 x t = if y =? b_id t then None else Some (remove_child y t).
Proof.
  intros x. induction t as [i l tx ks IH] using btree_ind2. intros Hn Hx y n Hc.
  simpl in Hc. simpl prune1. destruct (i =? x) eqn:E.
  - apply Nat.eqb_eq in E. inversion Hc; subst. simpl. rewrite Nat.eqb_refl. reflexivity.
  - apply Nat.eqb_neq in E. simpl in Hx. destruct Hx as [Hx|Hx]; [congruence|].
    destruct (NoDup_kids _ _ _ _ Hn) as [Hi Hnk].
    destruct (kids_split x ks Hnk Hx) as (l1 & k & l2 & -> & Hk & Ha & Hb).
    rewrite Forall_forall in IH.
    assert (Hnk0 : NoDup (ids k)) by (apply (NoDup_kid _ k Hnk); apply in_elt).
    destruct (ctop_in x k Hnk0 Hk) as (y0 & n0 & Ey & Hy0 & _).
    rewrite (first_some_split (ctop x) l1 k l2 (y0, n0)) in Hc;
      [|intros k' Hk'; apply ctop_notin; apply Ha; exact Hk'|exact Ey].
    specialize (IH k (in_elt k l1 l2) Hnk0 Hk y0 n0 Ey).
    rewrite prune1_omap_split by assumption. rewrite IH.
    pose proof Hnk as Hnk'. rewrite flat_map_split in Hnk'. apply NoDup_app_iff in Hnk'. destruct Hnk' as (_ & Hn2 & Hd1).
    apply NoDup_app_iff in Hn2. destruct Hn2 as (_ & _ & Hd2).
    assert (Hl1 : forall k', In k' l1 -> ~ In y0 (ids k')).
    { intros k' Hk' Hcc. apply (Hd1 y0); [apply in_flat_map; eauto|apply in_or_app; left; exact Hy0]. }
    assert (Hl2 : forall k', In k' l2 -> ~ In y0 (ids k')).
    { intros k' Hk' Hcc. apply (Hd2 y0 Hy0). apply in_flat_map. eauto. }
    assert (Hy0i : y0 <> i).
    { intro; subst. apply Hi. rewrite flat_map_split. apply in_or_app. right. apply in_or_app. left. exact Hy0. }
    destruct (y0 =? b_id k) eqn:Eyk.
    + apply Nat.eqb_eq in Eyk. simpl app.
      destruct (length (l1 ++ k :: l2) =? 1) eqn:El; simpl andb in Hc; inversion Hc; subst.
      * apply Nat.eqb_eq in El. rewrite app_length in El. simpl in El.
        destruct l1; [|simpl in El; lia]. destruct l2; [|simpl in El; lia].
        simpl. rewrite Nat.eqb_refl. reflexivity.
      * simpl b_id. rewrite (proj2 (Nat.eqb_neq (b_id k) i) Hy0i). simpl andb. f_equal.
        simpl remove_child. f_equal. rewrite flat_map_app. simpl flat_map. rewrite Nat.eqb_refl. simpl app.
        rewrite (remove_child_kids_notin (b_id k) l1 Hl1), (remove_child_kids_notin (b_id k) l2 Hl2). reflexivity.
    + simpl andb in Hc. inversion Hc; subst. simpl b_id. rewrite (proj2 (Nat.eqb_neq y i) Hy0i).
      replace (length (l1 ++ [remove_child y k] ++ l2) =? 0) with false
        by (symmetry; apply Nat.eqb_neq; rewrite !app_length; simpl; lia).
      rewrite andb_false_r. f_equal. simpl remove_child. f_equal.
      rewrite flat_map_app. simpl flat_map. rewrite (Nat.eqb_sym (b_id k) y), Eyk. simpl app.
      rewrite (remove_child_kids_notin y l1 Hl1), (remove_child_kids_notin y l2 Hl2). reflexivity.
Qed.

(* every node but the root has a parent *)
Lemma parent_exists : forall y T, NoDup (ids T) -> In y (ids T) -> y <> b_id T -> exists p, parent_of y T = Some p.
Proof.
  intros y. induction T as [i l tx ks IH] using btree_ind2. intros Hn Hy Hne. simpl in Hy, Hne.
  destruct Hy as [Hy|Hy]; [congruence|]. rewrite parent_of_unfold.
  destruct (existsb (fun k => b_id k =? y) ks) eqn:Ee; [eauto|].
  destruct (NoDup_kids _ _ _ _ Hn) as [Hi Hnk].
  destruct (kids_split y ks Hnk Hy) as (l1 & k & l2 & -> & Hk & Ha & Hb).
  rewrite first_val_split by (intros k' Hk'; apply parent_of_notin; apply Ha; exact Hk').
  rewrite Forall_forall in IH.
  destruct (IH k (in_elt k l1 l2) (NoDup_kid _ k Hnk (in_elt k l1 l2)) Hk) as [p Hp].
  - intro Hc. assert (Ht : existsb (fun k0 => b_id k0 =? y) (l1 ++ k :: l2) = true).
    { apply existsb_exists. exists k. split; [apply in_elt|apply Nat.eqb_eq; auto]. }
    congruence.
  - rewrite Hp. eauto.
Qed.

Lemma nkids_leaf : forall x t, NoDup (ids t) -> In x (leaf_ids t) -> nkids_of x t = Some 0.
Proof.
  intros x. induction t as [i l tx ks IH] using btree_ind2. intros Hn Hx. rewrite nkids_of_unfold.
  destruct (i =? x) eqn:E.
  - apply Nat.eqb_eq in E. subst i. rewrite (leaf_root_case _ _ _ _ Hn Hx). reflexivity.
  - apply Nat.eqb_neq in E. destruct (leaf_below_case x i l tx ks E Hx) as (_ & Hxi & Hxl).
    destruct (NoDup_kids _ _ _ _ Hn) as [Hi Hnk].
    destruct (kids_split x ks Hnk Hxi) as (l1 & k & l2 & -> & Hk & Ha & Hb).
    rewrite first_val_split by (intros k' Hk'; apply nkids_of_notin; apply Ha; exact Hk').
    rewrite Forall_forall in IH. rewrite (IH k (in_elt k l1 l2) (NoDup_kid _ k Hnk (in_elt k l1 l2))); [reflexivity|].
    rewrite flat_map_split in Hxl. apply in_app_or in Hxl. destruct Hxl as [Hxl|Hxl].
    + apply in_flat_map in Hxl. destruct Hxl as (k' & Hk' & Hxl). exfalso. apply (Ha k' Hk'). apply leaf_in_ids; auto.
    + apply in_app_or in Hxl. destruct Hxl as [Hxl|Hxl]; [assumption|].
      apply in_flat_map in Hxl. destruct Hxl as (k' & Hk' & Hxl). exfalso. apply (Hb k' Hk'). apply leaf_in_ids; auto.
Qed.
