(* C02 metadata: the token sequence of the writer's output for trees carrying comments.
   tokenize (cwrite_tree ...) = the token-level rendering `cwtoks` of the tree, every comment text
   attached to the token the tokenizer captures it with. *)
From Coq Require Import ZArith List Bool Lia.
From DV Require Import Model.PyPrims Gen.CharClasses Model.Tokenizer Model.Newick Model.C02Spec
     Model.C02Meta Model.C02MetaSpec
     Proofs.C02Tok Proofs.C02Escape Proofs.C02Lex.
Import ListNotations.
Open Scope Z_scope.

(* nested induction principle for ctree *)
Section CInd.
  Variable L : Type.
  Variable P : ctree L -> Prop.
  Hypothesis H : forall tx lb ln m ks, Forall P ks -> P (CNd tx lb ln m ks).
  Fixpoint ctree_ind' (t : ctree L) : P t :=
    match t with
    | CNd tx lb ln m ks =>
      H tx lb ln m ks
        ((fix go (ks : list (ctree L)) : Forall P ks :=
            match ks with
            | [] => Forall_nil P
            | k :: r => Forall_cons k (ctree_ind' k) (go r)
            end) ks)
    end.
End CInd.

(* a token with comments, not at end of stream *)
Definition Tc (s : str) (q : bool) (cs : list str) : token := mkTok s q cs false.

(* ------------------------------------------------------------------------------------------------ *)
(* comments at the character level (generated character classes)                                    *)
Section CommentsTok.
Variable pu : bool.
Let cfg := nexus_cfg pu.

Lemma lbrack_class : zmem LBRACK tok_comment_begin = true /\ zmem LBRACK tok_comment_end = false /\
  zmem LBRACK tok_uncaptured_delimiters = false /\ zmem LBRACK tok_captured_delimiters = false /\
  zmem LBRACK tok_quote_chars = false.
Proof. vm_compute. auto. Qed.

Lemma rbrack_class : zmem RBRACK tok_comment_end = true.
Proof. vm_compute. reflexivity. Qed.

Lemma capture_on : tok_capture_comments = true.
Proof. reflexivity. Qed.

Lemma inner_class c : (negb (c =? LBRACK) && negb (c =? RBRACK))%bool = true ->
  zmem c tok_comment_begin = false /\ zmem c tok_comment_end = false.
Proof.
  intro H. apply andb_true_iff in H. destruct H as [H1 H2]. apply negb_true_iff in H1, H2.
  unfold zmem, tok_comment_begin, tok_comment_end. cbn [existsb].
  change 91 with LBRACK. change 93 with RBRACK. rewrite H1, H2. auto.
Qed.

Lemma handle_comment_body c r : bracket_free c = true ->
  handle_comment cfg (c ++ RBRACK :: r) 1 = (c, r).
Proof.
  induction c as [|ch c IH]; intro H.
  - simpl app. cbn [handle_comment]. change (tc_cend cfg) with tok_comment_end. rewrite rbrack_class. reflexivity.
  - cbn [bracket_free forallb] in H. apply andb_true_iff in H. destruct H as [Hc Hr].
    destruct (inner_class ch Hc) as [B E].
    simpl app. cbn [handle_comment]. change (tc_cend cfg) with tok_comment_end.
    change (tc_cbegin cfg) with tok_comment_begin. rewrite B, E.
    fold (bracket_free c) in Hr. rewrite (IH Hr). reflexivity.
Qed.

Lemma handle_comment_bracket c r : bracket_free c = true ->
  handle_comment cfg (bracket c ++ r) 0 = (c, r).
Proof.
  intro H. unfold bracket. simpl app. cbn [handle_comment].
  destruct lbrack_class as [B [E _]].
  change (tc_cend cfg) with tok_comment_end. change (tc_cbegin cfg) with tok_comment_begin.
  rewrite B, E. rewrite <- app_assoc. simpl app. apply handle_comment_body. exact H.
Qed.

Lemma bracket_len c : length (bracket c) = S (S (length c)).
Proof. unfold bracket. simpl. rewrite app_length. simpl. lia. Qed.

(* a run of comments in the unquoted loop *)
Lemma unquoted_comments : forall cs r f, forallb bracket_free cs = true -> cap_start r = true ->
  (length (flat_map bracket cs ++ r) < f)%nat ->
  unquoted_loop cfg f (flat_map bracket cs ++ r) = Some ([], cs, r).
Proof.
  induction cs as [|c cs IH]; intros r f Hcs Hr Hf.
  - simpl app in *. destruct f as [|f]; [lia|]. destruct r as [|x r]; [reflexivity|].
    cbn [unquoted_loop]. simpl in Hr.
    change (tc_uncaptured cfg) with tok_uncaptured_delimiters.
    change (tc_captured cfg) with tok_captured_delimiters.
    rewrite (cap_not_unc x Hr), Hr. reflexivity.
  - cbn [forallb] in Hcs. apply andb_true_iff in Hcs. destruct Hcs as [Hc Hcs].
    cbn [flat_map] in *. rewrite <- app_assoc in *.
    destruct f as [|f]; [lia|].
    destruct lbrack_class as [B [E [U [C Q]]]].
    unfold bracket at 1. simpl app. cbn [unquoted_loop].
    change (tc_uncaptured cfg) with tok_uncaptured_delimiters.
    change (tc_captured cfg) with tok_captured_delimiters.
    change (tc_cbegin cfg) with tok_comment_begin.
    rewrite U, C, B.
    change (LBRACK :: (c ++ [RBRACK]) ++ flat_map bracket cs ++ r) with (bracket c ++ flat_map bracket cs ++ r).
    rewrite (handle_comment_bracket c _ Hc).
    rewrite (IH r f Hcs Hr).
    + change (tc_capture_comments cfg) with tok_capture_comments. rewrite capture_on. reflexivity.
    + rewrite app_length, bracket_len in Hf. lia.
Qed.

(* a run of plain characters followed by comments *)
Lemma unquoted_plain_c : forall s cs r f, forallb plain s = true -> forallb bracket_free cs = true ->
  cap_start r = true -> (length (s ++ flat_map bracket cs ++ r) < f)%nat ->
  unquoted_loop cfg f (s ++ flat_map bracket cs ++ r) = Some (map (conv pu) s, cs, r).
Proof.
  induction s as [|c s IH]; intros cs r f Hp Hcs Hr Hf.
  - simpl app in *. apply unquoted_comments; assumption.
  - destruct f as [|f]; [simpl in Hf; lia|]. simpl in Hp. apply andb_true_iff in Hp. destruct Hp as [Hc Hp].
    unfold plain in Hc. rewrite !andb_true_iff, !negb_true_iff in Hc. destruct Hc as [[H1 H2] H3].
    simpl app. cbn [unquoted_loop].
    change (tc_uncaptured cfg) with tok_uncaptured_delimiters.
    change (tc_captured cfg) with tok_captured_delimiters.
    change (tc_cbegin cfg) with tok_comment_begin.
    change (tc_preserve_underscores cfg) with pu.
    rewrite H1, H2, H3.
    rewrite (IH cs r f Hp Hcs Hr); [reflexivity | simpl in Hf; lia].
Qed.

Lemma next_plain_c s cs r : s <> [] -> forallb plain s = true -> zmem (hd 0 s) tok_quote_chars = false ->
  forallb bracket_free cs = true -> cap_start r = true ->
  next_token cfg (s ++ flat_map bracket cs ++ r) = TTok (map (conv pu) s) false cs r.
Proof.
  intros Hne Hp Hq Hcs Hr. destruct s as [|c s]; [congruence|].
  unfold next_token. cbn [next_tok].
  pose proof Hp as Hp0. simpl in Hp. apply andb_true_iff in Hp. destruct Hp as [Hc Hp].
  unfold plain in Hc. rewrite !andb_true_iff, !negb_true_iff in Hc. destruct Hc as [[H1 H2] H3].
  assert (Hs : skip_ws cfg ((c :: s) ++ flat_map bracket cs ++ r) = c :: (s ++ flat_map bracket cs ++ r)).
  { simpl app. cbn [skip_ws]. change (tc_uncaptured cfg) with tok_uncaptured_delimiters.
    rewrite H1. reflexivity. }
  rewrite Hs.
  change (tc_captured cfg) with tok_captured_delimiters.
  change (tc_quotes cfg) with tok_quote_chars.
  rewrite H2. simpl in Hq. rewrite Hq.
  change (c :: s ++ flat_map bracket cs ++ r) with ((c :: s) ++ flat_map bracket cs ++ r).
  rewrite (unquoted_plain_c (c :: s) cs r _ Hp0 Hcs Hr); [|lia].
  reflexivity.
Qed.

(* comments in front of a captured delimiter are captured with it *)
Lemma next_comments_cap cs c r : forallb bracket_free cs = true -> zmem c tok_captured_delimiters = true ->
  next_token cfg (flat_map bracket cs ++ c :: r) = TTok [c] false cs r.
Proof.
  intros Hcs Hc. destruct cs as [|c0 cs].
  - simpl app. apply next_captured. exact Hc.
  - destruct lbrack_class as [B [E [U [C Q]]]].
    unfold next_token. cbn [next_tok].
    set (s := flat_map bracket (c0 :: cs) ++ c :: r).
    assert (Es : exists s', s = LBRACK :: s').
    { unfold s. cbn [flat_map]. unfold bracket at 1. simpl. eexists. reflexivity. }
    destruct Es as [s' Es].
    assert (Hs : skip_ws cfg s = s).
    { rewrite Es. cbn [skip_ws]. change (tc_uncaptured cfg) with tok_uncaptured_delimiters. rewrite U. reflexivity. }
    rewrite Hs. rewrite Es.
    change (tc_captured cfg) with tok_captured_delimiters.
    change (tc_quotes cfg) with tok_quote_chars. rewrite C, Q. rewrite <- Es.
    unfold s at 2 3.
    rewrite (unquoted_comments (c0 :: cs) (c :: r) _ Hcs); [| simpl; exact Hc | fold s; lia].
    assert (Hlen : (length (c :: r) < length s)%nat).
    { unfold s. rewrite app_length. cbn [flat_map]. rewrite app_length, bracket_len. lia. }
    fold s. rewrite (next_tok_irrel cfg (length s) (S (length (c :: r))) (c :: r)); [| exact Hlen | lia].
    pose proof (next_captured pu c r Hc) as N. unfold next_token in N. fold cfg in N. rewrite N.
    rewrite app_nil_r. reflexivity.
Qed.

(* a quoted literal followed by anything but a quote *)
Lemma next_quoted_gen l R : match R with [] => True | c :: _ => c <> QUOTE end ->
  next_token cfg (QUOTE :: double_quotes l ++ QUOTE :: R) = TTok l true [] R.
Proof.
  intro HR. destruct (shape_quote) as [Hq [Hd [Hu Hc]]].
  unfold next_token. cbn [next_tok].
  assert (Hs : skip_ws cfg (QUOTE :: double_quotes l ++ QUOTE :: R) = QUOTE :: double_quotes l ++ QUOTE :: R).
  { cbn [skip_ws]. change (tc_uncaptured cfg) with tok_uncaptured_delimiters. rewrite Hu. reflexivity. }
  rewrite Hs.
  change (tc_captured cfg) with tok_captured_delimiters.
  change (tc_quotes cfg) with tok_quote_chars.
  rewrite Hc, Hq.
  unfold cfg. rewrite quoted_loop_double; [reflexivity | exact HR].
Qed.

(* a comment token followed by a blank: "[...] " *)
Lemma spaced_comment_prefix rc s : bracket_free rc = true ->
  next_token cfg (bracket rc ++ SPACE :: s) = wrap_comments [rc] (next_token cfg s).
Proof.
  intro Hrc. destruct lbrack_class as [B [E [U [C Q]]]].
  replace (bracket rc ++ SPACE :: s) with ((bracket rc ++ [SPACE]) ++ s) by (rewrite <- app_assoc; reflexivity).
  (* comment_prefix of C02Lex.v is stated for an rt_opts record: give it one with this pu *)
  pose (o := mkRtOpts false false pu false false NoDirective false).
  apply (comment_prefix o (bracket rc ++ [SPACE]) rc LBRACK ((rc ++ [RBRACK]) ++ [SPACE])); try assumption.
  - reflexivity.
  - intro s0. change (nexus_cfg (rt_pu o)) with cfg.
    rewrite <- app_assoc. change ([SPACE] ++ s0) with (SPACE :: s0).
    assert (G : forall f, (length (bracket rc ++ SPACE :: s0) < f)%nat ->
                unquoted_loop cfg f (bracket rc ++ SPACE :: s0) = Some ([], [rc], s0)).
    { intros f Hf. destruct f as [|f]; [lia|].
      unfold bracket at 1. simpl app. cbn [unquoted_loop].
      change (tc_uncaptured cfg) with tok_uncaptured_delimiters.
      change (tc_captured cfg) with tok_captured_delimiters.
      change (tc_cbegin cfg) with tok_comment_begin.
      rewrite U, C, B.
      change (LBRACK :: (rc ++ [RBRACK]) ++ SPACE :: s0) with (bracket rc ++ SPACE :: s0).
      rewrite (handle_comment_bracket rc _ Hrc).
      destruct f as [|f].
      { exfalso. rewrite app_length, bracket_len in Hf. simpl in Hf. lia. }
      cbn [unquoted_loop]. change (tc_uncaptured cfg) with tok_uncaptured_delimiters.
      rewrite space_unc.
      change (tc_capture_comments cfg) with tok_capture_comments. rewrite capture_on. reflexivity. }
    apply G. lia.
Qed.

End CommentsTok.

(* ------------------------------------------------------------------------------------------------ *)
(* escape_token: the written tag followed by comments                                               *)
Section TagComments.
Variable o : rt_opts.
Let cfg := nexus_cfg (rt_pu o).

Lemma escape_quoted_form protect ps qu l :
  escape_quotes protect ps qu l = true ->
  escape_token protect ps qu l = QUOTE :: double_quotes l ++ [QUOTE].
Proof.
  unfold escape_quotes, escape_token.
  destruct (negb ps && negb (zmem UNDERSCORE l) && negb (existsb (fun c => zmem c protect) l))%bool; [discriminate|].
  intro H. rewrite H. reflexivity.
Qed.

(* an unquoted tag: plain characters that convert back to the label *)
Lemma escape_unquoted_form l :
  label_ok o l = true -> tag_q o l = false ->
  let w := escape_token newick_writer_protect (rt_ps o) (negb (rt_uu o)) l in
  w <> [] /\ forallb plain w = true /\ zmem (hd 0 w) tok_quote_chars = false /\ map (conv (rt_pu o)) w = l.
Proof.
  intros Hl Hq.
  unfold label_ok in Hl. rewrite !andb_true_iff in Hl. destruct Hl as [[Hg _] Hcons].
  unfold good_label in Hg. rewrite !andb_true_iff in Hg. destruct Hg as [[Hne Hadm] _].
  pose proof writer_class_b as Hcls.
  unfold writer_class_check in Hcls. rewrite !andb_true_iff, !negb_true_iff in Hcls.
  destruct Hcls as [[Ctab Cus] Csp].
  set (protect := newick_writer_protect) in *.
  set (ps := rt_ps o) in *. set (uu := rt_uu o) in *. set (pu := rt_pu o) in *.
  unfold tag_q, escape_quotes in Hq. fold protect ps uu in Hq.
  cbv zeta. unfold escape_token.
  set (has_prot := existsb (fun c => zmem c protect) l) in *.
  set (has_us := zmem UNDERSCORE l) in *.
  set (has_sp := zmem SPACE l) in *.
  destruct (negb ps && negb has_us && negb has_prot)%bool eqn:EA.
  - rewrite !andb_true_iff, !negb_true_iff in EA. destruct EA as [[Eps Eus] Epr].
    assert (Hall : forall c, In c l -> zmem c protect = false /\ c <> UNDERSCORE /\ c <> TAB).
    { intros c Hi. assert (P : zmem c protect = false).
      { unfold has_prot in Epr. destruct (zmem c protect) eqn:E; [|reflexivity].
        assert (X : existsb (fun c => zmem c protect) l = true) by (apply existsb_exists; exists c; auto).
        congruence. }
      split; [exact P|]. split.
      - intro E. subst c. unfold has_us in Eus. apply zmem_In in Hi. congruence.
      - intro E. subst c. congruence. }
    assert (Hone : forall c, In c l -> plain (sp2us c) = true /\ zmem (sp2us c) tok_quote_chars = false).
    { intros c Hi. destruct (Hall c Hi) as [P [N1 N2]]. unfold sp2us.
      destruct (c =? SPACE) eqn:E1; [apply underscore_plain|].
      destruct (c =? TAB) eqn:E2; [apply underscore_plain|]. simpl.
      rewrite forallb_forall in Hadm. apply Z.eqb_neq in E1.
      apply (unprotected_plain protect delims_protected_writer_b c P (Hadm c Hi) E1). }
    fold sp2us. change (map (fun c : Z => if ((c =? SPACE) || (c =? TAB))%bool then UNDERSCORE else c) l) with (map sp2us l).
    split; [destruct l; [discriminate | simpl; discriminate]|].
    split; [apply forallb_forall; intros x Hx; apply in_map_iff in Hx; destruct Hx as [c [Hx Hi]]; subst x; apply (Hone c Hi)|].
    split; [destruct l as [|c l]; [discriminate|]; simpl; apply (Hone c (or_introl eq_refl))|].
    rewrite map_map. rewrite <- (map_id l) at 2. apply map_ext_in. intros c Hi.
    destruct (Hall c Hi) as [P [N1 N2]]. unfold conv, sp2us.
    destruct (c =? SPACE) eqn:E1.
    + apply Z.eqb_eq in E1. subst c. simpl.
      unfold consistent_opts in Hcons. fold uu pu ps in Hcons. destruct pu; [|reflexivity].
      rewrite andb_false_r in Hcons. simpl in Hcons. rewrite Eps in Hcons. simpl in Hcons.
      apply andb_true_iff in Hcons. destruct Hcons as [_ Hc]. apply negb_true_iff in Hc.
      apply zmem_In in Hi. congruence.
    + apply Z.eqb_neq in N2. rewrite N2. simpl. apply Z.eqb_neq in N1. rewrite N1. reflexivity.
  - rewrite Hq.
    rewrite !orb_false_iff in Hq. destruct Hq as [[Epr Esp] Eq].
    assert (Hall : forall c, In c l -> zmem c protect = false /\ c <> SPACE).
    { intros c Hi. split.
      - unfold has_prot in Epr. destruct (zmem c protect) eqn:E; [|reflexivity].
        assert (X : existsb (fun c => zmem c protect) l = true) by (apply existsb_exists; exists c; auto).
        congruence.
      - intro E. subst c. unfold has_sp in Esp. apply zmem_In in Hi. congruence. }
    assert (Hone : forall c, In c l -> plain c = true /\ zmem c tok_quote_chars = false).
    { intros c Hi. destruct (Hall c Hi) as [P N]. rewrite forallb_forall in Hadm.
      apply (unprotected_plain protect delims_protected_writer_b c P (Hadm c Hi) N). }
    split; [destruct l; [discriminate | discriminate]|].
    split; [apply forallb_forall; intros c Hi; apply (Hone c Hi)|].
    split; [destruct l as [|c l]; [discriminate|]; simpl; apply (Hone c (or_introl eq_refl))|].
    rewrite <- (map_id l) at 2. apply map_ext_in. intros c Hi. unfold conv.
    destruct (c =? UNDERSCORE) eqn:E1; [|reflexivity].
    apply Z.eqb_eq in E1. subst c.
    assert (U : has_us = true) by (apply zmem_In; exact Hi).
    rewrite U, andb_true_r in Eq. apply negb_false_iff in Eq.
    unfold consistent_opts in Hcons. fold uu pu ps in Hcons. rewrite Eq in Hcons. simpl in Hcons.
    apply andb_true_iff in Hcons. destruct Hcons as [Hc _]. rewrite Hc. reflexivity.
Qed.

Lemma tag_token_unquoted l cs r : label_ok o l = true -> tag_q o l = false ->
  forallb bracket_free cs = true -> cap_start r = true ->
  next_token cfg (escape_token newick_writer_protect (rt_ps o) (negb (rt_uu o)) l ++ flat_map bracket cs ++ r)
  = TTok l false cs r.
Proof.
  intros Hl Hq Hcs Hr. destruct (escape_unquoted_form l Hl Hq) as [W1 [W2 [W3 W4]]].
  unfold cfg. rewrite (next_plain_c (rt_pu o) _ cs r W1 W2 W3 Hcs Hr). rewrite W4. reflexivity.
Qed.

Lemma tag_token_quoted l R : tag_q o l = true ->
  match R with [] => True | c :: _ => c <> QUOTE end ->
  next_token cfg (escape_token newick_writer_protect (rt_ps o) (negb (rt_uu o)) l ++ R) = TTok l true [] R.
Proof.
  intros Hq HR. unfold tag_q in Hq. rewrite (escape_quoted_form _ _ _ _ Hq).
  replace ((QUOTE :: double_quotes l ++ [QUOTE]) ++ R) with (QUOTE :: double_quotes l ++ QUOTE :: R)
    by (simpl; rewrite <- app_assoc; reflexivity).
  apply next_quoted_gen. exact HR.
Qed.

End TagComments.

(* ------------------------------------------------------------------------------------------------ *)
Section CLex.
Variable L : Type.
Variable render_len : L -> str.
Hypothesis len_plain : forall x, render_len x <> [] /\ forallb numeral_char (render_len x) = true.
Variable mo : mt_opts.

Let o := mo_rt mo.
Let cfg := nexus_cfg (rt_pu o).
Let wo := mo_wopts mo.

Notation ctree := (ctree L).
Notation cm := (cm L mo).
Notation strip := (strip L).

(* ---- the token rendering ---- *)

(* the node's comments are captured with its last body token (an unquoted word) *)
Definition absorbs (t : ctree) : bool :=
  match c_len L t with
  | Some _ => true
  | None => match tag_of L o (strip t) with Some l => negb (tag_q o l) | None => false end
  end.

(* the comments left for the structural token that follows the node *)
Definition trail (t : ctree) : list str := if absorbs t then [] else cm t.

Definition cbody_toks (t : ctree) : list token :=
  match c_len L t with
  | Some x => tag_toks L o (strip t) ++ [T [COLON] false; Tc (render_len x) false (cm t)]
  | None =>
    match tag_of L o (strip t) with
    | Some l => [Tc l (tag_q o l) (if tag_q o l then [] else cm t)]
    | None => []
    end
  end.

Fixpoint cwtoks (t : ctree) : list token :=
  match t with
  | CNd _ _ _ _ [] => cbody_toks t
  | CNd _ _ _ _ (k :: ks) =>
    T [LPAREN] false :: cwtoks k
      ++ (fix go (pend : list str) (r : list ctree) : list token :=
            match r with
            | [] => [Tc [RPAREN] false pend]
            | k2 :: r2 => Tc [COMMA] false pend :: cwtoks k2 ++ go (trail k2) r2
            end) (trail k) ks
      ++ cbody_toks t
  end.

Fixpoint ckids_toks (pend : list str) (r : list ctree) : list token :=
  match r with
  | [] => [Tc [RPAREN] false pend]
  | k2 :: r2 => Tc [COMMA] false pend :: cwtoks k2 ++ ckids_toks (trail k2) r2
  end.

Lemma cwtoks_internal tx lb ln m k ks :
  cwtoks (CNd tx lb ln m (k :: ks)) =
  T [LPAREN] false :: cwtoks k ++ ckids_toks (trail k) ks ++ cbody_toks (CNd tx lb ln m (k :: ks)).
Proof.
  assert (E : forall r p,
    (fix go (pend : list str) (r : list ctree) : list token :=
       match r with
       | [] => [Tc [RPAREN] false pend]
       | k2 :: r2 => Tc [COMMA] false pend :: cwtoks k2 ++ go (trail k2) r2
       end) p r = ckids_toks p r).
  { induction r as [|k2 r IH]; intro p; [reflexivity|]. cbn [ckids_toks]. rewrite <- (IH (trail k2)). reflexivity. }
  cbn [cwtoks]. rewrite E. reflexivity.
Qed.

(* ---- LexP: `s` followed by a captured delimiter is tokenized into `toks`, and the delimiter's
   token carries the comments `pend` ---- *)
Definition LexP (s : str) (toks : list token) (pend : list str) : Prop :=
  forall c r, zmem c tok_captured_delimiters = true ->
    tokenize cfg (s ++ c :: r) = let '(l, e) := tokenize cfg r in (toks ++ mkTok [c] false pend (is_nil r) :: l, e).

Lemma LexP_nil : LexP [] [] [].
Proof.
  intros c r Hc. simpl app. rewrite tokenize_unfold. unfold cfg. rewrite (next_captured (rt_pu o) c r Hc).
  reflexivity.
Qed.

Lemma LexP_comments cs : forallb bracket_free cs = true -> LexP (flat_map bracket cs) [] cs.
Proof.
  intros Hcs c r Hc. rewrite tokenize_unfold. unfold cfg.
  rewrite (next_comments_cap (rt_pu o) cs c r Hcs Hc). reflexivity.
Qed.

Lemma is_nil_app_cons {A} (s : list A) c r : is_nil (s ++ c :: r) = false.
Proof. destruct s; reflexivity. Qed.

Lemma LexP_word w txt cs :
  (forall r, cap_start r = true -> next_token cfg (w ++ flat_map bracket cs ++ r) = TTok txt false cs r) ->
  LexP (w ++ flat_map bracket cs) [Tc txt false cs] [].
Proof.
  intros Hw c r Hc. rewrite <- app_assoc. rewrite tokenize_unfold.
  rewrite (Hw (c :: r)) by (simpl; exact Hc).
  pose proof (LexP_nil c r Hc) as N. simpl app in N. rewrite N.
  destruct (tokenize cfg r) as [l e]. reflexivity.
Qed.

Lemma LexP_quoted w txt cs : forallb bracket_free cs = true ->
  (forall R, match R with [] => True | c :: _ => c <> QUOTE end -> next_token cfg (w ++ R) = TTok txt true [] R) ->
  LexP (w ++ flat_map bracket cs) [Tc txt true []] cs.
Proof.
  intros Hcs Hw c r Hc. rewrite <- app_assoc. rewrite tokenize_unfold.
  rewrite Hw.
  - rewrite (LexP_comments cs Hcs c r Hc). destruct (tokenize cfg r) as [l e].
    rewrite is_nil_app_cons. reflexivity.
  - destruct cs as [|c0 cs].
    + simpl. intro E. subst c. destruct (shape_quote) as [_ [_ [_ Hq]]]. congruence.
    + simpl. discriminate.
Qed.

Lemma LexP_after_Lexes s1 t1 s2 t2 p : Lexes o s1 t1 -> cap_start s2 = true -> LexP s2 t2 p ->
  LexP (s1 ++ s2) (t1 ++ t2) p.
Proof.
  intros H1 Hs H2 c r Hc. rewrite <- app_assoc.
  unfold cfg. rewrite (H1 (s2 ++ c :: r)).
  - fold cfg. rewrite (H2 c r Hc). destruct (tokenize cfg r) as [l e]. rewrite <- app_assoc. reflexivity.
  - destruct s2; simpl; [exact Hc | exact Hs].
  - destruct s2; discriminate.
Qed.

Lemma LexP_cons_cap c0 s toks p : zmem c0 tok_captured_delimiters = true -> LexP s toks p ->
  LexP (c0 :: s) (T [c0] false :: toks) p.
Proof.
  intros H0 Hs c r Hc. simpl app. rewrite tokenize_unfold. unfold cfg.
  rewrite (next_captured (rt_pu o) c0 (s ++ c :: r) H0). fold cfg.
  rewrite (Hs c r Hc). destruct (tokenize cfg r) as [l e]. rewrite is_nil_app_cons. reflexivity.
Qed.

Lemma LexP_seq s1 t1 p1 c0 s2 t2 p2 : LexP s1 t1 p1 -> zmem c0 tok_captured_delimiters = true -> LexP s2 t2 p2 ->
  LexP (s1 ++ c0 :: s2) (t1 ++ Tc [c0] false p1 :: t2) p2.
Proof.
  intros H1 H0 H2 c r Hc. rewrite <- app_assoc. simpl app.
  rewrite (H1 c0 (s2 ++ c :: r) H0). rewrite (H2 c r Hc). destruct (tokenize cfg r) as [l e].
  rewrite is_nil_app_cons. rewrite <- app_assoc. reflexivity.
Qed.

(* the edge-length numeral followed by comments *)
Lemma numeral_token_c x cs r : forallb bracket_free cs = true -> cap_start r = true ->
  next_token cfg (render_len x ++ flat_map bracket cs ++ r) = TTok (render_len x) false cs r.
Proof.
  intros Hcs Hr. destruct (len_plain x) as [Hne Hall].
  assert (A : forall c, In c (render_len x) ->
            plain c = true /\ zmem c tok_quote_chars = false /\ c <> UNDERSCORE).
  { intros c Hi. rewrite forallb_forall in Hall. specialize (Hall c Hi). unfold numeral_char in Hall.
    apply andb_true_iff in Hall. destruct Hall as [H1 H2]. apply negb_true_iff in H1, H2.
    rewrite !zmem_app, !orb_false_iff in H1. destruct H1 as [A1 [A2 [A3 A4]]].
    unfold plain. rewrite A1, A2, A4. apply Z.eqb_neq in H2. auto. }
  unfold cfg. rewrite next_plain_c.
  - f_equal. rewrite <- (map_id (render_len x)) at 2. apply map_ext_in. intros c Hi.
    destruct (A c Hi) as [_ [_ N]]. unfold conv. apply Z.eqb_neq in N. rewrite N. reflexivity.
  - exact Hne.
  - apply forallb_forall. intros c Hi. apply (A c Hi).
  - destruct (render_len x) as [|c s]; [congruence|]. simpl. apply (A c (or_introl eq_refl)).
  - exact Hcs.
  - exact Hr.
Qed.

(* ---- the node body ---- *)
Lemma cwrite_body_unfold tx lb ln m ks :
  cwrite_node_body L render_len wo (CNd tx lb ln m ks)
  = write_node_body L render_len (rt_wopts o) (Nd tx lb ln (map strip ks))
    ++ flat_map bracket (cm (CNd tx lb ln m ks)).
Proof. reflexivity. Qed.

Lemma is_nil_map {A B} (f : A -> B) l : is_nil (map f l) = is_nil l.
Proof. destruct l; reflexivity. Qed.

Lemma lex_cbody tx lb ln m ks :
  (match tag_of L o (Nd tx lb ln (map strip ks)) with Some l => label_ok o l | None => true end) = true ->
  (if is_nil ks then true else if rt_it o then is_none lb else is_none tx) = true ->
  forallb bracket_free (cm (CNd tx lb ln m ks)) = true ->
  LexP (cwrite_node_body L render_len wo (CNd tx lb ln m ks)) (cbody_toks (CNd tx lb ln m ks))
       (trail (CNd tx lb ln m ks)).
Proof.
  intros Hl Hs Hcs. rewrite cwrite_body_unfold. unfold write_node_body.
  rewrite (render_tag_wf L o tx lb ln (map strip ks) Hl) by (rewrite is_nil_map; exact Hs).
  cbn [n_len]. change (wo_suppress_edge_lengths (rt_wopts o)) with false.
  unfold cbody_toks, trail, absorbs, tag_toks. cbn [c_len C02Meta.strip].
  set (t := CNd tx lb ln m ks) in *.
  destruct ln as [x|].
  - (* tag? ':' numeral comments *)
    assert (LN : LexP (COLON :: render_len x ++ flat_map bracket (cm t)) [T [COLON] false; Tc (render_len x) false (cm t)] []).
    { apply LexP_cons_cap; [apply colon_cap|]. apply LexP_word. intros r Hr. apply numeral_token_c; assumption. }
    destruct (tag_of L o (Nd tx lb (Some x) (map strip ks))) as [l|].
    + rewrite <- app_assoc. simpl app.
      apply (LexP_after_Lexes _ [T l (tag_q o l)]); [| simpl; apply colon_cap | exact LN].
      apply Lexes_word_end. intros r Hr. apply tag_token; assumption.
    + simpl app. exact LN.
  - rewrite app_nil_r.
    destruct (tag_of L o (Nd tx lb None (map strip ks))) as [l|].
    + destruct (tag_q o l) eqn:Eq; cbn [negb].
      * apply LexP_quoted; [exact Hcs|]. intros R HR. apply tag_token_quoted; assumption.
      * apply LexP_word. intros r Hr. apply tag_token_unquoted; assumption.
    + simpl app. apply LexP_comments. exact Hcs.
Qed.

(* ---- nodes ---- *)
Notation cwf := (cwf L mo).

Lemma cwf_unfold tx lb ln m ks : cwf (CNd tx lb ln m ks) = true ->
  (match tag_of L o (Nd tx lb ln (map strip ks)) with Some l => label_ok o l | None => true end) = true /\
  (if is_nil ks then negb (is_none tx && is_none ln) else if rt_it o then is_none lb else is_none tx) = true /\
  forallb bracket_free (cm (CNd tx lb ln m ks)) = true /\
  forallb cwf ks = true.
Proof.
  unfold C02MetaSpec.cwf. cbn [C02Meta.strip comments_ok]. rewrite andb_true_iff. intros [Hw Hc].
  apply (wf_unfold L o) in Hw. destruct Hw as [H1 [H2 H3]]. rewrite is_nil_map in H2.
  apply andb_true_iff in Hc. destruct Hc as [Hc1 Hc2].
  repeat split; try assumption.
  rewrite forallb_forall in *. intros k Hk. unfold C02MetaSpec.cwf. apply andb_true_iff. split.
  - apply H3. apply in_map. exact Hk.
  - apply Hc2. exact Hk.
Qed.

Lemma cwf_shape tx lb ln m ks : cwf (CNd tx lb ln m ks) = true ->
  (if is_nil ks then true else if rt_it o then is_none lb else is_none tx) = true.
Proof. intro H. apply cwf_unfold in H. destruct H as [_ [H _]]. destruct (is_nil ks); [reflexivity | exact H]. Qed.

Lemma cwrite_node_false t : cwrite_node L render_len wo false t = COMMA :: cwrite_node L render_len wo true t.
Proof. destruct t as [tx lb ln m [|k ks]]; reflexivity. Qed.

Lemma lex_ckids B BT p : LexP B BT p -> forall ks,
  Forall (fun k => cwf k = true -> LexP (cwrite_node L render_len wo true k) (cwtoks k) (trail k)) ks ->
  forallb cwf ks = true ->
  forall s0 t0 p0, LexP s0 t0 p0 ->
  LexP (s0 ++ flat_map (cwrite_node L render_len wo false) ks ++ RPAREN :: B)
       (t0 ++ ckids_toks p0 ks ++ BT) p.
Proof.
  intros LB ks. induction ks as [|k2 ks IHl]; intros IHks Hks s0 t0 p0 L0.
  - simpl flat_map. simpl app. cbn [ckids_toks]. simpl app.
    apply LexP_seq; [exact L0 | apply rparen_cap | exact LB].
  - inversion IHks as [|? ? IH2 IHr]; subst. simpl in Hks. apply andb_true_iff in Hks. destruct Hks as [H2 Hr].
    cbn [flat_map ckids_toks]. rewrite cwrite_node_false.
    specialize (IHl IHr Hr (s0 ++ COMMA :: cwrite_node L render_len wo true k2)
                    (t0 ++ Tc [COMMA] false p0 :: cwtoks k2) (trail k2)
                    (LexP_seq _ _ _ COMMA _ _ _ L0 comma_cap (IH2 H2))).
    rewrite <- ?app_assoc in IHl. simpl app in IHl. rewrite <- ?app_assoc in IHl.
    rewrite <- ?app_assoc. simpl app. rewrite <- ?app_assoc. exact IHl.
Qed.

Lemma lex_cnode : forall t, cwf t = true ->
  LexP (cwrite_node L render_len wo true t) (cwtoks t) (trail t).
Proof.
  induction t as [tx lb ln m ks IH] using ctree_ind'. intro Hwf.
  pose proof (cwf_unfold _ _ _ _ _ Hwf) as [Hl [_ [Hcs Hk]]]. pose proof (cwf_shape _ _ _ _ _ Hwf) as Hs.
  pose proof (lex_cbody tx lb ln m ks Hl Hs Hcs) as LB.
  destruct ks as [|k ks].
  - cbn [cwrite_node cwtoks]. simpl app. exact LB.
  - rewrite cwtoks_internal. cbn [cwrite_node].
    inversion IH as [|? ? IHk IHks]; subst. simpl in Hk. apply andb_true_iff in Hk. destruct Hk as [Hk Hks].
    apply (LexP_cons_cap LPAREN); [apply lparen_cap|].
    replace (trail (CNd tx lb ln m (k :: ks))) with (trail (CNd tx lb ln m (k :: ks))) by reflexivity.
    apply (lex_ckids _ _ _ LB ks IHks Hks _ _ _ (IHk Hk)).
Qed.

(* ---- the whole statement ---- *)
Notation mtree := (mtree L).

Hypothesis len_weight : forall x, forallb weight_char (render_len x) = true.

Definition weight_text (w : weight L) : str := [38; 87; 32] ++ render_weight L render_len w.

(* comments captured with the first token of the statement: rooting, weight, annotation, comments *)
Definition weight_comments (t : mtree) : list str :=
  if mo_sw mo then match mt_weight L t with Some w => [weight_text w] | None => [] end else [].

Definition prologue_comments (t : mtree) : list str :=
  rooting_comments o (mt_rooted L t) ++ weight_comments t ++ tcm L mo t.

Lemma weight_char_free s : forallb weight_char s = true -> bracket_free s = true.
Proof.
  intro H. unfold bracket_free. apply forallb_forall. intros c Hc. rewrite forallb_forall in H.
  specialize (H c Hc). unfold weight_char in H. rewrite !andb_true_iff in H. destruct H as [[[H1 H2] _] _].
  rewrite H1, H2. reflexivity.
Qed.

Lemma bracket_free_app a b : bracket_free a = true -> bracket_free b = true -> bracket_free (a ++ b) = true.
Proof. unfold bracket_free. rewrite forallb_app. intros -> ->. reflexivity. Qed.

Lemma weight_text_free w : bracket_free (weight_text w) = true.
Proof.
  unfold weight_text. apply bracket_free_app; [reflexivity|].
  destruct w as [x|n d]; cbn [render_weight].
  - apply weight_char_free, len_weight.
  - apply bracket_free_app; [apply weight_char_free, len_weight|].
    change (SLASH :: render_len d) with ([SLASH] ++ render_len d).
    apply bracket_free_app; [reflexivity | apply weight_char_free, len_weight].
Qed.

Lemma weight_token_text w :
  writer_weight_open ++ render_weight L render_len w ++ writer_weight_close
  = bracket (weight_text w) ++ [SPACE].
Proof. unfold bracket, weight_text, writer_weight_open, writer_weight_close. simpl. rewrite <- !app_assoc. reflexivity. Qed.

Lemma add_comments_app a b l : add_comments a (add_comments b l) = add_comments (a ++ b) l.
Proof. destruct l as [|t r]; [reflexivity|]. unfold add_comments. cbn [t_text t_quoted t_comments t_eof]. rewrite app_assoc. reflexivity. Qed.

Lemma add_comments_nil l : add_comments [] l = l.
Proof. destruct l as [|[a b c d] r]; reflexivity. Qed.

(* a prefix whose only effect is to add captured comments to the next token *)
Lemma tokenize_wrap pc P X tk rest e :
  next_token cfg (P ++ X) = wrap_comments pc (next_token cfg X) ->
  tokenize cfg X = (tk :: rest, e) ->
  tokenize cfg (P ++ X) = (add_comments pc (tk :: rest), e).
Proof.
  intros Hp HX. rewrite tokenize_unfold. rewrite Hp. rewrite tokenize_unfold in HX.
  destruct (next_token cfg X) as [cs|er| |tx q cs rst]; try discriminate.
  cbn [wrap_comments]. destruct (tokenize cfg rst) as [l e'].
  injection HX as A1 A2 A3. subst. reflexivity.
Qed.

Lemma cwtoks_head_internal tx lb ln m k ks : exists rest,
  cwtoks (CNd tx lb ln m (k :: ks)) = T [LPAREN] false :: rest.
Proof. rewrite cwtoks_internal. eexists. reflexivity. Qed.

Lemma cwrite_node_internal_head tx lb ln m k ks : exists s,
  cwrite_node L render_len wo true (CNd tx lb ln m (k :: ks)) = LPAREN :: s.
Proof. cbn [cwrite_node]. eexists. reflexivity. Qed.

Lemma cwtoks_nonempty t : cwf t = true -> exists tk rest, cwtoks t = tk :: rest.
Proof.
  intro Hwf. destruct t as [tx lb ln m [|k ks]].
  - pose proof (cwf_unfold _ _ _ _ _ Hwf) as [_ [Hb _]]. cbn [cwtoks]. unfold cbody_toks, tag_toks, tag_of. cbn [c_len C02Meta.strip map is_nil].
    simpl in Hb. destruct ln as [x|].
    + destruct tx; eexists _, _; reflexivity.
    + destruct tx as [l|]; [|discriminate]. eexists _, _; reflexivity.
  - destruct (cwtoks_head_internal tx lb ln m k ks) as [r E]. rewrite E. eexists _, _; reflexivity.
Qed.

Theorem tokenize_cwrite_tree : forall (t : mtree),
  cwf (mt_root L t) = true -> forallb bracket_free (tcm L mo t) = true -> root_ok L mo t = true ->
  tokenize cfg (cwrite_tree_list L render_len wo [t])
  = (add_comments (prologue_comments t) (cwtoks (mt_root L t) ++ [Tc [SEMI] false (trail (mt_root L t))]), EndEof []).
Proof.
  intros t Hwf Htc Hroot. unfold cwrite_tree_list. cbn [flat_map]. rewrite app_nil_r. unfold cwrite_tree.
  set (root := mt_root L t) in *.
  set (TOKS := cwtoks root ++ [Tc [SEMI] false (trail root)]).
  assert (TAILN : tokenize cfg [NEWLINE] = ([], EndEof [])).
  { unfold cfg. destruct (rt_pu o); vm_compute; reflexivity. }
  assert (BODY : tokenize cfg (cwrite_node L render_len wo true root ++ [SEMI; NEWLINE]) = (TOKS, EndEof [])).
  { rewrite (lex_cnode root Hwf SEMI [NEWLINE] semi_cap). rewrite TAILN. reflexivity. }
  destruct (cwtoks_nonempty root Hwf) as [tk0 [rest0 E0]].
  assert (ETOKS : TOKS = tk0 :: (rest0 ++ [Tc [SEMI] false (trail root)])).
  { unfold TOKS. rewrite E0. reflexivity. }
  (* the comments written without a blank *)
  assert (TC : tokenize cfg (flat_map bracket (tree_comment_texts L wo t) ++ cwrite_node L render_len wo true root ++ [SEMI; NEWLINE])
               = (add_comments (tcm L mo t) TOKS, EndEof [])).
  { change (tree_comment_texts L wo t) with (tcm L mo t).
    destruct (tcm L mo t) as [|c0 cs] eqn:Etcm.
    - simpl app. rewrite add_comments_nil. exact BODY.
    - (* the root is internal: the statement starts with "(" *)
      unfold root_ok in Hroot. fold root in Hroot. rewrite Etcm in Hroot. simpl in Hroot. rewrite orb_false_r in Hroot.
      apply negb_true_iff in Hroot.
      destruct root as [tx lb ln m [|k ks]] eqn:Er; [discriminate|].
      destruct (cwrite_node_internal_head tx lb ln m k ks) as [s Es].
      rewrite ETOKS. rewrite Es in *. simpl app in BODY |- *.
      rewrite ETOKS in BODY.
      assert (N1 : next_token cfg (LPAREN :: s ++ [SEMI; NEWLINE]) = TTok [LPAREN] false [] (s ++ [SEMI; NEWLINE])).
      { unfold cfg. apply next_captured. apply lparen_cap. }
      apply (tokenize_wrap (c0 :: cs) (flat_map bracket (c0 :: cs)) (LPAREN :: s ++ [SEMI; NEWLINE])); [| exact BODY].
      rewrite N1. cbn [wrap_comments]. rewrite app_nil_r. unfold cfg.
      apply next_comments_cap; [exact Htc | apply lparen_cap]. }
  replace ((rooting_token (mw_base wo) (mt_rooted L t) ++ weight_token L render_len wo (mt_weight L t) ++
            flat_map bracket (tree_comment_texts L wo t) ++ cwrite_node L render_len wo true root ++ [SEMI]) ++ [NEWLINE])
    with (rooting_token (mw_base wo) (mt_rooted L t) ++ weight_token L render_len wo (mt_weight L t) ++
          (flat_map bracket (tree_comment_texts L wo t) ++ cwrite_node L render_len wo true root ++ [SEMI; NEWLINE]))
    by (rewrite <- !app_assoc; reflexivity).
  set (X := flat_map bracket (tree_comment_texts L wo t) ++ cwrite_node L render_len wo true root ++ [SEMI; NEWLINE]) in *.
  assert (ETC : exists tk1 rest1, add_comments (tcm L mo t) TOKS = tk1 :: rest1).
  { rewrite ETOKS. unfold add_comments. eexists _, _. reflexivity. }
  destruct ETC as [tk1 [rest1 E1]].
  (* the weight token *)
  assert (WT : tokenize cfg (weight_token L render_len wo (mt_weight L t) ++ X)
               = (add_comments (weight_comments t ++ tcm L mo t) TOKS, EndEof [])).
  { unfold weight_token, weight_comments. change (mw_store_tree_weights wo) with (mo_sw mo).
    destruct (mo_sw mo); [|simpl app; exact TC].
    destruct (mt_weight L t) as [w|]; [|simpl app; exact TC].
    rewrite weight_token_text. rewrite <- add_comments_app. rewrite E1.
    apply (tokenize_wrap [weight_text w] (bracket (weight_text w) ++ [SPACE]) X).
    - replace ((bracket (weight_text w) ++ [SPACE]) ++ X) with (bracket (weight_text w) ++ SPACE :: X)
        by (rewrite <- app_assoc; reflexivity).
      unfold cfg. apply spaced_comment_prefix. apply weight_text_free.
    - rewrite <- E1. exact TC. }
  set (Y := weight_token L render_len wo (mt_weight L t) ++ X) in *.
  assert (EW : exists tk2 rest2, add_comments (weight_comments t ++ tcm L mo t) TOKS = tk2 :: rest2).
  { rewrite ETOKS. unfold add_comments. eexists _, _. reflexivity. }
  destruct EW as [tk2 [rest2 E2]].
  unfold prologue_comments. rewrite <- add_comments_app. rewrite E2.
  unfold rooting_token, rooting_comments. change (wo_suppress_rooting (mw_base wo)) with (rt_sr o).
  destruct (rt_sr o).
  - simpl app. rewrite add_comments_nil. rewrite <- E2. exact WT.
  - destruct (mt_rooted L t) as [[|]|].
    + apply (tokenize_wrap [[38; 82]] writer_rooting_rooted Y); [apply rooted_prefix | rewrite <- E2; exact WT].
    + apply (tokenize_wrap [[38; 85]] writer_rooting_unrooted Y); [apply unrooted_prefix | rewrite <- E2; exact WT].
    + simpl app. rewrite add_comments_nil. rewrite <- E2. exact WT.
Qed.

End CLex.
