(* C20, translator tie for the NEXUS character block, part 2: the generated NexusReader._read_character_states
   (Gen/NexusChars.v) against states_loop / read_character_states of Model/C20Nexus2.v.

   The generated method works on the sequences themselves (character_data_vector, states_to_add: lists of states);
   the skeleton on the number n of states the row holds.  The tie: n = len(character_data_vector) + len(states_to_add)
   all along, the reader state and the outcome class coincide, and on a normal return the new length of the row is
   the skeleton's result.  When the method leaves with BlockTerminatedException (GBte) the source DISCARDS
   states_to_add (the row keeps its old length) whereas the skeleton reports the length reached; that number is not
   compared here (it is never used for the outcome: an interleaved matrix ended inside a row is short either way). *)
From Coq Require Import String Ascii ZArith List Bool Lia.
From DV Require Import Model.PyPrims Gen.ReaderLoops Model.Tokenizer Model.Newick Model.C20Model Model.C20Nexus2
  Model.C20NexusPrims Gen.NexusChars Proofs.C20NexusDims Proofs.C20GenNexus.
Import ListNotations.
Close Scope string_scope.
Open Scope list_scope.
Open Scope Z_scope.

Lemma rec_states : nth_prim L_states 0 = FRequireNextToken /\ uniform_prim L_multi = FRequireNextToken.
Proof. split; vm_compute; reflexivity. Qed.

Lemma py_require st : py_require_next_token st
  = match require_next_token st with
    | ROk (Some t, st') => ROk (t, st')
    | ROk (None, _) => RErr ParseErr
    | RErr e => RErr e
    | RFuel => RFuel
    end.
Proof. unfold py_require_next_token, unwrap_tok. destruct (require_next_token st) as [[[t|] s]| |]; reflexivity. Qed.

Lemma zlen_snoc (A : Type) (l : list A) (x : A) : zlen (l ++ [x]) = zlen l + 1.
Proof. unfold zlen. rewrite app_length. cbn [length]. lia. Qed.

Section States.
Variable upper : str -> str.
Variable sym_ok : Z -> Z -> bool.
Variable F : nat.

(* the members of a multistate group: `while True: token = require_next_token(); ...` *)
Definition mrel (g : nr (gres (str * list str * nstate))) (m : nr (str * nstate)) : Prop :=
  match g, m with
  | ROk (GVal (_, mt', s1)), ROk (acc', s2) => s1 = s2 /\ concat mt' = acc'
  | RErr e1, RErr e2 => e1 = e2
  | RFuel, RFuel => True
  | _, _ => False
  end.

Lemma multi_rel : forall f c tok mt st,
  mrel (NexusReader_read_character_states_loop2 f (s_of c) tok mt st) (multi_loop upper f c st (concat mt)).
Proof.
  destruct rec_states as [_ K].
  induction f as [|f IH]; intros c tok mt st; [exact I|].
  cbn [NexusReader_read_character_states_loop2 multi_loop]. rewrite K. cbn [fetch]. rewrite py_require.
  destruct (require_next_token st) as [[o s]| |] eqn:E; cbn [nbind mrel fst snd]; try reflexivity.
  destruct (require_some _ _ _ E) as [t Et]. subst o. cbn [nbind fst snd tok_is]. unfold str_is.
  destruct (seqb t (s_of c)); [cbn [mrel]; split; reflexivity|].
  destruct (seqb t (s_of ","%string)); [apply IH|].
  specialize (IH c t (mt ++ [t]) s). rewrite concat_app in IH. cbn [concat] in IH. rewrite app_nil_r in IH. exact IH.
Qed.

Variable il : bool.
Variable nchar : Z.
Variable mc : list str.
Variable cdv : list pstate.
Variable al : alphabet.
Variable first : option Z.

(* `for c in token:` *)
Definition crel (st : nstate) (g : nr (gres (list pstate * nstate))) (m : nr Z) : Prop :=
  match g, m with
  | ROk (GVal (sts', s1)), ROk n1 => s1 = st /\ zlen cdv + zlen sts' = n1
  | RErr e1, RErr e2 => e1 = e2
  | _, _ => False
  end.

Lemma chars_rel : forall cs sts st,
  crel st (NexusReader_read_character_states_loop3 sym_ok nchar mc cdv al first (py_chars cs) sts st)
          (add_chars sym_ok al mc nchar first cs (zlen cdv + zlen sts)).
Proof.
  induction cs as [|c cs IH]; intros sts st.
  - cbn. split; reflexivity.
  - cbn [py_chars map NexusReader_read_character_states_loop3 add_chars]. fold (py_chars cs). unfold py_in_strs.
    destruct (existsb (seqb [c]) mc).
    + unfold py_first_getitem. destruct first as [fl|]; [|reflexivity].
      destruct (zlen cdv + zlen sts <? fl); cbn [nbind]; [|reflexivity].
      destruct (zlen cdv + zlen sts =? nchar); [reflexivity|].
      specialize (IH (sts ++ [tt]) st). rewrite zlen_snoc in IH. rewrite Z.add_assoc in IH. exact IH.
    + unfold py_symbol_state.
      assert (A : alpha_lookup sym_ok al c = ROk true \/ alpha_lookup sym_ok al c = ROk false \/ alpha_lookup sym_ok al c = RErr TypeErr).
      { unfold alpha_lookup. destruct al as [code|[keys|]].
        - destruct (sym_ok code c); auto.
        - destruct (existsb (seqb [c]) keys); auto.
        - auto. }
      destruct A as [A|[A|A]]; rewrite A; cbn [nbind crel]; try reflexivity.
      destruct (zlen cdv + zlen sts =? nchar); [reflexivity|].
      specialize (IH (sts ++ [tt]) st). rewrite zlen_snoc in IH. rewrite Z.add_assoc in IH. exact IH.
Qed.

(* the loop of _read_character_states *)
Definition srel (g : nr (gres (list pstate * nstate))) (m : nr (Z * bool * nstate)) : Prop :=
  match g, m with
  | ROk (GVal (sts', s1)), ROk (n1, false, s2) => s1 = s2 /\ zlen cdv + zlen sts' = n1
  | ROk (GBte s1), ROk (_, true, s2) => s1 = s2
  | RErr e1, RErr e2 => e1 = e2
  | RFuel, RFuel => True
  | _, _ => False
  end.

Lemma PE_match a b : PE a b -> n_match b = n_match a.
Proof. unfold PE, pay. intro H. inversion H. reflexivity. Qed.

Lemma states_rel : forall f sts st, n_match st = mc ->
  srel (NexusReader_read_character_states_loop1 sym_ok F il nchar mc cdv al first f sts st)
       (states_loop upper sym_ok F f al il nchar first (zlen cdv + zlen sts) st).
Proof.
  destruct rec_states as [K _].
  induction f as [|f IH]; intros sts st Hmc; [exact I|].
  cbn [NexusReader_read_character_states_loop1 states_loop]. rewrite K. cbn [fetch].
  destruct (zlen cdv + zlen sts <? nchar) eqn:Cn; [|cbn [srel]; split; reflexivity].
  rewrite py_require.
  destruct (require_next_token st) as [[o s]| |] eqn:E; cbn [nbind srel fst snd]; try reflexivity.
  destruct (require_some _ _ _ E) as [t Et]. subst o. cbn [nbind fst snd tok_is]. unfold str_is.
  assert (Hs : n_match s = mc).
  { pose proof (PE_match _ _ (require_next_token_PE _ _ E)) as X. cbn [snd] in X. congruence. }
  assert (Group : forall c : string,
            srel (dn r_ <- NexusReader_read_character_states_loop2 F (s_of c) t [] s ;;
                  match r_ with
                  | GBte st0 => ROk (GBte st0)
                  | GVal (_, multistate_tokens, st0) =>
                    dn state <- py_get_state_for_multistate sym_ok al (py_join_empty multistate_tokens)
                                  (if String.eqb c "}" then AMBIGUOUS_STATE else POLYMORPHIC_STATE) ;;
                    (if zlen cdv + zlen sts =? nchar then RErr ParseErr
                     else NexusReader_read_character_states_loop1 sym_ok F il nchar mc cdv al first f (sts ++ [state]) st0)
                  end)
                 (dn g <- multi_loop upper F c s [] ;;
                  let '(cs, st2) := g in
                  dn ok <- group_ok sym_ok al cs ;;
                  if ok then states_loop upper sym_ok F f al il nchar first (zlen cdv + zlen sts + 1) st2 else RErr ParseErr)).
  { intro c. pose proof (multi_rel F c t [] s) as M. cbn [concat] in M.
    pose proof (multi_loop_PE upper F c s []) as MP.
    destruct (NexusReader_read_character_states_loop2 F (s_of c) t [] s) as [[[[tk mt'] s1]|sb]| |];
      destruct (multi_loop upper F c s []) as [[acc' s2]| |]; cbn [mrel] in M; try contradiction; cbn [nbind srel].
    - destruct M as [M1 M2]. subst s1 acc'. unfold py_get_state_for_multistate, py_join_empty.
      destruct (group_ok sym_ok al (concat mt')) as [[|]| |]; cbn [nbind srel]; try reflexivity.
      replace (zlen cdv + zlen sts =? nchar) with false by (symmetry; apply Z.eqb_neq; apply Z.ltb_lt in Cn; lia).
      specialize (IH (sts ++ [tt]) s2). rewrite zlen_snoc, Z.add_assoc in IH. apply IH.
      specialize (MP _ eq_refl). cbn [snd] in MP. rewrite (PE_match _ _ MP). exact Hs.
    - exact M.
    - exact I. }
  destruct (seqb t (s_of "{"%string)) eqn:E1; cbn [orb].
  - exact (Group "}"%string).
  - destruct (seqb t (s_of "("%string)) eqn:E2.
    + exact (Group ")"%string).
    + unfold is_eol. cbn [tok_is].
      change (s_of (String (ascii_of_nat 13) ""%string)) with [13]. change (s_of (String (ascii_of_nat 10) ""%string)) with [10].
      rewrite (orb_comm (seqb t [10]) (seqb t [13])).
      destruct (seqb t [13] || seqb t [10]).
      * destruct il; [cbn [srel]; split; reflexivity | apply IH; exact Hs].
      * destruct (seqb t (s_of ";"%string)).
        -- destruct il; cbn [negb srel]; reflexivity.
        -- rewrite Hs. pose proof (chars_rel t sts s) as C.
           destruct (NexusReader_read_character_states_loop3 sym_ok nchar mc cdv al first (py_chars t) sts s) as [[[sts' s1]|sb]| |];
             destruct (add_chars sym_ok al mc nchar first t (zlen cdv + zlen sts)) as [n1| |]; cbn [crel] in C; try contradiction;
             cbn [nbind srel]; try exact C.
           destruct C as [C1 C2]. subst s1 n1. apply IH. exact Hs.
Qed.

(* NexusReader._read_character_states: the new length of the row (normal return), the reader state, the outcome *)
Theorem gen_read_character_states_rel : forall st, n_match st = mc -> n_interleave st = il ->
  match NexusReader_read_character_states sym_ok F il nchar mc cdv al first st,
        read_character_states upper sym_ok F al nchar first (zlen cdv) st with
  | ROk (GVal (v, s1)), ROk (n1, false, s2) => s1 = s2 /\ zlen v = n1
  | ROk (GBte s1), ROk (_, true, s2) => s1 = s2
  | RErr e1, RErr e2 => e1 = e2
  | RFuel, RFuel => True
  | _, _ => False
  end.
Proof.
  intros st Hmc Hil. unfold NexusReader_read_character_states, read_character_states. rewrite Hil. cbv zeta.
  set (st0 := if il then upd_modes st true (n_hyphen st) else st).
  assert (E0 : (if il then py_set_capture_eol st true else st) = st0) by reflexivity. rewrite E0.
  assert (H0 : n_match st0 = mc) by (unfold st0; destruct il; exact Hmc).
  pose proof (states_rel F [] st0 H0) as R. change (zlen (@nil pstate)) with 0 in R. rewrite Z.add_0_r in R.
  destruct (NexusReader_read_character_states_loop1 sym_ok F il nchar mc cdv al first F [] st0) as [[[sts' s1]|sb]| |];
    destruct (states_loop upper sym_ok F F al il nchar first (zlen cdv) st0) as [[[n1 [|]] s2]| |];
    cbn [srel] in R; try contradiction; cbn [nbind].
  - destruct R as [R1 R2]. subst s1 n1. cbn [negb]. rewrite andb_true_r. unfold py_set_capture_eol. split; [reflexivity|].
    unfold zlen. rewrite app_length. unfold zlen. lia.
  - subst sb. rewrite andb_false_r. reflexivity.
  - exact R.
  - exact I.
Qed.

End States.
