(* C02: the Newick reader on the token rendering `wtoks` of a tree gives back the tree. *)
From Coq Require Import ZArith List Bool Lia Arith.
From DV Require Import Model.PyPrims Gen.CharClasses Model.Tokenizer Model.Newick Model.C02Spec
     Proofs.C02Tok Proofs.C02Escape Proofs.C02Lex.
Import ListNotations.
Open Scope Z_scope.

Lemma str_eqb_eq a b : str_eqb a b = true <-> a = b.
Proof. unfold str_eqb. apply list_eqb_eq. intros x y. apply Z.eqb_eq. Qed.

Lemma assoc_none {A} k (l : list (str * A)) : ~ In k (map fst l) -> assoc k l = None.
Proof.
  induction l as [|[k' v] l IH]; simpl; intro H; [reflexivity|].
  destruct (str_eqb k k') eqn:E.
  - apply str_eqb_eq in E. subst. exfalso. apply H. left. reflexivity.
  - apply IH. intro Hi. apply H. right. exact Hi.
Qed.

Section Parse.
Variable L : Type.
Variable render_len : L -> str.
Variable parse_len : str -> option L.
Variable lower : str -> str.
Hypothesis len_roundtrip : forall x, parse_len (render_len x) = Some x.
Variable o : rt_opts.

Let ro := rt_ropts o.

Notation ntree := (ntree L).
Notation ptree := (ptree L).
Notation wtoks := (wtoks L render_len o).
Notation body_toks := (body_toks L render_len o).
Notation expect := (expect L o).
Notation expect_list := (expect_list L o).
Notation taxa_order := (taxa_order L o).
Notation wf := (wf_tree L o).

(* number of nodes *)
Fixpoint nsize (t : ntree) : nat :=
  match t with Nd _ _ _ ks => S (fold_right (fun k n => (nsize k + n)%nat) O ks) end.
Definition nsizes (ks : list ntree) : nat := fold_right (fun k n => (nsize k + n)%nat) O ks.
Lemma nsize_pos t : (1 <= nsize t)%nat.
Proof. destruct t; simpl; lia. Qed.
Lemma nsize_eq tx lb ln ks : nsize (Nd tx lb ln ks) = S (nsizes ks).
Proof. reflexivity. Qed.
Lemma nsizes_cons k ks : nsizes (k :: ks) = (nsize k + nsizes ks)%nat.
Proof. reflexivity. Qed.

Definition need (t : ntree) : nat := 4 * nsize t.

(* ---- reader states ---- *)
Definition St (cur : str) (toks : list token) (e : tend) (n : Z) (b : bool) (seen : list nat) (m : mapper) : pstate :=
  mkPS (Some cur) false [] toks e n b seen m.

(* positioned at the first token of the list *)
Definition ST (l : list token) (e : tend) (n : Z) (b : bool) (seen : list nat) (m : mapper) : pstate :=
  match l with
  | t :: r => St (t_text t) r e n b seen m
  | [] => St [] [] e n b seen m
  end.

Lemma advance_T c s q r e n b seen m :
  advance (St c (T s q :: r) e n b seen m) = AdvTok (St s r e n b seen m).
Proof. reflexivity. Qed.

Lemma require_next_T c s q r e n b seen m :
  require_next (St c (T s q :: r) e n b seen m) = Ok (St s r e n b seen m).
Proof. reflexivity. Qed.

Lemma pull_St c r e n b seen m :
  pull_comments (St c r e n b seen m) = ([], St c r e n b seen m).
Proof. reflexivity. Qed.

Definition not_struct (l : str) : Prop :=
  forall c, In c [LPAREN; RPAREN; COMMA; COLON; SEMI] -> l <> [c].

Lemma cur_is_not_struct l r e n b seen m c : not_struct l ->
  In c [LPAREN; RPAREN; COMMA; COLON; SEMI] -> cur_is (St l r e n b seen m) c = false.
Proof.
  intros H Hi. unfold cur_is, St. cbn [ps_cur]. destruct l as [|x [|y l]]; try reflexivity.
  destruct (x =? c) eqn:E; [|reflexivity]. apply Z.eqb_eq in E. subst. exfalso. apply (H c Hi). reflexivity.
Qed.

Lemma is_struct1_not l : is_struct1 l = false -> not_struct l.
Proof.
  intros H c Hi E. subst l. unfold is_struct1 in H.
  assert (X : zmem c [LPAREN; RPAREN; COMMA; COLON; SEMI] = true) by (apply zmem_In; exact Hi). congruence.
Qed.

Lemma label_ok_not_struct l : label_ok o l = true -> not_struct l.
Proof.
  unfold label_ok. rewrite !andb_true_iff. intros [[_ H] _]. apply negb_true_iff in H.
  apply is_struct1_not. exact H.
Qed.

(* ---- the symbol mapper on fresh labels ---- *)
Definition Minv (m : mapper) : Prop :=
  m_tokens m = [] /\ m_by_number m = false /\ m_case_sensitive m = false /\
  forall s, ~ In (lower s) (map lower (m_ns m)) -> assoc (lower s) (m_labels m) = None.

Lemma fresh_lookup m l : Minv m -> ~ In (lower l) (map lower (m_ns m)) ->
  require_taxon_for_symbol lower m l = mapper_new_taxon lower m l.
Proof.
  intros [H1 [H2 [H3 H4]]] Hf. unfold require_taxon_for_symbol, m_key. rewrite H3, H1, H2.
  simpl. rewrite (H4 l Hf). reflexivity.
Qed.

Definition add_taxon (m : mapper) (l : str) : mapper := snd (mapper_new_taxon lower m l).
Definition add_taxa (m : mapper) (ls : list str) : mapper := fold_left add_taxon ls m.

Lemma add_taxon_ns m l : m_ns (add_taxon m l) = m_ns m ++ [l].
Proof. reflexivity. Qed.

Lemma add_taxa_ns ls : forall m, m_ns (add_taxa m ls) = m_ns m ++ ls.
Proof.
  induction ls as [|l ls IH]; intro m; [simpl; rewrite app_nil_r; reflexivity|].
  change (add_taxa m (l :: ls)) with (add_taxa (add_taxon m l) ls).
  rewrite IH. rewrite add_taxon_ns. rewrite <- app_assoc. reflexivity.
Qed.

Lemma add_taxa_app m a b : add_taxa m (a ++ b) = add_taxa (add_taxa m a) b.
Proof. unfold add_taxa. apply fold_left_app. Qed.

Lemma Minv_add m l : Minv m -> Minv (add_taxon m l).
Proof.
  intros [H1 [H2 [H3 H4]]]. unfold add_taxon, mapper_new_taxon, Minv. cbn [snd m_tokens m_by_number m_case_sensitive m_ns m_labels].
  repeat split; try assumption. intros s Hs. unfold m_key. rewrite H3. cbn [assoc].
  rewrite map_app in Hs. simpl in Hs. rewrite in_app_iff in Hs.
  destruct (str_eqb (lower s) (lower l)) eqn:E.
  - apply str_eqb_eq in E. exfalso. apply Hs. right. left. symmetry. exact E.
  - apply H4. intro Hi. apply Hs. left. exact Hi.
Qed.

Lemma Minv_add_taxa ls : forall m, Minv m -> Minv (add_taxa m ls).
Proof.
  induction ls as [|l ls IH]; intros m Hm; [exact Hm|]. simpl. apply IH. apply Minv_add. exact Hm.
Qed.

Lemma Minv_new : Minv (new_mapper lower [] false false).
Proof. unfold Minv, new_mapper. simpl. repeat split; auto. Qed.

(* ---- the label loop ---- *)
Notation label_loop := (label_loop L parse_len lower ro).

(* the loop at the token following the node: returns, leaving the token current *)
Lemma ll_follow c f rest e n b seen m isint lp nd : (c = COMMA \/ c = RPAREN) ->
  label_loop (S f) (St [c] rest e n b seen m) isint lp nd
  = Ok (mkPnode L (pn_taxon L nd) (pn_label L nd) (pn_len L nd) (pn_comments L nd ++ []), St [c] rest e n b seen m).
Proof. intros [E|E]; subst c; reflexivity. Qed.

Lemma pnode_eta (nd : pnode L) :
  mkPnode L (pn_taxon L nd) (pn_label L nd) (pn_len L nd) (pn_comments L nd ++ []) = nd.
Proof. destruct nd. simpl. rewrite app_nil_r. reflexivity. Qed.

(* ':' numeral *)
Lemma ll_len f x s q rest e n b seen m isint lp tx lb ln0 :
  label_loop (S f) (St [COLON] (T (render_len x) false :: T s q :: rest) e n b seen m) isint lp
             (mkPnode L tx lb ln0 [])
  = label_loop f (St s rest e n b seen m) isint lp (mkPnode L tx lb (Some x) []).
Proof.
  cbn [Newick.label_loop]. rewrite pull_St.
  change (cur_is (St [COLON] (T (render_len x) false :: T s q :: rest) e n b seen m) COLON) with true.
  cbv iota. rewrite require_next_T. cbn [bind]. change (ro_suppress_edge_lengths ro) with false. cbv iota.
  change (cur_text (St (render_len x) (T s q :: rest) e n b seen m)) with (render_len x).
  rewrite len_roundtrip. cbn [bind]. rewrite advance_T. reflexivity.
Qed.

(* a label token that becomes the node label *)
Lemma ll_label f l s q rest e n b seen m isint ln0 : not_struct l ->
  (isint && negb (rt_it o))%bool = true ->
  label_loop (S f) (St l (T s q :: rest) e n b seen m) isint false (mkPnode L None None ln0 [])
  = label_loop f (St s rest e n b seen m) isint true (mkPnode L None (Some l) ln0 []).
Proof.
  intros Hns Hi. cbn [Newick.label_loop]. rewrite pull_St.
  rewrite !(cur_is_not_struct l _ e n b seen m _ Hns) by (simpl; tauto).
  cbv iota.
  change (ro_suppress_internal_node_taxa ro) with (negb (rt_it o)).
  change (ro_suppress_leaf_node_taxa ro) with false.
  rewrite Hi. cbn [orb bind]. rewrite advance_T. reflexivity.
Qed.

(* a label token that becomes the node's taxon (a new one) *)
Lemma ll_taxon f l s q rest e n b seen m isint ln0 : not_struct l ->
  (isint && negb (rt_it o))%bool = false ->
  Minv m -> ~ In (lower l) (map lower (m_ns m)) ->
  (forall x, In x seen -> (x < length (m_ns m))%nat) ->
  label_loop (S f) (St l (T s q :: rest) e n b seen m) isint false (mkPnode L None None ln0 [])
  = label_loop f (St s rest e n b (length (m_ns m) :: seen) (add_taxon m l)) isint true
               (mkPnode L (Some (length (m_ns m))) None ln0 []).
Proof.
  intros Hns Hi Hm Hf Hseen. cbn [Newick.label_loop]. rewrite pull_St.
  rewrite !(cur_is_not_struct l _ e n b seen m _ Hns) by (simpl; tauto).
  cbv iota.
  change (ro_suppress_internal_node_taxa ro) with (negb (rt_it o)).
  change (ro_suppress_leaf_node_taxa ro) with false.
  rewrite Hi. rewrite andb_false_r. cbn [orb].
  change (cur_text (St l (T s q :: rest) e n b seen m)) with l.
  change (ps_map (St l (T s q :: rest) e n b seen m)) with m.
  change (ps_seen (St l (T s q :: rest) e n b seen m)) with seen.
  rewrite (fresh_lookup m l Hm Hf). unfold mapper_new_taxon at 1.
  assert (E : existsb (Nat.eqb (length (m_ns m))) seen = false).
  { destruct (existsb (Nat.eqb (length (m_ns m))) seen) eqn:E; [|reflexivity].
    apply existsb_exists in E. destruct E as [x [Hx Ex]]. apply Nat.eqb_eq in Ex. subst x.
    specialize (Hseen _ Hx). lia. }
  rewrite E. cbn [bind]. unfold set_seen_map, St. cbn [ps_cur ps_eof ps_comments ps_toks ps_end ps_nesting ps_complete].
  fold (St l (T s q :: rest) e n b (length (m_ns m) :: seen) (add_taxon m l)).
  change (mkPS (Some l) false [] (T s q :: rest) e n b (length (m_ns m) :: seen)
               (mkMapper (m_ns m ++ [l]) (m_tokens m) ((m_key lower m l, length (m_ns m)) :: m_labels m)
                         ((dec_of_nat (S (length (m_ns m))), length (m_ns m)) :: m_numbers m) (m_by_number m) (m_case_sensitive m)))
    with (St l (T s q :: rest) e n b (length (m_ns m) :: seen) (add_taxon m l)).
  rewrite advance_T. reflexivity.
Qed.

(* ---- bookkeeping of taxon numbers ---- *)
Definition seen_after (i k : nat) (seen : list nat) : list nat := rev (seq i k) ++ seen.

Lemma seen_after_0 i seen : seen_after i 0 seen = seen.
Proof. reflexivity. Qed.

Lemma seen_after_S i k seen : (i + k)%nat :: seen_after i k seen = seen_after i (S k) seen.
Proof. unfold seen_after. rewrite seq_S, rev_app_distr. reflexivity. Qed.

Lemma seen_after_add i a b seen :
  seen_after (i + a) b (seen_after i a seen) = seen_after i (a + b) seen.
Proof. unfold seen_after. rewrite seq_app, rev_app_distr, app_assoc. reflexivity. Qed.

Lemma seen_after_bound i k seen bound :
  (forall x, In x seen -> (x < bound)%nat) -> (i + k <= bound)%nat ->
  forall x, In x (seen_after i k seen) -> (x < bound)%nat.
Proof.
  intros Hs Hb x Hx. unfold seen_after in Hx. apply in_app_iff in Hx. destruct Hx as [Hx|Hx].
  - apply in_rev in Hx. apply in_seq in Hx. lia.
  - apply Hs. exact Hx.
Qed.

Lemma nodup_fresh (a : list str) l y : NoDup (map lower (a ++ l :: y)) -> ~ In (lower l) (map lower a).
Proof.
  rewrite map_app. simpl. intros H Hi. apply NoDup_remove_2 in H. apply H. apply in_app_iff. left. exact Hi.
Qed.

(* ---- expect ---- *)
Definition own_taxa (t : ntree) : list str :=
  match t with
  | Nd tx _ _ ks => if tag_is_taxon L o t then match tx with Some l => [l] | None => [] end else []
  end.

Lemma taxa_order_unfold tx lb ln ks :
  taxa_order (Nd tx lb ln ks) = flat_map taxa_order ks ++ own_taxa (Nd tx lb ln ks).
Proof. reflexivity. Qed.

Definition exp_label (t : ntree) : option str :=
  match t with Nd _ lb _ ks => if is_nil ks then None else if rt_it o then None else lb end.

Lemma expect_unfold tx lb ln ks i :
  expect (Nd tx lb ln ks) i =
  let '(pks, j) := expect_list ks i in
  match own_taxa (Nd tx lb ln ks) with
  | _ :: _ => (PN (Some j) (exp_label (Nd tx lb ln ks)) ln [] pks, S j)
  | [] => (PN None (exp_label (Nd tx lb ln ks)) ln [] pks, j)
  end.
Proof.
  cbn [C02Spec.expect].
  assert (E : forall ks i,
    (fix go (ks : list ntree) (i : nat) : list ptree * nat :=
       match ks with
       | [] => ([], i)
       | k :: r => let '(p, j) := expect k i in let '(ps, j') := go r j in (p :: ps, j')
       end) ks i = expect_list ks i).
  { clear. induction ks as [|k r IH]; intro i; [reflexivity|]. cbn [C02Spec.expect_list].
    destruct (expect k i) as [p j]. rewrite IH. reflexivity. }
  rewrite E. destruct (expect_list ks i) as [pks j]. unfold own_taxa, exp_label.
  destruct (tag_is_taxon L o (Nd tx lb ln ks)); [destruct tx|]; reflexivity.
Qed.

Lemma expect_count : forall t i, snd (expect t i) = (i + length (taxa_order t))%nat.
Proof.
  induction t as [tx lb ln ks IH] using ntree_ind'. intro i. rewrite expect_unfold, taxa_order_unfold.
  assert (EL : forall i, snd (expect_list ks i) = (i + length (flat_map taxa_order ks))%nat).
  { clear i. induction IH as [|k r Hk Hr IHr]; intro i; [simpl; lia|].
    cbn [C02Spec.expect_list flat_map]. specialize (Hk i). destruct (expect k i) as [p j]. simpl in Hk.
    specialize (IHr j). destruct (expect_list r j) as [ps j']. simpl in *. rewrite app_length. lia. }
  specialize (EL i). destruct (expect_list ks i) as [pks j]. simpl in EL. rewrite app_length.
  destruct (own_taxa (Nd tx lb ln ks)) as [|l [|l2 r]] eqn:E; simpl; try lia.
  exfalso. unfold own_taxa in E. destruct (tag_is_taxon L o (Nd tx lb ln ks)); [destruct tx|]; discriminate.
Qed.

Lemma expect_list_count ks i : snd (expect_list ks i) = (i + length (flat_map taxa_order ks))%nat.
Proof.
  revert i. induction ks as [|k r IH]; intro i; [simpl; lia|].
  cbn [C02Spec.expect_list flat_map]. pose proof (expect_count k i) as Hk. destruct (expect k i) as [p j]. simpl in Hk.
  specialize (IH j). destruct (expect_list r j) as [ps j']. simpl in *. rewrite app_length. lia.
Qed.

Lemma own_taxa_cases t : own_taxa t = [] \/ exists l, own_taxa t = [l].
Proof. destruct t as [tx lb ln ks]. unfold own_taxa. destruct (tag_is_taxon L o (Nd tx lb ln ks)); [destruct tx|]; eauto. Qed.

(* ---- shape of wtoks ---- *)
Definition paren (t : ntree) : Z := match t with Nd _ _ _ [] => 0 | _ => 1 end.
Definition is_leafb (t : ntree) : bool := match t with Nd _ _ _ ks => is_nil ks end.

Lemma wtoks_false t : wtoks false t = T [COMMA] false :: wtoks true t.
Proof. destruct t as [tx lb ln [|k ks]]; reflexivity. Qed.

(* the first token of a node: a T-shaped token that is neither ',' nor ')' nor ';',
   and is '(' exactly for internal nodes *)
Lemma wtoks_head t : wf t = true ->
  exists s q rest, wtoks true t = T s q :: rest /\
    (forall e n b seen m tl,
       cur_is (St s tl e n b seen m) COMMA = false /\ cur_is (St s tl e n b seen m) RPAREN = false /\
       cur_is (St s tl e n b seen m) SEMI = false /\
       cur_is (St s tl e n b seen m) LPAREN = negb (is_leafb t)).
Proof.
  intro Hwf. destruct t as [tx lb ln ks]. pose proof (wf_unfold L o _ _ _ _ Hwf) as [Hl [Hb _]].
  destruct ks as [|k ks].
  - cbn [C02Lex.wtoks]. simpl app. unfold C02Lex.body_toks, tag_toks, tag_of in *. cbn [is_nil n_len] in *.
    destruct tx as [l|].
    + eexists l, _, _. split; [reflexivity|]. intros. pose proof (label_ok_not_struct l Hl) as Hn.
      rewrite !(cur_is_not_struct l _ _ _ _ _ _ _ Hn) by (simpl; tauto). auto.
    + destruct ln as [x|]; [|discriminate]. eexists [COLON], false, _. split; [reflexivity|]. intros. auto.
  - cbn [C02Lex.wtoks]. eexists [LPAREN], false, _. split; [reflexivity|]. intros. auto.
Qed.

Lemma kids_tail_head ks tl : exists c rest,
  flat_map (wtoks false) ks ++ T [RPAREN] false :: tl = T [c] false :: rest /\ (c = COMMA \/ c = RPAREN).
Proof.
  destruct ks as [|k ks].
  - simpl. eexists RPAREN, _. split; [reflexivity | right; reflexivity].
  - cbn [flat_map]. rewrite wtoks_false. simpl. eexists COMMA, _. split; [reflexivity | left; reflexivity].
Qed.

(* ---- the label loop over the node body ---- *)
Definition exp_node (t : ntree) (j : nat) : pnode L :=
  match own_taxa t with
  | _ :: _ => mkPnode L (Some j) (exp_label t) (n_len L t) []
  | [] => mkPnode L None (exp_label t) (n_len L t) []
  end.

Definition HKt (ftxt : str) (rest : list token) (e : tend) (n : Z) (K : list nat -> mapper -> pstate) : Prop :=
  forall isint lp nd f2 seen2 m2, (1 <= f2)%nat ->
    label_loop f2 (St ftxt rest e n false seen2 m2) isint lp nd = Ok (nd, K seen2 m2).

Lemma HK_follow c rest e n : (c = COMMA \/ c = RPAREN) ->
  HKt [c] rest e n (fun seen m => St [c] rest e n false seen m).
Proof.
  intros Hc isint lp nd f2 seen2 m2 Hf. destruct f2 as [|f2]; [lia|].
  rewrite (ll_follow c f2 rest e n false seen2 m2 isint lp nd Hc). rewrite pnode_eta. reflexivity.
Qed.

Lemma ll_body tx lb ln ks F ftxt fq rest e n seen m K :
  (3 <= F)%nat ->
  (match tag_of L o (Nd tx lb ln ks) with Some l => label_ok o l | None => true end) = true ->
  (if is_nil ks then true else if rt_it o then is_none lb else is_none tx) = true ->
  Minv m -> (forall x, In x seen -> (x < length (m_ns m))%nat) ->
  (forall l, own_taxa (Nd tx lb ln ks) = [l] -> ~ In (lower l) (map lower (m_ns m))) ->
  HKt ftxt rest e n K ->
  label_loop F (ST (body_toks (Nd tx lb ln ks) ++ T ftxt fq :: rest) e n false seen m)
             (negb (is_nil ks)) false (mkPnode L None None None [])
  = Ok (exp_node (Nd tx lb ln ks) (length (m_ns m)),
        K (seen_after (length (m_ns m)) (length (own_taxa (Nd tx lb ln ks))) seen)
          (add_taxa m (own_taxa (Nd tx lb ln ks)))).
Proof.
  intros HF Hl Hs Hm Hseen Hfresh HK.
  destruct F as [|[|[|F]]]; try lia.
  (* the tail after the tag: optional length, then the follow token *)
  assert (TAIL : forall isint lp txo lbo seen2 m2 f, (2 <= f)%nat ->
     label_loop f (ST ((match ln with Some x => [T [COLON] false; T (render_len x) false] | None => [] end)
                       ++ T ftxt fq :: rest) e n false seen2 m2) isint lp (mkPnode L txo lbo None [])
     = Ok (mkPnode L txo lbo ln [], K seen2 m2)).
  { intros isint lp txo lbo seen2 m2 f Hf. destruct f as [|[|f]]; try lia.
    destruct ln as [x|].
    - simpl app. cbn [ST t_text T]. rewrite ll_len. apply HK. lia.
    - simpl app. cbn [ST t_text T]. apply HK. lia. }
  unfold C02Lex.body_toks, tag_toks. cbn [n_len]. rewrite <- app_assoc.
  unfold exp_node, own_taxa, exp_label, tag_is_taxon, tag_of in *.
  destruct (is_nil ks) eqn:Ek; cbn [negb orb] in *.
  - (* leaf: the tag is the taxon *)
    destruct tx as [l|].
    + simpl app. cbn [ST t_text T].
      destruct (match ln with Some x => [T [COLON] false; T (render_len x) false] | None => [] end ++ T ftxt fq :: rest)
        as [|[s q cm ef] tl] eqn:Etl; [destruct ln; discriminate|].
      assert (Esh : cm = [] /\ ef = false) by (destruct ln; inversion Etl; auto). destruct Esh; subst cm ef.
      change (mkTok s q [] false) with (T s q) in *.
      rewrite ll_taxon; [| apply label_ok_not_struct; exact Hl | reflexivity | exact Hm | apply Hfresh; reflexivity | exact Hseen].
      change (St s tl e n false (length (m_ns m) :: seen) (add_taxon m l))
        with (ST (T s q :: tl) e n false (length (m_ns m) :: seen) (add_taxon m l)).
      rewrite TAIL by lia. simpl length. rewrite <- seen_after_S, Nat.add_0_r. reflexivity.
    + simpl app. rewrite TAIL by lia. reflexivity.
  - destruct (rt_it o) eqn:Eit.
    + (* internal node carrying a taxon *)
      destruct lb; [discriminate|]. destruct tx as [l|].
      * simpl app. cbn [ST t_text T].
        destruct (match ln with Some x => [T [COLON] false; T (render_len x) false] | None => [] end ++ T ftxt fq :: rest)
          as [|[s q cm ef] tl] eqn:Etl; [destruct ln; discriminate|].
        assert (Esh : cm = [] /\ ef = false) by (destruct ln; inversion Etl; auto). destruct Esh; subst cm ef.
        change (mkTok s q [] false) with (T s q) in *.
        rewrite ll_taxon; [| apply label_ok_not_struct; exact Hl | rewrite Eit; reflexivity | exact Hm | apply Hfresh; reflexivity | exact Hseen].
        change (St s tl e n false (length (m_ns m) :: seen) (add_taxon m l))
          with (ST (T s q :: tl) e n false (length (m_ns m) :: seen) (add_taxon m l)).
        rewrite TAIL by lia. simpl length. rewrite <- seen_after_S, Nat.add_0_r. reflexivity.
      * simpl app. rewrite TAIL by lia. reflexivity.
    + (* internal node carrying a label *)
      destruct tx; [discriminate|]. destruct lb as [l|].
      * simpl app. cbn [ST t_text T].
        destruct (match ln with Some x => [T [COLON] false; T (render_len x) false] | None => [] end ++ T ftxt fq :: rest)
          as [|[s q cm ef] tl] eqn:Etl; [destruct ln; discriminate|].
        assert (Esh : cm = [] /\ ef = false) by (destruct ln; inversion Etl; auto). destruct Esh; subst cm ef.
        change (mkTok s q [] false) with (T s q) in *.
        rewrite ll_label; [| apply label_ok_not_struct; exact Hl | rewrite Eit; reflexivity].
        change (St s tl e n false seen m) with (ST (T s q :: tl) e n false seen m).
        rewrite TAIL by lia. reflexivity.
      * simpl app. rewrite TAIL by lia. reflexivity.
Qed.

(*PART3*)
(* ---- parse_node on a subtree ---- *)
Notation parse_node := (parse_node L parse_len lower ro).
Notation children_loop := (children_loop L parse_len lower ro).


Lemma parse_node_S f st is_internal pre :
  parse_node (S f) st is_internal pre =
    let '(cs0, st) := pull_comments st in
    do ks <- (if cur_is st LPAREN
              then do st1 <- require_next st ;; children_loop f st1 false true []
              else Ok ([], st)) ;;
    let '(kids, st2) := ks in
    let st3 := set_complete st2 false in
    let isint := match is_internal with Some b => b | None => negb (is_nil kids) end in
    do r <- label_loop f st3 isint false (mkPnode L None None None (pre ++ cs0)) ;;
    let '(nd, st4) := r in
    Ok (finish L nd kids, st4).
Proof. reflexivity. Qed.

Lemma children_loop_S f st node_created count0 kids :
  children_loop (S f) st node_created count0 kids =
    if cur_is st COMMA then
      let '(kids1, st1) :=
          if node_created then (kids, st)
          else let '(cs, st') := pull_comments st in (kids ++ [blank_node L cs], st') in
      do st2 <- require_next st1 ;;
      do r <- comma_loop L f st2 kids1 ;;
      let '(kids2, st3) := r in
      if (ro_blank_after_comma ro || negb node_created) && cur_is st3 RPAREN then
        let '(cs, st4) := pull_comments st3 in
        children_loop f st4 true false (kids2 ++ [blank_node L cs])
      else children_loop f st3 node_created false kids2
    else if cur_is st RPAREN then
      let kids1 := if count0 then kids ++ [blank_node L []] else kids in
      do st1 <- require_next (set_nesting st (ps_nesting st - 1)) ;;
      Ok (kids1, st1)
    else
      let isnew := cur_is st LPAREN in
      let st0 := if isnew then set_nesting st (ps_nesting st + 1) else st in
      let '(cs, st1) := pull_comments st0 in
      do r <- parse_node f st1 (Some isnew) cs ;;
      let '(child, st2) := r in
      children_loop f st2 true false (kids ++ [child]).
Proof. reflexivity. Qed.

(* the statement proved by induction on the tree *)
Definition Pnode (t : ntree) : Prop :=
  forall f ftxt fq rest e n b seen m Y io K,
    wf t = true -> (need t <= f)%nat ->
    Minv m -> (forall x, In x seen -> (x < length (m_ns m))%nat) ->
    NoDup (map lower (m_ns m ++ taxa_order t ++ Y)) ->
    (io = None \/ io = Some (negb (is_leafb t))) ->
    HKt ftxt rest e n K ->
    parse_node f (ST (wtoks true t ++ T ftxt fq :: rest) e (n + paren t) b seen m) io []
    = Ok (fst (expect t (length (m_ns m))),
          K (seen_after (length (m_ns m)) (length (taxa_order t)) seen) (add_taxa m (taxa_order t))).

Lemma comma_loop_exit f s tl e n b seen m kids :
  cur_is (St s tl e n b seen m) COMMA = false ->
  comma_loop L (S f) (St s tl e n b seen m) kids = Ok (kids, St s tl e n b seen m).
Proof. intro H. cbn [comma_loop]. rewrite H. reflexivity. Qed.

(* one child in the `else` branch of the children loop *)
Lemma child_step k tl f e n b seen m Y created count0 acc c rest :
  Pnode k -> wf k = true -> (need k <= f)%nat ->
  Minv m -> (forall x, In x seen -> (x < length (m_ns m))%nat) ->
  NoDup (map lower (m_ns m ++ taxa_order k ++ Y)) ->
  tl = T [c] false :: rest -> (c = COMMA \/ c = RPAREN) ->
  children_loop (S f) (ST (wtoks true k ++ tl) e n b seen m) created count0 acc
  = children_loop f (St [c] rest e n false (seen_after (length (m_ns m)) (length (taxa_order k)) seen)
                        (add_taxa m (taxa_order k)))
                  true false (acc ++ [fst (expect k (length (m_ns m)))]).
Proof.
  intros HP Hwf Hf Hm Hseen Hnd Etl Hc. subst tl.
  destruct (wtoks_head k Hwf) as [s [q [rest' [Ew Hcur]]]].
  pose proof (HP f [c] false rest e n b seen m Y (Some (negb (is_leafb k)))
                 (fun seen m => St [c] rest e n false seen m) Hwf Hf Hm Hseen Hnd (or_intror eq_refl)
                 (HK_follow c rest e n Hc)) as HPk.
  rewrite Ew in *. simpl app in *. cbn [ST t_text T] in *.
  destruct (Hcur e n b seen m (rest' ++ T [c] false :: rest)) as [C1 [C2 [C3 C4]]].
  rewrite children_loop_S. rewrite C1, C2, C4. cbv iota zeta.
  assert (Est : (if negb (is_leafb k)
                 then set_nesting (St s (rest' ++ T [c] false :: rest) e n b seen m)
                        (ps_nesting (St s (rest' ++ T [c] false :: rest) e n b seen m) + 1)
                 else St s (rest' ++ T [c] false :: rest) e n b seen m)
                = St s (rest' ++ T [c] false :: rest) e (n + paren k) b seen m).
  { destruct k as [tx lb ln [|k1 ks]]; simpl; unfold St, set_nesting; simpl; [rewrite Z.add_0_r|]; reflexivity. }
  rewrite Est. rewrite pull_St. rewrite HPk. reflexivity.
Qed.

Lemma children_sep : forall ks, Forall Pnode ks ->
  forall F s q rest e n seen m Y acc,
    forallb wf ks = true -> (4 * nsizes ks + 2 <= F)%nat ->
    Minv m -> (forall x, In x seen -> (x < length (m_ns m))%nat) ->
    NoDup (map lower (m_ns m ++ flat_map taxa_order ks ++ Y)) ->
    children_loop F (ST (flat_map (wtoks false) ks ++ T [RPAREN] false :: T s q :: rest) e (n + 1) false seen m)
                  true false acc
    = Ok (acc ++ fst (expect_list ks (length (m_ns m))),
          St s rest e n false (seen_after (length (m_ns m)) (length (flat_map taxa_order ks)) seen)
             (add_taxa m (flat_map taxa_order ks))).
Proof.
  induction ks as [|k ks IH]; intros HPs F s q rest e n seen m Y acc Hwf HF Hm Hseen Hnd.
  - simpl flat_map. simpl app. cbn [ST t_text T]. destruct F as [|F]; [simpl in HF; lia|].
    rewrite children_loop_S.
    change (cur_is (St [RPAREN] (T s q :: rest) e (n + 1) false seen m) COMMA) with false.
    change (cur_is (St [RPAREN] (T s q :: rest) e (n + 1) false seen m) RPAREN) with true.
    cbv iota. unfold set_nesting, St. cbn [ps_cur ps_eof ps_comments ps_toks ps_end ps_nesting ps_complete ps_seen ps_map].
    replace (n + 1 - 1) with n by lia.
    change (require_next (mkPS (Some [RPAREN]) false [] (T s q :: rest) e n false seen m))
      with (Ok (St s rest e n false seen m)).
    cbn [bind expect_list fst]. rewrite app_nil_r. reflexivity.
  - inversion HPs as [|? ? HPk HPr]; subst. simpl in Hwf. apply andb_true_iff in Hwf. destruct Hwf as [Hk Hr].
    rewrite nsizes_cons in HF. pose proof (nsize_pos k) as Hpos.
    cbn [flat_map] in Hnd. rewrite <- app_assoc in Hnd.
    cbn [flat_map]. rewrite wtoks_false. rewrite <- !app_assoc. simpl app.
    cbn [ST t_text T].
    destruct F as [|[|F]]; try lia.
    (* the ',' branch *)
    rewrite children_loop_S.
    change (cur_is (St [COMMA] ((wtoks true k ++ flat_map (wtoks false) ks ++ T [RPAREN] false :: T s q :: rest)) e (n + 1) false seen m) COMMA) with true.
    cbv iota.
    destruct (wtoks_head k Hk) as [s1 [q1 [rest1 [Ew Hcur]]]].
    rewrite Ew. simpl app. rewrite require_next_T. cbn [bind].
    destruct (Hcur e (n + 1) false seen m (rest1 ++ flat_map (wtoks false) ks ++ T [RPAREN] false :: T s q :: rest)) as [C1 [C2 [C3 C4]]].
    rewrite (comma_loop_exit F _ _ _ _ _ _ _ _ C1). cbn [bind]. rewrite C2, andb_false_r.
    (* the child *)
    destruct (kids_tail_head ks (T s q :: rest)) as [c [rest2 [Etl Hc]]].
    change (St s1 (rest1 ++ flat_map (wtoks false) ks ++ T [RPAREN] false :: T s q :: rest) e (n + 1) false seen m)
      with (ST ((T s1 q1 :: rest1) ++ flat_map (wtoks false) ks ++ T [RPAREN] false :: T s q :: rest) e (n + 1) false seen m).
    rewrite <- Ew.
    rewrite (child_step k _ F e (n + 1) false seen m (flat_map taxa_order ks ++ Y) true false acc c rest2 HPk Hk);
      [| unfold need; lia | exact Hm | exact Hseen | exact Hnd | exact Etl | exact Hc].
    (* the remaining children *)
    change (St [c] rest2 e (n + 1) false (seen_after (length (m_ns m)) (length (taxa_order k)) seen) (add_taxa m (taxa_order k)))
      with (ST (T [c] false :: rest2) e (n + 1) false (seen_after (length (m_ns m)) (length (taxa_order k)) seen) (add_taxa m (taxa_order k))).
    rewrite <- Etl.
    rewrite (IH HPr F s q rest e n _ (add_taxa m (taxa_order k)) Y _ Hr).
    + rewrite add_taxa_ns, app_length. cbn [expect_list].
      pose proof (expect_count k (length (m_ns m))) as Hcnt.
      destruct (expect k (length (m_ns m))) as [pk j]. simpl in Hcnt. subst j. cbn [fst].
      destruct (expect_list ks (length (m_ns m) + length (taxa_order k))) as [pks j2]. cbn [fst].
      rewrite <- app_assoc. simpl app.
      rewrite seen_after_add. rewrite <- add_taxa_app. rewrite <- app_length. reflexivity.
    + lia.
    + apply Minv_add_taxa. exact Hm.
    + rewrite add_taxa_ns, app_length. apply seen_after_bound; [intros x Hx; specialize (Hseen x Hx); lia | lia].
    + rewrite add_taxa_ns. rewrite <- !app_assoc in *. exact Hnd.
Qed.

Lemma Pnode_all : forall t, Pnode t.
Proof.
  induction t as [tx lb ln ks IH] using ntree_ind'.
  intros f ftxt fq rest e n b seen m Y io K Hwf Hf Hm Hseen Hnd Hio HK.
  pose proof (wf_unfold L o _ _ _ _ Hwf) as [Hl [_ Hk]]. pose proof (wf_shape L o _ _ _ _ Hwf) as Hs.
  unfold need in Hf. rewrite nsize_eq in Hf. destruct f as [|f]; [lia|].
  rewrite taxa_order_unfold in *. rewrite expect_unfold.
  destruct ks as [|k ks].
  - (* leaf *)
    cbn [C02Lex.wtoks]. simpl app. cbn [paren flat_map expect_list app length]. rewrite Z.add_0_r.
    destruct (wtoks_head (Nd tx lb ln []) Hwf) as [s [q [rest' [Ew Hcur]]]].
    cbn [C02Lex.wtoks] in Ew. simpl app in Ew.
    rewrite parse_node_S.
    assert (E1 : pull_comments (ST (body_toks (Nd tx lb ln []) ++ T ftxt fq :: rest) e n b seen m)
                 = ([], ST (body_toks (Nd tx lb ln []) ++ T ftxt fq :: rest) e n b seen m)).
    { rewrite Ew. reflexivity. }
    rewrite E1.
    assert (E2 : cur_is (ST (body_toks (Nd tx lb ln []) ++ T ftxt fq :: rest) e n b seen m) LPAREN = false).
    { rewrite Ew. simpl app. cbn [ST t_text T]. apply Hcur. }
    rewrite E2. cbn [bind].
    assert (E3 : set_complete (ST (body_toks (Nd tx lb ln []) ++ T ftxt fq :: rest) e n b seen m) false
                 = ST (body_toks (Nd tx lb ln []) ++ T ftxt fq :: rest) e n false seen m).
    { rewrite Ew. reflexivity. }
    rewrite E3.
    assert (Eint : match io with Some b0 => b0 | None => negb (is_nil (@nil ptree)) end = negb (is_nil (@nil ntree))).
    { destruct Hio as [E|E]; subst io; reflexivity. }
    rewrite Eint. simpl app.
    rewrite (ll_body tx lb ln [] f ftxt fq rest e n seen m K); [| lia | exact Hl | exact Hs | exact Hm | exact Hseen | | exact HK].
    + cbn [bind]. unfold exp_node, finish.
      change (match tx with Some l => [l] | None => [] end) with (own_taxa (Nd tx lb ln [])).
      destruct (own_taxa (Nd tx lb ln [])) as [|l0 r0] eqn:Eo; cbn [fst pn_taxon pn_label pn_len pn_comments n_len]; reflexivity.
    + intros l El. rewrite El in Hnd. simpl in Hnd. apply (nodup_fresh (m_ns m) l Y). exact Hnd.
  - (* internal node *)
    remember (own_taxa (Nd tx lb ln (k :: ks))) as own eqn:Eown.
    cbn [flat_map] in Hnd |- *.
    pose proof (Forall_inv IH) as IHk. pose proof (Forall_inv_tail IH) as IHks. cbv beta in IHk. simpl in Hk. apply andb_true_iff in Hk. destruct Hk as [Hk Hks].
    cbn [C02Lex.wtoks]. simpl app. cbn [paren ST t_text T].
    rewrite parse_node_S. rewrite pull_St.
    change (cur_is (St [LPAREN] ((wtoks true k ++ flat_map (wtoks false) ks ++ T [RPAREN] false :: body_toks (Nd tx lb ln (k :: ks))) ++ T ftxt fq :: rest) e (n + 1) b seen m) LPAREN) with true.
    cbv iota.
    rewrite <- !app_assoc. simpl app.
    destruct (wtoks_head k Hk) as [s1 [q1 [rest1 [Ew Hcur]]]].
    assert (Ereq : require_next (St [LPAREN] (wtoks true k ++ flat_map (wtoks false) ks ++ T [RPAREN] false :: body_toks (Nd tx lb ln (k :: ks)) ++ T ftxt fq :: rest) e (n + 1) b seen m)
                   = Ok (ST (wtoks true k ++ flat_map (wtoks false) ks ++ T [RPAREN] false :: body_toks (Nd tx lb ln (k :: ks)) ++ T ftxt fq :: rest) e (n + 1) b seen m)).
    { rewrite Ew. reflexivity. }
    rewrite Ereq. cbn [bind].
    rewrite nsizes_cons in Hf. pose proof (nsize_pos k) as Hpos.
    destruct f as [|f]; [lia|].
    (* body tokens: expose the token after ')' *)
    destruct (body_toks (Nd tx lb ln (k :: ks)) ++ T ftxt fq :: rest) as [|[s2 q2 cm2 ef2] rest2] eqn:Ebody.
    { destruct (body_toks (Nd tx lb ln (k :: ks))); simpl in Ebody; discriminate. }
    assert (Esh : cm2 = [] /\ ef2 = false).
    { unfold C02Lex.body_toks, tag_toks, T in Ebody. cbn [n_len] in Ebody.
      destruct (tag_of L o (Nd tx lb ln (k :: ks))); destruct ln; simpl in Ebody;
        injection Ebody as _ _ A B _; subst; split; reflexivity. }
    destruct Esh; subst cm2 ef2. change (mkTok s2 q2 [] false) with (T s2 q2) in *.
    destruct (kids_tail_head ks (T s2 q2 :: rest2)) as [c [rest3 [Etl Hc]]].
    rewrite <- !app_assoc in Hnd.
    rewrite (child_step k _ f e (n + 1) b seen m (flat_map taxa_order ks ++ own ++ Y)
                        false true [] c rest3 IHk Hk);
      [| unfold need; lia | exact Hm | exact Hseen | exact Hnd | exact Etl | exact Hc].
    change (St [c] rest3 e (n + 1) false (seen_after (length (m_ns m)) (length (taxa_order k)) seen) (add_taxa m (taxa_order k)))
      with (ST (T [c] false :: rest3) e (n + 1) false (seen_after (length (m_ns m)) (length (taxa_order k)) seen) (add_taxa m (taxa_order k))).
    rewrite <- Etl.
    rewrite (children_sep ks IHks f s2 q2 rest2 e n _ (add_taxa m (taxa_order k)) (own ++ Y) _ Hks);
      [| lia | apply Minv_add_taxa; exact Hm
       | rewrite add_taxa_ns, app_length; apply seen_after_bound; [intros x Hx; specialize (Hseen x Hx); lia | lia]
       | rewrite add_taxa_ns; rewrite <- !app_assoc; exact Hnd].
    cbn [bind]. unfold set_complete, St. cbn [ps_cur ps_eof ps_comments ps_toks ps_end ps_nesting ps_complete ps_seen ps_map].
    fold (St s2 rest2 e n false
             (seen_after (length (m_ns (add_taxa m (taxa_order k)))) (length (flat_map taxa_order ks))
                         (seen_after (length (m_ns m)) (length (taxa_order k)) seen))
             (add_taxa (add_taxa m (taxa_order k)) (flat_map taxa_order ks))).
    change (St s2 rest2 e n false
             (seen_after (length (m_ns (add_taxa m (taxa_order k)))) (length (flat_map taxa_order ks))
                         (seen_after (length (m_ns m)) (length (taxa_order k)) seen))
             (add_taxa (add_taxa m (taxa_order k)) (flat_map taxa_order ks)))
      with (ST (T s2 q2 :: rest2) e n false
             (seen_after (length (m_ns (add_taxa m (taxa_order k)))) (length (flat_map taxa_order ks))
                         (seen_after (length (m_ns m)) (length (taxa_order k)) seen))
             (add_taxa (add_taxa m (taxa_order k)) (flat_map taxa_order ks))).
    rewrite <- Ebody.
    set (m1 := add_taxa (add_taxa m (taxa_order k)) (flat_map taxa_order ks)).
    set (seen1 := seen_after (length (m_ns (add_taxa m (taxa_order k)))) (length (flat_map taxa_order ks))
                         (seen_after (length (m_ns m)) (length (taxa_order k)) seen)).
    assert (Ens1 : m_ns m1 = m_ns m ++ taxa_order k ++ flat_map taxa_order ks).
    { unfold m1. rewrite !add_taxa_ns. rewrite <- app_assoc. reflexivity. }
    match goal with |- context [match io with Some b0 => b0 | None => ?x end] =>
      replace (match io with Some b0 => b0 | None => x end) with (negb (is_nil (k :: ks)))
        by (destruct Hio as [E|E]; subst io; reflexivity) end.
    rewrite (ll_body tx lb ln (k :: ks) (S f) ftxt fq rest e n seen1 m1 K);
      [| lia | exact Hl | exact Hs | apply Minv_add_taxa; apply Minv_add_taxa; exact Hm | | | exact HK].
    + rewrite <- Eown. cbn [bind]. f_equal. f_equal.
      * (* the tree *)
        cbn [expect_list]. rewrite add_taxa_ns, app_length.
        pose proof (expect_count k (length (m_ns m))) as Hcnt.
        destruct (expect k (length (m_ns m))) as [pk j]. simpl in Hcnt. subst j. cbn [fst].
        pose proof (expect_list_count ks (length (m_ns m) + length (taxa_order k))) as Hcnt2.
        destruct (expect_list ks (length (m_ns m) + length (taxa_order k))) as [pks j2]. simpl in Hcnt2. subst j2.
        cbn [fst]. rewrite Ens1. rewrite !app_length.
        unfold exp_node, finish. rewrite <- Eown. simpl app.
        destruct own as [|l0 r0]; cbn [fst pn_taxon pn_label pn_len pn_comments n_len];
          rewrite ?Nat.add_assoc; reflexivity.
      * (* the state *)
        f_equal.
        -- unfold seen1. rewrite add_taxa_ns, app_length. rewrite seen_after_add.
           rewrite Ens1. rewrite !app_length.
           rewrite seen_after_add. rewrite Nat.add_assoc. reflexivity.
        -- unfold m1. rewrite !add_taxa_app. reflexivity.
    + unfold seen1. rewrite Ens1. rewrite add_taxa_ns. rewrite !app_length.
      apply seen_after_bound; [| lia].
      apply seen_after_bound; [intros x Hx; specialize (Hseen x Hx); lia | lia].
    + rewrite <- Eown. intros l El. rewrite El in Hnd. rewrite Ens1.
      replace (m_ns m ++ taxa_order k ++ flat_map taxa_order ks ++ [l] ++ Y)
        with ((m_ns m ++ taxa_order k ++ flat_map taxa_order ks) ++ l :: Y) in Hnd
        by (rewrite <- !app_assoc; reflexivity).
      apply (nodup_fresh _ l Y). exact Hnd.
Qed.

(*PART4*)
(* ---- the whole document ---- *)
Hypothesis len_plain : forall x, render_len x <> [] /\ forallb numeral_char (render_len x) = true.

Lemma wtoks_len : forall t, wf t = true -> (2 * nsize t <= length (wtoks true t) + 1)%nat.
Proof.
  induction t as [tx lb ln ks IH] using ntree_ind'. intro Hwf.
  destruct ks as [|k ks].
  - destruct (wtoks_head _ Hwf) as [s [q [rest [Ew _]]]]. rewrite Ew. simpl. lia.
  - pose proof (wf_unfold L o _ _ _ _ Hwf) as [_ [_ Hk]]. simpl in Hk. apply andb_true_iff in Hk. destruct Hk as [Hk Hks].
    pose proof (Forall_inv IH) as IHk. pose proof (Forall_inv_tail IH) as IHks. cbv beta in IHk.
    cbn [C02Lex.wtoks]. rewrite nsize_eq, nsizes_cons. simpl app. cbn [length]. rewrite !app_length. cbn [length].
    specialize (IHk Hk).
    assert (A : (2 * nsizes ks <= length (flat_map (wtoks false) ks))%nat).
    { clear - IHks Hks. induction ks as [|k2 ks IHl]; [simpl; lia|].
      simpl in Hks. apply andb_true_iff in Hks. destruct Hks as [H2 Hr].
      pose proof (Forall_inv IHks) as I2. pose proof (Forall_inv_tail IHks) as Ir. cbv beta in I2.
      cbn [flat_map]. rewrite nsizes_cons, app_length, wtoks_false. cbn [length].
      specialize (I2 H2). specialize (IHl Hr Ir). lia. }
    lia.
Qed.

Definition K_final (seen : list nat) (m : mapper) : pstate :=
  mkPS None true [] [] (EndEof []) 0 true seen m.

Lemma HK_semi : HKt [SEMI] [] (EndEof []) 0 K_final.
Proof.
  intros isint lp nd f2 seen2 m2 Hf. destruct f2 as [|f2]; [lia|].
  destruct nd as [a b c d]. cbn. rewrite app_nil_r. reflexivity.
Qed.

Lemma process_rooting r :
  process_tree_comments ro (rooting_comments o r) = (expected_rooting o r, []).
Proof.
  unfold rooting_comments, expected_rooting. destruct (rt_sr o); [reflexivity|].
  destruct r as [[|]|]; reflexivity.
Qed.

Notation read_newick := (read_newick L parse_len lower).
Notation tree_iter := (tree_iter L parse_len lower ro).
Notation parse_tree_statement := (parse_tree_statement L parse_len lower ro).

Lemma paren_leafb t : (if negb (is_leafb t) then 1 else 0) = 0 + paren t.
Proof. destruct t as [tx lb ln [|k ks]]; reflexivity. Qed.

Lemma skip_first F s q rc tl e m0 :
  match s with [x] => x =? SEMI | _ => false end = false ->
  skip_semicolons (S (S F)) (mkPS None false [] (mkTok s q rc false :: tl) e 0 false [] m0) []
  = Ok (rc, St s tl e 0 false [] m0).
Proof.
  intro H. unfold St. cbn. destruct s as [|x [|y s]]; try reflexivity. cbn in H. rewrite H. reflexivity.
Qed.

Lemma statement_parse r t F : wf t = true -> NoDup (map lower (taxa_order t)) ->
  (need t <= F)%nat -> (2 <= F)%nat ->
  parse_tree_statement F
    (init_pstate (add_comments (rooting_comments o r) (wtoks true t ++ [T [SEMI] false]), EndEof [])
                 (new_mapper lower [] false false))
  = Ok (Some (mkPR (expected_rooting o r) [] (fst (expect t 0))),
        K_final (seen_after 0 (length (taxa_order t)) []) (add_taxa (new_mapper lower [] false false) (taxa_order t))).
Proof.
  intros Hwf Hnd HF H2. set (m0 := new_mapper lower [] false false).
  destruct (wtoks_head t Hwf) as [s [q [rest [Ew Hcur]]]].
  pose proof (Pnode_all t F [SEMI] false [] (EndEof []) 0 false [] m0 [] None K_final Hwf HF Minv_new
                (fun x (H : In x []) => match H with end)) as HP.
  rewrite app_nil_r in HP. specialize (HP Hnd (or_introl eq_refl) HK_semi).
  destruct (Hcur (EndEof []) 0 false [] m0 (rest ++ [T [SEMI] false])) as [C1 [C2 [C3 C4]]].
  unfold Newick.parse_tree_statement. rewrite Ew in *. simpl app in *.
  unfold add_comments. cbn [t_text t_quoted t_comments t_eof T]. rewrite app_nil_r.
  change (pull_comments (init_pstate (mkTok s q (rooting_comments o r) false :: rest ++ [T [SEMI] false], EndEof []) m0))
    with (@nil str, mkPS None false [] (mkTok s q (rooting_comments o r) false :: rest ++ [T [SEMI] false]) (EndEof []) 0 false [] m0).
  destruct F as [|[|F]]; try lia.
  rewrite skip_first by exact C3. cbn [bind].
  change (ps_eof (St s (rest ++ [T [SEMI] false]) (EndEof []) 0 false [] m0)) with false. cbv iota.
  rewrite C4. rewrite process_rooting.
  change (set_seen_map (set_complete (set_nesting (St s (rest ++ [T [SEMI] false]) (EndEof []) 0 false [] m0)
                                                  (if negb (is_leafb t) then 1 else 0)) false) []
                       (ps_map (set_nesting (St s (rest ++ [T [SEMI] false]) (EndEof []) 0 false [] m0)
                                            (if negb (is_leafb t) then 1 else 0))))
    with (St s (rest ++ [T [SEMI] false]) (EndEof []) (if negb (is_leafb t) then 1 else 0) false [] m0).
  rewrite paren_leafb.
  cbn [ST t_text T] in HP. rewrite HP. cbn [bind]. reflexivity.
Qed.

Theorem newick_roundtrip_expect : forall (r : option bool) (t : ntree),
  wf t = true -> NoDup (map lower (taxa_order t)) ->
  read_newick ro [] (write_tree_list L render_len (rt_wopts o) [(r, t)])
  = Ok ([mkPR (expected_rooting o r) [] (fst (expect t 0))], taxa_order t).
Proof.
  intros r t Hwf Hnd. unfold Newick.read_newick.
  change (ro_preserve_underscores ro) with (rt_pu o).
  change (ro_case_sensitive_taxon_labels ro) with false.
  rewrite (tokenize_write_tree L render_len len_plain o r t Hwf). cbn [fst snd].
  set (toks := add_comments (rooting_comments o r) (wtoks true t ++ [T [SEMI] false])).
  assert (Hlen : length toks = S (length (wtoks true t))).
  { unfold toks. destruct (wtoks_head t Hwf) as [s [q [rest [Ew _]]]]. rewrite Ew. simpl. rewrite app_length. simpl. lia. }
  pose proof (wtoks_len t Hwf) as Hl.
  assert (HF : (need t <= reader_fuel toks)%nat) by (unfold need, reader_fuel; lia).
  assert (H2 : (2 <= reader_fuel toks)%nat) by (unfold reader_fuel; lia).
  remember (reader_fuel toks) as F eqn:EF. clear EF. subst toks.
  destruct F as [|[|F]]; try lia.
  cbn [Newick.tree_iter].
  rewrite (statement_parse r t (S (S F)) Hwf Hnd HF H2). cbn [bind app].
  (* the next statement: end of stream *)
  unfold Newick.parse_tree_statement, K_final.
  cbn [pull_comments ps_comments set_tok ps_cur ps_eof ps_toks ps_end skip_semicolons cur_is orb andb negb bind].
  cbn [ps_eof set_tok]. cbv iota. cbn [bind fst snd ps_map]. unfold set_tok. cbn [ps_map].
  rewrite add_taxa_ns. reflexivity.
Qed.

(*PART5*)
End Parse.
