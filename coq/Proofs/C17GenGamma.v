(* C17: the generated pybus_harvey_gamma (Gen/Ages.v) equals the hand-written model *)
From Coq Require Import ZArith QArith List Bool Lia ZifyBool.
From DV Require Import Model.PyPrims Model.Tree Model.C17Model Model.C17Prims Gen.Ages.
From DV Require Import Proofs.C17Ages Proofs.C17AgesThm Proofs.C17Depth Proofs.C17Stats Proofs.C17Perm Proofs.C17Gamma
     Proofs.C17GenLib Proofs.C17GenAges.
Import ListNotations.
Open Scope Z_scope.

Fixpoint lastn (L : list node) (d : option node) : option node :=
  match L with [] => d | x :: r => lastn r (Some x) end.

Lemma lastn_some L d : L <> [] -> py_is_none (lastn L d) = false.
Proof.
  intro H. destruct L as [|x r]; [contradiction|]. cbn [lastn]. clear H. revert x. induction r as [|y r IH]; intro x; [reflexivity|].
  cbn [lastn]. apply IH.
Qed.

Section Gamma.
Variables (w : tr) (pv : precv) (t0 : tree).

(* collecting the speciation ages *)
Lemma spec_loop st (f : tree -> Z) (L : list node) :
  (forall nd, In nd L -> s_age st (n_id nd) = Some (f (n_sub nd))) ->
  forall n sp last,
  py_for L (g_pybus_harvey_gamma_loop1 w pv t0 st) (n, sp, last)
  = XOk (n + Z.of_nat (length (filter (fun v => negb (bin_t v)) (map n_sub L))),
         sp ++ map Some (map f (filter bin_t (map n_sub L))), lastn L last).
Proof.
  induction L as [|nd r IH]; intros H n sp last.
  - cbn. rewrite app_nil_r. repeat (f_equal; try lia).
  - cbn [py_for]. unfold g_pybus_harvey_gamma_loop1 at 1. cbv beta iota zeta.
    assert (Eb : (py_len (py_child_nodes nd) =? 2) = bin_t (n_sub nd)).
    { unfold py_child_nodes, bin_t. rewrite py_len_map. unfold py_len. destruct (length (t_kids (n_sub nd)) =? 2)%nat eqn:E; lia. }
    rewrite Eb. unfold py_age. rewrite (H nd (or_introl eq_refl)). cbn [map filter lastn].
    destruct (bin_t (n_sub nd)); cbn [xbind negb]; rewrite IH by (intros nd' Hnd'; apply H; right; exact Hnd').
    + unfold py_append. cbn [map]. rewrite <- app_assoc. reflexivity.
    + cbn [length]. repeat (f_equal; try lia).
Qed.

Lemma all_nums_some l : py_all_nums (map Some l) = XOk l.
Proof. induction l as [|x l IH]; [reflexivity|]. cbn. rewrite IH. reflexivity. Qed.

(* g from the sorted ages *)
Lemma wait_loop rest : forall g0 older,
  exists diffs final, py_for rest (g_pybus_harvey_gamma_loop2 w pv t0) (g0, older) = XOk (g0 ++ diffs, final)
    /\ diffs ++ [final] = waiting_times older rest.
Proof.
  induction rest as [|a r IH]; intros g0 older.
  - exists [], older. split; [cbn; rewrite app_nil_r; reflexivity | reflexivity].
  - cbn [py_for]. unfold g_pybus_harvey_gamma_loop2 at 1. cbv beta iota zeta. cbn [xbind].
    destruct (IH (py_append g0 (older - a)) a) as [diffs [final [E Hd]]]. exists ((older - a) :: diffs), final. split.
    + rewrite E. unfold py_append. rewrite <- app_assoc. reflexivity.
    + cbn [app waiting_times]. rewrite Hd. reflexivity.
Qed.

(* the T / accum loop *)
Lemma py_index_mid {A} (pre : list A) x rest : py_index (pre ++ x :: rest) (Z.of_nat (length pre)) = XOk x.
Proof.
  unfold py_index. destruct (Z.of_nat (length pre) <? 0) eqn:E; [lia|]. rewrite Nat2Z.id.
  rewrite nth_error_app2 by lia. rewrite Nat.sub_diag. reflexivity.
Qed.

Lemma acc_loop g' : forall pre tail T acc,
  py_for (zrange_from (2 + Z.of_nat (length pre)) (length g')) (g_pybus_harvey_gamma_loop3 w pv t0 (pre ++ g' ++ tail)) (T, acc)
  = XOk (gamma_loop (2 + Z.of_nat (length pre)) g' T acc).
Proof.
  induction g' as [|x r IH]; intros pre tail T acc; [reflexivity|].
  cbn [length zrange_from py_for gamma_loop]. unfold g_pybus_harvey_gamma_loop3 at 1. cbv beta iota zeta.
  replace (2 + Z.of_nat (length pre) - 2) with (Z.of_nat (length pre)) by lia.
  change ((x :: r) ++ tail) with (x :: r ++ tail). rewrite py_index_mid. cbn [xbind].
  specialize (IH (pre ++ [x]) tail (T + (2 + Z.of_nat (length pre)) * x) (acc + (T + (2 + Z.of_nat (length pre)) * x))).
  rewrite app_length in IH. cbn [length] in IH. replace (2 + Z.of_nat (length pre + 1)) with (2 + Z.of_nat (length pre) + 1) in IH by lia.
  rewrite <- app_assoc in IH. cbn [app] in IH. exact IH.
Qed.

Lemma Qeq_bool_mult_0 a s : Qeq_bool s 0 = false -> Qeq_bool (inject_Z a * s) 0 = (a =? 0).
Proof.
  intro Hs. destruct (a =? 0) eqn:Ea.
  - apply Qeq_bool_iff. assert (a = 0) by lia. subst. ring.
  - apply not_true_iff_false. intro H. apply Qeq_bool_iff in H. apply Qmult_integral in H. destruct H as [H | H].
    + unfold Qeq, inject_Z in H. cbn in H. lia.
    + apply not_true_iff_false in Hs. apply Hs. apply Qeq_bool_iff. exact H.
Qed.

End Gamma.

Lemma postorder_in_preorder t v : In v (postorder t) -> In v (preorder t).
Proof.
  revert v. induction t as [i x l e ks IH] using tree_ind'. intros v H. rewrite Forall_forall in IH.
  cbn [postorder] in H. apply in_app_or in H. destruct H as [H | [<- | []]]; [|apply in_preorder_self].
  apply in_flat_map in H. destruct H as [k [Hk Hv]]. eapply in_preorder_kid; [exact Hk | apply IH; assumption].
Qed.

Lemma post_under_nonempty anc t : post_under anc t <> [].
Proof. rewrite post_under_unfold. intro H. apply app_eq_nil in H. destruct H as [_ H]. discriminate. Qed.

(* everything after the ages are known *)
Lemma gamma_join w pv st (f : tree -> Z) m t :
  Qeq_bool (sqrt_f w) 0 = false ->
  (forall v, In v (preorder t) -> s_age st (t_id v) = Some (f v)) ->
  g_pybus_harvey_gamma_join1 w pv t 0 st
  = match gamma_of_ages (annot f m false t) with
    | Ok p => XOk (st, gamma_value w p)
    | Err e => XErr (Py e)
    | OutOfFuel => XErr (Py OtherErr)
    end.
Proof.
  intros Hs Hages. unfold g_pybus_harvey_gamma_join1. cbv beta.
  rewrite (spec_loop w pv t st f (py_postorder_nodes t)).
  2:{ intros nd Hnd. unfold n_id. apply Hages. apply postorder_in_preorder.
      unfold py_postorder_nodes in Hnd. rewrite <- (post_under_subs [] t). apply in_map. exact Hnd. }
  cbn [xbind app]. unfold py_postorder_nodes. rewrite post_under_subs, Z.add_0_l.
  rewrite (lastn_some _ None (post_under_nonempty [] t)).
  rewrite all_nums_some. cbn [xbind].
  unfold gamma_of_ages. fold (spec_ages (annot f m false t)) (other_nodes (annot f m false t)).
  rewrite spec_ages_annot, other_nodes_annot. unfold py_sort_desc.
  set (n := Z.of_nat (length (filter (fun v => negb (bin_t v)) (postorder t)))).
  destruct (sort_desc (map f (filter bin_t (postorder t)))) as [|older rest]; [reflexivity|].
  rewrite py_index_0'. cbn [xbind]. change (py_slice_from (older :: rest) 1) with rest.
  destruct (wait_loop w pv t rest [] older) as [diffs [final [E Hd]]]. rewrite E. cbn [xbind app].
  change (py_append diffs final) with (diffs ++ [final]). rewrite Hd. set (g := waiting_times older rest) in *.
  assert (Hg : g <> []) by (unfold g; destruct rest; discriminate).
  assert (Hlen0 : (py_len g =? 0) = false) by (unfold py_len; destruct g; [contradiction | cbn [length]; lia]).
  rewrite Hlen0. cbn [negb]. unfold py_len.
  destruct (Z.of_nat (length g) =? n - 1) eqn:El; cbn [negb]; [|reflexivity].
  (* the loop over range(2, n) *)
  assert (Eg : g = removelast g ++ [last g 0]) by (apply app_removelast_last; exact Hg).
  assert (Hlen1 : (1 <= length g)%nat) by (destruct g; [contradiction | cbn [length]; lia]).
  assert (Lr : length (removelast g) = Z.to_nat (n - 2)) by (rewrite removelast_length; lia).
  unfold py_range. rewrite <- Lr.
  pose proof (acc_loop w pv t (removelast g) [] [last g 0] 0 0) as HA. cbn [length app] in HA. rewrite Z.add_0_r in HA.
  rewrite <- Eg in HA. rewrite HA. cbn [xbind].
  destruct (gamma_loop 2 (removelast g) 0 0) as [T0 accum].
  assert (Ei : py_index g (n - 2) = XOk (last g 0)).
  { rewrite Eg at 1. replace (n - 2) with (Z.of_nat (length (removelast g))) by (rewrite Lr; lia). apply py_index_mid. }
  rewrite Ei. cbn [xbind].
  unfold py_div at 1. rewrite Qeq_bool_inject_0.
  destruct (n - 2 =? 0) eqn:E2; [reflexivity|]. cbn [xbind].
  unfold py_div at 1. replace (Qeq_bool (inject_Z 2) 0) with false by reflexivity. cbn [xbind].
  unfold py_div at 1. rewrite Qeq_bool_inject_0. replace (12 * (n - 2) =? 0) with false by lia. cbn [xbind].
  unfold py_pow. replace (Qeq_bool (1 # 2) (3 # 2)) with false by reflexivity.
  unfold py_div. rewrite (Qeq_bool_mult_0 _ _ Hs).
  destruct (T0 + n * last g 0 =? 0); reflexivity.
Qed.

Lemma g_gamma_eq_l : forall w pv t st,
  Qeq_bool (sqrt_f w) 0 = false ->
  s_age st (t_id t) = None -> lens_agree st t -> NoDup (ids t) ->
  match pybus_harvey_gamma pv t with
  | GOk p => exists st', g_pybus_harvey_gamma w pv t st = XOk (st', gamma_value w p)
  | GAgeErr e => g_pybus_harvey_gamma w pv t st = XErr e
  | GErr e => g_pybus_harvey_gamma w pv t st = XErr (Py e)
  end.
Proof.
  intros w pv t st Hs Hroot Hl Hnd. unfold g_pybus_harvey_gamma. cbv zeta.
  unfold py_age, py_seed, n_id. cbn [n_sub]. rewrite Hroot. cbn [py_is_none].
  unfold pybus_harvey_gamma, pybus_harvey_gamma_v, calc_node_ages_v, calc_node_ages. cbn [c_fmax c_fmin andb].
  unfold g_calc_node_ages. cbn [andb].
  pose proof (calc_okb pv false false t eq_refl) as HM. cbv zeta in HM.
  pose proof (gen_ages_sub pv false false false t eq_refl t [] st [] Hl Hnd) as HG. unfold py_postorder_nodes.
  destruct (okb (mkCfg pv false false) t).
  - rewrite HM. destruct HG as [st' [E [Ha _]]]. rewrite E. cbn [xbind].
    rewrite (gamma_join w pv st' (fage (mkCfg pv false false)) (mode_of (mkCfg pv false false)) t Hs Ha).
    destruct (gamma_of_ages (annot (fage (mkCfg pv false false)) (mode_of (mkCfg pv false false)) false t)) as [p| |]; try reflexivity.
    exists st'. reflexivity.
  - destruct HM as [n ->]. rewrite HG. reflexivity.
Qed.
