(* C18 - translator tie: contained_coalescent_tree GENERATED from the Python source (Gen/Sim.v:
   two passes over the post-order of the containing tree with a dictionary keyed by node) equals
   the model's recursive walk cc_run, for containing trees whose node identities are distinct *)
From Coq Require Import QArith Lqa List Bool Arith Lia Permutation.
From DV Require Import Model.C18Model Model.C18Prims Proofs.C18Lists Proofs.C18Monad Proofs.C18Coal
  Proofs.C18CC Proofs.C18GenCoal Proofs.C18GenBD Gen.Sim.
From DV Require Model.PyPrims.
Import ListNotations.
Open Scope nat_scope.

(* node identities, in post-order *)
Definition sids (s : stree) : list nat := map s_id (s_post s).

Lemma sids_node : forall i g l p ks, sids (SN i g l p ks) = flat_map sids ks ++ [i].
Proof.
  intros. unfold sids. cbn [s_post]. rewrite map_app. cbn [map s_id]. f_equal.
  induction ks as [|k r IH]; [reflexivity|]. cbn [flat_map]. rewrite map_app, IH. reflexivity.
Qed.

Definition mk (x : nat) : gtree := G (Some x) None [].

(* pop_node_genes[nd] after the first pass *)
Definition own (s : stree) : option (list gtree) :=
  match s with SN _ (Some l) _ _ _ => Some (map mk l) | _ => None end.
Definition dflt (o : option (list gtree)) : list gtree := match o with Some l => l | None => [] end.

Lemma d_get_set_same {V} : forall (d : list (nat * V)) k v, d_get (d_set d k v) k = Some v.
Proof. intros. unfold d_set. cbn [d_get]. rewrite Nat.eqb_refl. reflexivity. Qed.

Lemma d_get_set_other {V} : forall (d : list (nat * V)) k v k', k' <> k -> d_get (d_set d k v) k' = d_get d k'.
Proof.
  intros d k v k' H. unfold d_set. cbn [d_get]. destruct (k =? k') eqn:E; [|reflexivity].
  apply Nat.eqb_eq in E. congruence.
Qed.

Lemma bnd_unf {A B} (m : M A) (k : A -> M B) r :
  bnd m k r = match m r with
              | Done a r' => k a r'
              | Exhausted => Exhausted
              | BadScript => BadScript
              | PyErr e => PyErr e
              | NoFuel => NoFuel
              end.
Proof. reflexivity. Qed.

(* y follows x: same error, or the continuation K of the value *)
Definition follows {A B} (x : sres A) (y : sres B) (K : A -> rs -> Prop) : Prop :=
  match x with
  | Done a r' => K a r'
  | Exhausted => y = Exhausted
  | BadScript => y = BadScript
  | PyErr e => y = PyErr e
  | NoFuel => y = NoFuel
  end.

(* ---------------- first pass: gene nodes of the tips ---------------- *)

Lemma gen_cc_inner : forall l nd d cur r, d_get d (s_id nd) = Some cur ->
  exists d', py_forM (gen_contained_coalescent_tree_forM1 nd) l d r = Done (CNext (R := Empty_set) d') r /\
             d_get d' (s_id nd) = Some (cur ++ map mk l) /\
             (forall k, k <> s_id nd -> d_get d' k = d_get d k).
Proof.
  induction l as [|x l IH]; intros nd d cur r Hd.
  - exists d. cbn [py_forM map]. rewrite app_nil_r. auto.
  - cbn [py_forM]. unfold gen_contained_coalescent_tree_forM1 at 1. cbv beta iota zeta.
    unfold py_dict_get. rewrite Hd. unfold bnd at 2. unfold ret at 1. unfold bnd at 1. unfold ret at 1.
    destruct (IH nd (d_set d (s_id nd) (cur ++ [g_set_tax (g_new None) (Some x)])) (cur ++ [mk x]) r) as (d' & E & G1 & G2).
    { apply d_get_set_same. }
    exists d'. split; [exact E|]. split.
    + rewrite G1. cbn [map]. rewrite <- app_assoc. reflexivity.
    + intros k Hk. rewrite (G2 k Hk). apply d_get_set_other. exact Hk.
Qed.

Lemma gen_cc_init : forall L d r, NoDup (map s_id L) ->
  (forall n, In n L -> d_get d (s_id n) = None) ->
  exists d', py_forM gen_contained_coalescent_tree_forM3 L d r = Done (CNext (R := Empty_set) d') r /\
             (forall n, In n L -> d_get d' (s_id n) = own n) /\
             (forall k, ~ In k (map s_id L) -> d_get d' k = d_get d k).
Proof.
  induction L as [|n0 L IH]; intros d r Hn Hd.
  - exists d. cbn [py_forM]. split; [reflexivity|]. split; [intros n []|auto].
  - cbn [map] in Hn. inversion Hn as [|? ? Hn0 HnL]; subst.
    assert (Step : exists d1, gen_contained_coalescent_tree_forM3 d n0 r = Done (CNext (R := Empty_set) d1) r /\
                              d_get d1 (s_id n0) = own n0 /\ (forall k, k <> s_id n0 -> d_get d1 k = d_get d k)).
    { unfold gen_contained_coalescent_tree_forM3. cbv beta iota zeta.
      destruct n0 as [i [gl|] l p ks]; cbn [s_has_genes s_own s_id own].
      - destruct (gen_cc_inner gl (SN i (Some gl) l p ks) (d_set d i []) [] r) as (d1 & E & G1 & G2).
        { apply d_get_set_same. }
        cbn [s_id] in *. exists d1. split; [|split].
        + unfold bnd. rewrite E. reflexivity.
        + rewrite G1. reflexivity.
        + intros k Hk. rewrite (G2 k Hk). apply d_get_set_other. exact Hk.
      - exists d. split; [reflexivity|]. split; [|auto]. apply (Hd (SN i None l p ks)). left. reflexivity. }
    destruct Step as (d1 & E1 & O1 & U1).
    destruct (IH d1 r HnL) as (d' & E & G1 & G2).
    { intros n Hn'. rewrite U1.
      - apply Hd. right. exact Hn'.
      - intro Hc. apply Hn0. rewrite <- Hc. apply in_map. exact Hn'. }
    exists d'. split; [|split].
    + cbn [py_forM]. unfold bnd. rewrite E1. exact E.
    + intros n [<-|Hn']; [|apply G1; exact Hn']. rewrite (G2 _ Hn0). exact O1.
    + intros k Hk. cbn [map In] in Hk. rewrite G2 by tauto. apply U1. intro Hc. apply Hk. left. congruence.
Qed.

(* ---------------- second pass: one edge ---------------- *)

Lemma gen_cc_edge : forall s pid d gt r,
  follows (edge_coal s (d_get d (s_id s)) r)
          (gen_contained_coalescent_tree_forM2 (gt, d) (s, Some pid) r)
          (fun u r' => exists d2,
             gen_contained_coalescent_tree_forM2 (gt, d) (s, Some pid) r = Done (CNext (R := Empty_set) (gt, d2)) r' /\
             d_get d2 pid = Some (dflt (d_get d pid) ++ u) /\
             (forall k, k <> pid -> d_get d2 k = d_get d k)).
Proof.
  intros s pid d gt r. remember (gen_contained_coalescent_tree_forM2 (gt, d) (s, Some pid) r) as Y eqn:EY.
  unfold gen_contained_coalescent_tree_forM2 in EY. cbv beta iota zeta in EY. cbn [fst snd py_is_none py_unwrap_n] in EY.
  unfold py_dict_get at 1 in EY. unfold edge_coal.
  destruct (d_get d (s_id s)) as [nodes|]; [|exact EY].
  unfold bnd at 1 in EY. unfold ret at 1 in EY. unfold bnd at 1 in EY. rewrite gen_coalesce_nodes_eq in EY.
  destruct (coalesce_nodes (s_pop s) (s_len s) nodes r) as [u r'| | | |]; cbn [follows]; try exact EY.
  unfold d_has, py_dict_get in EY.
  destruct (d_get d pid) as [cur|] eqn:Ep; cbn [negb dflt] in *.
  - rewrite Ep in EY. unfold bnd, ret in EY. eexists. split; [exact EY|]. split; [apply d_get_set_same|].
    intros k Hk. apply d_get_set_other. exact Hk.
  - rewrite d_get_set_same in EY. unfold bnd, ret in EY. eexists. split; [exact EY|]. split; [apply d_get_set_same|].
    intros k Hk. rewrite d_get_set_other by exact Hk. apply d_get_set_other. exact Hk.
Qed.

(* ---------------- second pass: a subtree hands its lineages to the parent ---------------- *)

Definition Pwalk (s : stree) : Prop :=
  forall pid rest d gt r, NoDup (sids s) -> ~ In pid (sids s) ->
    (forall n, In n (s_post s) -> d_get d (s_id n) = own n) ->
    follows (bnd (cc_pool s) (edge_coal s) r)
            (py_forM gen_contained_coalescent_tree_forM2 (s_post_edges (Some pid) s ++ rest) (gt, d) r)
            (fun u r' => exists d',
               py_forM gen_contained_coalescent_tree_forM2 (s_post_edges (Some pid) s ++ rest) (gt, d) r =
               py_forM gen_contained_coalescent_tree_forM2 rest (gt, d') r' /\
               d_get d' pid = Some (dflt (d_get d pid) ++ u) /\
               (forall k, k <> pid -> ~ In k (sids s) -> d_get d' k = d_get d k)).

Lemma NoDup_app_l {A} : forall (a b : list A), NoDup (a ++ b) -> NoDup a.
Proof. intros a b H. apply NoDup_app_iff in H. tauto. Qed.
Lemma NoDup_app_r {A} : forall (a b : list A), NoDup (a ++ b) -> NoDup b.
Proof. intros a b H. apply NoDup_app_iff in H. tauto. Qed.
Lemma NoDup_app_disj {A} : forall (a b : list A) x, NoDup (a ++ b) -> In x a -> ~ In x b.
Proof. intros a b x H. apply NoDup_app_iff in H. destruct H as (_ & _ & H). apply H. Qed.

Lemma gen_cc_kids : forall ks, Forall Pwalk ks ->
  forall i rest d gt r, NoDup (flat_map sids ks) -> ~ In i (flat_map sids ks) ->
    (forall k n, In k ks -> In n (s_post k) -> d_get d (s_id n) = own n) ->
    follows (cc_kids ks r)
            (py_forM gen_contained_coalescent_tree_forM2 (flat_map (s_post_edges (Some i)) ks ++ rest) (gt, d) r)
            (fun b r' => exists d',
               py_forM gen_contained_coalescent_tree_forM2 (flat_map (s_post_edges (Some i)) ks ++ rest) (gt, d) r =
               py_forM gen_contained_coalescent_tree_forM2 rest (gt, d') r' /\
               d_get d' i = match ks with [] => d_get d i | _ => Some (dflt (d_get d i) ++ b) end /\
               (forall k, k <> i -> ~ In k (flat_map sids ks) -> d_get d' k = d_get d k)).
Proof.
  induction ks as [|k ks IH]; intros HP i rest d gt r Hn Hi Hd.
  - cbn [cc_kids flat_map app]. unfold ret. cbn [follows]. exists d. auto.
  - inversion HP as [|? ? Pk Pks]; subst. cbn [flat_map] in *. rewrite <- app_assoc.
    assert (Ek : cc_kids (k :: ks) r =
                 bnd (bnd (cc_pool k) (edge_coal k)) (fun u => bnd (cc_kids ks) (fun b => ret (u ++ b))) r).
    { cbn [cc_kids]. rewrite bnd_assoc. reflexivity. }
    rewrite Ek. clear Ek.
    assert (Hik : ~ In i (sids k)) by (intro Hc; apply Hi; apply in_or_app; left; exact Hc).
    specialize (Pk i (flat_map (s_post_edges (Some i)) ks ++ rest) d gt r (NoDup_app_l _ _ Hn) Hik
                   (fun n Hn' => Hd k n (or_introl eq_refl) Hn')).
    unfold bnd at 1.
    destruct (bnd (cc_pool k) (edge_coal k) r) as [u r1| | | |]; cbn [follows] in *; try exact Pk.
    destruct Pk as (d1 & E1 & G1 & U1). rewrite E1.
    assert (Hd1 : forall k' n, In k' ks -> In n (s_post k') -> d_get d1 (s_id n) = own n).
    { intros k' n Hk' Hn'. assert (Hin : In (s_id n) (flat_map sids ks)).
      { apply in_flat_map. exists k'. split; [exact Hk'|]. unfold sids. apply in_map. exact Hn'. }
      rewrite U1.
      - apply (Hd k' n (or_intror Hk') Hn').
      - intro Hc. apply Hi. apply in_or_app. right. rewrite <- Hc. exact Hin.
      - intro Hc. exact (NoDup_app_disj _ _ _ Hn Hc Hin). }
    assert (Hi' : ~ In i (flat_map sids ks)) by (intro Hc; apply Hi; apply in_or_app; right; exact Hc).
    specialize (IH Pks i rest d1 gt r1 (NoDup_app_r _ _ Hn) Hi' Hd1).
    destruct ks as [|k2 ks'].
    + cbn [cc_kids flat_map app] in *. unfold bnd, ret. cbn [follows] in *.
      destruct IH as (d2 & E2 & G2 & U2). exists d2. split; [exact E2|]. split.
      * rewrite G2, G1, app_nil_r. reflexivity.
      * intros k0 Hk0 Hk0'. rewrite app_nil_r in Hk0'. rewrite U2 by auto. apply U1; assumption.
    + unfold bnd at 1.
      destruct (cc_kids (k2 :: ks') r1) as [b r2| | | |]; cbn [follows] in *; try exact IH.
      destruct IH as (d2 & E2 & G2 & U2). unfold ret. exists d2. split; [exact E2|]. split.
      * rewrite G2, G1. cbn [dflt]. rewrite <- app_assoc. reflexivity.
      * intros k0 Hk0 Hk0'. rewrite U2; [apply U1|exact Hk0|]; try exact Hk0.
        -- intro Hc. apply Hk0'. apply in_or_app. left. exact Hc.
        -- intro Hc. apply Hk0'. apply in_or_app. right. exact Hc.
Qed.

(* pop_node_genes[s] once all edges below s are processed = cc_pool s *)
Lemma pool_entry : forall i g l p ks b o,
  o = match ks with [] => own (SN i g l p ks) | _ => Some (dflt (own (SN i g l p ks)) ++ b) end ->
  (ks = [] -> b = []) ->
  match g, ks with
  | None, [] => ret (A := option (list gtree)) None
  | _, _ => ret (Some (map (fun x => G (Some x) None []) (match g with Some l0 => l0 | None => [] end) ++ b))
  end = ret o.
Proof.
  intros i g l p ks b o -> Hb. destruct ks as [|k ks]; [rewrite (Hb eq_refl)|]; destruct g as [gl|]; cbn [own dflt map app];
    rewrite ?app_nil_r; reflexivity.
Qed.

Lemma cc_kids_nil_res : forall ks r b r', ks = [] -> cc_kids ks r = Done b r' -> b = [].
Proof. intros ks r b r' -> H. cbn [cc_kids] in H. unfold ret in H. inversion H. reflexivity. Qed.

Theorem gen_cc_walk : forall s, Pwalk s.
Proof.
  induction s as [i g l p ks IH] using stree_ind2.
  intros pid rest d gt r Hn Hpid Hd. rewrite sids_node in Hn, Hpid. cbn [s_post_edges]. rewrite <- app_assoc. cbn [app].
  assert (Hik : ~ In i (flat_map sids ks)).
  { intro Hc. exact (NoDup_app_disj _ _ _ Hn Hc (or_introl eq_refl)). }
  pose proof (gen_cc_kids ks IH i ((SN i g l p ks, Some pid) :: rest) d gt r (NoDup_app_l _ _ Hn) Hik) as K.
  assert (Hdk : forall k n, In k ks -> In n (s_post k) -> d_get d (s_id n) = own n).
  { intros k n Hk Hn'. apply Hd. cbn [s_post]. apply in_or_app. left. apply in_flat_map. exists k. auto. }
  specialize (K Hdk).
  rewrite cc_pool_unfold. rewrite bnd_assoc. unfold bnd at 1.
  destruct (cc_kids ks r) as [b r1| | | |] eqn:Ec; cbn [follows] in *; try exact K.
  destruct K as (d1 & E1 & G1 & U1). rewrite E1.
  rewrite (pool_entry i g l p ks b (d_get d1 i)).
  2:{ rewrite G1. assert (Hown : d_get d i = own (SN i g l p ks)).
      { apply (Hd (SN i g l p ks)). cbn [s_post]. apply in_or_app. right. left. reflexivity. }
      rewrite Hown. reflexivity. }
  2:{ intros Hks. eapply cc_kids_nil_res; eauto. }
  unfold bnd at 1. unfold ret at 1.
  pose proof (gen_cc_edge (SN i g l p ks) pid d1 gt r1) as Ed. cbn [s_id] in Ed.
  cbn [py_forM].
  destruct (edge_coal (SN i g l p ks) (d_get d1 i) r1) as [u r2| | | |]; cbn [follows] in *;
    try (unfold bnd; rewrite Ed; reflexivity).
  destruct Ed as (d2 & E2 & G2 & U2). exists d2. split; [unfold bnd; rewrite E2; reflexivity|]. split.
  - rewrite G2. rewrite U1; [reflexivity| |].
    + intro Hc. apply Hpid. apply in_or_app. right. left. congruence.
    + intro Hc. apply Hpid. apply in_or_app. left. exact Hc.
  - intros k Hk Hk'. rewrite sids_node in Hk'. rewrite U2 by exact Hk. apply U1.
    + intro Hc. apply Hk'. apply in_or_app. right. left. congruence.
    + intro Hc. apply Hk'. apply in_or_app. left. exact Hc.
Qed.

(* ---------------- the edge of the seed node ---------------- *)

Lemma gen_cc_root : forall S d gt r,
  gen_contained_coalescent_tree_forM2 (gt, d) (S, None) r =
  match d_get d (s_id S) with
  | None => PyErr PyPrims.KeyErr
  | Some nodes =>
      bnd (if 1 <? length nodes then coalesce_nodes (s_pop S) None nodes else ret nodes)
          (fun final => match final with
                        | [] => raise PyPrims.IndexErr
                        | g :: _ => ret (CNext (R := Empty_set) (g, d))
                        end) r
  end.
Proof.
  intros S d gt r. unfold gen_contained_coalescent_tree_forM2. cbv beta iota zeta. cbn [fst snd py_is_none].
  unfold py_dict_get. destruct (d_get d (s_id S)) as [nodes|]; [|reflexivity].
  unfold bnd at 1. unfold ret at 1.
  destruct (1 <? length nodes).
  - unfold bnd at 2. unfold ret at 1. unfold bnd at 1. unfold bnd at 1. rewrite gen_coalesce_nodes_eq. unfold bnd at 2.
    destruct (coalesce_nodes (s_pop S) None nodes r) as [final r'| | | |]; try reflexivity.
    unfold ret at 1. destruct final as [|g0 fr]; reflexivity.
  - unfold bnd, ret. destruct nodes as [|g0 fr]; reflexivity.
Qed.

Theorem gen_contained_coalescent_tree_eq : forall S r, NoDup (sids S) ->
  gen_contained_coalescent_tree S r = cc_run S r.
Proof.
  intros S r Hn. unfold gen_contained_coalescent_tree. cbv zeta.
  destruct (gen_cc_init (s_post S) [] r Hn (fun _ _ => eq_refl)) as (d1 & E1 & O1 & _).
  unfold bnd at 1. rewrite E1. cbv beta iota.
  destruct S as [i g l p ks]. rewrite sids_node in Hn. cbn [s_post_edges].
  assert (Hik : ~ In i (flat_map sids ks)).
  { intro Hc. exact (NoDup_app_disj _ _ _ Hn Hc (or_introl eq_refl)). }
  assert (HP : Forall Pwalk ks) by (apply Forall_forall; intros k _; apply gen_cc_walk).
  pose proof (gen_cc_kids ks HP i [(SN i g l p ks, None)] d1 (g_new None) r (NoDup_app_l _ _ Hn) Hik) as K.
  assert (Hdk : forall k n, In k ks -> In n (s_post k) -> d_get d1 (s_id n) = own n).
  { intros k n Hk Hn'. apply O1. cbn [s_post]. apply in_or_app. left. apply in_flat_map. exists k. auto. }
  specialize (K Hdk).
  rewrite (bnd_unf (py_forM _ _ _)).
  unfold cc_run. rewrite cc_pool_unfold. rewrite bnd_assoc. rewrite (bnd_unf (cc_kids ks)).
  destruct (cc_kids ks r) as [b r1| | | |] eqn:Ec; cbn [follows] in K; try (rewrite K; reflexivity).
  destruct K as (d2 & E2 & G2 & _). rewrite E2.
  rewrite (pool_entry i g l p ks b (d_get d2 i)).
  2:{ rewrite G2. assert (Hown : d_get d1 i = own (SN i g l p ks)).
      { apply (O1 (SN i g l p ks)). cbn [s_post]. apply in_or_app. right. left. reflexivity. }
      rewrite Hown. reflexivity. }
  2:{ intros Hks. eapply cc_kids_nil_res; eauto. }
  rewrite (bnd_Done_l (ret (d_get d2 i)) _ r1 (d_get d2 i) r1 eq_refl).
  cbn [py_forM]. rewrite (bnd_unf (gen_contained_coalescent_tree_forM2 _ _)). rewrite gen_cc_root. cbn [s_id s_pop].
  destruct (d_get d2 i) as [nodes|]; [|reflexivity].
  rewrite !bnd_unf.
  destruct ((if 1 <? length nodes then coalesce_nodes p None nodes else ret nodes) r1) as [final r2| | | |]; try reflexivity.
  destruct final as [|g0 fr]; reflexivity.
Qed.

(* hence contained_spec holds of the translated code *)
Theorem gen_contained_spec_proved : forall (S : stree) (script : list draw) (g : gtree) (r : rs),
  gen_contained_coalescent_tree S (script, []) = Done g r ->
  NoDup (sids S) ->
  NoDup (sgenes S) ->
  (forall c, In c (ssubtrees S) -> (0 <= lenq (s_len c))%Q /\ (0 <= s_pop c)%Q) ->
  (forall q, In (DExp q) script -> (0 <= q)%Q) ->
  (forall c x y h,
     In c (flat_map ssubtrees (s_kids S)) -> In x (sgenes c) -> ~ In y (sgenes c) ->
     joins g x y h -> (up_len c x <= h)%Q) /\
  (forall s, In s (gsubtrees g) -> length (g_kids s) = 0 \/ length (g_kids s) = 2).
Proof.
  intros S script g r H Hi Hn Hok Hs. rewrite gen_contained_coalescent_tree_eq in H by exact Hi.
  exact (contained_spec_proved S script g r H Hn Hok Hs).
Qed.
