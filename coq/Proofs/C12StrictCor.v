(* C12, sixth wave: instances of the strict isomorphism and of the sharing `iff` for the routes of the model,
   with the EXECUTABLE privacy hypothesis wf_heap5 (region := what the seeds and atomic objects reach). *)
From Coq Require Import ZArith List Bool Lia.
From DV Require Import Model.PyPrims Model.C12Model Model.C12Spec2 Model.C12Spec3 Model.C12Spec4 Proofs.C12Heap
  Proofs.C12Wf Proofs.C12Proofs Proofs.C12StrictTop Proofs.C12Shared.
Import ListNotations.
Open Scope Z_scope.

Lemma wf5_parts : forall h seeds root, wf_heap5 h seeds root = true ->
  private_region_ok h seeds (seeded_region h seeds) root = true /\ conts_private_ok h = true /\ root_ok4 h root = true.
Proof.
  intros h seeds root H. unfold wf_heap5, private_ok in H.
  apply andb_true_iff in H. destruct H as [H H3]. apply andb_true_iff in H. destruct H as [H1 H2]. auto.
Qed.

Theorem route_isomorphism_strict_l : forall nf h root r fuel s' y,
  (r = RDeep \/ exists ns, r = RScoped ns) ->
  wf_heap h (route_seeds h r) = true -> wf_heap2 h = true -> wf_heap3 h = true -> wf_heap3s h = true -> wf_heap4 h = true ->
  root_seeds_ok h (route_seeds h r) root = true -> memz root (owned_list h) = false ->
  wf_heap5 h (route_seeds h r) root = true ->
  0 <= root < hlen h -> (length h < fuel)%nat ->
  run nf fuel h root r = Ok (s', R y) ->
  (forall b, reach (sh s') y b -> exists a, iso_rel h s' root y a b)
  /\ (forall a, reach h root a -> (exists b, iso_rel h s' root y a b) \/ empty_annset_part h a)
  /\ (forall a a' b, iso_rel h s' root y a b -> iso_rel h s' root y a' b -> a = a')
  /\ (forall a b b', iso_rel h s' root y a b -> iso_rel h s' root y a b' -> b = b' \/ kind_at h a = Some KTuple)
  /\ (forall a b, iso_rel h s' root y a b -> kind_at h a <> Some KTuple ->
        (a = b <-> In a (seeded_region h (route_seeds h r)))).
Proof.
  intros nf h root r fuel s' y RT WF WF2 WF3 WF3S WF4 RS NO W5 Hr Hf E.
  destruct (wf5_parts _ _ _ W5) as [PR [CP R4]].
  assert (E' : run_seeded nf fuel h (route_seeds h r) root = Ok (s', R y)).
  { destruct RT as [RT|[ns RT]]; subst r; exact E. }
  destruct (deepcopy_isomorphism_strict_l nf h _ _ root fuel s' y WF WF2 WF3 WF3S WF4 RS NO PR CP R4 Hr Hf E')
    as [_ [A [B [C [D [F _]]]]]].
  auto.
Qed.

Theorem scoped_shares_iff_l : forall nf h root ns fuel s' y,
  wf_heap h (ns_seeds h ns) = true -> wf_heap2 h = true -> wf_heap3 h = true -> wf_heap3s h = true -> wf_heap4 h = true ->
  root_seeds_ok h (ns_seeds h ns) root = true -> memz root (owned_list h) = false ->
  0 <= root < hlen h -> (length h < fuel)%nat ->
  run nf fuel h root (RScoped ns) = Ok (s', R y) ->
  (forall o, (reach (sh s') y o /\ reach (sh s') root o) <->
             (exists b, (In b (ns_seeds h ns) \/ is_atomic h b = true) /\ reach h root b /\ reach h b o))
  /\ (forall b, is_atomic h b = true -> reach h root b ->
        reach (sh s') y b /\ iso_rel h s' root y b b /\ forall b', iso_rel h s' root y b b' -> b' = b).
Proof.
  intros nf h root ns fuel s' y WF WF2 WF3 WF3S WF4 RS NO Hr Hf E. simpl in E.
  destruct (shares_exactly_iff_l nf h _ root fuel s' y WF WF2 WF3 WF3S WF4 RS NO Hr Hf E) as [A [B _]].
  split; [exact A|]. intros b AT RB. apply B; [right; exact AT | exact RB].
Qed.
