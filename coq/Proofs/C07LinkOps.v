(* C07 link, part 2: end to end.  For every well-formed heap h (C03's invariant WF) with
   abs h = Some t, the HEAP program (Model/HeapOps.v: the statement-level transcription of the
   library method) completes, leaves a well-formed heap whose abstraction is exactly the result of
   the C07 model function on t, and therefore preserves leaf taxa / unrooted splits / total length /
   all leaf-to-leaf distances.  Built from C03's refinement lemmas (used, not modified) and the
   function agreements of C07Link.v. *)
From Coq Require Import ZArith List Bool Lia Permutation.
From DV Require Import Model.PyPrims Model.Tree.
From DV Require Model.Heap Model.HeapOps Model.C03Spec Proofs.C03Base Proofs.C03Abs Proofs.C03Reseed
     Proofs.C03SpecLinks Proofs.C03Ops Proofs.C03Ops2 Proofs.C03Hist Proofs.C03Thms.
From DV Require Import Model.C07Model Model.C07Spec
     Proofs.C07Base Proofs.C07Equiv Proofs.C07Rot Proofs.C07Blocks Proofs.C07Ops Proofs.C07Mid
     Proofs.C07Thms Proofs.C07Link.
Import ListNotations.
Open Scope Z_scope.

Notation plug := C03Base.plug.
Notation CNode := C03Base.CNode.
Notation CTop := C03Base.CTop.
Notation cids := C03Base.cids.
Notation reroot := C03Reseed.reroot.
Notation up := C03Reseed.up.
Notation root_len := C03Reseed.root_len.
Notation olist := C03Reseed.olist.
Notation WF := C03Base.WF.
Notation WFt := C03Base.WFt.
Notation habs := Heap.abs.
Notation HOk := Heap.HOk.

Lemma not_rooted_eq h : HeapOps.not_rooted h = not_rooted (Heap.rooted h).
Proof. reflexivity. Qed.

(* ---------- contexts ---------- *)
Lemma in_preorder_plug c : forall s, In s (preorder (plug c s)).
Proof.
  induction c as [|c' IH i x l e lft rgt]; intro s; simpl.
  - apply in_preorder_self.
  - eapply preorder_trans; [|apply IH]. rewrite preorder_below. right.
    eapply kid_below; [|apply in_preorder_self]. cbn [t_kids]. apply in_or_app. right. left. reflexivity.
Qed.

Lemma find_node_plug c s : NoDup (ids (plug c s)) -> find_node (t_id s) (plug c s) = Some s.
Proof. intro N. apply find_node_unique; [assumption | apply in_preorder_plug | reflexivity]. Qed.

Lemma plug_notin_cids c s j : NoDup (ids (plug c s)) -> In j (ids s) -> ~ In j (cids c).
Proof.
  intros N Hj Hc. assert (P := C03Base.ids_plug c s).
  apply (Permutation_NoDup P) in N. eapply (nodup_app_disj _ _ j N); eassumption.
Qed.

Lemma plug_root_id_ne c s j :
  NoDup (ids (plug c s)) -> In j (ids s) -> j <> t_id s -> t_id (plug c s) <> j.
Proof.
  intros N Hj Hne E. destruct c as [|c' i x l e lft rgt].
  - simpl in E. congruence.
  - rewrite C03Base.plug_id in E. apply (plug_notin_cids _ _ j N Hj). rewrite <- E.
    apply C03Ops.croot_in_cids.
Qed.

Lemma first_ctx_skip {A B} (f : list A -> A -> list A -> option B) (X : list A) :
  (forall a, In a X -> forall pre post, f pre a post = None) ->
  forall pre rest, first_ctx f pre (X ++ rest) = first_ctx f (pre ++ X) rest.
Proof.
  induction X as [|a X IH]; intros H pre rest.
  - rewrite app_nil_r. reflexivity.
  - rewrite <- app_comm_cons, first_ctx_cons, (H a (or_introl eq_refl)).
    rewrite IH by (intros b Hb; apply H; right; assumption).
    rewrite <- app_assoc. reflexivity.
Qed.

Lemma ids_kid_in (ks : list tree) k j : In k ks -> In j (ids k) -> In j (flat_map ids ks).
Proof. intros. apply in_flat_map. exists k. split; assumption. Qed.

Lemma root_in_ids t : In (t_id t) (ids t).
Proof. destruct t as [i x l e ks]. rewrite ids_node. left. reflexivity. Qed.

(* ---------- parent_of through a context ---------- *)
Lemma parent_of_eq og t :
  parent_of og t = first_some (fun k => if t_id k =? og then Some (t_id t) else parent_of og k) (t_kids t).
Proof. destruct t; reflexivity. Qed.

Lemma parent_of_notin og : forall t, ~ In og (ids t) -> parent_of og t = None.
Proof.
  induction t as [i x l e ks IH] using tree_ind'. intros H. rewrite parent_of_eq. cbn [t_kids t_id].
  apply first_some_none. rewrite Forall_forall in *. intros k Hk.
  assert (Hs : ~ In og (ids k)) by (intro C; apply H; rewrite ids_node; right; eapply ids_kid_in; eauto).
  replace (t_id k =? og) with false; [apply IH; assumption|].
  symmetry. apply Z.eqb_neq. intro E. apply Hs. rewrite <- E. apply root_in_ids.
Qed.

Lemma parent_of_kids og p x l e lft s rgt :
  ~ In og (flat_map ids lft) ->
  parent_of og (T p x l e (lft ++ s :: rgt)) =
  (if t_id s =? og then Some p else
   match parent_of og s with Some q => Some q | None =>
     first_some (fun k => if t_id k =? og then Some p else parent_of og k) rgt end).
Proof.
  intros H. rewrite parent_of_eq. cbn [t_kids t_id]. rewrite first_some_app.
  assert (E : first_some (fun k => if t_id k =? og then Some p else parent_of og k) lft = None).
  { apply first_some_none. rewrite Forall_forall. intros k Hk.
    assert (Hs : ~ In og (ids k)) by (intro C; apply H; eapply ids_kid_in; eauto).
    replace (t_id k =? og) with false; [apply parent_of_notin; assumption|].
    symmetry. apply Z.eqb_neq. intro E. apply Hs. rewrite <- E. apply root_in_ids. }
  rewrite E, first_some_cons. destruct (t_id s =? og); [reflexivity|]. destruct (parent_of og s); reflexivity.
Qed.

Lemma parent_of_plug og p c : forall S,
  parent_of og S = Some p -> t_id S <> og -> ~ In og (cids c) -> parent_of og (plug c S) = Some p.
Proof.
  induction c as [|c' IH i x l e lft rgt]; intros S HP Hne Hc; simpl; [assumption|].
  simpl in Hc. apply IH.
  - rewrite parent_of_kids.
    + replace (t_id S =? og) with false by (symmetry; apply Z.eqb_neq; assumption). rewrite HP. reflexivity.
    + intro C. apply Hc. right. apply in_or_app. left. assumption.
  - cbn [t_id]. intro E. apply Hc. left. assumption.
  - intro C. apply Hc. right. apply in_or_app. right. apply in_or_app. right. assumption.
Qed.

(* ---------- split_edge through a context ---------- *)
Lemma split_edge_eq h fresh l1 l2 i x l e ks :
  split_edge h fresh l1 l2 (T i x l e ks) =
  option_map (T i x l e)
    (first_ctx (fun pre k post =>
       if t_id k =? h then Some (pre ++ post ++ [T fresh None None l1 [set_len l2 k]])
       else option_map (fun k' => pre ++ k' :: post) (split_edge h fresh l1 l2 k)) [] ks).
Proof. reflexivity. Qed.

Lemma split_edge_notin h fresh l1 l2 t : ~ In h (ids t) -> split_edge h fresh l1 l2 t = None.
Proof.
  intros H. apply split_none_iff. apply first_some_none. rewrite Forall_forall. intros k Hk.
  apply find_node_none. intro C. apply H. destruct t as [i x l e ks]. rewrite ids_node. right.
  eapply ids_kid_in; eauto.
Qed.

Lemma split_edge_kids h fresh l1 l2 i x l e lft s rgt :
  ~ In h (flat_map ids lft) ->
  split_edge h fresh l1 l2 (T i x l e (lft ++ s :: rgt)) =
  (if t_id s =? h then Some (T i x l e (lft ++ rgt ++ [T fresh None None l1 [set_len l2 s]]))
   else match split_edge h fresh l1 l2 s with
        | Some s' => Some (T i x l e (lft ++ s' :: rgt))
        | None => split_edge h fresh l1 l2 (T i x l e (lft ++ s :: rgt))
        end).
Proof.
  intros H. destruct (t_id s =? h) eqn:E1; [|destruct (split_edge h fresh l1 l2 s) as [s'|] eqn:E2; [|reflexivity]];
  rewrite split_edge_eq, first_ctx_skip.
  - cbn [app]. rewrite first_ctx_cons, E1. reflexivity.
  - intros k Hk pre post.
    assert (Hs : ~ In h (ids k)) by (intro C; apply H; eapply ids_kid_in; eauto).
    replace (t_id k =? h) with false; [rewrite split_edge_notin by assumption; reflexivity|].
    symmetry. apply Z.eqb_neq. intro E. apply Hs. rewrite <- E. apply root_in_ids.
  - cbn [app]. rewrite first_ctx_cons, E1, E2. reflexivity.
  - intros k Hk pre post.
    assert (Hs : ~ In h (ids k)) by (intro C; apply H; eapply ids_kid_in; eauto).
    replace (t_id k =? h) with false; [rewrite split_edge_notin by assumption; reflexivity|].
    symmetry. apply Z.eqb_neq. intro E. apply Hs. rewrite <- E. apply root_in_ids.
Qed.

Lemma split_edge_plug h fresh l1 l2 c : forall S S',
  split_edge h fresh l1 l2 S = Some S' -> t_id S <> h -> ~ In h (cids c) ->
  split_edge h fresh l1 l2 (plug c S) = Some (plug c S').
Proof.
  induction c as [|c' IH i x l e lft rgt]; intros S S' HS Hne Hc; simpl; [assumption|].
  simpl in Hc. apply IH.
  - rewrite split_edge_kids.
    + replace (t_id S =? h) with false by (symmetry; apply Z.eqb_neq; assumption). rewrite HS. reflexivity.
    + intro C. apply Hc. right. apply in_or_app. left. assumption.
  - cbn [t_id]. intro E. apply Hc. left. assumption.
  - intro C. apply Hc. right. apply in_or_app. right. apply in_or_app. right. assumption.
Qed.

(* ---------- the model's reseed_at / reroot_at_node in terms of rot ---------- *)
Lemma model_reseed t r n ub cb su X t1 :
  find_node n t = Some X -> (t_kids X <> [] \/ su = false) ->
  rot (t_len t) n t [] = Some t1 ->
  reseed_at t r n ub cb su = Ok (post_reseed t1 r cb su).
Proof.
  intros HX Hk HR. unfold reseed_at. destruct (t_id t =? n) eqn:E.
  - destruct t as [i x l e ks]. cbn [t_id t_len] in *. simpl in HR. rewrite E in HR.
    rewrite app_nil_r in HR. inversion HR. reflexivity.
  - rewrite HX, HR.
    assert (EL : is_leaf X && su = false).
    { destruct Hk as [Hk|Hk]; [|subst; apply andb_false_r].
      unfold is_leaf. destruct (t_kids X); [congruence | reflexivity]. }
    rewrite EL. reflexivity.
Qed.

Lemma spec_encode_false_u su u u' t : C03Spec.spec_encode su false u t = C03Spec.spec_encode su false u' t.
Proof. reflexivity. Qed.

Lemma post_rooted_snd x cb su : snd (post_reseed x (Some true) cb su) = Some true.
Proof. unfold post_reseed. cbn [not_rooted]. rewrite andb_false_r. reflexivity. Qed.

Lemma model_reroot_at_node t r n ub su cb X t1 :
  find_node n t = Some X -> (t_kids X <> [] \/ su = false) ->
  rot (t_len t) n t [] = Some t1 ->
  reroot_at_node t r n ub su cb =
  Ok ((if ub then C03Spec.spec_encode su cb false else (fun t => t)) (C03Spec.spec_encode su false true t1),
      Some true).
Proof.
  intros HX Hk HR. unfold reroot_at_node. rewrite (model_reseed t r n false false su X t1 HX Hk HR).
  cbn [bind]. rewrite <- (spec_encode_eq su false r t1), (spec_encode_false_u su _ true).
  destruct ub; [|reflexivity].
  f_equal. rewrite (surjective_pairing (post_reseed _ (Some true) cb su)).
  rewrite post_rooted_snd, <- (spec_encode_eq su cb (Some true)). reflexivity.
Qed.

(* ---------- well-formed heap: from the tree-level hypotheses to the heap-level ones ---------- *)
Lemma focus_of_internal h t n :
  WFt h t -> is_internal_node n t ->
  exists c s, t = plug c s /\ t_id s = n /\ t_kids s <> [] /\ find_node n t = Some s /\ NoDup (ids t).
Proof.
  intros W [X [HX HXk]]. pose proof W as [[_ [N _]] _].
  destruct (find_node_in n t X HX) as [HXin HXid].
  assert (Hn : In n (ids t)) by (unfold ids; rewrite <- HXid; apply in_map; assumption).
  destruct (C03Base.find_ctx t n Hn) as [c [s [Et Es]]]. subst t. rewrite <- Es in HX.
  rewrite (find_node_plug c s N) in HX. inversion HX; subst X.
  exists c, s. split; [reflexivity|]. split; [assumption|]. split; [assumption|].
  split; [rewrite <- Es; apply find_node_plug; assumption | assumption].
Qed.

Definition same_unrooted (t t' : tree) : Prop :=
  Permutation (leaf_taxa t) (leaf_taxa t')
  /\ (forall S, is_usplit t S <-> is_usplit t' S)
  /\ total_length t' = total_length t
  /\ (forall a b, dist a b t' = dist a b t).

(* ---------- reseed_at ---------- *)
Lemma heap_reseed_at_l ub cb su h t n :
  WF h -> habs h = Some t ->
  is_internal_node n t -> (2 <= length (t_kids t))%nat -> NoDup (leaf_taxa t) ->
  exists h' t' r', HeapOps.reseed_at n ub cb su h = HOk h' /\ WF h' /\ habs h' = Some t'
    /\ reseed_at t (Heap.rooted h) n ub cb su = Ok (t', r')
    /\ Permutation (leaf_taxa t) (leaf_taxa t')
    /\ (forall S, is_usplit t S <-> is_usplit t' S)
    /\ total_length t' = total_length t
    /\ (forall a b, dist a b t' = dist a b t).
Proof.
  intros W E HI TK ND. pose proof (C03Hist.WF_abs_t h t W E) as Wt.
  destruct (focus_of_internal h t n Wt HI) as [c [s [Et [Es [Hk [HF N]]]]]]. subst t n.
  destruct (C03Ops.reseed_at_wf ub cb su h c s Wt (or_introl Hk)) as [h' [E' [W' _]]].
  assert (HR := rot_plug c s N).
  assert (HM := model_reseed _ (Heap.rooted h) _ ub cb su s _ HF (or_introl Hk) HR).
  rewrite not_rooted_eq, spec_encode_eq in W'.
  exists h', (fst (post_reseed (reroot c s) (Heap.rooted h) cb su)), (snd (post_reseed (reroot c s) (Heap.rooted h) cb su)).
  split; [exact E'|]. split; [eapply C03Hist.WFt_WF; eauto|]. split; [apply C03Abs.abs_WFt; exact W'|].
  rewrite <- surjective_pairing. split; [exact HM|].
  rewrite (surjective_pairing (post_reseed _ _ _ _)) in HM.
  exact (reseed_at_l _ _ _ _ _ _ _ _ HM HI TK ND).
Qed.

(* ---------- reroot_at_node ---------- *)
Lemma heap_reroot_at_node_l ub su cb h t n :
  WF h -> habs h = Some t ->
  is_internal_node n t -> (2 <= length (t_kids t))%nat -> NoDup (leaf_taxa t) ->
  exists h' t', HeapOps.reroot_at_node n ub su cb h = HOk h' /\ WF h' /\ habs h' = Some t'
    /\ Heap.rooted h' = Some true
    /\ reroot_at_node t (Heap.rooted h) n ub su cb = Ok (t', Some true)
    /\ Permutation (leaf_taxa t) (leaf_taxa t')
    /\ (forall S, is_usplit t S <-> is_usplit t' S)
    /\ total_length t' = total_length t
    /\ (forall a b, dist a b t' = dist a b t).
Proof.
  intros W E HI TK ND. pose proof (C03Hist.WF_abs_t h t W E) as Wt.
  destruct (focus_of_internal h t n Wt HI) as [c [s [Et [Es [Hk [HF N]]]]]]. subst t n.
  destruct (C03Ops.reroot_at_node_wf ub su cb h c s Wt (or_introl Hk)) as [h' [E' [W' [_ R']]]].
  assert (HR := rot_plug c s N).
  assert (HM := model_reroot_at_node _ (Heap.rooted h) _ ub su cb s _ HF (or_introl Hk) HR).
  eexists h', _. split; [exact E'|]. split; [eapply C03Hist.WFt_WF; eauto|].
  split; [apply C03Abs.abs_WFt; exact W'|]. split; [exact R'|]. split; [exact HM|].
  exact (reroot_at_node_l _ _ _ _ _ _ _ _ HM HI TK ND).
Qed.

(* ---------- suppress_unifurcations / collapse_basal_bifurcation ---------- *)
Lemma heap_suppress_l h t :
  WF h -> habs h = Some t ->
  exists h', HeapOps.suppress_unifurcations h = HOk h' /\ WF h' /\ habs h' = Some (suppress t)
    /\ Heap.rooted h' = Heap.rooted h
    /\ leaf_taxa (suppress t) = leaf_taxa t
    /\ (forall S, is_usplit t S <-> is_usplit (suppress t) S)
    /\ total_length (suppress t) = total_length t
    /\ (forall a b, dist a b (suppress t) = dist a b t).
Proof.
  intros W E. destruct (C03Thms.suppress_refines_l h t W E) as [h' [E' [W' [A' [_ R']]]]].
  rewrite spec_su_eq in A'. exists h'. repeat (split; [assumption|]). apply suppress_l.
Qed.

Lemma heap_collapse_basal_l u h t :
  WF h -> habs h = Some t -> NoDup (leaf_taxa t) ->
  exists h', HeapOps.collapse_basal_bifurcation u h = HOk h' /\ WF h' /\
    habs h' = Some (fst (collapse_basal t))
    /\ Permutation (leaf_taxa t) (leaf_taxa (fst (collapse_basal t)))
    /\ (forall S, is_usplit t S <-> is_usplit (fst (collapse_basal t)) S)
    /\ total_length (fst (collapse_basal t)) = total_length t
    /\ (forall a b, dist a b (fst (collapse_basal t)) = dist a b t).
Proof.
  intros W E ND. destruct (C03Thms.collapse_basal_refines_l u h t W E) as [h' [E' [W' [A' _]]]].
  rewrite spec_collapse_basal_eq in A'. exists h'. repeat (split; [assumption|]).
  eapply collapse_basal_l; [apply surjective_pairing | assumption].
Qed.
