(* C06: the SumTrees pipeline built from the GENERATED functions satisfies schedule_irrelevant *)
From Coq Require Import ZArith List Bool Lia Permutation.
From DV Require Import Model.PyPrims Model.C06Model Model.C06Queue Model.C06GenPrims Gen.TreeArrayGen
     Proofs.C06Lemmas Proofs.C06Proofs Proofs.C06Sched Proofs.C06GenProofs Proofs.C06QueueProofs.
Import ListNotations.

(* read_from_files with the generated add_tree *)
Fixpoint gen_add_all (t : tarr) (xs : list trec) : tarr * option terr :=
  match xs with
  | [] => (t, None)
  | x :: r => match gen_add_tree t x false None with
              | (t', None) => gen_add_all t' r
              | (t', Some e) => (t', Some e)
              end
  end.

Definition gen_worker_result (c : cfg) (s : sched) (files : list (list trec)) (w : nat) : tarr * option terr :=
  gen_add_all (gen_worker_array c) (concat (worker_files s files w)).

Definition gen_parallel (c : cfg) (s : sched) (files : list (list trec)) : tarr * option terr :=
  gen_collate c (map (gen_worker_result c s files) (s_arrival s)).

Definition gen_serial (c : cfg) (files : list (list trec)) : tarr * option terr :=
  gen_add_all (gen_serial_array c) (concat files).

Lemma gen_add_all_eq xs : forall t, gen_add_all t xs = add_all t (map norm_rooting xs).
Proof.
  induction xs as [|x xs IH]; intro t; simpl; [reflexivity|].
  rewrite gen_add_tree_eq. unfold add_tree_r.
  destruct (add_tree t (norm_rooting x) None) as [t' [e|]]; [reflexivity | apply IH].
Qed.

Lemma add_all_wf xs : forall t, ta_wf t -> ta_wf (fst (add_all t xs)).
Proof.
  induction xs as [|x xs IH]; intros t N; simpl; [exact N|].
  pose proof (add_tree_wf t x None N) as H.
  destruct (add_tree t x None) as [t' [e|]]; cbn [fst] in *; [exact H | apply IH; exact H].
Qed.

Lemma worker_files_map {A B} (f : A -> B) (s : sched) (files : list A) w :
  worker_files s (map f files) w = map f (worker_files s files w).
Proof.
  unfold worker_files. generalize (s_assign s) as asg.
  induction files as [|x files IH]; intros [|a asg]; simpl; try reflexivity.
  destruct (Nat.eqb a w); simpl; [f_equal|]; apply IH.
Qed.

Lemma gen_parallel_eq c s files :
  gen_parallel c s files = parallel_collate c s (map (map norm_rooting) files).
Proof.
  unfold gen_parallel, parallel_collate.
  assert (E : map (gen_worker_result c s files) (s_arrival s)
              = map (worker_result c s (map (map norm_rooting) files)) (s_arrival s)).
  { apply map_ext. intro w. unfold gen_worker_result, worker_result.
    rewrite gen_add_all_eq, worker_files_map, concat_map. reflexivity. }
  rewrite E. apply gen_collate_eq.
  rewrite Forall_forall. intros r Ir. apply in_map_iff in Ir. destruct Ir as [w [<- _]].
  unfold worker_result. apply add_all_wf. constructor.
Qed.

Lemma gen_serial_eq c files : gen_serial c files = serial c (map (map norm_rooting) files).
Proof. unfold gen_serial, serial. rewrite gen_add_all_eq, concat_map. reflexivity. Qed.

Lemma schedule_irrelevant_generated_l : forall (c : cfg) (rooted : bool) (s : sched) (files : list (list trec)),
  (c_rooting c = None \/ c_rooting c = Some rooted) ->
  Forall (fun x => tr_rooted x = rooted /\ (c_ign_ages c = false -> tr_ages_err x = None)) (concat files) ->
  sched_ok s (length files) ->
  exists m t, gen_parallel c s files = (m, None) /\ gen_serial c files = (t, None) /\ ta_equiv m t.
Proof.
  intros c rooted s files Hc F S. rewrite gen_parallel_eq, gen_serial_eq.
  apply schedule_irrelevant_l with (r := Some rooted); [exact Hc | | rewrite map_length; exact S].
  rewrite <- concat_map. rewrite Forall_forall in *. intros y Iy. apply in_map_iff in Iy.
  destruct Iy as [x [<- Ix]]. destruct (F x Ix) as [F1 F2].
  split; [rewrite norm_rooting_rooted, F1; reflexivity | exact F2].
Qed.

(* the protocol the source uses is the marker protocol: its executions are those of step_new *)
Lemma source_handout_total_l : forall (A : Type) (files : list A) (n : nat) (acts : list act) (s : pst A),
  (1 <= n)%nat ->
  exec (step_of_protocol source_uses_marker_protocol) (init_of_protocol source_uses_marker_protocol files n) acts = Some s ->
  quiescent (step_of_protocol source_uses_marker_protocol) s ->
  p_queue s = [] /\ p_buf s = [] /\
  Forall (fun x => w_phase x = Finished) (p_workers s) /\
  length (gets_of acts) = (length files + n)%nat /\
  Forall (fun w => (w < n)%nat) (gets_of acts) /\
  Permutation (skipn (length files) (gets_of acts)) (seq 0 n) /\
  Permutation (p_results s) (seq 0 n) /\
  forall w x, nth_error (p_workers s) w = Some x ->
              w_recv x = worker_files (mkSched n (firstn (length files) (gets_of acts)) (p_results s)) files w.
Proof.
  rewrite source_protocol. cbn [step_of_protocol init_of_protocol].
  intros A files n acts s Hn E Q.
  destruct (handout_protocol_total_l A files n acts s Hn E) as (_ & _ & H).
  destruct (H Q) as (_ & H1 & H2 & H3 & H4 & H5 & H6 & H7 & H8). repeat split; assumption.
Qed.
