(* C18 - discrete_birth_death_tree (Model/C18DiscModel.v): loop invariants of the generation loop,
   result specification, fuel, locality of the draws *)
From Coq Require Import QArith Lqa ZArith List Bool Arith Lia Permutation.
From DV Require Import Model.C18Model Model.C18Prims Model.C18DiscPrims Model.C18DiscModel.
From DV Require Import Proofs.C18Lists Proofs.C18Tree Proofs.C18Monad Proofs.C18BD Proofs.C18GenBD.
From DV Require Model.PyPrims.
Import ListNotations.
Open Scope nat_scope.

(* ------------------------------------------------------------------------------------------ *)
(* generic loop lemmas                                                                          *)
(* ------------------------------------------------------------------------------------------ *)

Lemma py_forM_inv {St A} (body : St -> A -> M (ctl St Empty_set)) (I : list A -> St -> Prop) :
  (forall a rest s r c r', I (a :: rest) s -> body s a r = Done c r' -> exists s', c = CNext s' /\ I rest s') ->
  forall l s r c r', I l s -> py_forM body l s r = Done c r' -> exists s', c = CNext s' /\ I [] s'.
Proof.
  intros Hb. induction l as [|a rest IH]; intros s r c r' Hi H; simpl in H.
  - apply ret_Done in H. destruct H as [<- _]. eauto.
  - apply bnd_Done in H. destruct H as (c1 & r1 & H1 & H2).
    destruct (Hb _ _ _ _ _ _ Hi H1) as (s1 & -> & Hi1). eapply IH; eauto.
Qed.

Lemma py_while_inv {St} (body : St -> M (ctl St Empty_set)) (I Q : St -> Prop) :
  (forall s r c r', I s -> body s r = Done c r' ->
     match c with CNext s' => I s' | CBreak s' => I s' /\ Q s' | CReturn e => False end) ->
  forall f s r c r', I s -> py_while f body s r = Done c r' -> exists s', c = CNext s' /\ I s' /\ Q s'.
Proof.
  intros Hb. induction f as [|f IH]; intros s r c r' Hi H; simpl in H; [discriminate|].
  apply bnd_Done in H. destruct H as (c1 & r1 & H1 & H2). pose proof (Hb _ _ _ _ Hi H1) as Hc.
  destruct c1 as [s1|s1|[]].
  - eapply IH; eauto.
  - apply ret_Done in H2. destruct H2 as [<- _]. destruct Hc. eauto.
Qed.

(* a while loop whose every continuing pass consumes a draw never runs out of script-length fuel *)
Lemma py_while_fuel {St} (body : St -> M (ctl St Empty_set)) (J : St -> Prop) :
  (forall s r, J s -> body s r <> NoFuel) ->
  (forall s r s' r', J s -> body s r = Done (CNext s') r' -> J s' /\ left_ r' < left_ r) ->
  forall f s r, J s -> left_ r < f -> py_while f body s r <> NoFuel.
Proof.
  intros Hn Hs. induction f as [|f IH]; intros s r Hj Hl; [lia|]. simpl. intro H.
  apply bnd_NoFuel in H. destruct H as [H|(c & r1 & H1 & H2)]; [eapply Hn; eauto|].
  destruct c as [s1|s1|e]; [|discriminate H2|destruct e].
  destruct (Hs _ _ _ _ Hj H1) as [Hj1 Hl1]. apply (IH s1 r1 Hj1); [lia|exact H2].
Qed.

Lemma py_while_script_fuel {St} (body : St -> M (ctl St Empty_set)) (J : St -> Prop) :
  (forall s r, J s -> body s r <> NoFuel) ->
  (forall s r s' r', J s -> body s r = Done (CNext s') r' -> J s' /\ left_ r' < left_ r) ->
  forall s r, J s -> py_while_script body s r <> NoFuel.
Proof. intros Hn Hs s r Hj. unfold py_while_script. eapply py_while_fuel; eauto; unfold left_; lia. Qed.

Lemma py_while_left {St} (body : St -> M (ctl St Empty_set)) :
  (forall s r c r', body s r = Done c r' -> left_ r' <= left_ r) ->
  forall f s r c r', py_while f body s r = Done c r' -> left_ r' <= left_ r.
Proof.
  intros Hb. induction f as [|f IH]; intros s r c r' H; simpl in H; [discriminate|].
  apply bnd_Done in H. destruct H as (c1 & r1 & H1 & H2). pose proof (Hb _ _ _ _ H1).
  destruct c1 as [s1|s1|[]].
  - apply IH in H2. lia.
  - apply ret_Done in H2. destruct H2 as [_ <-]. lia.
Qed.

(* ------------------------------------------------------------------------------------------ *)
(* trees: remove_child on a binary tree is prune1; single-node length updates                   *)
(* ------------------------------------------------------------------------------------------ *)

Lemma prune1_remove_child : forall x t, arity bin t -> b_id t <> x -> prune1 x t = Some (remove_child x t).
Proof.
  intros x. induction t as [i l tx ks IH] using btree_ind2. intros Ha Hne. simpl in Hne. simpl.
  destruct (i =? x) eqn:E; [apply Nat.eqb_eq in E; congruence|].
  inv_ar Ha.
  assert (Ho : omap (prune1 x) ks = flat_map (fun k => if b_id k =? x then [] else [remove_child x k]) ks).
  { clear Har E Hne Ha. unfold omap. induction ks as [|k r IHr]; [reflexivity|]. inv_all IH.
    inversion Hars as [|? ? Ha1 Ha2]; subst. cbn [flat_map]. rewrite (IHr Htl Ha2).
    destruct (b_id k =? x) eqn:Ek.
    - destruct k as [j l' tx' ks']. cbn [b_id] in Ek. cbn [prune1]. rewrite Ek. reflexivity.
    - apply Nat.eqb_neq in Ek. rewrite (Hhd Ha1 Ek). reflexivity. }
  rewrite Ho. destruct Har as [Har|Har]; rewrite Har; reflexivity.
Qed.

Lemma upd_len_add_len_set : forall x w t, NoDup (ids t) ->
  b_upd_len t x (fun l_ => (l_ + w)%Q) = add_len_set [x] w t.
Proof.
  intros x w t Hn. unfold b_upd_len. rewrite (set_len_relabel x _ t Hn), add_len_set_relabel.
  apply relabel_ext. intros i l tx _. cbn [memb]. rewrite (Nat.eqb_sym i x), orb_false_r.
  destruct (x =? i); reflexivity.
Qed.

(* lengthening leaves that are not in S does not move the leaves of S *)
Lemma eqd_add_len_other : forall X S w t D,
  (forall i, In i X -> ~ In i S) -> (forall i, In i X -> ~ In i (inner_ids t)) ->
  eqd S D t -> eqd S D (add_len_set X w t).
Proof.
  intros X S w. induction t as [i l x ks IH] using btree_ind2. intros D Hd Hin H. inv_eqd H.
  - simpl. constructor. intros Hi. destruct (memb i X) eqn:E; [|auto].
    apply memb_In in E. exfalso. apply (Hd i E Hi).
  - assert (Hm : memb i X = false).
    { apply memb_false. intro Hi. apply (Hin i Hi). rewrite inner_ids_node. simpl. auto. }
    simpl add_len_set. rewrite Hm.
    change (add_len_set X w k :: map (add_len_set X w) r) with (map (add_len_set X w) (k :: r)).
    apply eqd_node with (k := add_len_set X w k) (r := map (add_len_set X w) r).
    change (add_len_set X w k :: map (add_len_set X w) r) with (map (add_len_set X w) (k :: r)).
    rewrite Forall_map. rewrite Forall_forall in *. intros k' Hk'. apply (IH k' Hk'); auto.
    intros j Hj Hi. apply (Hin j Hj). rewrite inner_ids_node. right. apply in_flat_map. eauto.
Qed.

Lemma eqd_app : forall S1 S2 D t, eqd S1 D t -> eqd S2 D t -> eqd (S1 ++ S2) D t.
Proof.
  intros S1 S2. intros D t. revert D. induction t as [i l x ks IH] using btree_ind2. intros D H1 H2.
  inv_eqd H1.
  - constructor. intros Hi. apply in_app_or in Hi. destruct Hi as [Hi|Hi]; [auto|].
    inversion H2 as [? ? ? ? Hl2|]; subst. auto.
  - inversion H2 as [|? ? ? ? ? ? Hall2]; subst. constructor. rewrite Forall_forall in *.
    intros k' Hk'. apply (IH k' Hk'); auto.
Qed.

(* a new pair of children below a leaf that is not in S, the children not in S either *)
Lemma eqd_birth_other : forall S x c1 c2 t D,
  ~ In x S -> ~ In c1 S -> ~ In c2 S -> eqd S D t -> eqd S D (set_kids x [bleaf c1 0; bleaf c2 0] t).
Proof.
  intros S x c1 c2. induction t as [i l tx ks IH] using btree_ind2. intros D Hx H1 H2 H.
  simpl set_kids. destruct (i =? x) eqn:E.
  - apply eqd_node. repeat constructor; intros Hi; contradiction.
  - inv_eqd H.
    + simpl. constructor. assumption.
    + change (map (set_kids x [bleaf c1 0; bleaf c2 0]) (k :: r))
        with (set_kids x [bleaf c1 0; bleaf c2 0] k :: map (set_kids x [bleaf c1 0; bleaf c2 0]) r).
      apply eqd_node.
      change (set_kids x [bleaf c1 0; bleaf c2 0] k :: map (set_kids x [bleaf c1 0; bleaf c2 0]) r)
        with (map (set_kids x [bleaf c1 0; bleaf c2 0]) (k :: r)).
      rewrite Forall_map. rewrite Forall_forall in *. intros k' Hk'. apply (IH k' Hk'); auto.
Qed.

Lemma add_len_set_ids : forall S w t, ids (add_len_set S w t) = ids t.
Proof. intros. rewrite add_len_set_relabel. apply relabel_ids. Qed.
Lemma add_len_set_leaf_ids : forall S w t, leaf_ids (add_len_set S w t) = leaf_ids t.
Proof. intros. rewrite add_len_set_relabel. apply relabel_leaf_ids. Qed.
Lemma add_len_set_inner_ids : forall S w t, inner_ids (add_len_set S w t) = inner_ids t.
Proof. intros. rewrite add_len_set_relabel. apply relabel_inner_ids. Qed.
Lemma add_len_set_root : forall S w t, b_id (add_len_set S w t) = b_id t.
Proof. intros. rewrite add_len_set_relabel. apply relabel_root. Qed.
Lemma add_len_set_arity : forall P S w t, arity P t -> arity P (add_len_set S w t).
Proof. intros. rewrite add_len_set_relabel. apply arity_relabel. assumption. Qed.

(* ------------------------------------------------------------------------------------------ *)
(* the invariant inside one generation                                                          *)
(* U = the leaves of the snapshot still to be visited (depth D), V = the other leaves (depth    *)
(* D + 1: visited survivors and the children created in this generation)                        *)
(* ------------------------------------------------------------------------------------------ *)

Record dinv (D : Q) (U V : list nat) (t : btree) (next : nat) : Prop := mkDinv {
  di_nodup : NoDup (ids t);
  di_fresh : forall y, In y (ids t) -> y < next;
  di_bin : arity bin t;
  di_U : NoDup U;
  di_leaves : forall y, In y (leaf_ids t) <-> In y U \/ In y V;
  di_disj : forall y, In y U -> ~ In y V;
  di_eU : eqd U D t;
  di_eV : eqd V (D + 1) t }.

Lemma dinv_leaf_not_inner : forall D U V t next y, dinv D U V t next -> In y U \/ In y V -> ~ In y (inner_ids t).
Proof. intros D U V t next y H Hy. apply leaf_not_inner; [apply H|]. apply (di_leaves _ _ _ _ _ H). exact Hy. Qed.

(* nd.edge.length += 1 for the next leaf of the snapshot *)
Lemma dinv_visit : forall D nd U V t next,
  dinv D (nd :: U) V t next -> dinv D U (nd :: V) (add_len_set [nd] 1 t) next /\ ~ In nd V.
Proof.
  intros D nd U V t next H. destruct H as [Hn Hf Hb HU Hl Hd HeU HeV].
  inversion HU as [|? ? HndU HU']; subst.
  assert (HndV : ~ In nd V) by (apply Hd; simpl; auto).
  assert (Hleaf : In nd (leaf_ids t)) by (apply Hl; simpl; auto).
  assert (Hninner : forall i, In i [nd] -> ~ In i (inner_ids t)).
  { intros i [<-|[]]. apply leaf_not_inner; assumption. }
  split; [|exact HndV]. constructor.
  - rewrite add_len_set_ids. exact Hn.
  - intros y. rewrite add_len_set_ids. apply Hf.
  - apply add_len_set_arity. exact Hb.
  - exact HU'.
  - intros y. rewrite add_len_set_leaf_ids, Hl. simpl. tauto.
  - intros y Hy [<-|Hy']; [contradiction|]. apply (Hd y); simpl; auto.
  - apply eqd_add_len_other; auto.
    + intros i [<-|[]]. exact HndU.
    + eapply eqd_subset; [|exact HeU]. simpl. auto.
  - change (nd :: V) with ([nd] ++ V). apply eqd_app.
    + apply eqd_add_len_set; auto. eapply eqd_subset; [|exact HeU]. intros y [<-|[]]. simpl. auto.
    + apply eqd_add_len_other; auto. intros i [<-|[]]. exact HndV.
Qed.

Lemma arity_bleaf : forall c l, arity bin (bleaf c l).
Proof. intros. constructor; [left; reflexivity|constructor]. Qed.

(* the visited leaf nd splits *)
Lemma dinv_birth : forall D nd U V t next,
  dinv D U (nd :: V) t next -> ~ In nd V ->
  dinv D U (next :: S next :: V) (set_kids nd [bleaf next 0; bleaf (S next) 0] t) (S (S next)).
Proof.
  intros D nd U V t next H HndV. pose proof (dinv_leaf_not_inner _ _ _ _ _ nd H (or_intror (or_introl eq_refl))) as Hni.
  destruct H as [Hn Hf Hb HU Hl Hd HeU HeV].
  assert (Hleaf : In nd (leaf_ids t)) by (apply Hl; simpl; auto).
  assert (HndU : ~ In nd U) by (intro Hc; apply (Hd nd Hc); simpl; auto).
  assert (F1 : ~ In next (ids t)) by (intro Hc; apply Hf in Hc; lia).
  assert (F2 : ~ In (S next) (ids t)) by (intro Hc; apply Hf in Hc; lia).
  assert (HUlt : forall y, In y U -> y < next).
  { intros y Hy. apply Hf. apply leaf_in_ids. apply Hl. auto. }
  pose proof (set_kids_ids nd [bleaf next 0; bleaf (S next) 0] t Hn Hleaf) as Hp. simpl in Hp.
  constructor.
  - apply (Permutation_NoDup (Permutation_sym Hp)). constructor; [|constructor; [|exact Hn]].
    + intros [Hc|Hc]; [lia|contradiction].
    + exact F2.
  - intros y Hy. apply (Permutation_in _ Hp) in Hy. destruct Hy as [<-|[<-|Hy]]; [lia|lia|]. apply Hf in Hy. lia.
  - apply set_kids_arity; [right; reflexivity| |exact Hb]. repeat constructor; apply arity_bleaf.
  - exact HU.
  - intros y. rewrite (set_kids_leaf_ids nd [bleaf next 0; bleaf (S next) 0] t Hn Hleaf) by discriminate.
    rewrite Hl. simpl. split.
    + intros [[[Hy|[Hy|Hy]] Hne]|[Hy|[Hy|[]]]]; auto. congruence.
    + intros [Hy|[Hy|[Hy|Hy]]]; auto.
      * left. split; [auto|]. intros ->. contradiction.
      * left. split; [auto|]. intros ->. contradiction.
  - intros y Hy [<-|[<-|Hy']].
    + apply HUlt in Hy. lia.
    + apply HUlt in Hy. lia.
    + apply (Hd y Hy). simpl. auto.
  - apply eqd_birth_other; auto.
    + intro Hc. apply HUlt in Hc. lia.
    + intro Hc. apply HUlt in Hc. lia.
  - apply eqd_birth with (S := nd :: V); simpl; auto.
    intros y [<-|[<-|Hy]]; auto. left. split; [auto|]. intros ->. contradiction.
Qed.

Definition le2 (n : nat) : Prop := n <= 2.

(* the visited leaf nd (not the seed node) dies: tree.prune_subtree(nd) *)
Lemma dinv_death : forall D nd U V t next,
  dinv D U (nd :: V) t next -> ~ In nd V -> b_id t <> nd ->
  dinv D U V (suppress (remove_child nd t)) next.
Proof.
  intros D nd U V t next H HndV Hroot.
  assert (Hnin : forall y, In y U \/ In y (nd :: V) -> ~ In y (inner_ids t)) by (intros; eapply dinv_leaf_not_inner; eauto).
  destruct H as [Hn Hf Hb HU Hl Hd HeU HeV].
  assert (HndU : ~ In nd U) by (intro Hc; apply (Hd nd Hc); simpl; auto).
  pose proof (prune1_remove_child nd t Hb Hroot) as Hp. set (t' := remove_child nd t) in *.
  assert (Hni : ~ In nd (inner_ids t)) by (apply Hnin; simpl; auto).
  pose proof (prune1_leaf_ids nd t Hn Hni) as Hlv. rewrite Hp in Hlv.
  assert (Hn' : NoDup (ids t')) by (eapply prune1_NoDup; eauto).
  constructor.
  - apply suppress_NoDup. exact Hn'.
  - intros y Hy. apply suppress_ids_incl in Hy. apply Hf. eapply prune1_ids_incl; eauto.
  - apply suppress_arity. apply (prune1_arity_le 2 nd t t' Hp).
    eapply arity_impl; [|exact Hb]. intros n [->| ->]; lia.
  - exact HU.
  - intros y. rewrite suppress_leaf_ids, Hlv, drop_In, Hl. simpl. split.
    + intros [[Hy|[Hy|Hy]] Hne]; auto. congruence.
    + intros [Hy|Hy]; (split; [auto|intros ->; contradiction]).
  - intros y Hy Hy'. apply (Hd y Hy). simpl. auto.
  - apply suppress_eqd. eapply prune1_eqd; eauto.
  - apply suppress_eqd. eapply (prune1_eqd V nd t t'); eauto.
    + intros y Hy. apply Hnin. simpl. auto.
    + eapply eqd_subset; [|exact HeV]. simpl. auto.
Qed.

(* ------------------------------------------------------------------------------------------ *)
(* one leaf of the snapshot: the body of `for nd in leaf_nodes`                                 *)
(* ------------------------------------------------------------------------------------------ *)

Ltac bnd_inv H a r' H1 H2 := apply bnd_Done in H; destruct H as (a & r' & H1 & H2).

Lemma disc_leaf_inv : forall P D nd U V br dr t next g r c r',
  dinv D (nd :: U) V t next ->
  disc_leaf P (br, dr, t, next, g) nd r = Done c r' ->
  exists br' dr' t' next' g' V', c = CNext (br', dr', t', next', g') /\ dinv D U V' t' next' /\ left_ r' < left_ r.
Proof.
  intros P D nd U V br dr t next g r c r' Hinv H.
  pose proof (di_nodup _ _ _ _ _ Hinv) as Hn.
  destruct (dinv_visit _ _ _ _ _ _ Hinv) as [H1 HndV].
  unfold disc_leaf in H. cbv beta iota zeta in H.
  rewrite (upd_len_add_len_set nd 1 t Hn) in H. set (t1 := add_len_set [nd] 1 t) in *.
  bnd_inv H u r1 Hu H. unfold py_uniform01 in Hu. pose proof (d_unit_left _ _ _ Hu) as Lu.
  match type of H with (if ?b then _ else _) _ = _ => destruct b end.
  - (* birth *)
    unfold py_new_child in H. cbv beta iota zeta in H.
    bnd_inv H x2 r2 G2 H. bnd_inv H x3 r3 G3 H. bnd_inv H x4 r4 G4 H. bnd_inv H x5 r5 G5 H.
    apply ret_Done in H. destruct H as [<- <-].
    apply d_gauss_left in G2, G3, G4, G5.
    assert (Hleaf : In nd (leaf_ids t1)) by (apply (di_leaves _ _ _ _ _ H1); simpl; auto).
    assert (F1 : ~ In next (ids t1)) by (intro Hc; apply (di_fresh _ _ _ _ _ H1) in Hc; lia).
    assert (F2 : ~ In (S next) (ids t1)) by (intro Hc; apply (di_fresh _ _ _ _ _ H1) in Hc; lia).
    rewrite (gen_birth_tree t1 nd next (S next) (di_nodup _ _ _ _ _ H1) Hleaf F1 F2).
    do 6 eexists. split; [reflexivity|]. split; [apply dinv_birth; eassumption|lia].
  - match type of H with (if ?b then _ else _) _ = _ => destruct b end.
    + destruct (b_is nd (b_id t1)) eqn:Eb; cbn [negb] in H.
      * (* the seed node dies *)
        destruct (negb (dp_repeat P)); [discriminate|].
        apply ret_Done in H. destruct H as [<- <-].
        do 6 eexists. split; [reflexivity|]. split; [exact H1|lia].
      * bnd_inv H t2 r2 Hp H. apply ret_Done in H. destruct H as [<- <-].
        unfold b_prune_subtree_s in Hp. destruct (parent_of nd t1); [|discriminate].
        apply ret_Done in Hp. destruct Hp as [<- <-].
        do 6 eexists. split; [reflexivity|]. split; [|lia]. eapply dinv_death; [exact H1|exact HndV|].
        unfold b_is in Eb. apply Nat.eqb_neq in Eb. intro Hc. apply Eb. symmetry. exact Hc.
    + apply ret_Done in H. destruct H as [<- <-].
      do 6 eexists. split; [reflexivity|]. split; [exact H1|lia].
Qed.

(* ------------------------------------------------------------------------------------------ *)
(* the invariant between generations, and the whole loop                                        *)
(* ------------------------------------------------------------------------------------------ *)

Record ginv (t : btree) (next : nat) : Prop := mkGinv {
  gi_nodup : NoDup (ids t);
  gi_fresh : forall y, In y (ids t) -> y < next;
  gi_bin : arity bin t;
  gi_eqd : exists D, eqd (leaf_ids t) D t }.

Definition gstate (s : dst * list nat) : Prop :=
  let '(_, _, t, next, _, leaves) := s in ginv t next /\ leaves = leaf_ids t.

Lemma eqd_nil : forall t D, eqd [] D t.
Proof.
  induction t as [i l x ks IH] using btree_ind2. intros D. destruct ks as [|k r].
  - constructor. intros [].
  - constructor. rewrite Forall_forall in *. intros k' Hk'. apply (IH k' Hk').
Qed.

Lemma ginv_dinv : forall t next D, ginv t next -> eqd (leaf_ids t) D t -> dinv D (leaf_ids t) [] t next.
Proof.
  intros t next D [Hn Hf Hb _] He. constructor; auto.
  - apply NoDup_leaf_ids. exact Hn.
  - intros y. simpl. tauto.
  - apply eqd_nil.
Qed.

Lemma forM_gen : forall P D L br dr t next g r c r' V,
  dinv D L V t next ->
  py_forM (disc_leaf P) L (br, dr, t, next, g) r = Done c r' ->
  exists br' dr' t' next' g' V', c = CNext (br', dr', t', next', g') /\ dinv D [] V' t' next' /\ left_ r' + length L <= left_ r.
Proof.
  intros P D. induction L as [|nd L IH]; intros br dr t next g r c r' V Hi H; simpl in H.
  - apply ret_Done in H. destruct H as [<- <-]. do 6 eexists. split; [reflexivity|]. split; [exact Hi|simpl; lia].
  - bnd_inv H c1 r1 H1 H2.
    destruct (disc_leaf_inv _ _ _ _ _ _ _ _ _ _ _ _ _ Hi H1) as (br1 & dr1 & t1 & n1 & g1 & V1 & -> & Hi1 & Hl1).
    destruct (IH _ _ _ _ _ _ _ _ _ Hi1 H2) as (br2 & dr2 & t2 & n2 & g2 & V2 & -> & Hi2 & Hl2).
    do 6 eexists. split; [reflexivity|]. split; [exact Hi2|simpl; lia].
Qed.

Lemma disc_gen_inv : forall P tt tg s r c r', gstate s -> disc_gen P tt tg s r = Done c r' ->
  match c with
  | CNext s' => gstate s' /\ left_ r' < left_ r
  | CBreak s' => s' = s /\ r' = r /\ (let '(_, _, _, _, gens, leaves) := s in disc_test tt tg leaves gens = false)
  | CReturn e => False
  end.
Proof.
  intros P tt tg [[[[[br dr] t] next] g] leaves] r c r' [Hg ->] H. unfold disc_gen in H.
  destruct (disc_test tt tg (leaf_ids t) g) eqn:Et.
  - bnd_inv H c1 r1 H1 H2. destruct Hg as [Hn Hf Hb [D He]].
    destruct (forM_gen _ _ _ _ _ _ _ _ _ _ _ _ (ginv_dinv t next D (mkGinv _ _ Hn Hf Hb (ex_intro _ D He)) He) H1)
      as (br1 & dr1 & t1 & n1 & g1 & V1 & -> & Hi1 & Hl1).
    apply ret_Done in H2. destruct H2 as [<- <-]. split.
    + split; [|reflexivity]. destruct Hi1 as [Hn1 Hf1 Hb1 _ Hl Hd HeU HeV]. constructor; auto.
      exists (D + 1)%Q. eapply eqd_subset; [|exact HeV]. intros y Hy. apply Hl in Hy. destruct Hy as [[]|Hy]. exact Hy.
    + pose proof (leaf_ids_nonempty t). destruct (leaf_ids t); [congruence|simpl in Hl1; lia].
  - apply ret_Done in H. destruct H as [<- <-]. auto.
Qed.

Lemma ginv_init : ginv (C18Prims.b_set_len py_tree_new (b_id py_tree_new) 0) 1.
Proof.
  constructor; simpl.
  - repeat constructor. intros [].
  - intros y [<-|[]]. lia.
  - apply arity_bleaf.
  - exists 0%Q. constructor. intros _. reflexivity.
Qed.

Lemma disc_loop_inv : forall P tt tg f s r c r', gstate s -> py_while f (disc_gen P tt tg) s r = Done c r' ->
  exists s', c = CNext s' /\ gstate s' /\
             (let '(_, _, _, _, gens, leaves) := s' in disc_test tt tg leaves gens = false).
Proof.
  intros P tt tg f s r c r' Hg H.
  eapply (py_while_inv (disc_gen P tt tg) gstate
            (fun s' => let '(_, _, _, _, gens, leaves) := s' in disc_test tt tg leaves gens = false)); eauto.
  intros s0 r0 c0 r0' Hg0 H0. pose proof (disc_gen_inv _ _ _ _ _ _ _ Hg0 H0) as Hc.
  destruct c0 as [s1|s1|[]]; [tauto|]. destruct Hc as (-> & _ & Ht). auto.
Qed.

(* for nd in tree.leaf_nodes(): nd.edge.length += gens_to_add *)
Lemma disc_grow_fold : forall add t, NoDup (ids t) ->
  fold_left (disc_grow add) (leaf_ids t) t = add_len_set (leaf_ids t) (inject_Z (Z.of_nat add)) t.
Proof.
  intros add t Hn.
  change (disc_grow add) with (Gen.Sim.gen_birth_death_tree_loop_fold2 (inject_Z (Z.of_nat add))).
  apply gen_grow_fold; [exact Hn|apply NoDup_leaf_ids; exact Hn].
Qed.

Lemma ginv_grow : forall t next w, ginv t next -> ginv (add_len_set (leaf_ids t) w t) next.
Proof.
  intros t next w [Hn Hf Hb [D He]]. constructor.
  - rewrite add_len_set_ids. exact Hn.
  - intros y. rewrite add_len_set_ids. apply Hf.
  - apply add_len_set_arity. exact Hb.
  - exists (D + w)%Q. rewrite add_len_set_leaf_ids. apply eqd_add_len_set; [|exact He].
    intros i Hi. apply leaf_not_inner; assumption.
Qed.

(* ------------------------------------------------------------------------------------------ *)
(* Tree.randomly_assign_taxa                                                                    *)
(* ------------------------------------------------------------------------------------------ *)

Definition tlabel (k : nat) : lab := LT true (S k).

Lemma rat_fresh_spec : forall leaves i m ns',
  rat_fresh leaves i (map tlabel (seq 0 i)) = (m, ns') ->
  map fst m = leaves /\ map snd m = seq i (length leaves) /\ ns' = map tlabel (seq 0 (i + length leaves)).
Proof.
  induction leaves as [|nd L IH]; intros i m ns' H; simpl in H.
  - inversion H; subst. rewrite Nat.add_0_r. auto.
  - rewrite (require_fresh false false (S i) (map tlabel (seq 0 i)) (map tlabel (seq 0 i))) in H.
    + rewrite map_length, seq_length in H.
      assert (E : map tlabel (seq 0 i) ++ [LT true (S i)] = map tlabel (seq 0 (S i))).
      { rewrite seq_S, map_app. reflexivity. }
      rewrite E in H. destruct (rat_fresh L (S i) (map tlabel (seq 0 (S i)))) as [m1 ns1] eqn:Er.
      inversion H; subst. destruct (IH _ _ _ Er) as (A & B & C). simpl. rewrite A, B, C.
      replace (S i + length L) with (i + S (length L)) by lia. auto.
    + auto.
    + intro Hc. apply in_map_iff in Hc. destruct Hc as (k & Ek & Hk). unfold tlabel in Ek. inversion Ek; subst.
      apply in_seq in Hk. lia.
    + right. right. intros j Hc. apply in_map_iff in Hc. destruct Hc as (k & Ek & _). discriminate.
Qed.

Lemma rat_pool_spec : forall leaves taxa r m r', NoDup taxa ->
  rat_pool leaves taxa r = Done m r' ->
  map fst m = leaves /\ NoDup (map snd m) /\ (forall x, In x (map snd m) -> In x taxa).
Proof.
  induction leaves as [|nd L IH]; intros taxa r m r' Hn H; simpl in H.
  - apply ret_Done in H. destruct H as [<- _]. simpl. repeat split; [constructor|intros x []].
  - destruct (0 <? length taxa) eqn:E; [|discriminate]. apply Nat.ltb_lt in E.
    bnd_inv H j r1 Hj H. bnd_inv H m1 r2 Hm H. apply ret_Done in H. destruct H as [<- _].
    apply d_randint_Done in Hj.
    assert (Hjl : j < length taxa) by (destruct Hj as ((_ & Hj) & _); lia).
    pose proof (remove_nth_perm 0 j taxa Hjl) as Hp.
    pose proof (Permutation_NoDup Hp Hn) as Hn2. inversion Hn2 as [|? ? Hx Hn3]; subst.
    destruct (IH _ _ _ _ Hn3 Hm) as (A & B & C). simpl. rewrite A. repeat split.
    + constructor; [|exact B]. intro Hc. apply Hx. apply C. exact Hc.
    + intros x [<-|Hx']; [apply nth_In; exact Hjl|].
      apply (Permutation_in _ (Permutation_sym Hp)). right. apply C. exact Hx'.
Qed.

Lemma set_tax_ids : forall m t, ids (set_tax m t) = ids t.
Proof. intros. rewrite set_tax_relabel. apply relabel_ids. Qed.
Lemma set_tax_leaf_ids : forall m t, leaf_ids (set_tax m t) = leaf_ids t.
Proof. intros. rewrite set_tax_relabel. apply relabel_leaf_ids. Qed.

Lemma ginv_set_tax : forall m t next, ginv t next -> ginv (set_tax m t) next.
Proof.
  intros m t next [Hn Hf Hb [D He]]. constructor.
  - rewrite set_tax_ids. exact Hn.
  - intros y. rewrite set_tax_ids. apply Hf.
  - rewrite set_tax_relabel. apply arity_relabel. exact Hb.
  - exists D. rewrite set_tax_leaf_ids, set_tax_relabel.
    apply (eqd_relabel_tax (leaf_ids t) D (fun i x => match assoc i m with Some y => Some y | None => x end)). exact He.
Qed.

Lemma set_tax_result : forall (m : list (nat * nat)) t n, NoDup (ids t) -> map fst m = leaf_ids t ->
  NoDup (map snd m) -> (forall x, In x (map snd m) -> x < n) ->
  (forall x, In x (leaf_taxa (set_tax m t)) -> exists i, x = Some i /\ i < n) /\ NoDup (leaf_taxa (set_tax m t)).
Proof.
  intros m t n Hn Hfst Hsnd Hlt.
  assert (Hin : forall i, In i (leaf_ids t) -> In i (map fst m)) by (rewrite Hfst; auto).
  rewrite leaf_taxa_set_tax, (taxa_map m (leaf_ids t) (leaf_taxa t) Hin (leaf_ids_taxa_length t)). split.
  - intros x Hx. apply in_map_iff in Hx. destruct Hx as (i & <- & Hi).
    destruct (assoc_found m i (Hin i Hi)) as (v & Ev & Hv). exists v. split; [exact Ev|].
    apply Hlt. apply in_map_iff. exists (i, v). auto.
  - apply assoc_inj_NoDup; auto. apply NoDup_leaf_ids. exact Hn.
Qed.

Lemma rat_spec : forall t ns next r t' ns' r', ginv t next ->
  py_randomly_assign_taxa t ns r = Done (t', ns') r' ->
  ginv t' next /\ leaf_ids t' = leaf_ids t /\
  (forall x, In x (leaf_taxa t') -> exists i, x = Some i /\ i < length ns') /\ NoDup (leaf_taxa t') /\
  (exists extra, ns' = ns ++ extra).
Proof.
  intros t ns next r t' ns' r' Hg H. unfold py_randomly_assign_taxa in H.
  destruct (length ns =? 0) eqn:E.
  - apply Nat.eqb_eq in E. destruct ns; [|discriminate].
    destruct (rat_fresh (leaf_ids t) 0 []) as [m ns1] eqn:Er. apply ret_Done in H. destruct H as [H _].
    inversion H; subst. destruct (rat_fresh_spec (leaf_ids t) 0 m ns' Er) as (A & B & C).
    split; [apply ginv_set_tax; exact Hg|]. split; [apply set_tax_leaf_ids|].
    destruct (set_tax_result m t (length ns') (gi_nodup _ _ Hg) A) as [R1 R2].
    + rewrite B. apply seq_NoDup.
    + intros x Hx. rewrite B in Hx. apply in_seq in Hx. rewrite C, map_length, seq_length. lia.
    + repeat split; auto. exists ns'. reflexivity.
  - bnd_inv H m r1 Hm H. apply ret_Done in H. destruct H as [H _]. inversion H; subst.
    destruct (rat_pool_spec _ _ _ _ _ (seq_NoDup (length ns') 0) Hm) as (A & B & C).
    split; [apply ginv_set_tax; exact Hg|]. split; [apply set_tax_leaf_ids|].
    destruct (set_tax_result m t (length ns') (gi_nodup _ _ Hg) A B) as [R1 R2].
    + intros x Hx. apply C in Hx. apply in_seq in Hx. lia.
    + repeat split; auto. exists []. rewrite app_nil_r. reflexivity.
Qed.

(* ------------------------------------------------------------------------------------------ *)
(* the result                                                                                   *)
(* ------------------------------------------------------------------------------------------ *)

Lemma disc_main_spec : forall P ns tt r t ns' r',
  disc_main P ns tt r = Done (t, ns') r' ->
  (exists next, ginv t next) /\
  (forall x, In x (leaf_taxa t) -> exists i, x = Some i /\ i < length ns') /\ NoDup (leaf_taxa t) /\
  (exists extra, ns' = ns ++ extra) /\
  (dp_maxt P = None -> forall N, tt = Some N -> N <= length (leaf_ids t)).
Proof.
  intros P ns tt r t ns' r' H. unfold disc_main in H. cbv zeta in H.
  bnd_inv H c r1 H1 H. unfold py_while_script in H1.
  match type of H1 with py_while _ _ ?s0 _ = _ =>
    assert (Hg0 : gstate s0) by (split; [exact ginv_init|reflexivity]) end.
  destruct (disc_loop_inv _ _ _ _ _ _ _ _ Hg0 H1) as (s' & -> & Hg & Ht). clear Hg0.
  destruct s' as [[[[[br dr] t1] next] g] leaves]. destruct Hg as [Hg ->].
  bnd_inv H c2 r2 H2 H.
  assert (Hfin : forall add, (let! (t0, ns0) := py_randomly_assign_taxa (fold_left (disc_grow add) (leaf_ids t1) t1) ns in ret (t0, ns0)) r2
                   = Done (t, ns') r' ->
    (exists next, ginv t next) /\
    (forall x, In x (leaf_taxa t) -> exists i, x = Some i /\ i < length ns') /\ NoDup (leaf_taxa t) /\
    (exists extra, ns' = ns ++ extra) /\ leaf_ids t = leaf_ids t1).
  { intros add Hf. bnd_inv Hf a r3 Ha Hf. destruct a as [t3 ns3]. apply ret_Done in Hf. destruct Hf as [Hf _].
    inversion Hf; subst. rewrite (disc_grow_fold add t1 (gi_nodup _ _ Hg)) in Ha.
    destruct (rat_spec _ _ next _ _ _ _ (ginv_grow t1 next _ Hg) Ha) as (G & L & T1 & T2 & T3).
    split; [eauto|]. repeat split; auto. rewrite L. apply add_len_set_leaf_ids. }
  assert (Hfin2 : (exists next, ginv t next) /\
    (forall x, In x (leaf_taxa t) -> exists i, x = Some i /\ i < length ns') /\ NoDup (leaf_taxa t) /\
    (exists extra, ns' = ns ++ extra) /\ leaf_ids t = leaf_ids t1).
  { destruct c2 as [add|add|[]]; eapply Hfin; exact H. }
  destruct Hfin2 as (A & B & C & D & E). repeat split; auto.
  intros Hm N ->. rewrite E. unfold disc_test in Ht. rewrite Hm in Ht. simpl in Ht.
  rewrite andb_true_r in Ht. apply Nat.ltb_ge in Ht. exact Ht.
Qed.

Definition disc_target (P : dparams) (ons : option (list lab)) : option nat :=
  match ons with
  | Some ns => Some (match dp_ntax P with Some n => n | None => length ns end)
  | None => dp_ntax P
  end.

Theorem disc_result_spec_proved : forall P ons script t ns' r,
  disc_sim P ons script = Done (t, ns') r ->
  (forall s, In s (subtrees t) -> length (b_kids s) = 0 \/ length (b_kids s) = 2) /\
  NoDup (ids t) /\
  (exists D, forall x q, In (x, q) (depths t) -> q == D)%Q /\
  (forall x, In x (leaf_taxa t) -> exists i, x = Some i /\ i < length ns') /\
  NoDup (leaf_taxa t) /\
  (exists extra, ns' = match ons with Some ns => ns | None => [] end ++ extra) /\
  (dp_maxt P = None -> forall N, disc_target P ons = Some N -> N <= length (leaf_ids t)).
Proof.
  intros P ons script t ns' r H. unfold disc_sim, disc_run in H.
  assert (Hm : exists ns tt, disc_main P ns tt (script, []) = Done (t, ns') r /\
                 ns = match ons with Some ns => ns | None => [] end /\
                 (forall N, disc_target P ons = Some N -> tt = Some N)).
  { destruct ons as [ns|].
    - unfold disc_run_ns in H. eexists _, _. split; [exact H|]. split; [reflexivity|].
      intros N HN. simpl in HN. unfold py_kw_get. exact HN.
    - unfold disc_run_nons in H. destruct (py_is_none (dp_ntax P) && py_is_none (dp_maxt P)); [discriminate|].
      eexists _, _. split; [exact H|]. split; [reflexivity|].
      intros N HN. simpl in HN. rewrite HN. reflexivity. }
  destruct Hm as (ns & tt & Hmain & -> & Htt).
  destruct (disc_main_spec _ _ _ _ _ _ _ Hmain) as ([next [Hn Hf Hb [D He]]] & T1 & T2 & T3 & T4).
  split; [|split; [exact Hn|split; [|repeat split; auto]]].
  - exact (proj1 (arity_subtrees bin t) Hb).
  - exists (0 + D)%Q. intros x q Hq. unfold depths in Hq. eapply eqd_depths; [|exact He|exact Hq]. auto.
Qed.

(* ------------------------------------------------------------------------------------------ *)
(* total extinction: the seed node (the only lineage) dies                                      *)
(* ------------------------------------------------------------------------------------------ *)

Lemma disc_total_extinction : forall P br dr t next g u rest calls,
  b_has br (b_id t) = true -> b_has dr (b_id t) = true ->
  Qltb u (b_rate br (b_id t)) = false ->
  Qltb (b_rate br (b_id t)) u && Qltb u (b_rate br (b_id t) + b_rate dr (b_id t))%Q = true ->
  disc_leaf P (br, dr, t, next, g) (b_id t) (DUnit u :: rest, calls) =
  if dp_repeat P
  then Done (CNext (br, dr, b_upd_len t (b_id t) (fun l_ => (l_ + 1)%Q), next, 0)) (rest, CUnit :: calls)
  else PyErr PyPrims.OtherErr.
Proof.
  intros P br dr t next g u rest calls Hb Hd H1 H2. unfold disc_leaf. cbv beta iota zeta.
  rewrite Hb, Hd. cbn [negb]. unfold bnd at 1. unfold py_uniform01, d_unit. cbn [fst snd].
  rewrite H1, H2.
  assert (E : b_id (b_upd_len t (b_id t) (fun l_ : Q => (l_ + 1)%Q)) = b_id t).
  { destruct t as [i l x ks]. unfold b_upd_len. simpl. rewrite Nat.eqb_refl. reflexivity. }
  rewrite E. unfold b_is. rewrite Nat.eqb_refl. cbn [negb]. destruct (dp_repeat P); reflexivity.
Qed.

(* ------------------------------------------------------------------------------------------ *)
(* witnesses                                                                                    *)
(* ------------------------------------------------------------------------------------------ *)

Definition wit_G : list draw := [DGauss 0; DGauss 0; DGauss 0; DGauss 0].
Definition wit_birth : list draw := DUnit (1#10) :: wit_G.
Definition wit_P : dparams := mkDp (1#2) (1#10) 0 0 false (Some 3) None.

(* ntax = 3, three births (the root, then both of its children in ONE generation): 4 tips *)
Lemma disc_exact_tip_count_refuted_proved :
  exists P script t ns' r N, dp_maxt P = None /\ disc_target P None = Some N /\ (dp_d P < dp_b P)%Q /\
    disc_sim P None script = Done (t, ns') r /\ length (leaf_ids t) <> N.
Proof.
  exists wit_P, (wit_birth ++ wit_birth ++ wit_birth ++ [DUnit (1#5)]).
  vm_compute. do 4 eexists. repeat split; try reflexivity. discriminate.
Qed.

(* a namespace of 3 taxa, no ntax: the tree is grown to len(namespace) = 3 tips, overshoots to 4,
   and Tree.randomly_assign_taxa raises AttributeError (TaxonNamespace.has_taxon does not exist) *)
Lemma disc_short_namespace_raises_proved :
  exists P ns script, dp_maxt P = None /\ disc_target P (Some ns) = Some (length ns) /\ (dp_d P < dp_b P)%Q /\
    disc_sim P (Some ns) script = PyErr PyPrims.AttrErr.
Proof.
  exists (mkDp (1#2) (1#10) 0 0 false None None), [LO 0; LO 1; LO 2],
         (wit_birth ++ wit_birth ++ wit_birth ++ [DUnit (1#5); DIndex 0; DIndex 0; DIndex 0]).
  vm_compute. repeat split; reflexivity.
Qed.

(* the hypotheses of disc_result_spec are satisfiable by a run with a death and a seed change *)
Example disc_result_example :
  exists t ns' r, disc_sim wit_P None
     (wit_birth ++ [DUnit (11#20)] ++ wit_birth ++ [DUnit (9#10)] ++ wit_birth ++ [DUnit (1#5)]) = Done (t, ns') r
     /\ length (leaf_ids t) = 3 /\ b_id t = 2.
Proof. vm_compute. do 3 eexists. repeat split; reflexivity. Qed.

(* ------------------------------------------------------------------------------------------ *)
(* the fuel of the model's loops suffices                                                       *)
(* ------------------------------------------------------------------------------------------ *)

Ltac nofuel_step H := apply bnd_NoFuel in H; destruct H as [H|(?a & ?r1 & ?Hd & H)].

Lemma disc_leaf_fuel : forall P s nd r, disc_leaf P s nd r <> NoFuel.
Proof.
  intros P [[[[br dr] t] next] g] nd r H. unfold disc_leaf in H. cbv beta iota zeta in H.
  nofuel_step H; [eapply d_unit_fuel; exact H|].
  match type of H with (if ?b then _ else _) _ = _ => destruct b end.
  - unfold py_new_child in H. cbv beta iota zeta in H.
    nofuel_step H; [eapply d_gauss_fuel; exact H|]. nofuel_step H; [eapply d_gauss_fuel; exact H|].
    nofuel_step H; [eapply d_gauss_fuel; exact H|]. nofuel_step H; [eapply d_gauss_fuel; exact H|]. discriminate.
  - match type of H with (if ?b then _ else _) _ = _ => destruct b end; [|discriminate].
    match type of H with (if ?b then _ else _) _ = _ => destruct b end.
    + nofuel_step H; [|discriminate]. unfold b_prune_subtree_s in H. destruct (parent_of _ _); discriminate.
    + destruct (negb (dp_repeat P)); discriminate.
Qed.

Lemma py_forM_fuel {St A} (body : St -> A -> M (ctl St Empty_set)) :
  (forall s a r, body s a r <> NoFuel) -> forall l s r, py_forM body l s r <> NoFuel.
Proof.
  intros Hb. induction l as [|a l IH]; intros s r H; simpl in H; [discriminate|].
  nofuel_step H; [eapply Hb; exact H|]. destruct a0 as [s1|s1|[]]; [eapply IH; exact H|discriminate].
Qed.

Lemma disc_gen_fuel : forall P tt tg s r, disc_gen P tt tg s r <> NoFuel.
Proof.
  intros P tt tg [[[[[br dr] t] next] g] leaves] r H. unfold disc_gen in H.
  destruct (disc_test tt tg leaves g); [|discriminate].
  nofuel_step H; [eapply py_forM_fuel; [apply disc_leaf_fuel|exact H]|].
  destruct a as [[[[[br1 dr1] t1] n1] g1]|[[[[br1 dr1] t1] n1] g1]|[]]; discriminate.
Qed.

Lemma disc_extra_fuel : forall P tg gens f add r, left_ r < f -> py_while f (disc_extra P tg gens) add r <> NoFuel.
Proof.
  intros P tg gens f add r Hl. apply (py_while_fuel (disc_extra P tg gens) (fun _ => True)); auto.
  - intros s r0 _ H. unfold disc_extra in H. destruct (_ || _); [|discriminate].
    nofuel_step H; [eapply d_unit_fuel; exact H|]. destruct (Qltb _ _); discriminate.
  - intros s r0 s' r' _ H. split; [exact I|]. unfold disc_extra in H. destruct (_ || _); [|discriminate].
    bnd_inv H u r1 Hu H. apply d_unit_left in Hu. destruct (Qltb _ _); [discriminate|].
    apply ret_Done in H. destruct H as [_ <-]. lia.
Qed.

Lemma rat_pool_fuel : forall leaves taxa r, rat_pool leaves taxa r <> NoFuel.
Proof.
  induction leaves as [|nd L IH]; intros taxa r H; simpl in H; [discriminate|].
  destruct (0 <? length taxa); [|discriminate].
  nofuel_step H; [eapply d_randint_fuel; exact H|]. nofuel_step H; [eapply IH; exact H|discriminate].
Qed.

Lemma rat_fuel : forall ns t0 r0,
  (let! (t2, ns0) := py_randomly_assign_taxa t0 ns in ret (t2, ns0)) r0 <> NoFuel.
Proof.
  intros ns t0 r0 H0. nofuel_step H0; [|destruct a; discriminate].
  unfold py_randomly_assign_taxa in H0. destruct (length ns =? 0).
  - destruct (rat_fresh _ _ _); discriminate.
  - nofuel_step H0; [eapply rat_pool_fuel; exact H0|discriminate].
Qed.

Lemma disc_main_fuel : forall P ns tt r, disc_main P ns tt r <> NoFuel.
Proof.
  intros P ns tt r H. unfold disc_main in H. cbv zeta in H.
  nofuel_step H.
  - revert H. apply (py_while_script_fuel (disc_gen P tt (dp_maxt P)) gstate).
    + intros s r0 _. apply disc_gen_fuel.
    + intros s r0 s' r' Hg H0. exact (disc_gen_inv _ _ _ _ _ _ _ Hg H0).
    + split; [exact ginv_init|reflexivity].
  - destruct a as [[[[[[br dr] t1] next] g] leaves]|[[[[[br dr] t1] next] g] leaves]|[]].
    all: nofuel_step H; [revert H; apply disc_extra_fuel; unfold left_; lia|].
    all: destruct a as [add|add|[]]; eapply rat_fuel; exact H.
Qed.

Theorem disc_fuel_proved : forall P ons script, disc_sim P ons script <> NoFuel.
Proof.
  intros P ons script. unfold disc_sim, disc_run. destruct ons as [ns|].
  - apply disc_main_fuel.
  - unfold disc_run_nons. destruct (_ && _); [discriminate|]. apply disc_main_fuel.
Qed.

Lemma dinv_unfold_proved : forall D U V t next,
  dinv D U V t next <->
  (NoDup (ids t) /\ (forall y, In y (ids t) -> y < next) /\
   (forall s, In s (subtrees t) -> length (b_kids s) = 0 \/ length (b_kids s) = 2) /\
   NoDup U /\ (forall y, In y (leaf_ids t) <-> In y U \/ In y V) /\ (forall y, In y U -> ~ In y V) /\
   eqd U D t /\ eqd V (D + 1) t).
Proof.
  intros. split.
  - intros [A B C E F G H I]. split; [exact A|]. split; [exact B|]. split; [exact (proj1 (arity_subtrees bin t) C)|].
    split; [exact E|]. split; [exact F|]. split; [exact G|]. split; [exact H|exact I].
  - intros (A & B & C & E & F & G & H & I). constructor; auto. apply (proj2 (arity_subtrees bin t)). exact C.
Qed.
