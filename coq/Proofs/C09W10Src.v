(* C09, wave 10 (a): the source round trip over whole routes, instantiated for every format C09 has a round-trip
   theorem for (PHYLIP in its four variants, PHYLIP continuous, NEXUS characters fixed and STANDARD data types, and
   the format-indexed `through`), each with an Example that its hypotheses hold together. *)
From Coq Require Import ZArith List Bool Lia Permutation.
From DV Require Import Model.PyPrims Model.C09AlphaTypes Model.C09Alphabets Model.C09Model Model.C09Spec Model.C09Nexus Model.C09Convert Model.C09Obj.
From DV Require Import Proofs.C09Text Proofs.C09Fasta Proofs.C09PhylipInst Proofs.C09NexusProofs Proofs.C09NexusStd
  Proofs.C09Main Proofs.C09Examples Proofs.C09ObjProofs Proofs.C09W9Sep.
Import ListNotations.
Open Scope Z_scope.

(* the matrix as every writer walks it: namespace order over the dereferenced rows *)
Local Notation MX ns w mi := (iter_rows ns (deref (ow_store w) mi)).

(* continuous matrices: the store's cells name the values (dec) *)
Definition cont_rows {V : Type} (dec : Z -> V) (m : matrix) : list (text * list V) :=
  map (fun r => (fst r, map dec (snd r))) m.

(* the frame, as equality of the walked matrix *)
Lemma route_source_matrix_l : forall (ns : list text) w ops w' i mi,
  sep w -> o_run CopyValues w ops = Ok w' -> (forall o, In o ops -> receiver o <> Some i) ->
  nth_error (ow_ms w) i = Some mi ->
  exists mi', nth_error (ow_ms w') i = Some mi' /\ MX ns w' mi' = MX ns w mi.
Proof.
  intros ns w ops w' i mi S Hs Hr Hi. destruct (o_run_frame ops w w' i mi S Hs Hr Hi) as [Hn Hd].
  exists mi. split; [exact Hn | rewrite Hd; reflexivity].
Qed.

Lemma source_phylip_after_route_l : forall (lower : text -> text) (a : alphabet) (wo : phy_wopts) (ro : phy_ropts)
    (nchar : Z) (ns : list text) w ops w' i mi,
  sep w -> o_run CopyValues w ops = Ok w' -> (forall o, In o ops -> receiver o <> Some i) ->
  nth_error (ow_ms w) i = Some mi ->
  r_strict ro = w_strict wo ->
  MX ns w mi <> [] -> 1 <= nchar ->
  forallb (phylip_label_ok wo ro) (map fst (MX ns w mi)) = true ->
  labels_distinct lower (map fst (MX ns w mi)) = true ->
  cells_ok a (MX ns w mi) = true ->
  rectangular nchar (MX ns w mi) = true ->
  exists mi', nth_error (ow_ms w') i = Some mi' /\
    exists t, write_phylip (symbols_as_string a) wo (MX ns w' mi') = Ok t
              /\ read_phylip lower Z (phylip_states a) ro t = Ok (MX ns w mi).
Proof.
  intros lower a wo ro nchar ns w ops w' i mi S Hs Hr Hi H1 H2 H3 H4 H5 H6 H7.
  destruct (route_source_matrix_l ns w ops w' i mi S Hs Hr Hi) as (mi' & Hn & E).
  exists mi'. split; [exact Hn|]. rewrite E. apply (phylip_roundtrip_l lower a wo ro nchar); assumption.
Qed.

Lemma source_phylip_continuous_after_route_l : forall (lower : text -> text) (V : Type) (render : V -> text)
    (parse : text -> option V) (dec : Z -> V),
  (forall v, parse (render v) = Some v) ->
  (forall v, render v <> [] /\ nospace (render v)) ->
  forall (wo : phy_wopts) (ro : phy_ropts) (nchar : Z) (ns : list text) w ops w' i mi,
  sep w -> o_run CopyValues w ops = Ok w' -> (forall o, In o ops -> receiver o <> Some i) ->
  nth_error (ow_ms w) i = Some mi ->
  r_strict ro = w_strict wo ->
  cont_rows dec (MX ns w mi) <> [] -> 1 <= nchar ->
  forallb (phylip_label_ok wo ro) (map fst (cont_rows dec (MX ns w mi))) = true ->
  labels_distinct lower (map fst (cont_rows dec (MX ns w mi))) = true ->
  rectangular nchar (cont_rows dec (MX ns w mi)) = true ->
  exists mi', nth_error (ow_ms w') i = Some mi' /\
    exists t, write_phylip (cont_as_string V render) wo (cont_rows dec (MX ns w' mi')) = Ok t
              /\ read_phylip lower V (phylip_cont V parse) ro t = Ok (cont_rows dec (MX ns w mi)).
Proof.
  intros lower V render parse dec P1 P2 wo ro nchar ns w ops w' i mi S Hs Hr Hi H1 H2 H3 H4 H5 H6.
  destruct (route_source_matrix_l ns w ops w' i mi S Hs Hr Hi) as (mi' & Hn & E).
  exists mi'. split; [exact Hn|]. rewrite E.
  apply (phylip_continuous_roundtrip_l lower V render parse P1 P2 wo ro nchar); assumption.
Qed.

Lemma source_nexus_after_route_l : forall (lower : text -> text) (dt : dtype) (simple cs : bool) (nchar : Z)
    (ns : list text) w ops w' i mi,
  sep w -> o_run CopyValues w ops = Ok w' -> (forall o, In o ops -> receiver o <> Some i) ->
  nth_error (ow_ms w) i = Some mi ->
  fixed_dtype dt = true ->
  MX ns w mi <> [] -> 1 <= nchar ->
  forallb label_token_ok (map fst (MX ns w mi)) = true ->
  NoDup (map (keyf lower cs) (map fst (MX ns w mi))) ->
  cells_ok (alphabet_of_dtype dt) (MX ns w mi) = true ->
  rectangular nchar (MX ns w mi) = true ->
  exists mi', nth_error (ow_ms w') i = Some mi' /\
    exists toks st',
      write_chars_block dt [alphabet_of_dtype dt] [] (mkNW simple None None) (MX ns w' mi') = Ok toks
      /\ read_chars_block lower keep_ns
           (if simple then nx_init [] None cs
            else nx_init (map fst (MX ns w mi)) (Some (len (MX ns w mi))) cs) toks
         = Ok (st', [mkBR dt (alphabet_of_dtype dt) (MX ns w mi) (map fst (MX ns w mi)) None None], [EOL; EOL; EOL]).
Proof.
  intros lower dt simple cs nchar ns w ops w' i mi S Hs Hr Hi H1 H2 H3 H4 H5 H6 H7.
  destruct (route_source_matrix_l ns w ops w' i mi S Hs Hr Hi) as (mi' & Hn & E).
  exists mi'. split; [exact Hn|]. rewrite E. apply (nexus_chars_roundtrip_l lower dt simple cs _ nchar); assumption.
Qed.

Lemma source_nexus_standard_after_route_l : forall (lower : text -> text) (dt : dtype) (a : alphabet)
    (sym_order : list text) (simple cs : bool) (nchar : Z) (ns : list text) w ops w' i mi,
  sep w -> o_run CopyValues w ops = Ok w' -> (forall o, In o ops -> receiver o <> Some i) ->
  nth_error (ow_ms w) i = Some mi ->
  std_dtype dt = true -> std_alphabet_ok a = true ->
  same_set sym_order (fundamental_symbols [a]) = true -> texts_distinct sym_order = true ->
  MX ns w mi <> [] -> 1 <= nchar ->
  forallb label_token_ok (map fst (MX ns w mi)) = true ->
  NoDup (map (keyf lower cs) (map fst (MX ns w mi))) ->
  forallb (fun r => forallb (valid_cell a) (snd r)) (MX ns w mi) = true ->
  rectangular nchar (MX ns w mi) = true ->
  exists mi', nth_error (ow_ms w') i = Some mi' /\
    exists toks st' b rows',
      write_chars_block dt [a] sym_order (mkNW simple None None) (MX ns w' mi') = Ok toks
      /\ read_chars_block lower keep_ns
           (if simple then nx_init [] None cs
            else nx_init (map fst (MX ns w mi)) (Some (len (MX ns w mi))) cs) toks
         = Ok (st', [mkBR DtStandard b rows' (map fst (MX ns w mi)) None None], [EOL; EOL; EOL])
      /\ map fst rows' = map fst (MX ns w mi)
      /\ map (fun r => map (state_str b) (snd r)) rows'
         = map (fun r => map (state_str a) (snd r)) (MX ns w mi).
Proof.
  intros lower dt a so simple cs nchar ns w ops w' i mi S Hs Hr Hi H1 H2 H3 H4 H5 H6 H7 H8 H9 H10.
  destruct (route_source_matrix_l ns w ops w' i mi S Hs Hr Hi) as (mi' & Hn & E).
  exists mi'. split; [exact Hn|]. rewrite E.
  apply (nexus_standard_roundtrip_l lower dt a so simple cs _ nchar); assumption.
Qed.

(* every modelled format at once (FASTA any wrapping, any PHYLIP variant, NEXUS DATA / CHARACTERS) *)
Lemma source_through_after_route_l : forall (lower : text -> text) (dt : dtype) (nchar : Z) (f : format)
    (ns : list text) w ops w' i mi,
  sep w -> o_run CopyValues w ops = Ok w' -> (forall o, In o ops -> receiver o <> Some i) ->
  nth_error (ow_ms w) i = Some mi ->
  admissible lower dt nchar f (MX ns w mi) = true ->
  exists mi', nth_error (ow_ms w') i = Some mi' /\ through lower dt f (MX ns w' mi') = Ok (MX ns w mi).
Proof.
  intros lower dt nchar f ns w ops w' i mi S Hs Hr Hi H.
  destruct (route_source_matrix_l ns w ops w' i mi S Hs Hr Hi) as (mi' & Hn & E).
  exists mi'. split; [exact Hn|]. rewrite E. exact (through_identity_l lower dt nchar f _ H).
Qed.

(* ---- satisfiability: a three-step route over two delivered matrices; matrix 0 is never a receiver ---- *)

Definition ex_route10 : list oop :=
  [OBin (BExtend true) 1%nat 0%nat; OConcat [0%nat; 1%nat]; OExport 2%nat [0; 2]].
Definition ex_mi0 : orows := [([97], 0); ([98], 1)].

Lemma ex10_route :
  sep (o_init ex_ms)
  /\ (exists w', o_run CopyValues (o_init ex_ms) ex_route10 = Ok w' /\ length (ow_ms w') = 4%nat)
  /\ (forall o, In o ex_route10 -> receiver o <> Some 0%nat)
  /\ nth_error (ow_ms (o_init ex_ms)) 0 = Some ex_mi0
  /\ MX ex_ns (o_init ex_ms) ex_mi0 = [([97], [0; 1]); ([98], [2; 3])].
Proof.
  split; [exact ex_sep|]. split; [eexists; split; vm_compute; reflexivity|]. split.
  - intros o H. cbn in H. destruct H as [H | [H | [H | []]]]; subst o; cbn; discriminate.
  - split; vm_compute; reflexivity.
Qed.

Lemma nodup2 : forall (x y : text), x <> y -> NoDup [x; y].
Proof. intros x y H. constructor; [intros [E | []]; exact (H (eq_sym E)) | constructor; [intros [] | constructor]]. Qed.

Lemma ex10_phylip_hyps :
  let m := MX ex_ns (o_init ex_ms) ex_mi0 in
  r_strict (mkPR true true false true) = w_strict (mkPW true true) /\ m <> [] /\ 1 <= 2
  /\ forallb (phylip_label_ok (mkPW true true) (mkPR true true false true)) (map fst m) = true
  /\ forallb (phylip_label_ok (mkPW false false) (mkPR false false true false)) (map fst m) = true
  /\ labels_distinct ascii_low (map fst m) = true /\ cells_ok alpha_dna m = true /\ rectangular 2 m = true.
Proof. vm_compute. repeat split. discriminate. discriminate. Qed.

Lemma ex10_cont_hyps :
  let m := cont_rows (fun z => z) (MX ex_ns (o_init ex_ms) ex_mi0) in
  m <> [] /\ forallb (phylip_label_ok (mkPW false false) (mkPR false true true false)) (map fst m) = true
  /\ labels_distinct ascii_low (map fst m) = true /\ rectangular 2 m = true.
Proof. vm_compute. repeat split. discriminate. Qed.

Lemma ex10_nexus_hyps :
  let m := MX ex_ns (o_init ex_ms) ex_mi0 in
  fixed_dtype DtDna = true /\ m <> [] /\ 1 <= 2 /\ forallb label_token_ok (map fst m) = true
  /\ NoDup (map (keyf ascii_low false) (map fst m)) /\ cells_ok (alphabet_of_dtype DtDna) m = true
  /\ rectangular 2 m = true.
Proof.
  vm_compute. split; [reflexivity|]. split; [discriminate|]. split; [discriminate|]. split; [reflexivity|].
  split; [apply nodup2; discriminate|]. split; reflexivity.
Qed.

Lemma ex10_standard_hyps :
  let m := MX ex_ns (o_init ex_ms) ex_mi0 in
  std_dtype DtStandard = true /\ std_alphabet_ok alpha_standard = true
  /\ same_set ex_order (fundamental_symbols [alpha_standard]) = true /\ texts_distinct ex_order = true
  /\ m <> [] /\ forallb label_token_ok (map fst m) = true
  /\ NoDup (map (keyf ascii_low true) (map fst m))
  /\ forallb (fun r => forallb (valid_cell alpha_standard) (snd r)) m = true /\ rectangular 2 m = true.
Proof.
  vm_compute. do 4 (split; [reflexivity|]). split; [discriminate|]. split; [reflexivity|].
  split; [apply nodup2; discriminate|]. split; reflexivity.
Qed.

Lemma ex10_through_hyps :
  let m := MX ex_ns (o_init ex_ms) ex_mi0 in
  admissible ascii_low DtDna 2 (FFasta true 70) m = true
  /\ admissible ascii_low DtDna 2 (FPhylip (mkPW true false) (mkPR true true false false)) m = true
  /\ admissible ascii_low DtDna 2 (FPhylip (mkPW false false) (mkPR false false false false)) m = true
  /\ admissible ascii_low DtDna 2 (FNexus false) m = true /\ admissible ascii_low DtProtein 2 (FNexus true) m = true.
Proof. vm_compute. repeat split. Qed.
