(* C09: PHYLIP writer/reader round trip, for the four variants, generic in the cell codec *)
From Coq Require Import ZArith List Bool Lia.
From DV Require Import Model.PyPrims Model.C09AlphaTypes Model.C09Model Model.C09Spec Proofs.C09Text Proofs.C09Fasta.
Import ListNotations.
Open Scope Z_scope.
Arguments state_of_symbol : simpl never.
Arguments plain_symbol_char : simpl never.
Arguments is_space : simpl never.
Arguments is_blank : simpl never.

(* ---- splitting the label off a relaxed line ---- *)

Definition head_nonblank (e : text) : Prop := match e with [] => True | c :: _ => is_blank c = false end.

Lemma blank_32 : is_blank 32 = true. Proof. reflexivity. Qed.

Lemma span_blank_spaces : forall j e, head_nonblank e -> span is_blank (repeat 32 j ++ e) = (repeat 32 j, e).
Proof.
  intros j e H. apply span_app.
  - induction j; simpl; [reflexivity | try rewrite blank_32; exact IHj].
  - destruct e; [exact I | exact H].
Qed.

Lemma split_blank1_ok : forall c j e, existsb is_blank c = false -> (1 <= j)%nat -> head_nonblank e ->
  split_blank1 (c ++ repeat 32 j ++ e) = (c, e).
Proof.
  induction c as [|x c IH]; intros j e Hc Hj He.
  - destruct j as [|j]; [lia|]. simpl. try rewrite blank_32. rewrite span_blank_spaces by exact He. reflexivity.
  - simpl in Hc. apply orb_false_iff in Hc. destruct Hc as [Hx Hc]. simpl. rewrite Hx.
    rewrite (IH j e Hc Hj He). reflexivity.
Qed.

Lemma split_blank2_spaces : forall j e, (2 <= j)%nat -> head_nonblank e ->
  split_blank2 (repeat 32 j ++ e) = ([], e).
Proof.
  intros j e Hj He. destruct j as [|[|j]]; try lia. simpl. try rewrite blank_32.
  change (32 :: repeat 32 j ++ e) with (repeat 32 (S j) ++ e).
  rewrite span_blank_spaces by exact He. reflexivity.
Qed.

Definition last_nonblank (c : text) : Prop := exists p x, c = p ++ [x] /\ is_blank x = false.

Lemma last_nonblank_cons : forall x c, c <> [] -> last_nonblank (x :: c) -> last_nonblank c.
Proof.
  intros x c N [p [y [E Hy]]]. destruct p as [|z p].
  - simpl in E. inversion E. subst. contradiction.
  - simpl in E. inversion E. subst. exists p, y. split; [reflexivity | exact Hy].
Qed.

Lemma split_blank2_ok : forall c j e, no_double_blank c = true -> last_nonblank c -> (2 <= j)%nat ->
  head_nonblank e -> split_blank2 (c ++ repeat 32 j ++ e) = (c, e).
Proof.
  induction c as [|x c IH]; intros j e Hd Hl Hj He.
  - destruct Hl as [p [y [E _]]]. destruct p; discriminate.
  - destruct c as [|d c'].
    + (* x is the last character: not blank *)
      destruct Hl as [p [y [E Hy]]]. destruct p as [|? [|? ?]]; simpl in E; inversion E; subst.
      simpl app. cbn [split_blank2]. rewrite Hy. rewrite split_blank2_spaces by assumption. reflexivity.
    + assert (Hl' : last_nonblank (d :: c')) by (apply (last_nonblank_cons x); [discriminate | exact Hl]).
      simpl in Hd. apply andb_true_iff in Hd. destruct Hd as [Hxd Hd].
      assert (IHc := IH j e Hd Hl' Hj He).
      change ((x :: d :: c') ++ repeat 32 j ++ e) with (x :: (d :: c') ++ repeat 32 j ++ e).
      cbn [split_blank2].
      destruct (is_blank x) eqn:Bx.
      * change ((d :: c') ++ repeat 32 j ++ e) with (d :: (c' ++ repeat 32 j ++ e)) in *.
        destruct (is_blank d) eqn:Bd; [simpl in Hxd; discriminate|].
        rewrite IHc. rewrite ?Bd. reflexivity.
      * rewrite IHc. reflexivity.
Qed.

Lemma strip_last_nonblank : forall c, c <> [] -> strip c = c -> last_nonblank c.
Proof.
  intros c N H. apply strip_fix in H. destruct H as [_ R].
  destruct (exists_last N) as [p [x E]]. subst c. exists p, x. split; [reflexivity|].
  destruct (is_blank x) eqn:B; [|reflexivity]. exfalso.
  apply blank_is_space in B.
  assert (rstrip (p ++ [x]) = rstrip p).
  { clear R N. induction p as [|y p IH]; simpl; [rewrite B; reflexivity | rewrite IH; reflexivity]. }
  rewrite H in R. pose proof (rstrip_length p). rewrite R in H0. rewrite app_length in H0. simpl in H0. lia.
Qed.

Lemma match_nonempty : forall (A : Type) (l : text) (x : A) (f : text -> A), l <> [] ->
  match l with [] => x | _ :: _ => f l end = f l.
Proof. intros. destruct l; [contradiction | reflexivity]. Qed.

Lemma combine_map_fst : forall (A B : Type) (f : A -> B) (m : list A),
  combine (map f m) m = map (fun r => (f r, r)) m.
Proof. induction m; simpl; [reflexivity | rewrite IHm; reflexivity]. Qed.

Lemma uniq_labels_fresh : forall max todo labels,
  NoDup (labels ++ todo) -> uniq_labels max todo labels = Ok (labels ++ todo).
Proof.
  induction todo as [|l todo IH]; intros labels H; simpl.
  - rewrite List.app_nil_r. reflexivity.
  - assert (M : text_mem l labels = false).
    { apply text_mem_false. apply NoDup_remove_2 in H. intro X. apply H. apply in_or_app. left. exact X. }
    rewrite M. simpl. rewrite IH.
    + rewrite <- app_assoc. reflexivity.
    + rewrite <- app_assoc. exact H.
Qed.

Lemma replace_no_nl : forall x y l, y <> 10 -> y <> 13 -> no_nlcr l -> no_nlcr (replace_char x y l).
Proof.
  intros x y l H1 H2 H c Hc. unfold replace_char in Hc. apply in_map_iff in Hc.
  destruct Hc as [d [E Hd]]. destruct (d =? x); [subst; tauto | subst; apply H; exact Hd].
Qed.

Section Phylip.
Variable lower : text -> text.
Variable C : Type.
Variable enc : list C -> text.
Variable dec : text -> res (list C).
Variable good : list C -> Prop.

Hypothesis enc_nonempty : forall s, good s -> s <> [] -> enc s <> [].
Hypothesis enc_rstrip : forall s, good s -> rstrip (enc s) = enc s.
Hypothesis enc_head : forall s, good s -> head_nonblank (enc s).
Hypothesis enc_nonl : forall s, good s -> no_nlcr (enc s).
Hypothesis dec_enc : forall s, good s -> dec (enc s) = Ok s.

Variable wo : phy_wopts.
Variable ro : phy_ropts.
Hypothesis same_strict : r_strict ro = w_strict wo.

(* what the label as written looks like, and the line of one row *)
Definition wlabel (l : text) : text :=
  if w_strict wo then ljust 10 (conv_label wo l) else conv_label wo l.

Definition row_line (maxlen : Z) (r : text * list C) : text :=
  ljust maxlen (wlabel (fst r)) ++ (if w_strict wo then [] else [32; 32]) ++ enc (snd r).

Lemma label_ok_inv : forall l, phylip_label_ok wo ro l = true ->
  let c := conv_label wo l in
  c <> [] /\ strip c = c /\ no_nlcr c
  /\ (if w_strict wo then len c <= 10
      else if r_multispace ro then no_double_blank c = true else existsb is_blank c = false)
  /\ (if r_u2s ro then replace_char 95 32 c else c) = l.
Proof.
  intros l H. unfold phylip_label_ok in H. cbv zeta in H.
  repeat (apply andb_true_iff in H; destruct H as [H ?]).
  cbv zeta.
  assert (NL : no_nlcr (conv_label wo l)).
  { intros c Hc. apply negb_true_iff in H2.
    destruct ((c =? 10) || (c =? 13)) eqn:E.
    - exfalso. rewrite <- not_true_iff_false in H2. apply H2. apply existsb_exists. exists c. split; assumption.
    - apply orb_false_iff in E. destruct E as [E1 E2]. apply Z.eqb_neq in E1. apply Z.eqb_neq in E2. tauto. }
  split; [destruct (conv_label wo l); [discriminate | discriminate]|].
  split; [apply text_eqb_eq; assumption|].
  split; [exact NL|].
  split.
  - destruct (w_strict wo); [apply Z.leb_le; assumption|].
    destruct (r_multispace ro); [assumption | apply negb_true_iff; assumption].
  - apply text_eqb_eq. assumption.
Qed.

(* the writer's label on a line, then what is left of the line *)
Lemma take_label : forall l s maxlen, phylip_label_ok wo ro l = true -> good s ->
  (w_strict wo = true -> maxlen = 10) ->
  (if r_strict ro then (strip (firstn 10 (row_line maxlen (l, s))), skipn 10 (row_line maxlen (l, s)))
   else if r_multispace ro then split_blank2 (row_line maxlen (l, s))
   else split_blank1 (row_line maxlen (l, s)))
  = (conv_label wo l, enc s).
Proof.
  intros l s maxlen Hl Hg Hmax. destruct (label_ok_inv l Hl) as [N [S [NL [V B]]]].
  unfold row_line, wlabel. cbn [fst snd]. rewrite same_strict.
  destruct (w_strict wo) eqn:St.
  - (* strict *)
    rewrite (Hmax eq_refl).
    set (c := conv_label wo l) in *.
    assert (Lc : (length c <= 10)%nat) by (unfold len in V; lia).
    assert (E1 : ljust 10 c = c ++ repeat 32 (10 - length c)).
    { unfold ljust. f_equal. f_equal. unfold len. lia. }
    assert (L10 : length (ljust 10 c) = 10%nat).
    { rewrite E1. rewrite app_length, repeat_length. lia. }
    assert (E2 : ljust 10 (ljust 10 c) = ljust 10 c).
    { unfold ljust at 1. unfold len. rewrite L10. simpl. apply List.app_nil_r. }
    rewrite E2. simpl app.
    rewrite firstn_app. rewrite L10. rewrite Nat.sub_diag. simpl firstn at 2. rewrite List.app_nil_r.
    rewrite firstn_all2 by lia.
    rewrite skipn_app. rewrite L10. rewrite Nat.sub_diag. rewrite skipn_all2 by lia. simpl.
    rewrite E1. rewrite strip_padded by assumption. reflexivity.
  - (* relaxed *)
    set (c := conv_label wo l) in *.
    destruct (ljust_shape maxlen c) as [k Ek]. rewrite Ek.
    replace ((c ++ repeat 32 k) ++ [32; 32] ++ enc s) with (c ++ repeat 32 (k + 2) ++ enc s).
    2:{ rewrite <- app_assoc. f_equal. rewrite repeat_app. rewrite <- app_assoc. reflexivity. }
    destruct (r_multispace ro).
    + apply split_blank2_ok; [exact V | apply strip_last_nonblank; assumption | lia | apply enc_head; exact Hg].
    + apply split_blank1_ok; [exact V | lia | apply enc_head; exact Hg].
Qed.

Lemma find_row_none : forall name rows i,
  ~ In (lower name) (map (fun r => lower (fst r)) rows) -> find_row lower C name rows i = None.
Proof.
  intros name rows. induction rows as [|[l v] rows IH]; intros i H; simpl; [reflexivity|].
  simpl in H. unfold same_taxon.
  assert (E : text_eqb (lower name) (lower l) = false).
  { apply text_eqb_neq. intro X. apply H. left. symmetry. exact X. }
  rewrite E. apply IH. intro X. apply H. right. exact X.
Qed.

Lemma append_at_last : forall (rows : list (text * list C)) l x,
  append_at C (length rows) x (rows ++ [(l, [])]) = rows ++ [(l, x)].
Proof.
  induction rows as [|[l0 v0] rows IH]; intros l x; simpl; [reflexivity|]. rewrite IH. reflexivity.
Qed.

Lemma nth_error_last : forall (A : Type) (rows : list A) x, nth_error (rows ++ [x]) (length rows) = Some x.
Proof. induction rows; simpl; [reflexivity | assumption]. Qed.

Lemma parse_taxon_ok : forall l s maxlen ntax nchar (rows : list (text * list C)),
  phylip_label_ok wo ro l = true -> good s ->
  (w_strict wo = true -> maxlen = 10) ->
  ~ In (lower l) (map (fun r => lower (fst r)) rows) ->
  len rows + 1 <= ntax ->
  parse_taxon lower C ro ntax nchar rows (row_line maxlen (l, s))
  = Ok (rows ++ [(l, [])], length rows, enc s).
Proof.
  intros l s maxlen ntax nchar rows Hl Hg Hmax Hn Hlen.
  unfold parse_taxon. rewrite (take_label l s maxlen Hl Hg Hmax).
  destruct (label_ok_inv l Hl) as [N [S [NL [V B]]]].
  rewrite S. destruct (conv_label wo l) as [|c0 cr] eqn:Ec; [contradiction|].
  rewrite B. rewrite (find_row_none l rows O Hn).
  assert (T : (ntax <? len (rows ++ [(l, @nil C)])) = false).
  { apply Z.ltb_ge. rewrite len_app. unfold len at 2. simpl. lia. }
  rewrite T. reflexivity.
Qed.

Lemma row_line_rstrip : forall maxlen r, good (snd r) -> snd r <> [] ->
  rstrip (row_line maxlen r) = row_line maxlen r /\ row_line maxlen r <> [].
Proof.
  intros maxlen r Hg Hne. unfold row_line.
  pose proof (enc_nonempty _ Hg Hne) as N. pose proof (enc_rstrip _ Hg) as R.
  rewrite app_assoc. split.
  - rewrite rstrip_app_keep; [rewrite R; reflexivity | rewrite R; exact N].
  - intro X. apply app_eq_nil in X. destruct X as [_ X]. contradiction.
Qed.

Lemma seq_unfold : forall ntax nchar rows cur line0 more, rstrip line0 = line0 -> line0 <> [] ->
  phylip_sequential lower C dec ro ntax nchar rows cur (line0 :: more)
  = do x <- (match cur with
             | Some i => Ok (rows, i, line0)
             | None => parse_taxon lower C ro ntax nchar rows line0
             end) ;;
    let '(rows1, i, rest) := x in
    do states <- dec rest ;;
    let rows2 := append_at C i states rows1 in
    let cur' := match nth_error rows2 i with
                | Some (_, v) => if nchar <=? len v then None else Some i
                | None => None
                end in
    phylip_sequential lower C dec ro ntax nchar rows2 cur' more.
Proof.
  intros. cbn [phylip_sequential]. rewrite H. destruct line0; [contradiction | reflexivity].
Qed.

Lemma inter_unfold : forall ntax nchar rows paged paged_row line0 more, rstrip line0 = line0 -> line0 <> [] ->
  phylip_interleaved lower C dec ro ntax nchar rows paged paged_row (line0 :: more)
  = let pr := if ntax <=? paged_row + 1 then 0 else paged_row + 1 in
    if paged then
      match nth_error rows (Z.to_nat pr) with
      | None => Err IndexErr
      | Some _ =>
        do states <- dec line0 ;;
        phylip_interleaved lower C dec ro ntax nchar (append_at C (Z.to_nat pr) states rows) true pr more
      end
    else
      do x <- parse_taxon lower C ro ntax nchar rows line0 ;;
      let '(rows1, i, rest) := x in
      let full := len rows1 =? ntax in
      do states <- dec rest ;;
      phylip_interleaved lower C dec ro ntax nchar (append_at C i states rows1)
                         full (if full then -1 else pr) more.
Proof.
  intros. cbn [phylip_interleaved]. rewrite H. destruct line0; [contradiction | reflexivity].
Qed.

Definition row_ok (nchar : Z) (r : text * list C) : Prop :=
  phylip_label_ok wo ro (fst r) = true /\ good (snd r) /\ len (snd r) = nchar.

(* the sequential reader on the lines of the remaining rows *)
Lemma sequential_rows : forall maxlen ntax nchar todo done,
  1 <= nchar ->
  (w_strict wo = true -> maxlen = 10) ->
  (forall r, In r todo -> row_ok nchar r) ->
  NoDup (map lower (map fst (done ++ todo))) ->
  len done + len todo <= ntax ->
  phylip_sequential lower C dec ro ntax nchar done None (map (row_line maxlen) todo ++ [[]])
  = Ok (done ++ todo).
Proof.
  intros maxlen ntax nchar todo. induction todo as [|[l s] todo IH]; intros done Hn Hmax Hok Hnd Hlen.
  - simpl. rewrite List.app_nil_r. reflexivity.
  - destruct (Hok (l, s) (or_introl eq_refl)) as [Hl [Hg Hs]]. cbn [fst snd] in *.
    assert (Hne : s <> []) by (intro X; subst s; unfold len in Hs; simpl in Hs; lia).
    destruct (row_line_rstrip maxlen (l, s) Hg Hne) as [R N].
    cbn [map app]. rewrite (seq_unfold ntax nchar done None _ _ R N).
    rewrite (parse_taxon_ok l s maxlen ntax nchar done Hl Hg Hmax).
    + cbn [bind]. rewrite (dec_enc s Hg). cbn [bind].
      rewrite append_at_last. rewrite nth_error_last.
      replace (nchar <=? len s) with true by (symmetry; apply Z.leb_le; lia).
      rewrite (IH (done ++ [(l, s)])); try assumption.
      * rewrite <- app_assoc. reflexivity.
      * intros r Hr. apply Hok. right. exact Hr.
      * rewrite <- app_assoc. exact Hnd.
      * rewrite len_app. unfold len in *. simpl in *. lia.
    + rewrite !map_app in Hnd. simpl in Hnd. apply NoDup_remove_2 in Hnd.
      intro X. apply Hnd. apply in_or_app. left. rewrite map_map. exact X.
    + unfold len in *. simpl in Hlen. lia.
Qed.

(* the interleaved reader on the same lines: one page *)
Lemma interleaved_rows : forall maxlen ntax nchar todo done,
  1 <= nchar ->
  (w_strict wo = true -> maxlen = 10) ->
  (forall r, In r todo -> row_ok nchar r) ->
  NoDup (map lower (map fst (done ++ todo))) ->
  len done + len todo = ntax ->
  todo <> [] ->
  phylip_interleaved lower C dec ro ntax nchar done false (len done - 1) (map (row_line maxlen) todo ++ [[]])
  = Ok (done ++ todo).
Proof.
  intros maxlen ntax nchar todo. induction todo as [|[l s] todo IH]; intros done Hn Hmax Hok Hnd Hlen Hne0.
  - contradiction.
  - destruct (Hok (l, s) (or_introl eq_refl)) as [Hl [Hg Hs]]. cbn [fst snd] in *.
    assert (Hne : s <> []) by (intro X; subst s; unfold len in Hs; simpl in Hs; lia).
    destruct (row_line_rstrip maxlen (l, s) Hg Hne) as [R N].
    cbn [map app]. rewrite (inter_unfold ntax nchar done false _ _ _ R N). cbv zeta.
    rewrite (parse_taxon_ok l s maxlen ntax nchar done Hl Hg Hmax).
    + cbn [bind]. rewrite (dec_enc s Hg). cbn [bind].
      rewrite append_at_last.
      assert (Lr : len (done ++ [(l, @nil C)]) = len done + 1) by (rewrite len_app; reflexivity).
      rewrite Lr.
      assert (W : (ntax <=? len done - 1 + 1) = false).
      { apply Z.leb_gt. unfold len in *. simpl in Hlen. lia. }
      rewrite W.
      destruct todo as [|r2 todo2].
      * (* last row: the reader switches to paged mode, only the empty line follows *)
        assert (F : (len done + 1 =? ntax) = true) by (apply Z.eqb_eq; unfold len in *; simpl in *; lia).
        rewrite F. simpl. try rewrite <- app_assoc. reflexivity.
      * assert (F : (len done + 1 =? ntax) = false).
        { apply Z.eqb_neq. unfold len in *. simpl in *. lia. }
        rewrite F.
        replace (len done - 1 + 1) with (len (done ++ [(l, s)]) - 1) by (rewrite len_app; unfold len; simpl; lia).
        rewrite (IH (done ++ [(l, s)])); try assumption.
        -- rewrite <- app_assoc. reflexivity.
        -- intros r Hr. apply Hok. right. exact Hr.
        -- rewrite <- app_assoc. exact Hnd.
        -- rewrite len_app. unfold len in *. simpl in *. lia.
        -- discriminate.
    + rewrite !map_app in Hnd. simpl in Hnd. apply NoDup_remove_2 in Hnd.
      intro X. apply Hnd. apply in_or_app. left. rewrite map_map. exact X.
    + unfold len in *. simpl in Hlen. lia.
Qed.

Lemma NoDup_map_retract : forall (A B : Type) (f : A -> B) (g : B -> A) (l : list A),
  (forall x, In x l -> g (f x) = x) -> NoDup l -> NoDup (map f l).
Proof.
  intros A B f g l. induction l as [|x l IH]; intros H N; simpl; [constructor|].
  inversion N; subst. constructor.
  - intro X. apply in_map_iff in X. destruct X as [y [E Hy]].
    assert (x = y).
    { rewrite <- (H x (or_introl eq_refl)). rewrite <- (H y (or_intror Hy)). rewrite E. reflexivity. }
    subst. contradiction.
  - apply IH; [intros y Hy; apply H; right; exact Hy | assumption].
Qed.

Lemma label_map_ok : forall labels,
  (forall l, In l labels -> phylip_label_ok wo ro l = true) -> NoDup labels ->
  phylip_label_map wo labels = Ok (map wlabel labels).
Proof.
  intros labels Hok Hnd. unfold phylip_label_map, wlabel. case_eq (w_strict wo); intro St; [|reflexivity].
  assert (E : map (fun l => firstn 10 (conv_label wo l)) labels = map (conv_label wo) labels).
  { apply map_ext_in. intros l Hl. destruct (label_ok_inv l (Hok l Hl)) as [_ [_ [_ [V _]]]].
    rewrite St in V. apply firstn_all2. unfold len in V. lia. }
  rewrite E. rewrite uniq_labels_fresh.
  - cbn [bind app]. f_equal. rewrite map_map. apply map_ext_in. intros l Hl.
    destruct (len (conv_label wo l) <? 10) eqn:L; [reflexivity|].
    destruct (label_ok_inv l (Hok l Hl)) as [_ [_ [_ [V _]]]]. rewrite St in V.
    apply Z.ltb_ge in L. unfold ljust, len in *. replace (Z.to_nat (10 - Z.of_nat (length (conv_label wo l)))) with O by lia.
    cbn [repeat]. rewrite List.app_nil_r. reflexivity.
  - simpl. apply (NoDup_map_retract _ _ _ (fun c => if r_u2s ro then replace_char 95 32 c else c)); [|exact Hnd].
    intros l Hl. destruct (label_ok_inv l (Hok l Hl)) as [_ [_ [_ [_ B]]]]. exact B.
Qed.

Lemma wlabel_len_strict : forall l, w_strict wo = true -> phylip_label_ok wo ro l = true -> len (wlabel l) = 10.
Proof.
  intros l St Hl. unfold wlabel. rewrite St.
  destruct (label_ok_inv l Hl) as [_ [_ [_ [V _]]]]. rewrite St in V.
  unfold ljust. rewrite len_app. unfold len in *. rewrite repeat_length. lia.
Qed.

Lemma wlabel_no_nl : forall l, phylip_label_ok wo ro l = true -> no_nlcr (wlabel l).
Proof.
  intros l Hl. destruct (label_ok_inv l Hl) as [_ [_ [NL _]]]. unfold wlabel.
  destruct (w_strict wo); [|exact NL]. unfold ljust. intros c Hc. apply in_app_or in Hc.
  destruct Hc as [Hc|Hc]; [apply NL; exact Hc | apply repeat_spec in Hc; subst; lia].
Qed.

Lemma row_line_no_nl : forall maxlen r nchar, row_ok nchar r -> no_nlcr (row_line maxlen r).
Proof.
  intros maxlen r nchar [Hl [Hg _]]. unfold row_line. intros c Hc.
  apply in_app_or in Hc. destruct Hc as [Hc|Hc].
  - unfold ljust in Hc. apply in_app_or in Hc. destruct Hc as [Hc|Hc];
      [apply (wlabel_no_nl _ Hl); exact Hc | apply repeat_spec in Hc; subst; lia].
  - apply in_app_or in Hc. destruct Hc as [Hc|Hc]; [|apply (enc_nonl _ Hg); exact Hc].
    destruct (w_strict wo); [destruct Hc | destruct Hc as [Hc|[Hc|[]]]; subst; lia].
Qed.

Theorem phylip_roundtrip_gen : forall nchar (m : list (text * list C)),
  m <> [] -> 1 <= nchar ->
  (forall r, In r m -> row_ok nchar r) ->
  NoDup (map lower (map fst m)) ->
  exists t, write_phylip enc wo m = Ok t /\ read_phylip lower C dec ro t = Ok m.
Proof.
  intros nchar m Hm Hn Hok Hnd.
  assert (Hlab : forall l, In l (map fst m) -> phylip_label_ok wo ro l = true).
  { intros l Hl. apply in_map_iff in Hl. destruct Hl as [r [E Hr]]. subst. apply (Hok r Hr). }
  assert (Hnd0 : NoDup (map fst m)) by (apply (NoDup_map_inv lower); exact Hnd).
  unfold write_phylip. rewrite (label_map_ok (map fst m) Hlab Hnd0). cbn [bind].
  assert (Hne : map len (map wlabel (map fst m)) <> []) by (destruct m; [contradiction | discriminate]).
  destruct (zmax_list_some _ Hne) as [maxlen Emax]. rewrite Emax.
  assert (Hmax : w_strict wo = true -> maxlen = 10).
  { intro St. rewrite (zmax_list_const _ 10 Hne) in Emax; [congruence|].
    intros x Hx. apply in_map_iff in Hx. destruct Hx as [w [E Hw]]. subst x.
    apply in_map_iff in Hw. destruct Hw as [l [E Hl]]. subst w. apply wlabel_len_strict; [exact St | apply Hlab; exact Hl]. }
  assert (Esites : zmax_list (map (fun r : text * list C => len (snd r)) m) = Some nchar).
  { apply zmax_list_const; [destruct m; [contradiction | discriminate]|].
    intros x Hx. apply in_map_iff in Hx. destruct Hx as [r [E Hr]]. subst x. apply (Hok r Hr). }
  rewrite Esites.
  eexists. split; [reflexivity|].
  (* the text as header line + row lines *)
  rewrite map_map. rewrite (combine_map_fst _ _ (fun r : text * list C => wlabel (fst r)) m).
  rewrite map_map. cbn [fst snd].
  assert (Elines : map (fun x : text * list C => ljust maxlen (wlabel (fst x)) ++ (if w_strict wo then [] else [32; 32]) ++ enc (snd x) ++ [10]) m
                   = map (fun l => l ++ [10]) (map (row_line maxlen) m)).
  { rewrite map_map. apply map_ext. intro r. unfold row_line. rewrite <- !app_assoc. reflexivity. }
  rewrite Elines.
  unfold read_phylip.
  assert (Hhdr : no_nlcr (render_nat (len m) ++ 32 :: render_nat nchar)).
  { intros c Hc. apply in_app_or in Hc. destruct Hc as [Hc|[Hc|Hc]].
    - apply digit_not_nlcr. pose proof (render_nat_digits (len m)) as D. rewrite forallb_forall in D. apply D. exact Hc.
    - subst. lia.
    - apply digit_not_nlcr. pose proof (render_nat_digits nchar) as D. rewrite forallb_forall in D. apply D. exact Hc. }
  replace (render_nat (len m) ++ 32 :: render_nat nchar ++ 10 :: concat (map (fun l => l ++ [10]) (map (row_line maxlen) m)))
    with ((render_nat (len m) ++ 32 :: render_nat nchar) ++ 10 :: concat (map (fun l => l ++ [10]) (map (row_line maxlen) m)))
    by (rewrite <- app_assoc; reflexivity).
  rewrite (split3_plain_nl _ _ Hhdr).
  rewrite split3_lines.
  2:{ intros l Hl. apply in_map_iff in Hl. destruct Hl as [r [E Hr]]. subst l. apply (row_line_no_nl maxlen r nchar). apply Hok. exact Hr. }
  assert (Lm : 1 <= len m) by (destruct m; [contradiction | unfold len; simpl; lia]).
  match goal with |- context [?x <=? 2] => assert (L2 : (x <=? 2) = false) end.
  { apply Z.leb_gt. unfold len in *. simpl. rewrite app_length, map_length. simpl. lia. }
  rewrite L2.
  rewrite parse_desc_render by lia.
  replace ((len m =? 0) || (nchar =? 0)) with false.
  2:{ symmetry. apply orb_false_iff. split; apply Z.eqb_neq; lia. }
  assert (Hall : forallb (fun r : text * list C => len (snd r) =? nchar) m = true).
  { apply forallb_forall. intros r Hin. apply Z.eqb_eq. apply (Hok r Hin). }
  destruct (r_interleaved ro).
  - replace (-1) with (len (@nil (text * list C)) - 1) by reflexivity.
    rewrite (interleaved_rows maxlen (len m) nchar m []); try assumption.
    + cbn [bind app]. rewrite Z.eqb_refl. rewrite Hall. reflexivity.
    + reflexivity.
  - rewrite (sequential_rows maxlen (len m) nchar m []); try assumption.
    + cbn [bind app]. rewrite Z.eqb_refl. rewrite Hall. reflexivity.
    + unfold len. simpl. lia.
Qed.

End Phylip.
