(* C12, translator tie: the generated copy overrides (coq/Gen/CopyGen.v) against the hand model.

   sim s t : the two states agree on everything the interpreter reads (heap, memo, the None flag); they may
   differ in the ghost record sc, which the hand model writes (note) and nothing reads.  Generated code has no
   ghost writes, so "equal" is "equal up to sc":
     - the generated loops without ghost are EQUAL to the model's loops (part A);
     - the model's functions respect sim (part B: this is the proof that sc is never read);
     - each generated override is sim-equal to its branch of dc_step, hence dc_gen to dc (part C). *)
From Coq Require Import ZArith List Bool Lia.
From DV Require Import Model.PyPrims Model.C12Model Model.C12GenPrims Gen.CopyGen Model.C12GenDispatch
  Proofs.C12Heap Proofs.C12Inv Proofs.C12Copy Proofs.C12Iso Proofs.C12Wf Proofs.C12Proofs Proofs.C12GenLen.
Import ListNotations.
Open Scope Z_scope.

(* ---- A: generated loops that involve no ghost are the model's loops -------------------------------- *)

Lemma gen_annotable_loop_eq : forall rec es s self other d,
  py_Annotable_deepcopy_loop1 rec s self other d es = annotable_fields rec s other es.
Proof.
  intros rec. induction es as [|[k v] r IH]; intros s self other d; [reflexivity|].
  cbn [py_Annotable_deepcopy_loop1 annotable_fields]. destruct (val_eqb k NM_ANN); [apply IH|].
  unfold g_dict_has. destruct (bget (body_of s other) k); [apply IH|].
  destruct (rec s v) as [[s1 v']| |]; simpl; auto.
Qed.

Lemma gen_taxon_loop_eq : forall rec es s self o d,
  py_Taxon_deepcopy_loop1 rec s self o d es = plain_fields rec [NM_ANN] s o es.
Proof.
  intros rec. induction es as [|[k v] r IH]; intros s self o d; [reflexivity|].
  cbn [py_Taxon_deepcopy_loop1 plain_fields existsb]. rewrite orb_false_r.
  destruct (val_eqb k NM_ANN); simpl; [apply IH|].
  destruct (rec s v) as [[s1 v']| |]; simpl; auto.
Qed.

Lemma gen_ns_loop2_eq : forall rec es s self o l d,
  py_TaxonNamespace_deepcopy_loop2 rec s self o l d es = plain_fields rec [NM_ANN; NM_TAXA] s o es.
Proof.
  intros rec. induction es as [|[k v] r IH]; intros s self o l d; [reflexivity|].
  cbn [py_TaxonNamespace_deepcopy_loop2 plain_fields existsb]. rewrite orb_false_r.
  destruct (val_eqb k NM_ANN || val_eqb k NM_TAXA); [apply IH|].
  destruct (rec s v) as [[s1 v']| |]; simpl; auto.
Qed.

Lemma gen_ns_loop1_eq : forall rec xs s self o l d i,
  py_TaxonNamespace_deepcopy_loop1 rec s self o l d i xs = copy_append rec s l i xs.
Proof.
  intros rec. induction xs as [|a r IH]; intros s self o l d i; [reflexivity|].
  cbn [py_TaxonNamespace_deepcopy_loop1 copy_append].
  destruct (rec s a) as [[s1 a']| |]; simpl; auto.
Qed.

Lemma gen_annset_loop_eq : forall rec xs s self o d,
  py_AnnotationSet_deepcopy_loop1 rec s self o d xs = annset_items rec s o xs.
Proof.
  intros rec. induction xs as [|a r IH]; intros s self o d; [reflexivity|].
  cbn [py_AnnotationSet_deepcopy_loop1 annset_items].
  destruct (rec s a) as [[s1 a']| |]; simpl; auto.
  destruct (oset_add (memo_val s1 a a') o a') as [s2| |]; simpl; auto.
Qed.

(* ---- B: the model never reads the ghost record ------------------------------------------------------ *)

Lemma sim_refl : forall s, sim s s.
Proof. intro s. repeat split. Qed.

Lemma sim_body : forall s t x, sim s t -> body_of s x = body_of t x.
Proof. intros s t x [H _]. unfold body_of. rewrite H. reflexivity. Qed.

Lemma sim_hget : forall s t x, sim s t -> hget (sh s) x = hget (sh t) x.
Proof. intros s t x [H _]. rewrite H. reflexivity. Qed.

Lemma sim_kind_of : forall s t x, sim s t -> kind_of s x = kind_of t x.
Proof. intros s t x [H _]. unfold kind_of. rewrite H. reflexivity. Qed.

Lemma sim_put : forall s t y k v, sim s t -> sim (put s y k v) (put t y k v).
Proof.
  intros [h m n c] [h' m' n' c'] y k v [A [B C]]. simpl in *. subst. unfold put. simpl.
  destruct (hget h' y); repeat split.
Qed.

Lemma sim_memo_set : forall s t a b, sim s t -> sim (memo_set s a b) (memo_set t a b).
Proof. intros s t a b [A [B C]]. unfold sim. simpl. rewrite A, B, C. auto. Qed.

Lemma sim_set_none : forall s t, sim s t -> sim (set_none s) (set_none t).
Proof. intros s t [A [B C]]. unfold sim. simpl. rewrite A, B. auto. Qed.

Lemma sim_memo_val : forall s t v v', sim s t -> sim (memo_val s v v') (memo_val t v v').
Proof.
  intros s t [p|a] [q|b] H; simpl; auto using sim_memo_set; destruct p; auto using sim_set_none.
Qed.

Lemma sim_note_r : forall s t a b, sim s t -> sim s (note t a b).
Proof. intros s t a b [A [B C]]. repeat split; assumption. Qed.

Lemma sim_alloc : forall s t x, sim s t -> sim (fst (alloc s x)) (fst (alloc t x)) /\ snd (alloc s x) = snd (alloc t x).
Proof. intros s t x [A [B C]]. unfold sim. simpl. rewrite A, B, C. auto. Qed.

Lemma sim_hlen : forall s t, sim s t -> hlen (sh s) = hlen (sh t).
Proof. intros s t [A _]. rewrite A. reflexivity. Qed.

Lemma rsim_s_bind : forall (a b : res st) (f g : st -> res st),
  rsim_s a b -> (forall s t, sim s t -> rsim_s (f s) (g t)) -> rsim_s (bind a f) (bind b g).
Proof. intros [s| |] [t| |] f g H K; simpl in *; auto; contradiction. Qed.

Lemma sim_oset_add : forall s t sy a, sim s t -> rsim_s (oset_add s sy a) (oset_add t sy a).
Proof.
  intros s t sy a H. unfold oset_add. rewrite (sim_body s t sy H).
  destruct (bget (body_of t sy) NM_ISET) as [[?|zy]|]; simpl; auto.
  destruct (bget (body_of t sy) NM_ILIST) as [[?|ly]|]; simpl; auto.
  rewrite (sim_body s t zy H). destruct (bget (body_of t zy) a); simpl; [exact H|].
  assert (H2 : sim (put s zy a PNone) (put t zy a PNone)) by (apply sim_put; exact H).
  rewrite (sim_body _ _ ly H2). apply sim_put. exact H2.
Qed.

Lemma sim_new_annset : forall s t cls tg, sim s t ->
  sim (fst (new_annset s cls tg)) (fst (new_annset t cls tg)) /\ snd (new_annset s cls tg) = snd (new_annset t cls tg).
Proof.
  intros s t cls tg H. rewrite !new_annset_eq. cbn [fst snd].
  assert (L := sim_hlen s t H). rewrite L.
  assert (H1 := proj1 (sim_alloc s t (mkObj cls KAnnSet []) H)).
  assert (H2 := proj1 (sim_alloc _ _ (mkObj CLS_LIST KList []) H1)).
  assert (H3 := proj1 (sim_alloc _ _ (mkObj CLS_SET KSet []) H2)).
  rewrite (sim_hlen _ _ H1), (sim_hlen _ _ H2).
  split; [|reflexivity]. apply sim_put. apply sim_put. apply sim_put. exact H3.
Qed.

Lemma sim_annotations_add : forall s t dst a, sim s t -> rsim_s (annotations_add s dst a) (annotations_add t dst a).
Proof.
  intros s t dst a H. unfold annotations_add. rewrite (sim_body s t dst H).
  destruct (bget (body_of t dst) NM_ANN) as [[?|sy]|].
  - reflexivity.
  - apply sim_oset_add. exact H.
  - assert (X := sim_new_annset s t CLS_ANNSET (R dst) H).
    destruct (new_annset s CLS_ANNSET (R dst)) as [s1 sy]. destruct (new_annset t CLS_ANNSET (R dst)) as [t1 ty].
    cbn [fst snd] in X. destruct X as [H1 E1]. subst ty. apply sim_oset_add. apply sim_put. exact H1.
Qed.

Lemma sim_copy_append : forall r1 r2 xs s t y i, RecSim r1 r2 -> sim s t ->
  rsim_s (copy_append r1 s y i xs) (copy_append r2 t y i xs).
Proof.
  intros r1 r2. induction xs as [|a r IH]; intros s t y i RS H; simpl; [exact H|].
  specialize (RS s t a H) as X. destruct (r1 s a) as [[s1 a1]| |]; destruct (r2 t a) as [[t1 a2]| |]; simpl in *; auto; try contradiction.
  destruct X as [H1 E]. subst a2. apply IH; [exact RS | apply sim_put; exact H1].
Qed.

Lemma sim_copy_entries : forall r1 r2 ck es s t y, RecSim r1 r2 -> sim s t ->
  rsim_s (copy_entries r1 ck s y es) (copy_entries r2 ck t y es).
Proof.
  intros r1 r2 ck. induction es as [|[k v] r IH]; intros s t y RS H; simpl; [exact H|].
  assert (KEY : rsim_v (if ck then r1 s k else match k with P _ => Ok (s, k) | R _ => Err AttrErr end)
                       (if ck then r2 t k else match k with P _ => Ok (t, k) | R _ => Err AttrErr end)).
  { destruct ck; [apply RS; exact H|]. destruct k; simpl; auto. }
  destruct (if ck then r1 s k else match k with P _ => Ok (s, k) | R _ => Err AttrErr end) as [[s1 k1]| |];
    destruct (if ck then r2 t k else match k with P _ => Ok (t, k) | R _ => Err AttrErr end) as [[t1 k2]| |];
    simpl in *; auto; try contradiction.
  destruct KEY as [H1 E]. subst k2.
  specialize (RS s1 t1 v H1) as X. destruct (r1 s1 v) as [[s2 v1]| |]; destruct (r2 t1 v) as [[t2 v2]| |]; simpl in *; auto; try contradiction.
  destruct X as [H2 E]. subst v2. apply IH; [exact RS | apply sim_put; exact H2].
Qed.

Lemma sim_plain_fields : forall r1 r2 skip es s t y, RecSim r1 r2 -> sim s t ->
  rsim_s (plain_fields r1 skip s y es) (plain_fields r2 skip t y es).
Proof.
  intros r1 r2 skip. induction es as [|[k v] r IH]; intros s t y RS H; simpl; [exact H|].
  destruct (existsb (val_eqb k) skip); [apply IH; assumption|].
  specialize (RS s t v H) as X. destruct (r1 s v) as [[s1 v1]| |]; destruct (r2 t v) as [[t1 v2]| |]; simpl in *; auto; try contradiction.
  destruct X as [H1 E]. subst v2. apply IH; [exact RS | apply sim_put; exact H1].
Qed.

Lemma sim_annotable_fields : forall r1 r2 es s t y, RecSim r1 r2 -> sim s t ->
  rsim_s (annotable_fields r1 s y es) (annotable_fields r2 t y es).
Proof.
  intros r1 r2. induction es as [|[k v] r IH]; intros s t y RS H; simpl; [exact H|].
  destruct (val_eqb k NM_ANN); [apply IH; assumption|].
  rewrite (sim_body s t y H). destruct (bget (body_of t y) k); [apply IH; assumption|].
  specialize (RS s t v H) as X. destruct (r1 s v) as [[s1 v1]| |]; destruct (r2 t v) as [[t1 v2]| |]; simpl in *; auto; try contradiction.
  destruct X as [H1 E]. subst v2. apply IH; [exact RS | apply sim_memo_val; apply sim_put; exact H1].
Qed.

Lemma sim_annset_items : forall r1 r2 xs s t o, RecSim r1 r2 -> sim s t ->
  rsim_s (annset_items r1 s o xs) (annset_items r2 t o xs).
Proof.
  intros r1 r2. induction xs as [|a r IH]; intros s t o RS H; simpl; [exact H|].
  specialize (RS s t a H) as X. destruct (r1 s a) as [[s1 a1]| |]; destruct (r2 t a) as [[t1 a2]| |]; simpl in *; auto; try contradiction.
  destruct X as [H1 E]. subst a2.
  apply rsim_s_bind; [apply sim_oset_add; apply sim_memo_val; exact H1|].
  intros s2 t2 H2. apply IH; assumption.
Qed.

(* ---- C: the generated overrides ---------------------------------------------------------------------- *)

Ltac same_reads H :=
  match type of H with sim ?s ?t =>
    let h := fresh "h" in let m := fresh "m" in let n := fresh "n" in let c := fresh "c" in
    let h' := fresh "h" in let m' := fresh "m" in let n' := fresh "n" in let c' := fresh "c" in
    destruct s as [h m n c]; destruct t as [h' m' n' c'];
    let A := fresh in let B := fresh in let C := fresh in
    destruct H as [A [B C]]; simpl in A, B, C; subst h m n
  end.

(* the loop of deep_copy_annotations_from: the generated conditional re-targeting is the model's `retarget` *)
Lemma sim_gen_dcaf_loop : forall r1 r2 xs s t self other d, RecSim r1 r2 -> sim s t ->
  rsim_s (py_Annotable_deep_copy_annotations_from_loop1 r1 s self other d xs) (copy_annotation_items r2 t self other xs).
Proof.
  intros r1 r2. induction xs as [|a1 r IH]; intros s t self other d RS H; [exact H|].
  cbn [py_Annotable_deep_copy_annotations_from_loop1 copy_annotation_items].
  specialize (RS s t a1 H) as X. destruct (r1 s a1) as [[s1 a2]| |]; destruct (r2 t a1) as [[t1 a2']| |]; simpl in X; try contradiction;
    try (simpl; exact X).
  destruct X as [H1 E]. subst a2'. cbn [bind].
  assert (H2 : sim (memo_val s1 a1 a2) (memo_val t1 a1 a2)) by (apply sim_memo_val; exact H1).
  set (s2 := memo_val s1 a1 a2) in *. set (t2 := memo_val t1 a1 a2) in *. clearbody s2 t2.
  apply rsim_s_bind.
  - (* the conditional assignment `a2._value = (self, a1._value[1])` *)
    unfold retarget, g_getattr, g_truthy, g_index, g_setattr, g_tuple2.
    destruct a2 as [q|a2o]; [reflexivity|]. rewrite (sim_body s2 t2 a2o H2).
    destruct (bget (body_of t2 a2o) NM_ISATTR) as [isattr|]; [|reflexivity]. cbn [bind].
    destruct (val_eqb isattr PTrue); [|exact H2].
    destruct a1 as [p|a1o]; [reflexivity|]. rewrite (sim_body s2 t2 a1o H2).
    destruct (bget (body_of t2 a1o) NM_VALUE) as [[p|tt]|]; [reflexivity| |reflexivity]. cbn [bind].
    rewrite (sim_kind_of s2 t2 tt H2), (sim_body s2 t2 tt H2).
    destruct (match kind_of t2 tt with Some KTuple | Some KList => values (body_of t2 tt) | _ => [] end) as [|owner rest];
      [reflexivity|].
    cbn [nth_error bind]. destruct (val_eqb owner (R other)); [|exact H2]. cbn [bind].
    destruct rest as [|name rest']; [reflexivity|]. cbn [nth_error bind alloc].
    rewrite (sim_hlen s2 t2 H2). apply sim_put. apply sim_note_r.
    destruct H2 as [A [B C]]. unfold sim. simpl. rewrite A, B, C. auto.
  - intros s3 t3 H3. apply rsim_s_bind; [apply sim_annotations_add; exact H3|].
    intros s4 t4 H4. apply IH; assumption.
Qed.

Lemma rsim_sv_bind : forall (a b : res st) (f g : st -> res (st * val)),
  rsim_s a b -> (forall s t, sim s t -> rsim_v (f s) (g t)) -> rsim_v (bind a f) (bind b g).
Proof. intros [s| |] [t| |] f g H K; simpl in *; auto; contradiction. Qed.

Lemma memo_val_RR : forall s a b, memo_val s (R a) (R b) = memo_set s a b.
Proof. reflexivity. Qed.

Lemma body_some_hget : forall s x k v, bget (body_of s x) k = Some v -> exists o, hget (sh s) x = Some o.
Proof. intros s x k v B. unfold body_of in B. destruct (hget (sh s) x) as [o|]; [eauto | discriminate]. Qed.

(* deep_copy_annotations_from; the object under construction (self) is allocated *)
Lemma sim_gen_dcaf : forall r1 r2 s t self other, RecSim r1 r2 -> sim s t ->
  (exists d, hget (sh t) self = Some d) ->
  rsim_s (py_Annotable_deep_copy_annotations_from r1 s self other) (deep_copy_annotations_from r2 t self other).
Proof.
  intros r1 r2 s t self other RS H [d Gd].
  unfold py_Annotable_deep_copy_annotations_from, deep_copy_annotations_from, g_dict_items, g_snap_has, g_snap_get,
    g_type_differs.
  rewrite (sim_body s t other H), !(sim_hget s t _ H), Gd.
  destruct (bget (body_of t other) NM_ANN) as [v|] eqn:BA; [|exact H].
  destruct (body_some_hget _ _ _ _ BA) as [o Go]. rewrite Go. cbn [bind].
  destruct v as [p|sx].
  - destruct (negb (ocls d =? ocls o)); reflexivity.
  - destruct (negb (ocls d =? ocls o)); [reflexivity|]. cbn [bind]. unfold g_iter_oset.
    rewrite (sim_body s t sx H).
    destruct (bget (body_of t sx) NM_ILIST) as [[?|lx]|]; try reflexivity. cbn [bind].
    rewrite (sim_body s t lx H). apply rsim_s_bind; [apply sim_gen_dcaf_loop; assumption|].
    intros s1 t1 H1. unfold g_hasattr, g_getattr. rewrite (sim_body s1 t1 self H1).
    destruct (bget (body_of t1 self) NM_ANN) as [[p|sy]|]; cbn [bind]; try exact H1.
    rewrite memo_val_RR. apply sim_memo_set. exact H1.
Qed.

Lemma sim_new_copy : forall s t x ob, sim s t ->
  sim (fst (new_copy s x ob)) (fst (new_copy t x ob)) /\ snd (new_copy s x ob) = snd (new_copy t x ob).
Proof.
  intros s t x ob H. rewrite (new_copy_eq s), (new_copy_eq t). cbn [fst snd].
  assert (L := sim_hlen s t H). destruct H as [A [B C]]. split; [|exact L].
  unfold sim. simpl. rewrite A, B, C. repeat split.
Qed.

(* the state after `o = cls.__new__(cls); memo[id(self)] = o` against new_copy (which also writes the ghost) *)
Lemma sim_gen_new : forall s t x ob, sim s t -> hget (sh t) x = Some ob ->
  exists s1, g_new_like s x = Ok (s1, hlen (sh t)) /\ snd (new_copy t x ob) = hlen (sh t)
    /\ sim (memo_set s1 x (hlen (sh t))) (fst (new_copy t x ob))
    /\ hlen (sh (fst (new_copy t x ob))) = hlen (sh t) + 1.
Proof.
  intros s t x ob H G. unfold g_new_like. rewrite (sim_hget s t x H), G.
  exists (fst (alloc s (mkObj (ocls ob) (okind ob) []))). split.
  - unfold alloc. cbn [fst]. rewrite (sim_hlen s t H). reflexivity.
  - rewrite new_copy_eq. cbn [fst snd]. split; [reflexivity|]. split; [|simpl; apply hlen_app1].
    destruct H as [A [B C]]. unfold sim. simpl. rewrite A, B, C. auto.
Qed.

Lemma alloc_in : forall t y, 0 <= y < hlen (sh t) -> exists d, hget (sh t) y = Some d.
Proof. intros t y H. apply hget_in_range. exact H. Qed.

Section Overrides.
Variables r1 r2 : rec_t.
Hypothesis RS : RecSim r1 r2.
Hypothesis RL : RecLen r2.

Lemma rsim_sv_bind' : forall (a b : res st) (f g : st -> res (st * val)),
  rsim_s a b -> (forall s t, b = Ok t -> sim s t -> rsim_v (f s) (g t)) -> rsim_v (bind a f) (bind b g).
Proof. intros [s| |] [t| |] f g H K; simpl in *; auto; contradiction. Qed.

Lemma sim_gen_annotable : forall s t x ob, sim s t -> alookup x (sm t) = None -> hget (sh t) x = Some ob ->
  rsim_v (py_Annotable_deepcopy r1 s x)
         (let '(s1, y) := new_copy t x ob in
          do s2 <- annotable_fields r2 s1 y (obody ob) ;;
          do s3 <- deep_copy_annotations_from r2 s2 y x ;; Ok (s3, R y)).
Proof.
  intros s t x ob H ML G. unfold py_Annotable_deepcopy, g_memo_lookup, g_dict_items.
  rewrite (proj1 (proj2 H)), ML.
  destruct (sim_gen_new s t x ob H G) as [s1 [E1 [Y [H1 L1]]]]. rewrite E1. cbn [bind].
  assert (N := hlen_nonneg (sh t)).
  destruct (new_copy t x ob) as [t1 y]. cbn [fst snd] in *. subst y.
  rewrite gen_annotable_loop_eq. rewrite (sim_body s t x H). unfold body_of at 1. rewrite G.
  apply rsim_sv_bind'; [apply sim_annotable_fields; assumption|].
  intros s2 t2 AF H2. apply annotable_fields_len in AF; [|exact RL].
  apply rsim_sv_bind; [apply sim_gen_dcaf; [exact RS | exact H2 | apply alloc_in; lia]|].
  intros s3 t3 H3. simpl. auto.
Qed.

Lemma sim_gen_taxon : forall s t x ob, sim s t -> alookup x (sm t) = None -> hget (sh t) x = Some ob ->
  rsim_v (py_Taxon_deepcopy r1 s x)
         (let '(s1, y) := new_copy t x ob in
          do s2 <- plain_fields r2 [NM_ANN] s1 y (obody ob) ;;
          do s3 <- deep_copy_annotations_from r2 s2 y x ;; Ok (s3, R y)).
Proof.
  intros s t x ob H ML G. unfold py_Taxon_deepcopy, g_memo_lookup, g_dict_items.
  rewrite (proj1 (proj2 H)), ML.
  destruct (sim_gen_new s t x ob H G) as [s1 [E1 [Y [H1 L1]]]]. rewrite E1. cbn [bind].
  assert (N := hlen_nonneg (sh t)).
  destruct (new_copy t x ob) as [t1 y]. cbn [fst snd] in *. subst y.
  rewrite gen_taxon_loop_eq. rewrite (sim_body s t x H). unfold body_of at 1. rewrite G.
  apply rsim_sv_bind'; [apply sim_plain_fields; assumption|].
  intros s2 t2 AF H2. apply plain_fields_len in AF; [|exact RL].
  apply rsim_sv_bind; [apply sim_gen_dcaf; [exact RS | exact H2 | apply alloc_in; lia]|].
  intros s3 t3 H3. simpl. auto.
Qed.

Lemma sim_gen_annset : forall s t x ob, sim s t -> hget (sh t) x = Some ob ->
  rsim_v (py_AnnotationSet_deepcopy r1 s x)
         (match bget (obody ob) NM_TARGET with
          | None => Err AttrErr
          | Some tg =>
            do tg' <- (match tg with
                       | R t0 => match alookup t0 (sm t) with Some t' => Ok (R t') | None => Err KeyErr end
                       | P 0 => if snone t then Ok PNone else Err KeyErr
                       | P _ => Err KeyErr
                       end) ;;
            let '(s1, o) := new_annset t (ocls ob) tg' in
            let s2 := note (memo_set s1 x o) x o in
            match bget (obody ob) NM_ILIST with
            | Some (R lx) => do s5 <- annset_items r2 s2 o (values (body_of s2 lx)) ;; Ok (s5, R o)
            | _ => Err AttrErr
            end
          end).
Proof.
  intros s t x ob H G. unfold py_AnnotationSet_deepcopy, g_dict_items, g_snap_get, g_memo_get, g_new_annset, g_iter_self_oset.
  rewrite (sim_body s t x H). unfold body_of at 1 2. rewrite G, (sim_hget s t x H), G.
  destruct (bget (obody ob) NM_TARGET) as [tg|]; [|reflexivity]. cbn [bind].
  destruct H as [A [B C]]. rewrite B, C.
  destruct (match tg with
            | R t0 => match alookup t0 (sm t) with Some t' => Ok (R t') | None => Err KeyErr end
            | P 0 => if snone t then Ok PNone else Err KeyErr
            | P _ => Err KeyErr
            end) as [tg'| |]; cbn [bind]; try reflexivity.
  assert (H : sim s t) by (repeat split; assumption).
  assert (X := sim_new_annset s t (ocls ob) tg' H).
  destruct (new_annset s (ocls ob) tg') as [s1 o]. destruct (new_annset t (ocls ob) tg') as [t1 o'].
  cbn [fst snd] in X. destruct X as [H1 E]. subst o'. cbn [bind].
  assert (H2 : sim (memo_set s1 x o) (note (memo_set t1 x o) x o)) by (apply sim_note_r; apply sim_memo_set; exact H1).
  destruct (bget (obody ob) NM_ILIST) as [[?|lx]|]; try reflexivity. cbn [bind].
  rewrite gen_annset_loop_eq, (sim_body _ _ lx H2).
  apply rsim_sv_bind; [apply sim_annset_items; assumption|]. intros s5 t5 H5. simpl. auto.
Qed.

Lemma sim_gen_namespace : forall s t x ob, sim s t -> hget (sh t) x = Some ob ->
  rsim_v (py_TaxonNamespace_deepcopy r1 s x)
         (let '(s1, y) := new_copy t x ob in
          match bget (obody ob) NM_TAXA with
          | Some (R lt) =>
            let '(s2, l) := alloc s1 (mkObj CLS_LIST KList []) in
            let s3 := note (memo_set (put s2 y NM_TAXA (R l)) lt l) lt l in
            do s4 <- copy_append r2 s3 l 0 (values (body_of s3 lt)) ;;
            do s5 <- plain_fields r2 [NM_ANN; NM_TAXA] s4 y (obody ob) ;;
            do s6 <- deep_copy_annotations_from r2 s5 y x ;; Ok (s6, R y)
          | Some (P _) => Err TypeErr
          | None => Err AttrErr
          end).
Proof.
  intros s t x ob H G. unfold py_TaxonNamespace_deepcopy, g_dict_items, g_snap_get, g_new_list, g_iter_list.
  destruct (sim_gen_new s t x ob H G) as [s1 [E1 [Y [H1 L1]]]]. rewrite E1. cbn [bind].
  assert (N := hlen_nonneg (sh t)).
  assert (BD : body_of t x = obody ob) by (unfold body_of; rewrite G; reflexivity).
  rewrite (sim_body s t x H), BD.
  destruct (new_copy t x ob) as [t1 y]. cbn [fst snd] in *. subst y.
  set (sa := memo_set s1 x (hlen (sh t))) in *.
  assert (X := sim_alloc sa t1 (mkObj CLS_LIST KList []) H1).
  destruct (alloc sa (mkObj CLS_LIST KList [])) as [sb l] eqn:EA. destruct (alloc t1 (mkObj CLS_LIST KList [])) as [t2 l'] eqn:EB.
  cbn [fst snd] in X. destruct X as [H2 E]. subst l'.
  assert (L2 : hlen (sh t2) = hlen (sh t1) + 1) by (inversion EB; simpl; apply hlen_app1).
  destruct (bget (obody ob) NM_TAXA) as [[p|lt]|]; cbn [bind]; try reflexivity.
  rewrite memo_val_RR.
  set (sc3 := memo_set (put sb (hlen (sh t)) NM_TAXA (R l)) lt l).
  set (t3 := note (memo_set (put t2 (hlen (sh t)) NM_TAXA (R l)) lt l) lt l).
  assert (H3 : sim sc3 t3) by (apply sim_note_r; apply sim_memo_set; apply sim_put; exact H2).
  assert (L3 : hlen (sh t3) = hlen (sh t2)) by (unfold t3; simpl; apply put_hlen).
  cbn [bind]. rewrite gen_ns_loop1_eq, (sim_body _ _ lt H3).
  apply rsim_sv_bind'; [apply sim_copy_append; assumption|].
  intros s4 t4 CA H4. apply copy_append_len in CA; [|exact RL].
  rewrite gen_ns_loop2_eq.
  apply rsim_sv_bind'; [apply sim_plain_fields; assumption|].
  intros s5 t5 PF H5. apply plain_fields_len in PF; [|exact RL].
  apply rsim_sv_bind; [apply sim_gen_dcaf; [exact RS | exact H5 | apply alloc_in; lia]|].
  intros s6 t6 H6. simpl. auto.
Qed.

End Overrides.

Lemma rsim_v_of_s : forall (a b : res st) (v : val),
  rsim_s a b -> rsim_v (do s <- a ;; Ok (s, v)) (do s <- b ;; Ok (s, v)).
Proof. intros [s| |] [t| |] v H; simpl in *; auto; contradiction. Qed.

(* one level of copy.deepcopy: CPython's dispatch with the generated overrides against the hand model *)
Lemma sim_dc_step : forall r1 r2, RecSim r1 r2 -> RecLen r2 -> RecSim (dc_step_gen r1) (dc_step r2).
Proof.
  intros r1 r2 RS RL s t v H. unfold dc_step_gen. destruct v as [p|x]; [simpl; auto|].
  assert (HH := H). destruct HH as [A [B C]].
  destruct (alookup x (sm t)) as [y|] eqn:ML.
  { unfold dc_step. rewrite B, ML. simpl. auto. }
  destruct (hget (sh t) x) as [ob|] eqn:G.
  2:{ unfold dc_step. rewrite B, ML, A, G. reflexivity. }
  rewrite B, ML, A, G.
  destruct (okind ob) eqn:KO.
  - unfold dc_step. rewrite B, ML, A, G, KO. simpl. auto.
  - unfold dc_step. rewrite B, ML, A, G, KO.
    destruct (sim_new_copy s t x ob H) as [H1 E]. destruct (new_copy s x ob) as [s1 y]. destruct (new_copy t x ob) as [t1 y'].
    cbn [fst snd] in *. subst y'. apply rsim_v_of_s. apply sim_copy_append; assumption.
  - unfold dc_step. rewrite B, ML, A, G, KO.
    destruct (sim_new_copy s t x ob H) as [H1 E]. destruct (new_copy s x ob) as [s1 y]. destruct (new_copy t x ob) as [t1 y'].
    cbn [fst snd] in *. subst y'. apply rsim_v_of_s. apply sim_copy_entries; assumption.
  - unfold dc_step. rewrite B, ML, A, G, KO.
    destruct (forallb (fun e => is_prim (fst e) && is_prim (snd e)) (obody ob)); [|reflexivity].
    cbn [alloc]. simpl. rewrite A, B, C. repeat split.
  - unfold dc_step. rewrite B, ML, A, G, KO.
    destruct (sim_new_copy s t x ob H) as [H1 E]. destruct (new_copy s x ob) as [s1 y]. destruct (new_copy t x ob) as [t1 y'].
    cbn [fst snd] in *. subst y'. apply rsim_v_of_s. apply sim_copy_append; assumption.
  - unfold dc_step. rewrite B, ML, A, G, KO.
    destruct (sim_new_copy s t x ob H) as [H1 E]. destruct (new_copy s x ob) as [s1 y]. destruct (new_copy t x ob) as [t1 y'].
    cbn [fst snd] in *. subst y'. apply rsim_v_of_s. apply sim_plain_fields; assumption.
  - unfold dc_step. rewrite ML, G, KO. apply (sim_gen_annotable r1 r2 RS RL s t x ob H ML G).
  - unfold dc_step. rewrite ML, G, KO. apply (sim_gen_annset r1 r2 RS s t x ob H G).
  - unfold dc_step. rewrite ML, G, KO. apply (sim_gen_taxon r1 r2 RS RL s t x ob H ML G).
  - unfold dc_step. rewrite ML, G, KO. apply (sim_gen_namespace r1 r2 RS RL s t x ob H G).
  - unfold dc_step. rewrite B, ML, A, G, KO.
    destruct (sim_new_copy s t x ob H) as [H1 E]. destruct (new_copy s x ob) as [s1 y]. destruct (new_copy t x ob) as [t1 y'].
    cbn [fst snd] in *. subst y'. apply rsim_v_of_s. apply sim_copy_entries; assumption.
Qed.

Theorem dc_gen_sim : forall f, RecSim (dc_gen f) (dc f).
Proof.
  induction f as [|f IH]; [intros s t v H; exact I|].
  simpl. apply sim_dc_step; [exact IH | apply dc_len].
Qed.

(* copy.deepcopy on the generated overrides computes the heap, the memo and the result of the hand model *)
Theorem run_seeded_gen_eq : forall nf fuel h seeds root,
  match run_seeded_gen nf fuel h seeds root, run_seeded nf fuel h seeds root with
  | Ok (s, v), Ok (t, w) => sh s = sh t /\ sm s = sm t /\ snone s = snone t /\ v = w
  | Err e, Err e' => e = e'
  | OutOfFuel, OutOfFuel => True
  | _, _ => False
  end.
Proof.
  intros nf fuel h seeds root. unfold run_seeded_gen, run_seeded.
  assert (X := dc_gen_sim fuel (init_st nf h seeds) (init_st nf h seeds) (R root) (sim_refl _)).
  destruct (dc_gen fuel (init_st nf h seeds) (R root)) as [[s v]| |];
    destruct (dc fuel (init_st nf h seeds) (R root)) as [[t w]| |]; simpl in X; auto.
  destruct X as [[A [B C]] E]. auto.
Qed.

(* a property theorem carried over to the generated code: deepcopy_extends_and_fresh *)
Theorem gen_deepcopy_extends_and_fresh_l : forall nf h seeds root fuel s' y,
  wf_heap h seeds = true -> 0 <= root < hlen h -> (length h < fuel)%nat ->
  run_seeded_gen nf fuel h seeds root = Ok (s', R y) ->
  (forall o, o < hlen h -> hget (sh s') o = hget h o)
  /\ hlen h <= hlen (sh s')
  /\ (forall o, reach (sh s') y o ->
        hlen h <= o < hlen (sh s') \/ exists b, (In b seeds \/ is_atomic h b = true) /\ reach h b o).
Proof.
  intros nf h seeds root fuel s' y WF Hr Hf E.
  assert (X := run_seeded_gen_eq nf fuel h seeds root). rewrite E in X.
  destruct (run_seeded nf fuel h seeds root) as [[t w]| |] eqn:EM; try contradiction.
  destruct X as [A [_ [_ EW]]]. subst w. rewrite A.
  exact (C12Proofs.deepcopy_fresh_disjoint_l nf h seeds root fuel t y WF Hr Hf EM).
Qed.
