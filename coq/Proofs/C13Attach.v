(* C13: a reader that is handed one fixed namespace through its factory (TreeList.get, Tree.get:
   `_taxon_namespace_pseudofactory`, not attached) and a reader / iterator the namespace is
   ATTACHED to (Tree.yield_from_files, TreeArray.read, DataSet.get(taxon_namespace=..)).
   Whenever the first succeeds, the second does exactly the same.  (The converse fails: see
   Props/C13.v, attached_not_conversely.) *)
From Coq Require Import ZArith List Bool Lia.
From DV Require Import Model.PyPrims Model.C13Model Proofs.C13Lists Proofs.C13Lockstep Proofs.C13Suffix Proofs.C13Blocks.
Import ListNotations.

Section Attach.
Variable T : Type.
Variables lower upper : str -> str.
Variable parse_tree : mapper -> tz -> res (option T * mapper * tz).
Variable set_label : T -> option str -> T.
Variable add_comments : T -> list str -> T.
Variable vl : bool.
Variable a1 : bool.
Variable sl : bool.
Variable fac : tns_factory.
Variable et : bool.

Notation c1 := (mkNsCfg a1 (FacFixed sl)).
Notation c2 := (mkNsCfg true fac).

Definition inv (g : regs) : Prop := Forall (fun i => i = O) (g_reg g).
Definition ns_ok (o : option nat) : Prop := o = None \/ o = Some O.

Lemma new_tns_1 : forall k g t, exists g', new_tns c1 k g t = (O, k, g') /\ (inv g -> inv g').
Proof.
  intros k g t. unfold new_tns. simpl. destruct a1.
  - exists g. split; [reflexivity | auto].
  - eexists. split; [reflexivity|].
    unfold inv. simpl. intros H. apply Forall_app. split; [assumption | constructor; auto].
Qed.

Lemma new_tns_2 : forall k g t, new_tns c2 k g t = (O, k, g).
Proof. reflexivity. Qed.

Lemma get_tns_2 : forall k g t, get_tns upper c2 k g t = Ok (O, k, g).
Proof. reflexivity. Qed.

Lemma get_tns_1 : forall k g t i k' g',
  get_tns upper c1 k g t = Ok (i, k', g') -> inv g -> i = O /\ k' = k /\ inv g'.
Proof.
  intros k g t i k' g' H I. unfold get_tns in H. simpl in H.
  assert (EA : a1 = true \/ a1 = false) by (destruct a1; auto).
  destruct EA as [EA|EA]; rewrite EA in H; [inversion H; subst; auto|]. destruct t as [t|].
  - match type of H with match ?f with _ => _ end = _ => destruct f as [|x [|y r]] eqn:EF end; try discriminate.
    inversion H; subst. repeat split; auto.
    assert (In i (filter (fun i0 => match nth i0 (g_labels g') None with
                                     | Some l => str_eqb (upper l) (upper t) | None => false end) (g_reg g')))
      by (rewrite EF; left; reflexivity).
    apply filter_In in H0. destruct H0 as [H0 _]. unfold inv in I. rewrite Forall_forall in I. auto.
  - destruct (g_reg g) as [|x [|y r]] eqn:ER; try discriminate.
    + destruct (new_tns_1 k g None) as [g1 [E1 I1]]. rewrite EA in E1. rewrite E1 in H. inversion H; subst. auto.
    + inversion H; subst. repeat split; auto. unfold inv in I. rewrite ER in I. inversion I; auto.
Qed.

Lemma loc_get_ns_12 : forall k g1 g2 l,
  inv g1 -> ns_ok (l_ns l) ->
  match loc_get_ns upper c1 k g1 l with
  | Ok (i, k', g1') => i = O /\ k' = k /\ inv g1' /\ loc_get_ns upper c2 k g2 l = Ok (O, k, g2)
  | _ => True
  end.
Proof.
  intros k g1 g2 l I [N|N]; unfold loc_get_ns; rewrite N.
  - destruct (get_tns upper c1 k g1 (l_link l)) as [[[i k'] g1']|e|] eqn:E; auto.
    destruct (get_tns_1 _ _ _ _ _ _ E I) as [A [B C]]. repeat split; auto.
  - repeat split; auto.
Qed.

Lemma taxlabels_12 : forall fuel z taxa n r,
  taxlabels_loop lower c1 fuel z taxa n = Ok r -> taxlabels_loop lower c2 fuel z taxa n = Ok r.
Proof.
  induction fuel as [|f IH]; intros z taxa n r H; simpl in *; [discriminate|].
  destruct (z_cur z) as [label|]; [|discriminate].
  destruct (str_eqb label K_SEMI); [assumption|].
  destruct (ns_get_taxon lower taxa label).
  - cbn [bind] in *. destruct (require_next_token z); cbn [bind] in *; try discriminate. apply IH. assumption.
  - destruct n as [n|];
      [|cbn [bind] in *; destruct (require_next_token z); cbn [bind] in *; try discriminate; apply IH; assumption].
    assert (X : ((n <=? Z.of_nat (length taxa))%Z && negb (a1 && negb (is_nil taxa))) = false).
    { destruct ((n <=? Z.of_nat (length taxa))%Z && negb (a1 && negb (is_nil taxa))); [discriminate | reflexivity]. }
    assert (X2 : ((n <=? Z.of_nat (length taxa))%Z && negb (true && negb (is_nil taxa))) = false).
    { destruct (n <=? Z.of_nat (length taxa))%Z; [|reflexivity]. simpl in *. destruct a1; simpl in *; [assumption|discriminate]. }
    rewrite X in H. simpl in X2. simpl. rewrite X2.
    cbn [bind] in *. destruct (require_next_token z); cbn [bind] in *; try discriminate. apply IH. assumption.
Qed.

Lemma parse_taxlabels_12 : forall fuel k ns k',
  parse_taxlabels lower c1 fuel k ns = Ok k' -> parse_taxlabels lower c2 fuel k ns = Ok k'.
Proof.
  intros fuel k ns k' H. unfold parse_taxlabels in *.
  destruct (require_next_token (k_z k)) as [z1|e|]; cbn [bind] in *; try discriminate.
  destruct (taxlabels_loop lower c1 fuel z1 (ns_taxa_at k ns) (k_ntax k)) as [r|e|] eqn:E; cbn [bind] in H; try discriminate.
  rewrite (taxlabels_12 _ _ _ _ _ E). cbn [bind]. assumption.
Qed.

Lemma taxa_loop_12 : forall fuel k g1 g2 tok tns,
  inv g1 -> ns_ok tns ->
  match taxa_loop lower upper c1 fuel k g1 tok tns with
  | Ok (k', g1') => taxa_loop lower upper c2 fuel k g2 tok tns = Ok (k', g2) /\ inv g1'
  | _ => True
  end.
Proof.
  induction fuel as [|f IH]; intros k g1 g2 tok tns I N; [exact Logic.I|].
  cbn [taxa_loop].
  destruct (str_eqb tok K_END || str_eqb tok K_ENDBLOCK); [auto|].
  destruct (require_next_token_ucase upper (k_z k)) as [z1|e|]; cbn [bind]; auto.
  destruct (str_eqb (cur_text z1) K_TITLE).
  - destruct (parse_title upper (k_z (set_z k z1))) as [[title z2]|e|]; cbn [bind]; auto.
    destruct (new_tns_1 (set_z (set_z k z1) z2) g1 (Some title)) as [g1' [E1 I1]].
    rewrite E1, new_tns_2. cbn [bind].
    destruct (str_eqb title K_DIMENSIONS).
    + destruct (parse_dimensions upper (S f) _ _) as [[n z3]|e|]; cbn [bind]; auto.
      destruct (str_eqb title K_TAXLABELS).
      * destruct (parse_taxlabels lower c1 (S f) _ O) as [k5|e|] eqn:E5; cbn [bind]; auto.
        rewrite (parse_taxlabels_12 _ _ _ _ E5). cbn [bind]. apply IH; [auto | right; reflexivity].
      * apply IH; [auto | right; reflexivity].
    + cbn [bind]. destruct (str_eqb title K_TAXLABELS).
      * destruct (parse_taxlabels lower c1 (S f) _ O) as [k5|e|] eqn:E5; cbn [bind]; auto.
        rewrite (parse_taxlabels_12 _ _ _ _ E5). cbn [bind]. apply IH; [auto | right; reflexivity].
      * apply IH; [auto | right; reflexivity].
  - cbn [bind].
    assert (G : forall k3,
      match (if str_eqb (cur_text z1) K_TAXLABELS
             then let '(i, k4, g4) := match tns with Some i => (i, k3, g1) | None => new_tns c1 k3 g1 None end in
                  do k5 <- parse_taxlabels lower c1 (S f) (set_z k4 (clear_comments (k_z k4))) i ;;
                  taxa_loop lower upper c1 f k5 g4 (cur_text z1) (Some i)
             else taxa_loop lower upper c1 f k3 g1 (cur_text z1) tns) with
      | Ok (k', g1') =>
        (if str_eqb (cur_text z1) K_TAXLABELS
         then let '(i, k4, g4) := match tns with Some i => (i, k3, g2) | None => new_tns c2 k3 g2 None end in
              do k5 <- parse_taxlabels lower c2 (S f) (set_z k4 (clear_comments (k_z k4))) i ;;
              taxa_loop lower upper c2 f k5 g4 (cur_text z1) (Some i)
         else taxa_loop lower upper c2 f k3 g2 (cur_text z1) tns) = Ok (k', g2) /\ inv g1'
      | _ => True end).
    { intros k3. destruct (str_eqb (cur_text z1) K_TAXLABELS); [|apply IH; assumption].
      destruct N as [N|N]; subst tns.
      - destruct (new_tns_1 k3 g1 None) as [g1' [E1 I1]]. rewrite E1, new_tns_2.
        destruct (parse_taxlabels lower c1 (S f) _ O) as [k5|e|] eqn:E5; cbn [bind]; auto.
        rewrite (parse_taxlabels_12 _ _ _ _ E5). cbn [bind]. apply IH; [auto | right; reflexivity].
      - destruct (parse_taxlabels lower c1 (S f) _ O) as [k5|e|] eqn:E5; cbn [bind]; auto.
        rewrite (parse_taxlabels_12 _ _ _ _ E5). cbn [bind]. apply IH; [auto | right; reflexivity]. }
    destruct (str_eqb (cur_text z1) K_DIMENSIONS).
    + destruct (parse_dimensions upper (S f) _ _) as [[n z3]|e|]; cbn [bind]; auto. apply G.
    + cbn [bind]. apply G.
Qed.

Lemma parse_taxa_block_12 : forall fuel k g1 g2,
  inv g1 ->
  match parse_taxa_block lower upper c1 fuel k g1 with
  | Ok (k', g1') => parse_taxa_block lower upper c2 fuel k g2 = Ok (k', g2) /\ inv g1'
  | _ => True
  end.
Proof.
  intros fuel k g1 g2 I. unfold parse_taxa_block.
  destruct (zstep k (skip_to_semicolon fuel)) as [k1|e|]; cbn [bind]; auto.
  pose proof (taxa_loop_12 fuel k1 g1 g2 [] None I (or_introl eq_refl)) as H.
  destruct (taxa_loop lower upper c1 fuel k1 g1 [] None) as [[k2 g1']|e|]; cbn [bind]; auto.
  destruct H as [H I']. rewrite H. cbn [bind].
  destruct (zstep k2 (skip_to_semicolon fuel)); cbn [bind]; auto.
Qed.

Notation YTS cc := (y_trees_loop T lower upper parse_tree set_label add_comments vl cc).
Notation YTL := (y_tree_loop T upper parse_tree set_label add_comments).
Notation YTB cc := (y_trees_block T lower upper parse_tree set_label add_comments vl cc et).
Notation YBL cc := (y_blocks_loop T lower upper parse_tree set_label add_comments vl cc et).
Notation YST cc := (y_items_from_stream T lower upper parse_tree set_label add_comments vl cc et).

Definition yrel (a : yres T (core * regs)) (b : yres T (core * regs)) (g2 : regs) : Prop :=
  match a with
  | (out, Ok (k', g1')) => b = (out, Ok (k', g2)) /\ inv g1'
  | _ => True
  end.

Lemma yrel_bind_tree : forall (a : yres T (core * mapper * option (option str))) f1 f2 g2,
  (forall x, yrel (f1 x) (f2 x) g2) -> yrel (ybind T a f1) (ybind T a f2) g2.
Proof.
  intros [o [x|e|]] f1 f2 g2 H; simpl; auto.
  specialize (H x). unfold yrel in *. destruct (f1 x) as [o1 [[k' g1']|e|]]; auto.
  destruct H as [H I]. rewrite H. auto.
Qed.

Lemma y_trees_loop_12 : forall fuel k g1 g2 l,
  inv g1 -> ns_ok (l_ns l) -> yrel (YTS c1 fuel k g1 l) (YTS c2 fuel k g2 l) g2.
Proof.
  induction fuel as [|f IH]; intros k g1 g2 l I N; [exact Logic.I|].
  cbn [y_trees_loop].
  destruct (loop_guard (k_z k) (l_token l)); [|simpl; auto].
  rewrite !ybind_ylift.
  destruct (zstep k (next_token_ucase upper)) as [k1|e|]; try exact Logic.I.
  destruct (otok_is (z_cur (k_z k1)) K_LINK).
  { rewrite !ybind_ylift. destruct (parse_link upper vl (S f) (k_z k1)) as [[lt z2]|e|]; try exact Logic.I.
    apply IH; assumption. }
  destruct (otok_is (z_cur (k_z k1)) K_TITLE).
  { rewrite !ybind_ylift. destruct (parse_title upper (k_z k1)) as [[bt z2]|e|]; try exact Logic.I.
    apply IH; assumption. }
  destruct (otok_is (z_cur (k_z k1)) K_TRANSLATE).
  { rewrite !ybind_ylift.
    pose proof (loc_get_ns_12 k1 g1 g2 l I N) as HL.
    destruct (loc_get_ns upper c1 k1 g1 l) as [[[i k2] g1']|e|]; try exact Logic.I.
    destruct HL as [A [B [C D]]]. subst i k2. rewrite D. rewrite !ybind_ylift.
    destruct (parse_translate lower (S f) k1 O) as [[m k3]|e|]; try exact Logic.I.
    apply IH; [assumption | right; reflexivity]. }
  destruct (otok_is (z_cur (k_z k1)) K_TREE).
  { rewrite !ybind_ylift.
    pose proof (loc_get_ns_12 k1 g1 g2 l I N) as HL.
    destruct (loc_get_ns upper c1 k1 g1 l) as [[[i k2] g1']|e|]; try exact Logic.I.
    destruct HL as [A [B [C D]]]. subst i k2. rewrite D.
    destruct (pull_comments (k_z k1)) as [pre z3].
    apply yrel_bind_tree. intros [[k6 m1] tk]. apply IH; [assumption | right; reflexivity]. }
  destruct (otok_is (z_cur (k_z k1)) K_BEGIN); [exact Logic.I|].
  apply IH; assumption.
Qed.

Lemma yrel_bind : forall a b g2 f1 f2,
  yrel a b g2 ->
  (forall k g1', inv g1' -> yrel (f1 (k, g1')) (f2 (k, g2)) g2) ->
  yrel (ybind T a f1) (ybind T b f2) g2.
Proof.
  intros [o [[k g1']|e|]] b g2 f1 f2 H HF; unfold yrel in *; simpl in *; auto.
  destruct H as [H I]. subst b. simpl.
  specialize (HF k g1' I).
  destruct (f1 (k, g1')) as [o1 [[k' g1'']|e|]]; auto.
  destruct HF as [HF I']. rewrite HF. auto.
Qed.

Lemma y_trees_block_12 : forall fuel k g1 g2,
  inv g1 -> yrel (YTB c1 fuel k g1) (YTB c2 fuel k g2) g2.
Proof.
  intros fuel k g1 g2 I. unfold y_trees_block.
  destruct (negb (tok_is (cast_ucase upper (k_z k)) K_TREES)); [exact Logic.I|].
  destruct et.
  - unfold ylift. destruct (zstep _ _) as [k1|e|]; cbn [bind]; simpl; auto.
  - rewrite !ybind_ylift.
    destruct (zstep (set_z k (cast_ucase upper (k_z k))) (skip_to_semicolon fuel)) as [k1|e|]; try exact Logic.I.
    apply yrel_bind.
    + apply y_trees_loop_12; [assumption | left; reflexivity].
    + intros k2 g1' I'. unfold ylift. destruct (zstep k2 (skip_to_semicolon fuel)); cbn [bind]; simpl; auto.
Qed.

Lemma y_blocks_loop_12 : forall fuel k g1 g2,
  inv g1 -> yrel (YBL c1 fuel k g1) (YBL c2 fuel k g2) g2.
Proof.
  induction fuel as [|f IH]; intros k g1 g2 I; [exact Logic.I|].
  cbn [y_blocks_loop].
  destruct (negb (z_eof (k_z k))); [|simpl; auto].
  rewrite !ybind_ylift.
  destruct (block_head upper (S f) k) as [k4|e|]; try exact Logic.I.
  destruct (otok_is (z_cur (k_z k4)) K_TAXA).
  { rewrite !ybind_ylift.
    pose proof (parse_taxa_block_12 (S f) k4 g1 g2 I) as H.
    destruct (parse_taxa_block lower upper c1 (S f) k4 g1) as [[k5 g5]|e|]; try exact Logic.I.
    destruct H as [H I5]. rewrite H. apply IH. assumption. }
  destruct (otok_is (z_cur (k_z k4)) K_TREES).
  { apply yrel_bind; [apply y_trees_block_12; assumption|].
    intros k5 g5 I5. apply IH. assumption. }
  destruct (otok_is (z_cur (k_z k4)) K_BEGIN); [exact Logic.I|].
  rewrite !ybind_ylift.
  destruct (zstep k4 (consume_to_end_of_block upper (S f) (z_cur (k_z k4)))); try exact Logic.I.
  apply IH. assumption.
Qed.

Lemma y_items_12 : forall fuel k g1 g2,
  inv g1 -> yrel (YST c1 fuel k g1) (YST c2 fuel k g2) g2.
Proof.
  intros fuel k g1 g2 I. unfold y_items_from_stream. rewrite !ybind_ylift.
  destruct (zstep k require_next_token) as [k1|e|]; try exact Logic.I.
  destruct (z_cur (k_z k1)); [|exact Logic.I].
  destruct (negb (str_eqb (upper s) K_NEXUS)); [exact Logic.I|].
  apply y_blocks_loop_12. assumption.
Qed.

End Attach.
