(* C12: basic facts about the heap, bodies, memo and the state primitives of Model/C12Model.v *)
From Coq Require Import ZArith List Bool Lia.
From DV Require Import Model.PyPrims Model.C12Model.
Import ListNotations.
Open Scope Z_scope.

(* ---- val / kind equality -------------------------------------------------------------------- *)

Lemma val_eqb_eq : forall a b, val_eqb a b = true <-> a = b.
Proof.
  intros [x|x] [y|y]; simpl; split; intro H; try discriminate; try (inversion H; subst; apply Z.eqb_refl);
    apply Z.eqb_eq in H; subst; reflexivity.
Qed.

Lemma val_eqb_refl : forall a, val_eqb a a = true.
Proof. intro a. apply val_eqb_eq. reflexivity. Qed.

Lemma val_eqb_neq : forall a b, val_eqb a b = false <-> a <> b.
Proof.
  intros a b. split; intro H.
  - intro E. apply val_eqb_eq in E. congruence.
  - destruct (val_eqb a b) eqn:E; [apply val_eqb_eq in E; contradiction | reflexivity].
Qed.

(* ---- hget / hset / append --------------------------------------------------------------------- *)

Lemma hlen_nonneg : forall h, 0 <= hlen h.
Proof. intro h. unfold hlen. lia. Qed.

Lemma hget_Some_range : forall h o x, hget h o = Some x -> 0 <= o < hlen h.
Proof.
  unfold hget, hlen. intros h o x H. destruct (o <? 0) eqn:E; [discriminate|].
  apply Z.ltb_ge in E. assert (Hn : (Z.to_nat o < length h)%nat).
  { apply nth_error_Some. congruence. }
  lia.
Qed.

Lemma hget_in_range : forall h o, 0 <= o < hlen h -> exists x, hget h o = Some x.
Proof.
  unfold hget, hlen. intros h o [H1 H2]. destruct (o <? 0) eqn:E; [apply Z.ltb_lt in E; lia|].
  destruct (nth_error h (Z.to_nat o)) eqn:N; [eauto|].
  apply nth_error_None in N. lia.
Qed.

Lemma hget_None_range : forall h o, hget h o = None -> o < 0 \/ hlen h <= o.
Proof.
  intros h o H. destruct (Z_lt_dec o 0); [left; assumption|]. destruct (Z_lt_dec o (hlen h)); [|right; lia].
  destruct (hget_in_range h o) as [x Hx]; [lia|congruence].
Qed.

Lemma hlen_app1 : forall h x, hlen (h ++ [x]) = hlen h + 1.
Proof. intros. unfold hlen. rewrite app_length. simpl. lia. Qed.

Lemma hlen_app : forall h l, hlen (h ++ l) = hlen h + hlen l.
Proof. intros. unfold hlen. rewrite app_length. lia. Qed.

Lemma hget_app_old : forall h l o, o < hlen h -> hget (h ++ l) o = hget h o.
Proof.
  unfold hget, hlen. intros h l o H. destruct (o <? 0) eqn:E; [reflexivity|].
  apply Z.ltb_ge in E. apply nth_error_app1. lia.
Qed.

Lemma hget_app_new : forall h x, hget (h ++ [x]) (hlen h) = Some x.
Proof.
  unfold hget, hlen. intros h x. destruct (Z.of_nat (length h) <? 0) eqn:E; [apply Z.ltb_lt in E; lia|].
  rewrite Nat2Z.id. rewrite nth_error_app2; [|lia]. rewrite Nat.sub_diag. reflexivity.
Qed.

Lemma list_set_length : forall A (l : list A) n x, length (list_set l n x) = length l.
Proof. induction l as [|a r IH]; intros [|n] x; simpl; auto. Qed.

Lemma list_set_same : forall A (l : list A) n x, (n < length l)%nat -> nth_error (list_set l n x) n = Some x.
Proof.
  induction l as [|a r IH]; intros [|n] x H; simpl in *; try lia; auto. apply IH. lia.
Qed.

Lemma list_set_other : forall A (l : list A) n m x, n <> m -> nth_error (list_set l n x) m = nth_error l m.
Proof.
  induction l as [|a r IH]; intros [|n] [|m] x H; simpl; auto; try congruence.
Qed.

Lemma hlen_hset : forall h o x, hlen (hset h o x) = hlen h.
Proof. intros. unfold hset, hlen. destruct (o <? 0); [reflexivity|]. rewrite list_set_length. reflexivity. Qed.

Lemma hget_hset_same : forall h o x, 0 <= o < hlen h -> hget (hset h o x) o = Some x.
Proof.
  unfold hget, hset, hlen. intros h o x [H1 H2]. destruct (o <? 0) eqn:E; [apply Z.ltb_lt in E; lia|].
  apply list_set_same. lia.
Qed.

Lemma hget_hset_other : forall h o o' x, o <> o' -> hget (hset h o x) o' = hget h o'.
Proof.
  unfold hget, hset. intros h o o' x H. destruct (o' <? 0) eqn:E'; [reflexivity|].
  destruct (o <? 0) eqn:E; [reflexivity|]. apply Z.ltb_ge in E, E'.
  apply list_set_other. intro C. apply H. lia.
Qed.

(* ---- bodies ---------------------------------------------------------------------------------- *)

Lemma bget_In : forall b k v, bget b k = Some v -> In (k, v) b.
Proof.
  induction b as [|[k' v'] r IH]; simpl; intros k v H; [discriminate|].
  destruct (val_eqb k k') eqn:E.
  - apply val_eqb_eq in E. inversion H; subst. left; reflexivity.
  - right. apply IH. assumption.
Qed.

Lemma In_bset : forall b k v k' v', In (k', v') (bset b k v) -> (k', v') = (k, v) \/ In (k', v') b.
Proof.
  induction b as [|[k0 v0] r IH]; simpl; intros k v k' v' H.
  - destruct H as [H|[]]. left. symmetry. assumption.
  - destruct (val_eqb k k0) eqn:E; simpl in H.
    + destruct H as [H|H]; [left; symmetry; assumption | right; right; assumption].
    + destruct H as [H|H]; [right; left; assumption|].
      apply IH in H. destruct H; [left; assumption | right; right; assumption].
Qed.

Lemma bget_bset_same : forall b k v, bget (bset b k v) k = Some v.
Proof.
  induction b as [|[k0 v0] r IH]; simpl; intros k v.
  - rewrite val_eqb_refl. reflexivity.
  - destruct (val_eqb k k0) eqn:E; simpl; [rewrite val_eqb_refl; reflexivity|]. rewrite E. apply IH.
Qed.

Lemma bget_bset_other : forall b k v k', k' <> k -> bget (bset b k v) k' = bget b k'.
Proof.
  induction b as [|[k0 v0] r IH]; simpl; intros k v k' H.
  - apply val_eqb_neq in H. rewrite H. reflexivity.
  - destruct (val_eqb k k0) eqn:E; simpl.
    + apply val_eqb_eq in E. subst k0. apply val_eqb_neq in H. rewrite H. reflexivity.
    + destruct (val_eqb k' k0); [reflexivity|]. apply IH. assumption.
Qed.

Lemma In_values : forall b v, In v (values b) -> exists k, In (k, v) b.
Proof.
  unfold values. intros b v H. apply in_map_iff in H. destruct H as [[k v'] [E H]]. simpl in E. subst. eauto.
Qed.

(* ---- memo -------------------------------------------------------------------------------------- *)

Lemma alookup_cons : forall k a b l, alookup k ((a, b) :: l) = if Z.eqb k a then Some b else alookup k l.
Proof. reflexivity. Qed.

Lemma alookup_seed : forall seeds x y, alookup x (seed_memo seeds) = Some y -> y = x /\ In x seeds.
Proof.
  induction seeds as [|s r IH]; simpl; intros x y H; [discriminate|].
  destruct (Z.eqb x s) eqn:E.
  - apply Z.eqb_eq in E. inversion H; subst. auto.
  - apply IH in H. destruct H. auto.
Qed.

Lemma alookup_seed_in : forall seeds x, In x seeds -> alookup x (seed_memo seeds) = Some x.
Proof.
  induction seeds as [|s r IH]; simpl; intros x H; [contradiction|].
  destruct (Z.eqb x s) eqn:E; [apply Z.eqb_eq in E; subst; reflexivity|].
  destruct H as [H|H]; [subst; rewrite Z.eqb_refl in E; discriminate|]. apply IH. assumption.
Qed.

(* ---- state primitives --------------------------------------------------------------------------- *)

Lemma alloc_sh : forall s x, sh (fst (alloc s x)) = sh s ++ [x].
Proof. reflexivity. Qed.
Lemma alloc_oid : forall s x, snd (alloc s x) = hlen (sh s).
Proof. reflexivity. Qed.
Lemma alloc_sm : forall s x, sm (fst (alloc s x)) = sm s.
Proof. reflexivity. Qed.

Lemma put_sm : forall s y k v, sm (put s y k v) = sm s.
Proof. intros. unfold put. destruct (hget (sh s) y); reflexivity. Qed.

Lemma put_snone : forall s y k v, snone (put s y k v) = snone s.
Proof. intros. unfold put. destruct (hget (sh s) y); reflexivity. Qed.

Lemma put_hlen : forall s y k v, hlen (sh (put s y k v)) = hlen (sh s).
Proof. intros. unfold put. destruct (hget (sh s) y); simpl; [apply hlen_hset | reflexivity]. Qed.

Lemma put_get_other : forall s y k v o, o <> y -> hget (sh (put s y k v)) o = hget (sh s) o.
Proof.
  intros. unfold put. destruct (hget (sh s) y); simpl; [|reflexivity].
  apply hget_hset_other. congruence.
Qed.

Lemma put_get_same : forall s y k v x, hget (sh s) y = Some x ->
  hget (sh (put s y k v)) y = Some (mkObj (ocls x) (okind x) (bset (obody x) k v)).
Proof.
  intros s y k v x H. unfold put. rewrite H. simpl. apply hget_hset_same. eapply hget_Some_range. eassumption.
Qed.

Lemma put_get_inv : forall s y k v o ob, hget (sh (put s y k v)) o = Some ob ->
  (o <> y /\ hget (sh s) o = Some ob) \/
  (o = y /\ exists x, hget (sh s) y = Some x /\ ob = mkObj (ocls x) (okind x) (bset (obody x) k v)).
Proof.
  intros s y k v o ob H. destruct (Z.eq_dec o y) as [E|E].
  - subst o. right. split; [reflexivity|]. destruct (hget (sh s) y) as [x|] eqn:Hy.
    + rewrite (put_get_same _ _ _ _ _ Hy) in H. inversion H. eauto.
    + unfold put in H. rewrite Hy in H. congruence.
  - left. rewrite put_get_other in H by assumption. auto.
Qed.

Lemma put_kind : forall s y k v o, kind_at (sh (put s y k v)) o = kind_at (sh s) o.
Proof.
  intros. unfold kind_at. destruct (Z.eq_dec o y) as [E|E].
  - subst. destruct (hget (sh s) y) as [x|] eqn:Hy.
    + rewrite (put_get_same _ _ _ _ _ Hy). reflexivity.
    + unfold put. rewrite Hy. rewrite Hy. reflexivity.
  - rewrite put_get_other by assumption. reflexivity.
Qed.

Lemma body_of_put_same : forall s y k v x, hget (sh s) y = Some x ->
  body_of (put s y k v) y = bset (body_of s y) k v.
Proof.
  intros. unfold body_of. rewrite (put_get_same _ _ _ _ _ H), H. reflexivity.
Qed.

Lemma body_of_put_other : forall s y k v o, o <> y -> body_of (put s y k v) o = body_of s o.
Proof. intros. unfold body_of. rewrite put_get_other by assumption. reflexivity. Qed.
