(* C20 proofs, parts 1-3: the progress rule over the generated loop table; totality and outcome
   enumeration of the PHYLIP and FASTA reader models. *)
From Coq Require Import String ZArith List Bool Lia.
From DV Require Import Model.PyPrims Gen.ReaderLoops Model.C20Model.
Import ListNotations.
Close Scope string_scope.
Open Scope list_scope.
Open Scope Z_scope.

(* ------------------------------------------------------------------------------------------ *)
(* Part 1                                                                                      *)
(* ------------------------------------------------------------------------------------------ *)

Lemma loop_progress_l :
  forallb (fun l => loop_ok l || loop_in allow_list l) reader_loops = true.
Proof. vm_compute. reflexivity. Qed.

Lemma loop_progress_lifted_l : forall l, In l reader_loops ->
  loop_ok l = true \/ loop_in allow_list l = true.
Proof.
  intros l H. pose proof loop_progress_l as P. rewrite forallb_forall in P.
  specialize (P l H). apply orb_true_iff in P. exact P.
Qed.

Lemma allow_list_needed_l :
  forallb (fun l => negb (loop_in allow_list l && loop_ok l)) reader_loops = true.
Proof. vm_compute. reflexivity. Qed.

Lemma recursion_sites_known_l : forallb recursion_known reader_recursions = true.
Proof. vm_compute. reflexivity. Qed.

Lemma excluded_loops_none_l : excluded_loops = [].
Proof. reflexivity. Qed.

(* ------------------------------------------------------------------------------------------ *)
(* Parts 2, 3                                                                                  *)
(* ------------------------------------------------------------------------------------------ *)
Section Py.
Variable isspace : Z -> bool.
Variable dval : Z -> option Z.
Variable lower : str -> str.
Variable sym : Z -> option Z.

Notation phylip_read := (phylip_read isspace dval lower sym).
Notation parse_taxon_from_line := (parse_taxon_from_line isspace lower).
Notation parse_sequential := (parse_sequential isspace lower sym).
Notation parse_interleaved := (parse_interleaved isspace lower sym).
Notation parse_symbols := (parse_symbols sym).
Notation fasta_read := (fasta_read isspace lower sym).
Notation fasta_lines := (fasta_lines isspace lower sym).
Notation fasta_symbols := (fasta_symbols isspace sym).

(* the error classes a PHYLIP read may end in *)
Definition phylip_err_ok (o : popts) (e : err) : Prop :=
  e = ParseErr \/ (po_fix_fmt o = false /\ e = TypeErr).

Definition phylip_res_ok {A} (o : popts) (r : res A) : Prop :=
  match r with Ok _ => True | Err e => phylip_err_ok o e | OutOfFuel => False end.

Lemma zlen_app {A} (a b : list A) : zlen (a ++ b) = zlen a + zlen b.
Proof. unfold zlen. rewrite app_length. lia. Qed.

Lemma zlen_nonneg {A} (a : list A) : 0 <= zlen a.
Proof. unfold zlen. lia. Qed.

Lemma append_at_length rows i add : length (append_at rows i add) = length rows.
Proof.
  revert i. induction rows as [|[l s] r IH]; intros i; simpl; [destruct i; reflexivity|].
  destruct i; simpl; [reflexivity | rewrite IH; reflexivity].
Qed.

Lemma zlen_append_at rows i add : zlen (append_at rows i add) = zlen rows.
Proof. unfold zlen. rewrite append_at_length. reflexivity. Qed.

Lemma parse_symbols_ok ig line :
  match parse_symbols ig line with Ok _ => True | Err e => e = ParseErr | OutOfFuel => False end.
Proof.
  induction line as [|c r IH]; simpl; [exact I|].
  destruct (is_blank c); [exact IH|].
  destruct (sym c).
  - destruct (parse_symbols ig r); simpl; auto.
  - destruct ig; [exact IH | reflexivity].
Qed.

Lemma ptfl_ok o ntax nchar rows line :
  match parse_taxon_from_line o ntax nchar rows line with
  | Ok (i, _, rows') => (length rows' = length rows \/ length rows' = S (length rows)) /\ zlen rows' <= ntax
                        \/ (length rows' = length rows)
  | Err e => phylip_err_ok o e
  | OutOfFuel => False
  end.
Proof.
  unfold C20Model.parse_taxon_from_line.
  destruct (if po_strict o then _ else _) as [lab0 rest].
  destruct (strip isspace lab0) as [|c l] eqn:E; [left; reflexivity|].
  match goal with |- context [find_row ?lw ?cs ?lab rows 0] => destruct (find_row lw cs lab rows 0) end.
  - destruct (row_len rows n >=? nchar).
    + destruct (po_fix_fmt o) eqn:F; [left; reflexivity | right; auto].
    + destruct (zlen rows >? ntax); [left; reflexivity | right; reflexivity].
  - match goal with |- context [zlen ?r >? ntax] => destruct (zlen r >? ntax) eqn:G end.
    + left; reflexivity.
    + left. split; [right; rewrite app_length; simpl; lia | lia].
Qed.

Lemma parse_sequential_ok o ntax nchar lines : forall cur rows,
  phylip_res_ok o (parse_sequential o ntax nchar lines cur rows).
Proof.
  induction lines as [|line0 rest IH]; intros cur rows; simpl; [exact I|].
  destruct (rstrip isspace line0) as [|c l] eqn:E; [apply IH|].
  remember (c :: l) as line eqn:EL; clear EL E c l.
  destruct cur as [i|].
  - cbn [bind]. pose proof (parse_symbols_ok (po_ignore_invalid o) line) as S.
    destruct (parse_symbols (po_ignore_invalid o) line); cbn [bind]; try contradiction.
    + apply IH.
    + left; exact S.
  - pose proof (ptfl_ok o ntax nchar rows line) as T.
    destruct (parse_taxon_from_line o ntax nchar rows line) as [[[i body] rows1]| |]; cbn [bind]; try contradiction; [|exact T].
    pose proof (parse_symbols_ok (po_ignore_invalid o) body) as S.
    destruct (parse_symbols (po_ignore_invalid o) body); cbn [bind]; try contradiction.
    + apply IH.
    + left; exact S.
Qed.

(* interleaved: once `paged`, the namespace has exactly ntax members, so the positional lookup
   taxon_namespace[paged_row] is always in range *)
Lemma parse_interleaved_ok o ntax nchar lines : ntax <> 0 -> forall paged pr rows,
  (paged = true -> zlen rows = ntax) -> -1 <= pr ->
  phylip_res_ok o (parse_interleaved o ntax nchar lines paged pr rows).
Proof.
  intros NZ. induction lines as [|line0 rest IH]; intros paged pr rows HP HR; simpl; [exact I|].
  destruct (rstrip isspace line0) as [|c l] eqn:E; [apply IH; assumption|].
  remember (c :: l) as line eqn:EL; clear EL E c l.
  destruct paged.
  - specialize (HP eq_refl).
    assert (R : 0 <= (if pr + 1 >=? ntax then 0 else pr + 1) < zlen rows).
    { pose proof (zlen_nonneg rows). destruct (pr + 1 >=? ntax) eqn:G; [|lia].
      assert (0 < zlen rows); [|lia]. lia. }
    destruct R as [R1 R2].
    apply Z.leb_le in R1. apply Z.ltb_lt in R2. rewrite R1, R2. cbn [andb bind].
    pose proof (parse_symbols_ok (po_ignore_invalid o) line) as S.
    destruct (parse_symbols (po_ignore_invalid o) line); cbn [bind]; try contradiction.
    + apply IH; [intros _; rewrite zlen_append_at; exact HP|].
      destruct (pr + 1 >=? ntax); lia.
    + left; exact S.
  - pose proof (ptfl_ok o ntax nchar rows line) as T.
    destruct (parse_taxon_from_line o ntax nchar rows line) as [[[i body] rows1]| |]; cbn [bind]; try contradiction; [|exact T].
    destruct (zlen rows1 =? ntax) eqn:G.
    + pose proof (parse_symbols_ok (po_ignore_invalid o) body) as S.
      destruct (parse_symbols (po_ignore_invalid o) body); cbn [bind]; try contradiction.
      * apply IH; [intros _; rewrite zlen_append_at; apply Z.eqb_eq; exact G | lia].
      * left; exact S.
    + pose proof (parse_symbols_ok (po_ignore_invalid o) body) as S.
      destruct (parse_symbols (po_ignore_invalid o) body); cbn [bind]; try contradiction.
      * apply IH; [discriminate|]. destruct (pr + 1 >=? ntax); lia.
      * left; exact S.
Qed.

(* what an accepted PHYLIP document looks like *)
Definition phylip_post (o : popts) (text : str) (rows : list row) : Prop :=
  exists ntax nchar,
    phylip_declared isspace dval text = Some (ntax, nchar)
    /\ zlen rows = ntax
    /\ (po_fix_dims o = true -> Forall (fun r => zlen (snd r) = nchar) rows).

Lemma phylip_reader_total_l o text :
  match phylip_read o text with
  | Ok rows => phylip_post o text rows
  | Err e => phylip_err_ok o e
  | OutOfFuel => False
  end.
Proof.
  unfold C20Model.phylip_read, phylip_post, phylip_declared.
  destruct (split_lines text []) as [|desc [|l1 [|l2 rest]]]; try (left; reflexivity).
  destruct (match_desc isspace dval desc) as [[ntax nchar]|]; [|left; reflexivity].
  destruct ((ntax =? 0) || (nchar =? 0)) eqn:Z0; [left; reflexivity|].
  apply orb_false_iff in Z0. destruct Z0 as [Z0 _]. apply Z.eqb_neq in Z0.
  set (body := if po_interleaved o then _ else _).
  assert (B : phylip_res_ok o body).
  { subst body. destruct (po_interleaved o).
    - apply parse_interleaved_ok; [exact Z0 | discriminate | lia].
    - apply parse_sequential_ok. }
  destruct body as [rows| |]; simpl in *; try contradiction; [|exact B].
  destruct (zlen rows =? ntax) eqn:G; simpl; [|left; reflexivity].
  destruct (po_fix_dims o) eqn:F; simpl.
  - destruct (forallb (fun r => zlen (snd r) =? nchar) rows) eqn:H; simpl; [|left; reflexivity].
    exists ntax, nchar. split; [reflexivity|]. split; [apply Z.eqb_eq; exact G|].
    intros _. apply Forall_forall. intros r Hr. rewrite forallb_forall in H.
    apply Z.eqb_eq. apply H. exact Hr.
  - exists ntax, nchar. split; [reflexivity|]. split; [apply Z.eqb_eq; exact G | discriminate].
Qed.

(* ---- FASTA ---- *)

Definition row_key (cs : bool) (r : row) : str := if cs then fst r else lower (fst r).

Lemma str_eqb_eq a b : str_eqb a b = true <-> a = b.
Proof. unfold str_eqb. apply list_eqb_eq. intros x y. apply Z.eqb_eq. Qed.

Lemma find_row_none cs label rows : forall i,
  find_row lower cs label rows i = None ->
  ~ In (if cs then label else lower label) (map (row_key cs) rows).
Proof.
  induction rows as [|[l s] r IH]; intros i H; simpl in *; [tauto|].
  destruct (label_matches lower cs l label) eqn:M; [discriminate|].
  intros [E | E]; [|exact (IH _ H E)].
  unfold label_matches, row_key in *. simpl in E. destruct cs.
  - subst. assert (X : str_eqb label label = true) by (apply str_eqb_eq; reflexivity). congruence.
  - assert (X : str_eqb (lower l) (lower label) = true) by (apply str_eqb_eq; exact E). congruence.
Qed.

Lemma append_at_keys cs rows i add : map (row_key cs) (append_at rows i add) = map (row_key cs) rows.
Proof.
  revert i. induction rows as [|[l s] r IH]; intros i; simpl; [destruct i; reflexivity|].
  destruct i; simpl; [reflexivity | rewrite IH; reflexivity].
Qed.

Lemma fasta_symbols_ok s :
  match fasta_symbols s with Ok _ => True | Err e => e = ParseErr | OutOfFuel => False end.
Proof.
  induction s as [|c r IH]; simpl; [exact I|].
  destruct (isspace c); [exact IH|].
  destruct (sym c); [|reflexivity].
  destruct (fasta_symbols r); simpl; auto.
Qed.

Lemma fasta_lines_ok cs lines : forall cur rows,
  NoDup (map (row_key cs) rows) ->
  match fasta_lines cs lines cur rows with
  | Ok rows' => NoDup (map (row_key cs) rows')
  | Err e => e = ParseErr
  | OutOfFuel => False
  end.
Proof.
  induction lines as [|line rest IH]; intros cur rows ND; simpl; [exact ND|].
  destruct (strip isspace line) as [|c r] eqn:E; [apply IH; exact ND|].
  destruct (c =? 62).
  - destruct (find_row lower cs (strip isspace r) rows 0) eqn:F; [reflexivity|].
    match goal with |- context [if ?b then Err ParseErr else _] => destruct b end; [reflexivity|].
    apply IH. rewrite map_app. simpl.
    apply find_row_none in F.
    assert (NoDup (rev (row_key cs (strip isspace r, []) :: rev (map (row_key cs) rows)))) as X.
    { apply NoDup_rev. constructor.
      - rewrite <- in_rev. unfold row_key at 1. simpl. exact F.
      - apply NoDup_rev. exact ND. }
    simpl in X. rewrite rev_involutive in X. exact X.
  - destruct cur as [i|]; [|reflexivity].
    pose proof (fasta_symbols_ok (c :: r)) as S.
    destruct (fasta_symbols (c :: r)); simpl; try contradiction; [|exact S].
    apply IH. rewrite append_at_keys. exact ND.
Qed.

Lemma fasta_reader_total_l cs text :
  match fasta_read cs text with
  | Ok rows => NoDup (map (row_key cs) rows)
  | Err e => e = ParseErr
  | OutOfFuel => False
  end.
Proof. unfold C20Model.fasta_read. apply fasta_lines_ok. constructor. Qed.

End Py.

(* ---- witnesses: the two PHYLIP defect sites on the current form of the reader ---- *)

Definition dna4 (c : Z) : option Z :=
  zassoc c [(65, 65); (67, 67); (71, 71); (84, 84); (97, 65); (99, 67); (103, 71); (116, 84)].

Definition popts_default : popts := mkPopts false false false false false false false false.

(* "2 4\na ACGT\nb ACG\n" *)
Definition phylip_short_row : str := [50;32;52;10; 97;32;65;67;71;84;10; 98;32;65;67;71;10].
(* "2 4\na ACGT\na ACGT\nb ACGT\n" *)
Definition phylip_repeated_label : str :=
  [50;32;52;10; 97;32;65;67;71;84;10; 97;32;65;67;71;84;10; 98;32;65;67;71;84;10].

Lemma phylip_dims_refuted_l :
  exists text rows ntax nchar,
    C20Model.phylip_read py_isspace ascii_dval ascii_lower dna4 popts_default text = Ok rows
    /\ phylip_declared py_isspace ascii_dval text = Some (ntax, nchar)
    /\ Exists (fun r => zlen (snd r) <> nchar) rows.
Proof.
  exists phylip_short_row, [([97], [65;67;71;84]); ([98], [65;67;71])], 2, 4.
  split; [vm_compute; reflexivity|]. split; [vm_compute; reflexivity|].
  apply Exists_cons_tl. apply Exists_cons_hd. vm_compute. discriminate.
Qed.

Lemma phylip_typeerr_refuted_l :
  exists text, C20Model.phylip_read py_isspace ascii_dval ascii_lower dna4 popts_default text = Err TypeErr.
Proof. exists phylip_repeated_label. vm_compute. reflexivity. Qed.
