(* C07 link, part 7: the GENERATED programs.  Gen/Mutators.v is compiled statement by statement from
   _tree.py / _node.py / _edge.py on every run; C03 (Proofs/C03Gen*.v, Props/C03Gen.v) proves that,
   instantiated on Heap.v's heap (HG), the generated Tree_* functions compute what HeapOps.v
   computes.  Composed with the end-to-end theorems: the generated programs preserve the unrooted
   tree.  Side conditions of C03's refinements (fuel of the generated while loops, ...) are passed
   through unchanged where C03 has them. *)
From Coq Require Import ZArith List Bool Lia Permutation.
From DV Require Import Model.PyPrims Model.Tree.
From DV Require Import Model.Heap Model.HeapOps Model.MutPrims Gen.Mutators Model.C03GenInst Proofs.C03Base
     Proofs.C03GenTree Proofs.C03GenSu Proofs.C03GenReseed Proofs.C03GenMisc.
From DV Require Model.C07Model Proofs.C07LinkOps Proofs.C07LinkEdge Proofs.C07LinkMid Proofs.C07LinkRot.
From DV Require Import Model.C07Spec.
Import ListNotations.
Open Scope Z_scope.

Lemma gen_reroot_at_node_l ub su cb h t n :
  WF h -> abs h = Some t ->
  is_internal_node n t -> (2 <= length (t_kids t))%nat -> NoDup (leaf_taxa t) ->
  exists h' t', to_hres (Tree_reroot_at_node HG n ub su cb h) = HOk h' /\ WF h' /\ abs h' = Some t'
    /\ rooted h' = Some true
    /\ Permutation (leaf_taxa t) (leaf_taxa t')
    /\ (forall S, is_usplit t S <-> is_usplit t' S)
    /\ total_length t' = total_length t
    /\ (forall a b, dist a b t' = dist a b t).
Proof.
  intros W A HI TK ND. rewrite gen_reroot_at_node.
  destruct (C07LinkOps.heap_reroot_at_node_l ub su cb h t n W A HI TK ND) as [h' [t' [E [W' [A' [R' [_ I]]]]]]].
  exists h', t'. repeat (split; [assumption|]). exact I.
Qed.

Lemma gen_reroot_at_edge_l l1 l2 ub su h t ci H :
  WF h -> abs h = Some t -> C07Model.find_node ci t = Some H -> ci <> t_id t ->
  C07Model.len0 l1 + C07Model.len0 l2 = C07Model.len0 (t_len H) ->
  (2 <= length (t_kids t))%nat -> NoDup (leaf_taxa t) ->
  exists h' t', to_hres (Tree_reroot_at_edge HG ci l1 l2 ub su h) = HOk h' /\ WF h' /\ abs h' = Some t'
    /\ rooted h' = Some true
    /\ Permutation (leaf_taxa t) (leaf_taxa t')
    /\ (forall S, is_usplit t S <-> is_usplit t' S)
    /\ total_length t' = total_length t
    /\ (forall a b, dist a b t' = dist a b t).
Proof.
  intros W A HF Hne HL TK ND. rewrite gen_reroot_at_edge.
  destruct (C07LinkEdge.heap_reroot_at_edge_l l1 l2 ub su h t ci H W A HF Hne HL TK ND)
    as [h' [t' [E [W' [A' [R' [_ I]]]]]]].
  exists h', t'. repeat (split; [assumption|]). exact I.
Qed.

(* to_outgroup_position / randomly_reorient of the CURRENT source (repair 1c81f78b): Proofs/C07LinkOutgroup.v *)

Lemma gen_randomly_rotate_l perms h t :
  WF h -> abs h = Some t -> NoDup (leaf_taxa t) ->
  C07LinkRot.perms_ok (C07LinkRot.rotate_nodes h t) perms h ->
  exists h' t', to_hres (Tree_randomly_rotate HG perms h) = HOk h' /\ WF h' /\ abs h' = Some t'
    /\ rooted h' = rooted h
    /\ Permutation (leaf_taxa t) (leaf_taxa t')
    /\ (forall S, is_usplit t S <-> is_usplit t' S)
    /\ total_length t' = total_length t
    /\ (forall a b, dist a b t' = dist a b t).
Proof.
  intros W A ND OK. rewrite gen_randomly_rotate.
  destruct (C07LinkRot.heap_randomly_rotate_l perms h t W A ND OK) as [h' [t' [E [W' [A' [R' [_ [_ I]]]]]]]].
  exists h', t'. repeat (split; [assumption|]). exact I.
Qed.

(* reseed_at: C03's refinement has side conditions on the fuel handed to the generated while loops *)
Lemma gen_reseed_at_l fuel ub cb su h t n ch :
  WF h -> abs h = Some t ->
  is_internal_node n t -> (2 <= length (t_kids t))%nat -> NoDup (leaf_taxa t) ->
  chain (fuel_of h) h n = Some ch -> (length ch + 2 <= fuel)%nat ->
  (forall h1 c1 h', hfold edge_invert (rev ch) h = HOk h1 -> kids h1 n = [c1] ->
                    remove_child_plain n c1 h1 = HOk h' -> (length (kids h' c1) < fuel)%nat) ->
  exists h' t', to_hres (Tree_reseed_at HG fuel n ub cb su h) = HOk h' /\ WF h' /\ abs h' = Some t'
    /\ Permutation (leaf_taxa t) (leaf_taxa t')
    /\ (forall S, is_usplit t S <-> is_usplit t' S)
    /\ total_length t' = total_length t
    /\ (forall a b, dist a b t' = dist a b t).
Proof.
  intros W A HI TK ND C1 C2 C3. rewrite (gen_reseed_at fuel n ub cb su h ch C1 C2 C3).
  destruct (C07LinkOps.heap_reseed_at_l ub cb su h t n W A HI TK ND) as [h' [t' [r' [E [W' [A' [_ I]]]]]]].
  exists h', t'. repeat (split; [assumption|]). exact I.
Qed.

Lemma gen_suppress_l h t :
  WF h -> abs h = Some t ->
  (forall t0, abs_at h (seed h) = Some t0 -> su_steps_ok (post_ids t0) h) ->
  exists h', to_hres (Tree_suppress_unifurcations__update_bipartitions_False HG h) = HOk h' /\ WF h'
    /\ abs h' = Some (C07Model.suppress t)
    /\ leaf_taxa (C07Model.suppress t) = leaf_taxa t
    /\ (forall S, is_usplit t S <-> is_usplit (C07Model.suppress t) S)
    /\ total_length (C07Model.suppress t) = total_length t
    /\ (forall a b, dist a b (C07Model.suppress t) = dist a b t).
Proof.
  intros W A OK. rewrite (gen_suppress_unifurcations h OK).
  destruct (C07LinkOps.heap_suppress_l h t W A) as [h' [E [W' [A' [_ I]]]]].
  exists h'. repeat (split; [assumption|]). exact I.
Qed.

Lemma gen_collapse_basal_l u h t :
  WF h -> abs h = Some t -> NoDup (leaf_taxa t) ->
  (forall c, In c (kids h (seed h)) -> memz c (kids h c) = false) ->
  exists h', to_hres (Tree_collapse_basal_bifurcation HG u h) = HOk h' /\ WF h'
    /\ abs h' = Some (fst (C07Model.collapse_basal t))
    /\ Permutation (leaf_taxa t) (leaf_taxa (fst (C07Model.collapse_basal t)))
    /\ (forall S, is_usplit t S <-> is_usplit (fst (C07Model.collapse_basal t)) S)
    /\ total_length (fst (C07Model.collapse_basal t)) = total_length t
    /\ (forall a b, dist a b (fst (C07Model.collapse_basal t)) = dist a b t).
Proof.
  intros W A ND OK. rewrite (gen_collapse_basal_bifurcation u h OK).
  exact (C07LinkOps.heap_collapse_basal_l u h t W A ND).
Qed.
