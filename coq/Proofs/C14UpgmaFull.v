(* C14: the tree returned by UPGMA on an ultrametric matrix is a dendrogram; on the matrix of a
   binary ultrametric tree with positive internal edge lengths it is that tree *)
From Coq Require Import ZArith QArith Qabs List Bool Lia Lqa.
From DV Require Import Model.PyPrims Model.Tree Model.C14Model Model.C14Spec Model.C14Spec2
     Proofs.C14Dict Proofs.C14Pdm Proofs.C14Mrca Proofs.C14Clu Proofs.C14Upgma Proofs.C14Uniq.
Import ListNotations.
Open Scope Z_scope.

Lemma dendro_setlen s h t l : dendro s h (q_setlen t l) <-> dendro s h t.
Proof. destruct t as [i x e ks]. simpl. tauto. Qed.

Lemma qtaxa_setlen t l : qtaxa (q_setlen t l) = qtaxa t.
Proof. destruct t as [i x e ks]. reflexivity. Qed.

Lemma q_kids_setlen t l : q_kids (q_setlen t l) = q_kids t.
Proof. destruct t. reflexivity. Qed.

Lemma NoDup_app_join {A} (l1 l2 : list A) :
  NoDup l1 -> NoDup l2 -> (forall x, In x l1 -> ~ In x l2) -> NoDup (l1 ++ l2).
Proof.
  induction l1 as [|a l1 IH]; simpl; intros N1 N2 D; [exact N2|].
  inversion N1 as [|? ? Ha N1']; subst. constructor.
  - rewrite in_app_iff. intros [H|H]; [tauto | apply (D a); auto].
  - apply IH; auto.
Qed.

Section UpgmaDendro.
Variable Mf : Z -> Z -> Q.
Variable order : list Z.

Record UD (pool : list unode) : Prop := mkUD {
  ud_dendro : forall u, In u pool -> dendro false (u_tip u) (u_tree u);
  ud_low : forall u v, In u pool -> In v pool -> u_id u <> u_id v -> (2 * u_tip u <= ud u v)%Q;
  ud_nodup : forall u, In u pool -> NoDup (qtaxa (u_tree u));
  ud_sub : forall u a, In u pool -> qhas a (u_tree u) = true -> In a order
}.

Lemma ud_step pool next pool' :
  UI Mf order pool -> UD pool -> (2 <= length pool)%nat -> (forall i, In i (uids pool) -> i < next) ->
  upgma_step pool next = Ok pool' -> UD pool'.
Proof.
  intros I U L Fr E0.
  assert (Nn : ~ In next (uids pool)) by (intro H; apply Fr in H; lia).
  destruct (upgma_step_sound_l pool next (ui_wf Mf order pool I) L Nn)
    as [j0 [j1 [rest [newn [E [Hab [Min [[l0 [l1 [Ht [Hl0 Hl1]]]] [Htip [Hsize [Hids [Hrest W']]]]]]]]]]]].
  rewrite E in E0. inversion E0. subst pool'. clear E0.
  destruct (ui_wf Mf order pool I) as [N [Dm Sz]].
  destruct (pairs_of_In _ _ _ Hab) as [H0 H1].
  pose proof (pairs_of_distinct u_id _ _ _ N Hab) as Nd.
  assert (Hnew : u_id newn = next) by (unfold u_id; rewrite Ht; reflexivity).
  assert (MinS : forall u v, In u pool -> In v pool -> u_id u <> u_id v -> (ud j0 j1 <= ud u v)%Q).
  { intros u v Hu Hv Huv. destruct (pairs_of_cover u_id pool u v Hu Hv Huv) as [H|H].
    - apply Min. exact H.
    - rewrite (ui_sym Mf order pool I u v Hu Hv Huv). apply Min. exact H. }
  (* the nodes of rest *)
  assert (RV : forall k', In k' rest -> exists k, In k pool /\ u_id k <> u_id j0 /\ u_id k <> u_id j1 /\
               u_id k' = u_id k /\ u_tree k' = u_tree k /\ u_tip k' = u_tip k /\
               (forall v', In v' rest -> forall v, In v pool -> u_id v' = u_id v -> ud k' v' = ud k v) /\
               (ud k' newn == ud j0 k)%Q /\ ud newn k' = ud k' newn).
  { intros k' Hk'. destruct (Hrest k' Hk') as [k [Hk [K0 [K1 [Eid [Etr [_ [Etip [Hd [w [Hw1 [Hw2 [_ Hw4]]]]]]]]]]]]].
    exists k. repeat (split; [assumption|]).
    assert (Ew : ud k' newn = w) by (unfold ud, qdef; rewrite Hnew, Hw1; reflexivity).
    split; [|split].
    - intros v' Hv' v Hv Ev. unfold ud, qdef. rewrite Ev, Hd; [reflexivity|].
      intro Eq. apply Nn. rewrite <- Eq. apply in_map. exact Hv.
    - rewrite Ew. apply Hw4. apply (closest_equidistant Mf order pool j0 j1 k I Hab Min Hk K0 K1).
    - rewrite Ew. unfold ud, qdef. rewrite Eid, Hw2. reflexivity. }
  constructor.
  - (* every pool node's subtree is a dendrogram of the node's height *)
    intros u Hu. apply in_app_iff in Hu. destruct Hu as [Hu|[<-|[]]].
    + destruct (RV u Hu) as [k [Hk [_ [_ [_ [Etr [Etip _]]]]]]]. rewrite Etr, Etip. apply (ud_dendro pool U k Hk).
    + rewrite Ht. apply (proj2 (dendro_node false (u_tip newn) next None None _ _)).
      exists (u_tip j0), (u_tip j1). rewrite !dendro_setlen, !qlen0_setlen.
      pose proof (ud_low pool U j0 j1 H0 H1 Nd) as Lo0.
      pose proof (ud_low pool U j1 j0 H1 H0 (not_eq_sym Nd)) as Lo1.
      rewrite (ui_sym Mf order pool I j1 j0 H1 H0 (not_eq_sym Nd)) in Lo1.
      unfold ud in Lo0, Lo1. set (dm := qdef (u_d j0) (u_id j1)) in *.
      assert (Hd2 : (dm / 2 == (1 # 2) * dm)%Q) by field.
      split; [apply (ud_dendro pool U j0 H0)|]. split; [apply (ud_dendro pool U j1 H1)|].
      split; [rewrite Htip, Hl0; ring|]. split; [rewrite Htip, Hl1; ring|].
      split; [rewrite Hl0, Hd2; lra|]. split; [rewrite Hl1, Hd2; lra|]. intro; discriminate.
  - (* twice a node's height is at most its distance to any other node *)
    intros u v Hu Hv Huv. apply in_app_iff in Hu. apply in_app_iff in Hv.
    destruct Hu as [Hu|[<-|[]]]; destruct Hv as [Hv|[<-|[]]].
    + destruct (RV u Hu) as [k [Hk [_ [_ [Ek [_ [Etip [Hsame _]]]]]]]].
      destruct (RV v Hv) as [w [Hw [_ [_ [Ew _]]]]].
      rewrite (Hsame v Hv w Hw Ew), Etip. apply (ud_low pool U k w Hk Hw). congruence.
    + destruct (RV u Hu) as [k [Hk [K0 [_ [_ [_ [Etip [_ [Hn _]]]]]]]]].
      rewrite Hn, Etip, <- (ui_sym Mf order pool I k j0 Hk H0 K0). apply (ud_low pool U k j0 Hk H0 K0).
    + destruct (RV v Hv) as [k [Hk [K0 [_ [_ [_ [_ [_ [Hn Hs]]]]]]]]].
      rewrite Hs, Hn, Htip. pose proof (MinS j0 k H0 Hk (not_eq_sym K0)) as M. unfold ud in M at 1.
      set (dm := qdef (u_d j0) (u_id j1)) in *. assert (Hd2 : (dm / 2 == (1 # 2) * dm)%Q) by field. rewrite Hd2. lra.
    + congruence.
  - intros u Hu. apply in_app_iff in Hu. destruct Hu as [Hu|[<-|[]]].
    + destruct (RV u Hu) as [k [Hk [_ [_ [_ [Etr _]]]]]]. rewrite Etr. apply (ud_nodup pool U k Hk).
    + rewrite Ht. rewrite qtaxa_node2, !qtaxa_setlen. apply NoDup_app_join.
      * apply (ud_nodup pool U j0 H0).
      * apply (ud_nodup pool U j1 H1).
      * intros a Ha Hb. apply qhas_taxa in Ha. apply qhas_taxa in Hb.
        rewrite (ui_disj Mf order pool I j0 j1 a H0 H1 Nd Ha) in Hb. discriminate.
  - intros u a Hu Ha. apply in_app_iff in Hu. destruct Hu as [Hu|[<-|[]]].
    + destruct (RV u Hu) as [k [Hk [_ [_ [_ [Etr _]]]]]]. rewrite Etr in Ha. apply (ud_sub pool U k a Hk Ha).
    + rewrite Ht, qhas_join in Ha. apply orb_true_iff in Ha. destruct Ha as [Ha|Ha].
      * apply (ud_sub pool U j0 a H0 Ha).
      * apply (ud_sub pool U j1 a H1 Ha).
Qed.

Lemma ud_loop : forall fuel pool next,
  UI Mf order pool -> UD pool -> (length pool <= S fuel)%nat -> (1 <= length pool)%nat ->
  (forall i, In i (uids pool) -> i < next) ->
  exists x, upgma_loop fuel pool next = Ok (u_tree x) /\ UI Mf order [x] /\ UD [x].
Proof.
  induction fuel as [|f IH]; intros pool next I U Lf L1 Fr.
  - destruct pool as [|x [|y pool]]; simpl in *; try lia. exists x. auto.
  - destruct pool as [|x [|y pool]]; [simpl in L1; lia | exists x; auto|].
    cbn [upgma_loop]. set (P := x :: y :: pool) in *.
    assert (L2 : (2 <= length P)%nat) by (simpl; lia).
    destruct (ui_step Mf order P next I L2 Fr) as [pool' [E [I' [Ln Fr']]]].
    pose proof (ud_step P next pool' I U L2 Fr E) as U'.
    assert (LP : length P = S (S (length pool))) by reflexivity.
    rewrite E. cbn [bind]. apply IH; auto; lia.
Qed.
End UpgmaDendro.

Section UInitUD.
Variables (M : tbl Q) (ids : list (Z * Z)).
Hypothesis Nf : NoDup (map fst ids).
Hypothesis Ns : NoDup (map snd ids).
Hypothesis Hc : mcomplete M (map snd ids).
Hypothesis Hs : msymmetric M (map snd ids).
Hypothesis Hn : mnonneg M (map snd ids).

Lemma upgma_init_UD : UD (map snd ids) (map (umk M ids) ids).
Proof.
  constructor.
  - intros u Hu. apply in_map_iff in Hu. destruct Hu as [ia [<- Hia]]. simpl. split; [discriminate | reflexivity].
  - intros u v Hu Hv Huv. apply in_map_iff in Hu. destruct Hu as [ia [<- Hia]].
    apply in_map_iff in Hv. destruct Hv as [jb [<- Hjb]]. change (fst ia <> fst jb) in Huv.
    rewrite (umk_ud M ids Nf Ns Hs ia jb Hia Hjb Huv). change (u_tip (umk M ids ia)) with 0%Q.
    assert (0 <= mval M (snd ia) (snd jb))%Q; [|lra].
    apply Hn; try (apply in_map; assumption). apply (ids_snd_neq ids Ns); assumption.
  - intros u Hu. apply in_map_iff in Hu. destruct Hu as [ia [<- Hia]]. simpl. constructor; [intros []|constructor].
  - intros u a Hu Ha. apply in_map_iff in Hu. destruct Hu as [ia [<- Hia]]. rewrite umk_qhas in Ha.
    apply Z.eqb_eq in Ha. subst a. apply in_map. exact Hia.
Qed.
End UInitUD.

Lemma upgma_dendrogram_l M order :
  NoDup order -> order <> [] -> mcomplete M order -> msymmetric M order -> ultrametric3 M order ->
  mnonneg M order ->
  exists T H, upgma_tree M order = Ok T /\ dendro false H T /\ NoDup (qtaxa T) /\
    (forall a, qhas a T = true <-> In a order) /\
    (forall a b, In a order -> In b order -> a <> b ->
       exists q, qdist T a b = Some q /\ (q == mval M a b)%Q).
Proof.
  intros N Ne Hc Hs Hu Hn. destruct (ids_facts order) as [F [S0 [Nf [Li Fr]]]].
  set (ids := combine (map Z.of_nat (seq 0 (length order))) order) in *.
  assert (Ns : NoDup (map snd ids)) by (rewrite S0; exact N).
  assert (Hc' : mcomplete M (map snd ids)) by (rewrite S0; exact Hc).
  assert (Hs' : msymmetric M (map snd ids)) by (rewrite S0; exact Hs).
  assert (Hu' : ultrametric3 M (map snd ids)) by (rewrite S0; exact Hu).
  assert (Hn' : mnonneg M (map snd ids)) by (rewrite S0; exact Hn).
  unfold upgma_tree. rewrite (upgma_init_eval M ids Ns Hc' order eq_refl). cbn [bind].
  assert (I : UI (mval M) (map snd ids) (map (umk M ids) ids)) by (apply upgma_init_UI; assumption).
  assert (U : UD (map snd ids) (map (umk M ids) ids)) by (apply upgma_init_UD; assumption).
  rewrite S0 in I, U.
  destruct (ud_loop (mval M) order (length order) (map (umk M ids) ids) (Z.of_nat (length order)) I U) as [x [E [Ix Ux]]].
  - rewrite map_length, Li. lia.
  - rewrite map_length, Li. destruct order; [congruence | simpl; lia].
  - intros i Hi. unfold uids in Hi. rewrite map_map in Hi. apply Fr. exact Hi.
  - exists (u_tree x), (u_tip x). split; [exact E|].
    split; [apply (ud_dendro order [x] Ux x); left; reflexivity|].
    split; [apply (ud_nodup order [x] Ux x); left; reflexivity|]. split.
    + intro a. split.
      * intro Ha. apply (ud_sub order [x] Ux x a); [left; reflexivity | exact Ha].
      * intro Ha. destruct (ui_cover (mval M) order [x] Ix a Ha) as [u [[<-|[]] Hxu]]. exact Hxu.
    + apply (ui_final (mval M) order x Ix).
Qed.

(* ---------- UPGMA returns the generating tree ---------- *)
From DV Require Import Proofs.C14Proofs Proofs.C14Means Proofs.C14Ultra Proofs.C14Tq.

Lemma lca_in_preorder a b : forall t r, lca a b t = Some r -> In r (preorder t).
Proof.
  induction t as [i x lb e ks IH] using tree_ind'. intros r H. rewrite lca_node in H.
  destruct (has a (T i x lb e ks) && has b (T i x lb e ks)); [|discriminate].
  assert (G : forall r0, first_some (lca a b) ks = Some r0 -> exists c, In c ks /\ In r0 (preorder c)).
  { clear H. induction IH as [|c cs Hc Hcs IHcs]; intros r0 F; [discriminate|]. simpl in F.
    destruct (lca a b c) as [rc|] eqn:Lc.
    - inversion F. subst rc. exists c. split; [left; reflexivity | apply Hc; reflexivity].
    - destruct (IHcs r0 F) as [c' [Hc' Hr]]. exists c'. split; [right; exact Hc' | exact Hr]. }
  destruct (first_some (lca a b) ks) as [r0|].
  - inversion H. subst r0. destruct (G r eq_refl) as [c [Hc Hr]]. eapply preorder_kid; eassumption.
  - inversion H. apply preorder_self.
Qed.

Lemma dist_nonneg t a b d : nonneg_lengths t -> dist t a b = Some d -> 0 <= d.
Proof.
  intros N H. unfold dist in H. destruct (lca a b t) as [r|] eqn:L; [|discriminate].
  pose proof (lca_in_preorder a b t r L) as Hr.
  assert (Nr : nonneg_lengths r) by (intros n Hn; apply N; eapply preorder_trans; eassumption).
  destruct (down a r) as [[la sa]|] eqn:Da; [|discriminate]. destruct (down b r) as [[lb sb]|] eqn:Db; [|discriminate].
  inversion H. simpl. pose proof (depth_nonneg a r la sa Nr Da). pose proof (depth_nonneg b r lb sb Nr Db). lia.
Qed.

Lemma upgma_recovers_ultrametric_l t p h order :
  rbin t -> good_leaves t -> t_kids t <> [] -> positive_internal t -> nonneg_lengths t -> equidistant h t ->
  compile_from_tree t = Ok p ->
  NoDup order -> (forall a, In a order <-> In (Some a) (leaf_taxa t)) ->
  exists T, upgma_tree (qtable p true) order = Ok T /\ qsame_rooted (tq t) T.
Proof.
  intros R G Hk P Nn E Ec N Hin.
  destruct (pdm_exact_p t G Hk) as [p' [E' [Hv _]]]. rewrite Ec in E'. inversion E'. subst p'.
  assert (Val : forall a b, In a order -> In b order ->
            exists d, dist t a b = Some d /\ mval (qtable p true) a b = uq d).
  { intros a b Ha Hb. destruct (Hv a b (proj1 (Hin a) Ha) (proj1 (Hin b) Hb)) as [r [d [s [_ [Ed [_ [T1 _]]]]]]].
    exists d. split; [exact Ed|]. unfold mval. rewrite qtable_get, T1. reflexivity. }
  assert (C : mcomplete (qtable p true) order).
  { intros a b Ha Hb _. destruct (Hv a b (proj1 (Hin a) Ha) (proj1 (Hin b) Hb)) as [r [d [s [_ [_ [_ [T1 _]]]]]]].
    rewrite qtable_get, T1. discriminate. }
  assert (S : msymmetric (qtable p true) order).
  { intros a b Ha Hb _. unfold mval. rewrite !qtable_get.
    destruct (pdm_sym_p t p G Hk Ec a b) as [S1 _]. rewrite S1. reflexivity. }
  assert (U : ultrametric3 (qtable p true) order).
  { intros x y z Hx Hy Hz _ _ _.
    destruct (Val x z Hx Hz) as [d1 [D1 V1]]. destruct (Val x y Hx Hy) as [d2 [D2 V2]].
    destruct (Val y z Hy Hz) as [d3 [D3 V3]]. rewrite V1, V2, V3.
    destruct (tree_three_point t h G Nn E x y z d1 d2 d3) as [L|L]; try assumption;
      try (apply has_In; apply Hin; assumption); [left | right]; apply uq_le; exact L. }
  assert (Nneg : mnonneg (qtable p true) order).
  { intros a b Ha Hb _. destruct (Val a b Ha Hb) as [d [Dd Vd]]. rewrite Vd. apply uq_nonneg.
    eapply dist_nonneg; eassumption. }
  assert (Ne : order <> []).
  { destruct (taxa_nonempty t G) as [a Ha]. intro Eo. apply has_In in Ha. apply Hin in Ha. rewrite Eo in Ha. destruct Ha. }
  destruct (upgma_dendrogram_l (qtable p true) order N Ne C S U Nneg) as [T [H [Et [DT [NT [HT Hd]]]]]].
  exists T. split; [exact Et|]. unfold qsame_rooted.
  destruct (dendro_unique (qsize (tq t)) (tq t) (le_n _) T (uq h) H) as [Q _]; auto.
  - apply dendro_tq; assumption.
  - rewrite qtaxa_tq. apply taxa_of_NoDup. exact G.
  - intro x. rewrite qhas_tq. destruct (has x t) eqn:Hx.
    + symmetry. apply HT. apply Hin. apply has_In. exact Hx.
    + destruct (qhas x T) eqn:HxT; [|reflexivity]. apply HT in HxT. apply Hin in HxT. apply has_In in HxT. congruence.
  - intros x y Hx Hy Nxy. rewrite qhas_tq in Hx, Hy.
    assert (Ox : In x order) by (apply Hin; apply has_In; exact Hx).
    assert (Oy : In y order) by (apply Hin; apply has_In; exact Hy).
    destruct (Val x y Ox Oy) as [d [Dd Vd]]. destruct (qdist_tq t x y d Dd) as [q1 [Hq1 Eq1]].
    destruct (Hd x y Ox Oy Nxy) as [q2 [Hq2 Eq2]]. exists q1, q2. split; [exact Hq1|]. split; [exact Hq2|].
    rewrite Eq1, Eq2, Vd. reflexivity.
Qed.

(* ---------- a polytomy: UPGMA returns a binary resolution with a zero-length internal edge ---------- *)
Definition ex_star : tree :=
  T 0 None None None [T 1 (Some 0) None (Some 1024) []; T 2 (Some 1) None (Some 1024) []; T 3 (Some 2) None (Some 1024) []].

Lemma ex_star_upgma :
  (do p <- compile_from_tree ex_star ;; upgma_tree (qtable p true) [0; 1; 2])
  = Ok (QT 4 None None
           [QT 2 (Some 2) (Some 1%Q) [];
            QT 3 None (Some 0%Q) [QT 0 (Some 0) (Some 1%Q) []; QT 1 (Some 1) (Some 1%Q) []]]).
Proof. vm_compute. reflexivity. Qed.

Lemma ex_ultra_binary : rbin ex_ultra /\ positive_internal ex_ultra.
Proof.
  split; [simpl; tauto|]. intros c n Hc Hn Hk. simpl in Hc.
  destruct Hc as [<-|[<-|[]]]; simpl in Hn;
    repeat (destruct Hn as [<-|Hn]; [try (simpl in Hk; congruence); unfold len0; simpl; lia|]); destruct Hn.
Qed.
