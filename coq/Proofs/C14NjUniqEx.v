(* C14, sixth wave: witnesses (non-vacuity) for the uniqueness theorems of Proofs/C14SplitTree.v and
   Proofs/C14NjUniq.v *)
From Coq Require Import ZArith QArith List Bool Lia Lqa.
From DV Require Import Model.PyPrims Model.Tree Model.C14Model Model.C14Spec Model.C14Spec2 Model.C14Spec3
     Proofs.C14Dict Proofs.C14Pdm Proofs.C14Clu Proofs.C14Proofs Proofs.C14Upgma Proofs.C14Nj Proofs.C14Tq
     Proofs.C14Qcrit Proofs.C14FourPoint Proofs.C14NjQ Proofs.C14NjTree Proofs.C14Uniq Proofs.C14Split Proofs.C14SplitTree
     Proofs.C14NjUniq.
Import ListNotations.
Open Scope Z_scope.

(* the unrooted tree A-1-u, B-2-u, u-3-v, C-1-v, D-3-v: rooted on the edge u..v (1 + 2), and rooted at u
   (a root with three children) *)
Definition ex_u1 : qtree :=
  QT 0 None None [QT 1 None (Some 1%Q) [QT 2 (Some 0) (Some 1%Q) []; QT 3 (Some 1) (Some 2%Q) []];
                  QT 4 None (Some 2%Q) [QT 5 (Some 2) (Some 1%Q) []; QT 6 (Some 3) (Some 3%Q) []]].
Definition ex_u2 : qtree :=
  QT 0 None None [QT 2 (Some 0) (Some 1%Q) []; QT 3 (Some 1) (Some 2%Q) [];
                  QT 4 None (Some 3%Q) [QT 6 (Some 3) (Some 3%Q) []; QT 5 (Some 2) (Some 1%Q) []]].

Lemma ex_u_ok :
  qleaves_ok ex_u1 /\ qleaves_ok ex_u2 /\ NoDup (qtaxa ex_u1) /\ NoDup (qtaxa ex_u2) /\
  (forall x, qhas x ex_u1 = qhas x ex_u2) /\
  (forall x y, qhas x ex_u1 = true -> qhas y ex_u1 = true -> x <> y ->
     exists q1 q2, qdist ex_u1 x y = Some q1 /\ qdist ex_u2 x y = Some q2 /\ (q1 == q2)%Q) /\
  split_nonneg ex_u1 /\ split_nonneg ex_u2 /\
  proper_split (qtaxa ex_u1) (fun x => x <? 2) /\
  Qred (split_len ex_u1 (fun x => x <? 2)) = 3%Q /\ Qred (split_len ex_u2 (fun x => x <? 2)) = 3%Q.
Proof.
  split; [|split; [|split; [|split; [|split; [|split; [|split; [|split; [|split; [|split]]]]]]]]].
  - intros m Hm Hk. simpl in Hm. repeat (destruct Hm as [<-|Hm]; [simpl in *; congruence|]). destruct Hm.
  - intros m Hm Hk. simpl in Hm. repeat (destruct Hm as [<-|Hm]; [simpl in *; congruence|]). destruct Hm.
  - simpl. repeat (constructor; [simpl; intuition discriminate|]). constructor.
  - simpl. repeat (constructor; [simpl; intuition discriminate|]). constructor.
  - intro x. cbn -[Z.eqb]. destruct (0 =? x), (1 =? x), (2 =? x), (3 =? x); reflexivity.
  - intros x y Hx Hy Nxy. apply qhas_taxa in Hx. apply qhas_taxa in Hy. simpl in Hx, Hy.
    destruct Hx as [<-|[<-|[<-|[<-|[]]]]]; destruct Hy as [<-|[<-|[<-|[<-|[]]]]]; try congruence;
      (eexists; eexists; split; [vm_compute; reflexivity | split; [vm_compute; reflexivity | unfold Qeq; vm_compute; reflexivity]]).
  - apply nodes_nonneg_split_nonneg. intros m Hm. simpl in Hm.
    repeat (destruct Hm as [<-|Hm]; [unfold Qle; simpl; lia|]). destruct Hm.
  - apply nodes_nonneg_split_nonneg. intros m Hm. simpl in Hm.
    repeat (destruct Hm as [<-|Hm]; [unfold Qle; simpl; lia|]). destruct Hm.
  - split; [exists 0 | exists 2]; simpl; auto.
  - vm_compute. reflexivity.
  - vm_compute. reflexivity.
Qed.

(* the seven-leaf witness of Proofs/C14NjTree.v with ALL its taxa iterated *)
Lemma ex_nj7_all : forall a, In a [3; 0; 6; 2; 5; 1; 4] <-> In (Some a) (leaf_taxa ex_nj7).
Proof.
  intro a. simpl. split.
  - intuition (subst; auto 10).
  - intros H. repeat (destruct H as [H|H]; [inversion H; auto 10|]). destruct H.
Qed.

(* the matrix of the witness satisfies the hypotheses of nj_unique_l *)
Lemma ex_nj7_matrix :
  exists p, compile_from_tree ex_nj7 = Ok p /\
    mcomplete (qtable p true) [3; 0; 6; 2; 5; 1; 4] /\ msymmetric (qtable p true) [3; 0; 6; 2; 5; 1; 4] /\
    mfour_point_strict (qtable p true) [3; 0; 6; 2; 5; 1; 4] /\ mtriangle (qtable p true) [3; 0; 6; 2; 5; 1; 4] /\
    mnonneg (qtable p true) [3; 0; 6; 2; 5; 1; 4].
Proof.
  destruct ex_nj7_ok as [R [G [Hk [P [Nn [[p Ec] [N Hin]]]]]]]. exists p. split; [exact Ec|].
  destruct (tree_matrix_facts ex_nj7 p _ G Hk Nn Ec Hin) as [C [S [Pos [Tri _]]]].
  pose proof (tree_matrix_four_point_strict ex_nj7 p _ R G Hk P Nn Ec Hin). auto.
Qed.

(* on the witness, computed: NJ's output carries the split AB|CDEFG with length 2 + 2 (the two edges at the
   generating tree's root), DE|ABCFG with length 1 and the pendant edge of G with length 5 *)
Lemma ex_nj7_splits :
  exists p T, compile_from_tree ex_nj7 = Ok p /\ nj_tree (qtable p true) [3; 0; 6; 2; 5; 1; 4] = Ok T /\
    Qred (split_len T (fun x => x <? 2)) = 4%Q /\ Qred (split_len (tq ex_nj7) (fun x => x <? 2)) = 4%Q /\
    Qred (split_len T (fun x => (x =? 3) || (x =? 4))) = 1%Q /\
    Qred (split_len T (fun x => x =? 6)) = 5%Q /\
    proper_split [3; 0; 6; 2; 5; 1; 4] (fun x => x <? 2).
Proof.
  destruct (compile_from_tree ex_nj7) as [p| |] eqn:E; [| vm_compute in E; discriminate | vm_compute in E; discriminate].
  exists p. destruct (nj_tree (qtable p true) [3; 0; 6; 2; 5; 1; 4]) as [T| |] eqn:E2.
  - exists T. split; [reflexivity|]. split; [reflexivity|].
    vm_compute in E. inversion E. subst p. vm_compute in E2. inversion E2. subst T.
    repeat (split; [vm_compute; reflexivity|]). split; [exists 0 | exists 3]; simpl; auto.
  - exfalso. vm_compute in E. inversion E. subst p. vm_compute in E2. discriminate.
  - exfalso. vm_compute in E. inversion E. subst p. vm_compute in E2. discriminate.
Qed.
