(* C07 proofs, part 7: the statements of Props/C07.v, assembled; refutations; non-vacuity examples *)
From Coq Require Import ZArith List Bool Lia Permutation.
From DV Require Import Model.PyPrims Model.Tree Model.C07Model Model.C07Spec
     Proofs.C07Base Proofs.C07Equiv Proofs.C07Rot Proofs.C07Blocks Proofs.C07Ops Proofs.C07Mid.
Import ListNotations.
Open Scope Z_scope.

Lemma rotate_one_edge_l i x l e A i' x' l' e' ks' B :
  ks' <> [] -> A ++ B <> [] ->
  NoDup (leaf_taxa (T i x l e (A ++ T i' x' l' e' ks' :: B))) ->
  let t := T i x l e (A ++ T i' x' l' e' ks' :: B) in
  let t' := T i' x' l' e (ks' ++ [T i x l e' (A ++ B)]) in
  Permutation (leaf_taxa t) (leaf_taxa t')
  /\ (forall S, is_usplit t S <-> is_usplit t' S)
  /\ total_length t' = total_length t
  /\ (forall a b, dist a b t' = dist a b t).
Proof. intros. apply equivU_unfold. apply rot_step; assumption. Qed.

Lemma reseed_at_l t r n upd coll supp t' r' :
  reseed_at t r n upd coll supp = Ok (t', r') ->
  is_internal_node n t -> (2 <= length (t_kids t))%nat -> NoDup (leaf_taxa t) ->
  Permutation (leaf_taxa t) (leaf_taxa t')
  /\ (forall S, is_usplit t S <-> is_usplit t' S)
  /\ total_length t' = total_length t
  /\ (forall a b, dist a b t' = dist a b t).
Proof. intros. apply equivU_unfold. eapply reseed_at_equivU; eauto. Qed.

Lemma reroot_at_node_l t r n upd supp coll t' r' :
  reroot_at_node t r n upd supp coll = Ok (t', r') ->
  is_internal_node n t -> (2 <= length (t_kids t))%nat -> NoDup (leaf_taxa t) ->
  Permutation (leaf_taxa t) (leaf_taxa t')
  /\ (forall S, is_usplit t S <-> is_usplit t' S)
  /\ total_length t' = total_length t
  /\ (forall a b, dist a b t' = dist a b t).
Proof. intros. apply equivU_unfold. eapply reroot_at_node_equivU; eauto. Qed.

Lemma reroot_at_edge_l t r h l1 l2 upd supp fresh t' r' :
  reroot_at_edge t r h l1 l2 upd supp fresh = Ok (t', r') ->
  (forall H, find_node h t = Some H -> len0 l1 + len0 l2 = len0 (t_len H)) ->
  ~ In fresh (ids t) -> (2 <= length (t_kids t))%nat -> NoDup (leaf_taxa t) ->
  Permutation (leaf_taxa t) (leaf_taxa t')
  /\ (forall S, is_usplit t S <-> is_usplit t' S)
  /\ total_length t' = total_length t
  /\ (forall a b, dist a b t' = dist a b t).
Proof. intros. apply equivU_unfold. eapply reroot_at_edge_equivU; eauto. Qed.

Lemma reroot_at_midpoint_l t r a b upd supp coll fresh t' r' :
  reroot_at_midpoint t r (Some (a, b)) upd supp coll fresh = Ok (t', r') ->
  NoDup (ids t) -> NoDup (leaf_taxa t) -> (2 <= length (t_kids t))%nat -> ~ In fresh (ids t) -> a <> b ->
  Permutation (leaf_taxa t) (leaf_taxa t')
  /\ (forall S, is_usplit t S <-> is_usplit t' S)
  /\ total_length t' = 2 * total_length t
  /\ (forall x y, dist x y t' = option_map (Z.mul 2) (dist x y t)).
Proof. intros. eapply reroot_at_midpoint_spec; eauto. Qed.

Lemma midpoint_equidistant_l t r a b upd supp coll fresh t' r' :
  reroot_at_midpoint t r (Some (a, b)) upd supp coll fresh = Ok (t', r') ->
  NoDup (ids t) -> NoDup (leaf_taxa t) -> (2 <= length (t_kids t))%nat -> ~ In fresh (ids t) -> a <> b ->
  exists D, dist a b t = Some D /\ dist a b t' = Some (2 * D)
            /\ down a t' = Some D /\ down b t' = Some D
            /\ ((forall x y d, dist x y t = Some d -> d <= D) ->
                forall x y d, dist x y t' = Some d -> d <= 2 * D).
Proof.
  intros H NI ND TK FR Hab.
  destruct (reroot_at_midpoint_spec _ _ _ _ _ _ _ _ _ _ H NI ND TK FR Hab) as [[_ [_ [_ E]]] [D [DD [Da Db]]]].
  exists D. split; [assumption|]. split; [rewrite E, DD; reflexivity|]. split; [assumption|]. split; [assumption|].
  intros Hmax x y d Hd. rewrite E in Hd. destruct (dist x y t) as [d0|] eqn:E0; [|discriminate].
  cbn [option_map] in Hd. apply some_inj in Hd. specialize (Hmax x y d0 E0). lia.
Qed.

Lemma to_outgroup_l t r og upd supp t' r' :
  to_outgroup t r og upd supp = Ok (t', r') ->
  NoDup (ids t) -> (2 <= length (t_kids t))%nat -> NoDup (leaf_taxa t) ->
  Permutation (leaf_taxa t) (leaf_taxa t')
  /\ (forall S, is_usplit t S <-> is_usplit t' S)
  /\ total_length t' = total_length t
  /\ (forall a b, dist a b t' = dist a b t).
Proof. intros H NI TK ND. apply equivU_unfold. eapply to_outgroup_equivU; eauto. Qed.

Lemma outgroup_first_l t r og upd t' r' :
  to_outgroup t r og upd false = Ok (t', r') ->
  exists k rest, t_kids t' = k :: rest /\ t_id k = og.
Proof. intros H. eapply (proj2 (to_outgroup_flag_first _ _ _ _ _ _ _ H)); reflexivity. Qed.

Lemma ladderize_l asc t :
  NoDup (leaf_taxa t) ->
  Permutation (leaf_taxa t) (leaf_taxa (ladderize asc t))
  /\ (forall S, is_usplit t S <-> is_usplit (ladderize asc t) S)
  /\ total_length (ladderize asc t) = total_length t
  /\ (forall a b, dist a b (ladderize asc t) = dist a b t).
Proof. intros. apply equivU_unfold, equivT_U, ladderize_equivT. assumption. Qed.

Lemma reorder_l asc rk t :
  NoDup (leaf_taxa t) ->
  Permutation (leaf_taxa t) (leaf_taxa (reorder asc rk t))
  /\ (forall S, is_usplit t S <-> is_usplit (reorder asc rk t) S)
  /\ total_length (reorder asc rk t) = total_length t
  /\ (forall a b, dist a b (reorder asc rk t) = dist a b t).
Proof. intros. apply equivU_unfold, equivT_U, reorder_equivT. assumption. Qed.

Lemma rotate_l sc t t' :
  rotate sc t = Some t' -> NoDup (leaf_taxa t) ->
  Permutation (leaf_taxa t) (leaf_taxa t')
  /\ (forall S, is_usplit t S <-> is_usplit t' S)
  /\ total_length t' = total_length t
  /\ (forall a b, dist a b t' = dist a b t).
Proof. intros. apply equivU_unfold, equivT_U. eapply rotate_equivT; eauto. Qed.

Lemma reorient_l t r n upd sc t' r' :
  reorient t r n upd sc = Ok (t', r') ->
  NoDup (ids t) -> (2 <= length (t_kids t))%nat -> NoDup (leaf_taxa t) ->
  Permutation (leaf_taxa t) (leaf_taxa t')
  /\ (forall S, is_usplit t S <-> is_usplit t' S)
  /\ total_length t' = total_length t
  /\ (forall a b, dist a b t' = dist a b t).
Proof. intros H NI TK ND. apply equivU_unfold. eapply reorient_equivU; eauto. Qed.

Lemma suppress_l t :
  leaf_taxa (suppress t) = leaf_taxa t
  /\ (forall S, is_usplit t S <-> is_usplit (suppress t) S)
  /\ total_length (suppress t) = total_length t
  /\ (forall a b, dist a b (suppress t) = dist a b t).
Proof.
  destruct (equivU_unfold _ _ (suppress_equivU t)) as [_ [B [C D]]].
  split; [apply suppress_leaf_taxa|]. auto.
Qed.

Lemma collapse_basal_l t t' did :
  collapse_basal t = (t', did) -> NoDup (leaf_taxa t) ->
  Permutation (leaf_taxa t) (leaf_taxa t')
  /\ (forall S, is_usplit t S <-> is_usplit t' S)
  /\ total_length t' = total_length t
  /\ (forall a b, dist a b t' = dist a b t).
Proof. intros. apply equivU_unfold. eapply collapse_basal_equivU; eauto. Qed.

Lemma edge_position_l t r h l1 l2 upd supp fresh t' r' H :
  reroot_at_edge t r h l1 l2 upd supp fresh = Ok (t', r') ->
  find_node h t = Some H -> ~ In fresh (ids t) -> (2 <= length (t_kids t))%nat -> NoDup (leaf_taxa t) ->
  len0 l1 + len0 l2 = len0 (t_len H) ->
  t_id t' = fresh /\ exists c1 c2, t_kids t' = [c1; c2]
    /\ leaf_taxa c1 = leaf_taxa H
    /\ (forall a, downT a c1 = oadd (len0 l2) (down a H))
    /\ (forall a b da D, down a H = Some da -> ~ In b (leaf_taxa H) -> dist a b t = Some D ->
          downT b c2 = Some (len0 l1 + (D - da - len0 (t_len H)))).
Proof. intros. eapply reroot_at_edge_pos; eauto. Qed.

(* ---------- concrete trees ---------- *)
Definition lf (i x : Z) (e : option Z) : tree := T i (Some x) None e [].
(* ((A:1,B:1):1,(C:1,D:1):1)  ids 0..6, taxa 0..3, lengths in units of 2^-10 *)
Definition ex_t : tree :=
  T 0 None None None [T 1 None None (Some 1024) [lf 2 0 (Some 1024); lf 3 1 (Some 1024)];
                      T 4 None None (Some 1024) [lf 5 2 (Some 1024); lf 6 3 (Some 1024)]].
(* ((A:1,B:1),(C:1,D:1):2): one edge below the seed without length *)
Definition ex_mixed : tree :=
  T 0 None None None [T 1 None None None [lf 2 0 (Some 1024); lf 3 1 (Some 1024)];
                      T 4 None None (Some 2048) [lf 5 2 (Some 1024); lf 6 3 (Some 1024)]].

Ltac nodup_tac := repeat (constructor; [simpl; intuition congruence|]); constructor.

Lemma ex_t_nodup : NoDup (leaf_taxa ex_t). Proof. simpl. nodup_tac. Qed.
Lemma ex_t_ids : NoDup (ids ex_t). Proof. simpl. nodup_tac. Qed.
Lemma ex_t_two : (2 <= length (t_kids ex_t))%nat. Proof. simpl. lia. Qed.
Lemma ex_mixed_nodup : NoDup (leaf_taxa ex_mixed). Proof. simpl. nodup_tac. Qed.

(* mixed None / defined lengths (lost length before fix 1fc3f136): the basal collapse now keeps it *)
Lemma ex_reseed_mixed :
  exists t' r', reseed_at ex_mixed None 0 false true true = Ok (t', r') /\ t' <> ex_mixed
    /\ is_internal_node 0 ex_mixed /\ (2 <= length (t_kids ex_mixed))%nat /\ NoDup (leaf_taxa ex_mixed)
    /\ total_length t' = 6144 /\ total_length ex_mixed = 6144.
Proof.
  eexists. eexists. split; [vm_compute; reflexivity|]. split; [discriminate|].
  split; [eexists; split; [vm_compute; reflexivity | discriminate]|].
  split; [simpl; lia|]. split; [apply ex_mixed_nodup|]. split; vm_compute; reflexivity.
Qed.

(* the strict "soft operations leave the flag as it was" fails: None becomes Some false *)
Lemma soft_strict_refuted :
  exists t o t', op_soft o = true /\ run_op t None o = Ok (t', Some false).
Proof.
  exists ex_t, (OReseed 0 false true true). eexists. split; [reflexivity | vm_compute; reflexivity].
Qed.

(* reseed_at on a leaf (outside the documented domain) loses the leaf's edge *)
Lemma reseed_leaf_refuted :
  exists t r n upd coll supp t' r' X,
    reseed_at t r n upd coll supp = Ok (t', r') /\ find_node n t = Some X /\ t_kids X = []
    /\ (2 <= length (t_kids t))%nat /\ NoDup (leaf_taxa t)
    /\ total_length t' <> total_length t.
Proof.
  exists ex_t, (Some true), 2, false, true, true. eexists. eexists. eexists.
  split; [vm_compute; reflexivity|]. split; [vm_compute; reflexivity|]. split; [reflexivity|].
  split; [apply ex_t_two|]. split; [apply ex_t_nodup|].
  vm_compute. discriminate.
Qed.

(* ---------- non-vacuity: the hypotheses of the theorems are satisfiable, on non-trivial calls ---------- *)
Lemma ex_reseed :
  exists t' r', reseed_at ex_t None 1 true true true = Ok (t', r') /\ t' <> ex_t
    /\ is_internal_node 1 ex_t /\ (2 <= length (t_kids ex_t))%nat /\ NoDup (leaf_taxa ex_t).
Proof.
  eexists. eexists. split; [vm_compute; reflexivity|]. split; [discriminate|].
  split; [eexists; split; [vm_compute; reflexivity | discriminate]|].
  split; [apply ex_t_two | apply ex_t_nodup].
Qed.

Lemma ex_reroot_edge :
  exists t' r' H, reroot_at_edge ex_t (Some false) 1 (Some 256) (Some 768) true true 100 = Ok (t', r')
    /\ find_node 1 ex_t = Some H /\ len0 (Some 256) + len0 (Some 768) = len0 (t_len H)
    /\ ~ In 100 (ids ex_t) /\ (2 <= length (t_kids ex_t))%nat /\ NoDup (leaf_taxa ex_t).
Proof.
  eexists. eexists. eexists. split; [vm_compute; reflexivity|]. split; [vm_compute; reflexivity|].
  split; [reflexivity|]. split; [simpl; intuition congruence|]. split; [apply ex_t_two | apply ex_t_nodup].
Qed.

Lemma ex_midpoint :
  exists t' r', reroot_at_midpoint ex_t None (Some (Some 0, Some 2)) true true true 100 = Ok (t', r')
    /\ NoDup (ids ex_t) /\ NoDup (leaf_taxa ex_t) /\ (2 <= length (t_kids ex_t))%nat
    /\ ~ In 100 (ids ex_t) /\ Some 0 <> Some 2
    /\ (forall x y d, dist x y ex_t = Some d -> d <= 4096) /\ dist (Some 0) (Some 2) ex_t = Some 4096.
Proof.
  eexists. eexists. split; [vm_compute; reflexivity|]. split; [apply ex_t_ids|]. split; [apply ex_t_nodup|].
  split; [apply ex_t_two|]. split; [simpl; intuition congruence|]. split; [discriminate|].
  split; [|vm_compute; reflexivity].
  intros x y d Hd.
  assert (Hx : In x (leaf_taxa ex_t)).
  { destruct (dist_some_down _ _ _ _ Hd) as [A _]. destruct (down x ex_t) eqn:E; [|congruence]. eapply down_in; eauto. }
  assert (Hy : In y (leaf_taxa ex_t)).
  { destruct (dist_some_down _ _ _ _ Hd) as [_ A]. destruct (down y ex_t) eqn:E; [|congruence]. eapply down_in; eauto. }
  simpl in Hx, Hy.
  destruct Hx as [<-|[<-|[<-|[<-|[]]]]]; destruct Hy as [<-|[<-|[<-|[<-|[]]]]]; vm_compute in Hd; inversion Hd; lia.
Qed.

Lemma ex_outgroup :
  exists t' r', to_outgroup ex_t None 5 true true = Ok (t', r') /\ t' <> ex_t
    /\ NoDup (ids ex_t) /\ (2 <= length (t_kids ex_t))%nat /\ NoDup (leaf_taxa ex_t).
Proof.
  eexists. eexists. split; [vm_compute; reflexivity|]. split; [discriminate|].
  split; [apply ex_t_ids|]. split; [apply ex_t_two | apply ex_t_nodup].
Qed.

Lemma ex_reorient :
  exists t' r', reorient ex_t None (Some 4) false [(4, [0%nat; 2%nat; 1%nat]); (0, [1%nat; 0%nat]); (1, [1%nat; 0%nat])] = Ok (t', r')
    /\ t' <> ex_t /\ NoDup (ids ex_t) /\ (2 <= length (t_kids ex_t))%nat /\ NoDup (leaf_taxa ex_t).
Proof.
  eexists. eexists. split; [vm_compute; reflexivity|]. split; [discriminate|].
  split; [apply ex_t_ids|]. split; [apply ex_t_two | apply ex_t_nodup].
Qed.

Lemma ex_rotate :
  exists t', rotate [(0, [1%nat; 0%nat]); (1, [1%nat; 0%nat]); (4, [0%nat; 1%nat])] ex_t = Some t' /\ t' <> ex_t.
Proof. eexists. split; [vm_compute; reflexivity | discriminate]. Qed.

(* a seed with a single child: re-seeding makes the old seed a (taxon-less) leaf *)
Definition ex_unif : tree :=
  T 0 None None None [T 1 None None (Some 1024) [lf 2 0 (Some 1024); lf 3 1 (Some 1024); lf 4 2 (Some 1024)]].

Lemma seed_unif_refuted :
  exists t r n upd coll supp t' r',
    reseed_at t r n upd coll supp = Ok (t', r')
    /\ is_internal_node n t /\ NoDup (leaf_taxa t)
    /\ ~ Permutation (leaf_taxa t) (leaf_taxa t').
Proof.
  exists ex_unif, (Some true), 1, false, false, true. eexists. eexists.
  split; [vm_compute; reflexivity|].
  split; [eexists; split; [vm_compute; reflexivity | discriminate]|].
  split; [simpl; nodup_tac|].
  intro P. apply Permutation_length in P. vm_compute in P. discriminate.
Qed.
