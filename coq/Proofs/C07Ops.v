(* C07 proofs, part 5: the operations (reseed_at, to_outgroup_position, reroot_at_node,
   reroot_at_edge, ladderize, reorder, randomly_rotate, randomly_reorient) preserve the unrooted
   tree; rooting-flag rules; outgroup first child *)
From Coq Require Import ZArith List Bool Lia Permutation.
From DV Require Import Model.PyPrims Model.Tree Model.C07Model Model.C07Spec
     Proofs.C07Base Proofs.C07Equiv Proofs.C07Rot Proofs.C07Blocks.
Import ListNotations.
Open Scope Z_scope.

(* ---------- identities ---------- *)
Lemma preorder_node i x l e ks : preorder (T i x l e ks) = T i x l e ks :: flat_map preorder ks.
Proof. reflexivity. Qed.

Lemma find_node_in n : forall t X, find_node n t = Some X -> In X (preorder t) /\ t_id X = n.
Proof.
  induction t as [i x l e ks IH] using tree_ind'. intros X. rewrite find_node_eq. cbn [t_id t_kids].
  destruct (i =? n) eqn:E.
  - intros H; inversion H; subst. split; [left; reflexivity | apply Z.eqb_eq; assumption].
  - intros H. apply first_some_some in H. destruct H as [k [Hk Hf]].
    rewrite Forall_forall in IH. destruct (IH k Hk X Hf) as [H1 H2]. split; [|assumption].
    rewrite preorder_node. right. apply in_flat_map. exists k. split; assumption.
Qed.

Lemma find_node_none n : forall t, ~ In n (ids t) -> find_node n t = None.
Proof.
  induction t as [i x l e ks IH] using tree_ind'. unfold ids. rewrite preorder_node. cbn [map t_id].
  intros H. rewrite find_node_eq. cbn [t_id t_kids].
  destruct (i =? n) eqn:E; [exfalso; apply H; left; apply Z.eqb_eq; assumption|].
  apply first_some_none. rewrite Forall_forall in *. intros k Hk. apply IH; [assumption|].
  intros Hin. apply H. right. unfold ids in Hin. apply in_map_iff in Hin. destruct Hin as [y [Hy1 Hy2]].
  apply in_map_iff. exists y. split; [assumption|]. apply in_flat_map. exists k. split; assumption.
Qed.

Lemma find_node_some n : forall t, In n (ids t) -> exists X, find_node n t = Some X.
Proof.
  intros t H. destruct (find_node n t) eqn:E; [eexists; reflexivity|]. exfalso.
  revert t H E. induction t as [i x l e ks IH] using tree_ind'. unfold ids. rewrite preorder_node. cbn [map t_id].
  rewrite find_node_eq. cbn [t_id t_kids]. intros [H|H].
  - subst. rewrite Z.eqb_refl. discriminate.
  - destruct (i =? n); [discriminate|]. intros E. apply first_some_none in E.
    apply in_map_iff in H. destruct H as [y [Hy1 Hy2]]. apply in_flat_map in Hy2. destruct Hy2 as [k [Hk Hy]].
    rewrite Forall_forall in *. apply (IH k Hk); [|apply E; assumption].
    unfold ids. apply in_map_iff. exists y. split; assumption.
Qed.

Lemma nodup_map_inj {A B} (f : A -> B) l x y :
  NoDup (map f l) -> In x l -> In y l -> f x = f y -> x = y.
Proof.
  induction l as [|a l IH]; simpl; intros ND Hx Hy E; [contradiction|]. inversion ND; subst.
  destruct Hx as [->|Hx], Hy as [->|Hy]; try reflexivity.
  - exfalso. apply H1. rewrite E. apply in_map. assumption.
  - exfalso. apply H1. rewrite <- E. apply in_map. assumption.
  - apply IH; assumption.
Qed.

Lemma find_node_unique n t Y :
  NoDup (ids t) -> In Y (preorder t) -> t_id Y = n -> find_node n t = Some Y.
Proof.
  intros ND HY E. destruct (find_node_some n t) as [X HX].
  - unfold ids. apply in_map_iff. exists Y. split; assumption.
  - destruct (find_node_in n t X HX) as [H1 H2]. rewrite HX. f_equal.
    eapply (nodup_map_inj t_id); eauto. congruence.
Qed.

Lemma parent_of_in og : forall t p, parent_of og t = Some p ->
  exists Y, In Y (preorder t) /\ t_id Y = p /\ t_kids Y <> [].
Proof.
  induction t as [i x l e ks IH] using tree_ind'. intros p H. simpl in H.
  apply first_some_some in H. destruct H as [k [Hk Hf]].
  destruct (t_id k =? og).
  - inversion Hf; subst. exists (T p x l e ks). split; [left; reflexivity|]. split; [reflexivity|].
    cbn [t_kids]. intro E. subst. contradiction.
  - rewrite Forall_forall in IH. destruct (IH k Hk p Hf) as [Y [H1 H2]]. exists Y. split; [|assumption].
    rewrite preorder_node. right. apply in_flat_map. exists k. split; assumption.
Qed.

Lemma parent_internal og t p : NoDup (ids t) -> parent_of og t = Some p -> is_internal_node p t.
Proof.
  intros ND H. destruct (parent_of_in og t p H) as [Y [H1 [H2 H3]]].
  exists Y. split; [apply find_node_unique; assumption | assumption].
Qed.

(* ---------- tail of reseed_at / encode_bipartitions ---------- *)
Lemma post_reseed_equivU t r coll supp t' r' :
  post_reseed t r coll supp = (t', r') -> NoDup (leaf_taxa t) -> equivU t t'.
Proof.
  unfold post_reseed. intros H ND.
  destruct (coll && not_rooted r) eqn:E.
  - destruct (collapse_basal t) as [t1 did] eqn:EC.
    assert (E1 : equivU t t1) by (eapply collapse_basal_equivU; eauto).
    inversion H; subst. destruct supp; [|assumption].
    eapply equivU_trans; [exact E1 | apply suppress_equivU].
  - inversion H; subst. destruct supp; [apply suppress_equivU | apply equivU_refl].
Qed.

Lemma post_reseed_flag t r coll supp t' r' :
  post_reseed t r coll supp = (t', r') ->
  r' = r \/ (coll = true /\ not_rooted r = true /\ r' = Some false).
Proof.
  unfold post_reseed. intros H. destruct (coll && not_rooted r) eqn:E.
  - destruct (collapse_basal t) as [t1 did]. inversion H; subst.
    apply andb_true_iff in E. destruct E. destruct did; [right; auto | left; reflexivity].
  - inversion H; subst. left; reflexivity.
Qed.

Lemma tree_eta t : T (t_id t) (t_taxon t) (t_label t) (t_len t) (t_kids t) = t.
Proof. destruct t; reflexivity. Qed.

Lemma bind_ok {A B} (r : res A) (f : A -> res B) b :
  bind r f = Ok b -> exists a, r = Ok a /\ f a = Ok b.
Proof. destruct r; simpl; intros H; try discriminate. exists a. split; [reflexivity | assumption]. Qed.

(* the rotation part of reseed_at *)
Lemma reseed_rot_equivU t n t1 X :
  rot (t_len t) n t [] = Some t1 -> find_node n t = Some X -> t_kids X <> [] ->
  (t_id t = n \/ (2 <= length (t_kids t))%nat) -> NoDup (leaf_taxa t) ->
  equivU t t1 /\ Permutation (nonroot_lens t) (nonroot_lens t1).
Proof.
  intros Hr HX HXk Hs ND.
  assert (E : T (t_id t) (t_taxon t) (t_label t) (t_len t) (t_kids t ++ []) = t) by (rewrite app_nil_r; apply tree_eta).
  destruct (rot_equivU n t (t_len t) [] t1 X Hr HX HXk) as [H1 H2].
  - destruct Hs; [left; assumption | right; right; assumption].
  - rewrite E. assumption.
  - rewrite E in *. split; assumption.
Qed.

Definition two_kids (t : tree) : Prop := (2 <= length (t_kids t))%nat.

Lemma reseed_at_equivU t r n upd coll supp t' r' :
  reseed_at t r n upd coll supp = Ok (t', r') ->
  is_internal_node n t -> two_kids t -> NoDup (leaf_taxa t) ->
  equivU t t'.
Proof.
  unfold reseed_at. intros H [X [HX HXk]] H2 ND.
  apply bind_ok in H. destruct H as [t1 [H1 Hp]]. inversion Hp as [Hp']. clear Hp.
  destruct (t_id t =? n) eqn:E.
  - inversion H1; subst t1. eapply post_reseed_equivU; eauto.
  - rewrite HX in H1. destruct (rot (t_len t) n t []) as [t2|] eqn:ER; [|discriminate].
    assert (HL : is_leaf X = false) by (unfold is_leaf; destruct (t_kids X); [congruence | reflexivity]).
    rewrite HL in H1. cbn [andb] in H1. inversion H1; subst t1.
    destruct (reseed_rot_equivU t n t2 X ER HX HXk (or_intror H2) ND) as [E1 P1].
    eapply equivU_trans; [exact E1|].
    eapply post_reseed_equivU; [eassumption | eapply equivU_nodup; eauto].
Qed.

Lemma reseed_at_flag t r n upd coll supp t' r' :
  reseed_at t r n upd coll supp = Ok (t', r') ->
  r' = r \/ (coll = true /\ not_rooted r = true /\ r' = Some false).
Proof.
  unfold reseed_at. intros H. apply bind_ok in H. destruct H as [t1 [_ Hp]]. inversion Hp as [Hp'].
  eapply post_reseed_flag; eauto.
Qed.

(* ---------- to_outgroup_position ---------- *)
Lemma to_outgroup_old_equivU t r og upd supp t' r' :
  to_outgroup_old t r og upd supp = Ok (t', r') ->
  NoDup (ids t) -> two_kids t -> NoDup (leaf_taxa t) ->
  equivU t t' /\ r' = r /\ exists k rest, t_kids t' = k :: rest /\ t_id k = og.
Proof.
  unfold to_outgroup_old. intros H NI H2 ND.
  destruct (parent_of og t) as [p|] eqn:EP; [|discriminate].
  apply bind_ok in H. destruct H as [[t1 r1] [H1 H]]. cbn [fst snd] in H.
  assert (E1 : equivU t t1).
  { eapply reseed_at_equivU; eauto. eapply parent_internal; eauto. }
  assert (F1 : r1 = r).
  { destruct (reseed_at_flag _ _ _ _ _ _ _ _ H1) as [F|[F _]]; [assumption | discriminate]. }
  destruct t1 as [i x l e ks]. destruct (i =? p); [|discriminate].
  destruct (to_front og ks) as [ks'|] eqn:EF; [|discriminate]. inversion H; subst t' r'.
  destruct (to_front_spec _ _ _ EF) as [HP [k [rest [Hk Hid]]]].
  split; [|split; [assumption | exists k, rest; split; assumption]].
  eapply equivU_trans; [exact E1|]. apply equivT_U.
  assert (Hn : ks <> []) by (intro; subst; discriminate).
  apply equivT_perm; try assumption.
  apply (equivU_nodup _ _ E1) in ND. rewrite leaf_taxa_node in ND by assumption. assumption.
Qed.

Lemma to_outgroup_false t r og upd : to_outgroup t r og upd false = to_outgroup_old t r og upd false.
Proof. unfold to_outgroup. destruct (to_outgroup_old t r og upd false) as [[a b]|e|]; reflexivity. Qed.

(* the current form: the first-child clause holds without suppression (with it the outgroup itself may be
   a unifurcation that is merged into its child) *)
Lemma to_outgroup_equivU t r og upd supp t' r' :
  to_outgroup t r og upd supp = Ok (t', r') ->
  NoDup (ids t) -> two_kids t -> NoDup (leaf_taxa t) ->
  equivU t t' /\ r' = r /\ (supp = false -> exists k rest, t_kids t' = k :: rest /\ t_id k = og).
Proof.
  unfold to_outgroup. intros H NI H2 ND.
  apply bind_ok in H. destruct H as [[t1 r1] [H1 H]]. cbn [fst snd] in H. inversion H; subst t' r'. clear H.
  destruct (to_outgroup_old_equivU _ _ _ _ _ _ _ H1 NI H2 ND) as [E1 [F1 K1]].
  split; [|split; [exact F1|]].
  - destruct supp; [|exact E1]. eapply equivU_trans; [exact E1 | apply suppress_equivU].
  - intros ->. exact K1.
Qed.

(* ---------- reroot_at_node ---------- *)
Lemma reroot_at_node_equivU t r n upd supp coll t' r' :
  reroot_at_node t r n upd supp coll = Ok (t', r') ->
  is_internal_node n t -> two_kids t -> NoDup (leaf_taxa t) ->
  equivU t t' /\ r' = Some true.
Proof.
  unfold reroot_at_node. intros H HI H2 ND.
  apply bind_ok in H. destruct H as [[t1 r1] [H1 H]]. cbn [fst] in H.
  assert (E1 : equivU t t1) by (eapply reseed_at_equivU; eauto).
  destruct upd.
  - inversion H as [Hp]. split.
    + eapply equivU_trans; [exact E1|]. eapply post_reseed_equivU; [eassumption | eapply equivU_nodup; eauto].
    + destruct (post_reseed_flag _ _ _ _ _ _ Hp) as [F|[_ [F _]]]; [assumption | discriminate].
  - inversion H; subst. split; [assumption | reflexivity].
Qed.

(* ---------- reroot_at_edge ---------- *)
Lemma split_edge_fresh h fresh l1 l2 : forall t t1,
  split_edge h fresh l1 l2 t = Some t1 -> ~ In fresh (ids t) ->
  is_internal_node fresh t1 /\ length (t_kids t1) = length (t_kids t).
Proof.
  induction t as [i x l e ks IH] using tree_ind'. intros t1 Hs Hf. simpl in Hs.
  match type of Hs with option_map _ ?F = Some _ => destruct F as [ks2|] eqn:EF; [|discriminate] end.
  cbn [option_map] in Hs. inversion Hs; subst t1. clear Hs.
  apply first_ctx_some in EF. destruct EF as [A [k [B [Hks EF]]]]. cbn [app] in EF.
  assert (Hi : i <> fresh) by (intro; subst; apply Hf; left; reflexivity).
  assert (Hsub : forall c, In c ks -> ~ In fresh (ids c)).
  { intros c Hc Hin. apply Hf. unfold ids in *. rewrite preorder_node. cbn [map]. right.
    apply in_map_iff in Hin. destruct Hin as [y [Hy1 Hy2]]. apply in_map_iff. exists y. split; [assumption|].
    apply in_flat_map. exists c. split; assumption. }
  assert (HA : first_some (find_node fresh) A = None).
  { apply first_some_none. rewrite Forall_forall. intros c Hc. apply find_node_none. apply Hsub. rewrite Hks. apply in_or_app. left; assumption. }
  assert (HB : first_some (find_node fresh) B = None).
  { apply first_some_none. rewrite Forall_forall. intros c Hc. apply find_node_none. apply Hsub. rewrite Hks. apply in_or_app. right; right; assumption. }
  unfold is_internal_node. rewrite find_node_eq. cbn [t_id t_kids].
  replace (i =? fresh) with false by (symmetry; apply Z.eqb_neq; assumption).
  destruct (t_id k =? h).
  - inversion EF; subst ks2. split.
    + exists (T fresh None None l1 [set_len l2 k]). split; [|discriminate].
      rewrite !first_some_app, HA, HB. simpl. rewrite Z.eqb_refl. reflexivity.
    + rewrite Hks, !app_length. cbn [length]. lia.
  - destruct (split_edge h fresh l1 l2 k) as [k'|] eqn:Ek; [|discriminate]. cbn [option_map] in EF.
    inversion EF; subst ks2. rewrite Forall_forall in IH.
    assert (Hkin : In k ks) by (rewrite Hks; apply in_or_app; right; left; reflexivity).
    destruct (IH k Hkin k' Ek (Hsub k Hkin)) as [[X [HX HXk]] _]. split.
    + exists X. split; [|assumption]. rewrite first_some_app, HA, first_some_cons, HX. reflexivity.
    + rewrite Hks, !app_length. reflexivity.
Qed.

Lemma reroot_at_edge_equivU t r h l1 l2 upd supp fresh t' r' :
  reroot_at_edge t r h l1 l2 upd supp fresh = Ok (t', r') ->
  (forall H, find_node h t = Some H -> len0 l1 + len0 l2 = len0 (t_len H)) ->
  ~ In fresh (ids t) -> two_kids t -> NoDup (leaf_taxa t) ->
  equivU t t' /\ r' = Some true.
Proof.
  unfold reroot_at_edge. intros H HL Hf H2 ND.
  destruct (t_id t =? h) eqn:Eh; [discriminate|].
  destruct (split_edge h fresh l1 l2 t) as [t1|] eqn:ES; [|discriminate].
  assert (E1 : equivT t t1).
  { eapply split_edge_equivT; eauto. intros X HX. apply HL. rewrite find_node_eq, Eh. assumption. }
  destruct (split_edge_fresh _ _ _ _ _ _ ES Hf) as [HI HK].
  destruct (reroot_at_node_equivU _ _ _ _ _ _ _ _ H HI) as [E2 F].
  - unfold two_kids in *. rewrite HK. assumption.
  - eapply equivU_nodup; [apply equivT_U; exact E1 | assumption].
  - split; [|assumption]. eapply equivU_trans; [apply equivT_U; exact E1 | exact E2].
Qed.

(* ---------- ladderize / reorder / randomly_rotate / randomly_reorient ---------- *)
Lemma reorient_equivU t r n upd sc t' r' :
  reorient t r n upd sc = Ok (t', r') ->
  NoDup (ids t) -> two_kids t -> NoDup (leaf_taxa t) ->
  equivU t t' /\ (r' = r \/ (not_rooted r = true /\ r' = Some false)).
Proof.
  unfold reorient. intros H NI H2 ND.
  destruct n as [n|]; [|discriminate].
  destruct (find_node n t) as [X|] eqn:EX; [|discriminate].
  apply bind_ok in H. destruct H as [[t1 r1] [H1 H]]. cbn [fst snd] in H.
  destruct (rotate sc t1) as [t2|] eqn:ER; [|discriminate]. inversion H; subst t' r'.
  assert (E1 : equivU t t1 /\ (r1 = r \/ (not_rooted r = true /\ r1 = Some false))).
  { destruct (is_leaf X) eqn:EL.
    - destruct (to_outgroup_equivU _ _ _ _ _ _ _ H1 NI H2 ND) as [A [B _]]. split; [assumption | left; assumption].
    - split.
      + eapply reseed_at_equivU; eauto. exists X. split; [assumption|].
        unfold is_leaf in EL. destruct (t_kids X); [discriminate | discriminate].
      + destruct (reseed_at_flag _ _ _ _ _ _ _ _ H1) as [F|[_ [F1 F2]]]; [left | right]; auto. }
  destruct E1 as [E1 F]. split; [|assumption].
  eapply equivU_trans; [exact E1|]. apply equivT_U. eapply rotate_equivT; eauto. eapply equivU_nodup; eauto.
Qed.

(* ---------- rooting flag, outgroup position: no hypothesis on the tree ---------- *)
Lemma to_outgroup_old_flag_first t r og upd supp t' r' :
  to_outgroup_old t r og upd supp = Ok (t', r') ->
  r' = r /\ exists k rest, t_kids t' = k :: rest /\ t_id k = og.
Proof.
  unfold to_outgroup_old. intros H.
  destruct (parent_of og t) as [p|] eqn:EP; [|discriminate].
  apply bind_ok in H. destruct H as [[t1 r1] [H1 H]]. cbn [fst snd] in H.
  assert (F1 : r1 = r).
  { destruct (reseed_at_flag _ _ _ _ _ _ _ _ H1) as [F|[F _]]; [assumption | discriminate]. }
  destruct t1 as [i x l e ks]. destruct (i =? p); [|discriminate].
  destruct (to_front og ks) as [ks'|] eqn:EF; [|discriminate]. inversion H; subst t' r'.
  destruct (to_front_spec _ _ _ EF) as [HP [k [rest [Hk Hid]]]].
  split; [assumption | exists k, rest; split; assumption].
Qed.

Lemma to_outgroup_flag_first t r og upd supp t' r' :
  to_outgroup t r og upd supp = Ok (t', r') ->
  r' = r /\ (supp = false -> exists k rest, t_kids t' = k :: rest /\ t_id k = og).
Proof.
  unfold to_outgroup. intros H.
  apply bind_ok in H. destruct H as [[t1 r1] [H1 H]]. cbn [fst snd] in H. inversion H; subst t' r'. clear H.
  destruct (to_outgroup_old_flag_first _ _ _ _ _ _ _ H1) as [F1 K1]. split; [exact F1|]. intros ->. exact K1.
Qed.

Lemma reroot_at_node_flag t r n upd supp coll t' r' :
  reroot_at_node t r n upd supp coll = Ok (t', r') -> r' = Some true.
Proof.
  unfold reroot_at_node. intros H. apply bind_ok in H. destruct H as [[t1 r1] [H1 H]]. cbn [fst] in H.
  destruct upd.
  - inversion H as [Hp]. destruct (post_reseed_flag _ _ _ _ _ _ Hp) as [F|[_ [F _]]]; [assumption | discriminate].
  - inversion H; reflexivity.
Qed.

Lemma reroot_at_edge_flag t r h l1 l2 upd supp fresh t' r' :
  reroot_at_edge t r h l1 l2 upd supp fresh = Ok (t', r') -> r' = Some true.
Proof.
  unfold reroot_at_edge. destruct (t_id t =? h); [discriminate|].
  destruct (split_edge h fresh l1 l2 t); [|discriminate]. apply reroot_at_node_flag.
Qed.

Lemma midpoint_flag t r pr upd supp coll fresh t' r' :
  reroot_at_midpoint t r pr upd supp coll fresh = Ok (t', r') -> r' = Some true.
Proof.
  unfold reroot_at_midpoint, midpoint_core. intros H.
  destruct (negb (is_leaf (dbl t)) && existsb is_none (leaf_taxa (dbl t))); [discriminate|].
  destruct pr as [[a b]|]; [|discriminate].
  destruct (if comes_first a b (leaf_taxa (dbl t)) then (a, b) else (b, a)) as [s0 s1].
  destruct (up_chain s0 (dbl t)); [|discriminate].
  destruct (up_chain s1 (dbl t)); [|discriminate].
  destruct (mrca_chains s0 s1 (dbl t)) as [[[m c0] c1]|]; [|discriminate].
  apply bind_ok in H. destruct H as [d0 [_ H]].
  apply bind_ok in H. destruct H as [d1 [_ H]].
  apply bind_ok in H. destruct H as [hh [_ H]].
  apply bind_ok in H. destruct H as [tr [_ H]].
  destruct upd; inversion H; reflexivity.
Qed.

Lemma reorient_flag t r n upd sc t' r' :
  reorient t r n upd sc = Ok (t', r') -> r' = r \/ (not_rooted r = true /\ r' = Some false).
Proof.
  unfold reorient. intros H.
  destruct n as [n|]; [|discriminate].
  destruct (find_node n t) as [X|]; [|discriminate].
  apply bind_ok in H. destruct H as [[t1 r1] [H1 H]]. cbn [fst snd] in H.
  destruct (rotate sc t1); [|discriminate]. inversion H; subst.
  destruct (is_leaf X).
  - left. eapply to_outgroup_flag_first; eauto.
  - destruct (reseed_at_flag _ _ _ _ _ _ _ _ H1) as [F|[_ [F1 F2]]]; [left | right]; auto.
Qed.

Lemma not_rooted_cases r r' :
  r' = r \/ (not_rooted r = true /\ r' = Some false) -> r' = r \/ (r = None /\ r' = Some false).
Proof.
  intros [H|[H1 H2]]; [left; assumption|]. destruct r as [[|]|]; [discriminate | left; assumption | right; split; [reflexivity | assumption]].
Qed.

Lemma soft_flag t r o t' r' :
  op_soft o = true -> run_op t r o = Ok (t', r') -> r' = r \/ (r = None /\ r' = Some false).
Proof.
  destruct o; simpl; intros S H; try discriminate.
  - apply not_rooted_cases. destruct (reseed_at_flag _ _ _ _ _ _ _ _ H) as [F|[_ [F1 F2]]]; [left | right]; auto.
  - left. eapply to_outgroup_flag_first; eauto.
  - inversion H; left; reflexivity.
  - inversion H; left; reflexivity.
  - destruct (rotate sc t); inversion H; left; reflexivity.
  - apply not_rooted_cases. eapply reorient_flag; eauto.
  - inversion H; left; reflexivity.
Qed.

Lemma hard_flag t r o t' r' :
  op_hard o = true -> run_op t r o = Ok (t', r') -> r' = Some true.
Proof.
  destruct o; simpl; intros S H; try discriminate.
  - eapply reroot_at_node_flag; eauto.
  - eapply reroot_at_edge_flag; eauto.
  - eapply midpoint_flag; eauto.
Qed.

Lemma equivU_unfold t t' :
  equivU t t' ->
  Permutation (leaf_taxa t) (leaf_taxa t')
  /\ (forall S, is_usplit t S <-> is_usplit t' S)
  /\ total_length t' = total_length t
  /\ (forall a b, dist a b t' = dist a b t).
Proof.
  intros [A B C D]. split; [assumption|]. split; [assumption|]. split; [symmetry; assumption|].
  intros; symmetry; apply B.
Qed.
