(* C18 - translator tie: the extinct-tip pruning loop of birth_death_tree (Gen/Sim.v,
   gen_birth_death_tree_prune) is the model's prune_all: the generated upward climb
   (while nd.parent_node is not None and len(nd.parent_node._child_nodes) == 1) followed by
   prune_subtree is the bottom-up prune1 *)
From Coq Require Import QArith Lqa List Bool Arith Lia Permutation.
From DV Require Import Model.C18Model Model.C18Prims Proofs.C18Lists Proofs.C18Tree Proofs.C18Monad
  Proofs.C18BD Proofs.C18GenCoal Proofs.C18GenBD Proofs.C18GenPB Proofs.C18GenTaxa Proofs.C18GenPrune Proofs.C18Final Gen.Sim.
From DV Require Model.PyPrims.
Import ListNotations.
Open Scope nat_scope.

(* the while loop = climbf; the nodes it adds to processed_nodes all have exactly one child *)
Lemma gen_climb : forall f t x proc r y, climbf f t x = Some y ->
  exists chain,
    py_while f (gen_birth_death_tree_loop_while7 t) (x, proc) r = Done (CNext (R := Empty_set) (y, chain ++ proc)) r /\
    Forall (fun c => b_nkids t c = 1) chain.
Proof.
  induction f as [|f IH]; intros t x proc r y H; [discriminate|].
  rewrite py_while_S. cbn [climbf] in H. unfold gen_birth_death_tree_loop_while7 at 1. cbv beta iota zeta.
  unfold b_parent. destruct (parent_of x t) as [p|] eqn:Ep; cbn [py_is_none negb andb py_unwrap_n].
  - destruct (b_nkids t p =? 1) eqn:Ek.
    + destruct (IH t p (p :: proc) r y H) as (chain & E & F).
      exists (chain ++ [p]). split.
      * unfold bnd, ret. rewrite E. rewrite <- app_assoc. reflexivity.
      * apply Forall_app. split; [exact F|]. constructor; [apply Nat.eqb_eq; exact Ek|constructor].
    + inversion H; subst. exists []. split; [reflexivity|constructor].
  - inversion H; subst. exists []. split; [reflexivity|constructor].
Qed.

Lemma memb_app : forall x a b, memb x (a ++ b) = memb x a || memb x b.
Proof. induction a as [|y a IH]; intros b; simpl; [reflexivity|]. rewrite IH. apply orb_assoc. Qed.

Definition prune_result (c : ctl (list nat * list nat * btree) Empty_set) : M btree :=
  match c with
  | CReturn r_ => match r_ with end
  | CNext s_ | CBreak s_ => let '(_, _, t) := s_ in ret t
  end.

Lemma gen_prune_loop : forall xs pg pm ext t r,
  NoDup (ids t) ->
  (forall x, In x xs -> memb x pg = memb x pm) ->
  (forall x, In x xs -> memb x pm = false -> In x (leaf_ids t)) ->
  bnd (py_forM gen_birth_death_tree_loop_forM8 xs (pg, ext, t)) prune_result r = prune_all xs pm t r.
Proof.
  induction xs as [|x xs IH]; intros pg pm ext t r Hn Hm Hl.
  - reflexivity.
  - cbn [py_forM prune_all]. rewrite bnd_assoc.
    unfold gen_birth_death_tree_loop_forM8 at 1. cbv beta iota zeta.
    rewrite (Hm x (or_introl eq_refl)).
    destruct (memb x pm) eqn:Ex.
    + unfold bnd at 1. unfold ret at 1. apply IH; [exact Hn| |].
      * intros x' Hx'. apply Hm. right. exact Hx'.
      * intros x' Hx'. apply Hl. right. exact Hx'.
    + assert (Hxl : In x (leaf_ids t)) by (apply Hl; [left; reflexivity|exact Ex]).
      assert (Hxi : In x (ids t)).
      { eapply Permutation_in; [apply Permutation_sym; apply ids_perm|]. apply in_or_app. left. exact Hxl. }
      unfold b_nkids at 1. rewrite (nkids_leaf x t Hn Hxl). cbn [Nat.eqb].
      destruct (climb_is_ctop t x Hn Hxi) as (y & n & Ec & Ef).
      destruct (gen_climb _ _ _ (x :: pg) r _ Ef) as (chain & Ew & Fc).
      destruct (ctop_in x t Hn Hxi) as (y' & n' & Ec' & Hy & _). rewrite Ec in Ec'. inversion Ec'; subst y' n'.
      rewrite (prune1_ctop x t Hn Hxi y n Ec).
      rewrite bnd_assoc. rewrite (bnd_Done_l _ _ _ _ _ Ew). cbv beta iota zeta.
      unfold b_prune_subtree.
      destruct (y =? b_id t) eqn:Ey.
      * apply Nat.eqb_eq in Ey. subst y. rewrite (parent_root t Hn). reflexivity.
      * apply Nat.eqb_neq in Ey. destruct (parent_exists y t Hn Hy Ey) as (p & Ep). rewrite Ep.
        unfold bnd at 1. unfold ret at 1. unfold bnd at 1. unfold ret at 1.
        assert (Ep1 : prune1 x t = Some (remove_child y t)).
        { rewrite (prune1_ctop x t Hn Hxi y n Ec). apply Nat.eqb_neq in Ey. rewrite Ey. reflexivity. }
        apply IH.
        -- eapply prune1_NoDup; eauto.
        -- intros x' Hx'. rewrite memb_app. cbn [memb]. rewrite (Hm x' (or_intror Hx')).
           destruct (memb x' pm) eqn:Ex'; [rewrite !orb_true_r; reflexivity|].
           rewrite !orb_false_r.
           replace (memb x' chain) with false; [reflexivity|].
           symmetry. apply memb_false. intro Hc. rewrite Forall_forall in Fc. specialize (Fc _ Hc).
           assert (Hx'l : In x' (leaf_ids t)) by (apply Hl; [right; exact Hx'|exact Ex']).
           unfold b_nkids in Fc. rewrite (nkids_leaf x' t Hn Hx'l) in Fc. discriminate.
        -- intros x' Hx' Hf. cbn [memb] in Hf. apply orb_false_iff in Hf. destruct Hf as [Hne Hf].
           pose proof (prune1_leaf_ids x t Hn (leaf_not_inner _ _ Hn Hxl)) as Hp. rewrite Ep1 in Hp. rewrite Hp.
           unfold drop. apply filter_In. split; [apply Hl; [right; exact Hx'|exact Hf]|].
           apply Nat.eqb_neq in Hne. apply negb_true_iff. apply Nat.eqb_neq. congruence.
Qed.

(* the translated pruning block = prune_all of the model, for a tree with distinct identities whose
   extinct tips are leaves (both hold of the state the event loop hands over: bd_inv) *)
Theorem gen_birth_death_tree_prune_eq : forall t dead r,
  NoDup (ids t) -> (forall x, In x dead -> In x (leaf_ids t)) ->
  gen_birth_death_tree_prune t dead r = prune_all dead [] t r.
Proof.
  intros t dead r Hn Hd. unfold gen_birth_death_tree_prune. cbv zeta.
  rewrite <- (gen_prune_loop dead [] [] dead t r Hn); [reflexivity| |].
  - intros; reflexivity.
  - intros x Hx _. apply Hd. exact Hx.
Qed.

(* the three translated parts of birth_death_tree in the order of the source (event loop; pruning
   of the extinct tips; suppress_unifurcations + taxon assignment), connected through the live
   variables the translator cut them at: tree, extinct_tips / tree, taxon_namespace *)
Definition gen_birth_death_tree_whole (b d sb sd : Q) (N : nat) (ns : list lab) : M (btree * list lab) :=
  bnd (gen_birth_death_tree_loop b d sb sd N ns)
      (fun s => let '(tr, _, dead, _, _, _, _) := s in
                bnd (gen_birth_death_tree_prune tr dead) (fun t1 => gen_birth_death_tree_taxa t1 ns)).

Theorem gen_birth_death_tree_whole_eq : forall cs b d sb sd N ns r, 1 <= N ->
  gen_birth_death_tree_whole b d sb sd N ns r = bd_run true cs (mkBdp b d sb sd N) ns r.
Proof.
  intros cs b d sb sd N ns r HN. unfold gen_birth_death_tree_whole, bd_run.
  unfold bnd. rewrite gen_birth_death_tree_loop_eq by exact HN.
  destruct (bd_loop _ _ _ r) as [st r1| | | |] eqn:El; try reflexivity.
  cbn [smap]. unfold bd_loop_result. cbv beta iota.
  destruct (bd_loop_inv _ (mkBdp b d sb sd N) _ _ _ _ HN (bd_init_inv (mkBdp b d sb sd N) HN) El) as [I L].
  unfold bd_finish, bnd.
  rewrite gen_birth_death_tree_prune_eq.
  2:{ apply (inv_nodup _ _ I). }
  2:{ intros x Hx. apply (inv_leaves _ _ I). right. exact Hx. }
  destruct (prune_all (s_dead st) [] (s_tr st) r1) as [t1 r2| | | |] eqn:Ep; try reflexivity.
  destruct (prune_all_spec _ _ _ _ _ _ Ep (inv_nodup _ _ I)) as (_ & N1 & _).
  { intros x Hx. apply leaf_not_inner; [apply (inv_nodup _ _ I)|]. apply (inv_leaves _ _ I). auto. }
  { intros p []. }
  apply gen_birth_death_tree_taxa_eq. exact N1.
Qed.

(* hence the specification of birth_death_tree holds of the translated code *)
Theorem gen_bd_result_spec : forall (cs : bool) b d sb sd N (ns : list lab) (script : list draw)
                                    (t : btree) (ns' : list lab) (r : rs),
  1 <= N ->
  gen_birth_death_tree_whole b d sb sd N ns (script, []) = Done (t, ns') r ->
  length (leaf_ids t) = N /\
  (forall s, In s (subtrees t) -> length (b_kids s) = 0 \/ length (b_kids s) = 2) /\
  NoDup (ids t) /\
  (exists D, forall x q, In (x, q) (depths t) -> q == D)%Q /\
  (forall x, In x (leaf_taxa t) -> exists i, x = Some i /\ i < length ns') /\
  NoDup (leaf_taxa t) /\
  (exists extra, ns' = ns ++ extra).
Proof.
  intros cs b d sb sd N ns script t ns' r HN H.
  rewrite (gen_birth_death_tree_whole_eq cs) in H by exact HN.
  exact (bd_result_spec_full cs (mkBdp b d sb sd N) ns script t ns' r HN H).
Qed.
