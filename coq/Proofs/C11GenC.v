(* C11: translated methods = model - part C: TreeList + / [] / []=, whole-list taxon management, Tree-level ops *)
From Coq Require Import String.
From Coq Require Import List Bool Arith ZArith Lia.
From DV Require Import Model.PyPrims Model.C11Model Model.C11Prims Gen.Containers Proofs.C11Base Proofs.C11GenA Proofs.C11GenB.
Import ListNotations.
Open Scope nat_scope.

Section WithLower.
Variable lower : lbl -> lbl.

(* ---- frames of the cloning functions ---- *)
Lemma clone_memo_objs : forall n ms st T L M D memo,
  clone_memo lower (with_objs st T L M D) n ms memo
  = (with_objs (fst (clone_memo lower st n ms memo)) T L M D, snd (clone_memo lower st n ms memo)).
Proof.
  intros n ms. induction ms as [|x r IH]; intros st T L M D memo; cbn [clone_memo]; [reflexivity|].
  change (label (with_objs st T L M D) x) with (label st x). change (ns_cs (with_objs st T L M D) n) with (ns_cs st n).
  rewrite require_taxon_objs. destruct (require_taxon lower st n (label st x) (ns_cs st n)) as [s1 t]. cbn [fst snd].
  apply IH.
Qed.

Lemma clone_refs_objs : forall refs st T L M D memo,
  clone_refs (with_objs st T L M D) refs memo
  = let '(s1, r, m) := clone_refs st refs memo in (with_objs s1 T L M D, r, m).
Proof.
  induction refs as [|x r IH]; intros st T L M D memo; cbn [clone_refs]; [reflexivity|].
  destruct (alookup x memo) as [t|].
  - rewrite IH. destruct (clone_refs st r memo) as [[a b] c]. reflexivity.
  - change (label (with_objs st T L M D) x) with (label st x).
    change (alloc_taxon (with_objs st T L M D) (label st x))
      with (with_objs (fst (alloc_taxon st (label st x))) T L M D, snd (alloc_taxon st (label st x))).
    destruct (alloc_taxon st (label st x)) as [s1 t]. cbn [fst snd]. rewrite IH.
    destruct (clone_refs s1 r ((x, t) :: memo)) as [[a b] c]. reflexivity.
Qed.

Lemma clone_tree_frame : forall st tr n,
  s_trees (fst (clone_tree lower st tr n)) = s_trees st ++ [gettree (fst (clone_tree lower st tr n)) (length (s_trees st))]
  /\ s_lists (fst (clone_tree lower st tr n)) = s_lists st
  /\ snd (clone_tree lower st tr n) = length (s_trees st).
Proof.
  intros st tr n. unfold clone_tree.
  assert (H1 : exists s1 memo, (if Nat.eqb (t_ns (gettree st tr)) n then (st, map (fun x : oid => (x, x)) (members st (t_ns (gettree st tr))))
                     else clone_memo lower st n (members st (t_ns (gettree st tr))) []) = (s1, memo)
               /\ s_trees s1 = s_trees st /\ s_lists s1 = s_lists st).
  { destruct (Nat.eqb (t_ns (gettree st tr)) n).
    - eexists _, _. split; [reflexivity|]. split; reflexivity.
    - pose proof (clone_memo_objs n (members st (t_ns (gettree st tr))) st (s_trees st) (s_lists st) (s_mats st) (s_dss st) []) as Q.
      rewrite with_objs_id in Q. destruct (clone_memo lower st n (members st (t_ns (gettree st tr))) []) as [s1 memo].
      cbn [fst snd] in Q. injection Q as Q. eexists _, _. split; [reflexivity|]. rewrite Q. split; reflexivity. }
  destruct H1 as [s1 [memo [E [T1 L1]]]]. rewrite E.
  pose proof (clone_refs_objs (t_refs (gettree st tr)) s1 (s_trees s1) (s_lists s1) (s_mats s1) (s_dss s1) memo) as Q.
  rewrite with_objs_id in Q. destruct (clone_refs s1 (t_refs (gettree st tr)) memo) as [[s2 refs'] m2]. injection Q as Q.
  cbn [alloc_tree fst snd]. simpl. rewrite Q. simpl. rewrite T1, L1. split; [|split; reflexivity].
  unfold gettree. simpl. rewrite app_nth2 by lia. rewrite Nat.sub_diag. reflexivity.
Qed.

Lemma clone_push_all_len : forall trs st l,
  length (s_trees st) <= length (s_trees (clone_push_all lower st l trs))
  /\ length (s_lists (clone_push_all lower st l trs)) = length (s_lists st).
Proof.
  induction trs as [|tr r IH]; intros st l; cbn [clone_push_all]; [split; [lia | reflexivity]|].
  destruct (clone_tree_frame st tr (l_ns (getlist st l))) as [T [L _]].
  destruct (clone_tree lower st tr (l_ns (getlist st l))) as [st1 c]. cbn [fst] in *.
  destruct (IH (list_push st1 l c) l) as [A B]. split.
  - assert (E : length (s_trees (list_push st1 l c)) = S (length (s_trees st))).
    { change (s_trees (list_push st1 l c)) with (s_trees st1). rewrite T, app_length. simpl. lia. }
    lia.
  - rewrite B. unfold list_push. simpl. rewrite upd_length, L. reflexivity.
Qed.

Lemma append_all_len : forall ts st l,
  length (s_trees (append_all lower st l ts)) = length (s_trees st)
  /\ length (s_lists (append_all lower st l ts)) = length (s_lists st).
Proof.
  induction ts as [|tr r IH]; intros st l; cbn [append_all]; [split; reflexivity|].
  destruct (IH (fst (append_tree lower st l tr (SMigrate true))) l) as [A B]. rewrite A, B.
  split; [apply append_tree_len|]. unfold append_tree.
  destruct (import_tree_len lower st (l_ns (getlist st l)) tr (SMigrate true)) as [_ L].
  destruct (import_tree lower st (l_ns (getlist st l)) tr (SMigrate true)) as [s1 ok]. cbn [fst] in *.
  destruct ok; cbn [fst]; [|rewrite L; reflexivity]. unfold list_push. simpl. rewrite upd_length, L. reflexivity.
Qed.

Lemma extend_len : forall st l s s1,
  extend lower st l s = Some s1 ->
  length (s_trees st) <= length (s_trees s1) /\ length (s_lists s1) = length (s_lists st).
Proof.
  intros st l s s1 E. unfold extend in E. destruct s as [l2|ts].
  - destruct (Nat.eqb l2 l); [discriminate|]. injection E as E. subst. apply clone_push_all_len.
  - injection E as E. subst. destruct (append_all_len ts st l) as [A B]. split; [lia | exact B].
Qed.

Lemma valid_src_mono : forall st st' s,
  valid_src st s = true -> length (s_trees st) <= length (s_trees st') -> length (s_lists st) <= length (s_lists st') ->
  valid_src st' s = true.
Proof.
  intros st st' s V T L. destruct s as [l2|ts]; cbn [valid_src] in *.
  - unfold valid_list in *. apply Nat.ltb_lt. apply Nat.ltb_lt in V. lia.
  - apply forallb_forall. intros x Hx. pose proof (forallb_In _ _ _ x V Hx) as Q. unfold valid_tree in *.
    apply Nat.ltb_lt. apply Nat.ltb_lt in Q. lia.
Qed.

(* ---- TreeList.__add__ ---- *)
Theorem step_AddOp_gen : forall st l s,
  valid_list st l && valid_src st s = true ->
  step lower st (AddOp l s) = obs_id (py_TreeList___add__ lower st l s).
Proof.
  intros st l s V. cbn [step]. rewrite V. apply andb_true_iff in V. destruct V as [Vl Vs].
  unfold py_TreeList___add__, new_treelist.
  destruct (alloc_list st (mkTL (l_ns (getlist st l)) [])) as [st1 nl] eqn:A. cbn [bindR].
  assert (T1 : s_trees st1 = s_trees st) by (unfold alloc_list in A; injection A as A1 A2; subst; reflexivity).
  assert (L1 : length (s_lists st1) = S (length (s_lists st)))
    by (unfold alloc_list in A; injection A as A1 A2; subst; simpl; rewrite app_length; simpl; lia).
  unfold py_TreeList___iadd__ at 1. rewrite gen_extend by (cbn [valid_src]; unfold valid_list in *; apply Nat.ltb_lt; apply Nat.ltb_lt in Vl; lia).
  destruct (extend lower st1 nl (SrcList l)) as [st2|] eqn:E1; [|reflexivity]. cbn [bindR].
  destruct (extend_len _ _ _ _ E1) as [T2 L2].
  unfold py_TreeList___iadd__. rewrite gen_extend by (eapply valid_src_mono; [exact Vs | rewrite <- T1; exact T2 | lia]).
  destruct (extend lower st2 nl s) as [st3|]; reflexivity.
Qed.

(* ---- TreeList.__setitem__ ---- *)
Lemma import_all_for_each : forall (ts : list oid) st l n,
  (forall tr, In tr ts -> tr < length (s_trees st)) -> l_ns (getlist st l) = n ->
  for_each ts (fun stb (x : oid) (_ : unit) =>
                 bindR (py_TreeList__import_tree_to_taxon_namespace lower stb l x "migrate"%string None) (fun s r => (s, Ok tt))) st tt
  = (import_all lower st n ts, Ok tt).
Proof.
  induction ts as [|tr r IH]; intros st l n V N; cbn [for_each import_all]; [reflexivity|].
  rewrite gen_import_migrate by (apply V; left; reflexivity). cbn [kw_default bindR]. rewrite N.
  destruct (import_tree_len lower st n tr (SMigrate true)) as [TL LL].
  apply IH.
  - intros x Hx. rewrite TL. apply V. right. exact Hx.
  - unfold getlist. rewrite LL. exact N.
Qed.

Lemma clone_all_for_each : forall trs st n acc,
  for_each trs (fun stb x (tt_ : list oid) =>
                  bindR (py_Tree__clone_from lower stb tt x (Some n)) (fun s r => let tt1 := tt_ ++ [r] in (s, Ok tt1))) st acc
  = (fst (clone_all lower st n trs acc), Ok (snd (clone_all lower st n trs acc))).
Proof.
  induction trs as [|tr r IH]; intros st n acc; cbn [for_each clone_all]; [reflexivity|].
  rewrite gen_Tree_clone_from. destruct (clone_tree lower st tr n) as [st1 c]. cbn [fst snd bindR]. cbv zeta. apply IH.
Qed.

Lemma clone_all_lists : forall trs st n acc, s_lists (fst (clone_all lower st n trs acc)) = s_lists st.
Proof.
  induction trs as [|tr r IH]; intros st n acc; cbn [clone_all]; [reflexivity|].
  destruct (clone_tree_frame st tr n) as [_ [L _]]. destruct (clone_tree lower st tr n) as [st1 c]. cbn [fst] in L.
  rewrite IH. exact L.
Qed.

Theorem step_SetSlice_gen : forall st l a b s,
  valid_list st l && valid_src st s = true ->
  step lower st (SetSlice l a b s) = obs_unit (py_TreeList___setitem__ lower st l (IdxSlice a b) (0, s)).
Proof.
  intros st l a b s V. cbn [step]. rewrite V. apply andb_true_iff in V. destruct V as [Vl Vs].
  unfold py_TreeList___setitem__. cbn [snd fst]. destruct s as [l2|ts].
  - (* the loop reads self.taxon_namespace in every iteration; it does not change while cloning *)
    assert (H : forall trs st0 acc, s_lists st0 = s_lists st ->
              for_each trs (fun stb x (v : list oid) =>
                 bindR (py_Tree__clone_from lower stb tt x (Some (l_ns (getlist stb l)))) (fun s r => let v1 := v ++ [r] in (s, Ok v1))) st0 acc
              = (fst (clone_all lower st0 (l_ns (getlist st l)) trs acc), Ok (snd (clone_all lower st0 (l_ns (getlist st l)) trs acc)))).
    { induction trs as [|tr r IH]; intros st0 acc L0; cbn [for_each clone_all]; [reflexivity|].
      assert (N : l_ns (getlist st0 l) = l_ns (getlist st l)) by (unfold getlist; rewrite L0; reflexivity).
      rewrite N, gen_Tree_clone_from. destruct (clone_tree_frame st0 tr (l_ns (getlist st l))) as [_ [L1 _]].
      destruct (clone_tree lower st0 tr (l_ns (getlist st l))) as [st1 c]. cbn [fst snd bindR] in *. cbv zeta.
      apply IH. congruence. }
    rewrite (H _ st [] eq_refl). destruct (clone_all lower st (l_ns (getlist st l)) (l_trees (getlist st l2)) []) as [st1 v].
    cbn [fst snd bindR]. unfold py_list_setslice, set_list_trees, obs_unit. cbn [fst snd out_of].
    destruct (slice_bounds (length (l_trees (getlist st1 l))) a b). reflexivity.
  - rewrite (import_all_for_each ts st l (l_ns (getlist st l))); [| |reflexivity].
    + cbn [bindR]. unfold py_list_setslice, set_list_trees, obs_unit. cbn [fst snd out_of].
      destruct (slice_bounds (length (l_trees (getlist (import_all lower st (l_ns (getlist st l)) ts) l))) a b). reflexivity.
    + intros tr Htr. cbn [valid_src] in Vs. apply ltb_lt'. apply (forallb_In _ _ _ tr Vs Htr).
Qed.

Theorem step_SetItem_gen : forall st l i tr,
  valid_list st l && valid_tree st tr = true ->
  step lower st (SetItem l i tr) = obs_unit (py_TreeList___setitem__ lower st l (IdxInt i) (tr, SrcTrees [])).
Proof.
  intros st l i tr V. cbn [step]. rewrite V. apply andb_true_iff in V. destruct V as [_ Vt]. apply ltb_lt' in Vt.
  unfold py_TreeList___setitem__. cbn [fst snd]. rewrite gen_import_migrate by exact Vt. cbn [kw_default bindR].
  set (st1 := fst (import_tree lower st (l_ns (getlist st l)) tr (SMigrate true))).
  unfold py_list_setitem. destruct (norm_index (length (l_trees (getlist st1 l))) i); reflexivity.
Qed.

(* ---- TreeList.__getitem__ (slice) ---- *)
Theorem step_GetSlice_gen : forall st l a b,
  valid_list st l = true ->
  (forall tr, In tr (l_trees (getlist st l)) -> tr < length (s_trees st)) ->
  step lower st (GetSlice l a b) = obs_id (py_TreeList___getitem__ lower st l (IdxSlice a b)).
Proof.
  intros st l a b V W. cbn [step]. rewrite V. unfold py_TreeList___getitem__. cbn [fst snd].
  unfold py_list_getslice, new_treelist.
  destruct (slice_bounds (length (l_trees (getlist st l))) a b) as [lo hi].
  destruct (alloc_list st (mkTL (l_ns (getlist st l)) [])) as [st1 nl] eqn:A. cbn [bindR].
  assert (T1 : s_trees st1 = s_trees st) by (unfold alloc_list in A; injection A as A1 A2; subst; reflexivity).
  assert (H : forall ts s0, (forall tr, In tr ts -> tr < length (s_trees s0)) ->
              for_each ts (fun st_ a_ (_ : unit) => py_TreeList_append lower st_ nl a_ "migrate"%string None) s0 tt
              = (append_all lower s0 nl ts, Ok tt)).
  { induction ts as [|tr r IH]; intros s0 V0; cbn [for_each append_all]; [reflexivity|].
    rewrite gen_append_default by (apply V0; left; reflexivity). cbn [bindR]. apply IH.
    intros x Hx. rewrite append_tree_len. apply V0. right. exact Hx. }
  rewrite H; [reflexivity|]. intros tr Htr. rewrite T1. apply W. eapply In_slice_get. exact Htr.
Qed.

End WithLower.
