(* C08 - returned node lists, retain / label variants, prune_subtree, agreement of the variants. *)
From Coq Require Import ZArith List Bool Lia.
From DV Require Import Model.PyPrims Model.Tree Model.C08Model Proofs.C08Base Proofs.C08InPlace Proofs.C08Prune
     Proofs.C08Extract Proofs.C08Spec.
Import ListNotations.
Open Scope Z_scope.

(* ---------------------------------------------------------------------------------------- *)
(* the list of removed nodes                                                                *)
(* ---------------------------------------------------------------------------------------- *)

Lemma NoDup_map_filter {A B} (f : A -> B) (q : A -> bool) l : NoDup (map f l) -> NoDup (map f (filter q l)).
Proof.
  induction l as [|a r IH]; simpl; intro H; [constructor|]. inversion H as [|? ? Hn Hr]; subst.
  destruct (q a); [|exact (IH Hr)]. simpl. constructor; [|exact (IH Hr)].
  intro Hi. apply Hn. apply in_map_iff in Hi. destruct Hi as [y [E Hy]]. apply filter_In in Hy.
  apply in_map_iff. exists y. split; [exact E | exact (proj1 Hy)].
Qed.

Lemma leaf_ids_sub t a : In a (leaf_ids t) -> In a (ids t).
Proof.
  unfold leaf_ids. intro H. apply in_map_iff in H. destruct H as [n [<- Hn]].
  apply preorder_in_ids. exact (proj1 (leaves_in_preorder t n Hn)).
Qed.

Lemma NoDup_leaf_ids : forall t, NoDup (ids t) -> NoDup (leaf_ids t).
Proof.
  induction t as [i x l e ks IH] using tree_ind'. intro Hnd.
  destruct ks as [|k r]; [unfold leaf_ids; simpl; constructor; [intros [] | constructor]|].
  rewrite leaf_ids_node. destruct (NoDup_ids_kids _ _ _ _ _ Hnd) as [Hk _]. clear Hnd.
  revert IH Hk. generalize (k :: r). intro F. induction F as [|a F IHF]; intros IH Hk; [constructor|].
  inversion IH as [|? ? Pa PF]; subst. rewrite idsF_cons in Hk. simpl flat_map.
  apply NoDup_app_intro.
  - apply Pa. exact (NoDup_app_l _ _ Hk).
  - apply IHF; [exact PF | exact (NoDup_app_r _ _ Hk)].
  - intros y H1 H2. apply leaf_ids_sub in H1. apply in_flat_map in H2. destruct H2 as [c [Hc H2]].
    apply leaf_ids_sub in H2. apply (NoDup_app_disj _ _ y Hk H1). unfold idsF. apply in_flat_map. exists c. split; assumption.
Qed.

Lemma NoDup_rem_of bad t : NoDup (ids t) -> NoDup (rem_of bad t).
Proof. intro H. unfold rem_of. apply NoDup_map_filter. exact (NoDup_leaf_ids t H). Qed.

Lemma rmQ_keeps q : (forall m, q m = true -> is_leaf m = true) ->
  forall t n, In n (preorder t) -> q n = false -> In (t_id n) (idsF (rmQ q t)).
Proof.
  intro Hq. induction t as [i x l e ks IH] using tree_ind'. intros n Hn Hqn.
  rewrite preorder_T in Hn. simpl rmQ. destruct Hn as [<-|Hn].
  - rewrite Hqn, idsF_single, ids_T. left. reflexivity.
  - apply in_flat_map in Hn. destruct Hn as [k [Hk Hn]].
    destruct (q (T i x l e ks)) eqn:E.
    + apply Hq in E. destruct ks; [destruct Hk | discriminate E].
    + rewrite idsF_single, ids_T. right. unfold idsF. rewrite flat_map_flat_map. apply in_flat_map. exists k.
      split; [exact Hk|]. rewrite Forall_forall in IH. exact (IH k Hk n Hn Hqn).
Qed.

Lemma badleaf_is_leaf bad m : badleaf bad m = true -> is_leaf m = true.
Proof. unfold badleaf. intro H. apply andb_true_iff in H. exact (proj1 H). Qed.

Lemma ids_in_iff' t a : In a (ids t) <-> exists n, In n (preorder t) /\ t_id n = a.
Proof. unfold ids. rewrite in_map_iff. split; intros [n [H1 H2]]; exists n; tauto. Qed.

Section Pass.
  Variables (bad : npred) (t : tree).
  Hypothesis Hnd : NoDup (ids t).
  Hypothesis Hb : badleaf bad t = false.
  Let t1 := set_kids t (flat_map (rmQ (badleaf bad)) (t_kids t)).

  Lemma pass_sub a : In a (ids t1) -> In a (ids t).
  Proof.
    unfold t1. rewrite ids_set_kids, (ids_as_kids t). intros [H|H]; [left; exact H | right].
    exact (rmQF_ids_sub _ _ _ H).
  Qed.

  Lemma in_rem_node a : In a (rem_of bad t) -> exists m, In m (preorder t) /\ t_id m = a /\ badleaf bad m = true.
  Proof.
    unfold rem_of. intro H. apply in_map_iff in H. destruct H as [m [E Hm]]. apply filter_In in Hm.
    destruct Hm as [Hm Hbm]. apply leaves_in_preorder in Hm. destruct Hm as [Hm Hl].
    exists m. split; [exact Hm|]. split; [exact E|]. unfold badleaf. rewrite Hl, Hbm. reflexivity.
  Qed.

  Lemma pass_removed a : In a (rem_of bad t) -> In a (ids t) /\ ~ In a (ids t1).
  Proof.
    intro H. destruct (in_rem_node a H) as [m [Hm [E Hbm]]]. split; [rewrite <- E; apply preorder_in_ids; exact Hm|].
    unfold t1. rewrite ids_set_kids. intros [Hr|Hr].
    - assert (m = t) by (apply (node_by_id t); [exact Hnd | exact Hm | apply preorder_self | rewrite E; symmetry; exact Hr]).
      subst m. rewrite Hb in Hbm. discriminate Hbm.
    - unfold idsF in Hr. rewrite flat_map_flat_map in Hr. apply in_flat_map in Hr. destruct Hr as [k [Hk Hr]].
      destruct (rmQ_ids _ _ _ Hr) as [n [Hn [En Hq]]].
      assert (Hnt : In n (preorder t)).
      { destruct t as [i x l e ks]. simpl in Hk. apply (preorder_trans _ k); [apply kid_in_preorder; exact Hk | exact Hn]. }
      assert (m = n) by (apply (node_by_id t); [exact Hnd | exact Hm | exact Hnt | rewrite E, En; reflexivity]).
      subst m. rewrite Hq in Hbm. discriminate Hbm.
  Qed.

  Lemma pass_kept a : In a (ids t) -> ~ In a (rem_of bad t) -> In a (ids t1).
  Proof.
    intros Ha Hr. unfold t1. rewrite ids_set_kids. rewrite (ids_as_kids t) in Ha. destruct Ha as [Ha|Ha]; [left; exact Ha|right].
    unfold idsF in Ha. apply in_flat_map in Ha. destruct Ha as [k [Hk Ha]].
    apply ids_in_iff' in Ha. destruct Ha as [n [Hn En]].
    assert (Hnt : In n (preorder t)).
    { destruct t as [i x l e ks]. simpl in Hk. apply (preorder_trans _ k); [apply kid_in_preorder; exact Hk | exact Hn]. }
    assert (Hq : badleaf bad n = false).
    { rewrite <- (rem_set_is_badleaf bad t Hnd n Hnt). unfold in_set. apply memz_false. rewrite En. exact Hr. }
    unfold idsF. rewrite flat_map_flat_map. apply in_flat_map. exists k. split; [exact Hk|].
    rewrite <- En. apply (rmQ_keeps _ (badleaf_is_leaf bad)); assumption.
  Qed.
End Pass.

Lemma pass_none bad t : filter (app_np bad) (leaves t) = [] ->
  flat_map (rmQ (badleaf bad)) (t_kids t) = t_kids t.
Proof.
  intro Hrem.
  rewrite (flat_map_ext_in (rmQ (badleaf bad)) (fun a => [a])); [apply flat_map_singleton|].
  intros a Ha. apply rmQ_none. intros n Hn. unfold badleaf.
  destruct (is_leaf n) eqn:Hl; [|reflexivity]. simpl.
  destruct (app_np bad n) eqn:Hbn; [|reflexivity]. exfalso.
  assert (Hin : In n (filter (app_np bad) (leaves t))).
  { apply filter_In. split; [|exact Hbn]. apply preorder_leaf_in_leaves; [|exact Hl].
    destruct t as [i x l e0 ks]. simpl in Ha. apply (preorder_trans _ a); [apply kid_in_preorder; exact Ha | exact Hn]. }
  rewrite Hrem in Hin. destruct Hin.
Qed.

Lemma lf_loop_removed bad e : forall fuel t acc ret t', NoDup (ids t) ->
  lf_loop bad e true fuel t acc = IOk (ret, t') ->
  exists rem, ret = acc ++ rem /\ NoDup rem /\
              (forall a, In a (ids t') -> In a (ids t)) /\
              (forall a, In a rem <-> In a (ids t) /\ ~ In a (ids t')).
Proof.
  induction fuel as [|fu IH]; intros t acc ret t' Hnd H; [discriminate H|].
  rewrite lf_loop_S, (pass_eq bad e t Hnd) in H.
  destruct (badleaf bad t) eqn:Hb; [discriminate H|].
  destruct (is_nil (rem_of bad t)) eqn:Hn; simpl orb in H; cbv iota in H.
  - inversion H; subst ret t'. clear H. apply is_nil_true in Hn. exists []. rewrite Hn.
    assert (Hf : filter (app_np bad) (leaves t) = []).
    { unfold rem_of in Hn. destruct (filter (app_np bad) (leaves t)); [reflexivity | discriminate Hn]. }
    rewrite (pass_none bad t Hf), set_kids_same.
    split; [reflexivity|]. split; [constructor|]. split; [intros a Ha; exact Ha|].
    intro a. split; [intros [] | intros [H1 H2]; exact (H2 H1)].
  - set (t1 := set_kids t (flat_map (rmQ (badleaf bad)) (t_kids t))) in *.
    destruct (IH t1 (acc ++ rem_of bad t) ret t' (NoDup_pass bad t Hnd) H) as [rem2 [E [N2 [S2 I2]]]].
    exists (rem_of bad t ++ rem2). split; [rewrite E, app_assoc; reflexivity|]. split; [|split].
    + apply NoDup_app_intro; [apply NoDup_rem_of; exact Hnd | exact N2|].
      intros a H1 H2'. apply I2 in H2'. destruct (pass_removed bad t Hnd Hb a H1) as [_ Hx]. exact (Hx (proj1 H2')).
    + intros a Ha. apply (pass_sub bad t a). apply S2. exact Ha.
    + intro a. rewrite in_app_iff. split.
      * intros [H1|H2'].
        -- destruct (pass_removed bad t Hnd Hb a H1) as [Hx Hy]. split; [exact Hx|]. intro Hz. apply Hy. apply S2. exact Hz.
        -- apply I2 in H2'. split; [apply (pass_sub bad t a); exact (proj1 H2') | exact (proj2 H2')].
      * intros [Ha Hna]. destruct (in_dec Z.eq_dec a (rem_of bad t)) as [Hi|Hni]; [left; exact Hi|right].
        apply I2. split; [apply (pass_kept bad t Hnd Hb a Ha Hni) | exact Hna].
Qed.

(* filter_leaf_nodes: the returned list does not depend on the two flags, has no duplicates and lists
   exactly the nodes of the tree that are gone after the loop (before any unifurcation is suppressed) *)
Theorem filter_removed_list ok upd_bip sup t rooted ret t' r' : NoDup (ids t) ->
  filter_leaf_nodes ok true upd_bip sup (t, rooted) = IOk (ret, t', r') ->
  exists t0, filter_leaf_nodes ok true false false (t, rooted) = IOk (ret, t0, rooted) /\
             restrictG false (ok_pred ok) np_true (ok_pred ok) t = Some t0 /\
             NoDup ret /\ (forall a, In a ret <-> In a (ids t) /\ ~ In a (ids t0)).
Proof.
  intros Hnd H. unfold filter_leaf_nodes in *.
  destruct (lf_loop (fun i _ => negb (memz i ok)) ESeedDel true (S (size t)) t []) as [[rem t0]| |] eqn:L; try discriminate H.
  rewrite finish_eq in H. inversion H; subst ret. clear H.
  destruct (lf_loop_removed _ _ _ _ _ _ _ Hnd L) as [rem2 [E [N [_ I]]]]. simpl in E. subst rem2.
  exists t0. split; [reflexivity|]. split; [|split; assumption].
  pose proof (loop_su_restrict (fun i _ => negb (memz i ok)) ESeedDel false t Hnd) as LS.
  rewrite (restrictG_ext false (nnot (fun i _ => negb (memz i ok))) np_true (nnot (fun i _ => negb (memz i ok)))
                         (ok_pred ok) np_true (ok_pred ok)) in LS.
  2:{ intros n _. unfold nnot, ok_pred. rewrite negb_involutive. repeat split. }
  destruct (restrictG false (ok_pred ok) np_true (ok_pred ok) t) as [r|].
  - destruct LS as [[rem' Hrem'] Hr]. rewrite L in Hrem'. inversion Hrem'; subst. reflexivity.
  - rewrite L in LS. discriminate LS.
Qed.

Theorem plwt_removed_list upd_bip sup t rooted ret t' r' : NoDup (ids t) ->
  prune_leaves_without_taxa true upd_bip sup (t, rooted) = IOk (ret, t', r') ->
  exists t0, prune_leaves_without_taxa true false false (t, rooted) = IOk (ret, t0, rooted) /\
             restrictG false has_taxon np_true has_taxon t = Some t0 /\
             NoDup ret /\ (forall a, In a ret <-> In a (ids t) /\ ~ In a (ids t0)).
Proof.
  intros Hnd H. unfold prune_leaves_without_taxa in *.
  destruct (lf_loop no_taxon EAttr true (S (size t)) t []) as [[rem t0]| |] eqn:L; try discriminate H.
  rewrite finish_eq in H. inversion H; subst ret. clear H.
  destruct (lf_loop_removed _ _ _ _ _ _ _ Hnd L) as [rem2 [E [N [_ I]]]]. simpl in E. subst rem2.
  exists t0. split; [reflexivity|]. split; [|split; assumption].
  pose proof (loop_su_restrict no_taxon EAttr false t Hnd) as LS.
  rewrite (restrictG_ext false (nnot no_taxon) np_true (nnot no_taxon) has_taxon np_true has_taxon) in LS.
  2:{ intros n _. rewrite !nnot_no_taxon. repeat split. }
  destruct (restrictG false has_taxon np_true has_taxon t) as [r|].
  - destruct LS as [[rem' Hrem'] Hr]. rewrite L in Hrem'. inversion Hrem'; subst. reflexivity.
  - rewrite L in LS. discriminate LS.
Qed.

(* ---------------------------------------------------------------------------------------- *)
(* retain_taxa, the label variants                                                          *)
(* ---------------------------------------------------------------------------------------- *)

Lemma memz_cons x a r : memz x (a :: r) = Z.eqb x a || memz x r.
Proof. reflexivity. Qed.

Lemma memz_filter q x l : memz x (filter q l) = memz x l && q x.
Proof.
  induction l as [|a r IH]; [reflexivity|]. simpl filter. rewrite memz_cons.
  destruct (q a) eqn:Ea.
  - rewrite memz_cons, IH. destruct (Z.eqb_spec x a) as [->|_]; simpl orb; [rewrite Ea; reflexivity | reflexivity].
  - rewrite IH. destruct (Z.eqb_spec x a) as [->|_]; simpl orb; [rewrite Ea, andb_false_r; reflexivity | reflexivity].
Qed.

(* every taxon on a leaf of t is a member of the namespace *)
Definition taxa_in_ns (ns : nspace) (t : tree) : Prop :=
  forall n a, In n (leaves t) -> t_taxon n = Some a -> memz a (map fst ns) = true.

Lemma prune_ext_leaves taxa1 taxa2 upd_bip sup t rooted :
  NoDup (ids t) -> leaf_taxa_only t = true ->
  (forall n a, In n (leaves t) -> t_taxon n = Some a -> memz a taxa1 = memz a taxa2) ->
  prune_taxa taxa1 upd_bip sup true false (t, rooted) = prune_taxa taxa2 upd_bip sup true false (t, rooted).
Proof.
  intros Hnd Hd H. rewrite !prune_taxa_spec; try assumption. unfold restrict.
  rewrite (restrictG_ext_leaves sup np_true np_false (p1_keep true taxa1) (p1_keep true taxa2)); [reflexivity|].
  intros n Hn. unfold p1_keep. destruct (t_taxon n) as [a|] eqn:E; [|reflexivity].
  rewrite (H n a Hn E). reflexivity.
Qed.

Theorem retain_is_prune_complement_thm ns keep pruned upd_bip sup t rooted :
  NoDup (ids t) -> leaf_taxa_only t = true -> taxa_in_ns ns t ->
  (forall n a, In n (leaves t) -> t_taxon n = Some a -> memz a pruned = negb (memz a keep)) ->
  retain_taxa ns keep upd_bip sup (t, rooted) = prune_taxa pruned upd_bip sup true false (t, rooted).
Proof.
  intros Hnd Hd Hns Hc. unfold retain_taxa. apply prune_ext_leaves; try assumption.
  intros n a Hn Ea. rewrite memz_filter, (Hns n a Hn Ea), (Hc n a Hn Ea). reflexivity.
Qed.

(* TaxonNamespace.get_taxa(labels): members whose label matches one of the labels *)
Lemma get_taxa_inner cs lb ns : forall acc x,
  In x (fold_left (fun acc2 (m : Z * Z) =>
                     if lab_match cs (snd m) lb && negb (memz (fst m) acc2) then acc2 ++ [fst m] else acc2) ns acc)
  <-> In x acc \/ exists m, In m ns /\ fst m = x /\ lab_match cs (snd m) lb = true.
Proof.
  induction ns as [|m r IH]; intros acc x; simpl.
  - split; [intro H; left; exact H | intros [H|[m [[] _]]]; exact H].
  - rewrite IH. destruct (lab_match cs (snd m) lb) eqn:El; simpl andb.
    + destruct (memz (fst m) acc) eqn:Em; simpl negb; cbv iota.
      * split.
        -- intros [H|[m' [Hm' H]]]; [left; exact H | right; exists m'; split; [right; exact Hm' | exact H]].
        -- intros [H|[m' [[->|Hm'] [E L]]]]; [left; exact H | | right; exists m'; repeat split; assumption].
           left. rewrite <- E. apply memz_In. exact Em.
      * split.
        -- intros [H|[m' [Hm' H]]].
           ++ apply in_app_or in H. destruct H as [H|[<-|[]]]; [left; exact H|].
              right. exists m. repeat split; [left; reflexivity | exact El].
           ++ right. exists m'. split; [right; exact Hm' | exact H].
        -- intros [H|[m' [[->|Hm'] [E L]]]].
           ++ left. apply in_or_app. left. exact H.
           ++ left. apply in_or_app. right. left. exact E.
           ++ right. exists m'. repeat split; assumption.
    + split.
      * intros [H|[m' [Hm' H]]]; [left; exact H | right; exists m'; split; [right; exact Hm' | exact H]].
      * intros [H|[m' [[->|Hm'] [E L]]]]; [left; exact H | rewrite El in L; discriminate L | right; exists m'; repeat split; assumption].
Qed.

Lemma get_taxa_mem ns cs labels x :
  In x (get_taxa ns cs labels) <-> exists m lb, In m ns /\ fst m = x /\ In lb labels /\ lab_match cs (snd m) lb = true.
Proof.
  unfold get_taxa.
  assert (G : forall acc, In x (fold_left (fun acc lb =>
               fold_left (fun acc2 (m : Z * Z) =>
                            if lab_match cs (snd m) lb && negb (memz (fst m) acc2) then acc2 ++ [fst m] else acc2) ns acc)
               labels acc) <-> In x acc \/ exists m lb, In m ns /\ fst m = x /\ In lb labels /\ lab_match cs (snd m) lb = true).
  { induction labels as [|lb r IH]; intro acc; simpl.
    - split; [intro H; left; exact H | intros [H|[m [lb [_ [_ [[] _]]]]]]; exact H].
    - rewrite IH, get_taxa_inner. split.
      + intros [[H|[m [Hm [E L]]]]|[m [lb' [Hm [E [Hl L]]]]]].
        * left. exact H.
        * right. exists m, lb. repeat split; try assumption. left. reflexivity.
        * right. exists m, lb'. repeat split; try assumption. right. exact Hl.
      + intros [H|[m [lb' [Hm [E [[<-|Hl] L]]]]]].
        * left. left. exact H.
        * left. right. exists m. repeat split; assumption.
        * right. exists m, lb'. repeat split; assumption. }
  rewrite G. split; [intros [[]|H]; exact H | intro H; right; exact H].
Qed.

(* ---------------------------------------------------------------------------------------- *)
(* prune_subtree                                                                            *)
(* ---------------------------------------------------------------------------------------- *)

Definition not_id (id : Z) : npred := fun i _ => negb (Z.eqb i id).

Lemma rmQ_T q i x l e ks :
  rmQ q (T i x l e ks) = if q (T i x l e ks) then [] else [T i x l e (flat_map (rmQ q) ks)].
Proof. reflexivity. Qed.

Lemma in_set1 id i x l e ks : in_set [id] (T i x l e ks) = Z.eqb i id.
Proof. unfold in_set, memz. simpl. apply orb_false_r. Qed.

Lemma rm1_restrict id : forall n,
  rmQ (in_set [id]) n = olist (restrictG false (not_id id) (not_id id) np_true n).
Proof.
  induction n as [i x l e ks IH] using tree_ind'. rewrite rmQ_T, in_set1.
  rewrite (flat_map_ext_in (rmQ (in_set [id])) (fun a => olist (restrictG false (not_id id) (not_id id) np_true a)) ks).
  2:{ rewrite Forall_forall in IH. exact IH. }
  rewrite <- omap_olist.
  destruct ks as [|k r].
  - rewrite restrictG_leaf. unfold not_id. destruct (Z.eqb i id); reflexivity.
  - rewrite restrictG_node. change (not_id id i x) with (negb (Z.eqb i id)). destruct (Z.eqb i id); simpl negb; cbv iota; [reflexivity|].
    generalize (omap_list (restrictG false (not_id id) (not_id id) np_true) (k :: r)). intro A.
    destruct A as [|c [|c2 r2]]; reflexivity.
Qed.

Theorem prune_subtree_spec id upd_bip sup t rooted : NoDup (ids t) -> t_id t <> id ->
  exists r, restrictG sup (not_id id) (not_id id) np_true t = Some r /\
            prune_subtree id upd_bip sup (t, rooted) =
            IOk ([], fst (with_update upd_bip sup rooted r), snd (with_update upd_bip sup rooted r)).
Proof.
  intros Hnd Hne. unfold prune_subtree. destruct (Z.eqb_spec (t_id t) id) as [E|_]; [contradiction|].
  rewrite finish_eq.
  set (t1 := upd_below rm_f id t).
  assert (E1 : rmQ (in_set [id]) t = [t1]).
  { destruct t as [i x l e ks]. rewrite rmQ_T, in_set1. simpl t_id in *.
    destruct (Z.eqb_spec i id) as [E|_]; [contradiction|].
    unfold t1, upd_below, updF. simpl t_kids. simpl set_kids. f_equal. f_equal.
    pose proof (rm_fold [id] ks) as RF. unfold foldF in RF. simpl in RF. symmetry. exact RF. }
  pose proof (rm1_restrict id t) as R0. rewrite E1 in R0.
  destruct (restrictG false (not_id id) (not_id id) np_true t) as [r0|] eqn:Er0; [|discriminate R0].
  simpl in R0. inversion R0; subst r0. clear R0.
  destruct sup.
  - pose proof (su_restrict_gen (not_id id) (not_id id) np_true t) as S. rewrite Er0 in S.
    simpl flat_map in S. rewrite app_nil_r, suL_root in S.
    destruct (restrictG true (not_id id) (not_id id) np_true t) as [r|]; [|discriminate S].
    simpl in S. inversion S; subst r. exists (su_root (set_kids t1 (flat_map suL (t_kids t1)))).
    split; [reflexivity|]. rewrite su_run_eq; [reflexivity|].
    (* ids of t1 are distinct *)
    pose proof (NoDup_rmQ (in_set [id]) t Hnd) as N. rewrite E1, idsF_single in N. exact N.
  - exists t1. split; [exact Er0 | reflexivity].
Qed.
