(* C14 translator tie, main loops of upgma_tree / nj_tree: lemmas about the object heap
   (Model/C14GenObj.v), the nested pool loops, and the tree read off the heap. *)
From Coq Require Import ZArith QArith List Bool Lia.
From DV Require Import Model.PyPrims Model.Tree Model.C14Model Model.C14GenPrims Model.C14GenObj
  Proofs.C14Dict Proofs.C14Pdm Proofs.C14GenBase Proofs.C14Uniq.
Import ListNotations.
Open Scope Z_scope.

(* ---------- rationals in canonical form ---------- *)
Lemma Qred_eq (a b : Q) : (a == b)%Q -> Qred a = Qred b.
Proof. apply Qred_complete. Qed.

Lemma Qlt_le_dec_eq {A} (a b a' b' : Q) (x y : A) : (a == a')%Q -> (b == b')%Q ->
  (if Qlt_le_dec a b then x else y) = (if Qlt_le_dec a' b' then x else y).
Proof.
  intros Ea Eb. destruct (Qlt_le_dec a b) as [H|H]; destruct (Qlt_le_dec a' b') as [H'|H']; try reflexivity; exfalso.
  - rewrite Ea, Eb in H. exact (Qlt_not_le _ _ H H').
  - rewrite <- Ea, <- Eb in H'. exact (Qlt_not_le _ _ H' H).
Qed.

(* ---------- loops over the pool ---------- *)
Lemma py_for_ext {A S} (l : list A) (f g : A -> S -> res S) : (forall x s, In x l -> f x s = g x s) ->
  forall s, py_for l f s = py_for l g s.
Proof.
  induction l as [|x l IH]; intros H s; [reflexivity|]. rewrite !py_for_cons, (H x s (or_introl eq_refl)).
  destruct (g x s); cbn [bind]; try reflexivity. apply IH. intros y s' Hy. apply H. right. exact Hy.
Qed.

Lemma combine_seq_snd {A} (l : list A) n : map snd (combine (map Z.of_nat (seq n (length l))) l) = l.
Proof. revert n. induction l as [|x l IH]; intro n; cbn; [reflexivity|]. rewrite IH. reflexivity. Qed.

(* enumerate when the index is not used *)
Lemma py_for_enumerate {A S} (l : list A) (f : A -> S -> res S) s :
  py_for (py_enumerate l) (fun ix => f (snd ix)) s = py_for l f s.
Proof.
  unfold py_enumerate. generalize 0%nat. revert s. induction l as [|x l IH]; intros s n; [reflexivity|].
  cbn [length seq map combine]. rewrite !py_for_cons. cbn [snd]. destruct (f x s); cbn [bind]; try reflexivity. apply IH.
Qed.

(* for i, x in enumerate(l): for j, y in enumerate(l[i+1:]): body x y *)
Fixpoint pairs_z (l : list Z) : list (Z * Z) :=
  match l with [] => [] | x :: r => map (fun y => (x, y)) r ++ pairs_z r end.

Lemma nested_pairs_from {St} (body : Z -> Z -> St -> res St) (l : list Z) : forall pre cur s, l = pre ++ cur ->
  py_for (combine (map Z.of_nat (seq (length pre) (length cur))) cur)
         (fun ix s => py_for (py_enumerate (py_slice_from l (fst ix + 1))) (fun jy => body (snd ix) (snd jy)) s) s
  = py_for (pairs_z cur) (fun xy => body (fst xy) (snd xy)) s.
Proof.
  intros pre cur. revert pre. induction cur as [|x r IH]; intros pre s E; [reflexivity|].
  cbn [length seq map combine pairs_z]. rewrite py_for_cons, py_for_app. cbn [fst snd].
  rewrite E, py_slice_after, py_for_enumerate.
  assert (M : py_for r (body x) s = py_for (map (fun y => (x, y)) r) (fun xy => body (fst xy) (snd xy)) s).
  { clear. revert s. induction r as [|y r IH]; intro s; [reflexivity|]. cbn [map]. rewrite !py_for_cons. cbn [fst snd].
    destruct (body x y s); cbn [bind]; auto. }
  rewrite <- M. destruct (py_for r (body x) s) as [s1|e|]; cbn [bind]; try reflexivity.
  replace (S (length pre)) with (length (pre ++ [x])) by (rewrite app_length; cbn [length]; lia).
  rewrite <- E. apply IH. rewrite <- app_assoc. exact E.
Qed.

Lemma nested_pairs {St} (body : Z -> Z -> St -> res St) (l : list Z) s :
  py_for (py_enumerate l)
         (fun ix s => py_for (py_enumerate (py_slice_from l (fst ix + 1))) (fun jy => body (snd ix) (snd jy)) s) s
  = py_for (pairs_z l) (fun xy => body (fst xy) (snd xy)) s.
Proof. exact (nested_pairs_from body l [] l s eq_refl). Qed.

(* ... enumerate(l[:-1]): the last element has nothing after it *)
Lemma py_slice_all {A} (l : list A) : py_slice_from l (Z.of_nat (length l)) = [].
Proof. unfold py_slice_from. rewrite Nat2Z.id. apply skipn_all. Qed.

Lemma combine_app_eq {A B} (a1 a2 : list A) (b1 b2 : list B) : length a1 = length b1 ->
  combine (a1 ++ a2) (b1 ++ b2) = combine a1 b1 ++ combine a2 b2.
Proof.
  revert b1. induction a1 as [|x a1 IH]; intros [|y b1] E; try discriminate; [reflexivity|].
  cbn. f_equal. apply IH. cbn in E. lia.
Qed.

Lemma enumerate_snoc {A} (l : list A) x :
  py_enumerate (l ++ [x]) = py_enumerate l ++ [(Z.of_nat (length l), x)].
Proof.
  unfold py_enumerate. rewrite app_length. cbn [length]. rewrite Nat.add_1_r, seq_S, map_app. cbn [map Nat.add].
  rewrite combine_app_eq by (rewrite map_length, seq_length; reflexivity). reflexivity.
Qed.

Lemma nested_pairs_drop_last {St} (body : Z -> Z -> St -> res St) (l : list Z) s :
  py_for (py_enumerate (py_drop_last l))
         (fun ix s => py_for (py_enumerate (py_slice_from l (fst ix + 1))) (fun jy => body (snd ix) (snd jy)) s) s
  = py_for (pairs_z l) (fun xy => body (fst xy) (snd xy)) s.
Proof.
  rewrite <- nested_pairs. destruct l as [|a l0]; [reflexivity|].
  destruct (@exists_last _ (a :: l0)) as [l' [x E]]; [discriminate|]. rewrite E.
  unfold py_drop_last. rewrite removelast_last, enumerate_snoc, py_for_app.
  destruct (py_for (py_enumerate l') _ s) as [s1|e|]; cbn [bind]; try reflexivity.
  rewrite py_for_cons. cbn [fst].
  replace (Z.of_nat (length l') + 1) with (Z.of_nat (length (l' ++ [x]))) by (rewrite app_length; cbn [length]; lia).
  rewrite py_slice_all. reflexivity.
Qed.

Lemma pairs_z_map {A} (f : A -> Z) (l : list A) : pairs_z (map f l) = map (fun ab => (f (fst ab), f (snd ab))) (pairs_of l).
Proof.
  induction l as [|x r IH]; [reflexivity|]. cbn [map pairs_z pairs_of]. rewrite map_app, IH, !map_map. reflexivity.
Qed.

(* node_pool.remove *)
Lemma py_list_remove_map {A} (idf : A -> Z) i (l : list A) : In i (map idf l) ->
  py_list_remove i (map idf l) = Ok (map idf (remove_id idf i l)).
Proof.
  unfold remove_id. induction l as [|y l IH]; [intros []|]. cbn [map py_list_remove]. intro H.
  destruct (Z.eqb (idf y) i) eqn:E; [reflexivity|].
  destruct H as [H|H]; [apply Z.eqb_neq in E; congruence|]. rewrite (IH H). reflexivity.
Qed.

(* ---------- the object heap ---------- *)
Definition hget (i : Z) (h : oheap) : option nobj := dget i (h_objs h).

Lemma o_get_some i h o : hget i h = Some o -> o_get i h = Ok o.
Proof. unfold o_get, hget. intros ->. reflexivity. Qed.

Lemma hget_put i o h k : hget k (o_put i o h) = if Z.eqb k i then Some o else hget k h.
Proof. unfold hget, o_put. cbn [h_objs]. apply dget_dset. Qed.

Lemma h_next_put i o h : h_next (o_put i o h) = h_next h.
Proof. reflexivity. Qed.

Definition heap_ok (h : oheap) : Prop := forall k o, hget k h = Some o -> k < h_next h.

Lemma hget_factory h k : heap_ok h ->
  hget k (snd (py_node_factory h)) = if Z.eqb k (h_next h) then Some (mkN None None [] None None None) else hget k h.
Proof.
  intro OK. unfold hget, py_node_factory. cbn [snd h_objs]. rewrite dget_app.
  destruct (dget k (h_objs h)) as [o|] eqn:E.
  - pose proof (OK k o E) as L. destruct (Z.eqb_spec k (h_next h)); [lia | reflexivity].
  - cbn [dget]. reflexivity.
Qed.

Lemma heap_ok_factory h : heap_ok h -> heap_ok (snd (py_node_factory h)).
Proof.
  intros OK k o. rewrite hget_factory by exact OK. cbn [py_node_factory snd h_next].
  destruct (Z.eqb_spec k (h_next h)); [intros _; lia|]. intro H. pose proof (OK k o H). lia.
Qed.

Lemma heap_ok_put i o h : heap_ok h -> i < h_next h -> heap_ok (o_put i o h).
Proof.
  intros OK L k o'. rewrite hget_put, h_next_put. destruct (Z.eqb_spec k i); [intros _; lia | apply OK].
Qed.

(* ---------- the tree hanging from a node ---------- *)
Fixpoint Rep (h : oheap) (t : qtree) : Prop :=
  match t with
  | QT i x l ks =>
    (exists o, hget i h = Some o /\ o_taxon o = x /\ o_len o = l /\ o_kids o = map q_id ks) /\
    (fix all (ks : list qtree) : Prop := match ks with [] => True | k :: r => Rep h k /\ all r end) ks
  end.

Lemma Rep_eq h i x l ks :
  Rep h (QT i x l ks) <->
  (exists o, hget i h = Some o /\ o_taxon o = x /\ o_len o = l /\ o_kids o = map q_id ks) /\ Forall (Rep h) ks.
Proof.
  cbn [Rep]. split; intros [A B]; (split; [exact A|]).
  - clear A. induction ks as [|k r IH]; [constructor|]. destruct B as [B1 B2]. constructor; auto.
  - clear A. induction B as [|k r Hk _ IH]; [exact I | split; assumption].
Qed.

Fixpoint qids (t : qtree) : list Z :=
  match t with QT i _ _ ks => i :: (fix go (ks : list qtree) : list Z := match ks with [] => [] | k :: r => qids k ++ go r end) ks end.

Lemma qids_eq i x l ks : qids (QT i x l ks) = i :: flat_map qids ks.
Proof. reflexivity. Qed.

Lemma q_id_in_qids t : In (q_id t) (qids t).
Proof. destruct t. rewrite qids_eq. left. reflexivity. Qed.

Definition same_struct (o o' : nobj) : Prop :=
  o_taxon o = o_taxon o' /\ o_len o = o_len o' /\ o_kids o = o_kids o'.

(* h' keeps the structural attributes of the nodes in I *)
Definition keeps (I : list Z) (h h' : oheap) : Prop :=
  forall i o, In i I -> hget i h = Some o -> exists o', hget i h' = Some o' /\ same_struct o o'.

Lemma Rep_keeps h h' : forall t, Rep h t -> keeps (qids t) h h' -> Rep h' t.
Proof.
  induction t as [i x l ks IH] using qtree_ind'. intros R K. rewrite Rep_eq in *. destruct R as [[o [Ho [Hx [Hl Hk]]]] Rk].
  rewrite qids_eq in K. split.
  - destruct (K i o (or_introl eq_refl) Ho) as [o' [Ho' [S1 [S2 S3]]]]. exists o'. repeat split; congruence.
  - rewrite Forall_forall in *. intros k Hin. apply IH; [exact Hin | apply Rk; exact Hin|].
    intros j oj Hj. apply K. right. apply in_flat_map. exists k. split; assumption.
Qed.

Lemma keeps_refl I h : keeps I h h.
Proof. intros i o _ H. exists o. split; [exact H | repeat split]. Qed.

Lemma keeps_trans I h1 h2 h3 : keeps I h1 h2 -> keeps I h2 h3 -> keeps I h1 h3.
Proof.
  intros A B i o Hi H. destruct (A i o Hi H) as [o2 [H2 [S1 [S2 S3]]]]. destruct (B i o2 Hi H2) as [o3 [H3 [T1 [T2 T3]]]].
  exists o3. split; [exact H3|]. repeat split; congruence.
Qed.

Lemma keeps_sub I J h h' : incl I J -> keeps J h h' -> keeps I h h'.
Proof. intros S K i o Hi. apply K. apply S. exact Hi. Qed.

Lemma rebuild_Rep h : forall t fuel, Rep h t -> (qdepth t <= fuel)%nat -> rebuild fuel h (q_id t) = Ok t.
Proof.
  induction t as [i x l ks IH] using qtree_ind'. intros fuel R D. rewrite Rep_eq in R. destruct R as [[o [Ho [Hx [Hl Hk]]]] Rk].
  destruct fuel as [|f]; [cbn in D; lia|]. cbn [rebuild q_id]. rewrite (o_get_some _ _ _ Ho). cbn [bind]. rewrite Hk.
  assert (E : res_map (rebuild f h) (map q_id ks) = Ok ks).
  { cbn [qdepth] in D. apply le_S_n in D. clear Hk. induction ks as [|k r IHr]; [reflexivity|].
    inversion IH as [|? ? Hk Hr]; subst. inversion Rk as [|? ? Rk1 Rk2]; subst. cbn [map res_map].
    rewrite (Hk f Rk1) by lia. cbn [bind]. rewrite IHr; [reflexivity | assumption | assumption | lia]. }
  rewrite E. cbn [bind]. rewrite Hx, Hl. reflexivity.
Qed.
