(* C19 translator tie, part 3: fill, pack, export_character_indices, export_character_subset *)
From Coq Require Import ZArith List Bool Lia.
From DV Require Import Model.PyPrims Model.C19Model Model.C19Prims Gen.CharMatrix.
From DV Require Import Proofs.C19Alist Proofs.C19Rows Proofs.C19Cols Proofs.C19Slice Proofs.C19GenRows Proofs.C19GenDel.
Import ListNotations.
Open Scope Z_scope.

(* ---- a loop that rewrites, in place, every sequence reached by iterating the matrix ---- *)
Lemma aput_map (k : tid) (x : row) : forall (rs : rows) r,
  NoDup (keys rs) -> aget k rs = Some r ->
  aput k x rs = map (fun p => (fst p, if Z.eqb (fst p) k then x else snd p)) rs.
Proof.
  induction rs as [|[k' v'] rs IH]; intros r ND G; simpl in *; [discriminate|].
  inversion ND as [|? ? Hn ND']; subst.
  destruct (Z.eqb_spec k k') as [E|E].
  - subst k'. rewrite Z.eqb_refl. f_equal.
    symmetry. rewrite <- (map_id rs) at 2. apply map_ext_in. intros [k2 v2] Hin. simpl.
    destruct (Z.eqb_spec k2 k); [|reflexivity]. subst. exfalso. apply Hn.
    change k with (fst (k, v2)). apply in_map. exact Hin.
  - destruct (Z.eqb_spec k' k); [congruence|]. f_equal. apply (IH r ND' G).
Qed.

Definition seq_step (P : row -> row) (rs : rows) (k : tid) : rows :=
  match aget k rs with Some r => aput k (P r) rs | None => rs end.

Lemma seq_fold_map (P : row -> row) : forall (ks : list tid) (rs : rows),
  NoDup ks -> NoDup (keys rs) ->
  fold_left (seq_step P) ks rs = map (fun p => (fst p, if memb (fst p) ks then P (snd p) else snd p)) rs.
Proof.
  induction ks as [|k ks IH]; intros rs NK ND; simpl.
  - symmetry. rewrite <- (map_id rs) at 2. apply map_ext. intros [a b]. reflexivity.
  - inversion NK as [|? ? Hk NK']; subst. unfold seq_step at 2.
    destruct (aget k rs) as [r|] eqn:G.
    + rewrite IH; [|exact NK'|].
      * rewrite (aput_map k (P r) rs r ND G), map_map. apply map_ext_in. intros [k2 v2] Hin. simpl.
        destruct (Z.eqb_spec k2 k) as [E|E].
        -- subst k2. replace (memb k ks) with false by (symmetry; apply memb_false; exact Hk).
           assert (X : aget k rs = Some v2) by (apply In_aget; assumption). rewrite G in X. inversion X. reflexivity.
        -- reflexivity.
      * rewrite keys_aput. unfold ahas. rewrite G. exact ND.
    + rewrite IH by assumption. apply map_ext_in. intros [k2 v2] Hin. simpl.
      destruct (Z.eqb_spec k2 k) as [E|E]; [|reflexivity].
      subst k2. exfalso. apply aget_None in G. apply G. change k with (fst (k, v2)). apply in_map. exact Hin.
Qed.

Lemma memb_filter_has (T : list tid) (rs : rows) k : ahas k rs = true ->
  memb k (filter (fun t => ahas t rs) T) = memb k T.
Proof.
  intros H. destruct (memb k T) eqn:M.
  - apply memb_In. apply filter_In. split; [apply memb_In; exact M | exact H].
  - apply memb_false. intro X. apply filter_In in X. destruct X as [X _]. apply memb_In in X. congruence.
Qed.

Section G.
Variable taxa_of : nsid -> list tid.

Lemma seq_loop (P : row -> row) (body : tid -> matrix -> matrix * res unit) :
  (forall k s r, aget k (m_rows s) = Some r -> body k s = (mat_store s k (P r), Ok tt)) ->
  forall T self, NoDup T -> NoDup (keys (m_rows self)) ->
  for_each (mat_iter T self) body self
  = (set_rows self (map (fun p => (fst p, if memb (fst p) T then P (snd p) else snd p)) (m_rows self)), Ok tt).
Proof.
  intros H T self NT ND. unfold mat_iter. change (map fst (items T (m_rows self))) with (keys (items T (m_rows self))). rewrite keys_items.
  set (ks := filter (fun t => ahas t (m_rows self)) T).
  rewrite (for_each_fold_inv (fun l (s : matrix) => forall k, In k l -> ahas k (m_rows s) = true) body
             (fun s k => set_rows s (seq_step P (m_rows s) k))).
  - rewrite fold_set_rows. f_equal. f_equal. rewrite seq_fold_map; [|apply NoDup_filter; exact NT | exact ND].
    apply map_ext_in. intros [k v] Hin. simpl. f_equal. unfold ks. rewrite memb_filter_has; [reflexivity|].
    apply ahas_In. change k with (fst (k, v)). apply in_map. exact Hin.
  - intros k rest s I. assert (Hk : ahas k (m_rows s) = true) by (apply I; left; reflexivity).
    unfold ahas in Hk. destruct (aget k (m_rows s)) as [r|] eqn:G; [|discriminate].
    split.
    + rewrite (H k s r G). unfold mat_store, seq_step. rewrite G. reflexivity.
    + intros k' Hk'. unfold seq_step. rewrite G. simpl. rewrite ahas_aput. rewrite (I k' (or_intror Hk')). apply orb_true_r.
  - intros k Hk. unfold ks in Hk. apply filter_In in Hk. tauto.
Qed.

(* ---- fill: the while loop pads ---- *)
Lemma repeat_snoc_cons {A} (x : A) n (v : list A) : repeat x n ++ x :: v = x :: repeat x n ++ v.
Proof. induction n as [|n IH]; simpl; [reflexivity | rewrite IH; reflexivity]. Qed.

Lemma while_pad (value : cell) (size : Z) (append : bool) (body : row -> row * res unit) :
  (forall v, body v = (if append then py_seq_append v value else py_seq_insert0 v value, Ok tt)) ->
  forall n (v : row),
  Z.to_nat (size - zlen v) = n ->
  while_loop (S n) (fun v => Z.ltb (zlen v) size) body v = (pad value size append v, Ok tt).
Proof.
  intros HB. induction n as [|n IH]; intros v E.
  - cbn [while_loop]. destruct (Z.ltb_spec (zlen v) size) as [L|L]; [lia|].
    unfold pad. rewrite E. simpl. destruct append; [rewrite app_nil_r|]; reflexivity.
  - cbn [while_loop]. destruct (Z.ltb_spec (zlen v) size) as [L|L]; [|lia].
    rewrite HB. unfold pad at 1. rewrite E. destruct append.
    + etransitivity; [apply IH; unfold py_seq_append; rewrite zlen_app; unfold zlen at 2; simpl; lia|].
      unfold pad, py_seq_append. rewrite zlen_app. unfold zlen at 2. simpl length.
      replace (Z.to_nat (size - (zlen v + Z.of_nat 1))) with n by lia.
      rewrite <- app_assoc. reflexivity.
    + etransitivity; [apply IH; unfold py_seq_insert0; rewrite zlen_cons; lia|].
      unfold pad, py_seq_insert0. rewrite zlen_cons.
      replace (Z.to_nat (size - (zlen v + 1))) with n by lia.
      simpl. rewrite repeat_snoc_cons. reflexivity.
Qed.

Lemma gen_fill_eq (self : matrix) (value : cell) (size : option Z) (append : bool) :
  NoDup (taxa_of (m_ns self)) -> NoDup (keys (m_rows self)) ->
  gen_fill taxa_of self value size append
  = (fst (fill (taxa_of (m_ns self)) self value size append), Ok (snd (fill (taxa_of (m_ns self)) self value size append))).
Proof.
  intros NT ND. unfold gen_fill, fill, fill_size. cbn [fst snd].
  set (sz := match size with Some s => s | None => max_sequence_size (taxa_of (m_ns self)) (m_rows self) end).
  replace (match size with None => (let size0 := max_sequence_size (taxa_of (m_ns self)) (m_rows self) in size0) | Some size0 => size0 end)
    with sz by (destruct size; reflexivity).
  cbv zeta.
  rewrite (seq_loop (pad value sz append)); [reflexivity | | exact NT | exact ND].
  intros k s r G. unfold mat_getitem_ro. cbn [resolve_key]. rewrite G.
  match goal with |- match ?w with _ => _ end = _ =>
    replace w with (pad value sz append r, @Ok unit tt); [reflexivity|] end.
  symmetry. apply (while_pad value sz append); [intros v; destruct append; reflexivity | reflexivity].
Qed.

Lemma fill_taxa_keys_NoDup T (rs : rows) : NoDup T -> NoDup (keys rs) -> NoDup (keys (fill_taxa_rows T rs)).
Proof.
  intros NT ND. rewrite fill_taxa_rows_keys by exact NT.
  apply NoDup_app_intro; [exact ND | apply NoDup_filter; exact NT|].
  intros x Hx Hf. apply filter_In in Hf. destruct Hf as [_ Hf]. apply ahas_In in Hx. rewrite Hx in Hf. discriminate.
Qed.

Lemma gen_pack_eq (self : matrix) (value : cell) (size : option Z) (append : bool) :
  NoDup (taxa_of (m_ns self)) -> NoDup (keys (m_rows self)) ->
  gen_pack taxa_of self value size append = (fst (pack (taxa_of (m_ns self)) self value size append), Ok tt).
Proof.
  intros NT ND. unfold gen_pack, pack. rewrite gen_fill_taxa_eq.
  rewrite gen_fill_eq; [reflexivity | exact NT | apply fill_taxa_keys_NoDup; assumption].
Qed.

(* ---- export: deleting the unselected cells from the end backwards = selecting ---- *)
Lemma range_down_cons n : 0 <= n -> py_range_down n (-1) = n :: py_range_down (n - 1) (-1).
Proof.
  intros H. unfold py_range_down. replace (Z.to_nat (n - -1)) with (S (Z.to_nat (n - 1 - -1))) by lia.
  simpl. f_equal; [lia|]. rewrite <- seq_shift, map_map. apply map_ext. intros i. lia.
Qed.

Lemma range_down_nil : py_range_down (-1) (-1) = [].
Proof. reflexivity. Qed.

Lemma remove_nth_app {A} (a : list A) c t : remove_nth (length a) (a ++ c :: t) = a ++ t.
Proof. induction a as [|x a IH]; simpl; [reflexivity | rewrite IH; reflexivity]. Qed.

Definition del_body (idx : list Z) (cell_idx : Z) (vec : row) : row * res unit :=
  if negb (py_set_contains cell_idx (py_set idx))
  then match py_seq_del vec cell_idx with
       | Ok vec => (vec, Ok tt)
       | Err e_ => (vec, Err e_)
       | OutOfFuel => (vec, OutOfFuel)
       end
  else (vec, Ok tt).

Lemma del_loop (idx : list Z) : forall (a t : row),
  for_each (py_range_down (zlen a - 1) (-1)) (del_body idx) (a ++ t) = (select_from idx 0 a ++ t, Ok tt).
Proof.
  intros a. induction a as [|c a IH] using rev_ind; intros t.
  - reflexivity.
  - assert (L : zlen (a ++ [c]) - 1 = zlen a) by (rewrite zlen_app; unfold zlen at 2; simpl; lia).
    rewrite L. rewrite range_down_cons by apply zlen_nonneg. cbn [for_each].
    rewrite select_from_app. rewrite Z.add_0_l. cbn [select_from].
    unfold del_body at 1. change (py_set_contains (zlen a) (py_set idx)) with (memb (zlen a) idx).
    destruct (memb (zlen a) idx); cbn [negb].
    + rewrite <- !app_assoc. simpl. apply IH.
    + unfold py_seq_del. rewrite <- app_assoc. simpl app.
      assert (Z1 : zlen (a ++ c :: t) = zlen a + zlen t + 1) by (rewrite zlen_app, zlen_cons; lia).
      pose proof (zlen_nonneg a). pose proof (zlen_nonneg t).
      destruct (Z.ltb_spec (zlen a) 0); [lia|].
      destruct (Z.leb_spec 0 (zlen a)); [|lia]. destruct (Z.ltb_spec (zlen a) (zlen (a ++ c :: t))); [|lia].
      cbn [andb]. replace (Z.to_nat (zlen a)) with (length a) by (unfold zlen; lia). rewrite remove_nth_app. rewrite app_nil_r. apply IH.
Qed.

Lemma gen_export_character_indices_eq (self : matrix) (indices : list Z) :
  NoDup (taxa_of (m_ns self)) -> NoDup (keys (m_rows self)) ->
  gen_export_character_indices taxa_of self indices
  = (self, Ok (export_character_indices (taxa_of (m_ns self)) self indices)).
Proof.
  intros NT ND. unfold gen_export_character_indices, export_character_indices. cbv zeta.
  unfold mat_clone.
  rewrite (seq_loop (select_from indices 0)); [reflexivity | | exact NT | exact ND].
  intros k s r G. unfold mat_getitem_ro. cbn [resolve_key]. rewrite G.
  change (Z.sub (zlen r) 1) with (zlen r - 1). change (Z.opp 1) with (-1).
  pose proof (del_loop indices r []) as D. rewrite !app_nil_r in D. unfold del_body in D.
  rewrite D. reflexivity.
Qed.

End G.

Section G2.
Variable lower : lbl -> lbl.
Variable taxa_of : nsid -> list tid.

Lemma has_key_find_sub l (ss : subsets) : has_key lower l ss = match find_sub lower l ss with Some _ => true | None => false end.
Proof.
  unfold has_key. induction ss as [|[l' i'] ss IH]; simpl; [reflexivity|].
  destruct (Z.eqb (lower l') (lower l)); [reflexivity | exact IH].
Qed.

Lemma gen_export_character_subset_eq (self : matrix) (cs : lbl + list Z) :
  NoDup (taxa_of (m_ns self)) -> NoDup (keys (m_rows self)) ->
  gen_export_character_subset lower taxa_of self cs
  = (self, match cs with
           | inl l => export_character_subset lower (taxa_of (m_ns self)) self l
           | inr idx => Ok (export_character_indices (taxa_of (m_ns self)) self idx)
           end).
Proof.
  intros NT ND. unfold gen_export_character_subset, export_character_subset. destruct cs as [l|idx].
  - rewrite has_key_find_sub. destruct (find_sub lower l (m_subs self)) as [idx|]; cbn [negb]; [|reflexivity].
    cbv zeta. rewrite gen_export_character_indices_eq by assumption. reflexivity.
  - rewrite gen_export_character_indices_eq by assumption. reflexivity.
Qed.

End G2.
