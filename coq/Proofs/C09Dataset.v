(* C09: several namespaces in one NEXUS document: title resolution and the linked CHARACTERS block *)
From Coq Require Import ZArith List Bool Lia.
From DV Require Import Model.PyPrims Model.C09AlphaTypes Model.C09Alphabets Model.C09Model Model.C09Spec
  Model.C09Nexus Model.C09Convert Model.C09Dataset Proofs.C09Text Proofs.C09Fasta Proofs.C09NexusProofs.
Import ListNotations.
Open Scope Z_scope.
Arguments state_of_symbol : simpl never.
Arguments plain_symbol_char : simpl never.
Arguments is_space : simpl never.

Definition tab_of (nss : list (tok * list text)) : ns_table := map (fun p => (Some (fst p), snd p)) nss.

Lemma titled_none : forall nss t k, ~ In (ucase t) (map ucase (map fst nss)) -> titled t (tab_of nss) k = [].
Proof.
  induction nss as [|[t0 l0] r IH]; intros t k H; simpl; [reflexivity|].
  simpl in H. assert (E : text_eqb (ucase t0) (ucase t) = false) by (apply text_eqb_neq; intro X; apply H; left; exact X).
  rewrite E. apply IH. intro X. apply H. right. exact X.
Qed.

Lemma titled_unique : forall nss i t labels k,
  NoDup (map ucase (map fst nss)) -> nth_error nss i = Some (t, labels) ->
  titled t (tab_of nss) k = [(k + i)%nat].
Proof.
  induction nss as [|[t0 l0] r IH]; intros i t labels k N H; [destruct i; discriminate|].
  simpl in N. inversion N; subst. destruct i as [|i]; simpl in H.
  - inversion H; subst. simpl. rewrite text_eqb_refl. rewrite titled_none by assumption. f_equal. lia.
  - simpl. assert (In (ucase t) (map ucase (map fst r))).
    { apply in_map. apply (in_map fst r (t, labels)). apply nth_error_In with i. exact H. }
    assert (E : text_eqb (ucase t0) (ucase t) = false) by (apply text_eqb_neq; intro X; apply H2; rewrite X; exact H0).
    rewrite E. rewrite (IH i t labels (S k) H3 H). f_equal. lia.
Qed.

(* a LINK TAXA title resolves to the namespace carrying that title, and to its labels *)
Lemma resolve_linked : forall nss i t labels ns0,
  NoDup (map ucase (map fst nss)) -> nth_error nss i = Some (t, labels) ->
  resolve_in (tab_of nss) (Some t) ns0 = Ok labels.
Proof.
  intros nss i t labels ns0 N H. unfold resolve_in, get_taxon_namespace.
  rewrite (titled_unique nss i t labels O N H). cbn [bind Nat.add].
  unfold tab_of. rewrite nth_error_map. rewrite H. reflexivity.
Qed.

(* without LINK: the only namespace *)
Lemma resolve_single : forall l labels ns0, resolve_in [(l, labels)] None ns0 = Ok labels.
Proof. reflexivity. Qed.

(* ---- the writer's titles are pairwise different strings ---- *)

Lemma NoDup_app_snoc : forall (A : Type) (l : list A) x, NoDup l -> ~ In x l -> NoDup (l ++ [x]).
Proof.
  induction l as [|a l IH]; intros x N H; simpl; [constructor; [intros [] | constructor]|].
  inversion N; subst. constructor.
  - intro X. apply in_app_or in X. destruct X as [X|[X|[]]]; [contradiction | subst; apply H; left; reflexivity].
  - apply IH; [assumption | intro X; apply H; right; exact X].
Qed.

Lemma uniq_title_fresh : forall esc norm f l used idx t t', uniq_title esc norm f l used idx t = Ok t' -> text_mem (norm t') used = false.
Proof.
  intros esc norm. induction f as [|f IH]; intros l used idx t t' H; simpl in H; [discriminate|].
  destruct (text_mem (norm t) used) eqn:E; [apply (IH _ _ _ _ _ H) | inversion H; subst; exact E].
Qed.

Arguments uniq_title : simpl never.

Lemma assign_titles_distinct : forall esc norm labels used ts, NoDup used ->
  assign_titles esc norm labels used = Ok ts -> NoDup (used ++ map norm ts).
Proof.
  intros esc norm. induction labels as [|l r IH]; intros used ts N H; simpl in H.
  - inversion H. rewrite List.app_nil_r. exact N.
  - destruct (uniq_title esc norm (S (length used)) l used 1 (esc l)) as [t| |] eqn:E; try discriminate. cbn [bind] in H.
    destruct (assign_titles esc norm r (used ++ [norm t])) as [ts'| |] eqn:E2; try discriminate. cbn [bind] in H.
    inversion H; subst. apply uniq_title_fresh in E. apply text_mem_false in E.
    specialize (IH (used ++ [norm t]) ts'). rewrite <- app_assoc in IH. cbn [map]. apply IH; [|exact E2].
    apply NoDup_app_snoc; assumption.
Qed.

(* ---- TITLE and LINK statements, and MATRIX with a resolver ---- *)

Arguments is_eol !t.
Arguments all_digits : simpl never.
Arguments parse_nat : simpl never.
Arguments block_loop : simpl never.
Arguments parse_matrix : simpl never.
Arguments parse_dimensions : simpl never.
Arguments parse_format : simpl never.
Arguments render_nat : simpl never.
Arguments matrix_loop : simpl never.
Arguments alphabet_of_dtype : simpl never.
Arguments row_tokens : simpl never.

Lemma parse_title_ok : forall t r, is_eol t = false -> parse_title false (t :: t_semi :: r) = Ok (t, r).
Proof. intros t r H. unfold parse_title, req_tok. rewrite (next_tok_keep t _ H). cbn. reflexivity. Qed.

Lemma parse_link_taxa : forall f t r, is_eol t = false ->
  parse_link (S (S f)) false None (Some kw_TAXA) (t_eq :: t :: t_semi :: r) = Ok (Some t, r).
Proof.
  intros f t r H. cbn [parse_link]. cbn [text_eqb list_eqb kw_TAXA t_semi Z.eqb Pos.eqb andb orb].
  change (text_eqb kw_TAXA t_semi) with false. change (text_eqb kw_TAXA kw_TAXA) with true. cbv iota. cbn [orb].
  change (next_tok false (t_eq :: t :: t_semi :: r)) with (Some (t_eq, t :: t_semi :: r)). cbv iota.
  change (negb (text_eqb t_eq t_eq)) with false. cbv iota.
  rewrite (next_tok_keep t _ H).
  change (next_tok false (t_semi :: r)) with (Some (t_semi, r)). cbv iota beta.
  change (text_eqb (ucase t_semi) t_semi) with true. cbv iota. reflexivity.
Qed.

Arguments parse_title : simpl never.
Arguments parse_link : simpl never.

Section Linked.
Variable lower : text -> text.
Variable resolve : option tok -> list text -> res (list text).

Lemma parse_matrix_fixed_r : forall fuel ns ns' nt nchar dt sy gap mis il cs ti lk R,
  fixed_dtype dt = true -> nt <> 0 -> nchar <> 0 -> resolve lk ns = Ok ns' ->
  parse_matrix lower resolve fuel (mkNX ns (Some nt) (Some nchar) dt sy gap mis [t_dot; t_dot] il false cs ti lk) R
  = do x <- matrix_loop lower fuel (mkNX ns' (Some nt) (Some nchar) dt sy gap mis [t_dot; t_dot] il false cs ti lk)
                        (alphabet_of_dtype dt) nchar [] None R ;;
    let '(st', a', rows, rest) := x in
    Ok (st', mkBR dt a' (map (fun r => (nth (fst r) (x_ns st') [], snd r)) rows) (x_ns st')
                  (x_title st') (x_link st'), rest).
Proof.
  intros. unfold parse_matrix. cbn [x_ntax x_nchar nonzero x_link x_ns].
  apply Z.eqb_neq in H0. apply Z.eqb_neq in H1. rewrite H0, H1. rewrite H2. cbn [bind]. norm_st.
  destruct dt; try discriminate; reflexivity.
Qed.

(* a CHARACTERS block written with TITLE and LINK TAXA, read in a document whose reader resolves
   the link to the labels of the matrix's own namespace *)
Theorem linked_block_roundtrip_l : forall (dt : dtype) (cs : bool) (m : matrix) (nchar nt : Z)
    (ct lt : tok) (ns0 : list text),
  fixed_dtype dt = true ->
  m <> [] -> 1 <= nchar -> nt <> 0 ->
  is_eol ct = false -> is_eol lt = false ->
  resolve (Some lt) ns0 = Ok (map fst m) ->
  forallb label_token_ok (map fst m) = true ->
  NoDup (map (keyf lower cs) (map fst m)) ->
  cells_ok (alphabet_of_dtype dt) m = true ->
  rectangular nchar m = true ->
  exists toks st',
    write_chars_block dt [alphabet_of_dtype dt] [] (mkNW false (Some ct) (Some lt)) m = Ok toks
    /\ read_chars_block lower resolve (nx_init ns0 (Some nt) cs) toks
       = Ok (st', [mkBR dt (alphabet_of_dtype dt) m (map fst m) (Some ct) (Some lt)], [EOL; EOL; EOL]).
Proof.
  intros dt cs m nchar nt ct lt ns0 Hdt Hm Hn Hnt Hct Hlt Hres Hl Hnd Hc Hr.
  set (a := alphabet_of_dtype dt) in *.
  assert (Esites : zmax_list (map (fun r : text * list Z => len (snd r)) m) = Some nchar).
  { apply zmax_list_const; [destruct m; [contradiction | discriminate]|].
    intros x Hx. apply in_map_iff in Hx. destruct Hx as [r [E Hin]]. subst x.
    unfold rectangular in Hr. rewrite forallb_forall in Hr. apply Z.eqb_eq. apply (Hr r Hin). }
  assert (Hrows : forall r, In r m -> nrow_ok a nchar r).
  { intros r Hin. unfold nrow_ok. split; [|split].
    - rewrite forallb_forall in Hl. apply Hl. apply in_map. exact Hin.
    - unfold cells_ok in Hc. rewrite forallb_forall in Hc. apply (Hc r Hin).
    - unfold rectangular in Hr. rewrite forallb_forall in Hr. apply Z.eqb_eq. apply (Hr r Hin). }
  destruct (fixed_dtype_cases dt Hdt) as [kw [Efmt Hkw]]. fold a in Efmt.
  unfold write_chars_block. rewrite Esites. rewrite Efmt. cbn [bind nw_simple nw_title nw_link].
  eexists. eexists. split; [reflexivity|].
  set (R := concat (map (row_tokens a) m) ++ [t_semi; EOL; kw_END; t_semi; EOL; EOL; EOL]).
  assert (LR : (length m <= length R)%nat).
  { unfold R. rewrite app_length. pose proof (rows_tokens_length a m). lia. }
  assert (NL : map (fun r : nat * list Z => (nth (fst r) (map fst m) [], snd r)) (numbered m) = m)
    by (exact (numbered_labels m [])).
  cbn [app]. unfold read_chars_block. cbn [nx_init x_cap next_tok negb andb].
  cbn.
  rewrite block_loop_eq. cbn. norm_st.
  rewrite (parse_title_ok ct _ Hct). cbn [bind]. norm_st.
  rewrite block_loop_eq. cbn. norm_st.
  rewrite (parse_link_taxa _ lt _ Hlt). cbn [bind]. norm_st.
  rewrite block_loop_eq. cbn. norm_st.
  rewrite pd_nchar with (n := nchar) by (try apply all_digits_render; apply parse_render_nat; lia).
  cbn [bind].
  rewrite block_loop_eq. cbn. norm_st.
  rewrite pf_fixed with (kw := kw) (dt := dt) by exact Hkw.
  cbn [bind].
  rewrite block_loop_eq. cbn. norm_st.
  rewrite (parse_matrix_fixed_r _ _ (map fst m)) by (try assumption; lia).
  rewrite matrix_loop_skip_eol by reflexivity.
  unfold R. fold a.
  match goal with |- context [matrix_loop lower ?fuel ?st _ _ _ _ _] =>
    pose proof (matrix_loop_rows lower a nchar false m [] st fuel None [EOL; kw_END; t_semi; EOL; EOL; EOL]) as ML
  end.
  change (numbered []) with (@nil (nat * list Z)) in ML. cbn [app] in ML.
  rewrite ML; clear ML.
  - cbn [bind]. norm_st.
    rewrite block_loop_eq. cbn. rewrite NL. reflexivity.
  - left; reflexivity.
  - reflexivity.
  - reflexivity.
  - exact Hn.
  - pose proof LR as LR'. unfold R in LR'. lia.
  - reflexivity.
  - intro X. discriminate.
  - exact Hrows.
  - exact Hnd.
Qed.

End Linked.

(* ---- the data set: every CHARACTERS block re-attaches to the namespace with exactly its labels ---- *)

Theorem multi_namespace_roundtrip_l : forall (lower : text -> text) (nss : list (tok * list text))
    (i : nat) (title : tok) (dt : dtype) (cs : bool) (m : matrix) (nchar nt : Z) (ct : tok) (ns0 : list text),
  NoDup (map ucase (map fst nss)) ->
  nth_error nss i = Some (title, map fst m) ->
  fixed_dtype dt = true ->
  m <> [] -> 1 <= nchar -> nt <> 0 ->
  is_eol ct = false -> is_eol title = false ->
  forallb label_token_ok (map fst m) = true ->
  NoDup (map (keyf lower cs) (map fst m)) ->
  cells_ok (alphabet_of_dtype dt) m = true ->
  rectangular nchar m = true ->
  exists toks st',
    write_chars_block dt [alphabet_of_dtype dt] [] (mkNW false (Some ct) (Some title)) m = Ok toks
    /\ read_chars_block lower (resolve_in (tab_of nss)) (nx_init ns0 (Some nt) cs) toks
       = Ok (st', [mkBR dt (alphabet_of_dtype dt) m (map fst m) (Some ct) (Some title)], [EOL; EOL; EOL]).
Proof.
  intros lower nss i title dt cs m nchar nt ct ns0 Hnd Hi Hdt Hm Hn Hnt Hct Hti Hl Hk Hc Hr.
  apply (linked_block_roundtrip_l lower (resolve_in (tab_of nss)) dt cs m nchar nt ct title ns0); try assumption.
  apply (resolve_linked nss i title (map fst m) ns0 Hnd Hi).
Qed.

(* With the repair (keys upper-cased) every title the writer hands out resolves, under the reader's
   comparison, to exactly its own namespace. (The text written as TITLE is taken as the title the
   reader sees: unquoting is the token layer's, C02.) *)
Lemma titles_resolve_l : forall (esc : tok -> text) (labels : list tok) (ts : list text) (taxa : text -> list text)
    (i : nat) (t : text) (ns0 : list text),
  assign_titles esc ucase labels [] = Ok ts ->
  nth_error ts i = Some t ->
  resolve_in (tab_of (map (fun x => (x, taxa x)) ts)) (Some t) ns0 = Ok (taxa t).
Proof.
  intros esc labels ts taxa i t ns0 H Hi.
  apply (resolve_linked (map (fun x => (x, taxa x)) ts) i t (taxa t) ns0).
  - match goal with |- NoDup (map ucase ?X) =>
      assert (E : X = ts) by (rewrite map_map; exact (map_id ts)); rewrite E
    end.
    apply (assign_titles_distinct esc ucase labels [] ts (NoDup_nil _) H).
  - rewrite nth_error_map. rewrite Hi. reflexivity.
Qed.

(* The writer as it was only made titles different as strings; the reader compares them after .upper():
   two namespaces labelled "ns" and "NS" get the distinct titles ns / NS, and neither link resolves.
   (The hypothesis `NoDup (map ucase titles)` above is needed; replayed on the implementation by
   the harness: key dataset-nexus-unreadable:namespace-titles-equal-up-to-case.) *)
Lemma title_case_refuted_l :
  exists labels titles, assign_titles (fun t => t) (fun t => t) labels [] = Ok titles /\ NoDup titles
    /\ exists t, In t titles /\ resolve_in (tab_of (map (fun x => (x, @nil text)) titles)) (Some t) [] = Err ParseErr.
Proof.
  exists [[110; 115]; [78; 83]], [[110; 115]; [78; 83]]. split; [vm_compute; reflexivity|].
  split; [repeat constructor; simpl; intuition discriminate|].
  exists [110; 115]. split; [left; reflexivity | vm_compute; reflexivity].
Qed.
