(* C15: remaining lemmas and the run-level corollaries in the form exported by Props/C15.v,
   plus non-vacuity examples. *)
From Coq Require Import ZArith List Bool Arith Lia Permutation Sorted.
From DV Require Import Model.PyPrims Model.Tree Model.C15Prims Gen.Traversals Model.C15Model
     Proofs.C15Base Proofs.C15Proofs Proofs.C15Apply Proofs.C15Order Proofs.C15Edges.
Import ListNotations.
Open Scope nat_scope.

(* ---------------------------------------------------------------- level order is stable *)
Lemma filter_none {A} (f : A -> bool) l : (forall x, In x l -> f x = false) -> filter f l = [].
Proof.
  induction l as [|x r IH]; intro H; [reflexivity|]. simpl.
  rewrite (H x (or_introl eq_refl)). apply IH. intros y Hy. apply H. right. exact Hy.
Qed.

Lemma filter_depth_split q d0 d :
  Forall (fun k => l_depth k = d0) q ->
  filter (fun m => Nat.eqb (l_depth m) d) (flat_map lpre q)
  = filter (fun m => Nat.eqb (l_depth m) d) q
    ++ filter (fun m => Nat.eqb (l_depth m) d) (flat_map lpre (flat_map l_kids q)).
Proof.
  induction 1 as [|n r Hn Hr IH]; [reflexivity|].
  simpl flat_map. rewrite lpre_unfold, !flat_map_app, !filter_app, IH. simpl filter.
  set (P := fun m => Nat.eqb (l_depth m) d) in *.
  destruct (Nat.eqb_spec (l_depth n) d) as [Ed|Ed].
  - assert (X : filter P (flat_map lpre (l_kids n)) = []).
    { apply filter_none. intros m Hm. apply in_flat_map in Hm. destruct Hm as [k [Hk Hm]].
      pose proof (lpre_depth k) as D. rewrite Forall_forall in D. specialize (D m Hm).
      pose proof (l_kids_parent n) as Pk. rewrite Forall_forall in Pk. destruct (Pk k Hk) as [_ Dk].
      unfold P. apply Nat.eqb_neq. lia. }
    rewrite X. reflexivity.
  - assert (R1 : filter P r = []).
    { apply filter_none. intros m Hm. rewrite Forall_forall in Hr. specialize (Hr m Hm).
      unfold P. apply Nat.eqb_neq. lia. }
    rewrite R1. reflexivity.
Qed.

Lemma levels_stable : forall H q d0 d,
  Forall (fun k => l_depth k = d0) q -> Forall (fun k => height (here k) <= H) q ->
  filter (fun m => Nat.eqb (l_depth m) d) (levels H q)
  = filter (fun m => Nat.eqb (l_depth m) d) (flat_map lpre q).
Proof.
  induction H as [|H IH]; intros q d0 d Hd Hh.
  - destruct q as [|k r]; [reflexivity|].
    inversion Hh as [|? ? Hk _]; subst. pose proof (height_pos (here k)). lia.
  - simpl levels. rewrite filter_app, (filter_depth_split q d0 d Hd). f_equal.
    apply (IH _ (S d0)).
    + apply Forall_forall. intros k Hk. apply in_flat_map in Hk. destruct Hk as [p [Hp Hk]].
      pose proof (l_kids_parent p) as P. rewrite Forall_forall in P. destruct (P k Hk) as [_ D].
      rewrite Forall_forall in Hd. rewrite (Hd p Hp) in D. exact D.
    + apply Forall_forall. intros k Hk. apply in_flat_map in Hk. destruct Hk as [p [Hp Hk]].
      rewrite Forall_forall in Hh. specialize (Hh p Hp). apply l_kids_height in Hk. lia.
Qed.

Theorem llevel_stable n d :
  filter (fun m => Nat.eqb (l_depth m) d) (llevel n) = filter (fun m => Nat.eqb (l_depth m) d) (lpre n).
Proof.
  unfold llevel. rewrite (levels_stable (height (here n)) [n] (l_depth n) d).
  - simpl flat_map. rewrite app_nil_r. reflexivity.
  - constructor; [reflexivity|constructor].
  - constructor; [apply Nat.le_refl|constructor].
Qed.

Section Final.
  Context {E : Type} (eo : lnode -> E) (hd : E -> lnode) (age : lnode -> Z).
  Notation G := (LGE E eo hd age).

  (* ---------------------------------------------------------------- list-returning wrappers *)
  Theorem node_leaf_nodes_run (n : lnode) fuel :
    2 * lsize n < fuel -> Node_leaf_nodes G fuel n = GDone (lleaves n).
  Proof.
    intro Hf. unfold Node_leaf_nodes. rewrite postorder_iter_run by exact Hf.
    simpl gflat_map. rewrite flat_map_singleton, lleaves_post. f_equal.
    apply filter_ext. intro x. unfold pyf, Node_child_nodes, py_list.
    rewrite py_len_eq0. reflexivity.
  Qed.

  Theorem tree_nodes_run (ff : option (lnode -> bool)) (n : lnode) fuel :
    lsize n < fuel -> Tree_nodes G fuel ff n = GDone (filter (pyf ff) (lpre n)).
  Proof.
    intro Hf. unfold Tree_nodes, Tree_preorder_node_iter. rewrite preorder_iter_run by exact Hf.
    simpl. rewrite flat_map_singleton. reflexivity.
  Qed.

  Theorem tree_leaf_nodes_run (n : lnode) fuel :
    2 * lsize n < fuel -> Tree_leaf_nodes G fuel n = GDone (lleaves n).
  Proof.
    intro Hf. unfold Tree_leaf_nodes, Tree_leaf_node_iter. rewrite leaf_iter_run by exact Hf.
    simpl. rewrite flat_map_singleton. change (pyf (@None (lnode -> bool))) with (fun _ : lnode => true).
    rewrite filter_true. reflexivity.
  Qed.

  Theorem tree_internal_nodes_run excl (n : lnode) fuel :
    lsize n < fuel ->
    Tree_internal_nodes G fuel excl n = GDone (filter (internal_keep excl None) (lpre n)).
  Proof.
    intro Hf. unfold Tree_internal_nodes, Tree_preorder_internal_node_iter.
    rewrite preorder_internal_run by exact Hf. simpl. rewrite flat_map_singleton. reflexivity.
  Qed.

  (* ---------------------------------------------------------------- each node exactly once *)
  Theorem unfiltered_runs_once (n : lnode) fuel :
    2 * lsize n < fuel ->
    exists o1 o2 o3,
      Node_preorder_iter G fuel None n = GDone o1 /\
      Node_postorder_iter G fuel None n = GDone o2 /\
      Node_levelorder_iter G fuel None n = GDone o3 /\
      map l_id o1 = ids (here n) /\
      Permutation (map l_id o2) (ids (here n)) /\
      Permutation (map l_id o3) (ids (here n)) /\
      (NoDup (ids (here n)) -> NoDup o1 /\ NoDup o2 /\ NoDup o3).
  Proof.
    intro Hf. exists (lpre n), (lpost n), (llevel n).
    change (pyf (@None (lnode -> bool))) with (fun _ : lnode => true).
    rewrite preorder_iter_run, postorder_iter_run, levelorder_iter_run by lia.
    change (pyf (@None (lnode -> bool))) with (fun _ : lnode => true). rewrite !filter_true.
    repeat split; try reflexivity.
    - apply lpre_ids.
    - apply lpost_ids_perm.
    - apply llevel_ids_perm.
    - apply NoDup_of_ids. rewrite lpre_ids. exact H.
    - apply NoDup_of_ids. eapply Permutation_NoDup; [apply Permutation_sym, lpost_ids_perm|exact H].
    - apply NoDup_of_ids. eapply Permutation_NoDup; [apply Permutation_sym, llevel_ids_perm|exact H].
  Qed.

  Theorem parents_before_children_run (n : lnode) fuel out :
    lsize n < fuel ->
    Node_preorder_iter G fuel None n = GDone out ->
    forall m k, In m out -> In k (l_kids m) -> before out m k.
  Proof.
    intros Hf Hr m k Hm Hk. rewrite preorder_iter_run in Hr by exact Hf.
    change (pyf (@None (lnode -> bool))) with (fun _ : lnode => true) in Hr. rewrite filter_true in Hr.
    inversion Hr; subst. apply lpre_parents_first; assumption.
  Qed.

  Theorem children_before_parents_run (n : lnode) fuel out :
    2 * lsize n < fuel ->
    Node_postorder_iter G fuel None n = GDone out ->
    forall m k, In m out -> In k (l_kids m) -> before out k m.
  Proof.
    intros Hf Hr m k Hm Hk. rewrite postorder_iter_run in Hr by exact Hf.
    change (pyf (@None (lnode -> bool))) with (fun _ : lnode => true) in Hr. rewrite filter_true in Hr.
    inversion Hr; subst. apply lpost_children_first; assumption.
  Qed.

  (* ---------------------------------------------------------------- fuel never runs out *)
  Theorem never_out_of_fuel (ff : option (lnode -> bool)) (b1 b2 : bool) (n : lnode) fuel :
    2 * lsize n + l_depth n + 2 <= fuel ->
    Node_preorder_iter G fuel ff n <> GFuel /\
    Node_postorder_iter G fuel ff n <> GFuel /\
    Node_levelorder_iter G fuel ff n <> GFuel /\
    Node_inorder_iter G fuel ff n <> GFuel /\
    Node_leaf_iter G fuel ff n <> GFuel /\
    Node_ancestor_iter G fuel ff b1 n <> GFuel /\
    Node_ageorder_iter G fuel ff b1 b2 n <> GFuel /\
    Node_preorder_internal_node_iter G fuel ff b1 n <> GFuel /\
    Node_postorder_internal_node_iter G fuel ff b1 n <> GFuel /\
    Tree_dunder_len G fuel n <> OutOfFuel.
  Proof.
    intro Hf.
    assert (Hh : height (here n) <= lsize n).
    { unfold lsize. generalize (here n). induction t as [i x l e ks IH] using tree_ind'.
      rewrite size_eq. simpl height. apply le_n_S.
      induction IH as [|k r Hk _ IHr]; simpl; [lia|]. unfold sizes in *. simpl. lia. }
    rewrite preorder_iter_run, postorder_iter_run, levelorder_iter_run, inorder_iter_run, leaf_iter_run,
      ancestor_iter_run, ageorder_iter_run, preorder_internal_run, postorder_internal_run, len_run by lia.
    repeat split; try discriminate.
    destruct (is_binary (here n)) eqn:Eb.
    - rewrite linorder_binary by exact Eb. discriminate.
    - destruct (linorder_not_binary (pyf ff) n Eb) as [o Eo]. rewrite Eo. discriminate.
  Qed.
End Final.

(* ---------------------------------------------------------------- non-vacuity examples *)
Definition ex_leaf (i : Z) : tree := T i None None None [].
(* ((2,3)1,(5,6,7)4,8)0 with a unifurcation 9 above leaf 8:  arities 3, 2, 3, 1, 0 *)
Definition ex_tree : tree :=
  T 0 None None None [T 1 None None None [ex_leaf 2; ex_leaf 3];
                      T 4 None None None [ex_leaf 5; ex_leaf 6; ex_leaf 7];
                      T 9 None None None [ex_leaf 8]].
Definition ex_bin : tree := T 0 None None None [T 1 None None None [ex_leaf 2; ex_leaf 3]; ex_leaf 4].

Example ex_ids_nodup : NoDup (ids ex_tree).
Proof. unfold ids. simpl. repeat (constructor; [simpl; intuition discriminate|]). constructor. Qed.

Example ex_binary : is_binary ex_bin = true /\ is_binary ex_tree = false.
Proof. split; reflexivity. Qed.

Example ex_fuel : 2 * lsize (ex_tree, []) + l_depth (ex_tree, []) + 2 <= 24.
Proof. unfold lsize. simpl. lia. Qed.

(* a start node that has a parent (second child of the root) and a real seed *)
Example ex_subtree_start :
  exists s, l_at [1] (ex_tree, []) = Some s /\ l_has_parent s = true /\ l_has_parent (ex_tree, []) = false.
Proof. eexists. split; [reflexivity|]. split; reflexivity. Qed.

(* the generated machines on the example (sanity of the statements: ids as expected) *)
Example ex_runs :
  let G := LG (fun _ => 0%Z) in
  let s := (ex_tree, []) in
  gres_ids l_id (Node_preorder_iter G 24 None s) = Some ([0; 1; 2; 3; 4; 5; 6; 7; 9; 8]%Z, None) /\
  gres_ids l_id (Node_postorder_iter G 24 None s) = Some ([2; 3; 1; 5; 6; 7; 4; 8; 9; 0]%Z, None) /\
  gres_ids l_id (Node_levelorder_iter G 24 None s) = Some ([0; 1; 4; 9; 2; 3; 5; 6; 7; 8]%Z, None) /\
  gres_ids l_id (Node_inorder_iter G 24 None (ex_bin, [])) = Some ([2; 1; 3; 0; 4]%Z, None) /\
  gres_ids l_id (Node_inorder_iter G 24 None s) = Some ([]%Z, Some TypeErr).
Proof. vm_compute. repeat split. Qed.

(* an object graph with a separate edge type satisfying the hypothesis of the edge theorems *)
Example ex_edge_graph :
  let G := LGE (lnode * unit) (fun n => (n, tt)) fst (fun _ => 0%Z) in
  forall n, attr_head_node G (attr_edge G n) = n.
Proof. intros G n. reflexivity. Qed.

(* ---------------------------------------------------------------- wrappers are delegations *)
Theorem wrappers_delegate (G : objgraph) (ev : Type) fuel (ff : option (gnode G -> bool)) (b1 b2 : bool)
        (bf af lf : option (gnode G -> ev)) (s : gnode G) :
  Tree_preorder_node_iter G fuel ff s = Node_preorder_iter G fuel ff s /\
  Tree_preorder_internal_node_iter G fuel ff b1 s = Node_preorder_internal_node_iter G fuel ff b1 s /\
  Tree_postorder_node_iter G fuel ff s = Node_postorder_iter G fuel ff s /\
  Tree_postorder_internal_node_iter G fuel ff b1 s = Node_postorder_internal_node_iter G fuel ff b1 s /\
  Tree_levelorder_node_iter G fuel ff s = Node_levelorder_iter G fuel ff s /\
  Tree_level_order_node_iter G fuel ff s = Node_levelorder_iter G fuel ff s /\
  Node_level_order_iter G fuel ff s = Node_levelorder_iter G fuel ff s /\
  Tree_inorder_node_iter G fuel ff s = Node_inorder_iter G fuel ff s /\
  Tree_leaf_node_iter G fuel ff s = Node_leaf_iter G fuel ff s /\
  Tree_leaf_iter G fuel ff s = Node_leaf_iter G fuel ff s /\
  Tree_ageorder_node_iter G fuel b1 ff b2 s = Node_ageorder_iter G fuel ff b1 b2 s /\
  Tree_age_order_node_iter G fuel b1 ff b2 s = Node_ageorder_iter G fuel ff b1 b2 s /\
  Node_age_order_iter G fuel b1 ff b2 s = Node_ageorder_iter G fuel ff b1 b2 s /\
  Tree_apply G fuel bf af lf s = Node_apply G fuel bf af lf s /\
  Node_dunder_iter G fuel ff s = Node_preorder_iter G fuel ff s /\
  Tree_dunder_iter G fuel s = Node_preorder_iter G fuel None s.
Proof. repeat split; reflexivity. Qed.

Theorem edge_iters (G : objgraph) :
  (forall n, attr_head_node G (attr_edge G n) = n) ->
  forall fuel (fe : option (gedge G -> bool)) (excl : bool) (seed : gnode G),
    Tree_preorder_edge_iter G fuel fe seed = edges_of G (Tree_preorder_node_iter G fuel (efilter G fe) seed) /\
    Tree_postorder_edge_iter G fuel fe seed = edges_of G (Tree_postorder_node_iter G fuel (efilter G fe) seed) /\
    Tree_preorder_internal_edge_iter G fuel fe excl seed
      = edges_of G (Tree_preorder_internal_node_iter G fuel (efilter G fe) excl seed) /\
    Tree_postorder_internal_edge_iter G fuel fe excl seed
      = edges_of G (Tree_postorder_internal_node_iter G fuel (efilter G fe) excl seed) /\
    Tree_levelorder_edge_iter G fuel fe seed = edges_of G (Tree_levelorder_node_iter G fuel (efilter G fe) seed) /\
    Tree_level_order_edge_iter G fuel fe seed = edges_of G (Tree_level_order_node_iter G fuel (efilter G fe) seed) /\
    Tree_inorder_edge_iter G fuel fe seed = edges_of G (Tree_inorder_node_iter G fuel (efilter G fe) seed) /\
    Tree_leaf_edge_iter G fuel fe seed = edges_of G (Tree_leaf_node_iter G fuel (efilter G fe) seed) /\
    Tree_edges G fuel fe seed = edges_of G (Tree_nodes G fuel (efilter G fe) seed) /\
    Tree_leaf_edges G fuel seed = edges_of G (Tree_leaf_nodes G fuel seed) /\
    Tree_internal_edges G fuel excl seed = edges_of G (Tree_internal_nodes G fuel excl seed).
Proof.
  intros H fuel fe excl seed.
  repeat split.
  - apply preorder_edge_iter_is_node_iter; exact H.
  - apply postorder_edge_iter_is_node_iter; exact H.
  - apply preorder_internal_edge_iter_is_node_iter; exact H.
  - apply postorder_internal_edge_iter_is_node_iter; exact H.
  - apply levelorder_edge_iter_is_node_iter.
  - apply level_order_edge_iter_is_node_iter.
  - apply inorder_edge_iter_is_node_iter.
  - apply leaf_edge_iter_is_node_iter.
  - apply edges_is_nodes; exact H.
  - apply leaf_edges_is_leaf_nodes.
  - apply internal_edges_is_internal_nodes.
Qed.

Theorem specs_project (n : lnode) :
  map here (lpre n) = preorder (here n) /\
  map here (lpost n) = postorder (here n) /\
  map here (lleaves n) = leaves (here n) /\
  lleaves n = filter l_is_leaf (lpre n).
Proof. repeat split; [apply lpre_here | apply lpost_here | apply lleaves_here | apply lleaves_pre]. Qed.

Theorem sort_spec {A : Type} (key : A -> Z) (rv : bool) (l : list A) :
  Permutation (py_sort_by key rv l) l /\
  StronglySorted (key_ord key rv) (py_sort_by key rv l) /\
  (forall k, filter (fun y => Z.eqb (key y) k) (py_sort_by key rv l) = filter (fun y => Z.eqb (key y) k) l).
Proof. repeat split; [apply py_sort_perm | apply py_sort_sorted | intro k; apply py_sort_stable]. Qed.

Theorem brackets_once (n : lnode) :
  flat_map ev_before (lbrackets n) = filter l_is_internal (lpre n) /\
  flat_map ev_after (lbrackets n) = filter l_is_internal (lpost n) /\
  flat_map ev_leaf (lbrackets n) = lleaves n.
Proof. repeat split; [apply lbrackets_before | apply lbrackets_after | apply lbrackets_leaf]. Qed.

Theorem levelorder_props (n : lnode) :
  StronglySorted depth_le (llevel n) /\
  Permutation (llevel n) (lpre n) /\
  (forall d, filter (fun m => Nat.eqb (l_depth m) d) (llevel n) = filter (fun m => Nat.eqb (l_depth m) d) (lpre n)).
Proof. repeat split; [apply llevel_depth_sorted | apply llevel_perm | intro d; apply llevel_stable]. Qed.

Theorem list_methods {E : Type} (eo : lnode -> E) (hd : E -> lnode) (age : lnode -> Z)
        (ff : option (lnode -> bool)) (excl : bool) (n : lnode) (fuel : nat) :
  2 * size (here n) < fuel ->
  Tree_nodes (LGE E eo hd age) fuel ff n = GDone (filter (pyf ff) (lpre n)) /\
  Tree_leaf_nodes (LGE E eo hd age) fuel n = GDone (lleaves n) /\
  Node_leaf_nodes (LGE E eo hd age) fuel n = GDone (lleaves n) /\
  Tree_internal_nodes (LGE E eo hd age) fuel excl n
  = GDone (filter (fun x => (if excl then l_has_parent x else true) && l_is_internal x && true) (lpre n)).
Proof.
  intro H. assert (H1 : lsize n < fuel) by (unfold lsize; lia).
  repeat split.
  - apply tree_nodes_run; exact H1.
  - apply tree_leaf_nodes_run; exact H.
  - apply node_leaf_nodes_run; exact H.
  - apply tree_internal_nodes_run; exact H1.
Qed.
