(* C09: FASTA writer/reader round trip *)
From Coq Require Import ZArith List Bool Lia.
From DV Require Import Model.PyPrims Model.C09AlphaTypes Model.C09Model Model.C09Spec Proofs.C09Text.
Import ListNotations.
Open Scope Z_scope.
Arguments state_of_symbol : simpl never.
Arguments plain_symbol_char : simpl never.
Arguments is_space : simpl never.

(* ---- cells ---- *)

Lemma cell_ok_inv : forall a i, cell_ok a i = true ->
  exists ch, state_str a i = [ch] /\ plain_symbol_char ch = true /\ state_of_symbol a ch = Some i.
Proof.
  intros a i H. unfold cell_ok in H. unfold state_str.
  destruct (find_state i (a_states a)) as [s|]; [|discriminate].
  destruct (s_symbol s) as [|ch [|? ?]]; try discriminate.
  apply andb_true_iff in H. destruct H as [P L]. exists ch. split; [reflexivity|]. split; [exact P|].
  destruct (state_of_symbol a ch) as [j|]; simpl in L; [|discriminate].
  apply Z.eqb_eq in L. subst. reflexivity.
Qed.

Lemma plain_not_space : forall c, plain_symbol_char c = true -> is_space c = false.
Proof.
  intros c H. unfold plain_symbol_char in H. apply andb_true_iff in H. destruct H as [H _].
  apply negb_true_iff in H. exact H.
Qed.

Lemma plain_not : forall c x, plain_symbol_char c = true ->
  In x [62; 123; 125; 40; 41; 59; 44; 58; 61; 92; 34; 39; 91; 93; 46; 95] -> c <> x.
Proof.
  intros c x H Hx E. subst x. unfold plain_symbol_char in H. apply andb_true_iff in H. destruct H as [_ H].
  apply negb_true_iff in H.
  assert (existsb (Z.eqb c) [62; 123; 125; 40; 41; 59; 44; 58; 61; 92; 34; 39; 91; 93; 46; 95] = true).
  { apply existsb_exists. exists c. split; [exact Hx | apply Z.eqb_refl]. }
  congruence.
Qed.

Lemma space_10 : is_space 10 = true. Proof. reflexivity. Qed.
Lemma space_13 : is_space 13 = true. Proof. reflexivity. Qed.
Lemma space_32 : is_space 32 = true. Proof. reflexivity. Qed.
Lemma space_9 : is_space 9 = true. Proof. reflexivity. Qed.

Lemma blank_is_space : forall c, is_blank c = true -> is_space c = true.
Proof.
  intros c H. unfold is_blank in H. apply orb_true_iff in H.
  destruct H as [H|H]; apply Z.eqb_eq in H; subst; reflexivity.
Qed.

(* a text all of whose characters are symbols of the alphabet (plain, and known to the map) *)
Definition symtext (a : alphabet) (t : text) : Prop :=
  forall c, In c t -> plain_symbol_char c = true /\ exists i, state_of_symbol a c = Some i.

Definition st_of (a : alphabet) (t : text) : list Z :=
  map (fun c => match state_of_symbol a c with Some i => i | None => 0 end) t.

Lemma symtext_app : forall a x y, symtext a x -> symtext a y -> symtext a (x ++ y).
Proof. intros a x y Hx Hy c Hc. apply in_app_or in Hc. destruct Hc; auto. Qed.

Lemma symtext_cons_inv : forall a c t, symtext a (c :: t) -> symtext a t.
Proof. intros a c t H d Hd. apply H. right. exact Hd. Qed.

Lemma st_of_app : forall a x y, st_of a (x ++ y) = st_of a x ++ st_of a y.
Proof. intros. unfold st_of. apply map_app. Qed.

Lemma symtext_nospace : forall a t, symtext a t -> nospace t.
Proof. intros a t H c Hc. apply plain_not_space. apply H. exact Hc. Qed.

Lemma symbols_as_string_ok : forall a s, forallb (cell_ok a) s = true ->
  symtext a (symbols_as_string a s) /\ st_of a (symbols_as_string a s) = s
  /\ length (symbols_as_string a s) = length s.
Proof.
  intros a s. unfold symbols_as_string. induction s as [|i s IH]; intro H; simpl.
  - split; [intros c []|]. split; reflexivity.
  - simpl in H. apply andb_true_iff in H. destruct H as [Hi Hs].
    destruct (cell_ok_inv a i Hi) as [ch [E [P L]]]. destruct (IH Hs) as [A [B C0]].
    rewrite E. simpl. split; [|split].
    + intros c [Hc|Hc]; [subst; split; [exact P | eexists; exact L] | apply A; exact Hc].
    + unfold st_of in *. simpl. rewrite L. f_equal. exact B.
    + f_equal. exact C0.
Qed.

(* ---- the reader on lines of symbols ---- *)

Section Fasta.
Variable lower : text -> text.
Variable a : alphabet.

Lemma fasta_states_sym : forall t, symtext a t -> fasta_states a t = Ok (st_of a t).
Proof.
  induction t as [|c t IH]; intro H; simpl; [reflexivity|].
  destruct (H c (or_introl eq_refl)) as [P [i L]].
  rewrite (plain_not_space c P). rewrite L. rewrite (IH (symtext_cons_inv _ _ _ H)). simpl.
  unfold st_of. simpl. try rewrite L. reflexivity.
Qed.

Lemma strip_symtext : forall t, symtext a t -> strip t = t.
Proof.
  intros t H. unfold strip. pose proof (symtext_nospace a t H) as N.
  assert (L : lstrip t = t).
  { destruct t as [|c r]; [reflexivity|]. simpl. rewrite (N c (or_introl eq_refl)). reflexivity. }
  rewrite L. apply rstrip_nospace. exact N.
Qed.

(* a line of symbols (possibly empty) extends the current sequence *)
Lemma fasta_step_symline : forall l v st t, symtext a t ->
  fasta_step lower a ((l, v) :: st) t = Ok ((l, v ++ st_of a t) :: st).
Proof.
  intros l v st t H. unfold fasta_step. rewrite (strip_symtext t H).
  destruct t as [|c r].
  - simpl. rewrite List.app_nil_r. reflexivity.
  - destruct (H c (or_introl eq_refl)) as [P _].
    assert (N : c <> 62) by (apply plain_not; [exact P | simpl; tauto]).
    apply Z.eqb_neq in N. rewrite N. rewrite (fasta_states_sym (c :: r) H). reflexivity.
Qed.

Definition nonnl (t : text) : text := filter (fun c => negb (c =? 10)) t.

(* a text of symbols and newlines, cut into lines, extends the current sequence by its symbols *)
Definition symnl (t : text) : Prop := forall c, In c t -> c = 10 \/ (plain_symbol_char c = true /\ exists i, state_of_symbol a c = Some i).

Lemma fasta_lines_app : forall l1 l2 st,
  fasta_lines lower a st (l1 ++ l2) = do st' <- fasta_lines lower a st l1 ;; fasta_lines lower a st' l2.
Proof.
  induction l1 as [|x l1 IH]; intros l2 st; simpl; [reflexivity|].
  destruct (fasta_step lower a st x); simpl; [apply IH | reflexivity | reflexivity].
Qed.

Lemma fasta_body_lines : forall B cur l v st, symnl B -> symtext a (rev cur) ->
  fasta_lines lower a ((l, v) :: st) (split_nl_aux cur B)
  = Ok ((l, v ++ st_of a (rev cur) ++ st_of a (nonnl B)) :: st).
Proof.
  induction B as [|c B IH]; intros cur l v st HB Hc; simpl.
  - rewrite (fasta_step_symline l v st (rev cur) Hc). simpl. rewrite List.app_nil_r. reflexivity.
  - assert (HB' : symnl B) by (intros d Hd; apply HB; right; exact Hd).
    destruct (c =? 10) eqn:E.
    + simpl. rewrite (fasta_step_symline l v st (rev cur) Hc). simpl.
      rewrite (IH [] l (v ++ st_of a (rev cur)) st HB') by (intros d []).
      simpl. rewrite <- app_assoc. reflexivity.
    + simpl. rewrite (IH (c :: cur) l v st HB').
      * simpl. rewrite st_of_app. simpl. rewrite <- !app_assoc. reflexivity.
      * simpl. apply symtext_app; [exact Hc|]. intros d [Hd|[]]. subst d.
        destruct (HB c (or_introl eq_refl)) as [X|X]; [apply Z.eqb_neq in E; contradiction | exact X].
Qed.

(* ---- the writer's body ---- *)

Definition symcells (cells : list text) : Prop := forall s, In s cells -> exists ch, s = [ch] /\ plain_symbol_char ch = true /\ exists i, state_of_symbol a ch = Some i.

Lemma fasta_wrap_ok : forall cells width col, symcells cells ->
  symnl (fasta_wrap width col cells) /\ nonnl (fasta_wrap width col cells) = concat cells.
Proof.
  induction cells as [|s cells IH]; intros width col H; simpl.
  - split; [intros c [] | reflexivity].
  - destruct (H s (or_introl eq_refl)) as [ch [E [P L]]]. subst s.
    assert (H' : symcells cells) by (intros t Ht; apply H; right; exact Ht).
    assert (N : ch <> 10) by (intro X; subst; discriminate (plain_not_space 10 P)).
    destruct (col =? width).
    + destruct (IH width 1 H') as [A B]. split.
      * intros c [Hc|[Hc|Hc]]; [left; auto | right; subst; auto | apply A; exact Hc].
      * simpl. apply Z.eqb_neq in N. rewrite N. simpl. f_equal. exact B.
    + destruct (IH width (col + 1) H') as [A B]. split.
      * intros c [Hc|Hc]; [right; subst; auto | apply A; exact Hc].
      * simpl. apply Z.eqb_neq in N. rewrite N. simpl. f_equal. exact B.
Qed.

Lemma symcells_of_states : forall s, forallb (cell_ok a) s = true ->
  symcells (map (state_str a) s) /\ st_of a (concat (map (state_str a) s)) = s.
Proof.
  induction s as [|i s IH]; intro H; simpl.
  - split; [intros t [] | reflexivity].
  - simpl in H. apply andb_true_iff in H. destruct H as [Hi Hs].
    destruct (cell_ok_inv a i Hi) as [ch [E [P L]]]. destruct (IH Hs) as [A B]. split.
    + intros t [Ht|Ht]; [subst t; exists ch; rewrite E; split; [reflexivity | split; [exact P | eexists; exact L]] | apply A; exact Ht].
    + rewrite E. simpl. unfold st_of in *. simpl. rewrite L. f_equal. exact B.
Qed.

Lemma symcells_concat_symtext : forall cells, symcells cells -> symtext a (concat cells).
Proof.
  induction cells as [|s cells IH]; intro H; simpl; [intros c []|].
  destruct (H s (or_introl eq_refl)) as [ch [E [P L]]]. subst s. simpl.
  intros c [Hc|Hc]; [subst; split; assumption|].
  apply IH; [intros t Ht; apply H; right; exact Ht | exact Hc].
Qed.

(* ---- one row ---- *)

Lemma existsb_same_taxon_false : forall name (st : matrix),
  ~ In (lower name) (map (fun r => lower (fst r)) st) ->
  existsb (fun row => same_taxon lower name (fst row)) st = false.
Proof.
  intros name st H. induction st as [|r st IH]; simpl; [reflexivity|].
  simpl in H. apply orb_false_iff. split.
  - unfold same_taxon. apply text_eqb_neq. intro E. apply H. left. symmetry. exact E.
  - apply IH. intro X. apply H. right. exact X.
Qed.

Lemma header_step : forall label (st : matrix),
  fasta_label_ok label = true ->
  ~ In (lower label) (map (fun r => lower (fst r)) st) ->
  (forall r, In r st -> snd r <> []) ->
  fasta_step lower a st (62 :: label) = Ok ((label, []) :: st).
Proof.
  intros label st Hl Hn Hne. unfold fasta_label_ok in Hl. apply andb_true_iff in Hl.
  destruct Hl as [Hs _]. apply text_eqb_eq in Hs.
  destruct (strip_fix label Hs) as [L R].
  unfold fasta_step.
  assert (S1 : strip (62 :: label) = 62 :: label).
  { unfold strip. simpl lstrip. change (is_space 62) with false. cbv iota.
    destruct label as [|c r].
    - reflexivity.
    - change (62 :: c :: r) with ([62] ++ (c :: r)). rewrite rstrip_app_keep; [rewrite R; reflexivity|].
      rewrite R. discriminate. }
  rewrite S1. rewrite Z.eqb_refl. rewrite Hs.
  rewrite (existsb_same_taxon_false label st Hn).
  destruct st as [|[l0 v0] st']; [reflexivity|].
  destruct v0; [exfalso; apply (Hne (l0, [])); [left; reflexivity | reflexivity] | reflexivity].
Qed.

Lemma label_no_nl : forall label, fasta_label_ok label = true -> no_nl (62 :: label).
Proof.
  intros label H. unfold fasta_label_ok in H. apply andb_true_iff in H. destruct H as [_ H].
  apply negb_true_iff in H. intros c [Hc|Hc]; [subst; discriminate|].
  intro E. subst c.
  assert (existsb (Z.eqb 10) label = true) by (apply existsb_exists; exists 10; split; [exact Hc | reflexivity]).
  congruence.
Qed.

Lemma row_lines_gen : forall hdr B rest, no_nl hdr ->
  split_nl ((hdr ++ 10 :: B ++ [10; 10]) ++ rest) = [hdr] ++ split_nl B ++ [[]] ++ split_nl rest.
Proof.
  intros hdr B rest N.
  replace ((hdr ++ 10 :: B ++ [10; 10]) ++ rest) with (hdr ++ 10 :: (B ++ 10 :: ([] ++ 10 :: rest))).
  - rewrite split_nl_app. rewrite (split_nl_plain _ N). rewrite split_nl_app. rewrite split_nl_app. reflexivity.
  - rewrite <- app_assoc. simpl. rewrite <- app_assoc. reflexivity.
Qed.

Lemma fasta_row_lines : forall wrap width label s rest, no_nl (62 :: label) ->
  split_nl (fasta_row wrap width label (map (state_str a) s) ++ rest)
  = [62 :: label] ++ split_nl (if wrap then fasta_wrap width 0 (map (state_str a) s)
                               else concat (map (state_str a) s) ++ [10]) ++ [[]] ++ split_nl rest.
Proof.
  intros wrap width label s rest N. unfold fasta_row.
  apply (row_lines_gen (62 :: label) _ rest N).
Qed.

Lemma nonnl_symtext : forall t, symtext a t -> nonnl t = t.
Proof.
  induction t as [|c t IH]; intro H; simpl; [reflexivity|].
  destruct (H c (or_introl eq_refl)) as [P _].
  assert (N : c <> 10) by (intro X; subst; discriminate (plain_not_space 10 P)).
  apply Z.eqb_neq in N. rewrite N. simpl. f_equal. apply IH. exact (symtext_cons_inv _ _ _ H).
Qed.

Lemma nonnl_app : forall x y, nonnl (x ++ y) = nonnl x ++ nonnl y.
Proof. intros. unfold nonnl. apply filter_app. Qed.

Lemma body_ok : forall (wrap : bool) width s, forallb (cell_ok a) s = true ->
  let B := if wrap then fasta_wrap width 0 (map (state_str a) s)
           else concat (map (state_str a) s) ++ [10] in
  symnl B /\ st_of a (nonnl B) = s.
Proof.
  intros wrap width s H. destruct (symcells_of_states s H) as [SC ST]. destruct wrap; simpl.
  - destruct (fasta_wrap_ok (map (state_str a) s) width 0 SC) as [A B]. split; [exact A | rewrite B; exact ST].
  - pose proof (symcells_concat_symtext _ SC) as T. split.
    + intros c Hc. apply in_app_or in Hc. destruct Hc as [Hc|[Hc|[]]]; [right; apply T; exact Hc | left; auto].
    + rewrite nonnl_app. rewrite (nonnl_symtext _ T). simpl. rewrite List.app_nil_r. exact ST.
Qed.

Lemma fasta_row_read : forall wrap width label s rest (st : matrix),
  fasta_label_ok label = true -> forallb (cell_ok a) s = true ->
  ~ In (lower label) (map (fun r => lower (fst r)) st) ->
  (forall r, In r st -> snd r <> []) ->
  fasta_lines lower a st (split_nl (fasta_row wrap width label (map (state_str a) s) ++ rest))
  = fasta_lines lower a ((label, s) :: st) (split_nl rest).
Proof.
  intros wrap width label s rest st Hl Hc Hn Hne.
  rewrite (fasta_row_lines wrap width label s rest (label_no_nl label Hl)).
  destruct (body_ok wrap width s Hc) as [SB SS].
  set (B := if wrap then fasta_wrap width 0 (map (state_str a) s) else concat (map (state_str a) s) ++ [10]) in *.
  simpl app. cbn [fasta_lines]. rewrite (header_step label st Hl Hn Hne). cbn [bind].
  rewrite fasta_lines_app. unfold split_nl at 1.
  rewrite (fasta_body_lines B [] label [] st SB) by (intros d []).
  cbn [bind rev st_of map app]. rewrite SS.
  cbn [fasta_lines]. unfold fasta_step at 1. cbn [strip lstrip rstrip bind]. reflexivity.
Qed.

Theorem fasta_roundtrip_gen : forall wrap width (m st : matrix),
  forallb fasta_label_ok (map fst m) = true ->
  cells_ok a m = true ->
  rows_nonempty m = true ->
  (forall r, In r st -> snd r <> []) ->
  NoDup (map lower (map fst (rev st ++ m))) ->
  fasta_lines lower a st (split_nl (write_fasta a wrap width m)) = Ok (rev m ++ st).
Proof.
  intros wrap width m. induction m as [|[label s] m IH]; intros st Hl Hc Hne Hst Hnd.
  - simpl. reflexivity.
  - simpl in Hl, Hc, Hne. apply andb_true_iff in Hl. destruct Hl as [Hl1 Hl2].
    apply andb_true_iff in Hc. destruct Hc as [Hc1 Hc2].
    apply andb_true_iff in Hne. destruct Hne as [Hne1 Hne2].
    unfold write_fasta. cbn [map concat fst snd]. fold (write_fasta a wrap width m).
    rewrite fasta_row_read; try assumption.
    + rewrite IH; try assumption.
      * simpl. rewrite <- app_assoc. reflexivity.
      * intros r [Hr|Hr]; [subst r; simpl; destruct s; [discriminate | discriminate] | apply Hst; exact Hr].
      * simpl. rewrite <- app_assoc. exact Hnd.
    + (* the label is new *)
      rewrite map_app in Hnd. rewrite map_app in Hnd. apply NoDup_remove_2 in Hnd.
      intro X. apply Hnd. apply in_or_app. left.
      rewrite map_rev. rewrite map_rev. apply -> in_rev.
      rewrite map_map. exact X.
Qed.

Theorem fasta_roundtrip_l : forall wrap width (m : matrix),
  forallb fasta_label_ok (map fst m) = true ->
  labels_distinct lower (map fst m) = true ->
  cells_ok a m = true ->
  rows_nonempty m = true ->
  read_fasta lower a (write_fasta a wrap width m) = Ok m.
Proof.
  intros wrap width m Hl Hd Hc Hne. unfold read_fasta.
  rewrite (fasta_roundtrip_gen wrap width m []); try assumption.
  - simpl. rewrite List.app_nil_r. rewrite rev_involutive. reflexivity.
  - intros r [].
  - simpl. apply texts_distinct_NoDup. exact Hd.
Qed.

End Fasta.
