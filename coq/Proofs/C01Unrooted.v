(* C01: unrooted trees.  Equal sets of normalised splits <-> same unrooted topology, where the
   canonical form of the unrooted topology is: move the seed (by rotations along edges) next to the
   leaf carrying the lowest taxon bit, drop that leaf, take the rooted canonical form of the rest. *)
From Coq Require Import ZArith List Bool Lia ZifyBool Permutation.
From DV Require Import Model.PyPrims Model.Tree Gen.BitFns Model.C01Model
  Proofs.C01Bits Proofs.C01Enc Proofs.C01Topo Proofs.C01From.
Import ListNotations.
Open Scope Z_scope.

Definition has_low (acc : Z -> Z) (low : Z) (c : tree) : bool := Z.testbit (cmask acc c) low.

(* first child satisfying p, with the children before and after it *)
Fixpoint split_at (p : tree -> bool) (ks : list tree) : option (list tree * tree * list tree) :=
  match ks with
  | [] => None
  | c :: r =>
    if p c then Some ([], c, r)
    else match split_at p r with
         | Some (pre, d, post) => Some (c :: pre, d, post)
         | None => None
         end
  end.

(* one rotation towards the leaf `low`: its ancestor child c becomes the seed *)
Definition rot_step (acc : Z -> Z) (low : Z) (t : tree) : option tree :=
  match t with
  | T i _ _ _ ks =>
    match split_at (has_low acc low) ks with
    | Some (pre, T ic _ _ _ (k0 :: kr), post) =>
      Some (T ic None None None ((k0 :: kr) ++ [T i None None None (pre ++ post)]))
    | _ => None
    end
  end.

Fixpoint reroot (acc : Z -> Z) (low : Z) (fuel : nat) (t : tree) : tree :=
  match fuel with
  | O => t
  | S f => match rot_step acc low t with Some t' => reroot acc low f t' | None => t end
  end.

(* number of edges from the seed to the leaf `low` (following the first child that contains it) *)
Fixpoint dl (acc : Z -> Z) (low : Z) (t : tree) : nat :=
  match t with
  | T _ _ _ _ ks =>
    (fix go (l : list tree) : nat :=
       match l with
       | [] => O
       | c :: r => if has_low acc low c then S (dl acc low c) else go r
       end) ks
  end.

(* the seed's children without the first one containing `low` *)
Definition drop_low (acc : Z -> Z) (low : Z) (t : tree) : tree :=
  match t with
  | T _ _ _ _ ks =>
    match split_at (has_low acc low) ks with
    | Some (pre, _, post) => T 0 None None None (pre ++ post)
    | None => t
    end
  end.

Definition low_of (acc : Z -> Z) (t : tree) : Z := Z.log2 (py_least_significant_set_bit (cmask acc t)).

Definition ucanon (acc : Z -> Z) (t : tree) : tree :=
  let low := low_of acc t in
  canon acc (drop_low acc low (reroot acc low (dl acc low t) t)).

(* ------------------------------------------------------------------------------------------ *)

Lemma split_at_spec p ks pre c post : split_at p ks = Some (pre, c, post) ->
  ks = pre ++ c :: post /\ p c = true /\ forallb (fun d => negb (p d)) pre = true.
Proof.
  revert pre c post. induction ks as [|k r IH]; intros pre c post H; [discriminate|].
  cbn [split_at] in H. destruct (p k) eqn:E.
  - inversion H; subst. repeat split; assumption.
  - destruct (split_at p r) as [[[pre' d] post']|] eqn:ES; [| discriminate]. inversion H; subst.
    destruct (IH pre' c post eq_refl) as (E1 & E2 & E3). subst r. repeat split; [exact E2|].
    cbn [forallb]. rewrite E, E3. reflexivity.
Qed.

Lemma split_at_none p ks : split_at p ks = None -> forallb (fun d => negb (p d)) ks = true.
Proof.
  induction ks as [|k r IH]; intro H; [reflexivity|]. cbn [split_at] in H. destruct (p k) eqn:E; [discriminate|].
  destruct (split_at p r) as [[[pre' d] post']|]; [discriminate|]. cbn [forallb]. rewrite E, IH; reflexivity.
Qed.

Lemma dl_go acc low i x l e ks :
  dl acc low (T i x l e ks) =
  match split_at (has_low acc low) ks with Some (_, c, _) => S (dl acc low c) | None => O end.
Proof.
  cbn [dl]. induction ks as [|k r IH]; [reflexivity|]. cbn [split_at].
  destruct (has_low acc low k); [reflexivity|]. rewrite IH.
  destruct (split_at (has_low acc low) r) as [[[pre d] post]|]; reflexivity.
Qed.

Lemma rot_step_uequiv acc low t t' :
  (2 <= length (t_kids t))%nat -> rot_step acc low t = Some t' -> uequiv t t'.
Proof.
  destruct t as [i x l e ks]. cbn [t_kids rot_step]. intros L H.
  destruct (split_at (has_low acc low) ks) as [[[pre c] post]|] eqn:ES; [| discriminate].
  destruct c as [ic xc lc ec [|k0 kr]]; [discriminate|]. inversion H; subst.
  destruct (split_at_spec _ _ _ _ _ ES) as (-> & _ & _).
  rewrite app_comm_cons. apply ue_rot; [discriminate|]. intro E0. apply app_eq_nil in E0. destruct E0; subst. simpl in L. lia.
Qed.

Lemma rot_step_kids acc low t t' : rot_step acc low t = Some t' -> (2 <= length (t_kids t'))%nat.
Proof.
  destruct t as [i x l e ks]. cbn [rot_step]. intro H.
  destruct (split_at (has_low acc low) ks) as [[[pre c] post]|]; [| discriminate].
  destruct c as [ic xc lc ec [|k0 kr]]; [discriminate|]. inversion H; subst. cbn [t_kids]. cbn [length]. rewrite app_length. simpl. lia.
Qed.

Lemma reroot_uequiv acc low : forall n t, (2 <= length (t_kids t))%nat ->
  uequiv t (reroot acc low n t) /\ (2 <= length (t_kids (reroot acc low n t)))%nat.
Proof.
  induction n as [|n IH]; intros t L; cbn [reroot]; [split; [apply ue_t, te_refl | exact L]|].
  destruct (rot_step acc low t) as [t'|] eqn:E; [| split; [apply ue_t, te_refl | exact L]].
  destruct (IH t' (rot_step_kids _ _ _ _ E)) as [U L']. split; [| exact L'].
  apply (ue_trans _ t'); [apply (rot_step_uequiv acc low); assumption | exact U].
Qed.

(* has_low on a node = some child has it *)
Lemma has_low_node acc low i x l e ks : ks <> [] ->
  has_low acc low (T i x l e ks) = existsb (has_low acc low) ks.
Proof.
  intro NE. unfold has_low. rewrite cmask_nonleaf by exact NE.
  induction ks as [|k r IH]; [congruence|]. cbn [map fold_right existsb]. rewrite Z.lor_spec.
  destruct r as [|k2 r2]; [cbn; rewrite Z.bits_0; reflexivity|]. rewrite IH by discriminate. reflexivity.
Qed.

Lemma split_at_exists p ks : existsb p ks = true -> exists pre c post, split_at p ks = Some (pre, c, post).
Proof.
  induction ks as [|k r IH]; [discriminate|]. cbn [existsb split_at]. destruct (p k); [eauto|].
  cbn [orb]. intro H. destruct (IH H) as (pre & c & post & ->). eauto.
Qed.

Lemma split_at_app_first p l1 l2 : existsb p l1 = true ->
  match split_at p (l1 ++ l2) with Some (_, c, _) => Some c | None => None end =
  match split_at p l1 with Some (_, c, _) => Some c | None => None end.
Proof.
  induction l1 as [|k r IH]; [discriminate|]. cbn [existsb app split_at]. destruct (p k); [reflexivity|].
  cbn [orb]. intro H. specialize (IH H).
  destruct (split_at p (r ++ l2)) as [[[a b] c]|], (split_at p r) as [[[a' b'] c']|]; congruence.
Qed.

(* each rotation brings the seed one edge closer *)
Lemma rot_step_dl acc low t t' : rot_step acc low t = Some t' -> dl acc low t = S (dl acc low t').
Proof.
  destruct t as [i x l e ks]. cbn [rot_step]. intro H. rewrite dl_go.
  destruct (split_at (has_low acc low) ks) as [[[pre c] post]|] eqn:ES; [| discriminate].
  destruct (split_at_spec _ _ _ _ _ ES) as (_ & Hc & _).
  destruct c as [ic xc lc ec [|k0 kr]]; [discriminate|]. inversion H; subst. f_equal.
  rewrite !dl_go. rewrite has_low_node in Hc by discriminate.
  pose proof (split_at_app_first (has_low acc low) (k0 :: kr) [T i None None None (pre ++ post)] Hc) as A.
  rewrite <- app_comm_cons in A.
  destruct (split_at (has_low acc low) (k0 :: kr ++ [T i None None None (pre ++ post)])) as [[[a b] c]|],
           (split_at (has_low acc low) (k0 :: kr)) as [[[a' b'] c']|]; congruence.
Qed.

Lemma reroot_done acc low : forall n t, (dl acc low t <= n)%nat -> rot_step acc low (reroot acc low n t) = None.
Proof.
  induction n as [|n IH]; intros t H; cbn [reroot].
  - destruct (rot_step acc low t) as [t'|] eqn:E; [| reflexivity]. apply rot_step_dl in E. lia.
  - destruct (rot_step acc low t) as [t'|] eqn:E; [| exact E]. apply IH. apply rot_step_dl in E. lia.
Qed.

(* ------------------------------------------------------------------------------------------ *)
(* the seed next to the leaf `low`                                                             *)

Lemma low_of_lowest acc t : cmask acc t <> 0 -> lowest (cmask acc t) (low_of acc t).
Proof.
  intro N. destruct (lsb_pow2 _ N) as (k & Hk & E). unfold low_of. rewrite E.
  rewrite Z.log2_pow2 by (destruct Hk; assumption). exact Hk.
Qed.

Lemma norm_id S low m : lowest S low -> Z.testbit m low = false -> msubset m S -> norm S m = m.
Proof.
  intros Hl Hm Sub. assert (SN : S <> 0).
  { destruct Hl as (_ & H & _). intro E. unfold mem in H. rewrite E, Z.bits_0 in H. discriminate. }
  unfold norm. destruct (lsb_pow2 S SN) as (k & Hk & E). assert (k = low) by (apply (lowest_unique S); assumption).
  subst k. rewrite E, normalize_eq by (destruct Hl; assumption). rewrite Hm. apply msubset_land. exact Sub.
Qed.

Lemma norm_full S : S <> 0 -> norm S S = 0.
Proof.
  intro SN. unfold norm. destruct (lsb_pow2 S SN) as (k & (Hk0 & Hk1 & _) & E). rewrite E, normalize_eq by exact Hk0.
  unfold mem in Hk1. rewrite Hk1. apply eq0_bits. intros i Hi. rewrite Z.land_spec, Z.lnot_spec by lia.
  destruct (Z.testbit S i); reflexivity.
Qed.

Lemma NoDup_app_mid {A} (a b c : list A) : NoDup (a ++ b ++ c) -> NoDup (a ++ c).
Proof.
  intro N. apply (NoDup_app_r b). apply (Permutation_NoDup (l := a ++ b ++ c)); [| exact N].
  rewrite !app_assoc. apply Permutation_app_tail. apply Permutation_app_comm.
Qed.

Section Seeded.
  Variable acc : Z -> Z.
  Hypothesis Hnn : forall x, 0 <= acc x.
  Hypothesis Hinj : forall x y, acc x = acc y -> x = y.

  (* t: seed with >= 2 children, no further rotation possible: the child containing `low` is a leaf *)
  Lemma seeded_shape low t :
    leaves_ok t = true -> (2 <= length (t_kids t))%nat -> lowest (cmask acc t) low ->
    rot_step acc low t = None ->
    exists i x l e pre ic xc lc ec post,
      t = T i x l e (pre ++ T ic xc lc ec [] :: post) /\
      drop_low acc low t = T 0 None None None (pre ++ post) /\ pre ++ post <> [] /\
      has_low acc low (T ic xc lc ec []) = true.
  Proof.
    intros LK L Hl RS. destruct t as [i x l e ks]. cbn [t_kids] in L.
    assert (NE : ks <> []) by (destruct ks; [simpl in L; lia | discriminate]).
    assert (HL : has_low acc low (T i x l e ks) = true) by (destruct Hl as (_ & H & _); exact H).
    rewrite has_low_node in HL by exact NE.
    destruct (split_at_exists _ _ HL) as (pre & c & post & ES).
    cbn [rot_step] in RS. rewrite ES in RS. destruct c as [ic xc lc ec [|k0 kr]]; [| discriminate].
    destruct (split_at_spec _ _ _ _ _ ES) as (-> & Hc & _).
    exists i, x, l, e, pre, ic, xc, lc, ec, post. split; [reflexivity|]. split; [cbn [drop_low]; rewrite ES; reflexivity|].
    split; [| exact Hc]. intro E0. apply app_eq_nil in E0. destruct E0; subst. simpl in L. lia.
  Qed.

  Lemma seeded_uset low t :
    leaves_ok t = true -> (2 <= length (t_kids t))%nat -> lowest (cmask acc t) low ->
    rot_step acc low t = None ->
    set_eq (uset acc t) (0 :: clades acc (drop_low acc low t)) /\ leaves_ok (drop_low acc low t) = true.
  Proof.
    intros LK L Hl RS.
    destruct (seeded_shape low t LK L Hl RS) as (i & x & l & e & pre & ic & xc & lc & ec & post & -> & DR & NE & Hc).
    rewrite DR. set (c := T ic xc lc ec []) in *. set (d := T 0 None None None (pre ++ post)).
    set (t := T i x l e (pre ++ c :: post)) in *. set (S := cmask acc t) in *.
    pose proof (leaves_ok_nonzero acc Hnn Hinj t LK) as SN. destruct (leaves_ok_parts t LK) as [HT ND].
    assert (LTd : leaf_taxa d = flat_map leaf_taxa (pre ++ post)) by (unfold d; destruct (pre ++ post); [congruence | reflexivity]).
    assert (LTt : leaf_taxa t = flat_map leaf_taxa pre ++ leaf_taxa c ++ flat_map leaf_taxa post).
    { unfold t. destruct pre; cbn [app]; rewrite leaf_taxa_node; [reflexivity|].
      cbn [flat_map]. rewrite flat_map_app. cbn [flat_map]. rewrite <- app_assoc. reflexivity. }
    assert (DJ : mdisjoint (cmask acc c) (cmask acc d)).
    { unfold cmask. apply (masks_disjoint acc Hnn Hinj). intros y H0 H1. rewrite LTd, flat_map_app in H1.
      rewrite LTt in ND. apply in_app_or in H1. destruct H1 as [H1 | H1].
      - apply (NoDup_app_disjoint _ _ y ND H1). apply in_or_app. left. exact H0.
      - apply (NoDup_app_disjoint _ _ y (NoDup_app_r _ _ ND) H0 H1). }
    assert (US : Z.lor (cmask acc c) (cmask acc d) = S).
    { unfold S, cmask. rewrite <- mask_of_app. apply mask_of_perm. rewrite LTt, LTd, flat_map_app.
      rewrite app_assoc, app_assoc. apply Permutation_app_tail. apply Permutation_app_comm. }
    assert (DS : msubset (cmask acc d) S).
    { intros j Hj H. unfold mem. rewrite <- US, Z.lor_spec. unfold mem in H. rewrite H. apply orb_true_r. }
    assert (DL : Z.testbit (cmask acc d) low = false).
    { destruct (Z.testbit (cmask acc d) low) eqn:E; [| reflexivity]. exfalso.
      destruct Hl as (Hl0 & _ & _). exact (DJ low Hl0 Hc E). }
    assert (ND' : norm S (cmask acc d) = cmask acc d) by (apply (norm_id S low); assumption).
    assert (NC : norm S (cmask acc c) = cmask acc d) by (rewrite (norm_complement S _ _ SN DJ US); exact ND').
    assert (NY : forall k y, In k (pre ++ post) -> In y (clades acc k) -> norm S y = y).
    { intros k y Hk Hy.
      assert (YD : msubset y (cmask acc d)).
      { apply (msubset_trans _ (cmask acc k)); [apply clades_sub; exact Hy|]. unfold d. apply child_subset. exact Hk. }
      apply (norm_id S low); [exact Hl | | apply (msubset_trans _ _ _ YD DS)].
      destruct (Z.testbit y low) eqn:E; [| reflexivity]. destruct Hl as (Hl0 & _ & _).
      specialize (YD low Hl0 E). unfold mem in YD. congruence. }
    split.
    - intro m. unfold uset. fold S. rewrite in_map_iff. cbn [In]. split.
      + intros (y & <- & Hy). unfold t in Hy. apply (in_clades_node acc) in Hy. fold t in Hy. fold S in Hy.
        destruct Hy as [(k & Hk & Hy) | ->].
        * apply in_app_or in Hk. destruct Hk as [Hk | [<- | Hk]].
          -- right. rewrite (NY k y (in_or_app _ _ _ (or_introl Hk)) Hy).
             unfold d. apply (in_clades_node acc). left. exists k. split; [apply in_or_app; left; exact Hk | exact Hy].
          -- unfold c in Hy. rewrite clades_node in Hy. cbn [flat_map app] in Hy. destruct Hy as [<- | []].
             fold c. rewrite NC. right. apply cmask_in_clades.
          -- right. rewrite (NY k y (in_or_app _ _ _ (or_intror Hk)) Hy).
             unfold d. apply (in_clades_node acc). left. exists k. split; [apply in_or_app; right; exact Hk | exact Hy].
        * left. symmetry. apply norm_full. exact SN.
      + intros [<- | Hm].
        * exists S. split; [apply norm_full; exact SN|]. unfold t. apply (in_clades_node acc). right. reflexivity.
        * unfold d in Hm. apply (in_clades_node acc) in Hm. fold d in Hm. destruct Hm as [(k & Hk & Hy) | ->].
          -- exists m. split; [apply (NY k m Hk Hy)|]. unfold t. apply (in_clades_node acc). left. exists k. split; [| exact Hy].
             apply in_app_or in Hk. apply in_or_app. destruct Hk as [Hk | Hk]; [left; exact Hk | right; right; exact Hk].
          -- exists (cmask acc c). split; [exact NC|]. unfold t. apply (in_clades_node acc). left. exists c.
             split; [apply in_or_app; right; left; reflexivity | apply cmask_in_clades].
    - apply (leaves_ok_of_perm d (leaf_taxa d) (Permutation_refl _)).
      + rewrite LTd, flat_map_app. rewrite LTt in HT. rewrite !forallb_app in *. 
        apply andb_true_iff in HT. destruct HT as [H1 H2]. apply andb_true_iff in H2. destruct H2 as [_ H2].
        rewrite H1, H2. reflexivity.
      + rewrite LTd, flat_map_app. rewrite LTt in ND. apply (NoDup_app_mid _ _ _ ND).
  Qed.
End Seeded.

(* ------------------------------------------------------------------------------------------ *)
(* splits_iff_topology, unrooted                                                               *)

Lemma set_eq_cons0 l1 l2 : ~ In 0 l1 -> ~ In 0 l2 -> (set_eq (0 :: l1) (0 :: l2) <-> set_eq l1 l2).
Proof.
  intros N1 N2. split; intros E m.
  - specialize (E m). cbn [In] in E. split; intro H.
    + destruct (proj1 E (or_intror H)) as [<- | H']; [contradiction | exact H'].
    + destruct (proj2 E (or_intror H)) as [<- | H']; [contradiction | exact H'].
  - cbn [In]. rewrite (E m). reflexivity.
Qed.

Section UnrootedIff.
  Variable acc : Z -> Z.
  Hypothesis Hnn : forall x, 0 <= acc x.
  Hypothesis Hinj : forall x y, acc x = acc y -> x = y.

  Lemma clades_no_zero t : leaves_ok t = true -> ~ In 0 (clades acc t).
  Proof.
    intros LK H. destruct (leaves_ok_parts t LK) as [HT ND]. apply (clades_canon acc t 0) in H.
    apply (clades_nonzero acc Hnn (canon acc t) 0); [apply good_canon; assumption | exact H | reflexivity].
  Qed.

  (* the rerooted, low-leaf-free rooted tree carries the split set *)
  Lemma uset_as_clades t : leaves_ok t = true -> (2 <= length (t_kids t))%nat ->
    let low := low_of acc t in
    let d := drop_low acc low (reroot acc low (dl acc low t) t) in
    set_eq (uset acc t) (0 :: clades acc d) /\ leaves_ok d = true.
  Proof.
    intros LK L low d. set (t' := reroot acc low (dl acc low t) t) in *.
    destruct (reroot_uequiv acc low (dl acc low t) t L) as [U L']. fold t' in U, L'.
    assert (LK' : leaves_ok t' = true) by (apply (leaves_ok_perm t t'); [apply uequiv_leaf_taxa; exact U | exact LK]).
    assert (CM : cmask acc t' = cmask acc t).
    { unfold cmask. symmetry. apply mask_of_perm. apply uequiv_leaf_taxa. exact U. }
    pose proof (leaves_ok_nonzero acc Hnn Hinj t LK) as SN.
    assert (Hl : lowest (cmask acc t') low) by (rewrite CM; apply low_of_lowest; exact SN).
    assert (RS : rot_step acc low t' = None) by (apply reroot_done; lia).
    destruct (seeded_uset acc Hnn Hinj low t' LK' L' Hl RS) as [E LD]. split; [| exact LD].
    apply (set_eq_trans _ (uset acc t')); [apply (uequiv_uset acc t t' Hnn Hinj U LK) | exact E].
  Qed.

  Lemma usplits_iff_ucanon t1 t2 :
    leaves_ok t1 = true -> leaves_ok t2 = true ->
    (2 <= length (t_kids t1))%nat -> (2 <= length (t_kids t2))%nat ->
    cmask acc t1 = cmask acc t2 ->
    (set_eq (uset acc t1) (uset acc t2) <-> ucanon acc t1 = ucanon acc t2).
  Proof.
    intros LK1 LK2 L1 L2 CM.
    destruct (uset_as_clades t1 LK1 L1) as [E1 D1]. destruct (uset_as_clades t2 LK2 L2) as [E2 D2].
    cbv zeta in *. unfold ucanon.
    set (d1 := drop_low acc (low_of acc t1) (reroot acc (low_of acc t1) (dl acc (low_of acc t1) t1) t1)) in *.
    set (d2 := drop_low acc (low_of acc t2) (reroot acc (low_of acc t2) (dl acc (low_of acc t2) t2) t2)) in *.
    rewrite <- (clades_iff_canon acc Hnn Hinj d1 d2 D1 D2).
    rewrite <- (set_eq_cons0 _ _ (clades_no_zero d1 D1) (clades_no_zero d2 D2)).
    split; intro E.
    - apply (set_eq_trans _ (uset acc t1)); [apply set_eq_sym; exact E1|].
      apply (set_eq_trans _ (uset acc t2)); [exact E | exact E2].
    - apply (set_eq_trans _ (0 :: clades acc d1)); [exact E1|].
      apply (set_eq_trans _ (0 :: clades acc d2)); [exact E | apply set_eq_sym; exact E2].
  Qed.

  (* ucanon does not depend on child order, unifurcations or the position of the seed *)
  Lemma ucanon_invariant t1 t2 :
    leaves_ok t1 = true -> (2 <= length (t_kids t1))%nat -> (2 <= length (t_kids t2))%nat ->
    uequiv t1 t2 -> ucanon acc t1 = ucanon acc t2.
  Proof.
    intros LK1 L1 L2 U.
    assert (LK2 : leaves_ok t2 = true) by (apply (leaves_ok_perm t1 t2); [apply uequiv_leaf_taxa; exact U | exact LK1]).
    assert (CM : cmask acc t1 = cmask acc t2) by (unfold cmask; apply mask_of_perm, uequiv_leaf_taxa; exact U).
    apply (usplits_iff_ucanon t1 t2 LK1 LK2 L1 L2 CM). apply (uequiv_uset acc t1 t2 Hnn Hinj U LK1).
  Qed.

  (* on the encodings themselves *)
  Lemma splits_iff_topology_unrooted_l r1 r2 t1 t2 :
    is_true r1 = false -> is_true r2 = false ->
    leaves_ok t1 = true -> leaves_ok t2 = true ->
    (2 <= length (t_kids t1))%nat -> (2 <= length (t_kids t2))%nat ->
    cmask acc t1 = cmask acc t2 ->
    (set_eq (enc_splits (encode acc r1 t1)) (enc_splits (encode acc r2 t2)) <-> ucanon acc t1 = ucanon acc t2).
  Proof.
    intros R1 R2 LK1 LK2 L1 L2 CM. rewrite <- (usplits_iff_ucanon t1 t2 LK1 LK2 L1 L2 CM).
    pose proof (unrooted_splits_are_uset acc r1 t1 Hnn Hinj R1 LK1) as A1.
    pose proof (unrooted_splits_are_uset acc r2 t2 Hnn Hinj R2 LK2) as A2.
    split; intro E.
    - apply (set_eq_trans _ _ _ (set_eq_sym _ _ A1)). apply (set_eq_trans _ _ _ E A2).
    - apply (set_eq_trans _ _ _ A1). apply (set_eq_trans _ _ _ E (set_eq_sym _ _ A2)).
  Qed.
End UnrootedIff.
