(* C20, translator tie for the NEXUS character block: the methods GENERATED from the source by py/dv/gen_nexuschars.py
   (Gen/NexusChars.v, over the primitives of Model/C20NexusPrims.v) against the hand-written skeleton of
   Model/C20Nexus2.v.   Part 1: NexusReader._parse_format_statement = parse_format. *)
From Coq Require Import String Ascii ZArith List Bool Lia.
From DV Require Import Model.PyPrims Gen.ReaderLoops Model.Tokenizer Model.Newick Model.C20Model Model.C20Nexus2
  Model.C20NexusPrims Gen.NexusChars Proofs.C20NexusDims.
Import ListNotations.
Close Scope string_scope.
Open Scope list_scope.
Open Scope Z_scope.

Lemma seqb_true a b : seqb a b = true -> a = b.
Proof. unfold seqb, Tokenizer.str_eqb. intro H. apply (list_eqb_eq Z.eqb Z.eqb_eq) in H. exact H. Qed.

Lemma str_is_true t lit : str_is t lit = true -> t = s_of lit.
Proof. apply seqb_true. Qed.

(* the loop records of the two loops of _parse_format_statement, computed from the generated table *)
Lemma rec_format : guard_extra L_format = (fun _ _ => true) /\ uniform_prim L_format = FRequireNextTokenUcase
                   /\ guard_extra L_symbols = (fun _ _ => true) /\ uniform_prim L_symbols = FRequireNextTokenUcase.
Proof. repeat split; vm_compute; reflexivity. Qed.

Section Fmt.
Variable upper lower : str -> str.
Variable F : nat.

Definition fetchU (st : nstate) : nr (option str * nstate) := ucase upper (require_next_token st).

Lemma require_some st o st' : require_next_token st = ROk (o, st') -> exists t, o = Some t.
Proof.
  unfold require_next_token, nadvance. destruct (Tokenizer.next_token (st_cfg st) (n_rest st)); intro H; inversion H; subst.
  cbn. eauto.
Qed.

Lemma fetchU_some st o st' : fetchU st = ROk (o, st') -> exists t, o = Some t.
Proof.
  unfold fetchU, ucase. destruct (require_next_token st) as [[o1 s1]| |] eqn:E; cbn [nbind]; intro H; try discriminate.
  destruct (require_some _ _ _ E) as [t Et]. subst o1. inversion H; subst. eauto.
Qed.

(* the generated fetch, in terms of the skeleton's *)
Lemma py_fetchU st : py_require_next_token_ucase upper st
  = match fetchU st with
    | ROk (Some t, st') => ROk (t, st')
    | ROk (None, _) => RErr ParseErr
    | RErr e => RErr e
    | RFuel => RFuel
    end.
Proof.
  unfold py_require_next_token_ucase, unwrap_tok. fold (fetchU st).
  destruct (fetchU st) as [[[t|] s]| |]; reflexivity.
Qed.

(* the tokenizer does not look at the payload *)
Lemma nadvance_upd_pay st p : nadvance (upd_pay st p)
  = match nadvance st with
    | GotTok s => GotTok (upd_pay s p) | GotEnd s => GotEnd (upd_pay s p) | GotErr e => GotErr e | GotFuel => GotFuel
    end.
Proof.
  unfold nadvance. change (st_cfg (upd_pay st p)) with (st_cfg st). change (n_rest (upd_pay st p)) with (n_rest st).
  destruct (Tokenizer.next_token (st_cfg st) (n_rest st)); reflexivity.
Qed.

Lemma fetchU_upd_pay st p : fetchU (upd_pay st p)
  = match fetchU st with ROk (o, s) => ROk (o, upd_pay s p) | RErr e => RErr e | RFuel => RFuel end.
Proof.
  unfold fetchU, ucase, require_next_token. rewrite nadvance_upd_pay.
  destruct (nadvance st) as [s|s|e|]; cbn [nbind]; try reflexivity.
  change (n_cur (upd_pay s p)) with (n_cur s). destruct (n_cur s); reflexivity.
Qed.

(* with the SYMBOLS string replaced *)
Definition psym (p : payload) (v : str) : payload :=
  mkP (p_ntax p) (p_nchar p) (p_tns p) (p_mats p) (p_trees p) (p_dtype p) v (p_gap p) (p_missing p) (p_match p) (p_interleave p).

Lemma set_symbols_pay st v : set_symbols st v = upd_pay st (psym (pay st) v).
Proof. reflexivity. Qed.

Lemma fetchU_PE st o s : fetchU st = ROk (o, s) -> pay s = pay st.
Proof. intro H. exact (ucase_PE upper st _ (o, s) (require_next_token_PE st) H). Qed.

Lemma fetchU_set_symbols st v : fetchU (set_symbols st v)
  = match fetchU st with ROk (o, s) => ROk (o, set_symbols s v) | RErr e => RErr e | RFuel => RFuel end.
Proof.
  rewrite set_symbols_pay, fetchU_upd_pay. destruct (fetchU st) as [[o s]| |] eqn:E; try reflexivity.
  rewrite set_symbols_pay. rewrite (fetchU_PE _ _ _ E). reflexivity.
Qed.

(* the SYMBOLS list: the generated loop keeps self._symbols in the state, the skeleton in an accumulator *)
Lemma symbols_loop_eq : forall f t st acc,
  NexusReader_parse_format_statement_loop2 upper f t (set_symbols st acc)
  = dn r <- symbols_loop upper f (Some t) st acc ;;
    match r with (acc', st') => ROk (s_of """"%string, set_symbols st' acc') end.
Proof.
  destruct rec_format as [_ [_ [G K]]].
  induction f as [|f IH]; intros t st acc; [reflexivity|].
  cbn [NexusReader_parse_format_statement_loop2 symbols_loop]. rewrite G, K. cbn [andb fetch].
  change (tok_is (Some t) """"%string) with (str_is t """"%string).
  destruct (str_is t """"%string) eqn:Et; cbn [negb nbind].
  - apply str_is_true in Et. subst t. reflexivity.
  - unfold get_symbols. change (n_symbols (set_symbols st acc)) with acc. unfold py_in_str.
    assert (E1 : (if negb (is_substr t acc) then set_symbols (set_symbols st acc) (acc ++ t) else set_symbols st acc)
                 = set_symbols st (if is_substr t acc then acc else acc ++ t)).
    { destruct (is_substr t acc); reflexivity. }
    cbv zeta. rewrite E1. rewrite py_fetchU, fetchU_set_symbols. fold (fetchU st).
    destruct (fetchU st) as [[o s]| |] eqn:E; cbn [nbind fst snd]; try reflexivity.
    destruct (fetchU_some _ _ _ E) as [t' Et']. subst o. apply IH.
Qed.

Lemma starts_with_N_eq t : py_startswith t "N"%string = starts_with_N (Some t).
Proof.
  unfold py_startswith. change (s_of "N"%string) with [78]. destruct t as [|y t']; [reflexivity|].
  cbn [is_prefix starts_with_N]. rewrite andb_true_r.
  destruct (Z.eqb_spec 78 y) as [<-|Hn]; [reflexivity|].
  destruct y as [|p|p]; try reflexivity.
  repeat (destruct p as [p|p|]; try reflexivity; try (exfalso; apply Hn; reflexivity)).
Qed.

Lemma interleave_if st (b : bool) : (if b then set_interleave st false else set_interleave st true) = upd_interleave st (negb b).
Proof. destruct b; reflexivity. Qed.

Lemma std_state (s : nstate) :
  upd_dtype (upd_dtype s (dtype_of "standard"%string) (n_symbols s))
            (n_dtype (upd_dtype s (dtype_of "standard"%string) (n_symbols s))) (s_of "0123456789"%string)
  = upd_dtype s DStd digits10.
Proof. reflexivity. Qed.

Ltac norm_dtype :=
  rewrite ?std_state;
  change (dtype_of "dna"%string) with DDna; change (dtype_of "rna"%string) with DRna;
  change (dtype_of "nucleotide"%string) with DNuc; change (dtype_of "protein"%string) with DProt;
  change (dtype_of "continuous"%string) with DCont.

Ltac compute_lits :=
  repeat match goal with
         | |- context [seqb (s_of ?a) (s_of ?b)] =>
           let v := eval vm_compute in (seqb (s_of a) (s_of b)) in change (seqb (s_of a) (s_of b)) with v
         end.
Ltac tstep :=
  match goal with
  | |- context [seqb ?x (s_of ?l)] =>
    is_var x; let E := fresh "E" in
    destruct (seqb x (s_of l)) eqn:E; [apply seqb_true in E; subst x; compute_lits|];
    cbn [orb andb negb nbind fst snd tok_is]
  end.
Ltac foldU := repeat match goal with |- context [ucase upper (require_next_token ?s)] => change (ucase upper (require_next_token s)) with (fetchU s) end.
Ltac fstep :=
  rewrite ?py_fetchU; foldU;
  match goal with
  | |- context [fetchU ?s0] =>
    let E := fresh "E" in let o := fresh "o" in let s := fresh "s" in
    destruct (fetchU s0) as [[o s]| |] eqn:E; cbn [nbind fst snd]; [|reflexivity|reflexivity];
    let t := fresh "t" in let Et := fresh "Et" in destruct (fetchU_some _ _ _ E) as [t Et]; subst o; cbn [nbind fst snd tok_is]; foldU
  end.

(* the statement loop *)
Lemma format_loop_eq : forall f t st,
  (dn r <- NexusReader_parse_format_statement_loop1 upper lower F f t st ;; ROk (snd r))
  = format_loop upper lower F f (Some t) st.
Proof.
  destruct rec_format as [G [K _]].
  induction f as [|f IH]; intros t st; [reflexivity|].
  cbn [NexusReader_parse_format_statement_loop1 format_loop]. rewrite G, K. cbv zeta. cbn [andb fetch tok_is]. unfold str_is. foldU.
  tstep; [reflexivity|].
  tstep.
  { (* DATATYPE *)
    fstep. tstep; [|reflexivity]. fstep.
    unfold set_data_type, set_symbols.
    repeat (tstep; [norm_dtype; fstep; apply IH|]).
    all: norm_dtype; fstep; apply IH. }
  tstep.
  { (* SYMBOLS *)
    fstep. tstep; [|reflexivity]. fstep. tstep; [|reflexivity].
    rewrite py_fetchU, fetchU_set_symbols.
    match goal with |- context [fetchU ?x] => destruct (fetchU x) as [[ox sx]| |] eqn:Ex end; cbn [nbind fst snd]; try reflexivity.
    destruct (fetchU_some _ _ _ Ex) as [tx Etx]. subst ox. cbn [nbind fst snd tok_is].
    rewrite symbols_loop_eq.
    destruct (symbols_loop upper F (Some tx) sx []) as [[acc' st']| |]; cbn [nbind fst snd]; try reflexivity.
    unfold set_symbols. fstep. apply IH. }
  tstep.
  { (* GAP *) fstep. tstep; [|reflexivity]. fstep. unfold set_gap_char. fstep. apply IH. }
  tstep.
  { (* INTERLEAVE *)
    fstep. tstep.
    - fstep. rewrite interleave_if, starts_with_N_eq. fstep. apply IH.
    - unfold set_interleave. apply IH. }
  tstep.
  { (* MISSING *) fstep. tstep; [|reflexivity]. fstep. unfold set_missing_char. fstep. apply IH. }
  tstep.
  { (* MATCHCHAR *) fstep. tstep; [|reflexivity]. fstep. unfold set_match_char. fstep. apply IH. }
  tstep; [reflexivity|].
  fstep. apply IH.
Qed.

(* NexusReader._parse_format_statement is the skeleton's parse_format *)
Theorem gen_parse_format_eq : forall st,
  NexusReader_parse_format_statement upper lower F st = parse_format upper lower F st.
Proof.
  intro st. unfold NexusReader_parse_format_statement, parse_format.
  destruct rec_format as [_ [K _]].
  rewrite py_fetchU. fold (fetchU st).
  destruct (fetchU st) as [[o s]| |] eqn:E; cbn [nbind fst snd]; try reflexivity.
  destruct (fetchU_some _ _ _ E) as [t Et]. subst o. cbn [nbind fst snd].
  rewrite <- format_loop_eq.
  destruct (NexusReader_parse_format_statement_loop1 upper lower F F t s) as [[t' s']| |]; reflexivity.
Qed.

End Fmt.
