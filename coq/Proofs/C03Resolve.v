(* C03 proofs: Tree.resolve_polytomies keeps the heap a well-formed tree.
   Deterministic branch (rng=None): one round of the while loop, the loop, the loop over the
   polytomy nodes, the operation.  Rng branch: any script. *)
From Coq Require Import ZArith List Bool Lia Permutation.
From DV Require Import Model.PyPrims Model.Tree Model.Heap Model.HeapOps Model.C03Spec
  Proofs.C03Base Proofs.C03Abs Proofs.C03Local Proofs.C03Prims Proofs.C03Collapse Proofs.C03Suppress
  Proofs.C03Reseed Proofs.C03Order Proofs.C03Ops Proofs.C03Ops2 Proofs.C03PruneLoops Proofs.C03Hist.
Import ListNotations. Open Scope Z_scope.

(* ---------- small facts ---------- *)

Lemma wr_single h i x l e :
  has h i = true -> get h i = mkCell None [] e x l -> i < next h -> Wr h (T i x l e []).
Proof.
  intros H G B. split; [|split].
  - apply rep_eq. split; [exact H|split; [exact G|constructor]].
  - rewrite ids_eq. simpl. constructor; [intros []|constructor].
  - intros j Hj. rewrite ids_eq in Hj. simpl in Hj. destruct Hj as [<-|[]]. exact B.
Qed.

Lemma in_plug_kids_sub c nd x l e ks ks' :
  (forall j, In j (flat_map ids ks') -> In j (flat_map ids ks)) ->
  forall j, In j (ids (plug c (T nd x l e ks'))) -> In j (ids (plug c (T nd x l e ks))).
Proof.
  intros I j Hj. apply in_plug in Hj. apply in_plug. destruct Hj as [Hj|Hj]; [left|right; exact Hj].
  rewrite ids_eq in *. destruct Hj as [Hj|Hj]; [left; exact Hj|right; apply I, Hj].
Qed.

Lemma in_plug_root c s : In (t_id s) (ids (plug c s)).
Proof. apply in_plug. left. apply ids_root. Qed.

Lemma in_plug_kid c nd x l e ks k j :
  In k ks -> In j (ids k) -> In j (ids (plug c (T nd x l e ks))).
Proof.
  intros Hk Hj. apply in_plug. left. rewrite ids_eq. right. eapply flat_ids_in; eauto.
Qed.

(* ---------- one round of the deterministic loop ---------- *)

Definition resolve_round_body (node c1 c2 : Z) (h : heap) : hres :=
  let nn1 := next h in
  let h1 := set_elen nn1 (Some 0) (alloc None None None h) in
  hdo h2 <- remove_child_plain node c1 h1 ;;
  hdo h3 <- remove_child_plain node c2 h2 ;;
  hdo h4 <- add_child nn1 c1 h3 ;;
  hdo h5 <- add_child nn1 c2 h4 ;;
  add_child node nn1 h5.

Lemma resolve_det_unfold n limit node h :
  resolve_det (S n) limit node h =
  if limit <? len (kids h node) then
    match kids h node with
    | c1 :: c2 :: _ => hbind (resolve_round_body node c1 c2 h) (resolve_det n limit node)
    | _ => HErr IndexErr h
    end
  else HOk h.
Proof.
  simpl resolve_det. destruct (limit <? len (kids h node)); [|reflexivity].
  destruct (kids h node) as [|c1 [|c2 r]]; try reflexivity.
  unfold resolve_round_body. cbv zeta.
  destruct (remove_child_plain node c1 _) as [h2|? ?|]; simpl; try reflexivity.
  destruct (remove_child_plain node c2 _) as [h3|? ?|]; simpl; try reflexivity.
  destruct (add_child (next h) c1 _) as [h4|? ?|]; simpl; try reflexivity.
  destruct (add_child (next h) c2 _) as [h5|? ?|]; simpl; try reflexivity.
Qed.

Lemma resolve_round h c nd x l e k1 k2 ks :
  Wr h (plug c (T nd x l e (k1 :: k2 :: ks))) ->
  exists h', resolve_round_body nd (t_id k1) (t_id k2) h = HOk h' /\
    Wr h' (plug c (T nd x l e (ks ++ [T (next h) None None (Some 0) [k1; k2]]))) /\
    next h' = next h + 1 /\ rooted h' = rooted h /\ seed h' = seed h /\ grows h h'.
Proof.
  intro W. unfold resolve_round_body. cbv zeta.
  remember (plug c (T nd x l e (k1 :: k2 :: ks))) as t0 eqn:Et0.
  assert (B0 : forall j, In j (ids t0) -> j < next h) by (destruct W as [_ [_ B]]; exact B).
  assert (I1 : forall j, In j (ids k1) -> In j (ids t0)).
  { intros j Hj. subst t0. eapply in_plug_kid; [left; reflexivity|exact Hj]. }
  assert (I2 : forall j, In j (ids k2) -> In j (ids t0)).
  { intros j Hj. subst t0. eapply in_plug_kid; [right; left; reflexivity|exact Hj]. }
  assert (I3 : forall j, In j (ids (plug c (T nd x l e (k2 :: ks)))) -> In j (ids t0)).
  { subst t0. apply in_plug_kids_sub. intros j Hj. simpl. apply in_app_iff. right. exact Hj. }
  assert (I4 : forall j, In j (ids (plug c (T nd x l e ks))) -> In j (ids (plug c (T nd x l e (k2 :: ks))))).
  { apply in_plug_kids_sub. intros j Hj. simpl. apply in_app_iff. right. exact Hj. }
  set (nn := next h) in *.
  destruct (alloc_wf h _ None None None W) as [W0 [R0 Nn]]. fold nn in R0, Nn.
  set (h0 := alloc None None None h) in *.
  set (h1 := set_elen nn (Some 0) h0).
  assert (A1 : same_off [nn] h0 h1) by (unfold h1, set_elen; frame_solve).
  assert (G1 : grows h0 h1) by (unfold h1, set_elen; frame_solve).
  assert (G0 : grows h h0) by (unfold h0; frame_solve).
  assert (W1 : Wr h1 (plug c (T nd x l e ([] ++ k1 :: k2 :: ks)))).
  { simpl app. rewrite <- Et0. apply (wr_frame [nn] h0 h1 _ W0 A1 G1). intros j Hj [<-|[]]. exact (Nn Hj). }
  assert (S1 : Wr h1 (T nn None None (Some 0) [])).
  { apply wr_single.
    - unfold h1. rewrite has_set_elen, Z.eqb_refl. reflexivity.
    - unfold h1. rewrite get_set_elen, Z.eqb_refl. unfold parent, kids, taxon, label, h0.
      rewrite get_alloc. fold nn. rewrite Z.eqb_refl. reflexivity.
    - unfold h1, h0, nn. simpl. lia. }
  (* node.remove_child(c1) *)
  destruct (remove_child_plain_wf h1 c nd x l e [] k1 (k2 :: ks) W1) as [h2 [E2 [W2 [R2 [A2 [G2 P2]]]]]].
  destruct (detached_facts h1 c nd x l e [] k1 (k2 :: ks) W1) as [Nk1 [D1 _]].
  simpl app in W2, D1. rewrite E2. simpl hbind.
  assert (S2 : Wr h2 (T nn None None (Some 0) [])).
  { apply (wr_frame [nd; t_id k1] h1 h2 _ S1 A2 G2). intros j Hj. rewrite ids_eq in Hj. simpl in Hj.
    destruct Hj as [<-|[]]. intros [E|[E|[]]].
    - assert (nd < nn); [|lia]. apply B0. subst t0. apply (in_plug_root c (T nd x l e (k1 :: k2 :: ks))).
    - assert (t_id k1 < nn); [|lia]. apply B0, I1, ids_root. }
  (* node.remove_child(c2) *)
  assert (W2' : Wr h2 (plug c (T nd x l e ([] ++ k2 :: ks)))) by exact W2.
  destruct (remove_child_plain_wf h2 c nd x l e [] k2 ks W2') as [h3 [E3 [W3 [R3 [A3 [G3 P3]]]]]].
  destruct (detached_facts h2 c nd x l e [] k2 ks W2') as [Nk2 [D2 _]].
  simpl app in W3, D2. rewrite E3. simpl hbind.
  assert (R2' : rep h3 None k1).
  { apply (rep_frame_off [nd; t_id k2] h2 h3 None k1 A3 G3); [|exact R2].
    intros j Hj [<-|[<-|[]]]; apply (D1 _ Hj).
    - apply (in_plug_root c (T nd x l e (k2 :: ks))).
    - eapply in_plug_kid; [left; reflexivity|apply ids_root]. }
  assert (S3 : Wr h3 (T nn None None (Some 0) [])).
  { apply (wr_frame [nd; t_id k2] h2 h3 _ S2 A3 G3). intros j Hj. rewrite ids_eq in Hj. simpl in Hj.
    destruct Hj as [<-|[]]. intros [E|[E|[]]].
    - assert (nd < nn); [|lia]. apply B0. subst t0. apply (in_plug_root c (T nd x l e (k1 :: k2 :: ks))).
    - assert (t_id k2 < nn); [|lia]. apply B0, I2, ids_root. }
  assert (N1 : next h1 = nn + 1) by reflexivity.
  destruct P2 as [P2n [P2r P2s]]. destruct P3 as [P3n [P3r P3s]].
  (* nn.add_child(c1) *)
  destruct (add_child_attach h3 CTop nn None None (Some 0) [] None k1 S3 R2' Nk1) as [h4 [E4 [W4 [A4 [G4 P4]]]]].
  { intros j Hj H. simpl plug in H. rewrite ids_eq in H. simpl in H. destruct H as [<-|[]].
    specialize (B0 _ (I1 _ Hj)). lia. }
  { intros j Hj. specialize (B0 _ (I1 _ Hj)). lia. }
  rewrite E4. simpl hbind. simpl app in W4. destruct P4 as [P4n [P4r P4s]].
  assert (W3' : Wr h4 (plug c (T nd x l e ks))).
  { apply (wr_frame [nn; t_id k1] h3 h4 _ W3 A4 G4). intros j Hj [<-|[<-|[]]].
    - specialize (B0 _ (I3 _ (I4 _ Hj))). lia.
    - apply (D1 _ (ids_root k1)). apply I4, Hj. }
  assert (R3' : rep h4 None k2).
  { apply (rep_frame_off [nn; t_id k1] h3 h4 None k2 A4 G4); [|exact R3].
    intros j Hj [<-|[<-|[]]].
    - specialize (B0 _ (I2 _ Hj)). lia.
    - apply (D1 _ (ids_root k1)). eapply in_plug_kid; [left; reflexivity|exact Hj]. }
  (* nn.add_child(c2) *)
  destruct (add_child_attach h4 CTop nn None None (Some 0) [k1] None k2 W4 R3' Nk2) as [h5 [E5 [W5 [A5 [G5 P5]]]]].
  { intros j Hj H. simpl plug in H. rewrite ids_eq in H. simpl in H. rewrite app_nil_r in H.
    destruct H as [<-|H].
    - specialize (B0 _ (I2 _ Hj)). lia.
    - apply (D1 _ H). eapply in_plug_kid; [left; reflexivity|exact Hj]. }
  { intros j Hj. specialize (B0 _ (I2 _ Hj)). lia. }
  rewrite E5. simpl hbind. simpl app in W5. simpl plug in W5. destruct P5 as [P5n [P5r P5s]].
  assert (W3'' : Wr h5 (plug c (T nd x l e ks))).
  { apply (wr_frame [nn; t_id k2] h4 h5 _ W3' A5 G5). intros j Hj [<-|[<-|[]]].
    - specialize (B0 _ (I3 _ (I4 _ Hj))). lia.
    - apply (D2 _ (ids_root k2)). exact Hj. }
  (* node.add_child(nn) *)
  pose proof W5 as [R5 [N5 B5]].
  destruct (add_child_attach h5 c nd x l e ks None (T nn None None (Some 0) [k1; k2]) W3'' R5 N5 ) as [h6 [E6 [W6 [A6 [G6 P6]]]]].
  { intros j Hj H. rewrite ids_eq in Hj. simpl in Hj. rewrite app_nil_r in Hj.
    destruct Hj as [<-|Hj].
    - specialize (B0 _ (I3 _ (I4 _ H))). lia.
    - apply in_app_iff in Hj. destruct Hj as [Hj|Hj].
      + apply (D1 _ Hj). apply I4, H.
      + apply (D2 _ Hj). exact H. }
  { exact B5. }
  simpl t_id in E6. destruct P6 as [P6n [P6r P6s]].
  exists h6. split; [exact E6|split; [exact W6|split; [|split; [|split]]]].
  - rewrite P6n, P5n, P4n, P3n, P2n. exact N1.
  - rewrite P6r, P5r, P4r, P3r, P2r. reflexivity.
  - rewrite P6s, P5s, P4s, P3s, P2s. reflexivity.
  - eapply grows_trans; [exact G0|]. eapply grows_trans; [exact G1|]. eapply grows_trans; [exact G2|].
    eapply grows_trans; [exact G3|]. eapply grows_trans; [exact G4|]. eapply grows_trans; [exact G5|exact G6].
Qed.

(* ---------- the while loop of the deterministic branch ---------- *)

Lemma leaf_taxa_round (ks : list tree) i x l e k1 k2 :
  Permutation (flat_map leaf_taxa (ks ++ [T i x l e [k1; k2]])) (flat_map leaf_taxa (k1 :: k2 :: ks)).
Proof.
  rewrite flat_map_app. simpl. rewrite !app_nil_r.
  etransitivity; [apply Permutation_app_comm|]. rewrite <- app_assoc. reflexivity.
Qed.

Lemma leaf_taxa_kids_flat i x l e ks ks' :
  Permutation (flat_map leaf_taxa ks') (flat_map leaf_taxa ks) ->
  (ks <> [] -> ks' <> []) -> (ks = [] -> ks' = []) ->
  Permutation (leaf_taxa (T i x l e ks')) (leaf_taxa (T i x l e ks)).
Proof.
  intros P A B. destruct ks as [|k r].
  - rewrite (B eq_refl). reflexivity.
  - assert (N : ks' <> []) by (apply A; discriminate).
    rewrite !C03Order.leaf_taxa_node by (assumption || discriminate). exact P.
Qed.

Lemma resolve_det_wf_strong : forall fuel limit h c nd x l e ks,
  Wr h (plug c (T nd x l e ks)) -> (length ks < fuel)%nat ->
  exists h' ks',
    (resolve_det fuel limit nd h = HOk h' \/ resolve_det fuel limit nd h = HErr IndexErr h') /\
    Wr h' (plug c (T nd x l e ks')) /\ next h <= next h' /\ rooted h' = rooted h /\ seed h' = seed h /\
    Permutation (flat_map leaf_taxa ks') (flat_map leaf_taxa ks) /\ (ks <> [] -> ks' <> []) /\
    (ks = [] -> ks' = []) /\ grows h h' /\
    (forall j, In j (flat_map ids ks) -> In j (flat_map ids ks')) /\
    (1 <= limit -> resolve_det fuel limit nd h = HOk h').
Proof.
  induction fuel as [|n IH]; intros limit h c nd x l e ks W F; [lia|].
  rewrite resolve_det_unfold.
  pose proof (kids_focus h c _ W) as K. simpl in K. rewrite K, len_map_tid.
  assert (STAY : forall r, (r = HOk h \/ r = HErr IndexErr h) -> (1 <= limit -> r = HOk h) ->
    exists h' ks', (r = HOk h' \/ r = HErr IndexErr h') /\
    Wr h' (plug c (T nd x l e ks')) /\ next h <= next h' /\ rooted h' = rooted h /\ seed h' = seed h /\
    Permutation (flat_map leaf_taxa ks') (flat_map leaf_taxa ks) /\ (ks <> [] -> ks' <> []) /\
    (ks = [] -> ks' = []) /\ grows h h' /\
    (forall j, In j (flat_map ids ks) -> In j (flat_map ids ks')) /\ (1 <= limit -> r = HOk h')).
  { intros r Hr Hl. exists h, ks. split; [exact Hr|split; [exact W|split; [lia|]]].
    repeat split; auto. apply grows_refl. }
  destruct (limit <? Z.of_nat (length ks)) eqn:L; [|apply STAY; [left; reflexivity|reflexivity]].
  apply Z.ltb_lt in L.
  destruct ks as [|k1 [|k2 ks0]]; simpl map; cbv iota;
    try (apply STAY; [right; reflexivity|simpl in L; intro; lia]).
  destruct (resolve_round h c nd x l e k1 k2 ks0 W) as [h1 [E1 [W1 [N1 [R1 [S1 G1]]]]]].
  rewrite E1. simpl hbind.
  destruct (IH limit h1 c nd x l e _ W1) as [h' [ks' [E [W' [N' [R' [S' [P' [A' [_ [G' [I' L']]]]]]]]]]]].
  { rewrite app_length. simpl in *. lia. }
  exists h', ks'. split; [exact E|split; [exact W'|split; [lia|split; [congruence|split; [congruence|]]]]].
  split; [|split; [|split; [discriminate|split; [|split; [|exact L']]]]].
  - etransitivity; [exact P'|]. apply leaf_taxa_round.
  - intros _. apply A'. destruct ks0; discriminate.
  - eapply grows_trans; eauto.
  - intros j Hj. apply I'. apply in_flat_map. simpl in Hj. rewrite !in_app_iff in Hj.
    destruct Hj as [Hj|[Hj|Hj]].
    + eexists. split; [apply in_app_iff; right; left; reflexivity|].
      rewrite ids_eq. right. simpl. rewrite !in_app_iff. tauto.
    + eexists. split; [apply in_app_iff; right; left; reflexivity|].
      rewrite ids_eq. right. simpl. rewrite !in_app_iff. tauto.
    + apply in_flat_map in Hj. destruct Hj as [k [Hk Hj]]. exists k. split; [apply in_app_iff; left; exact Hk|exact Hj].
Qed.

Lemma resolve_det_wf : forall fuel limit h c nd x l e ks,
  Wr h (plug c (T nd x l e ks)) -> (length ks < fuel)%nat ->
  exists h' ks',
    (resolve_det fuel limit nd h = HOk h' \/ resolve_det fuel limit nd h = HErr IndexErr h') /\
    Wr h' (plug c (T nd x l e ks')) /\ next h <= next h' /\ rooted h' = rooted h /\ seed h' = seed h /\
    Permutation (flat_map leaf_taxa ks') (flat_map leaf_taxa ks) /\ (ks <> [] -> ks' <> []).
Proof.
  intros fuel limit h c nd x l e ks W F.
  destruct (resolve_det_wf_strong fuel limit h c nd x l e ks W F)
    as [h' [ks' [E [W' [N' [R' [S' [P' [A' _]]]]]]]]].
  exists h', ks'. auto 10.
Qed.

(* ---------- the loop over the polytomy nodes ---------- *)

(* what every prefix of the loop establishes: a well-formed tree with the same root that still
   contains every node of the tree at loop entry, and the same leaf taxa *)
Definition res_inv (t : tree) (h' : heap) : Prop :=
  exists t', Wr h' t' /\ t_id t' = t_id t /\ (forall j, In j (ids t) -> In j (ids t')) /\
             Permutation (leaf_taxa t') (leaf_taxa t).

Lemma res_inv_refl h t : Wr h t -> res_inv t h.
Proof. intro W. exists t. split; [exact W|split; [reflexivity|split; [auto|reflexivity]]]. Qed.

Lemma res_inv_trans t t1 h' :
  t_id t1 = t_id t -> (forall j, In j (ids t) -> In j (ids t1)) ->
  Permutation (leaf_taxa t1) (leaf_taxa t) -> res_inv t1 h' -> res_inv t h'.
Proof.
  intros E I P [t' [W' [E' [I' P']]]]. exists t'.
  split; [exact W'|split; [congruence|split; [auto|etransitivity; eassumption]]].
Qed.

Lemma resolve_each_cons_none limit node r h :
  resolve_each limit (node :: r) None h =
  hbind (resolve_det (S (length (kids h node))) limit node h) (resolve_each limit r None).
Proof. reflexivity. Qed.

Lemma resolve_each_det limit : forall nodes h t,
  Wr h t -> (forall j, In j nodes -> In j (ids t)) ->
  exists h', (resolve_each limit nodes None h = HOk h' \/
              resolve_each limit nodes None h = HErr IndexErr h') /\
    res_inv t h' /\ rooted h' = rooted h /\ seed h' = seed h /\ next h <= next h' /\
    (1 <= limit -> resolve_each limit nodes None h = HOk h').
Proof.
  induction nodes as [|node r IH]; intros h t W H.
  - exists h. simpl. split; [left; reflexivity|split; [apply res_inv_refl, W|split; [|split; [|split]]]]; auto. lia.
  - rewrite resolve_each_cons_none.
    destruct (find_ctx t node (H node (or_introl eq_refl))) as [c [s [Et Es]]].
    destruct s as [nd x l e ks]. simpl in Es. subst nd. subst t.
    pose proof (kids_focus h c _ W) as K. simpl in K. rewrite K, map_length.
    destruct (resolve_det_wf_strong (S (length ks)) limit h c node x l e ks W (Nat.lt_succ_diag_r _))
      as [h1 [ks' [E [W1 [N1 [R1 [S1 [P1 [A1 [B1 [G1 [I1 L1]]]]]]]]]]]].
    assert (Eid : t_id (plug c (T node x l e ks')) = t_id (plug c (T node x l e ks)))
      by (rewrite !plug_id; reflexivity).
    assert (Iid : forall j, In j (ids (plug c (T node x l e ks))) -> In j (ids (plug c (T node x l e ks')))).
    { apply in_plug_kids_sub. exact I1. }
    assert (Plt : Permutation (leaf_taxa (plug c (T node x l e ks'))) (leaf_taxa (plug c (T node x l e ks)))).
    { apply leaf_taxa_plug_perm. apply leaf_taxa_kids_flat; assumption. }
    destruct E as [E|E]; rewrite E; simpl hbind.
    + destruct (IH h1 _ W1) as [h' [E' [Inv [R' [S' [N' L']]]]]].
      { intros j Hj. apply Iid. apply H. right. exact Hj. }
      exists h'. split; [exact E'|split; [|split; [congruence|split; [congruence|split; [lia|exact L']]]]].
      eapply res_inv_trans; eauto.
    + exists h1. split; [right; reflexivity|split; [|split; [exact R1|split; [exact S1|split; [exact N1|]]]]].
      * eapply res_inv_trans; [exact Eid|exact Iid|exact Plt|]. apply res_inv_refl, W1.
      * intro Hl. rewrite (L1 Hl) in E. discriminate.
Qed.

(* ---------- the operation, deterministic branch ---------- *)

Lemma ub_tail_wf ub h t :
  WFt h t -> exists h' t', ub_tail ub h = HOk h' /\ WFt h' t' /\ leaf_taxa t' = leaf_taxa t.
Proof.
  intro W. unfold ub_tail. destruct ub.
  - destruct (encode_structural_wf true true h t W) as [h' [E [W' _]]].
    exists h'. eexists. split; [exact E|split; [exact W'|apply leaf_taxa_spec_encode]].
  - exists h, t. split; [reflexivity|split; [exact W|reflexivity]].
Qed.

Theorem resolve_polytomies_det_outcome limit ub h t :
  WFt h t ->
  finishes (resolve_polytomies limit None ub h)
           (fun h' => exists t', WFt h' t' /\ Permutation (leaf_taxa t') (leaf_taxa t)) [IndexErr].
Proof.
  intro W. unfold resolve_polytomies. rewrite (with_sub_seed h t _ W). pose proof W as [W0 Sd].
  destruct (resolve_each_det limit (filter (fun nd => limit <? len (kids h nd)) (post_ids t)) h t W0)
    as [h1 [E [[t1 [W1 [E1 [_ P1]]]] [_ [S1 _]]]]].
  { intros j Hj. apply filter_In in Hj. apply post_ids_in. tauto. }
  assert (WF1 : WFt h1 t1) by (split; [exact W1|congruence]).
  destruct E as [E|E]; rewrite E; simpl hbind.
  - destruct (ub_tail_wf ub h1 t1 WF1) as [h2 [t2 [E2 [W2 L2]]]].
    left. exists h2. split; [exact E2|]. exists t2. split; [exact W2|]. rewrite L2. exact P1.
  - right. exists IndexErr, h1. split; [reflexivity|split; [left; reflexivity|]].
    exists t1. split; assumption.
Qed.

(* with a limit of at least one the deterministic branch returns normally *)
Theorem resolve_polytomies_det_ok limit ub h t :
  1 <= limit -> WFt h t ->
  exists h' t', resolve_polytomies limit None ub h = HOk h' /\ WFt h' t' /\
                Permutation (leaf_taxa t') (leaf_taxa t).
Proof.
  intros Hl W. unfold resolve_polytomies. rewrite (with_sub_seed h t _ W). pose proof W as [W0 Sd].
  destruct (resolve_each_det limit (filter (fun nd => limit <? len (kids h nd)) (post_ids t)) h t W0)
    as [h1 [_ [[t1 [W1 [E1 [_ P1]]]] [_ [S1 [_ L1]]]]]].
  { intros j Hj. apply filter_In in Hj. apply post_ids_in. tauto. }
  assert (WF1 : WFt h1 t1) by (split; [exact W1|congruence]).
  rewrite (L1 Hl). simpl hbind.
  destruct (ub_tail_wf ub h1 t1 WF1) as [h2 [t2 [E2 [W2 L2]]]].
  exists h2, t2. split; [exact E2|split; [exact W2|]]. rewrite L2. exact P1.
Qed.

Theorem resolve_polytomies_det_finishes limit ub h :
  WF h -> finishes (resolve_polytomies limit None ub h) WF [IndexErr].
Proof.
  intros [t W]. eapply finishes_mono; [|apply (resolve_polytomies_det_outcome limit ub h t W)].
  intros h' [t' [W' _]]. exists t'. exact W'.
Qed.

(* the multiset of leaf taxa read back by abs is unchanged, also when IndexError is raised *)
Theorem resolve_polytomies_det_leaf_taxa limit ub h t h' :
  WF h -> abs h = Some t ->
  (resolve_polytomies limit None ub h = HOk h' \/ resolve_polytomies limit None ub h = HErr IndexErr h') ->
  exists t', abs h' = Some t' /\ Permutation (leaf_taxa t') (leaf_taxa t).
Proof.
  intros W A E. pose proof (WF_abs_t h t W A) as Wt.
  destruct (resolve_polytomies_det_outcome limit ub h t Wt) as [[h2 [E2 [t2 [W2 P2]]]]|[e [h2 [E2 [_ [t2 [W2 P2]]]]]]];
    rewrite E2 in E; destruct E as [E|E]; inversion E; subst; exists t2; (split; [apply abs_WFt, W2|exact P2]).
Qed.

(* ====================================================================================== *)
(* ---------- the rng branch ---------- *)

(* detached components: subtrees that were cut off (parent pointer None), pairwise disjoint,
   disjoint from the main tree t *)
Definition Det (h : heap) (t : tree) (D : list tree) : Prop :=
  Forall (rep h None) D /\ NoDup (flat_map ids D) /\
  (forall j, In j (flat_map ids D) -> ~ In j (ids t)) /\
  (forall j, In j (flat_map ids D) -> j < next h).

Lemma Det_nil h t : Det h t [].
Proof. split; [constructor|split; [constructor|split; intros j []]]. Qed.

Lemma Det_frame S h h' t t' D :
  Det h t D -> same_off S h h' -> grows h h' ->
  (forall j, In j (flat_map ids D) -> ~ In j S) ->
  (forall j, In j (flat_map ids D) -> ~ In j (ids t')) ->
  Det h' t' D.
Proof.
  intros [F [N [Dj B]]] A G DS DT. split; [|split; [|split]].
  - eapply Forall_rep_frame_off; eauto.
  - exact N.
  - exact DT.
  - intros j Hj. specialize (B j Hj). destruct G as [_ G]. lia.
Qed.

(* for ch in cc: node.remove_child(ch); na.add_child(ch)  -- na is the last child of node *)
Lemma move_kids_loop c node x l e na xa la ea : forall todo dn h,
  Wr h (plug c (T node x l e (todo ++ [T na xa la ea dn]))) ->
  exists h',
    hfold (fun ch h => hdo b <- remove_child_plain node ch h ;; add_child na ch b) (map t_id todo) h = HOk h' /\
    Wr h' (plug c (T node x l e [T na xa la ea (dn ++ todo)])) /\
    same_off (node :: na :: map t_id todo) h h' /\ grows h h' /\ pres h h'.
Proof.
  induction todo as [|k r IH]; intros dn h W.
  - exists h. simpl. rewrite app_nil_r.
    split; [reflexivity|split; [exact W|split; [apply same_off_refl|split; [apply grows_refl|apply pres_refl]]]].
  - simpl map. simpl hfold.
    assert (W' : Wr h (plug c (T node x l e ([] ++ k :: (r ++ [T na xa la ea dn]))))) by exact W.
    destruct (remove_child_plain_wf h c node x l e [] k _ W') as [h1 [E1 [W1 [R1 [A1 [G1 P1]]]]]].
    destruct (detached_facts h c node x l e [] k _ W') as [Nk [Dk Bk]].
    rewrite E1. simpl hbind. simpl app in W1, Dk.
    assert (W1' : Wr h1 (plug (CNode c node x l e r []) (T na xa la ea dn))) by exact W1.
    destruct (add_child_attach h1 (CNode c node x l e r []) na xa la ea dn None k W1' R1 Nk)
      as [h2 [E2 [W2 [A2 [G2 P2]]]]].
    { exact Dk. }
    { intros j Hj. destruct P1 as [P1 _]. rewrite P1. apply Bk, Hj. }
    rewrite E2. simpl hbind.
    assert (W2' : Wr h2 (plug c (T node x l e (r ++ [T na xa la ea (dn ++ [k])])))) by exact W2.
    destruct (IH (dn ++ [k]) h2 W2') as [h' [E' [W'' [A' [G' P']]]]].
    exists h'. split; [exact E'|split; [|split; [|split]]].
    + rewrite <- app_assoc in W''. exact W''.
    + eapply same_off_trans; [eapply same_off_trans|];
        (eapply same_off_weaken; [|eassumption]); simpl; intros j; tauto.
    + eapply grows_trans; [exact G1|]. eapply grows_trans; [exact G2|exact G'].
    + eapply pres_trans; [exact P1|]. eapply pres_trans; [exact P2|exact P'].
Qed.

Lemma in_ids_wrap c node x l e na xa la ea ks j :
  In j (ids (plug c (T node x l e [T na xa la ea ks]))) <->
  j = na \/ In j (ids (plug c (T node x l e ks))).
Proof.
  rewrite !in_plug. rewrite (ids_eq node x l e [T na xa la ea ks]), (ids_eq node x l e ks).
  change (flat_map ids [T na xa la ea ks]) with (ids (T na xa la ea ks) ++ []).
  rewrite app_nil_r, (ids_eq na). simpl In.
  split; intros H; intuition (subst; auto).
Qed.

(* attaching the detached k next to the live node `node` itself: the new node na takes over all
   children of node; node keeps na and k *)
Lemma attach_at_node h c node x l e ks na xa la ea k :
  Wr h (plug c (T node x l e ks)) ->
  rep h None (T na xa la ea []) -> rep h None k -> NoDup (ids k) ->
  ~ In na (ids (plug c (T node x l e ks))) -> ~ In na (ids k) -> na < next h ->
  (forall j, In j (ids k) -> ~ In j (ids (plug c (T node x l e ks)))) ->
  (forall j, In j (ids k) -> j < next h) ->
  exists h',
    (hdo a1 <- add_child node na h ;;
     hdo a2 <- hfold (fun ch h => hdo b <- remove_child_plain node ch h ;; add_child na ch b) (map t_id ks) a1 ;;
     add_child node (t_id k) a2) = HOk h' /\
    Wr h' (plug c (T node x l e [T na xa la ea ks; k])) /\
    same_off (node :: na :: t_id k :: map t_id ks) h h' /\ grows h h' /\ pres h h'.
Proof.
  intros W Ra Rk Nk Dna Dnak Bna Dk Bk.
  assert (Hnode : In node (ids (plug c (T node x l e ks)))) by apply (in_plug_root c (T node x l e ks)).
  assert (Hkids : forall j, In j (map t_id ks) -> In j (ids (plug c (T node x l e ks)))).
  { intros j Hj. apply in_plug. left. rewrite ids_eq. right. apply map_id_in_flat, Hj. }
  destruct (add_child_attach h c node x l e ks None (T na xa la ea []) W Ra) as [a1 [E1 [W1 [A1 [G1 P1]]]]].
  { rewrite ids_eq. simpl. constructor; [intros []|constructor]. }
  { intros j Hj. rewrite ids_eq in Hj. simpl in Hj. destruct Hj as [<-|[]]. exact Dna. }
  { intros j Hj. rewrite ids_eq in Hj. simpl in Hj. destruct Hj as [<-|[]]. exact Bna. }
  simpl t_id in E1, A1. rewrite E1. simpl hbind.
  destruct (move_kids_loop c node x l e na xa la ea ks [] a1 W1) as [a2 [E2 [W2 [A2 [G2 P2]]]]].
  rewrite E2. simpl hbind. simpl app in W2.
  assert (Rk2 : rep a2 None k).
  { apply (rep_frame_off (node :: na :: map t_id ks) a1 a2 None k A2 G2).
    - intros j Hj [<-|[<-|H]]; [exact (Dk _ Hj Hnode)|exact (Dnak Hj)|exact (Dk _ Hj (Hkids _ H))].
    - apply (rep_frame_off [node; na] h a1 None k A1 G1); [|exact Rk].
      intros j Hj [<-|[<-|[]]]; [exact (Dk _ Hj Hnode)|exact (Dnak Hj)]. }
  destruct (add_child_attach a2 c node x l e [T na xa la ea ks] None k W2 Rk2 Nk) as [h' [E3 [W3 [A3 [G3 P3]]]]].
  { intros j Hj H. apply in_ids_wrap in H. destruct H as [->|H]; [exact (Dnak Hj)|exact (Dk _ Hj H)]. }
  { intros j Hj. destruct P1 as [P1 _]. destruct P2 as [P2 _]. rewrite P2, P1. apply Bk, Hj. }
  exists h'. split; [exact E3|split; [exact W3|split; [|split]]].
  - eapply same_off_trans; [eapply same_off_trans|];
      (eapply same_off_weaken; [|eassumption]); simpl; intros j; tauto.
  - eapply grows_trans; [exact G1|]. eapply grows_trans; [exact G2|exact G3].
  - eapply pres_trans; [exact P1|]. eapply pres_trans; [exact P2|exact P3].
Qed.

Lemma in_ids_sib c p x l e lft s rgt na xa la ea ka j :
  In j (ids (plug c (T p x l e (lft ++ rgt ++ [T na xa la ea (s :: ka)])))) <->
  j = na \/ In j (flat_map ids ka) \/ In j (ids (plug c (T p x l e (lft ++ s :: rgt)))).
Proof.
  rewrite !in_plug. rewrite (ids_eq p x l e (lft ++ rgt ++ _)), ids_focus.
  rewrite !flat_map_app.
  change (flat_map ids [T na xa la ea (s :: ka)]) with (ids (T na xa la ea (s :: ka)) ++ []).
  rewrite app_nil_r, (ids_eq na).
  change (flat_map ids (s :: ka)) with (ids s ++ flat_map ids ka).
  simpl In. rewrite !in_app_iff. simpl In. rewrite ?in_app_iff.
  split; intros H; intuition (subst; auto).
Qed.

(* attaching the detached k next to the live node s (a child of p): a new node na replaces s among
   the children of p (as the last child) and gets the children s and k *)
Lemma attach_at_sib h c p x l e lft s rgt na xa la ea k :
  Wr h (plug c (T p x l e (lft ++ s :: rgt))) ->
  rep h None (T na xa la ea []) -> rep h None k -> NoDup (ids k) ->
  ~ In na (ids (plug c (T p x l e (lft ++ s :: rgt)))) -> ~ In na (ids k) -> na < next h ->
  (forall j, In j (ids k) -> ~ In j (ids (plug c (T p x l e (lft ++ s :: rgt))))) ->
  (forall j, In j (ids k) -> j < next h) ->
  exists h',
    (hdo a1 <- add_child p na h ;;
     hdo a2 <- remove_child_plain p (t_id s) a1 ;;
     hdo a3 <- add_child na (t_id s) a2 ;;
     add_child na (t_id k) a3) = HOk h' /\
    Wr h' (plug c (T p x l e (lft ++ rgt ++ [T na xa la ea [s; k]]))) /\
    same_off [p; na; t_id s; t_id k] h h' /\ grows h h' /\ pres h h'.
Proof.
  intros W Ra Rk Nk Dna Dnak Bna Dk Bk.
  remember (plug c (T p x l e (lft ++ s :: rgt))) as t0 eqn:Et0.
  assert (Hp : In p (ids t0)) by (subst t0; apply (in_plug_root c (T p x l e (lft ++ s :: rgt)))).
  assert (Hs : forall j, In j (ids s) -> In j (ids t0)).
  { intros j Hj. subst t0. eapply in_plug_kid; [|exact Hj]. apply in_app_iff. right. left. reflexivity. }
  set (a := T na xa la ea []).
  assert (W0 : Wr h (plug c (T p x l e (lft ++ s :: rgt)))) by (rewrite <- Et0; exact W).
  destruct (add_child_attach h c p x l e (lft ++ s :: rgt) None a W0 Ra) as [a1 [E1 [W1 [A1 [G1 P1]]]]].
  { unfold a. rewrite ids_eq. simpl. constructor; [intros []|constructor]. }
  { intros j Hj. unfold a in Hj. rewrite ids_eq in Hj. simpl in Hj. destruct Hj as [<-|[]]. rewrite <- Et0. exact Dna. }
  { intros j Hj. unfold a in Hj. rewrite ids_eq in Hj. simpl in Hj. destruct Hj as [<-|[]]. exact Bna. }
  change (t_id a) with na in E1, A1. rewrite E1. simpl hbind.
  rewrite <- app_assoc in W1. simpl app in W1.
  destruct (remove_child_plain_wf a1 c p x l e lft s (rgt ++ [a]) W1) as [a2 [E2 [W2 [R2 [A2 [G2 P2]]]]]].
  destruct (detached_facts a1 c p x l e lft s (rgt ++ [a]) W1) as [Ns [Ds Bs]].
  rewrite E2. simpl hbind.
  assert (W2' : Wr a2 (plug (CNode c p x l e (lft ++ rgt) []) a)).
  { simpl plug. rewrite <- app_assoc. exact W2. }
  destruct P1 as [P1n [P1r P1s]]. destruct P2 as [P2n [P2r P2s]].
  destruct (add_child_attach a2 (CNode c p x l e (lft ++ rgt) []) na xa la ea [] None s W2' R2 Ns)
    as [a3 [E3 [W3 [A3 [G3 P3]]]]].
  { intros j Hj H. apply (Ds j Hj). simpl plug in H. rewrite <- app_assoc in H. exact H. }
  { intros j Hj. rewrite P2n. apply Bs, Hj. }
  rewrite E3. simpl hbind. simpl app in W3. destruct P3 as [P3n [P3r P3s]].
  assert (Rk3 : rep a3 None k).
  { apply (rep_frame_off [na; t_id s] a2 a3 None k A3 G3).
    { intros j Hj [<-|[<-|[]]]; [exact (Dnak Hj)|exact (Dk _ Hj (Hs _ (ids_root s)))]. }
    apply (rep_frame_off [p; t_id s] a1 a2 None k A2 G2).
    { intros j Hj [<-|[<-|[]]]; [exact (Dk _ Hj Hp)|exact (Dk _ Hj (Hs _ (ids_root s)))]. }
    apply (rep_frame_off [p; na] h a1 None k A1 G1); [|exact Rk].
    intros j Hj [<-|[<-|[]]]; [exact (Dk _ Hj Hp)|exact (Dnak Hj)]. }
  destruct (add_child_attach a3 (CNode c p x l e (lft ++ rgt) []) na xa la ea [s] None k W3 Rk3 Nk)
    as [h' [E4 [W4 [A4 [G4 P4]]]]].
  { intros j Hj H. simpl plug in H. rewrite <- app_assoc in H. apply in_ids_sib in H. simpl in H.
    destruct H as [->|[[]|H]]; [exact (Dnak Hj)|]. rewrite <- Et0 in H. exact (Dk _ Hj H). }
  { intros j Hj. rewrite P3n, P2n, P1n. apply Bk, Hj. }
  exists h'. split; [exact E4|split; [|split; [|split]]].
  - simpl plug in W4. rewrite <- app_assoc in W4. exact W4.
  - eapply same_off_trans; [eapply same_off_trans; [eapply same_off_trans|]|];
      (eapply same_off_weaken; [|eassumption]); simpl; intros j; tauto.
  - eapply grows_trans; [exact G1|]. eapply grows_trans; [exact G2|]. eapply grows_trans; [exact G3|exact G4].
  - destruct P4 as [P4n [P4r P4s]]. repeat split; congruence.
Qed.

(* ---------- one attachment ---------- *)

Definition attach_body (node next_sib next_child na : Z) (h1 : heap) : hres :=
  if Z.eqb next_sib node then
    let cc := kids h1 node in
    hdo a1 <- add_child node na h1 ;;
    hdo a2 <- hfold (fun c h => hdo b <- remove_child_plain node c h ;; add_child na c b) cc a1 ;;
    add_child node next_child a2
  else
    match parent h1 next_sib with
    | None => HErr AttrErr h1
    | Some p =>
      hdo a1 <- add_child p na h1 ;;
      hdo a2 <- remove_child_plain p next_sib a1 ;;
      hdo a3 <- add_child na next_sib a2 ;;
      add_child na next_child a3
    end.

Lemma resolve_attach_cons node nc rest ci choices points h :
  resolve_attach node (nc :: rest) (ci :: choices) points h =
  match nth_error points ci with
  | None => HFuel
  | Some next_sib =>
    hbind (attach_body node next_sib nc (next h) (alloc None None None h))
          (fun h2 => resolve_attach node rest choices (points ++ [next h; nc])
                                    (set_elen (next h) (Some 0) h2))
  end.
Proof. reflexivity. Qed.

(* h is the state after the allocation of na: na is a detached single node *)
Lemma attach_body_ok h t node next_sib na k :
  Wr h t -> In node (ids t) -> In next_sib (ids t) ->
  rep h None (T na None None None []) -> rep h None k -> NoDup (ids k) ->
  ~ In na (ids t) -> ~ In na (ids k) -> na < next h ->
  (forall j, In j (ids k) -> ~ In j (ids t)) -> (forall j, In j (ids k) -> j < next h) ->
  attach_body node next_sib (t_id k) na h = HErr AttrErr h \/
  exists h2 t', attach_body node next_sib (t_id k) na h = HOk h2 /\
    Wr (set_elen na (Some 0) h2) t' /\ t_id t' = t_id t /\
    (forall j, In j (ids t') <-> In j (ids t) \/ j = na \/ In j (ids k)) /\
    same_off (ids t') h (set_elen na (Some 0) h2) /\ grows h (set_elen na (Some 0) h2) /\
    pres h (set_elen na (Some 0) h2).
Proof.
  intros W Hn Hs Ra Rk Nk Dna Dnak Bna Dk Bk. unfold attach_body.
  destruct (Z.eqb next_sib node) eqn:Eq.
  - (* next to node itself *)
    clear Hs Eq. destruct (find_ctx t node Hn) as [c [s [Et Es]]].
    destruct s as [nd x l e ks]. simpl in Es. subst nd. subst t.
    cbv zeta. pose proof (kids_focus h c _ W) as K. simpl in K. rewrite K.
    destruct (attach_at_node h c node x l e ks na None None None k W Ra Rk Nk Dna Dnak Bna Dk Bk)
      as [h2 [E [W2 [A2 [G2 P2]]]]].
    right. exists h2, (plug c (T node x l e [T na None None (Some 0) ks; k])).
    assert (W3 : Wr (set_elen na (Some 0) h2) (plug c (T node x l e [T na None None (Some 0) ks; k]))).
    { apply (set_elen_wf h2 (CNode c node x l e [] [k]) na None None None ks (Some 0)). exact W2. }
    assert (Iff : forall j, In j (ids (plug c (T node x l e [T na None None (Some 0) ks; k]))) <->
                  In j (ids (plug c (T node x l e ks))) \/ j = na \/ In j (ids k)).
    { intro j. rewrite !in_plug. rewrite (ids_eq node x l e [_; _]), (ids_eq node x l e ks).
      change (flat_map ids [T na None None (Some 0) ks; k])
        with (ids (T na None None (Some 0) ks) ++ ids k ++ []).
      rewrite app_nil_r, (ids_eq na). simpl In. rewrite !in_app_iff.
      split; intros H; intuition (subst; auto). }
    split; [exact E|split; [exact W3|split; [rewrite !plug_id; reflexivity|split; [exact Iff|]]]].
    split; [|split].
    + eapply same_off_trans; [eapply same_off_weaken; [|exact A2]|
                              eapply same_off_weaken; [|apply (same_off_upd_cell na)]].
      * intros j Hj. apply Iff. destruct Hj as [<-|[<-|[<-|Hj]]].
        -- left. apply (in_plug_root c (T node x l e ks)).
        -- right. left. reflexivity.
        -- right. right. apply ids_root.
        -- left. apply in_plug. left. rewrite ids_eq. right. apply map_id_in_flat, Hj.
      * intros j [<-|[]]. apply Iff. right. left. reflexivity.
    + eapply grows_trans; [exact G2|apply grows_upd_cell].
    + eapply pres_trans; [exact P2|apply pres_upd_cell].
  - (* next to another live node: it must have a parent *)
    clear Hn. destruct (find_ctx t next_sib Hs) as [c2 [s [Et Es]]]. subst t.
    pose proof W as [R0 _]. apply rep_plug in R0. destruct R0 as [_ Rs].
    rewrite <- Es. rewrite (rep_parent h _ s Rs).
    destruct c2 as [|c p x l e lft rgt]; simpl cpar; [left; reflexivity|].
    simpl plug in *.
    destruct (attach_at_sib h c p x l e lft s rgt na None None None k W Ra Rk Nk Dna Dnak Bna Dk Bk)
      as [h2 [E [W2 [A2 [G2 P2]]]]].
    right. exists h2, (plug c (T p x l e (lft ++ rgt ++ [T na None None (Some 0) [s; k]]))).
    assert (W3 : Wr (set_elen na (Some 0) h2) (plug c (T p x l e (lft ++ rgt ++ [T na None None (Some 0) [s; k]])))).
    { pose proof (set_elen_wf h2 (CNode c p x l e (lft ++ rgt) []) na None None None [s; k] (Some 0)) as H.
      simpl plug in H. rewrite <- !app_assoc in H. apply H. exact W2. }
    assert (Iff : forall j, In j (ids (plug c (T p x l e (lft ++ rgt ++ [T na None None (Some 0) [s; k]])))) <->
                  In j (ids (plug c (T p x l e (lft ++ s :: rgt)))) \/ j = na \/ In j (ids k)).
    { intro j. rewrite in_ids_sib. simpl flat_map. rewrite app_nil_r. tauto. }
    split; [exact E|split; [exact W3|split; [rewrite !plug_id; reflexivity|split; [exact Iff|]]]].
    split; [|split].
    + eapply same_off_trans; [eapply same_off_weaken; [|exact A2]|
                              eapply same_off_weaken; [|apply (same_off_upd_cell na)]].
      * intros j Hj. apply Iff. destruct Hj as [<-|[<-|[<-|[<-|[]]]]].
        -- left. apply (in_plug_root c (T p x l e (lft ++ s :: rgt))).
        -- right. left. reflexivity.
        -- left. eapply in_plug_kid; [|apply ids_root]. apply in_app_iff. right. left. reflexivity.
        -- right. right. apply ids_root.
      * intros j [<-|[]]. apply Iff. right. left. reflexivity.
    + eapply grows_trans; [exact G2|apply grows_upd_cell].
    + eapply pres_trans; [exact P2|apply pres_upd_cell].
Qed.

(* ---------- while to_attach: ... ---------- *)

Lemma resolve_attach_ok node : forall D choices points h t,
  Wr h t -> In node (ids t) -> (forall p, In p points -> In p (ids t)) -> Det h t D ->
  resolve_attach node (map t_id D) choices points h = HFuel \/
  outcome (resolve_attach node (map t_id D) choices points h)
    (fun h' => exists t', Wr h' t' /\ t_id t' = t_id t /\ seed h' = seed h /\
                 (forall j, In j (ids t) \/ In j (flat_map ids D) -> In j (ids t')))
    (fun h' => exists t', Wr h' t' /\ t_id t' = t_id t /\ seed h' = seed h) [AttrErr; ValueErr].
Proof.
  induction D as [|k D IH]; intros choices points h t W Hn Hp HD.
  - right. left. exists h. split; [reflexivity|]. exists t.
    split; [exact W|split; [reflexivity|split; [reflexivity|]]]. intros j [H|[]]. exact H.
  - simpl map. destruct choices as [|ci choices]; [left; reflexivity|].
    rewrite resolve_attach_cons.
    destruct (nth_error points ci) as [next_sib|] eqn:En; [|left; reflexivity].
    apply nth_error_In in En.
    destruct HD as [F [N [Dj B]]]. inversion F as [|? ? Rk FD]; subst.
    simpl in N. apply NoDup_app_iff in N. destruct N as [Nk [ND Dkd]].
    assert (HD0 : Det h t D).
    { split; [exact FD|split; [exact ND|split]]; intros j Hj; [apply Dj|apply B]; simpl; apply in_app_iff; right; exact Hj. }
    assert (Dk : forall j, In j (ids k) -> ~ In j (ids t)).
    { intros j Hj. apply Dj. simpl. apply in_app_iff. left. exact Hj. }
    assert (Bk : forall j, In j (ids k) -> j < next h).
    { intros j Hj. apply B. simpl. apply in_app_iff. left. exact Hj. }
    remember (next h) as na eqn:Ena.
    destruct (alloc_wf h t None None None W) as [W0 [R0 Nn]]. rewrite <- Ena in R0, Nn.
    remember (alloc None None None h) as h1 eqn:Eh1.
    assert (A0 : same_off [na] h h1) by (subst h1 na; frame_solve).
    assert (G0 : grows h h1) by (subst h1; frame_solve).
    assert (N1 : next h1 = na + 1) by (subst h1 na; reflexivity).
    assert (S1 : seed h1 = seed h) by (subst h1; reflexivity).
    assert (Dnak : ~ In na (ids k)). { intro H. specialize (Bk _ H). lia. }
    assert (Rk1 : rep h1 None k).
    { apply (rep_frame_off [na] h h1 None k A0 G0); [|exact Rk]. intros j Hj [<-|[]]. exact (Dnak Hj). }
    assert (HD1 : Det h1 t D).
    { apply (Det_frame [na] h h1 t t D HD0 A0 G0).
      - intros j Hj [<-|[]]. destruct HD0 as [_ [_ [_ B0]]]. specialize (B0 _ Hj). lia.
      - destruct HD0 as [_ [_ [D0 _]]]. exact D0. }
    destruct (attach_body_ok h1 t node next_sib na k W0 Hn (Hp _ En) R0 Rk1 Nk Nn Dnak)
      as [E|[h2 [t' [E [W3 [Eid [Iff [A3 [G3 P3]]]]]]]]].
    { lia. }
    { exact Dk. }
    { intros j Hj. specialize (Bk _ Hj). lia. }
    + rewrite E. simpl hbind. right. right. exists AttrErr, h1.
      split; [reflexivity|split; [left; reflexivity|]]. exists t. auto.
    + rewrite E. simpl hbind. remember (set_elen na (Some 0) h2) as h3 eqn:Eh3.
      destruct P3 as [P3n [P3r P3s]].
      assert (HD3 : Det h3 t' D).
      { apply (Det_frame (ids t') h1 h3 t t' D HD1 A3 G3); intros j Hj H; apply Iff in H;
          destruct H as [H|[->|H]].
        - destruct HD0 as [_ [_ [D0 _]]]. exact (D0 _ Hj H).
        - destruct HD0 as [_ [_ [_ B0]]]. specialize (B0 _ Hj). lia.
        - exact (Dkd _ H Hj).
        - destruct HD0 as [_ [_ [D0 _]]]. exact (D0 _ Hj H).
        - destruct HD0 as [_ [_ [_ B0]]]. specialize (B0 _ Hj). lia.
        - exact (Dkd _ H Hj). }
      destruct (IH choices (points ++ [na; t_id k]) h3 t' W3) as [EF|O].
      * apply Iff. left. exact Hn.
      * intros p Hpp. apply Iff. apply in_app_iff in Hpp. destruct Hpp as [Hpp|[<-|[<-|[]]]].
        -- left. apply Hp, Hpp.
        -- right. left. reflexivity.
        -- right. right. apply ids_root.
      * exact HD3.
      * left. exact EF.
      * right. eapply outcome_mono; [| |exact O].
        -- intros h' [t'' [W'' [E'' [S'' I'']]]]. exists t''.
           split; [exact W''|split; [congruence|split; [congruence|]]].
           intros j Hj. apply I''. simpl in Hj. rewrite in_app_iff in Hj.
           destruct Hj as [Hj|[Hj|Hj]]; [left; apply Iff; left; exact Hj|left; apply Iff; right; right; exact Hj|right; exact Hj].
        -- intros h' [t'' [W'' [E'' S'']]]. exists t''. split; [exact W''|split; congruence].
Qed.

(* ---------- for child in to_attach: node.remove_child(child) ---------- *)

Lemma detach_loop c node x l e : forall to_attach D ks h,
  Wr h (plug c (T node x l e ks)) -> Det h (plug c (T node x l e ks)) D ->
  (exists h' ks' D', hfold (remove_child_plain node) to_attach h = HOk h' /\
      rev to_attach ++ map t_id D = map t_id D' /\
      Wr h' (plug c (T node x l e ks')) /\ Det h' (plug c (T node x l e ks')) D' /\
      (forall j, In j (ids (plug c (T node x l e ks))) \/ In j (flat_map ids D) ->
                 In j (ids (plug c (T node x l e ks'))) \/ In j (flat_map ids D')) /\
      pres h h') \/
  (exists h' ks', hfold (remove_child_plain node) to_attach h = HErr ValueErr h' /\
      Wr h' (plug c (T node x l e ks')) /\ seed h' = seed h).
Proof.
  induction to_attach as [|a r IH]; intros D ks h W HD.
  - left. exists h, ks, D. simpl. split; [reflexivity|split; [reflexivity|split; [exact W|split; [exact HD|split; [auto|apply pres_refl]]]]].
  - simpl hfold. pose proof (kids_focus h c _ W) as K. simpl in K.
    destruct (memz a (map t_id ks)) eqn:M.
    + apply memz_In in M. destruct (in_map_split ks a M) as [lft [s [rgt [-> Ea]]]]. subst a.
      destruct (remove_child_plain_wf h c node x l e lft s rgt W) as [h1 [E1 [W1 [R1 [A1 [G1 P1]]]]]].
      destruct (detached_facts h c node x l e lft s rgt W) as [Ns [Ds Bs]].
      rewrite E1. simpl hbind.
      destruct HD as [F [N [Dj B]]].
      assert (Hnode : In node (ids (plug c (T node x l e (lft ++ s :: rgt)))))
        by apply (in_plug_root c (T node x l e (lft ++ s :: rgt))).
      assert (Hs : forall j, In j (ids s) -> In j (ids (plug c (T node x l e (lft ++ s :: rgt))))).
      { intros j Hj. eapply in_plug_kid; [|exact Hj]. apply in_app_iff. right. left. reflexivity. }
      assert (Sub : forall j, In j (ids (plug c (T node x l e (lft ++ rgt)))) ->
                              In j (ids (plug c (T node x l e (lft ++ s :: rgt))))).
      { apply in_plug_kids_sub. intros j. rewrite !flat_map_app. simpl. rewrite !in_app_iff. tauto. }
      assert (HD1 : Det h1 (plug c (T node x l e (lft ++ rgt))) (s :: D)).
      { split; [|split; [|split]].
        - constructor; [exact R1|]. eapply Forall_rep_frame_off; eauto.
          intros j Hj [<-|[<-|[]]]; apply (Dj _ Hj); [exact Hnode|apply Hs, ids_root].
        - simpl. apply NoDup_app_iff. split; [exact Ns|split; [exact N|]].
          intros j H1 H2. exact (Dj _ H2 (Hs _ H1)).
        - intros j Hj. simpl in Hj. apply in_app_iff in Hj. destruct Hj as [Hj|Hj]; [exact (Ds _ Hj)|].
          intro H. exact (Dj _ Hj (Sub _ H)).
        - destruct P1 as [P1 _]. rewrite P1. intros j Hj. simpl in Hj. apply in_app_iff in Hj.
          destruct Hj as [Hj|Hj]; [exact (Bs _ Hj)|exact (B _ Hj)]. }
      destruct (IH (s :: D) (lft ++ rgt) h1 W1 HD1)
        as [[h' [ks' [D' [E' [ED [W' [HD' [I' P']]]]]]]]|[h' [ks' [E' [W' S']]]]].
      * left. exists h', ks', D'. split; [exact E'|split; [|split; [exact W'|split; [exact HD'|split]]]].
        -- simpl rev. rewrite <- app_assoc. exact ED.
        -- intros j Hj. apply I'. simpl flat_map. rewrite in_app_iff.
           destruct Hj as [Hj|Hj]; [|right; right; exact Hj].
           apply in_plug in Hj. destruct Hj as [Hj|Hj]; [|left; apply in_plug; right; exact Hj].
           rewrite ids_focus in Hj. rewrite in_plug, (ids_eq node x l e (lft ++ rgt)), flat_map_app.
           simpl In in *. rewrite !in_app_iff in *. tauto.
        -- eapply pres_trans; eauto.
      * right. exists h', ks'. split; [exact E'|split; [exact W'|]]. destruct P1 as [_ [_ P1]]. congruence.
    + right. exists h, ks. unfold remove_child_plain. rewrite K, M. simpl hbind.
      split; [reflexivity|split; [exact W|reflexivity]].
Qed.

(* ---------- one polytomy, rng branch ---------- *)

Lemma resolve_rng_ok limit node sample choices h t :
  Wr h t -> In node (ids t) ->
  resolve_rng limit node sample choices h = HFuel \/
  outcome (resolve_rng limit node sample choices h)
    (fun h' => exists t', Wr h' t' /\ t_id t' = t_id t /\ seed h' = seed h /\
                 (forall j, In j (ids t) -> In j (ids t')))
    (fun h' => exists t', Wr h' t' /\ t_id t' = t_id t /\ seed h' = seed h) [AttrErr; ValueErr].
Proof.
  intros W Hn. destruct (find_ctx t node Hn) as [c [s [Et Es]]].
  destruct s as [nd x l e ks]. simpl in Es. subst nd. subst t.
  unfold resolve_rng. destruct (nths (kids h node) sample) as [to_attach|]; [|left; reflexivity].
  destruct (detach_loop c node x l e to_attach [] ks h W (Det_nil _ _))
    as [[h1 [ks' [D' [E1 [ED [W1 [HD1 [I1 P1]]]]]]]]|[h1 [ks' [E1 [W1 S1]]]]].
  - rewrite E1. simpl hbind. simpl map in ED. rewrite app_nil_r in ED. rewrite ED.
    pose proof (kids_focus h1 c _ W1) as K1. simpl in K1. rewrite K1.
    destruct P1 as [_ [_ P1s]].
    destruct (resolve_attach_ok node D' choices (map t_id ks' ++ [node]) h1 _ W1) as [EF|O].
    + apply (in_plug_root c (T node x l e ks')).
    + intros p Hp. apply in_app_iff in Hp. destruct Hp as [Hp|[<-|[]]].
      * apply in_plug. left. rewrite ids_eq. right. apply map_id_in_flat, Hp.
      * apply (in_plug_root c (T node x l e ks')).
    + exact HD1.
    + left. exact EF.
    + right. eapply outcome_mono; [| |exact O].
      * intros h' [t' [W' [E' [S' I']]]]. exists t'.
        split; [exact W'|split; [rewrite E', !plug_id; reflexivity|split; [congruence|]]].
        intros j Hj. apply I'. apply I1. left. exact Hj.
      * intros h' [t' [W' [E' S']]]. exists t'.
        split; [exact W'|split; [rewrite E', !plug_id; reflexivity|congruence]].
  - rewrite E1. simpl hbind. right. right. exists ValueErr, h1.
    split; [reflexivity|split; [right; left; reflexivity|]].
    exists (plug c (T node x l e ks')). split; [exact W1|split; [rewrite !plug_id; reflexivity|exact S1]].
Qed.

(* ---------- the loop over the polytomy nodes, rng branch ---------- *)

Lemma resolve_each_rng limit : forall nodes sc h t,
  Wr h t -> (forall j, In j nodes -> In j (ids t)) ->
  resolve_each limit nodes (Some sc) h = HFuel \/
  finishes (resolve_each limit nodes (Some sc) h)
    (fun h' => exists t', Wr h' t' /\ t_id t' = t_id t /\ seed h' = seed h) [AttrErr; ValueErr].
Proof.
  induction nodes as [|node r IH]; intros sc h t W H.
  - right. left. exists h. split; [reflexivity|]. exists t. auto.
  - simpl resolve_each. destruct sc as [|[sample choices] sc]; [left; reflexivity|].
    destruct (resolve_rng_ok limit node sample choices h t W (H node (or_introl eq_refl)))
      as [EF|[[h1 [E1 [t1 [W1 [Eid [S1 I1]]]]]]|[e [h1 [E1 [He [t1 [W1 [Eid S1]]]]]]]]].
    + left. rewrite EF. reflexivity.
    + rewrite E1. simpl hbind.
      destruct (IH sc h1 t1 W1) as [EF|F].
      * intros j Hj. apply I1, H. right. exact Hj.
      * left. exact EF.
      * right. eapply finishes_mono; [|exact F].
        intros h' [t' [W' [E' S']]]. exists t'. split; [exact W'|split; congruence].
    + rewrite E1. simpl hbind. right. right. exists e, h1.
      split; [reflexivity|split; [exact He|]]. exists t1. auto.
Qed.

(* ---------- the operation, rng branch, any script ---------- *)

Lemma finishes_errs_incl r (P : heap -> Prop) errs errs' :
  (forall e, In e errs -> In e errs') -> finishes r P errs -> finishes r P errs'.
Proof.
  intros I [[h' [E H]]|[e [h' [E [He H]]]]].
  - left. exists h'. auto.
  - right. exists e, h'. auto.
Qed.

Theorem resolve_polytomies_rng_finishes_tight limit sc ub h :
  WF h ->
  resolve_polytomies limit (Some sc) ub h = HFuel \/
  finishes (resolve_polytomies limit (Some sc) ub h) WF [AttrErr; ValueErr].
Proof.
  intros [t W]. unfold resolve_polytomies. rewrite (with_sub_seed h t _ W). pose proof W as [W0 Sd].
  destruct (resolve_each_rng limit (filter (fun nd => limit <? len (kids h nd)) (post_ids t)) sc h t W0)
    as [EF|[[h1 [E1 [t1 [W1 [Eid S1]]]]]|[e [h1 [E1 [He [t1 [W1 [Eid S1]]]]]]]]].
  - intros j Hj. apply filter_In in Hj. apply post_ids_in. tauto.
  - left. rewrite EF. reflexivity.
  - right. rewrite E1. simpl hbind.
    assert (WF1 : WFt h1 t1) by (split; [exact W1|congruence]).
    destruct (ub_tail_wf ub h1 t1 WF1) as [h2 [t2 [E2 [W2 _]]]].
    left. exists h2. split; [exact E2|exists t2; exact W2].
  - right. rewrite E1. simpl hbind. right. exists e, h1.
    split; [reflexivity|split; [exact He|]]. exists t1. split; [exact W1|congruence].
Qed.

Theorem resolve_polytomies_rng_finishes limit sc ub h :
  WF h ->
  resolve_polytomies limit (Some sc) ub h = HFuel \/
  finishes (resolve_polytomies limit (Some sc) ub h) WF [AttrErr; AssertErr; ValueErr].
Proof.
  intro W. destruct (resolve_polytomies_rng_finishes_tight limit sc ub h W) as [E|F]; [left; exact E|right].
  eapply finishes_errs_incl; [|exact F]. simpl. intros e. tauto.
Qed.
