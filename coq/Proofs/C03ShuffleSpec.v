(* C03 (wave 6): what Tree.shuffle_taxa does, at specification level.  A completed call (returned, or
   tripped its final assertion because two selected nodes carried the same taxon) changes NOTHING but
   taxon fields: the tree afterwards is `retax g t` for g = the new taxon of each node id (same
   identities, child order, lengths, labels); the taxa of the selected nodes (leaves, or all nodes with
   include_internal_nodes) are a permutation of what they were; every other node keeps its taxon; a
   node has a taxon afterwards iff it had one. *)
From Coq Require Import ZArith List Bool Lia Permutation.
From DV Require Import Model.PyPrims Model.Tree Model.Heap Model.HeapOps Proofs.C03Base Proofs.C03Abs
     Proofs.C03Ops Proofs.C03Hist Proofs.C03PruneLoops Proofs.C03More Proofs.C03Thms.
Import ListNotations.
Open Scope Z_scope.

Fixpoint retax (g : Z -> option Z) (t : tree) : tree :=
  match t with T i x l e ks => T i (g i) l e (map (retax g) ks) end.

Definition strip (t : tree) : tree := retax (fun _ => None) t.
Definition node_taxa (t : tree) : list (option Z) := map t_taxon (preorder t).

Lemma retax_id g t : t_id (retax g t) = t_id t.
Proof. destruct t; reflexivity. Qed.

Lemma retax_ids g t : ids (retax g t) = ids t.
Proof.
  induction t as [i x l e ks IH] using tree_ind'. unfold ids in *. simpl. f_equal.
  induction ks as [|k r IHr]; [reflexivity|]. inversion IH; subst. simpl. rewrite !map_app. f_equal; auto.
Qed.

Lemma strip_retax g t : strip (retax g t) = strip t.
Proof.
  induction t as [i x l e ks IH] using tree_ind'. unfold strip in *. simpl. f_equal.
  rewrite map_map. apply map_ext_in. intros k Hk. rewrite Forall_forall in IH. apply IH, Hk.
Qed.

Lemma retax_node_taxa g t : node_taxa (retax g t) = map g (ids t).
Proof.
  induction t as [i x l e ks IH] using tree_ind'. unfold node_taxa, ids in *. simpl. f_equal.
  induction ks as [|k r IHr]; [reflexivity|]. inversion IH; subst. simpl. rewrite !map_app. f_equal; auto.
Qed.

Lemma retax_leaf_taxa g t : leaf_taxa (retax g t) = map g (leaf_ids t).
Proof.
  induction t as [i x l e ks IH] using tree_ind'. unfold leaf_ids in *. destruct ks as [|k0 r0]; [reflexivity|].
  remember (k0 :: r0) as ks eqn:Ek.
  assert (E1 : leaf_taxa (retax g (T i x l e ks)) = flat_map leaf_taxa (map (retax g) ks)) by (subst ks; reflexivity).
  assert (E2 : leaves (T i x l e ks) = flat_map leaves ks) by (subst ks; reflexivity).
  rewrite E1, E2. clear E1 E2 Ek.
  induction ks as [|k r IHr]; [reflexivity|]. inversion IH; subst. simpl. rewrite !map_app. f_equal; auto.
Qed.

(* the tree a heap represents carries the heap's taxa *)
Lemma rep_retax_self h par t : rep h par t -> retax (taxon h) t = t.
Proof.
  revert par. induction t as [i x l e ks IH] using tree_ind'. intros par R. apply rep_eq in R.
  destruct R as [_ [G F]]. simpl. unfold taxon. rewrite G. simpl. f_equal.
  rewrite <- (map_id ks) at 2. apply map_ext_in. intros k Hk. rewrite Forall_forall in IH, F. eapply IH; eauto.
Qed.

(* heaps that differ in taxon fields only *)
Definition tax_only (h h' : heap) : Prop :=
  seed h' = seed h /\ rooted h' = rooted h /\ next h' = next h /\
  forall j, (has h j = true -> has h' j = true) /\ parent h' j = parent h j /\ kids h' j = kids h j /\
            elen h' j = elen h j /\ label h' j = label h j.

Lemma tax_only_refl h : tax_only h h.
Proof. repeat split; auto. Qed.

Lemma tax_only_trans a b c : tax_only a b -> tax_only b c -> tax_only a c.
Proof.
  intros [S1 [R1 [N1 F1]]] [S2 [R2 [N2 F2]]]. split; [congruence|]. split; [congruence|]. split; [congruence|].
  intro j. destruct (F1 j) as [A1 [B1 [C1 [D1 E1]]]]. destruct (F2 j) as [A2 [B2 [C2 [D2 E2]]]].
  repeat split; try congruence. auto.
Qed.

Lemma tax_only_set_taxon nd v h : tax_only h (set_taxon nd v h).
Proof.
  split; [reflexivity|]. split; [reflexivity|]. split; [reflexivity|]. intro j.
  unfold parent, kids, elen, label. rewrite get_set_taxon, has_set_taxon.
  destruct (Z.eqb_spec j nd) as [->|Hne]; simpl; repeat split; auto.
Qed.

Lemma rep_retax h h' par t : tax_only h h' -> rep h par t -> rep h' par (retax (taxon h') t).
Proof.
  intros [_ [_ [_ F]]]. revert par. induction t as [i x l e ks IH] using tree_ind'. intros par R.
  apply rep_eq in R. destruct R as [Hh [G Fk]]. simpl. apply rep_eq.
  destruct (F i) as [A [B [C [D E]]]]. split; [auto|]. split.
  - unfold parent, kids, elen, label, taxon in *. rewrite G in *. simpl in *.
    destruct (get h' i) as [p' k' e' x' l']. simpl in *. subst. f_equal.
    rewrite map_map. apply map_ext. intro k. symmetry. apply retax_id.
  - rewrite Forall_forall in *. intros k' Hk'. apply in_map_iff in Hk'. destruct Hk' as [k [<- Hk]].
    apply IH; auto.
Qed.

Lemma WFt_retax h h' t : tax_only h h' -> WFt h t -> WFt h' (retax (taxon h') t).
Proof.
  intros T [[R [N B]] S]. pose proof T as [S' [_ [N' _]]]. split; [split; [|split]|].
  - apply (rep_retax h h' None t T R).
  - rewrite retax_ids. exact N.
  - intros i Hi. rewrite retax_ids in Hi. rewrite N'. apply B, Hi.
  - rewrite retax_id, S'. exact S.
Qed.

(* ---------- the shuffle loop ---------- *)
Lemma taxon_set_taxon nd v h j : taxon (set_taxon nd v h) j = if Z.eqb j nd then v else taxon h j.
Proof. unfold taxon. rewrite get_set_taxon. destruct (Z.eqb j nd); reflexivity. Qed.

Lemma swap_pop_perm l d x l' : swap_pop l d = Some (x, l') -> Permutation l (x :: l').
Proof.
  unfold swap_pop. destruct (nth_error l d) as [a|] eqn:En; [|discriminate].
  destruct (@exists_last _ l) as [l0 [z ->]]; [intro E; subst; destruct d; discriminate|].
  rewrite rev_app_distr. simpl rev. cbn [app].
  assert (Hd : (d < length (l0 ++ [z]))%nat) by (apply nth_error_Some; congruence).
  rewrite app_length in Hd. simpl in Hd. rewrite app_length. simpl length.
  remember (skipn (S d) (l0 ++ [z])) as sk eqn:Esk.
  destruct (Nat.eqb_spec d (length l0 + 1 - 1)) as [Hl|Hl]; intro H; injection H as <- <-.
  - assert (Hd1 : d = length l0) by lia. clear Hl Hd Esk. subst d. rewrite nth_error_app2 in En by lia.
    rewrite Nat.sub_diag in En.
    simpl in En. inversion En; subst. replace (length l0 + 1 - 1)%nat with (length l0) by lia.
    rewrite firstn_app, firstn_all, Nat.sub_diag, firstn_O, app_nil_r.
    apply Permutation_sym, Permutation_cons_append.
  - assert (Hd0 : (d < length l0)%nat) by lia. rewrite nth_error_app1 in En by lia.
    apply nth_error_split in En. destruct En as [p [q [-> Hp]]]. subst d.
    assert (Esk' : sk = q ++ [z]).
    { rewrite Esk. replace ((p ++ a :: q) ++ [z]) with ((p ++ [a]) ++ q ++ [z]) by (rewrite <- !app_assoc; reflexivity).
      replace (S (length p)) with (length (p ++ [a])) by (rewrite app_length; simpl; lia).
      rewrite skipn_app, skipn_all, Nat.sub_diag. reflexivity. }
    rewrite Esk'. clear Esk Esk' sk.
    rewrite <- app_assoc. cbn [app].
    rewrite firstn_app, firstn_all, Nat.sub_diag, firstn_O, app_nil_r.
    rewrite app_length. cbn [length].
    replace (length p + S (length q) + 1 - 2 - length p)%nat with (length q) by lia.
    rewrite firstn_app, firstn_all, Nat.sub_diag, firstn_O, app_nil_r.
    apply Permutation_sym. apply Permutation_trans with (l' := a :: p ++ q ++ [z]).
    + apply perm_skip. apply Permutation_app_head. apply Permutation_cons_append.
    + apply Permutation_middle.
Qed.

Lemma shuffle_each_spec : forall nodes pool draws h h',
  NoDup nodes -> shuffle_each nodes pool draws h = HOk h' ->
  tax_only h h' /\ (forall j, ~ In j nodes -> taxon h' j = taxon h j) /\
  exists vs rest, map (taxon h') nodes = map Some vs /\ Permutation pool (vs ++ rest).
Proof.
  induction nodes as [|nd r IH]; intros pool draws h h' N E; simpl in E.
  - inversion E; subst. split; [apply tax_only_refl|]. split; [auto|]. exists [], pool. split; reflexivity.
  - inversion N as [|? ? Nx Nr]; subst.
    destruct draws as [|d ds]; [discriminate|].
    destruct (swap_pop pool d) as [[x pool']|] eqn:Es; [|discriminate].
    destruct (IH pool' ds _ h' Nr E) as [T [O [vs [rest [M P]]]]].
    split; [eapply tax_only_trans; [apply tax_only_set_taxon|exact T]|]. split.
    + intros j Hj. rewrite O by (intro C; apply Hj; right; exact C).
      rewrite taxon_set_taxon. destruct (Z.eqb_spec j nd) as [->|_]; [exfalso; apply Hj; left; reflexivity|reflexivity].
    + exists (x :: vs), rest. split.
      * simpl. rewrite M, (O nd Nx), taxon_set_taxon, Z.eqb_refl. reflexivity.
      * eapply Permutation_trans; [apply (swap_pop_perm _ _ _ _ Es)|]. simpl. apply perm_skip, P.
Qed.

Lemma filter_partition_perm {A} (q : A -> bool) (l : list A) :
  Permutation l (filter q l ++ filter (fun a => negb (q a)) l).
Proof.
  induction l as [|a r IH]; [constructor|]. simpl. destruct (q a); simpl.
  - apply perm_skip, IH.
  - eapply Permutation_trans; [apply perm_skip, IH|]. apply Permutation_middle.
Qed.

Definition has_tax (h : heap) (nd : Z) : bool := match taxon h nd with Some _ => true | None => false end.

Lemma pool_of_nodes h L :
  map (taxon h) (filter (has_tax h) L)
  = map Some (flat_map (fun nd => match taxon h nd with Some x => [x] | None => [] end) (filter (has_tax h) L)).
Proof.
  induction L as [|a r IH]; [reflexivity|]. simpl. destruct (has_tax h a) eqn:Ha; [|exact IH].
  unfold has_tax in Ha. simpl. destruct (taxon h a) eqn:E; [|discriminate]. simpl. f_equal. exact IH.
Qed.

Lemma shuffle_each_no_err : forall nodes pool draws h e h1, shuffle_each nodes pool draws h <> HErr e h1.
Proof.
  induction nodes as [|a r IH]; intros pool draws h e h1 E; simpl in E; [discriminate|].
  destruct draws as [|d ds]; [discriminate|]. destruct (swap_pop pool d) as [[? ?]|]; [|discriminate]. eapply IH, E.
Qed.

Theorem shuffle_taxa_spec_l (ii : bool) (draws : list nat) (h : heap) (t : tree) :
  WF h -> abs h = Some t -> shuffle_taxa ii draws h <> HFuel ->
  exists h', (shuffle_taxa ii draws h = HOk h' \/ shuffle_taxa ii draws h = HErr AssertErr h') /\
    WF h' /\ abs h' = Some (retax (taxon h') t) /\ rooted h' = rooted h /\ next h' = next h /\
    strip (retax (taxon h') t) = strip t /\
    (let L := if ii then ids t else leaf_ids t in
     Permutation (map (taxon h) L) (map (taxon h') L) /\
     (forall j, ~ In j L -> taxon h' j = taxon h j)) /\
    (forall j, taxon h' j = None <-> taxon h j = None).
Proof.
  intros Wf A NF. pose proof (WF_abs_t h t Wf A) as W. pose proof W as [[R [N B]] S].
  unfold shuffle_taxa in *. rewrite (with_sub_seed h t _ W) in *. cbv zeta in *.
  set (L := if ii then pre_ids t else leaf_ids t) in *.
  assert (NL : NoDup L).
  { unfold L. destruct ii; [exact N|apply (proj2 (leaf_ids_sub t)), N]. }
  fold (has_tax h) in *. set (nds := filter (has_tax h) L) in *.
  set (pool := flat_map _ nds) in *.
  assert (Nn : NoDup nds) by (apply NoDup_filter, NL).
  destruct (shuffle_each nds pool draws h) as [h1|e h1|] eqn:E; simpl hbind in *; [| |congruence].
  2:{ exfalso. exact (shuffle_each_no_err _ _ _ _ _ _ E). }
  destruct (shuffle_each_spec nds pool draws h h1 Nn E) as [T [O [vs [rest [M P]]]]].
  assert (PN : map (taxon h) nds = map Some pool) by (unfold pool, nds; apply pool_of_nodes).
  assert (Lr : rest = []).
  { assert (L1 : length vs = length nds) by (rewrite <- (map_length Some vs), <- M, map_length; reflexivity).
    assert (L2 : length pool = length nds).
    { pose proof PN as PN'. apply (f_equal (@length _)) in PN'. rewrite !map_length in PN'. symmetry. exact PN'. }
    apply Permutation_length in P. rewrite app_length in P. destruct rest; [reflexivity|simpl in P; lia]. }
  subst rest. rewrite app_nil_r in P.
  pose proof (WFt_retax h h1 t T W) as W1. pose proof T as [_ [Tr [Tn _]]].
  exists h1. split; [destruct (has_dup pool); [right|left]; reflexivity|].
  split; [exists (retax (taxon h1) t); exact W1|]. split; [apply abs_WFt, W1|].
  split; [exact Tr|]. split; [exact Tn|]. split; [apply strip_retax|].
  assert (Mp : Permutation (map (taxon h) nds) (map (taxon h1) nds)).
  { rewrite M, PN. apply Permutation_map, P. }
  split; [split|].
  - fold L. eapply Permutation_trans; [apply Permutation_map, (filter_partition_perm (has_tax h) L)|].
    eapply Permutation_trans; [|apply Permutation_map, Permutation_sym, (filter_partition_perm (has_tax h) L)].
    rewrite !map_app. apply Permutation_app; [exact Mp|].
    replace (map (taxon h1) (filter (fun a => negb (has_tax h a)) L))
      with (map (taxon h) (filter (fun a => negb (has_tax h a)) L)); [apply Permutation_refl|].
    apply map_ext_in. intros j Hj. symmetry. apply O. intro C. apply filter_In in Hj. apply filter_In in C.
    destruct Hj as [_ Hj]. destruct C as [_ C]. rewrite C in Hj. discriminate.
  - fold L. intros j Hj. apply O. intro C. apply Hj. apply filter_In in C. apply C.
  - intro j. destruct (in_dec Z.eq_dec j nds) as [Hj|Hj].
    + assert (S1 : exists v, taxon h1 j = Some v).
      { assert (I : In (taxon h1 j) (map (taxon h1) nds)) by (apply in_map, Hj). rewrite M in I.
        apply in_map_iff in I. destruct I as [v [Ev _]]. exists v. symmetry. exact Ev. }
      assert (S0 : has_tax h j = true) by (apply filter_In in Hj; apply Hj).
      unfold has_tax in S0. destruct S1 as [v ->]. destruct (taxon h j); [|discriminate]. split; discriminate.
    + rewrite (O j Hj). reflexivity.
Qed.

(* in tree terms *)
Theorem shuffle_taxa_tree_l (ii : bool) (draws : list nat) (h : heap) (t : tree) :
  WF h -> abs h = Some t -> shuffle_taxa ii draws h <> HFuel ->
  exists h' t', (shuffle_taxa ii draws h = HOk h' \/ shuffle_taxa ii draws h = HErr AssertErr h') /\
    WF h' /\ abs h' = Some t' /\ rooted h' = rooted h /\ next h' = next h /\
    strip t' = strip t /\
    (if ii then Permutation (node_taxa t) (node_taxa t')
     else Permutation (leaf_taxa t) (leaf_taxa t') /\
          forall j, ~ In j (leaf_ids t) -> taxon h' j = taxon h j).
Proof.
  intros Wf A NF. pose proof (WF_abs_t h t Wf A) as [[R _] _].
  destruct (shuffle_taxa_spec_l ii draws h t Wf A NF) as [h' [E [W' [A' [Rr [Nx [St [[P O] _]]]]]]]].
  exists h', (retax (taxon h') t). split; [exact E|]. split; [exact W'|]. split; [exact A'|].
  split; [exact Rr|]. split; [exact Nx|]. split; [exact St|].
  pose proof (rep_retax_self h None t R) as Self.
  destruct ii.
  - rewrite retax_node_taxa. rewrite <- Self at 1. rewrite retax_node_taxa. exact P.
  - split; [|exact O]. rewrite retax_leaf_taxa. rewrite <- Self at 1. rewrite retax_leaf_taxa. exact P.
Qed.

(* non-vacuity, and the two outcomes: distinct taxa -> returns; a repeated taxon -> the final assertion *)
Definition exsh_tree : tree :=
  T 0 (Some 20) None None
    [T 1 None None (Some 2) [T 2 (Some 10) None (Some 3) []; T 3 (Some 11) None (Some 2) []];
     T 4 None None (Some 2) [T 5 (Some 12) None (Some 2) []; T 6 None None (Some 4) []]].

Example shuffle_taxa_example :
  WF (of_tree exsh_tree None) /\ abs (of_tree exsh_tree None) = Some exsh_tree /\
  (exists h', shuffle_taxa false [1; 0; 0]%nat (of_tree exsh_tree None) = HOk h' /\
     abs h' = Some (T 0 (Some 20) None None
       [T 1 None None (Some 2) [T 2 (Some 11) None (Some 3) []; T 3 (Some 10) None (Some 2) []];
        T 4 None None (Some 2) [T 5 (Some 12) None (Some 2) []; T 6 None None (Some 4) []]])) /\
  (exists h', shuffle_taxa true [0; 0; 0; 0]%nat (of_tree exsh_tree None) = HOk h' /\
     abs h' = Some (T 0 (Some 20) None None
       [T 1 None None (Some 2) [T 2 (Some 12) None (Some 3) []; T 3 (Some 11) None (Some 2) []];
        T 4 None None (Some 2) [T 5 (Some 10) None (Some 2) []; T 6 None None (Some 4) []]])).
Proof.
  assert (N : NoDup (ids exsh_tree)) by (vm_compute; repeat constructor; simpl; intuition discriminate).
  split; [apply of_tree_WF, N|]. split; [apply abs_WFt, of_tree_WFt, N|].
  split; eexists; split; vm_compute; reflexivity.
Qed.
