(* C01, translator tie: the generated from_split_bitmasks (Gen/Bipartition.v) against the model's
   from_splits (Model/C01Model.v). *)
From Coq Require Import ZArith List Bool Lia Permutation.
From DV Require Import Model.PyPrims Model.Tree Gen.BitFns Model.C01Model Model.C01GenPrims Gen.Bipartition
  Proofs.C01Bits Proofs.C01Enc Proofs.C01Flags Proofs.C01Topo Proofs.C01From Proofs.C01Gen.
Import ListNotations.
Open Scope Z_scope.

(* the filter / de-normalisation loop: equal to the model's on all inputs *)
Lemma gen_splits_to_add_eq r all l : gen_splits_to_add r all l = splits_to_add r all l.
Proof.
  unfold gen_splits_to_add, splits_to_add. apply flat_map_ext. intro s. cbv zeta.
  rewrite truthy_ob_is_true.
  destruct (negb (Z.land s all =? all) && negb (Z.land (Z.land s all - 1) (Z.land s all) =? 0)); [| reflexivity].
  destruct (is_true r); [reflexivity|]. destruct (negb (Z.land 1 (Z.land s all) =? 0)); reflexivity.
Qed.

(* the star tree the insertion starts from: the generated encode_bipartitions call + read-back *)
Lemma gen_working_tree_eq ns rooted :
  (do enc <- gen_encode_bipartitions true true false false (lookup ns) rooted (star ns);; prim_working_tree enc)
  = Ok (to_mtree (map (fun e => (fst e, fst (snd e))) (r_edges (encode (lookup ns) rooted (star ns))))
                 (r_tree (encode (lookup ns) rooted (star ns)))).
Proof.
  rewrite gen_encode_bipartitions_eq. cbn [bind prim_working_tree ge_edges ge_tree].
  rewrite encode_f_default. set (R := encode (lookup ns) rooted (star ns)).
  set (tm := fst (snd (last (r_edges R) (0, (0, 0))))).
  assert (M : forall (es : list (Z * (Z * Z))) rr tm0,
              map_res (fun e : Z * bip => match b_leafset (snd e) with Some m => Ok (fst e, m) | None => Err TypeErr end)
                (map (fun e : Z * (Z * Z) => (fst e, compiled_bip false rr tm0 (fst (snd e)))) es)
              = Ok (map (fun e => (fst e, fst (snd e))) es)).
  { induction es as [|e q IH]; intros rr tm0; [reflexivity|]. cbn [map map_res fst snd].
    destruct (compiled_bip_fields false rr tm0 (fst (snd e))) as (_ & B & _). rewrite B, IH. reflexivity. }
  rewrite M. reflexivity.
Qed.

(* ------------------------------------------------------------------------------------------ *)
(* one insertion                                                                               *)

Lemma mtree_eqb_refl t : mtree_eqb t t = true.
Proof.
  induction t as [m x ks IH] using mtree_ind'. cbn [mtree_eqb]. rewrite Z.eqb_refl.
  assert (O : oz_eqb x x = true) by (apply oz_eqb_eq; reflexivity). rewrite O. cbn [andb].
  induction IH as [|k r Hk _ IHr]; [reflexivity|]. rewrite Hk, IHr. reflexivity.
Qed.

Lemma mtree_eqb_eq : forall a b, mtree_eqb a b = true -> a = b.
Proof.
  induction a as [m x ks IH] using mtree_ind'. intros [m' x' ks'] H. cbn [mtree_eqb] in H.
  apply andb_true_iff in H. destruct H as [H H3]. apply andb_true_iff in H. destruct H as [H1 H2].
  apply Z.eqb_eq in H1. apply oz_eqb_eq in H2. subst. f_equal.
  revert ks' H3. induction IH as [|k r Hk _ IHr]; intros [|k' r'] H3; try discriminate; [reflexivity|].
  apply andb_true_iff in H3. destruct H3 as [A B]. rewrite (Hk k' A), (IHr r' B). reflexivity.
Qed.

(* removing the gathered children one by one leaves the children that were not gathered *)
Lemma remove_all_skip (p : mtree -> bool) k : p k = false -> forall L r, Forall (fun c => p c = true) L ->
  fold_left (fun l c => remove_first c l) L (k :: r) = k :: fold_left (fun l c => remove_first c l) L r.
Proof.
  intros Pk L. induction L as [|a q IH]; intros r F; [reflexivity|]. inversion F as [|? ? Pa Fq]; subst.
  cbn [fold_left remove_first]. destruct (mtree_eqb a k) eqn:E.
  - apply mtree_eqb_eq in E. subst. congruence.
  - apply IH. exact Fq.
Qed.

Lemma remove_filter (p : mtree -> bool) ks :
  fold_left (fun l c => remove_first c l) (filter p ks) ks = filter (fun c => negb (p c)) ks.
Proof.
  induction ks as [|k r IH]; [reflexivity|]. cbn [filter]. destruct (p k) eqn:Pk; cbn [negb].
  - cbn [fold_left remove_first]. rewrite mtree_eqb_refl. exact IH.
  - rewrite (remove_all_skip p k Pk); [rewrite IH; reflexivity|].
    apply Forall_forall. intros c Hc. apply filter_In in Hc. tauto.
Qed.

(* Bipartition(leafset_bitmask=nm, tree_leafset_bitmask=all, is_rooted=rt, is_mutable=False, compile_bipartition=True)
   (is_rooted handed on since repair 1507fc88; the leafset mask does not depend on it) *)
Lemma gen_init_new (rt : option bool) nm all : all <> 0 ->
  exists b, gen_init None (Some (Some nm)) (Some (Some all)) (Some rt) (Some (Some false)) (Some (Some true)) = Ok (b, tt)
            /\ b_leafset b = Some (Z.land nm all).
Proof.
  intro N. assert (E : (all =? 0) = false) by (apply Z.eqb_neq; exact N).
  unfold gen_init, gen_compile_split_bitmask, gen_compile_tree_leafset_bitmask, gen_compile_leafset_bitmask,
    truthy_oz, truthy_ob, kw_get, bip_blank.
  destruct rt as [[|]|]; (destruct (Z.eqb nm 0) eqn:En;
  [ apply Z.eqb_eq in En; subst nm;
    repeat (cbn -[py_normalize_bitmask py_least_significant_set_bit Z.eqb Z.land]; rewrite ?E);
    eexists; split; [reflexivity|]; cbn [b_leafset]; rewrite Z.land_0_l; reflexivity
  | repeat (cbn -[py_normalize_bitmask py_least_significant_set_bit Z.eqb Z.land]; rewrite ?E, ?En);
    eexists; split; [reflexivity | reflexivity] ]).
Qed.

Section Node.
  Variables (rt : option bool) (all s : Z).
  Hypothesis Hall : all <> 0.

  Definition gstep (acc_ : res (Z * list mtree * option bip)) (child : mtree) : res (Z * list mtree * option bip) :=
    do st_ <- acc_;;
    let new_mask := fst (fst st_) in let new_node_children := snd (fst st_) in
    let cecm := (m_mask child) in
    if (negb (Z.eqb (Z.land cecm s) 0)) then
      (if negb (negb (Z.eqb cecm s)) then Err AssertErr else
       let new_mask := (Z.lor new_mask cecm) in
       let new_node_children := new_node_children ++ [child] in
       do b_ <- gen_init None (Some (Some new_mask)) (Some (Some all)) (Some rt) (Some (Some false)) (Some (Some true));;
       Ok (new_mask, new_node_children, Some (fst b_)))
    else Ok st_.

  Lemma gather_fold : forall ks a kids ob,
    (forall c, In c ks -> hits s c = true -> m_mask c <> s) ->
    exists ob',
      fold_left gstep ks (Ok (a, kids, ob))
      = Ok (fold_left Z.lor (map m_mask (filter (hits s) ks)) a, kids ++ filter (hits s) ks, ob')
      /\ (filter (hits s) ks = [] -> ob' = ob)
      /\ (filter (hits s) ks <> [] ->
          exists b, ob' = Some b /\ b_leafset b = Some (Z.land (fold_left Z.lor (map m_mask (filter (hits s) ks)) a) all)).
  Proof.
    induction ks as [|k r IH]; intros a kids ob H.
    - exists ob. cbn [fold_left filter map]. rewrite app_nil_r. split; [reflexivity|]. split; [reflexivity | congruence].
    - cbn [fold_left]. unfold gstep at 2. cbn [bind fst snd]. fold (hits s k). cbn [filter].
      destruct (hits s k) eqn:Hk.
      + assert (NE : (m_mask k =? s) = false) by (apply Z.eqb_neq; apply H; [left; reflexivity | exact Hk]).
        rewrite NE. cbn [negb].
        destruct (gen_init_new rt (Z.lor a (m_mask k)) all Hall) as (b & Eb & Lb). rewrite Eb. cbn [bind fst].
        destruct (IH (Z.lor a (m_mask k)) (kids ++ [k]) (Some b) (fun c Hc => H c (or_intror Hc))) as (ob' & E1 & E2 & E3).
        exists ob'. cbn [map fold_left]. rewrite E1, <- app_assoc. split; [reflexivity|]. split; [discriminate|].
        intros _. destruct (filter (hits s) r) as [|c q] eqn:F.
        * rewrite (E2 eq_refl). exists b. split; [reflexivity|]. cbn [map fold_left]. exact Lb.
        * apply E3. discriminate.
      + apply IH. intros c Hc. apply H. right. exact Hc.
  Qed.
End Node.

Lemma gstep_is_generated rt all s ks st :
  fold_left (fun acc_ child =>
      do st_ <- acc_;;
      let new_mask := fst (fst st_) in let new_node_children := snd (fst st_) in
      let cecm := (m_mask child) in
      if (negb (Z.eqb (Z.land cecm s) 0)) then
        (if negb (negb (Z.eqb cecm s)) then Err AssertErr else
         let new_mask := (Z.lor new_mask cecm) in
         let new_node_children := new_node_children ++ [child] in
         do b_ <- gen_init None (Some (Some new_mask)) (Some (Some all)) (Some rt) (Some (Some false)) (Some (Some true));;
         Ok (new_mask, new_node_children, Some (fst b_)))
      else Ok st_) ks st = fold_left (gstep rt all s) ks st.
Proof. reflexivity. Qed.

(* the model's action at the node the search stops at *)
Definition node_model (s : Z) (t : mtree) : mtree :=
  match t with
  | M m x ks =>
    if Z.eqb m s then t
    else if Z.eqb (fold_left Z.lor (map m_mask (filter (hits s) ks)) 0) s
         then M m x (filter (fun c => negb (hits s c)) ks
                     ++ [M (fold_left Z.lor (map m_mask (filter (hits s) ks)) 0) None (filter (hits s) ks)])
         else t
  end.

Lemma at_node_eq rt all s m x ks :
  mwf (M m x ks) -> s <> 0 -> msubset s m -> msubset m all ->
  (forall c, In c ks -> hits s c = true -> m_mask c <> s) ->
  gen_from_splits_at_node rt all s (M m x ks) = Ok (node_model s (M m x ks)).
Proof.
  intros W S0 Sub MA NoEq. unfold gen_from_splits_at_node, node_model. cbn [m_mask m_kids orb].
  destruct (Z.eqb_spec m s) as [E | N]; [reflexivity|].
  assert (M0 : m <> 0) by (apply (mwf_nonzero _ W)).
  assert (A0 : all <> 0).
  { intro E. apply M0. apply msubset_0. rewrite <- E. exact MA. }
  rewrite gstep_is_generated.
  destruct (gather_fold rt all s A0 ks 0 [] None NoEq) as (ob' & E1 & E2 & E3). rewrite E1. cbn [bind fst snd app].
  set (sel := filter (hits s) ks) in *. set (nm := fold_left Z.lor (map m_mask sel) 0) in *.
  (* some child meets the split *)
  assert (SelNE : sel <> []).
  { inversion W as [? ? (k0 & Hk0 & Em) | ? ? ? NE F D E]; subst.
    - exfalso. apply N. symmetry. apply msubset_antisym; [exact Sub|].
      destruct (lsb_pow2 s S0) as (k & (Hk & Hk1 & _) & _). specialize (Sub k Hk Hk1). unfold mem in Sub.
      rewrite Z.pow2_bits_eqb in Sub by lia. apply Z.eqb_eq in Sub. subst k0.
      intros i Hi H. unfold mem in H. rewrite Z.pow2_bits_eqb in H by lia. apply Z.eqb_eq in H. subst i. exact Hk1.
    - destruct (lsb_pow2 s S0) as (k & (Hk & Hk1 & _) & _). specialize (Sub k Hk Hk1).
      apply or_masks_mem in Sub. destruct Sub as (c & Hc & Hm). intro E0.
      assert (In c sel); [| rewrite E0 in H; destruct H].
      apply filter_In. split; [exact Hc|]. apply hits_spec. intro Dj. exact (Dj k Hk Hm Hk1). }
  destruct (E3 SelNE) as (b & -> & Lb). rewrite Lb. cbn [need_int bind].
  (* masks of the children lie inside all *)
  assert (NMA : Z.land nm all = nm).
  { apply msubset_land. apply (msubset_trans _ m); [| exact MA]. unfold nm. rewrite or_masks_fold.
    intros i Hi H. apply or_masks_mem in H. destruct H as (c & Hc & Hm). apply filter_In in Hc.
    apply (mwf_child_subset m x ks c W (proj1 Hc) i Hi Hm). }
  rewrite NMA. destruct (Z.eqb nm s); [| reflexivity].
  unfold prim_regroup. f_equal. f_equal. f_equal. apply remove_filter.
Qed.

Lemma existsb_ext_l {A} (f g : A -> bool) l : (forall a, f a = g a) -> existsb f l = existsb g l.
Proof. intro H. induction l as [|a r IH]; [reflexivity|]. cbn [existsb]. rewrite H, IH. reflexivity. Qed.

(* the whole iteration = the model's add_split, on well-formed working trees inside all_taxa_bitmask *)
Lemma locate_eq rt all s k : s <> 0 -> lowest s k ->
  forall t, mwf t -> msubset s (m_mask t) -> msubset (m_mask t) all ->
  prim_locate_apply (fun mask_ => negb (Z.eqb (Z.land s mask_) s)) (2 ^ k) (gen_from_splits_at_node rt all s) t
  = Ok (insert_split s (2 ^ k) t).
Proof.
  intros S0 Hl. induction t as [m x ks IH] using mtree_ind'. intros W Sub MA. cbn [m_mask] in Sub, MA.
  rewrite insert_split_unfold. cbn [prim_locate_apply].
  assert (CE : forall c, (hits (2 ^ k) c && negb (negb (Z.land s (m_mask c) =? s))) = icond s (2 ^ k) c).
  { intro c. rewrite negb_involutive. reflexivity. }
  rewrite (existsb_ext_l _ _ ks CE).
  destruct (existsb (icond s (2 ^ k)) ks) eqn:EX.
  - inversion W as [| ? ? ? NE F D E]; subst; [discriminate EX|].
    assert (G : (fix go (l : list mtree) : res (list mtree) :=
               match l with
               | [] => Ok []
               | c :: r =>
                 match (if hits (2 ^ k) c && negb (negb (Z.land s (m_mask c) =? s))
                        then prim_locate_apply (fun mask_ => negb (Z.land s mask_ =? s)) (2 ^ k) (gen_from_splits_at_node rt all s) c
                        else Ok c) with
                 | Ok c' => match go r with Ok r' => Ok (c' :: r') | Err er => Err er | OutOfFuel => OutOfFuel end
                 | Err er => Err er
                 | OutOfFuel => OutOfFuel
                 end
               end) ks = Ok (map (istep s (2 ^ k)) ks)).
    { assert (MA' : forall c, In c ks -> msubset (m_mask c) all).
      { intros c Hc. apply (msubset_trans _ (or_masks ks)); [| exact MA]. apply (mwf_child_subset _ x ks c W Hc). }
      clear EX D NE W Sub MA. induction IH as [|c r Hc _ IHr]; [reflexivity|].
      inversion F as [|? ? Wc Fr]; subst. rewrite CE. unfold istep at 1. cbn [map].
      destruct (icond s (2 ^ k) c) eqn:Ec.
      - unfold icond in Ec. apply andb_true_iff in Ec. destruct Ec as [_ Ec].
        rewrite (Hc Wc (proj1 (covers_spec s c) Ec) (MA' c (or_introl eq_refl))).
        rewrite (IHr Fr (fun d Hd => MA' d (or_intror Hd))). unfold istep. reflexivity.
      - rewrite (IHr Fr (fun d Hd => MA' d (or_intror Hd))). reflexivity. }
    rewrite G. reflexivity.
  - rewrite (at_node_eq rt all s m x ks W S0 Sub MA).
    + unfold node_model. destruct (Z.eqb m s); [reflexivity|]. reflexivity.
    + intros c Hc Hh Em.
      assert (icond s (2 ^ k) c = true); [| assert (existsb (icond s (2 ^ k)) ks = true) by (apply existsb_exists; exists c; split; assumption); congruence].
      unfold icond. assert (Cv : covers s c = true) by (apply covers_spec; rewrite Em; apply msubset_refl).
      rewrite Cv, (covers_hits_lb s k Hl c Cv). reflexivity.
Qed.

Lemma gen_from_splits_step_eq rt all t s : mwf t -> s <> 0 -> msubset (m_mask t) all ->
  gen_from_splits_step rt all t s = Ok (add_split t s).
Proof.
  intros W S0 MA. unfold gen_from_splits_step, add_split.
  destruct (negb (Z.land s (m_mask t) =? s)) eqn:E; [reflexivity|].
  apply negb_false_iff, Z.eqb_eq in E. destruct (lsb_pow2 s S0) as (k & Hk & EL). rewrite EL.
  apply (locate_eq rt all s k S0 Hk t W); [apply msubset_land; exact E | exact MA].
Qed.

(* the insertion loop *)
Lemma gen_fold_eq rt all : forall l t, mwf t -> Forall (fun s => s <> 0) l -> msubset (m_mask t) all ->
  fold_left (fun acc_ s => do t0 <- acc_;; gen_from_splits_step rt all t0 s) l (Ok t) = Ok (fold_left add_split l t).
Proof.
  induction l as [|s r IH]; intros t W NZ MA; [reflexivity|]. inversion NZ as [|? ? Hs NZr]; subst.
  cbn [fold_left bind]. rewrite (gen_from_splits_step_eq rt all t s W Hs MA).
  destruct (add_split_ok t s W Hs) as [(W1 & M1 & _) _].
  apply IH; [exact W1 | exact NZr | rewrite M1; exact MA].
Qed.

(* Tree.from_split_bitmasks: the generated function returns the model's working tree, for every
   namespace (consistent with an injective non-negative accession map, >= 2 members, every accession
   index below the accession count), rooting state and list of splits *)
Lemma gen_from_split_bitmasks_eq acc ns count rooted l :
  (forall x, 0 <= acc x) -> (forall x y, acc x = acc y -> x = y) ->
  ns_ok acc ns -> (2 <= length ns)%nat -> (forall p, In p ns -> snd p < count) ->
  gen_from_split_bitmasks ns count rooted l = Ok (from_splits ns count rooted l).
Proof.
  intros Hnn Hinj Hns Hlen Hcount. unfold gen_from_split_bitmasks.
  pose proof (gen_working_tree_eq ns rooted) as WT. cbv zeta.
  destruct (gen_encode_bipartitions true true false false (lookup ns) rooted (star ns)) as [enc | er |] eqn:EG;
    cbn [bind] in WT |- *; try discriminate WT.
  rewrite WT. cbn [bind]. rewrite gen_splits_to_add_eq, gen_all_taxa_bitmask_eq.
  set (t0 := to_mtree _ _).
  assert (T0 : t0 = star_m ns).
  { pose proof (from_splits_star acc ns Hns Hlen count rooted []) as FS. cbn in FS. exact FS. }
  unfold from_splits. fold t0. rewrite T0.
  apply gen_fold_eq.
  - apply (star_m_wf acc Hnn Hinj ns Hns Hlen).
  - apply splits_to_add_nonzero.
  - intros i Hi H. apply (root_bits acc Hnn ns Hns) in H. destruct H as (p & Hp & ->).
    unfold mem, all_taxa_bitmask. rewrite Z.shiftl_1_l. specialize (Hcount p Hp).
    pose proof (snd_nonneg acc Hnn ns Hns p Hp).
    replace (2 ^ count - 1) with (Z.ones count) by (rewrite Z.ones_equiv; lia). apply Z.ones_spec_low. lia.
Qed.
