(* C14 translator tie: the generated _mirror_lookups (Gen/Pdm.v) equals the hand model's `mirror`
   on well-formed tables whose column keys are row keys (the tables compile_from_tree builds). *)
From Coq Require Import ZArith List Bool Lia.
From DV Require Import Model.PyPrims Model.Tree Model.C14Model Model.C14GenPrims Gen.Pdm Proofs.C14Dict Proofs.C14Pdm.
Import ListNotations.
Open Scope Z_scope.

Definition closed_tbl {V} (T : tbl V) : Prop := forall x y v, tget2 x y T = Some v -> dmem y T = true.

Lemma rmap_id {A} (r : res A) : rmap (fun x => x) r = r.
Proof. destruct r; reflexivity. Qed.

(* ---------- py_for_dict: extensionality, lenses ---------- *)
Lemma pfd_go_ext {S V} (get : S -> dict V) n ks (b1 b2 : Z -> S -> res S) :
  (forall k s, b1 k s = b2 k s) -> forall s, py_for_dict_go get n ks b1 s = py_for_dict_go get n ks b2 s.
Proof.
  intro E. induction ks as [|k r IH]; intro s; cbn [py_for_dict_go]; [reflexivity|].
  destruct (Nat.eqb _ n); [|reflexivity]. rewrite E. destruct (b2 k s); auto.
Qed.

Section Lens.
Variables (S B : Type) (get : S -> B) (set : S -> B -> S).
Hypothesis get_set : forall s b, get (set s b) = b.
Hypothesis set_set : forall s b b', set (set s b) b' = set s b'.
Hypothesis set_get : forall s, set s (get s) = s.

Definition lift (f : B -> res B) (s : S) : res S := rmap (set s) (f (get s)).

Lemma pfd_go_lens {W} (f : B -> dict W) n ks (body : Z -> B -> res B) : forall s,
  py_for_dict_go (fun s => f (get s)) n ks (fun k => lift (body k)) s = lift (py_for_dict_go f n ks body) s.
Proof.
  unfold lift. induction ks as [|k r IH]; intro s; cbn [py_for_dict_go].
  - destruct (Nat.eqb _ n); cbn [rmap]; [rewrite set_get|]; reflexivity.
  - destruct (Nat.eqb _ n); [|reflexivity].
    destruct (body k (get s)) as [b'|e|]; cbn [rmap]; try reflexivity.
    rewrite IH. rewrite get_set.
    destruct (py_for_dict_go f n r body b'); cbn [rmap]; try reflexivity. rewrite set_set. reflexivity.
Qed.

Lemma pfd_lens {W} (f : B -> dict W) (body : Z -> B -> res B) s :
  py_for_dict (fun s => f (get s)) (fun k => lift (body k)) s = lift (py_for_dict f body) s.
Proof. unfold py_for_dict. apply pfd_go_lens. Qed.
End Lens.

(* ---------- one table ---------- *)
Section Tbl.
Context {V : Type}.

(* the body of `for taxon2 in ddata[taxon1]` on the table *)
Definition mir_body (t1 t2 : Z) (T : tbl V) : res (tbl V) :=
  do T1 <- (if negb (dmem t2 T) then Ok (dset t2 [] T) else Ok T) ;;
  do row <- (match @dget (dict V) t1 T1 with Some r => @Ok (dict V) r | None => Err KeyErr end) ;;
  do ent <- (match dget t2 row with Some r => Ok r | None => Err KeyErr end) ;;
  tset2 t2 t1 ent T1.

Definition mir_outer (t1 : Z) (T : tbl V) : res (tbl V) :=
  do row <- (match @dget (dict V) t1 T with Some r => @Ok (dict V) r | None => Err KeyErr end) ;;
  py_for_dict (row_of t1) (mir_body t1) T.

Definition mir_tbl (T : tbl V) : res (tbl V) := py_for_dict (fun T => T) mir_outer T.

Lemma length_dkeys {W} (d : dict W) : length d = length (dkeys d).
Proof. unfold dkeys. rewrite map_length. reflexivity. Qed.

Definition model_row_step (t1 : Z) (r : res (tbl V)) (t2v : Z * V) : res (tbl V) :=
  do T' <- r ;;
  if dmem (fst t2v) T' then tset2 (fst t2v) t1 (snd t2v) T' else Err OtherErr.

Lemma inner_eq t1 n : forall rem T,
  wf_tbl T -> NoDup (map fst rem) ->
  (forall k v, In (k, v) rem -> dmem k T = true /\ tget2 t1 k T = Some v) ->
  length (row_of t1 T) = n ->
  py_for_dict_go (row_of t1) n (map fst rem) (mir_body t1) T = fold_left (model_row_step t1) rem (Ok T).
Proof.
  induction rem as [|[t2 v] rem IH]; intros T W N H L; cbn [py_for_dict_go map fold_left fst].
  - rewrite L, Nat.eqb_refl. reflexivity.
  - rewrite L, Nat.eqb_refl.
    destruct (H t2 v (or_introl eq_refl)) as [M2 G2].
    unfold tget2 in G2. destruct (dget t1 T) as [row1|] eqn:E1; [|discriminate].
    assert (St : mir_body t1 t2 T = tset2 t2 t1 v T).
    { unfold mir_body. rewrite M2. cbn [negb bind]. rewrite E1. cbn [bind]. rewrite G2. reflexivity. }
    rewrite St. unfold model_row_step at 2. cbn [bind fst snd]. rewrite M2.
    pose proof M2 as M2'. apply dmem_dget in M2'. destruct M2' as [row2 E2].
    unfold tset2. rewrite E2.
    cbn [map fst] in N. apply NoDup_cons_iff in N. destruct N as [Hn N'].
    assert (W' : wf_tbl (dset t2 (dset t1 v row2) T)).
    { eapply tset2_wf; [exact W|]. unfold tset2. rewrite E2. reflexivity. }
    apply IH; [exact W' | exact N' | |].
    + intros k3 v3 Hin. destruct (H k3 v3 (or_intror Hin)) as [M3 G3]. split.
      * rewrite dmem_dset. rewrite M3. apply orb_true_r.
      * unfold tget2 in *. rewrite dget_dset. destruct (Z.eqb t1 t2) eqn:E12; [|exact G3].
        apply Z.eqb_eq in E12. subst t2. rewrite E1 in E2. inversion E2; subst row2. rewrite E1 in G3.
        rewrite dget_dset_other; [exact G3|]. intro; subst k3. apply Hn.
        change t1 with (fst (t1, v3)). apply in_map. exact Hin.
    + unfold row_of in *. rewrite dget_dset. destruct (Z.eqb t1 t2) eqn:E12.
      * apply Z.eqb_eq in E12. subst t2. rewrite E1 in *. inversion E2; subst row2.
        rewrite !length_dkeys in *. rewrite dkeys_dset_mem; [exact L|]. unfold dmem. rewrite G2. reflexivity.
      * exact L.
Qed.

Lemma mir_outer_eq t1 T row : wf_tbl T -> closed_tbl T -> dget t1 T = Some row ->
  mir_outer t1 T = mirror_row t1 row T.
Proof.
  intros W C E. unfold mir_outer. rewrite E. cbn [bind]. unfold py_for_dict.
  assert (R : row_of t1 T = row) by (unfold row_of; rewrite E; reflexivity). rewrite R.
  change (dict_keys row) with (map fst row). unfold mirror_row.
  pose proof (proj2 W _ _ E) as Nr.
  apply inner_eq; [exact W | exact Nr | | rewrite R; reflexivity].
  intros k v Hin. assert (G : tget2 t1 k T = Some v).
  { unfold tget2. rewrite E. apply In_dget; assumption. }
  split; [eapply C; exact G | exact G].
Qed.

Definition model_tbl_step (r : res (tbl V)) (t1 : Z) : res (tbl V) :=
  do T' <- r ;; match dget t1 T' with Some row => mirror_row t1 row T' | None => Err KeyErr end.

Lemma outer_eq n : forall ks T,
  wf_tbl T -> closed_tbl T -> (forall k, In k ks -> dmem k T = true) -> length T = n ->
  py_for_dict_go (fun T => T) n ks mir_outer T = fold_left model_tbl_step ks (Ok T).
Proof.
  induction ks as [|k ks IH]; intros T W C H L; cbn [py_for_dict_go fold_left].
  - rewrite L, Nat.eqb_refl. reflexivity.
  - rewrite L, Nat.eqb_refl.
    assert (Mk : dmem k T = true) by (apply H; left; reflexivity).
    pose proof Mk as Mk'. apply dmem_dget in Mk'. destruct Mk' as [row E].
    rewrite (mir_outer_eq k T row W C E). unfold model_tbl_step at 2. cbn [bind]. rewrite E.
    destruct (mirror_row_spec k row T) as [T1 [E1 [K1 [W1 G1]]]].
    { exact (proj2 W _ _ E). }
    { exact W. }
    { intros k2 v2 Hin. eapply C. unfold tget2. rewrite E. apply In_dget; [exact (proj2 W _ _ E) | exact Hin]. }
    rewrite E1. apply IH.
    + exact W1.
    + intros x y v Hx. rewrite (dmem_keys_eq T1 T) by exact K1. rewrite G1 in Hx.
      destruct (Z.eqb y k) eqn:Ey.
      * apply Z.eqb_eq in Ey. subst y. exact Mk.
      * eapply C. exact Hx.
    + intros k2 Hin. rewrite (dmem_keys_eq T1 T) by exact K1. apply H. right. exact Hin.
    + rewrite length_dkeys, K1, <- length_dkeys. exact L.
Qed.

Lemma mir_tbl_eq T : wf_tbl T -> closed_tbl T -> mir_tbl T = mirror_tbl T.
Proof.
  intros W C. unfold mir_tbl, py_for_dict, mirror_tbl. change (dict_keys T) with (dkeys T).
  apply outer_eq; auto. intros k Hin. apply dmem_In. exact Hin.
Qed.

End Tbl.

(* ---------- the three tables of the object ---------- *)
Lemma set_dist_get s : set_dist s (p_dist s) = s. Proof. destruct s; reflexivity. Qed.
Lemma set_steps_get s : set_steps s (p_steps s) = s. Proof. destruct s; reflexivity. Qed.
Lemma set_mrca_get s : set_mrca s (p_mrca s) = s. Proof. destruct s; reflexivity. Qed.

Section Obj.
Variables (G : node) (none_key : Z).

Ltac crunch :=
  repeat (match goal with
          | |- context [match ?x with Some _ => _ | None => _ end] => destruct x
          | |- context [tset2 ?a ?b ?c ?d] => destruct (tset2 a b c d)
          end; cbn [bind rmap]); try reflexivity.

Lemma for1_lift t1 t2 s : PDM__mirror_lookups_for1 t1 t2 s = lift _ _ p_dist set_dist (mir_body t1 t2) s.
Proof.
  unfold PDM__mirror_lookups_for1, lift, mir_body.
  destruct (dmem t2 (p_dist s)) eqn:M; cbn [negb bind rmap p_dist set_dist]; crunch.
Qed.

Lemma for3_lift t1 t2 s : PDM__mirror_lookups_for3 t1 t2 s = lift _ _ p_steps set_steps (mir_body t1 t2) s.
Proof.
  unfold PDM__mirror_lookups_for3, lift, mir_body.
  destruct (dmem t2 (p_steps s)) eqn:M; cbn [negb bind rmap p_steps set_steps]; crunch.
Qed.

Lemma for5_lift t1 t2 s : PDM__mirror_lookups_for5 t1 t2 s = lift _ _ p_mrca set_mrca (mir_body t1 t2) s.
Proof.
  unfold PDM__mirror_lookups_for5, lift, mir_body.
  destruct (dmem t2 (p_mrca s)) eqn:M; cbn [negb bind rmap p_mrca set_mrca]; crunch.
Qed.

Lemma rmap_bind_ok {A} (r : res A) : (do x <- r ;; Ok x) = r.
Proof. destruct r; reflexivity. Qed.

Lemma for2_lift t1 s : PDM__mirror_lookups_for2 t1 s = lift _ _ p_dist set_dist (mir_outer t1) s.
Proof.
  unfold PDM__mirror_lookups_for2, lift, mir_outer.
  destruct (dget t1 (p_dist s)) as [row|]; cbn [bind rmap]; [|reflexivity].
  rewrite rmap_bind_ok.
  unfold py_for_dict at 1. rewrite (pfd_go_ext _ _ _ _ _ (for1_lift t1)).
  apply (pfd_lens _ _ p_dist set_dist); [reflexivity | reflexivity | exact set_dist_get].
Qed.

Lemma for4_lift t1 s : PDM__mirror_lookups_for4 t1 s = lift _ _ p_steps set_steps (mir_outer t1) s.
Proof.
  unfold PDM__mirror_lookups_for4, lift, mir_outer.
  destruct (dget t1 (p_steps s)) as [row|]; cbn [bind rmap]; [|reflexivity].
  rewrite rmap_bind_ok.
  unfold py_for_dict at 1. rewrite (pfd_go_ext _ _ _ _ _ (for3_lift t1)).
  apply (pfd_lens _ _ p_steps set_steps); [reflexivity | reflexivity | exact set_steps_get].
Qed.

Lemma for6_lift t1 s : PDM__mirror_lookups_for6 t1 s = lift _ _ p_mrca set_mrca (mir_outer t1) s.
Proof.
  unfold PDM__mirror_lookups_for6, lift, mir_outer.
  destruct (dget t1 (p_mrca s)) as [row|]; cbn [bind rmap]; [|reflexivity].
  rewrite rmap_bind_ok.
  unfold py_for_dict at 1. rewrite (pfd_go_ext _ _ _ _ _ (for5_lift t1)).
  apply (pfd_lens _ _ p_mrca set_mrca); [reflexivity | reflexivity | exact set_mrca_get].
Qed.

Lemma stage_dist s :
  py_for_dict (fun s_ : pdm => p_dist s_) PDM__mirror_lookups_for2 s = rmap (set_dist s) (mir_tbl (p_dist s)).
Proof.
  unfold py_for_dict at 1. rewrite (pfd_go_ext _ _ _ _ _ for2_lift).
  exact (pfd_go_lens _ _ p_dist set_dist (fun s b => eq_refl) (fun s b b' => eq_refl) set_dist_get (fun T => T) _ _ mir_outer s).
Qed.

Lemma stage_steps s :
  py_for_dict (fun s_ : pdm => p_steps s_) PDM__mirror_lookups_for4 s = rmap (set_steps s) (mir_tbl (p_steps s)).
Proof.
  unfold py_for_dict at 1. rewrite (pfd_go_ext _ _ _ _ _ for4_lift).
  exact (pfd_go_lens _ _ p_steps set_steps (fun s b => eq_refl) (fun s b b' => eq_refl) set_steps_get (fun T => T) _ _ mir_outer s).
Qed.

Lemma stage_mrca s :
  py_for_dict (fun s_ : pdm => p_mrca s_) PDM__mirror_lookups_for6 s = rmap (set_mrca s) (mir_tbl (p_mrca s)).
Proof.
  unfold py_for_dict at 1. rewrite (pfd_go_ext _ _ _ _ _ for6_lift).
  exact (pfd_go_lens _ _ p_mrca set_mrca (fun s b => eq_refl) (fun s b b' => eq_refl) set_mrca_get (fun T => T) _ _ mir_outer s).
Qed.

(* the generated procedure in terms of the table-level loops *)
Lemma gen_mirror_tables s :
  PDM__mirror_lookups s =
  do d <- mir_tbl (p_dist s) ;; do st <- mir_tbl (p_steps s) ;; do m <- mir_tbl (p_mrca s) ;;
  Ok (mkPdm (p_tree_length s) (p_num_edges s) d st m (p_mapped s) (p_pairs s) (p_log s)).
Proof.
  unfold PDM__mirror_lookups. cbv zeta.
  change (fun s_ : pdm => let 'self := s_ in p_dist self) with (fun s_ : pdm => p_dist s_).
  rewrite stage_dist. destruct (mir_tbl (p_dist s)) as [d|e|]; cbn [rmap bind]; try reflexivity.
  rewrite stage_steps. cbn [p_steps set_dist].
  destruct (mir_tbl (p_steps s)) as [st|e|]; cbn [rmap bind]; try reflexivity.
  rewrite stage_mrca. cbn [p_mrca set_dist set_steps].
  destruct (mir_tbl (p_mrca s)) as [m|e|]; cbn [rmap bind]; reflexivity.
Qed.

Theorem gen_mirror_lookups_eq s :
  wf_tbl (p_dist s) -> wf_tbl (p_steps s) -> wf_tbl (p_mrca s) ->
  closed_tbl (p_dist s) -> closed_tbl (p_steps s) -> closed_tbl (p_mrca s) ->
  PDM__mirror_lookups s = mirror s.
Proof.
  intros W1 W2 W3 C1 C2 C3. rewrite gen_mirror_tables. unfold mirror.
  rewrite !mir_tbl_eq by assumption. reflexivity.
Qed.

End Obj.
