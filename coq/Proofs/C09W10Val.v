(* C09, wave 10 (b): value-level semantics of the route steps (no store: a matrix is its taxon -> sequence
   dictionary in order of entry) and the proof that the object-level route (Model/C09Obj.v, CopyValues) from a
   separated world computes exactly it - for EVERY matrix of the final world, receivers and concatenate / export
   results included.  Hence every matrix after a route round-trips with the content the value-level semantics
   gives it. *)
From Coq Require Import ZArith List Bool Lia Permutation.
From DV Require Import Model.PyPrims Model.C09AlphaTypes Model.C09Alphabets Model.C09Model Model.C09Spec Model.C09Nexus Model.C09Convert Model.C09Obj.
From DV Require Import Proofs.C09Text Proofs.C09Fasta Proofs.C09PhylipInst Proofs.C09NexusProofs Proofs.C09NexusStd
  Proofs.C09Main Proofs.C09Examples Proofs.C09ObjProofs Proofs.C09W9Sep Proofs.C09W10Src.
Import ListNotations.
Open Scope Z_scope.

(* ---- value level ---- *)

(* dict assignment on values: an existing key keeps its position *)
Fixpoint rm_put (l : text) (c : list Z) (rm : rowmap) : rowmap :=
  match rm with
  | [] => [(l, c)]
  | (k, x) :: t => if text_eqb l k then (k, c) :: t else (k, x) :: rm_put l c t
  end.

(* one (taxon, sequence) of the argument merged into the receiver *)
Definition v_step (b : binop) (rm : rowmap) (p : text * list Z) : rowmap :=
  match rm_get (fst p) rm with
  | None => match b with
            | BAdd | BUpdate | BExtendMatrix | BExtend true => rm_put (fst p) (snd p) rm
            | BReplace | BExtend false => rm
            end
  | Some c0 => match b with
               | BAdd => rm
               | BReplace | BUpdate => rm_put (fst p) (snd p) rm
               | BExtend _ | BExtendMatrix => rm_put (fst p) (c0 ++ snd p) rm
               end
  end.
Definition v_bin (b : binop) (rm arg : rowmap) : rowmap := fold_left (v_step b) arg rm.
(* concatenate: a new empty matrix, extend_matrix with every part in turn *)
Definition v_concat (parts : list rowmap) : rowmap := fold_left (v_bin BExtendMatrix) parts [].
(* export_character_indices: the selected columns of every row *)
Definition v_export (idx : list Z) (rm : rowmap) : rowmap := map (fun p => (fst p, select_cols idx 0 (snd p))) rm.

Definition v_op (cs : list rowmap) (o : oop) : res (list rowmap) :=
  match o with
  | OBin b k j =>
    if Nat.eqb k j then Err OtherErr
    else match nth_error cs k, nth_error cs j with
         | Some mk, Some mj => Ok (set_nth k (v_bin b mk mj) cs)
         | _, _ => Err IndexErr
         end
  | OConcat js =>
    if forallb (fun j => Nat.ltb j (length cs)) js then Ok (cs ++ [v_concat (map (fun j => nth j cs []) js)])
    else Err IndexErr
  | OExport j idx =>
    match nth_error cs j with
    | Some mj => Ok (cs ++ [v_export idx mj])
    | None => Err IndexErr
    end
  end.

Fixpoint v_run (cs : list rowmap) (ops : list oop) : res (list rowmap) :=
  match ops with
  | [] => Ok cs
  | o :: r => match v_op cs o with
              | Ok cs' => v_run cs' r
              | Err e => Err e
              | OutOfFuel => OutOfFuel
              end
  end.

(* ---- refinement of one merge step ---- *)

Definition dr (st : store * orows) : rowmap := deref (fst st) (snd st).

Lemma rm_get_deref : forall s l rs, rm_get l (deref s rs) = option_map (hget s) (o_get l rs).
Proof.
  intros s l rs. induction rs as [| [k y] t IH]; [reflexivity|].
  cbn. destruct (text_eqb l k); [reflexivity | exact IH].
Qed.

Lemma deref_o_put : forall s l n rs, deref s (o_put l n rs) = rm_put l (hget s n) (deref s rs).
Proof.
  intros s l n rs. induction rs as [| [k y] t IH]; [reflexivity|].
  cbn. destruct (text_eqb l k); cbn; [reflexivity|]. f_equal. exact IH.
Qed.

Lemma hget_alloc_new : forall s c, hget (fst (alloc s c)) (s_next s) = c.
Proof. intros s c. unfold hget, alloc. cbn. rewrite Z.eqb_refl. reflexivity. Qed.

Lemma hget_mutate_same : forall s x c, hget (mutate s x c) x = c.
Proof. intros s x c. unfold hget, mutate. cbn. rewrite Z.eqb_refl. reflexivity. Qed.

Lemma copy_in_dr : forall st l ro, Own st -> dr (copy_in CopyValues st l ro) = rm_put l (hget (fst st) ro) (dr st).
Proof.
  intros [s rs] l ro [ND LT]. unfold copy_in, new_from, dr. cbn [fst snd] in *.
  change (alloc s (hget s ro)) with (fst (alloc s (hget s ro)), s_next s). cbn [fst snd].
  rewrite deref_o_put. rewrite hget_alloc_new. f_equal.
  apply deref_ext. intros r Hr. apply hget_alloc_other. specialize (LT r Hr). lia.
Qed.

Lemma deref_mutate : forall s l x c rs,
  NoDup (ids rs) -> o_get l rs = Some x -> deref (mutate s x c) rs = rm_put l c (deref s rs).
Proof.
  intros s l x c rs. induction rs as [| [k y] t IH]; intros ND H; [discriminate|].
  cbn in H, ND. inversion ND as [| ? ? Hn ND']. subst. cbn [deref map fst snd rm_put].
  destruct (text_eqb l k).
  - inversion H. subst y. rewrite hget_mutate_same. f_equal.
    apply deref_ext. intros r Hr. apply hget_mutate_other. intro E. subst. exact (Hn Hr).
  - rewrite hget_mutate_other.
    + f_equal. exact (IH ND' H).
    + intro E. subst y. exact (Hn (o_get_in _ _ _ H)).
Qed.

Lemma extend_in_dr : forall st l x ro, Own st -> o_get l (snd st) = Some x ->
  dr (extend_in st x ro) = rm_put l (hget (fst st) x ++ hget (fst st) ro) (dr st).
Proof.
  intros [s rs] l x ro [ND LT] H. unfold extend_in, dr. cbn [fst snd] in *. exact (deref_mutate s l x _ rs ND H).
Qed.

Lemma bin_step_dr : forall b st l ro, Own st ->
  dr (bin_step CopyValues b st (l, ro)) = v_step b (dr st) (l, hget (fst st) ro).
Proof.
  intros b st l ro O. unfold bin_step, v_step. cbn [fst snd]. unfold dr at 2. rewrite rm_get_deref.
  destruct (o_get l (snd st)) as [x |] eqn:E; cbn [option_map].
  - destruct b; try reflexivity; try (apply copy_in_dr; exact O); apply extend_in_dr; assumption.
  - destruct b as [| | | [|] |]; try reflexivity; apply copy_in_dr; exact O.
Qed.

(* a whole argument: its lists are old (id < n0) and not the receiver's, so they hold throughout what they held *)
Lemma bin_rows_dr : forall s0 K0 b o st,
  Inv s0 K0 st -> Own st -> (forall r, In r (ids o) -> ~ In r K0 /\ r < s_next s0) ->
  dr (bin_rows CopyValues b st o) = v_bin b (dr st) (deref s0 o).
Proof.
  intros s0 K0 b o. unfold bin_rows, v_bin. induction o as [| [l ro] o IH]; intros st I O Ho; [reflexivity|].
  cbn [fold_left deref map fst snd].
  rewrite (IH (bin_step CopyValues b st (l, ro))).
  - f_equal. rewrite (bin_step_dr b st l ro O). f_equal. f_equal.
    destruct I as (_ & Hh & _). destruct (Ho ro (or_introl eq_refl)) as [Hk Hlt]. exact (Hh ro Hk Hlt).
  - apply bin_step_inv. exact I.
  - apply bin_step_own. exact O.
  - intros r Hr. apply Ho. right. exact Hr.
Qed.

Lemma concat_rows_dr : forall s0 ms js st,
  Inv s0 [] st -> Own st -> (forall j r, In r (ids (nth j ms [])) -> r < s_next s0) ->
  dr (fold_left (fun st j => bin_rows CopyValues BExtendMatrix st (nth j ms [])) js st)
  = fold_left (v_bin BExtendMatrix) (map (fun j => deref s0 (nth j ms [])) js) (dr st).
Proof.
  intros s0 ms js. induction js as [| j js IH]; intros st I O Hm; [reflexivity|].
  cbn [fold_left map]. rewrite IH.
  - f_equal. apply (bin_rows_dr s0 []); [exact I | exact O |]. intros r Hr. split; [intros [] | exact (Hm j r Hr)].
  - apply bin_rows_inv. exact I.
  - apply bin_rows_own. exact O.
  - exact Hm.
Qed.

Lemma export_rows_dr : forall idx rs s s' out,
  (forall r, In r (ids rs) -> r < s_next s) ->
  export_rows idx s rs = (s', out) -> deref s' out = v_export idx (deref s rs).
Proof.
  intros idx rs. induction rs as [| [l r0] t IH]; intros s s' out LT H; cbn in H.
  - inversion H. subst. reflexivity.
  - destruct (export_rows idx (fst (alloc s (select_cols idx 0 (hget s r0)))) t) as [s2 o2] eqn:E.
    unfold alloc in H. cbn in H. unfold alloc in E. cbn [fst] in E. rewrite E in H. inversion H. subst s' out.
    destruct (export_rows_keeps _ _ _ _ _ E) as [_ Hk]. cbn [s_next] in Hk.
    change (deref s2 ((l, s_next s) :: o2)) with ((l, hget s2 (s_next s)) :: deref s2 o2).
    change (v_export idx (deref s ((l, r0) :: t))) with ((l, select_cols idx 0 (hget s r0)) :: v_export idx (deref s t)).
    f_equal.
    + f_equal. rewrite Hk by lia. apply (hget_alloc_new s).
    + assert (LT' : forall r, In r (ids t) ->
                r < s_next (mkS ((s_next s, select_cols idx 0 (hget s r0)) :: s_heap s) (s_next s + 1))).
      { intros r Hr. cbn [s_next]. specialize (LT r (or_intror Hr)). lia. }
      rewrite (IH _ _ _ LT' E).
      unfold v_export. f_equal. apply deref_ext. intros r Hr.
      apply (hget_alloc_other s (select_cols idx 0 (hget s r0)) r). specialize (LT r (or_intror Hr)). lia.
Qed.

(* ---- lists ---- *)

Lemma map_set_nth : forall {A B} (f : A -> B) k x l, map f (set_nth k x l) = set_nth k (f x) (map f l).
Proof.
  intros A B f k x l. revert k. induction l as [| y l IH]; intros k; destruct k; cbn; try reflexivity.
  f_equal. apply IH.
Qed.

Lemma set_nth_map_ext : forall {A B} (f g : A -> B) k v l,
  (forall i a, i <> k -> nth_error l i = Some a -> f a = g a) -> set_nth k v (map f l) = set_nth k v (map g l).
Proof.
  intros A B f g k v l. revert k. induction l as [| y l IH]; intros k H; destruct k; cbn; try reflexivity.
  - f_equal. apply map_ext_in. intros a Ha. destruct (In_nth_error _ _ Ha) as [n Hn].
    apply (H (S n) a); [discriminate | exact Hn].
  - f_equal; [apply (H 0%nat y); [discriminate | reflexivity]|].
    apply IH. intros i a Hi Hn. apply (H (S i) a); [lia | exact Hn].
Qed.

Lemma nth_ids_lt : forall ms (n : Z), (forall r, In r (concat (map ids ms)) -> r < n) ->
  forall j r, In r (ids (nth j ms [])) -> r < n.
Proof.
  intros ms n LT j r Hr. destruct (nth_in_or_default j ms []) as [Hin | E].
  - destruct (In_nth_error _ _ Hin) as [k Hk]. apply LT. exact (in_all_ids ms k _ r Hk Hr).
  - rewrite E in Hr. destruct Hr.
Qed.

Lemma nth_map_deref : forall s ms j, nth j (map (deref s) ms) [] = deref s (nth j ms []).
Proof. intros s ms j. change (@nil (text * list Z)) with (deref s []) at 1. apply map_nth. Qed.

(* ---- one step, whole world ---- *)

Lemma o_step_value : forall w o w', sep w -> o_step CopyValues w o = Ok w' -> v_op (contents w) o = Ok (contents w').
Proof.
  intros w o w' S Hs.
  assert (F : forall i mi, receiver o <> Some i -> nth_error (ow_ms w) i = Some mi ->
                           deref (ow_store w') mi = deref (ow_store w) mi).
  { intros i mi Hr Hi. exact (proj2 (o_step_frame w o w' i mi S Hs Hr Hi)). }
  destruct w as [s ms]. destruct S as [ND LT]. unfold all_ids in ND, LT. unfold contents in *.
  cbn [ow_ms ow_store] in *.
  destruct o as [b k j | js | j idx]; cbn [o_step v_op ow_store ow_ms receiver] in *.
  - destruct (Nat.eqb k j) eqn:Ekj; [discriminate|].
    rewrite !nth_error_map.
    destruct (nth_error ms k) as [mk |] eqn:Ek; [| discriminate].
    destruct (nth_error ms j) as [mj |] eqn:Ej; [| discriminate]. cbn [option_map].
    destruct (bin_rows CopyValues b (s, mk) mj) as [s' rk] eqn:Eb. inversion Hs. subst w'. cbn [ow_store ow_ms] in *.
    f_equal. rewrite map_set_nth.
    assert (R : deref s' rk = v_bin b (deref s mk) (deref s mj)).
    { change (deref s' rk) with (dr (s', rk)). rewrite <- Eb.
      apply (bin_rows_dr s (ids mk) b mj (s, mk)).
      - split; [| split]; cbn [fst snd]; [lia | reflexivity | intros r H; left; exact H].
      - split; cbn [fst snd]; [exact (nodup_nth ms k mk ND Ek) | intros r H; apply LT; exact (in_all_ids ms k mk r Ek H)].
      - intros r Hr. split; [| apply LT; exact (in_all_ids ms j mj r Ej Hr)].
        intro Hk. apply Nat.eqb_neq in Ekj. exact (sep_disjoint ms j k mj mk r ND Ej Ek (fun E => Ekj (eq_sym E)) Hr Hk). }
    rewrite R. symmetry. apply set_nth_map_ext. intros i a Hi Hn. apply (F i a); [| exact Hn].
    intro E. inversion E. apply Hi. symmetry. assumption.
  - rewrite map_length.
    destruct (forallb (fun j => Nat.ltb j (length ms)) js); [| discriminate].
    destruct (concat_rows CopyValues s ms js) as [s' acc] eqn:Ec. inversion Hs. subst w'. cbn [ow_store ow_ms] in *.
    f_equal. rewrite map_app. cbn [map]. f_equal.
    + symmetry. apply map_ext_in. intros a Ha. destruct (In_nth_error _ _ Ha) as [n Hn]. apply (F n a); [discriminate | exact Hn].
    + f_equal. symmetry. change (deref s' acc) with (dr (s', acc)). rewrite <- Ec. unfold concat_rows, v_concat.
      etransitivity; [apply (concat_rows_dr s ms js (s, [])) |].
      * split; [| split]; cbn [fst snd]; [lia | reflexivity | intros r []].
      * split; cbn [fst snd]; [constructor | intros r []].
      * exact (nth_ids_lt ms (s_next s) LT).
      * change (dr (s, [])) with (@nil (text * list Z)). f_equal. apply map_ext. intro j. symmetry. apply nth_map_deref.
  - rewrite nth_error_map.
    destruct (nth_error ms j) as [mj |] eqn:Ej; [| discriminate]. cbn [option_map].
    destruct (export_rows idx s mj) as [s' cr] eqn:Ee. inversion Hs. subst w'. cbn [ow_store ow_ms] in *.
    f_equal. rewrite map_app. cbn [map]. f_equal.
    + symmetry. apply map_ext_in. intros a Ha. destruct (In_nth_error _ _ Ha) as [n Hn]. apply (F n a); [discriminate | exact Hn].
    + f_equal. symmetry. apply (export_rows_dr idx mj s s' cr); [| exact Ee].
      intros r Hr. apply LT. exact (in_all_ids ms j mj r Ej Hr).
Qed.

(* ---- whole routes ---- *)

Lemma o_run_value : forall ops w w', sep w -> o_run CopyValues w ops = Ok w' -> v_run (contents w) ops = Ok (contents w').
Proof.
  induction ops as [| o ops IH]; intros w w' S H; cbn in H |- *.
  - inversion H. reflexivity.
  - destruct (o_step CopyValues w o) as [w1 | e |] eqn:E; try discriminate.
    rewrite (o_step_value w o w1 S E). exact (IH w1 w' (o_step_sep w o w1 S E) H).
Qed.

(* every matrix of the final world, as the writers walk it, is the value-level content *)
Lemma route_matrix_value_l : forall (ns : list text) w ops w' cs i c,
  sep w -> o_run CopyValues w ops = Ok w' -> v_run (contents w) ops = Ok cs -> nth_error cs i = Some c ->
  exists mi', nth_error (ow_ms w') i = Some mi' /\ iter_rows ns (deref (ow_store w') mi') = iter_rows ns c.
Proof.
  intros ns w ops w' cs i c S Hs Hv Hi. rewrite (o_run_value ops w w' S Hs) in Hv. inversion Hv. subst cs.
  unfold contents in Hi. rewrite nth_error_map in Hi.
  destruct (nth_error (ow_ms w') i) as [mi' |]; [| discriminate]. cbn in Hi. inversion Hi.
  exists mi'. split; reflexivity.
Qed.
