(* C14, wave 10: the Q-criterion of neighbor joining under the NON-STRICT four-point condition
   (generating trees with polytomies / zero-length edges).  Of the three sums of every quartet the two
   largest are equal (fp3w); nothing is strict.  A Q-minimal pair need not be a cherry of the
   generating tree, but it is a METRIC cherry (all other nodes attach to the path i..j at one point):
   whenever two attachment points differ, the quartets involved are strictly resolved (fp3w_strict),
   and the argument of Proofs/C14NjQ.v goes through; the only new case is a position class whose
   largest Gromov product is 0, where the strict term comes from a node at another position. *)
From Coq Require Import ZArith QArith Qabs List Bool Lia Lqa.
From DV Require Import Model.PyPrims Model.Tree Model.C14Model Model.C14Spec Model.C14Spec2 Model.C14Spec3
     Proofs.C14Dict Proofs.C14Clu Proofs.C14Upgma Proofs.C14Nj Proofs.C14Qcrit Proofs.C14NjQ.
Import ListNotations.
Open Scope Z_scope.

(* of the three sums the two largest are equal *)
Definition fp3w (a b c : Q) : Prop :=
  ((a <= b) /\ (b == c))%Q \/ ((b <= a) /\ (a == c))%Q \/ ((c <= a) /\ (a == b))%Q.

Definition four_point_ns (pool : list jnode) : Prop :=
  forall i j k l, In i pool -> In j pool -> In k pool -> In l pool ->
    j_id i <> j_id j -> j_id i <> j_id k -> j_id i <> j_id l ->
    j_id j <> j_id k -> j_id j <> j_id l -> j_id k <> j_id l ->
    fp3w (jd i j + jd k l) (jd i k + jd j l) (jd i l + jd j k).

Definition mfour_point_ns (M : tbl Q) (order : list Z) : Prop :=
  forall a b c d, In a order -> In b order -> In c order -> In d order ->
    a <> b -> a <> c -> a <> d -> b <> c -> b <> d -> c <> d ->
    fp3w (mval M a b + mval M c d) (mval M a c + mval M b d) (mval M a d + mval M b c).

Lemma fp3w_strict a b c : fp3w a b c -> ~ (b == c)%Q -> fp3 a b c.
Proof.
  unfold fp3w, fp3. intros [[A B]|[[A B]|[A B]]] Ne.
  - exfalso. apply Ne. exact B.
  - right. left. split; [|exact B]. destruct (Qle_lt_or_eq _ _ A) as [X|X]; [exact X|]. exfalso. apply Ne. lra.
  - right. right. split; [|exact B]. destruct (Qle_lt_or_eq _ _ A) as [X|X]; [exact X|]. exfalso. apply Ne. lra.
Qed.

Lemma fp3_fp3w a b c : fp3 a b c -> fp3w a b c.
Proof. unfold fp3, fp3w. intros [[A B]|[[A B]|[A B]]]; [left | right; left | right; right]; split; lra. Qed.

Lemma fp3w_shift a b c s : fp3w a b c -> fp3w (a - s) (b - s) (c - s).
Proof. unfold fp3w. intros [[A B]|[[A B]|[A B]]]; [left | right; left | right; right]; split; lra. Qed.

Lemma fp3w_eq a b c a' b' c' : (a == a')%Q -> (b == b')%Q -> (c == c')%Q -> fp3w a' b' c' -> fp3w a b c.
Proof. unfold fp3w. intros E1 E2 E3 [[A B]|[[A B]|[A B]]]; [left | right; left | right; right]; split; lra. Qed.

(* ---------- a non-cherry pair is beaten ---------- *)
Section BeatsNs.
Variable pool : list jnode.
Hypothesis W : jwf pool.
Hypothesis FP : four_point_ns pool.
Let n := Z.of_nat (length pool).

(* the class of y is {y} and some node sits further along the path i..j: (i, y) beats (i, j) *)
Lemma single_ns i j y l :
  In i pool -> In j pool -> In y pool ->
  j_id i <> j_id j -> j_id i <> j_id y -> j_id j <> j_id y ->
  (forall w, In w (rest pool [j_id i; j_id j; j_id y]) -> ~ (jd i y + jd j w == jd i w + jd j y)%Q) ->
  In l (rest pool [j_id i; j_id j; j_id y]) -> (jd i y - jd j y < jd i l - jd j l)%Q ->
  (qvalue n i y < qvalue n i j)%Q.
Proof.
  intros Hi Hj Hy Nij Niy Njy Hcl Hl Pl.
  pose proof (q_diff3 pool W i j y Hi Hj Hy Nij Niy Njy) as D. fold n in D.
  assert (T : forall w, In w (rest pool [j_id i; j_id j; j_id y]) ->
              (0 <= jd y w - jd j w + jd i j - jd i y)%Q /\
              ((jd i y - jd j y < jd i w - jd j w)%Q -> (0 < jd y w - jd j w + jd i j - jd i y)%Q)).
  { intros w Hw. pose proof (Hcl w Hw) as Hc. apply rest_in in Hw. destruct Hw as [Hw Hn]. simpl in Hn.
    assert (Niw : j_id i <> j_id w) by tauto. assert (Njw : j_id j <> j_id w) by tauto.
    assert (Nyw : j_id y <> j_id w) by tauto.
    pose proof (fp3w_strict _ _ _ (FP i j y w Hi Hj Hy Hw Nij Niy Niw Njy Njw Nyw) Hc) as F. unfold fp3 in F.
    destruct F as [[A B]|[[A B]|[A B]]]; [exfalso; apply Hc; lra | |]; (split; [|intro]; lra). }
  assert (P : (0 < qsum (map (fun w => jd y w - jd j w + jd i j - jd i y) (rest pool [j_id i; j_id j; j_id y])))%Q).
  { apply (qsum_pos _ _ l); [intros w Hw; apply (T w Hw) | exact Hl | apply (T l Hl); exact Pl]. }
  lra.
Qed.

(* y and z sit at the same point of the path i..j, have the largest Gromov product in their class,
   the class holds at most half of the other nodes, and some node l sits elsewhere: (y, z) beats (i, j) *)
Lemma pair_beats_ns i j y z l :
  In i pool -> In j pool -> In y pool -> In z pool ->
  j_id i <> j_id j -> j_id i <> j_id y -> j_id i <> j_id z ->
  j_id j <> j_id y -> j_id j <> j_id z -> j_id y <> j_id z ->
  (jd i z + jd j y == jd i y + jd j z)%Q ->
  (forall w, In w (rest pool [j_id i; j_id j; j_id y; j_id z]) -> same_pos i j y w = true ->
             (qq i j w y <= qq i j y z)%Q /\ (qq i j w z <= qq i j y z)%Q) ->
  (0 <= qsum (map (side i j y) (rest pool [j_id j; j_id i])))%Q ->
  In l (rest pool [j_id i; j_id j; j_id y; j_id z]) -> same_pos i j y l = false ->
  (qvalue n y z < qvalue n i j)%Q.
Proof.
  intros Hi Hj Hy Hz Nij Niy Niz Njy Njz Nyz Pyz Hmax Hlight Hl Pl. pose proof (pool_nodup pool W) as N.
  pose proof (q_diff4 pool W i j y z Hi Hj Hy Hz Nij Niy Niz Njy Njz Nyz) as D. fold n in D.
  set (R := rest pool [j_id i; j_id j; j_id y; j_id z]) in *.
  set (c := ((1 # 2) * qq i j y z)%Q).
  pose proof (jd_sym pool W i y Hi Hy Niy) as Siy. pose proof (jd_sym pool W i z Hi Hz Niz) as Siz.
  pose proof (jd_sym pool W j y Hj Hy Njy) as Sjy. pose proof (jd_sym pool W j z Hj Hz Njz) as Sjz.
  pose proof (jd_sym pool W y z Hy Hz Nyz) as Syz. pose proof (jd_sym pool W i j Hi Hj Nij) as Sij.
  assert (Cnn : (0 <= c)%Q).
  { pose proof (FP i j y z Hi Hj Hy Hz Nij Niy Niz Njy Njz Nyz) as F. unfold fp3w in F. unfold c, qq.
    destruct F as [[A B]|[[A B]|[A B]]]; lra. }
  (* the sides of y and z *)
  assert (Sy1 : side i j y y = (- (1))%Q).
  { unfold side, same_pos. assert (Qeq_bool (jd i y + jd j y) (jd i y + jd j y) = true) as -> by (apply Qeq_bool_iff; reflexivity). reflexivity. }
  assert (Sz1 : side i j y z = (- (1))%Q).
  { unfold side, same_pos. assert (Qeq_bool (jd i z + jd j y) (jd i y + jd j z) = true) as -> by (apply Qeq_bool_iff; exact Pyz). reflexivity. }
  assert (SR : (2 <= qsum (map (side i j y) R))%Q).
  { rewrite (rest_peel pool [j_id j; j_id i] y _ N Hy) in Hlight by (simpl; intros [E|[E|[]]]; congruence).
    rewrite (rest_peel pool [j_id y; j_id j; j_id i] z _ N Hz) in Hlight by (simpl; intros [E|[E|[E|[]]]]; congruence).
    rewrite (rest_ext pool [j_id z; j_id y; j_id j; j_id i] [j_id i; j_id j; j_id y; j_id z]) in Hlight by (intro x; simpl; tauto).
    fold R in Hlight. rewrite Sy1, Sz1 in Hlight. lra. }
  (* term by term *)
  assert (T : forall w, In w R ->
              (c * side i j y w <= (jd y w + jd z w - jd y z) - (jd i w + jd j w - jd i j))%Q /\
              (same_pos i j y w = false ->
               (c * side i j y w < (jd y w + jd z w - jd y z) - (jd i w + jd j w - jd i j))%Q)).
  { intros w Hw. pose proof (Hmax w Hw) as Hm. apply rest_in in Hw. destruct Hw as [Hw Hn]. simpl in Hn.
    assert (Niw : j_id i <> j_id w) by tauto. assert (Njw : j_id j <> j_id w) by tauto.
    assert (Nyw : j_id y <> j_id w) by tauto. assert (Nzw : j_id z <> j_id w) by tauto.
    pose proof (jd_sym pool W y w Hy Hw Nyw) as Syw. pose proof (jd_sym pool W z w Hz Hw Nzw) as Szw.
    pose proof (jd_sym pool W i w Hi Hw Niw) as Siw. pose proof (jd_sym pool W j w Hj Hw Njw) as Sjw.
    unfold side. destruct (same_pos i j y w) eqn:E.
    - split; [|discriminate]. destruct (Hm eq_refl) as [M1 M2]. unfold c. unfold qq in *. lra.
    - assert (Ne : ~ (jd i w + jd j y == jd i y + jd j w)%Q).
      { intro X. apply Qeq_bool_iff in X. unfold same_pos in E. congruence. }
      assert (Ne1 : ~ (jd i y + jd j w == jd i w + jd j y)%Q) by (intro X; apply Ne; lra).
      assert (Ne2 : ~ (jd i z + jd j w == jd i w + jd j z)%Q) by (intro X; apply Ne; lra).
      pose proof (fp3w_strict _ _ _ (FP i j y w Hi Hj Hy Hw Nij Niy Niw Njy Njw Nyw) Ne1) as F1.
      pose proof (fp3w_strict _ _ _ (FP i j z w Hi Hj Hz Hw Nij Niz Niw Njz Njw Nzw) Ne2) as F2. unfold fp3 in F1, F2. unfold c, qq.
      destruct F1 as [[A1 B1]|[[A1 B1]|[A1 B1]]]; [exfalso; apply Ne; lra | |];
        (destruct F2 as [[A2 B2]|[[A2 B2]|[A2 B2]]]; (split; [|intros _]; lra)). }
  set (tm := fun w : jnode => ((jd y w + jd z w - jd y z) - (jd i w + jd j w - jd i j))%Q) in *.
  assert (P : (0 < qsum (map (fun w => tm w - c * side i j y w) R))%Q).
  { apply (qsum_pos _ R l); [| exact Hl |].
    - intros w Hw. destruct (T w Hw) as [T1 _]. unfold tm in *. cbv beta in *. lra.
    - destruct (T l Hl) as [_ T2]. pose proof (T2 Pl) as T3. unfold tm in *. cbv beta in *. lra. }
  rewrite (qsum_sub tm (fun w => c * side i j y w)%Q) in P. rewrite qsum_scal in P.
  assert (P2 : (0 <= c * qsum (map (side i j y) R))%Q).
  { apply Qmult_le_0_compat; [exact Cnn | lra]. }
  lra.
Qed.

(* the class of y holds at most half of the other nodes, and l is not in it: some pair beats (i, j) *)
Lemma light_beats_ns i j y l :
  In i pool -> In j pool -> j_id i <> j_id j ->
  In y (rest pool [j_id j; j_id i]) -> In l (rest pool [j_id j; j_id i]) ->
  ~ (jd i l + jd j y == jd i y + jd j l)%Q ->
  (0 <= qsum (map (side i j y) (rest pool [j_id j; j_id i])))%Q ->
  exists u v, In u pool /\ In v pool /\ j_id u <> j_id v /\ (qvalue n u v < qvalue n i j)%Q.
Proof.
  intros Hi Hj Nij Hy0 Hl0 Npos Hlight. pose proof (pool_nodup pool W) as N.
  pose proof Hy0 as Hy1. apply rest_in in Hy1. destruct Hy1 as [Hy Hyn]. simpl in Hyn.
  pose proof Hl0 as Hl1. apply rest_in in Hl1. destruct Hl1 as [Hl Hln]. simpl in Hln.
  assert (Niy : j_id i <> j_id y) by (intro; apply Hyn; auto).
  assert (Njy : j_id j <> j_id y) by (intro; apply Hyn; auto).
  set (A := filter (same_pos i j y) (rest pool [j_id j; j_id i])).
  set (PL := filter (fun ab : jnode * jnode => negb (j_id (fst ab) =? j_id (snd ab))) (list_prod A A)).
  assert (InPL : forall a b, In (a, b) PL <-> In a A /\ In b A /\ j_id a <> j_id b).
  { intros a b. unfold PL. rewrite filter_In, in_prod_iff. cbn [fst snd]. rewrite negb_true_iff, Z.eqb_neq. tauto. }
  assert (InA : forall a, In a A <-> In a (rest pool [j_id j; j_id i]) /\ same_pos i j y a = true).
  { intro a. unfold A. apply filter_In. }
  assert (Ay : In y A).
  { apply InA. split; [exact Hy0|]. apply same_pos_iff. reflexivity. }
  assert (Ply : same_pos i j y l = false).
  { destruct (same_pos i j y l) eqn:E; [|reflexivity]. exfalso. apply Npos. apply same_pos_iff in E. exact E. }
  destruct PL as [|pr PL'] eqn:EPL.
  - (* the class of y is {y} *)
    assert (Hcl : forall w, In w (rest pool [j_id i; j_id j; j_id y]) -> ~ (jd i y + jd j w == jd i w + jd j y)%Q).
    { intros w Hw X. apply rest_in in Hw. destruct Hw as [Hw Hn]. simpl in Hn.
      assert (Aw : In w A).
      { apply InA. split; [apply rest_in; split; [exact Hw | simpl; tauto]|]. apply same_pos_iff. lra. }
      assert (In (y, w) []) as [].
      apply InPL. split; [exact Ay|]. split; [exact Aw|]. intro E. apply Hn. rewrite E. auto. }
    assert (Nyl : j_id y <> j_id l).
    { intro E. assert (y = l) by (apply (same_id_eq j_id pool); auto). subst l. apply Npos. reflexivity. }
    assert (Hl3 : In l (rest pool [j_id i; j_id j; j_id y])).
    { apply rest_in. split; [exact Hl|]. simpl. intros [E|[E|[E|[]]]]; [apply Hln; auto | apply Hln; auto | congruence]. }
    destruct (Q_dec (jd i y - jd j y) (jd i l - jd j l)) as [[Lt|Gt]|Eq].
    + exists i, y. split; [exact Hi|]. split; [exact Hy|]. split; [exact Niy|].
      apply (single_ns i j y l); auto.
    + exists j, y. split; [exact Hj|]. split; [exact Hy|]. split; [exact Njy|].
      rewrite (qvalue_sym pool n i j W Hi Hj Nij).
      apply (single_ns j i y l); auto.
      * intros w Hw X. rewrite (rest_ext pool [j_id j; j_id i; j_id y] [j_id i; j_id j; j_id y]) in Hw by (intro x; simpl; tauto).
        apply (Hcl w Hw). lra.
      * rewrite (rest_ext pool [j_id j; j_id i; j_id y] [j_id i; j_id j; j_id y]) by (intro x; simpl; tauto). exact Hl3.
      * lra.
    + exfalso. apply Npos. lra.
  - (* the class has two nodes: take the pair with the largest Gromov product *)
    destruct (argmax_exists (fun ab : jnode * jnode => qq i j (fst ab) (snd ab)) (pr :: PL')) as [[y' z'] [Hyz Mx]]; [discriminate|].
    cbn [fst snd] in Mx. apply InPL in Hyz. destruct Hyz as [Ay' [Az' Nyz']].
    pose proof Ay' as Ty. apply InA in Ty. destruct Ty as [Ry' Py']. pose proof Az' as Tz. apply InA in Tz. destruct Tz as [Rz' Pz'].
    pose proof Ry' as Ty. apply rest_in in Ty. destruct Ty as [Hy' Hyn']. simpl in Hyn'.
    pose proof Rz' as Tz. apply rest_in in Tz. destruct Tz as [Hz' Hzn']. simpl in Hzn'.
    exists y', z'. split; [exact Hy'|]. split; [exact Hz'|]. split; [exact Nyz'|].
    pose proof Py' as Ey. apply same_pos_iff in Ey. pose proof Pz' as Ez. apply same_pos_iff in Ez.
    assert (Ply' : same_pos i j y' l = false) by (rewrite (same_pos_trans i j y y' l Py'); exact Ply).
    assert (Plz' : same_pos i j z' l = false) by (rewrite (same_pos_trans i j y z' l Pz'); exact Ply).
    apply (pair_beats_ns i j y' z' l); auto.
    + lra.
    + intros w Hw Sw. rewrite (same_pos_trans i j y y' w Py') in Sw.
      apply rest_in in Hw. destruct Hw as [Hw Hn]. simpl in Hn.
      assert (Aw : In w A).
      { apply InA. split; [apply rest_in; split; [exact Hw | simpl; tauto] | exact Sw]. }
      split.
      * apply (Mx (w, y')). apply InPL. split; [exact Aw|]. split; [exact Ay'|]. intro E. apply Hn. rewrite E. auto.
      * apply (Mx (w, z')). apply InPL. split; [exact Aw|]. split; [exact Az'|]. intro E. apply Hn. rewrite E. auto.
    + assert (E : (qsum (map (side i j y') (rest pool [j_id j; j_id i])) == qsum (map (side i j y) (rest pool [j_id j; j_id i])))%Q).
      { apply qsum_ext. intros w _. unfold side. rewrite (same_pos_trans i j y y' w Py'). reflexivity. }
      rewrite E. exact Hlight.
    + apply rest_in. split; [exact Hl|]. simpl. intros [E|[E|[E|[E|[]]]]].
      * apply Hln; auto.
      * apply Hln; auto.
      * assert (y' = l) by (apply (same_id_eq j_id pool); auto). subst l.
        assert (same_pos i j y' y' = true) by (apply same_pos_iff; reflexivity). congruence.
      * assert (z' = l) by (apply (same_id_eq j_id pool); auto). subst l.
        assert (same_pos i j z' z' = true) by (apply same_pos_iff; reflexivity). congruence.
Qed.

End BeatsNs.

(* ---------- the Q-criterion ---------- *)
Theorem fp_cherry_ns : qcrit_cherry four_point_ns.
Proof.
  intros pool j0 j1 FP W L3 Hab Min.
  destruct (Nat.eq_dec (length pool) 3) as [E3|N3]; [apply three_cherry; assumption|].
  destruct (sums_facts pool j0 j1 W Hab) as [H0 [H1 [Nd [Io [No _]]]]].
  pose proof (min_all pool (Z.of_nat (length pool)) j0 j1 W Hab Min) as MinS.
  pose proof (others_length j_id pool j0 j1 (proj1 W) H0 H1 Nd) as Lo.
  set (others := remove_id j_id (j_id j1) (remove_id j_id (j_id j0) pool)) in *.
  destruct others as [|k1 others'] eqn:Eo; [simpl in Lo; lia|].
  assert (I1 : In k1 (k1 :: others')) by (left; reflexivity).
  apply (cherry_of_quartets (k1 :: others') j0 j1 k1 I1). intros k Hk.
  destruct (Qeq_dec (jd j0 k + jd j1 k1) (jd j0 k1 + jd j1 k)) as [E|Ne]; [exact E|exfalso].
  assert (Rk : forall w, In w (k1 :: others') -> In w (rest pool [j_id j1; j_id j0])).
  { intros w Hw. apply Io in Hw. apply rest_in. split; [tauto|]. simpl. intros [X|[X|[]]]; symmetry in X; tauto. }
  set (R := rest pool [j_id j1; j_id j0]).
  assert (T : (0 <= qsum (map (fun w => side j0 j1 k w + side j0 j1 k1 w) R))%Q).
  { apply qsum_nonneg. intros w _. unfold side.
    destruct (same_pos j0 j1 k w) eqn:E1; destruct (same_pos j0 j1 k1 w) eqn:E2; try lra.
    exfalso. apply same_pos_iff in E1. apply same_pos_iff in E2. apply Ne. lra. }
  assert (T2 : (qsum (map (fun w => side j0 j1 k w + side j0 j1 k1 w) R) ==
                qsum (map (side j0 j1 k) R) + qsum (map (side j0 j1 k1) R))%Q).
  { apply qsum_plus. }
  assert (Beat : exists u v, In u pool /\ In v pool /\ j_id u <> j_id v /\
                             (qvalue (Z.of_nat (length pool)) u v < qvalue (Z.of_nat (length pool)) j0 j1)%Q).
  { destruct (Qlt_le_dec (qsum (map (side j0 j1 k) R)) 0) as [Neg|Pos].
    - apply (light_beats_ns pool W FP j0 j1 k1 k H0 H1 Nd (Rk k1 I1) (Rk k Hk)).
      + intro X. apply Ne. lra.
      + fold R. lra.
    - apply (light_beats_ns pool W FP j0 j1 k k1 H0 H1 Nd (Rk k Hk) (Rk k1 I1)).
      + intro X. apply Ne. lra.
      + exact Pos. }
  destruct Beat as [u [v [Hu [Hv [Nuv Lt]]]]].
  pose proof (MinS u v Hu Hv Nuv) as Le. lra.
Qed.

(* (a) joining ANY Q-minimal pair keeps the non-strict four-point condition (the pair is a metric
   cherry, so the reduced distances are the old ones shifted by the pendant length a0) *)
Theorem fp_closed_ns : qcrit_closed four_point_ns.
Proof.
  intros pool next pool' FP W L3 Nn E.
  destruct (nj_step_sound_l pool (Z.of_nat (length pool)) next W eq_refl) as
      [j0 [j1 [rest [newn [l0 [l1 [E' [Hab [Min [Ht [_ [_ [Hids [Htrees [Hothers [W' Hcherry]]]]]]]]]]]]]]]]; [lia | exact Nn|].
  rewrite E in E'. inversion E'. subst pool'. clear E'.
  destruct (fp_cherry_ns pool j0 j1 FP W L3 Hab Min) as [a0 [a1 [mv C]]].
  destruct (Hcherry a0 a1 mv C) as [Cm _]. destruct C as [C01 Ck].
  destruct W as [N [D [Sy Xs]]]. destruct (pairs_of_In _ _ _ Hab) as [H0 H1].
  pose proof (pairs_of_distinct j_id _ _ _ N Hab) as Nd.
  pose proof (others_length j_id pool j0 j1 N H0 H1 Nd) as Lo.
  set (others := remove_id j_id (j_id j1) (remove_id j_id (j_id j0) pool)) in *.
  assert (N0 : NoDup (map j_id (remove_id j_id (j_id j0) pool))) by (apply remove_id_NoDup; exact N).
  assert (No : NoDup (map j_id others)) by (apply remove_id_NoDup; exact N0).
  assert (Io : forall k, In k others <-> In k pool /\ j_id k <> j_id j0 /\ j_id k <> j_id j1).
  { intro k. unfold others. rewrite (remove_id_In j_id _ _ _ N0), (remove_id_In j_id _ _ _ N). tauto. }
  assert (Hnew : j_id newn = next) by (unfold j_id; rewrite Ht; reflexivity).
  assert (Lr : length rest = length others) by (rewrite <- (map_length j_id rest), Hids, map_length; reflexivity).
  (* view of the new pool in the old one *)
  set (R := fun (u uo : jnode) => (In u rest /\ In uo others /\ j_id u = j_id uo) \/ (u = newn /\ uo = j0)).
  set (sh := fun u : jnode => if Z.eqb (j_id u) next then a0 else 0%Q).
  assert (RX : forall u, In u (rest ++ [newn]) -> exists uo, R u uo).
  { intros u Hu. apply in_app_iff in Hu. destruct Hu as [Hu|[<-|[]]]; [|exists j0; right; auto].
    destruct (map2_in j_id j_tree rest others Hids Htrees u Hu) as [k [Hk [Ek _]]]. exists k. left. auto. }
  assert (Rpool : forall u uo, R u uo -> In uo pool).
  { intros u uo [[_ [H _]]|[_ ->]]; [apply Io in H; tauto | exact H0]. }
  assert (Rnext : forall u uo, R u uo -> In u rest -> j_id u <> next).
  { intros u uo _ Hu Eq. apply Nn. rewrite <- Eq. destruct (map2_in j_id j_tree rest others Hids Htrees u Hu) as [k [Hk [Ek _]]].
    rewrite Ek. apply in_map. apply Io in Hk. tauto. }
  assert (Rid : forall u v uo vo, R u uo -> R v vo -> j_id u <> j_id v -> j_id uo <> j_id vo).
  { intros u v uo vo [[Hu [Huo Eu]]|[-> ->]] [[Hv [Hvo Ev]]|[-> ->]] Hn; try congruence.
    - apply Io in Huo. tauto.
    - apply Io in Hvo. intro X. symmetry in X. tauto. }
  assert (Rjd : forall u v uo vo, R u uo -> R v vo -> j_id u <> j_id v ->
                (jd u v == jd uo vo - (sh u + sh v))%Q).
  { intros u v uo vo Ru Rv Hn. destruct Ru as [[Hu [Huo Eu]]|[-> ->]]; destruct Rv as [[Hv [Hvo Ev]]|[-> ->]].
    - unfold sh. assert (Z.eqb (j_id u) next = false) as -> by (apply Z.eqb_neq; eapply Rnext; [left|]; eauto).
      assert (Z.eqb (j_id v) next = false) as -> by (apply Z.eqb_neq; eapply Rnext; [left|]; eauto).
      destruct (Hothers uo Huo) as [u2 [Hu2 [Eu2 [Hsame _]]]].
      assert (u2 = u) by (apply (same_id_eq j_id rest); auto; [rewrite Hids; exact No | congruence]). subst u2.
      rewrite (Hsame vo v Hvo Hv Ev) by congruence. ring.
    - unfold sh. assert (Z.eqb (j_id u) next = false) as -> by (apply Z.eqb_neq; eapply Rnext; [left|]; eauto).
      rewrite Hnew, Z.eqb_refl. rewrite (Cm uo u Huo Hu Eu). destruct (Ck uo Huo) as [C0 _].
      pose proof Huo as Huo2. apply Io in Huo2. destruct Huo2 as [Hp [K0 K1]].
      rewrite (Sy uo j0 Hp H0 K0), C0. ring.
    - unfold sh. assert (Z.eqb (j_id v) next = false) as -> by (apply Z.eqb_neq; eapply Rnext; [left|]; eauto).
      rewrite Hnew, Z.eqb_refl.
      destruct (Hothers vo Hvo) as [v2 [Hv2 [Ev2 [_ [_ Hsw]]]]].
      assert (v2 = v) by (apply (same_id_eq j_id rest); auto; [rewrite Hids; exact No | congruence]). subst v2.
      rewrite Hsw, (Cm vo v Hvo Hv Ev). destruct (Ck vo Hvo) as [C0 _]. rewrite C0. ring.
    - congruence. }
  intros i j k l Hi Hj Hk Hl Nij Nik Nil Njk Njl Nkl.
  destruct (RX i Hi) as [io Ri]. destruct (RX j Hj) as [jo Rj]. destruct (RX k Hk) as [ko Rk]. destruct (RX l Hl) as [lo Rl].
  pose proof (FP io jo ko lo (Rpool _ _ Ri) (Rpool _ _ Rj) (Rpool _ _ Rk) (Rpool _ _ Rl)
                (Rid _ _ _ _ Ri Rj Nij) (Rid _ _ _ _ Ri Rk Nik) (Rid _ _ _ _ Ri Rl Nil)
                (Rid _ _ _ _ Rj Rk Njk) (Rid _ _ _ _ Rj Rl Njl) (Rid _ _ _ _ Rk Rl Nkl)) as F.
  apply (fp3w_shift _ _ _ (sh i + sh j + sh k + sh l)%Q) in F.
  eapply fp3w_eq; [| | |exact F].
  - rewrite (Rjd i j io jo Ri Rj Nij), (Rjd k l ko lo Rk Rl Nkl). ring.
  - rewrite (Rjd i k io ko Ri Rk Nik), (Rjd j l jo lo Rj Rl Njl). ring.
  - rewrite (Rjd i l io lo Ri Rl Nil), (Rjd j k jo ko Rj Rk Njk). ring.
Qed.

(* ---------- NJ on any number of taxa ---------- *)
Lemma nj_init_FP_ns M order pool :
  NoDup order -> mcomplete M order -> mfour_point_ns M order ->
  nj_init M order = Ok pool -> four_point_ns pool.
Proof.
  intros N Hc FP Ei. destruct (ids_facts order) as [F [S0 [Nf [Li Fr]]]].
  set (ids := combine (map Z.of_nat (seq 0 (length order))) order) in *.
  assert (Ns : NoDup (map snd ids)) by (rewrite S0; exact N).
  assert (Hc' : mcomplete M (map snd ids)) by (rewrite S0; exact Hc).
  rewrite (nj_init_eval M ids Ns Hc' order eq_refl) in Ei. inversion Ei. subst pool. clear Ei.
  intros i j k l Hi Hj Hk Hl Nij Nik Nil Njk Njl Nkl.
  apply in_map_iff in Hi. destruct Hi as [ia [<- Hia]]. apply in_map_iff in Hj. destruct Hj as [jb [<- Hjb]].
  apply in_map_iff in Hk. destruct Hk as [kc [<- Hkc]]. apply in_map_iff in Hl. destruct Hl as [ld [<- Hld]].
  change (fst ia <> fst jb) in Nij. change (fst ia <> fst kc) in Nik. change (fst ia <> fst ld) in Nil.
  change (fst jb <> fst kc) in Njk. change (fst jb <> fst ld) in Njl. change (fst kc <> fst ld) in Nkl.
  rewrite !(nmk_jd M ids Nf) by assumption.
  assert (In_o : forall p, In p ids -> In (snd p) order) by (intros p Hp; rewrite <- S0; apply in_map; exact Hp).
  apply FP; auto; apply (ids_snd_neq ids Ns); assumption.
Qed.

(* (c), first half: nj_tree's output realises every matrix satisfying the non-strict four-point
   condition -- any number of taxa, any iteration order, any tie-break among Q-minimal pairs (the
   model's tie-break is whatever pairs_of/min picks for the given order; the criterion lemmas above
   hold for every Q-minimal pair) *)
Theorem nj_realises_nonstrict_l M order :
  NoDup order -> order <> [] ->
  mcomplete M order -> msymmetric M order -> mfour_point_ns M order ->
  exists T, nj_tree M order = Ok T /\
    forall a b, In a order -> In b order -> a <> b -> exists q, qdist T a b = Some q /\ (q == mval M a b)%Q.
Proof.
  intros N Ne Hc Hs FP.
  apply (nj_realizes_additive_l M order four_point_ns N Ne Hc Hs fp_cherry_ns fp_closed_ns).
  intros pool Ei. eapply nj_init_FP_ns; eassumption.
Qed.
