(* C03 proofs: Node.set_child_nodes in general (any represented, pairwise disjoint components;
   any selection of own children, with repeats and omissions), Node.collapse_clade, and
   Tree.randomly_rotate under an arbitrary script (dropped subtrees become garbage). *)
From Coq Require Import ZArith List Bool Lia Permutation.
From DV Require Import Model.PyPrims Model.Tree Model.Heap Model.HeapOps Model.C03Spec
  Proofs.C03Base Proofs.C03Abs Proofs.C03Local Proofs.C03Prims Proofs.C03Collapse Proofs.C03Suppress
  Proofs.C03Reseed Proofs.C03Order Proofs.C03Ops Proofs.C03Ops2 Proofs.C03PruneLoops Proofs.C03Hist.
Import ListNotations. Open Scope Z_scope.

(* ---------- 1. attaching components that carry arbitrary stale parent pointers ---------- *)

Lemma Forall_exrep_frame_off S h h' ks :
  same_off S h h' -> grows h h' -> (forall j, In j (flat_map ids ks) -> ~ In j S) ->
  Forall (fun k => exists par0, rep h par0 k) ks -> Forall (fun k => exists par0, rep h' par0 k) ks.
Proof.
  intros A G D F. rewrite Forall_forall in *. intros k Hk. destruct (F k Hk) as [par0 R].
  exists par0. eapply rep_frame_off; eauto. intros j Hj. apply D. eapply flat_ids_in; eauto.
Qed.

Lemma add_children_any c p x l e : forall todo dn h,
  Wr h (plug c (T p x l e dn)) ->
  Forall (fun k => exists par0, rep h par0 k) todo -> NoDup (flat_map ids todo) ->
  (forall j, In j (flat_map ids todo) -> ~ In j (ids (plug c (T p x l e dn)))) ->
  (forall j, In j (flat_map ids todo) -> j < next h) ->
  exists h', hfold (add_child p) (map t_id todo) h = HOk h' /\
    Wr h' (plug c (T p x l e (dn ++ todo))) /\ pres h h' /\ grows h h' /\
    same_off (p :: map t_id todo) h h'.
Proof.
  induction todo as [|k r IH]; intros dn h W F N D B.
  - exists h. simpl. rewrite app_nil_r.
    split; [reflexivity|split; [exact W|split; [apply pres_refl|split; [apply grows_refl|apply same_off_refl]]]].
  - simpl map. simpl hfold. inversion F as [|? ? [par0 Rk] Fr]; subst.
    simpl in N. apply NoDup_app_iff in N. destruct N as [Nk [Nr Dkr]].
    destruct (add_child_attach h c p x l e dn par0 k W Rk Nk) as [h1 [E1 [W1 [A1 [G1 P1]]]]].
    { intros j Hj. apply D. simpl. apply in_app_iff. left. exact Hj. }
    { intros j Hj. apply B. simpl. apply in_app_iff. left. exact Hj. }
    rewrite E1. simpl hbind.
    destruct (IH (dn ++ [k]) h1 W1) as [h2 [E2 [W2 [P2 [G2 A2]]]]].
    + eapply Forall_exrep_frame_off; eauto. intros j Hj [<-|[<-|[]]].
      * apply (D p); [simpl; apply in_app_iff; right; exact Hj|].
        apply in_plug. left. apply (ids_root (T p x l e dn)).
      * eapply Dkr; [apply ids_root|exact Hj].
    + exact Nr.
    + intros j Hj H. apply in_plug in H. destruct H as [H|H].
      * rewrite ids_eq, flat_map_app in H. simpl in H. rewrite app_nil_r in H.
        destruct H as [<-|H].
        -- apply (D p); [simpl; apply in_app_iff; right; exact Hj|]. apply in_plug. left. apply (ids_root (T p x l e dn)).
        -- apply in_app_iff in H. destruct H as [H|H]; [|eapply Dkr; eauto].
           apply (D j); [simpl; apply in_app_iff; right; exact Hj|]. apply in_plug. left. rewrite ids_eq. right. exact H.
      * apply (D j); [simpl; apply in_app_iff; right; exact Hj|]. apply in_plug. right. exact H.
    + intros j Hj. destruct P1 as [P1 _]. rewrite P1. apply B. simpl. apply in_app_iff. right. exact Hj.
    + exists h2. split; [exact E2|]. rewrite <- app_assoc in W2. simpl in W2.
      split; [exact W2|split; [exact (pres_trans _ _ _ P1 P2)|split; [exact (grows_trans _ _ _ G1 G2)|]]].
      eapply same_off_trans.
      * eapply same_off_weaken; [|exact A1]. intros j [<-|[<-|[]]]; simpl; tauto.
      * eapply same_off_weaken; [|exact A2]. intros j [<-|Hj]; simpl; tauto.
Qed.

(* ---------- 2. set_child_nodes with any represented, disjoint components ---------- *)

Lemma clear_child_nodes_wf h c p x l e ks :
  Wr h (plug c (T p x l e ks)) ->
  Wr (set_kids p [] h) (plug c (T p x l e [])) /\
  same_off [p] h (set_kids p [] h) /\ grows h (set_kids p [] h) /\ pres h (set_kids p [] h).
Proof.
  intro W. destruct (wr_focus _ _ _ _ _ _ _ W) as [Hp [Gp [Fk [N1 [N2 [N3 [N4 [N5 N6]]]]]]]].
  assert (A0 : same_off [p] h (set_kids p [] h)) by (unfold set_kids; frame_solve).
  assert (G0 : grows h (set_kids p [] h)) by (unfold set_kids; frame_solve).
  split; [|split; [exact A0|split; [exact G0|apply pres_upd_cell]]].
  apply (focus_update_r [p] h _ c p x l e ks x l e [] W A0 G0).
  - intros j [<-|[]]. exact N3.
  - rewrite get_set_kids, Z.eqb_refl. unfold parent, elen, taxon, label. rewrite Gp. reflexivity.
  - constructor.
  - constructor.
  - intros [].
  - intros j [].
  - intros j [].
Qed.

Lemma set_child_nodes_wf h c p x l e ks todo :
  Wr h (plug c (T p x l e ks)) ->
  Forall (fun k => exists par0, rep h par0 k) todo -> NoDup (flat_map ids todo) ->
  (forall j, In j (flat_map ids todo) -> j <> p /\ ~ In j (cids c)) ->
  (forall j, In j (flat_map ids todo) -> j < next h) ->
  exists h', set_child_nodes p (map t_id todo) h = HOk h' /\ Wr h' (plug c (T p x l e todo)) /\
    pres h h' /\ grows h h'.
Proof.
  intros W F N D B. unfold set_child_nodes, clear_child_nodes.
  destruct (clear_child_nodes_wf h c p x l e ks W) as [W0 [A0 [G0 P0]]].
  destruct (add_children_any c p x l e todo [] (set_kids p [] h) W0) as [h' [E [W' [P' [G' A']]]]].
  - eapply Forall_exrep_frame_off; eauto. intros j Hj [<-|[]]. apply (proj1 (D _ Hj)). reflexivity.
  - exact N.
  - intros j Hj H. apply in_plug in H. destruct (D j Hj) as [D1 D2].
    destruct H as [H|H]; [|exact (D2 H)]. rewrite ids_eq in H. simpl in H. destruct H as [H|[]]. congruence.
  - intros j Hj. simpl. apply B, Hj.
  - exists h'. simpl in W'.
    split; [exact E|split; [exact W'|split; [exact (pres_trans _ _ _ P0 P')|exact (grows_trans _ _ _ G0 G')]]].
Qed.

(* ---------- 3. Node.collapse_clade ---------- *)

Definition spec_clade (s : tree) :=
  match s with
  | T i x l e [] => s
  | T i x l e ks => T i x l e (leaves s)
  end.

Lemma leaves_cons i x l e k0 kr : leaves (T i x l e (k0 :: kr)) = flat_map leaves (k0 :: kr).
Proof. reflexivity. Qed.

Lemma rep_leaves h : forall s par, rep h par s -> forall lf, In lf (leaves s) -> exists par', rep h par' lf.
Proof.
  induction s as [i x l e ks IH] using tree_ind'. intros par R lf Hl. destruct ks as [|k0 kr].
  - simpl in Hl. destruct Hl as [<-|[]]. exists par. exact R.
  - rewrite leaves_cons in Hl. apply in_flat_map in Hl. destruct Hl as [k [Hk Hl]].
    apply rep_eq in R. destruct R as [_ [_ Fk]]. rewrite Forall_forall in *.
    eapply IH; eauto.
Qed.

Lemma flat_ids_leaves t : flat_map ids (leaves t) = leaf_ids t.
Proof.
  induction t as [i x l e ks IH] using tree_ind'. rewrite leaf_ids_eq. destruct ks as [|k0 kr]; [reflexivity|].
  rewrite leaves_cons. revert IH. generalize (k0 :: kr). intros ks IH.
  induction IH as [|k r Hk Hr IHr]; simpl; [reflexivity|].
  rewrite flat_map_app, Hk, IHr. reflexivity.
Qed.

Lemma leaves_nonempty t : leaves t <> [].
Proof.
  induction t as [i x l e ks IH] using tree_ind'. destruct ks as [|k0 kr]; [discriminate|].
  rewrite leaves_cons. simpl. inversion IH as [|? ? Hk _]; subst.
  destruct (leaves k0); [congruence|discriminate].
Qed.

Lemma flat_leaf_taxa_leaves t : flat_map leaf_taxa (leaves t) = leaf_taxa t.
Proof.
  induction t as [i x l e ks IH] using tree_ind'. destruct ks as [|k0 kr]; [reflexivity|].
  rewrite leaves_cons, leaf_taxa_cons. revert IH. generalize (k0 :: kr). intros ks IH.
  induction IH as [|k r Hk Hr IHr]; simpl; [reflexivity|].
  rewrite flat_map_app, Hk, IHr. reflexivity.
Qed.

Lemma spec_clade_internal i x l e ks :
  ks <> [] -> spec_clade (T i x l e ks) = T i x l e (leaves (T i x l e ks)).
Proof. destruct ks; [congruence|reflexivity]. Qed.

Lemma leaf_taxa_spec_clade s : leaf_taxa (spec_clade s) = leaf_taxa s.
Proof.
  destruct s as [i x l e [|k0 kr]]; [reflexivity|].
  rewrite spec_clade_internal by discriminate.
  rewrite C03Order.leaf_taxa_node by apply leaves_nonempty. apply flat_leaf_taxa_leaves.
Qed.

Lemma spec_clade_id s : t_id (spec_clade s) = t_id s.
Proof. destruct s as [i x l e [|k0 kr]]; reflexivity. Qed.

(* the leaf ids of an internal node lie strictly below it *)
Lemma leaf_ids_below i x l e ks j :
  ks <> [] -> In j (leaf_ids (T i x l e ks)) -> In j (flat_map ids ks).
Proof.
  intros Hne Hj. rewrite leaf_ids_eq in Hj. destruct ks as [|k0 kr]; [congruence|].
  apply in_flat_map in Hj. destruct Hj as [k [Hk Hj]]. apply in_flat_map. exists k.
  split; [exact Hk|]. apply (leaf_ids_sub k). exact Hj.
Qed.

Lemma collapse_clade_wf h c s :
  Wr h (plug c s) ->
  exists h', collapse_clade (t_id s) h = HOk h' /\ Wr h' (plug c (spec_clade s)) /\ pres h h'.
Proof.
  intro W. destruct s as [i x l e ks]. simpl t_id. unfold collapse_clade.
  destruct (wr_focus _ _ _ _ _ _ _ W) as [Hp [Gp [Fk [N1 [N2 [N3 [N4 [N5 N6]]]]]]]].
  assert (Kp : kids h i = map t_id ks) by (unfold kids; rewrite Gp; reflexivity). rewrite Kp.
  destruct (map t_id ks) as [|z zs] eqn:Em.
  - destruct ks; [|discriminate]. exists h. split; [reflexivity|split; [exact W|apply pres_refl]].
  - assert (Hne : ks <> []) by (intro E0; subst ks; discriminate).
    rewrite spec_clade_internal by exact Hne.
    remember (T i x l e ks) as s eqn:Es.
    pose proof W as [R [N B]]. apply rep_plug in R. destruct R as [_ Rs].
    apply nodup_plug in N. destruct N as [Ns _].
    pose proof (abs_at_rep h _ s Rs Ns) as Ab. rewrite Es in Ab at 1. simpl t_id in Ab.
    unfold with_sub. rewrite Ab. unfold leaf_ids.
    assert (I1 : forall j, In j (flat_map ids (leaves s)) -> In j (flat_map ids ks)).
    { intros j Hj. rewrite flat_ids_leaves, Es in Hj. eapply leaf_ids_below; eauto. }
    rewrite Es in W.
    destruct (set_child_nodes_wf h c i x l e ks (leaves s) W) as [h' [E [W' [P' _]]]].
    + rewrite Forall_forall. intros lf Hl. eapply rep_leaves; eauto.
    + rewrite flat_ids_leaves. apply leaf_ids_sub. exact Ns.
    + intros j Hj. apply I1 in Hj. split; [|apply N4; exact Hj]. intro E0. subst j. exact (N2 Hj).
    + intros j Hj. apply N5, I1, Hj.
    + exists h'. split; [exact E|split; [exact W'|exact P']].
Qed.

Theorem collapse_clade_refines h t ci :
  WF h -> abs h = Some t -> In ci (ids t) ->
  exists h' c s, t = plug c s /\ t_id s = ci /\ collapse_clade ci h = HOk h' /\ WF h' /\
    abs h' = Some (plug c (spec_clade s)) /\
    Permutation (leaf_taxa (plug c (spec_clade s))) (leaf_taxa t).
Proof.
  intros Wf Ea Hc. pose proof (WF_abs_t h t Wf Ea) as [W S].
  destruct (find_ctx t ci Hc) as [c [s [Et Es]]]. subst t.
  destruct (collapse_clade_wf h c s W) as [h' [E [W' [P1 [P2 P3]]]]].
  assert (Wt : WFt h' (plug c (spec_clade s))).
  { split; [exact W'|]. rewrite P3, <- S, !plug_id, spec_clade_id. reflexivity. }
  exists h', c, s. rewrite <- Es.
  split; [reflexivity|split; [reflexivity|split; [exact E|split; [exists (plug c (spec_clade s)); exact Wt|split]]]].
  - apply abs_WFt, Wt.
  - apply leaf_taxa_plug_perm. rewrite leaf_taxa_spec_clade. reflexivity.
Qed.

(* ---------- 4. set_child_nodes with an arbitrary selection of own children ---------- *)

(* distinct children of a duplicate-free node have disjoint id sets *)
Lemma kids_disjoint (ks : list tree) a b j :
  NoDup (flat_map ids ks) -> In a ks -> In b ks -> In j (ids a) -> In j (ids b) -> a = b.
Proof.
  induction ks as [|k r IH]; simpl; intros N Ha Hb Ja Jb; [destruct Ha|].
  apply NoDup_app_iff in N. destruct N as [_ [Nr D]].
  destruct Ha as [<-|Ha]; destruct Hb as [<-|Hb]; auto.
  - exfalso. apply (D j Ja). eapply flat_ids_in; eauto.
  - exfalso. apply (D j Jb). eapply flat_ids_in; eauto.
Qed.

(* add_child of a node that already is a child with the right parent pointer changes no cell *)
Lemma add_child_again h p ci :
  ci <> p -> parent h p <> Some ci -> parent h ci = Some p -> In ci (kids h p) ->
  exists h', add_child p ci h = HOk h' /\ (forall j, get h' j = get h j) /\ grows h h' /\ pres h h'.
Proof.
  intros D1 D2 Pc Hk. unfold add_child. rewrite (eqb_neq_l _ _ D1).
  replace (oz_eqb (parent h p) (Some ci)) with false.
  2:{ symmetry. destruct (oz_eqb (parent h p) (Some ci)) eqn:E; [|reflexivity]. apply oz_eqb_eq in E. contradiction. }
  assert (K : kids (set_parent ci (Some p) h) p = kids h p).
  { unfold kids. rewrite get_set_parent, (eqb_neq_r _ _ D1). reflexivity. }
  rewrite K. replace (memz ci (kids h p)) with true by (symmetry; apply memz_In; exact Hk).
  eexists. split; [reflexivity|split; [|split]].
  - intro j. rewrite get_set_parent. destruct (Z.eqb j ci) eqn:E; [|reflexivity].
    apply Z.eqb_eq in E. subst j. rewrite (get_eta h ci), Pc. reflexivity.
  - unfold set_parent. frame_solve.
  - apply pres_upd_cell.
Qed.

Lemma cpar_in_cids c ci : cpar c None = Some ci -> In ci (cids c).
Proof. destruct c as [|c' i ? ? ? lft rgt]; simpl; [discriminate|]. intro E. inversion E. left. reflexivity. Qed.

Lemma add_children_own c p x l e ks :
  NoDup (flat_map ids ks) -> ~ In p (flat_map ids ks) ->
  (forall j, In j (flat_map ids ks) -> ~ In j (cids c)) ->
  forall sel dn h,
  Wr h (plug c (T p x l e dn)) ->
  (forall k, In k dn -> In k ks) ->
  Forall (rep h (Some p)) ks ->
  (forall j, In j (flat_map ids ks) -> j < next h) ->
  (forall ci, In ci sel -> In ci (map t_id ks)) ->
  exists h' dn', hfold (add_child p) sel h = HOk h' /\ Wr h' (plug c (T p x l e dn')) /\
    (forall k, In k dn' -> In k ks) /\ Forall (rep h' (Some p)) ks /\
    pres h h' /\ grows h h' /\ same_off (p :: map t_id ks) h h'.
Proof.
  intros Nks Npk Dkc. induction sel as [|ci r IH]; intros dn h W Sub F B Hsel.
  - exists h, dn. simpl.
    split; [reflexivity|split; [exact W|split; [exact Sub|split; [exact F|
      split; [apply pres_refl|split; [apply grows_refl|apply same_off_refl]]]]]].
  - simpl hfold.
    assert (Hci : In ci (map t_id ks)) by (apply Hsel; left; reflexivity).
    apply in_map_iff in Hci. destruct Hci as [k [Ek Hk]].
    assert (Hcf : In ci (flat_map ids ks)) by (rewrite <- Ek; eapply flat_ids_in; [exact Hk|apply ids_root]).
    assert (Dcp : ci <> p) by (intro E0; apply Npk; rewrite <- E0; exact Hcf).
    destruct (wr_focus _ _ _ _ _ _ _ W) as [Hp [Gp [Fk [N1 [N2 [N3 [N4 [N5 N6]]]]]]]].
    assert (Ppc : parent h p <> Some ci).
    { unfold parent. rewrite Gp. simpl. intro E0. apply (Dkc ci Hcf). apply cpar_in_cids, E0. }
    assert (Rk : rep h (Some p) k) by (rewrite Forall_forall in F; apply F, Hk).
    assert (Hsel' : forall ci0, In ci0 r -> In ci0 (map t_id ks)) by (intros ci0 H0; apply Hsel; right; exact H0).
    assert (Step : exists h1 dn1, add_child p ci h = HOk h1 /\ Wr h1 (plug c (T p x l e dn1)) /\
              (forall k0, In k0 dn1 -> In k0 ks) /\ Forall (rep h1 (Some p)) ks /\
              pres h h1 /\ grows h h1 /\ same_off (p :: map t_id ks) h h1).
    { destruct (in_dec Z.eq_dec ci (map t_id dn)) as [Hin|Hout].
      - (* already re-attached: no cell changes *)
        destruct (add_child_again h p ci Dcp Ppc) as [h1 [E1 [Q1 [G1 P1]]]].
        + rewrite <- Ek. apply (rep_parent h (Some p) k Rk).
        + unfold kids. rewrite Gp. exact Hin.
        + assert (A1 : same_off [] h h1) by (intros j _; apply Q1).
          exists h1, dn. split; [exact E1|split; [|split; [exact Sub|split; [|split; [exact P1|split; [exact G1|]]]]]].
          * apply (wr_frame [] h h1 _ W A1 G1). intros j _ [].
          * apply (Forall_rep_frame_off [] h h1 (Some p) ks A1 G1); [intros j _ []|exact F].
          * eapply same_off_weaken; [|exact A1]. intros j [].
      - (* first occurrence: the subtree is attached at the end *)
        assert (Nk : NoDup (ids k)) by exact (nodup_kid ks k Nks Hk).
        destruct (add_child_attach h c p x l e dn (Some p) k W Rk Nk) as [h1 [E1 [W1 [A1 [G1 P1]]]]].
        + intros j Hj H. apply in_plug in H. destruct H as [H|H].
          * rewrite ids_eq in H. destruct H as [<-|H].
            -- apply Npk. eapply flat_ids_in; eauto.
            -- apply in_flat_map in H. destruct H as [k' [Hk' Hj']].
               assert (E0 : k' = k) by exact (kids_disjoint ks k' k j Nks (Sub k' Hk') Hk Hj' Hj). subst k'.
               apply Hout. rewrite <- Ek. apply in_map. exact Hk'.
          * apply (Dkc j); [eapply flat_ids_in; eauto|exact H].
        + intros j Hj. apply B. eapply flat_ids_in; eauto.
        + rewrite Ek in E1, A1. exists h1, (dn ++ [k]).
          split; [exact E1|split; [exact W1|split; [|split; [|split; [exact P1|split; [exact G1|]]]]]].
          * intros k0 H0. apply in_app_iff in H0. destruct H0 as [H0|[<-|[]]]; auto.
          * destruct (wr_focus _ _ _ _ _ _ _ W1) as [_ [_ [Fk1 _]]].
            rewrite Forall_forall in *. intros k' Hk'.
            destruct (Z.eq_dec (t_id k') ci) as [Eq|Ne].
            -- assert (E0 : k' = k).
               { apply (kids_disjoint ks k' k ci Nks Hk' Hk); [rewrite <- Eq|rewrite <- Ek]; apply ids_root. }
               subst k'. apply Fk1. apply in_app_iff. right. left. reflexivity.
            -- apply (rep_frame_off [p; ci] h h1 (Some p) k' A1 G1); [|apply F, Hk'].
               intros j Hj [<-|[<-|[]]].
               ++ apply Npk. eapply flat_ids_in; eauto.
               ++ apply Ne. assert (E0 : k' = k).
                  { apply (kids_disjoint ks k' k ci Nks Hk' Hk Hj). rewrite <- Ek. apply ids_root. }
                  subst k'. exact Ek.
          * eapply same_off_weaken; [|exact A1]. intros j [<-|[<-|[]]]; [left; reflexivity|right].
            rewrite <- Ek. apply in_map. exact Hk. }
    destruct Step as [h1 [dn1 [E1 [W1 [Sub1 [F1 [P1 [G1 A1]]]]]]]].
    rewrite E1. simpl hbind.
    destruct (IH dn1 h1 W1 Sub1 F1) as [h2 [dn2 [E2 [W2 [Sub2 [F2 [P2 [G2 A2]]]]]]]].
    + intros j Hj. destruct P1 as [P1 _]. rewrite P1. apply B, Hj.
    + exact Hsel'.
    + exists h2, dn2.
      split; [exact E2|split; [exact W2|split; [exact Sub2|split; [exact F2|
        split; [exact (pres_trans _ _ _ P1 P2)|split; [exact (grows_trans _ _ _ G1 G2)|
          exact (same_off_trans _ _ _ _ A1 A2)]]]]]].
Qed.

Lemma set_child_nodes_own_full h c p x l e ks sel :
  Wr h (plug c (T p x l e ks)) -> (forall ci, In ci sel -> In ci (map t_id ks)) ->
  exists h' ks', set_child_nodes p sel h = HOk h' /\ Wr h' (plug c (T p x l e ks')) /\
    (forall k, In k ks' -> In k ks) /\ NoDup (map t_id ks') /\ Forall (rep h' (Some p)) ks /\
    pres h h' /\ grows h h' /\ same_off (p :: map t_id ks) h h'.
Proof.
  intros W Hsel. unfold set_child_nodes, clear_child_nodes.
  destruct (wr_focus _ _ _ _ _ _ _ W) as [Hp [Gp [Fk [N1 [N2 [N3 [N4 [N5 N6]]]]]]]].
  destruct (clear_child_nodes_wf h c p x l e ks W) as [W0 [A0 [G0 P0]]].
  destruct (add_children_own c p x l e ks N1 N2 N4 sel [] (set_kids p [] h) W0)
    as [h' [ks' [E [W' [Sub [F' [P' [G' A']]]]]]]].
  - intros k [].
  - apply (Forall_rep_frame_off [p] h _ (Some p) ks A0 G0); [|exact Fk].
    intros j Hj [<-|[]]. exact (N2 Hj).
  - intros j Hj. simpl. apply N5, Hj.
  - exact Hsel.
  - exists h', ks'.
    destruct (wr_focus _ _ _ _ _ _ _ W') as [_ [_ [_ [N1' _]]]].
    split; [exact E|split; [exact W'|split; [exact Sub|split; [apply NoDup_kids_ids, N1'|split; [exact F'|
      split; [exact (pres_trans _ _ _ P0 P')|split; [exact (grows_trans _ _ _ G0 G')|]]]]]]].
    eapply same_off_trans; [|exact A']. eapply same_off_weaken; [|exact A0].
    intros j [<-|[]]. left. reflexivity.
Qed.

Lemma set_child_nodes_own h c p x l e ks sel :
  Wr h (plug c (T p x l e ks)) -> (forall ci, In ci sel -> In ci (map t_id ks)) ->
  exists h' ks', set_child_nodes p sel h = HOk h' /\ Wr h' (plug c (T p x l e ks')) /\
    (forall k, In k ks' -> In k ks) /\ NoDup (map t_id ks') /\ pres h h' /\
    same_off (p :: map t_id ks) h h'.
Proof.
  intros W Hsel.
  destruct (set_child_nodes_own_full h c p x l e ks sel W Hsel) as [h' [ks' [E [W' [Sub [N [_ [P [_ A]]]]]]]]].
  exists h', ks'. split; [exact E|split; [exact W'|split; [exact Sub|split; [exact N|split; [exact P|exact A]]]]].
Qed.

(* ---------- 5. randomly_rotate under an arbitrary script ---------- *)

(* a set of (garbage) ids closed under the heap child lists *)
Definition closed (h : heap) (G : list Z) : Prop :=
  forall g, In g G -> forall k, In k (kids h g) -> In k G.

(* what a step confined to the garbage G does *)
Definition gstep (G : list Z) (h h' : heap) : Prop :=
  closed h' G /\ same_off G h h' /\ grows h h' /\ pres h h'.

Lemma gstep_trans G a b c : gstep G a b -> gstep G b c -> gstep G a c.
Proof.
  intros [_ [A1 [G1 P1]]] [C2 [A2 [G2 P2]]].
  split; [exact C2|split; [exact (same_off_trans _ _ _ _ A1 A2)|split;
    [exact (grows_trans _ _ _ G1 G2)|exact (pres_trans _ _ _ P1 P2)]]].
Qed.

Lemma nths_in l : forall ix xs, nths l ix = Some xs -> forall x, In x xs -> In x l.
Proof.
  induction ix as [|i r IH]; simpl; intros xs E x Hx.
  - inversion E; subst. destruct Hx.
  - destruct (nth_error l i) as [y|] eqn:En; [|discriminate].
    destruct (nths l r) as [ys|] eqn:Er; [|discriminate]. inversion E; subst.
    destruct Hx as [<-|Hx]; [eapply nth_error_In; eauto|eapply IH; eauto].
Qed.

Lemma kids_set_parent i v h g : kids (set_parent i v h) g = kids h g.
Proof.
  unfold kids. rewrite get_set_parent. destruct (Z.eqb g i) eqn:E; [|reflexivity].
  apply Z.eqb_eq in E. subst. reflexivity.
Qed.

Lemma kids_set_kids i v h g : kids (set_kids i v h) g = if Z.eqb g i then v else kids h g.
Proof. unfold kids. rewrite get_set_kids. destruct (Z.eqb g i); reflexivity. Qed.

Lemma gstep_set_parent G i v h : closed h G -> In i G -> gstep G h (set_parent i v h).
Proof.
  intros C Hi. split; [|split; [|split]].
  - intros g Hg k Hk. rewrite kids_set_parent in Hk. eapply C; eauto.
  - eapply same_off_weaken; [|apply same_off_upd_cell]. intros j [<-|[]]. exact Hi.
  - apply grows_upd_cell.
  - apply pres_upd_cell.
Qed.

Lemma gstep_set_kids G i v h :
  closed h G -> In i G -> (forall k, In k v -> In k G) -> gstep G h (set_kids i v h).
Proof.
  intros C Hi Hv. split; [|split; [|split]].
  - intros g Hg k Hk. rewrite kids_set_kids in Hk. destruct (Z.eqb g i); [auto|eapply C; eauto].
  - eapply same_off_weaken; [|apply same_off_upd_cell]. intros j [<-|[]]. exact Hi.
  - apply grows_upd_cell.
  - apply pres_upd_cell.
Qed.

Definition gres (G : list Z) (h : heap) (r : hres) : Prop :=
  match r with
  | HOk h' => gstep G h h'
  | HErr e h' => e = AssertErr /\ gstep G h h'
  | HFuel => False
  end.

Lemma gstep_refl G h : closed h G -> gstep G h h.
Proof. intro C. split; [exact C|split; [apply same_off_refl|split; [apply grows_refl|apply pres_refl]]]. Qed.

Lemma add_child_garbage G h nd ci :
  closed h G -> In nd G -> In ci G -> gres G h (add_child nd ci h).
Proof.
  intros C Hn Hc. unfold add_child.
  destruct (Z.eqb ci nd); [simpl; split; [reflexivity|apply gstep_refl, C]|].
  destruct (oz_eqb (parent h nd) (Some ci)); [simpl; split; [reflexivity|apply gstep_refl, C]|].
  pose proof (gstep_set_parent G ci (Some nd) h C Hc) as S1.
  destruct (memz ci (kids (set_parent ci (Some nd) h) nd)); simpl; [exact S1|].
  eapply gstep_trans; [exact S1|]. destruct S1 as [C1 _]. apply gstep_set_kids; auto.
  intros k Hk. apply in_app_iff in Hk. destruct Hk as [Hk|[<-|[]]]; [|exact Hc].
  exact (C1 nd Hn k Hk).
Qed.

Lemma gres_bind G h r k :
  gres G h r -> (forall h1, gstep G h h1 -> gres G h1 (k h1)) -> gres G h (hbind r k).
Proof.
  destruct r as [h1|e h1|]; simpl; intros R K; [|exact R|exact R].
  specialize (K h1 R). destruct (k h1) as [h2|e h2|]; simpl in *.
  - eapply gstep_trans; eauto.
  - destruct K as [-> K]. split; [reflexivity|eapply gstep_trans; eauto].
  - exact K.
Qed.

Lemma hfold_add_child_garbage G nd : In nd G -> forall sel h,
  closed h G -> (forall ci, In ci sel -> In ci G) -> gres G h (hfold (add_child nd) sel h).
Proof.
  intro Hn. induction sel as [|ci r IH]; intros h C Hs; simpl.
  - apply gstep_refl, C.
  - apply gres_bind.
    + apply add_child_garbage; auto. apply Hs. left. reflexivity.
    + intros h1 [C1 _]. apply IH; [exact C1|]. intros ci0 H0. apply Hs. right. exact H0.
Qed.

Lemma set_child_nodes_garbage G nd sel h :
  In nd G -> closed h G -> (forall ci, In ci sel -> In ci G) -> gres G h (set_child_nodes nd sel h).
Proof.
  intros Hn C Hs. unfold set_child_nodes, clear_child_nodes.
  change (hfold (add_child nd) sel (set_kids nd [] h))
    with (hbind (HOk (set_kids nd [] h)) (hfold (add_child nd) sel)).
  apply gres_bind.
  - simpl. apply gstep_set_kids; auto. intros k [].
  - intros h1 [C1 _]. apply hfold_add_child_garbage; auto.
Qed.

(* an intact subtree is closed under the child lists *)
Lemma rep_closed h : forall t par, rep h par t ->
  forall j, In j (ids t) -> forall k, In k (kids h j) -> In k (ids t).
Proof.
  induction t as [i x l e ks IH] using tree_ind'. intros par R j Hj k Hk.
  apply rep_eq in R. destruct R as [_ [Gi Fk]]. rewrite ids_eq in *. right.
  destruct Hj as [<-|Hj].
  - unfold kids in Hk. rewrite Gi in Hk. simpl in Hk. apply map_id_in_flat, Hk.
  - apply in_flat_map in Hj. destruct Hj as [k0 [Hk0 Hj]]. rewrite Forall_forall in *.
    eapply flat_ids_in; [exact Hk0|]. eapply IH; eauto.
Qed.

(* the ids of the children subtrees that were not selected *)
Definition dropped (ks ks' : list tree) : list Z :=
  filter (fun j => negb (memz j (flat_map ids ks'))) (flat_map ids ks).

Lemma in_dropped ks ks' j :
  In j (dropped ks ks') <-> In j (flat_map ids ks) /\ ~ In j (flat_map ids ks').
Proof.
  unfold dropped. rewrite filter_In, negb_true_iff, memz_false. reflexivity.
Qed.

Lemma flat_sub (ks ks' : list tree) j :
  (forall k, In k ks' -> In k ks) -> In j (flat_map ids ks') -> In j (flat_map ids ks).
Proof.
  intros Sub Hj. apply in_flat_map in Hj. destruct Hj as [k [Hk Hj]]. eapply flat_ids_in; eauto.
Qed.

Definition rr_inv (h : heap) (nodes : list Z) : Prop :=
  exists t G, Wr h t /\ t_id t = seed h /\ (forall g, In g G -> ~ In g (ids t)) /\ closed h G /\
    (forall nd, In nd nodes -> In nd (ids t) \/ In nd G).

(* a step on a live node: the tree keeps all but the dropped children subtrees, which join the garbage *)
Lemma rotate_live_step h t G nd r sel :
  Wr h t -> t_id t = seed h -> (forall g, In g G -> ~ In g (ids t)) -> closed h G ->
  (forall n, In n r -> In n (ids t) \/ In n G) ->
  In nd (ids t) -> (forall ci, In ci sel -> In ci (kids h nd)) ->
  exists h', set_child_nodes nd sel h = HOk h' /\ rr_inv h' r.
Proof.
  intros W S Dg Cl Hr Hn Hsel.
  destruct (find_ctx t nd Hn) as [c [s [Et Es]]]. subst t.
  destruct s as [p x l e ks]. simpl in Es. subst p.
  destruct (wr_focus _ _ _ _ _ _ _ W) as [Hp [Gp [Fk [N1 [N2 [N3 [N4 [N5 N6]]]]]]]].
  assert (Kp : kids h nd = map t_id ks) by (unfold kids; rewrite Gp; reflexivity).
  rewrite Kp in Hsel.
  destruct (set_child_nodes_own_full h c nd x l e ks sel W Hsel)
    as [h' [ks' [E [W' [Sub [Nk' [F' [[P1 [P2 P3]] [G' A']]]]]]]]].
  exists h'. split; [exact E|].
  exists (plug c (T nd x l e ks')), (G ++ dropped ks ks').
  assert (It : forall j, In j (ids (plug c (T nd x l e ks'))) -> In j (ids (plug c (T nd x l e ks)))).
  { intros j Hj. apply in_plug in Hj. apply in_plug. destruct Hj as [Hj|Hj]; [left|right; exact Hj].
    rewrite ids_eq in *. destruct Hj as [Hj|Hj]; [left; exact Hj|right]. eapply flat_sub; eauto. }
  split; [exact W'|split; [|split; [|split]]].
  - rewrite P3, <- S, !plug_id. reflexivity.
  - intros g Hg Ht. apply in_app_iff in Hg. destruct Hg as [Hg|Hg].
    + apply (Dg g Hg). apply It, Ht.
    + apply in_dropped in Hg. destruct Hg as [Hg1 Hg2]. apply in_plug in Ht. destruct Ht as [Ht|Ht].
      * rewrite ids_eq in Ht. destruct Ht as [<-|Ht]; [exact (N2 Hg1)|exact (Hg2 Ht)].
      * exact (N4 g Hg1 Ht).
  - intros g Hg k Hk. apply in_app_iff. apply in_app_iff in Hg. destruct Hg as [Hg|Hg].
    + left. apply (Cl g Hg). unfold kids in *. rewrite A' in Hk; [exact Hk|].
      intro Hin. apply (Dg g Hg). apply in_plug. left. rewrite ids_eq.
      destruct Hin as [<-|Hin]; [left; reflexivity|right; apply map_id_in_flat, Hin].
    + right. apply in_dropped in Hg. destruct Hg as [Hg1 Hg2].
      apply in_flat_map in Hg1. destruct Hg1 as [k0 [Hk0 Hg1]].
      assert (R0 : rep h' (Some nd) k0) by (rewrite Forall_forall in F'; apply F', Hk0).
      pose proof (rep_closed h' k0 _ R0 g Hg1 k Hk) as Hkk.
      apply in_dropped. split; [eapply flat_ids_in; eauto|].
      intro Hin. apply in_flat_map in Hin. destruct Hin as [k1 [Hk1 Hin]].
      assert (E0 : k1 = k0) by exact (kids_disjoint ks k1 k0 k N1 (Sub k1 Hk1) Hk0 Hin Hkk).
      subst k1. apply Hg2. eapply flat_ids_in; eauto.
  - intros n Hn'. destruct (Hr n Hn') as [Ht|Hg]; [|right; apply in_app_iff; left; exact Hg].
    apply in_plug in Ht. destruct Ht as [Ht|Ht]; [|left; apply in_plug; right; exact Ht].
    rewrite ids_eq in Ht. destruct Ht as [<-|Ht].
    + left. apply in_plug. left. rewrite ids_eq. left. reflexivity.
    + destruct (in_dec Z.eq_dec n (flat_map ids ks')) as [Hi|Ho].
      * left. apply in_plug. left. rewrite ids_eq. right. exact Hi.
      * right. apply in_app_iff. right. apply in_dropped. split; assumption.
Qed.

Lemma rotate_each_finishes : forall nodes perms h, rr_inv h nodes ->
  rotate_each nodes perms h = HFuel \/ finishes (rotate_each nodes perms h) WF [AssertErr].
Proof.
  induction nodes as [|nd r IH]; intros perms h Inv.
  - right. left. exists h. split; [reflexivity|].
    destruct Inv as [t [G [W [S _]]]]. exists t. split; assumption.
  - simpl. destruct perms as [|pm perms']; [left; reflexivity|].
    destruct (nths (kids h nd) pm) as [sel|] eqn:En; [|left; reflexivity].
    pose proof (nths_in _ _ _ En) as Hsel.
    destruct Inv as [t [G [W [S [Dg [Cl Hn]]]]]].
    assert (Hr : forall n, In n r -> In n (ids t) \/ In n G) by (intros n H0; apply Hn; right; exact H0).
    destruct (Hn nd (or_introl eq_refl)) as [Hl|Hg].
    + destruct (rotate_live_step h t G nd r sel W S Dg Cl Hr Hl Hsel) as [h' [E Inv']].
      rewrite E. simpl hbind. apply IH, Inv'.
    + pose proof (set_child_nodes_garbage G nd sel h Hg Cl) as R.
      assert (Hs : forall ci, In ci sel -> In ci G) by (intros ci H0; eapply Cl; eauto).
      specialize (R Hs). destruct (set_child_nodes nd sel h) as [h'|e h'|]; simpl in *.
      * destruct R as [C' [A' [G' [P1 [P2 P3]]]]]. apply IH.
        exists t, G. split; [|split; [congruence|split; [exact Dg|split; [exact C'|exact Hr]]]].
        apply (wr_frame G h h' t W A' G'). intros j Hj Hgj. exact (Dg j Hgj Hj).
      * destruct R as [-> [C' [A' [G' [P1 [P2 P3]]]]]]. right. right. exists AssertErr, h'.
        split; [reflexivity|split; [left; reflexivity|]]. exists t. split; [|congruence].
        apply (wr_frame G h h' t W A' G'). intros j Hj Hgj. exact (Dg j Hgj Hj).
      * destruct R.
Qed.

Theorem randomly_rotate_finishes perms h :
  WF h -> randomly_rotate perms h = HFuel \/ finishes (randomly_rotate perms h) WF [AssertErr].
Proof.
  intros [t W]. unfold randomly_rotate. rewrite (with_sub_seed h t _ W).
  apply rotate_each_finishes. destruct W as [W S]. exists t, [].
  split; [exact W|split; [exact S|split; [intros g []|split; [intros g []|]]]].
  intros nd Hn. apply filter_In in Hn. left. exact (proj1 Hn).
Qed.
