(* C05: statistics kernel, per-split value lists, arg-max *)
From Coq Require Import ZArith QArith Qabs Qreduction List Bool Lia Lqa Permutation Sorted Setoid Morphisms.
From DV Require Import Model.PyPrims Model.C05Model Model.C05Spec Proofs.C05Lists Proofs.C05Freq.
Import ListNotations.
Open Scope Z_scope.

(* ---------------------------------------------------------------- mean and variance *)

Definition sq (x : Q) : Q := (x * x)%Q.

Lemma acc_spec xs : forall n s ss,
  let r := acc_n_s_ss xs n s ss in
  fst (fst r) = n + Z.of_nat (length xs) /\
  (snd (fst r) == s + qsum xs)%Q /\
  (snd r == ss + qsum (map sq xs))%Q.
Proof.
  induction xs as [|x r IH]; intros n s ss; simpl.
  - repeat split; try lia; ring.
  - destruct (IH (n + 1) (qplus s x) (qplus ss (qmult x x))) as [A [B C]].
    repeat split.
    + rewrite A. lia.
    + rewrite B, qplus_eq. ring.
    + rewrite C, qplus_eq, qmult_eq. unfold sq. ring.
Qed.

Lemma qlen_cons x xs : (qlen (x :: xs) == qlen xs + 1)%Q.
Proof. unfold qlen. simpl length. apply inject_Z_of_nat_S. Qed.

Lemma sum_sq_dev xs m :
  (qsum (map (fun x => (x - m) * (x - m)) xs)
   == qsum (map sq xs) - 2 * m * qsum xs + qlen xs * m * m)%Q.
Proof.
  induction xs as [|x r IH].
  - simpl. unfold qlen. simpl. ring.
  - simpl map. simpl qsum. rewrite IH, qlen_cons. unfold sq. ring.
Qed.

Lemma qlen_pos xs : xs <> [] -> (0 < qlen xs)%Q.
Proof.
  destruct xs; [congruence|]. intros _. rewrite qlen_cons.
  assert (0 <= qlen xs)%Q. { unfold qlen. change 0%Q with (inject_Z 0). rewrite <- Zle_Qle. lia. }
  lra.
Qed.

Lemma qlen_ge2 xs : (2 <= length xs)%nat -> (1 < qlen xs)%Q.
Proof.
  intro H. unfold qlen. change 1%Q with (inject_Z 1). rewrite <- Zlt_Qlt. lia.
Qed.

Theorem mean_variance_exact_l xs :
  xs <> [] ->
  exists m v, mean_and_sample_variance xs = Ok (m, v) /\
    (m == mean_of xs)%Q /\
    (length xs = 1%nat -> v = None) /\
    ((2 <= length xs)%nat -> exists v', v = Some v' /\ (v' == sample_variance_of xs)%Q).
Proof.
  intro NE. unfold mean_and_sample_variance, mean_and_variance_pop_n.
  destruct (acc_spec xs 0 0%Q 0%Q) as [A [B C]].
  destruct (acc_n_s_ss xs 0 0%Q 0%Q) as [[n s] ss]. simpl in A, B, C.
  assert (Ln : n = Z.of_nat (length xs)) by lia.
  assert (Npos : n <> 0) by (destruct xs; [congruence | simpl in Ln; lia]).
  apply Z.eqb_neq in Npos. rewrite Npos.
  assert (Qn : (qZ n == qlen xs)%Q) by (unfold qZ, qlen; now rewrite Ln).
  assert (Es : (s == qsum xs)%Q) by (rewrite B; ring).
  assert (Ess : (ss == qsum (map sq xs))%Q) by (rewrite C; ring).
  pose proof (qlen_pos xs NE) as LP.
  assert (Em : (qdiv s (qZ n) == mean_of xs)%Q).
  { rewrite qdiv_eq, Es, Qn. reflexivity. }
  destruct (n =? 1) eqn:N1.
  - exists (qdiv s (qZ n)), None. split; [reflexivity|]. split; [exact Em|]. split; [reflexivity|].
    intro H. apply Z.eqb_eq in N1. lia.
  - eexists _, _. split; [reflexivity|]. split; [exact Em|]. split.
    + intro H. apply Z.eqb_neq in N1. lia.
    + intro H. eexists. split; [reflexivity|].
      pose proof (qlen_ge2 xs H) as L2.
      rewrite qdiv_eq, qmult_eq, qdiv_eq, qminus_eq, qmult_eq, Em.
      unfold sample_variance_of. rewrite sum_sq_dev.
      assert (Qn1 : (qZ (n - 1) == qlen xs - 1)%Q).
      { unfold qZ. rewrite <- Qn. unfold qZ, Zminus. rewrite inject_Z_plus. reflexivity. }
      rewrite Qn1, Qn, Ess, Es. unfold mean_of. field. split; lra.
Qed.

(* ---------------------------------------------------------------- median, range *)

Lemma Qle_bool_total a b : Qle_bool a b = true \/ Qle_bool b a = true.
Proof.
  destruct (Qlt_le_dec b a) as [L|L]; [right | left]; apply Qle_bool_iff; lra.
Qed.

Lemma Qle_bool_trans a b c : Qle_bool a b = true -> Qle_bool b c = true -> Qle_bool a c = true.
Proof. rewrite !Qle_bool_iff. apply Qle_trans. Qed.

Lemma qsorted_sorted xs : StronglySorted (fun a b => Qle_bool a b = true) (qsorted xs).
Proof. apply sort_by_strongly_sorted; [apply Qle_bool_total | apply Qle_bool_trans]. Qed.

Lemma qsorted_perm xs : Permutation (qsorted xs) xs.
Proof. apply sort_by_perm. Qed.

Theorem median_exact_l xs :
  xs <> [] ->
  let srt := qsorted xs in
  let n := length xs in
  StronglySorted (fun a b => (a <= b)%Q) srt /\ Permutation srt xs /\
  exists md, median xs = Ok md /\
    (Nat.odd n = true -> md = nth ((n - 1) / 2) srt 0%Q) /\
    (Nat.even n = true -> (md == (nth (n / 2 - 1) srt 0%Q + nth (n / 2) srt 0%Q) / 2)%Q).
Proof.
  intros NE srt n. split; [|split; [apply qsorted_perm|]].
  - pose proof (qsorted_sorted xs) as S. fold srt in S. clear - S.
    induction S as [|a l S IH F]; constructor; [assumption|].
    rewrite Forall_forall in *. intros x I. apply Qle_bool_iff. now apply F.
  - unfold median. fold srt.
    assert (L : length srt = n) by apply sort_by_length.
    rewrite L.
    assert (Np : (0 < n)%nat) by (unfold n; destruct xs; [congruence | simpl; lia]).
    assert (Z0 : (Z.of_nat n =? 0) = false) by (apply Z.eqb_neq; lia).
    rewrite Z0.
    destruct (Z.of_nat n mod 2 =? 1) eqn:M.
    + eexists. split; [reflexivity|]. apply Z.eqb_eq in M. split.
      * intros _. f_equal.
        rewrite <- (Nat2Z.id ((n - 1) / 2)). f_equal.
        rewrite Nat2Z.inj_div, Nat2Z.inj_sub by lia. reflexivity.
      * intro Ev. exfalso. rewrite Nat.even_spec in Ev. destruct Ev as [k Ek].
        assert (Hk : Z.of_nat n = Z.of_nat k * 2) by lia. rewrite Hk, Z.mod_mul in M by lia. lia.
    + eexists. split; [reflexivity|]. apply Z.eqb_neq in M. split.
      * intro Od. exfalso. rewrite Nat.odd_spec in Od. destruct Od as [k Ek].
        assert (Hk : Z.of_nat n = 1 + Z.of_nat k * 2) by lia.
        apply M. rewrite Hk, Z.mod_add by lia. reflexivity.
      * intros _. rewrite qdiv_eq, qplus_eq.
        replace (Z.to_nat (Z.of_nat n / 2 - 1)) with (n / 2 - 1)%nat.
        replace (Z.to_nat (Z.of_nat n / 2)) with (n / 2)%nat. reflexivity.
        -- rewrite <- (Nat2Z.id (n / 2)) at 1. f_equal. now rewrite Nat2Z.inj_div.
        -- rewrite <- (Nat2Z.id (n / 2 - 1)) at 1. f_equal.
           assert (1 <= n / 2)%nat.
           { assert (n <> 1)%nat. { intro E. apply M. rewrite E. reflexivity. }
             apply Nat.div_le_lower_bound; lia. }
           rewrite Nat2Z.inj_sub by assumption. now rewrite Nat2Z.inj_div.
Qed.

Lemma qmin_list_spec xs : forall x,
  In (qmin_list x xs) (x :: xs) /\ forall y, In y (x :: xs) -> (qmin_list x xs <= y)%Q.
Proof.
  induction xs as [|v r IH]; intro x; simpl.
  - split; [now left|]. intros y [E | []]. subst. apply Qle_refl.
  - unfold qmin_list in *. simpl. destruct (qlt_bool v x) eqn:E.
    + destruct (IH v) as [I B]. split.
      * destruct I as [I|I]; [right; now left | right; now right].
      * apply qlt_bool_iff in E. intros y [Y | [Y | Y]].
        -- subst. specialize (B v (or_introl eq_refl)). lra.
        -- subst. apply B. now left.
        -- apply B. now right.
    + destruct (IH x) as [I B]. split.
      * destruct I as [I|I]; [now left | right; now right].
      * apply qlt_bool_false in E. intros y [Y | [Y | Y]].
        -- subst. apply B. now left.
        -- subst. specialize (B x (or_introl eq_refl)). lra.
        -- apply B. now right.
Qed.

Lemma qmax_list_spec xs : forall x,
  In (qmax_list x xs) (x :: xs) /\ forall y, In y (x :: xs) -> (y <= qmax_list x xs)%Q.
Proof.
  induction xs as [|v r IH]; intro x; simpl.
  - split; [now left|]. intros y [E | []]. subst. apply Qle_refl.
  - unfold qmax_list in *. simpl. destruct (qlt_bool x v) eqn:E.
    + destruct (IH v) as [I B]. split.
      * destruct I as [I|I]; [right; now left | right; now right].
      * apply qlt_bool_iff in E. intros y [Y | [Y | Y]].
        -- subst. specialize (B v (or_introl eq_refl)). lra.
        -- subst. apply B. now left.
        -- apply B. now right.
    + destruct (IH x) as [I B]. split.
      * destruct I as [I|I]; [now left | right; now right].
      * apply qlt_bool_false in E. intros y [Y | [Y | Y]].
        -- subst. apply B. now left.
        -- subst. specialize (B x (or_introl eq_refl)). lra.
        -- apply B. now right.
Qed.

(* statistics.summarize on a non-empty list of numbers never fails and returns exactly these *)
Theorem summarize_exact_l xs :
  xs <> [] ->
  exists sm, summarize xs = Ok sm /\
    (s_mean sm == mean_of xs)%Q /\
    (length xs = 1%nat -> s_var sm = None) /\
    ((2 <= length xs)%nat -> exists v, s_var sm = Some v /\ (v == sample_variance_of xs)%Q) /\
    median xs = Ok (s_median sm) /\
    In (s_min sm) xs /\ (forall y, In y xs -> (s_min sm <= y)%Q) /\
    In (s_max sm) xs /\ (forall y, In y xs -> (y <= s_max sm)%Q).
Proof.
  intro NE. destruct (mean_variance_exact_l xs NE) as [m [v [E [Em [V1 V2]]]]].
  destruct (median_exact_l xs NE) as [_ [_ [md [Emd _]]]].
  unfold summarize. destruct xs as [|x r]; [congruence|].
  rewrite E, Emd. eexists. split; [reflexivity|]. simpl.
  destruct (qmin_list_spec r x) as [I1 B1]. destruct (qmax_list_spec r x) as [I2 B2].
  repeat split; assumption.
Qed.

(* ---------------------------------------------------------------- per-split value lists *)

Definition count_vals (f : brec -> option Q) (rs : list brec) (tbl : list (Z * list (option Q))) :=
  fold_left (fun tbl r => aupd (r_split r) [] (fun l => l ++ [f r]) tbl) rs tbl.

Lemma count_recs_el c w rs : ignore_len c = false -> forall cnt el ag,
  snd (fst (count_recs c w rs cnt el ag)) = count_vals (rec_len c) rs el.
Proof.
  intro I. induction rs as [|r rs IH]; intros cnt el ag; simpl; [reflexivity|].
  rewrite I. rewrite IH. reflexivity.
Qed.

Lemma count_recs_ag c w rs : ignore_ages c = false -> forall cnt el ag,
  snd (count_recs c w rs cnt el ag) = count_vals r_age rs ag.
Proof.
  intro I. induction rs as [|r rs IH]; intros cnt el ag; simpl; [reflexivity|].
  rewrite I. rewrite IH. reflexivity.
Qed.

Lemma count_vals_val f rs : forall tbl s,
  aget_d s [] (count_vals f rs tbl) = aget_d s [] tbl ++ map f (filter (fun r => r_split r =? s) rs).
Proof.
  induction rs as [|r rs IH]; intros tbl s; simpl.
  - now rewrite app_nil_r.
  - unfold count_vals in *. simpl. rewrite IH.
    destruct (r_split r =? s) eqn:E.
    + apply Z.eqb_eq in E. subst s. rewrite aget_d_aupd_same. simpl. now rewrite <- app_assoc.
    + apply Z.eqb_neq in E. now rewrite aget_d_aupd_other.
Qed.

Lemma count_vals_nodup f rs : forall tbl, NoDup (keys tbl) -> NoDup (keys (count_vals f rs tbl)).
Proof.
  induction rs as [|r rs IH]; intros tbl ND; simpl; [assumption|].
  unfold count_vals in *. simpl. apply IH. now apply nodup_keys_aupd.
Qed.

Lemma count_tree_elens c d t : ignore_len c = false ->
  elens (fst (count_tree c d t)) = count_vals (rec_len c) (t_recs t) (elens d).
Proof.
  intro I. unfold count_tree.
  pose proof (count_recs_el c (weight_to_use c t) (t_recs t) I (counts d) (elens d) (nages d)) as H.
  destruct (count_recs c (weight_to_use c t) (t_recs t) (counts d) (elens d) (nages d)) as [[cnt el] ag].
  simpl in *. now subst.
Qed.

Lemma count_tree_nages c d t : ignore_ages c = false ->
  nages (fst (count_tree c d t)) = count_vals r_age (t_recs t) (nages d).
Proof.
  intro I. unfold count_tree.
  pose proof (count_recs_ag c (weight_to_use c t) (t_recs t) I (counts d) (elens d) (nages d)) as H.
  destruct (count_recs c (weight_to_use c t) (t_recs t) (counts d) (elens d) (nages d)) as [[cnt el] ag].
  simpl in *. now subst.
Qed.

Lemma elens_exact_gen c ts : ignore_len c = false -> forall d s,
  NoDup (keys (elens d)) ->
  aget_d s [] (elens (count_trees c d ts)) = aget_d s [] (elens d) ++ values_of (rec_len c) s ts
  /\ NoDup (keys (elens (count_trees c d ts))).
Proof.
  intro I. induction ts as [|t r IH]; intros d s ND; simpl.
  - unfold values_of. simpl. now rewrite app_nil_r.
  - unfold count_trees in *. simpl.
    destruct (IH (fst (count_tree c d t)) s) as [A B].
    { rewrite count_tree_elens by assumption. now apply count_vals_nodup. }
    split; [|exact B]. rewrite A, count_tree_elens by assumption. rewrite count_vals_val.
    unfold values_of. simpl. now rewrite <- app_assoc.
Qed.

Lemma nages_exact_gen c ts : ignore_ages c = false -> forall d s,
  NoDup (keys (nages d)) ->
  aget_d s [] (nages (count_trees c d ts)) = aget_d s [] (nages d) ++ values_of r_age s ts
  /\ NoDup (keys (nages (count_trees c d ts))).
Proof.
  intro I. induction ts as [|t r IH]; intros d s ND; simpl.
  - unfold values_of. simpl. now rewrite app_nil_r.
  - unfold count_trees in *. simpl.
    destruct (IH (fst (count_tree c d t)) s) as [A B].
    { rewrite count_tree_nages by assumption. now apply count_vals_nodup. }
    split; [|exact B]. rewrite A, count_tree_nages by assumption. rewrite count_vals_val.
    unfold values_of. simpl. now rewrite <- app_assoc.
Qed.

Definition summary_of_values (l : list (option Q)) : option summary :=
  match l with
  | [] => None
  | _ => match all_some l with
         | Some xs => match summarize xs with Ok sm => Some sm | _ => None end
         | None => None
         end
  end.

Lemma calc_summaries_keys tbl k : In k (keys (calc_summaries tbl)) -> In k (keys tbl).
Proof.
  induction tbl as [|[s l] r IH]; simpl; [tauto|].
  destruct l as [|o l']; [intro H; right; now apply IH|].
  destruct (all_some (o :: l')) as [xs|]; [|intro H; right; now apply IH].
  destruct (summarize xs); simpl; intro H; try (right; now apply IH).
  destruct H as [H|H]; [now left | right; now apply IH].
Qed.

Lemma calc_summaries_get tbl s : NoDup (keys tbl) ->
  aget s (calc_summaries tbl) = match aget s tbl with Some l => summary_of_values l | None => None end.
Proof.
  induction tbl as [|[k l] r IH]; intro ND; simpl; [reflexivity|].
  inversion ND as [|? ? Hn Hr]. subst.
  assert (Skip : s = k -> aget s (calc_summaries r) = None).
  { intro E. subst. apply aget_none_iff. intro X. apply Hn. now apply calc_summaries_keys. }
  destruct (Z.eqb s k) eqn:E.
  - apply Z.eqb_eq in E. unfold summary_of_values.
    destruct l as [|o l']; [now apply Skip|].
    destruct (all_some (o :: l')) as [xs|]; [|now apply Skip].
    destruct (summarize xs); try (now apply Skip).
    simpl. subst. now rewrite Z.eqb_refl.
  - assert (G : aget s (calc_summaries r) = match aget s r with Some l => summary_of_values l | None => None end)
      by (now apply IH).
    destruct l as [|o l']; [exact G|].
    destruct (all_some (o :: l')) as [xs|]; [|exact G].
    destruct (summarize xs); try exact G.
    simpl. rewrite E. exact G.
Qed.

Theorem length_summary_exact_l c ts s xs :
  ignore_len c = false ->
  all_some (values_of (rec_len c) s ts) = Some xs -> xs <> [] ->
  exists sm, aget s (calc_summaries (elens (count_trees c sd_empty ts))) = Some sm /\ summarize xs = Ok sm.
Proof.
  intros I A NE.
  destruct (elens_exact_gen c ts I sd_empty s) as [V ND]; [constructor|].
  simpl in V. rewrite calc_summaries_get by assumption.
  unfold aget_d in V. simpl in V.
  destruct (summarize_exact_l xs NE) as [sm [E _]].
  exists sm. split; [|exact E].
  destruct (aget s (elens (count_trees c sd_empty ts))) as [l|].
  - subst l. unfold summary_of_values. rewrite A, E.
    destruct (values_of (rec_len c) s ts); [simpl in A; inversion A; subst; congruence | reflexivity].
  - rewrite <- V in A. simpl in A. inversion A. subst. congruence.
Qed.

Theorem age_summary_exact_l c ts s xs :
  ignore_ages c = false ->
  all_some (values_of r_age s ts) = Some xs -> xs <> [] ->
  exists sm, aget s (calc_summaries (nages (count_trees c sd_empty ts))) = Some sm /\ summarize xs = Ok sm.
Proof.
  intros I A NE.
  destruct (nages_exact_gen c ts I sd_empty s) as [V ND]; [constructor|].
  simpl in V. rewrite calc_summaries_get by assumption.
  unfold aget_d in V. simpl in V.
  destruct (summarize_exact_l xs NE) as [sm [E _]].
  exists sm. split; [|exact E].
  destruct (aget s (nages (count_trees c sd_empty ts))) as [l|].
  - subst l. unfold summary_of_values. rewrite A, E.
    destruct (values_of r_age s ts); [simpl in A; inversion A; subst; congruence | reflexivity].
  - rewrite <- V in A. simpl in A. inversion A. subst. congruence.
Qed.

(* ---------------------------------------------------------------- arg-max *)

Lemma argmax_from_spec scores : forall i best m j,
  argmax_from scores i best = Some (m, j) ->
  (* invariant on `best`: it is the first maximum of a prefix `seen` ending before index i *)
  forall seen, length seen = i ->
    match best with
    | None => seen = []
    | Some (bm, bj) => (bj < i)%nat /\ nth bj seen 0%Q = bm /\
                       (forall k, (k < i)%nat -> (nth k seen 0%Q <= bm)%Q) /\
                       (forall k, (k < bj)%nat -> (nth k seen 0%Q < bm)%Q)
    end ->
    (j < i + length scores)%nat /\ nth j (seen ++ scores) 0%Q = m /\
    (forall k, (k < i + length scores)%nat -> (nth k (seen ++ scores) 0%Q <= m)%Q) /\
    (forall k, (k < j)%nat -> (nth k (seen ++ scores) 0%Q < m)%Q).
Proof.
  induction scores as [|x r IH]; intros i best m j E seen L Inv; simpl in E.
  - subst best. destruct Inv as [A [B [C D]]]. rewrite app_nil_r. simpl. rewrite Nat.add_0_r. tauto.
  - replace (seen ++ x :: r) with ((seen ++ [x]) ++ r) by (rewrite <- app_assoc; reflexivity).
    replace (i + length (x :: r))%nat with (S i + length r)%nat by (simpl; lia).
    eapply IH; [exact E | rewrite app_length; simpl; lia |].
    destruct best as [[bm bj]|].
    + destruct Inv as [A [B [C D]]]. destruct (qlt_bool bm x) eqn:Q.
      * apply qlt_bool_iff in Q. repeat split.
        -- lia.
        -- rewrite app_nth2 by lia. rewrite L, Nat.sub_diag. reflexivity.
        -- intros k Hk. destruct (Nat.eq_dec k i) as [->|N].
           ++ rewrite app_nth2 by lia. rewrite L, Nat.sub_diag. simpl. apply Qle_refl.
           ++ rewrite app_nth1 by lia. specialize (C k ltac:(lia)). lra.
        -- intros k Hk. rewrite app_nth1 by lia. specialize (C k ltac:(lia)). lra.
      * apply qlt_bool_false in Q. repeat split.
        -- lia.
        -- rewrite app_nth1 by lia. exact B.
        -- intros k Hk. destruct (Nat.eq_dec k i) as [->|N].
           ++ rewrite app_nth2 by lia. rewrite L, Nat.sub_diag. simpl. exact Q.
           ++ rewrite app_nth1 by lia. apply C. lia.
        -- intros k Hk. rewrite app_nth1 by lia. now apply D.
    + subst seen. simpl in L. subst i. simpl. repeat split.
      * lia.
      * intros k Hk. assert (k = 0)%nat by lia. subst. simpl. apply Qle_refl.
      * intros k Hk. lia.
Qed.

(* the index returned is the FIRST index attaining the maximum of the score list *)
Theorem argmax_first_spec_l scores i :
  argmax_first scores = Some i ->
  (i < length scores)%nat /\
  (forall k, (k < length scores)%nat -> (nth k scores 0%Q <= nth i scores 0%Q)%Q) /\
  (forall k, (k < i)%nat -> (nth k scores 0%Q < nth i scores 0%Q)%Q).
Proof.
  unfold argmax_first. destruct (argmax_from scores 0 None) as [[m j]|] eqn:E; [|discriminate].
  intro H. inversion H. subst j.
  destruct (argmax_from_spec scores 0%nat None m i E [] eq_refl eq_refl) as [A [B [C D]]].
  simpl in *. subst m. tauto.
Qed.

Lemma argmax_first_none scores : argmax_first scores = None <-> scores = [].
Proof.
  unfold argmax_first. split.
  - destruct scores as [|x r]; [reflexivity|]. simpl.
    assert (G : forall l i b, exists p, argmax_from l i (Some b) = Some p).
    { induction l as [|y l IH]; intros i b; simpl; [now exists b|].
      destruct b as [bm bj]. destruct (qlt_bool bm y); apply IH. }
    destruct (G r 1%nat (x, 0%nat)) as [[m j] E]. rewrite E. discriminate.
  - intro E. subst. reflexivity.
Qed.
