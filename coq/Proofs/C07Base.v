(* C07 proofs, part 1: the spec quantities (down, dist, total_length, clades / unrooted splits),
   their behaviour under concatenation and permutation of child lists, and the two equivalences
   used throughout:
     equivT c c'  - c and c' are interchangeable as subtrees hanging below some node
     equivU t t'  - t and t' are the same unrooted tree (leaf taxa, splits, total length, distances) *)
From Coq Require Import ZArith List Bool Lia Permutation.
From DV Require Import Model.PyPrims Model.Tree Model.C07Model Model.C07Spec.
Import ListNotations.
Open Scope Z_scope.

Notation ltF := (flat_map leaf_taxa).
Notation clF := (flat_map clades).

Lemma oz_dec (a b : option Z) : {a = b} + {a <> b}.
Proof. decide equality. apply Z.eq_dec. Qed.

Lemma in_oz_dec (a : option Z) (l : list (option Z)) : {In a l} + {~ In a l}.
Proof. apply in_dec. apply oz_dec. Qed.

(* ---------- list combinators ---------- *)
Lemma first_some_cons {A B} (f : A -> option B) a r :
  first_some f (a :: r) = match f a with Some b => Some b | None => first_some f r end.
Proof. reflexivity. Qed.

Lemma first_some_app {A B} (f : A -> option B) X Y :
  first_some f (X ++ Y) = match first_some f X with Some b => Some b | None => first_some f Y end.
Proof.
  induction X as [|a X IH]; [reflexivity|].
  rewrite <- app_comm_cons, !first_some_cons. destruct (f a); [reflexivity | apply IH].
Qed.

Lemma first_some_some {A B} (f : A -> option B) l b :
  first_some f l = Some b -> exists x, In x l /\ f x = Some b.
Proof.
  induction l as [|a l IH]; [discriminate|]. rewrite first_some_cons.
  destruct (f a) eqn:E.
  - intros H; inversion H; subst. exists a. split; [left; reflexivity | assumption].
  - intros H. destruct (IH H) as [x [Hx Hf]]. exists x. split; [right; assumption | assumption].
Qed.

Lemma first_some_none {A B} (f : A -> option B) l :
  first_some f l = None <-> Forall (fun x => f x = None) l.
Proof.
  induction l as [|a l IH]; [split; intros; [constructor | reflexivity]|].
  rewrite first_some_cons. split.
  - destruct (f a) eqn:E; [discriminate|]. intros H. constructor; [assumption | apply IH; assumption].
  - intros H. inversion H; subst. rewrite H2. apply IH; assumption.
Qed.

Lemma first_some_ext {A B} (f g : A -> option B) l :
  Forall (fun x => f x = g x) l -> first_some f l = first_some g l.
Proof.
  induction 1 as [|a l Ha Hl IH]; [reflexivity|]. rewrite !first_some_cons, Ha, IH. reflexivity.
Qed.

Lemma first_ctx_cons {A B} (f : list A -> A -> list A -> option B) pre a post :
  first_ctx f pre (a :: post) =
  match f pre a post with Some b => Some b | None => first_ctx f (pre ++ [a]) post end.
Proof. reflexivity. Qed.

Lemma first_ctx_some {A B} (f : list A -> A -> list A -> option B) l : forall pre b,
  first_ctx f pre l = Some b ->
  exists X k Y, l = X ++ k :: Y /\ f (pre ++ X) k Y = Some b.
Proof.
  induction l as [|a l IH]; intros pre b; [discriminate|].
  rewrite first_ctx_cons. destruct (f pre a l) eqn:E.
  - intros H; inversion H; subst. exists [], a, l. rewrite app_nil_r. split; [reflexivity | assumption].
  - intros H. destruct (IH _ _ H) as [X [k [Y [Hl Hf]]]]. exists (a :: X), k, Y.
    split; [rewrite Hl; reflexivity|]. rewrite <- app_assoc in Hf. exact Hf.
Qed.

Lemma zsum_app X Y : zsum (X ++ Y) = zsum X + zsum Y.
Proof. induction X as [|a X IH]; simpl; [reflexivity|]. unfold zsum in *. simpl. rewrite IH. lia. Qed.

Lemma zsum_cons a X : zsum (a :: X) = a + zsum X.
Proof. reflexivity. Qed.

Lemma zsum_perm X Y : Permutation X Y -> zsum X = zsum Y.
Proof.
  induction 1; try reflexivity.
  - rewrite !zsum_cons. lia.
  - rewrite !zsum_cons. lia.
  - lia.
Qed.

(* ---------- unfolding equations ---------- *)
Lemma leaf_taxa_node i x l e ks : ks <> [] -> leaf_taxa (T i x l e ks) = ltF ks.
Proof. destruct ks; [congruence | reflexivity]. Qed.

Lemma down_node i x l e ks a : ks <> [] -> down a (T i x l e ks) = downF a ks.
Proof. destruct ks; [congruence | reflexivity]. Qed.

Lemma dist_node i x l e ks a b : ks <> [] -> dist a b (T i x l e ks) = distF a b ks.
Proof. destruct ks; [congruence | reflexivity]. Qed.

Lemma downF_cons a k r :
  downF a (k :: r) = match downT a k with Some d => Some d | None => downF a r end.
Proof. reflexivity. Qed.

Lemma downF_nil a : downF a [] = None.
Proof. reflexivity. Qed.

Lemma downF_app a X Y :
  downF a (X ++ Y) = match downF a X with Some d => Some d | None => downF a Y end.
Proof. apply first_some_app. Qed.

Lemma distF_cons a b k r :
  distF a b (k :: r) =
  match downT a k, downT b k with
  | Some _, Some _ => dist a b k
  | Some da, None => oadd da (downF b r)
  | None, Some db => oadd db (downF a r)
  | None, None => distF a b r
  end.
Proof. reflexivity. Qed.

Lemma distF_nil a b : distF a b [] = None.
Proof. reflexivity. Qed.

Lemma total_node i x l e ks : total_length (T i x l e ks) = len0 e + zsum (map total_length ks).
Proof. reflexivity. Qed.

Lemma clades_node i x l e ks : clades (T i x l e ks) = leaf_taxa (T i x l e ks) :: clF ks.
Proof. reflexivity. Qed.

Lemma oz_eqb_true a b : oz_eqb a b = true <-> a = b.
Proof. apply oz_eqb_eq. Qed.

(* ---------- set_len ---------- *)
Lemma set_len_leaf_taxa e t : leaf_taxa (set_len e t) = leaf_taxa t.
Proof. destruct t as [i x l e' ks]. destruct ks; reflexivity. Qed.
Lemma set_len_down e a t : down a (set_len e t) = down a t.
Proof. destruct t as [i x l e' ks]. destruct ks; reflexivity. Qed.
Lemma set_len_dist e a b t : dist a b (set_len e t) = dist a b t.
Proof. destruct t as [i x l e' ks]. destruct ks; reflexivity. Qed.
Lemma set_len_clades e t : clades (set_len e t) = clades t.
Proof. destruct t as [i x l e' ks]. destruct ks; reflexivity. Qed.
Lemma set_len_total e t : total_length (set_len e t) = len0 e - len0 (t_len t) + total_length t.
Proof. destruct t as [i x l e' ks]. simpl. lia. Qed.
Lemma set_len_downT e a t : downT a (set_len e t) = oadd (len0 e) (down a t).
Proof. unfold downT. rewrite set_len_down. destruct t; reflexivity. Qed.
Lemma set_len_kids e t : t_kids (set_len e t) = t_kids t.
Proof. destruct t; reflexivity. Qed.
Lemma set_len_id e t : t_id (set_len e t) = t_id t.
Proof. destruct t; reflexivity. Qed.
Lemma set_len_len e t : t_len (set_len e t) = e.
Proof. destruct t; reflexivity. Qed.

(* ---------- down / dist and membership ---------- *)
Lemma down_in a : forall t d, down a t = Some d -> In a (leaf_taxa t).
Proof.
  induction t as [i x l e ks IH] using tree_ind'. intros d.
  destruct ks as [|k r].
  - simpl. destruct (oz_eqb x a) eqn:E; [|discriminate]. apply oz_eqb_true in E. intros _. left. assumption.
  - rewrite down_node, leaf_taxa_node by discriminate. intros H.
    apply first_some_some in H. destruct H as [c [Hc Hd]].
    rewrite Forall_forall in IH. unfold downT, oadd in Hd.
    destruct (down a c) eqn:E; [|discriminate].
    apply in_flat_map. exists c. split; [assumption | eapply IH; eauto].
Qed.

Lemma in_down a : forall t, In a (leaf_taxa t) -> exists d, down a t = Some d.
Proof.
  induction t as [i x l e ks IH] using tree_ind'.
  destruct ks as [|k r].
  - simpl. intros [H|[]]. subst. exists 0. replace (oz_eqb a a) with true; [reflexivity|].
    symmetry. apply oz_eqb_true. reflexivity.
  - rewrite down_node, leaf_taxa_node by discriminate. intros H.
    apply in_flat_map in H. destruct H as [c [Hc Ha]].
    destruct (downF a (k :: r)) eqn:E; [eexists; reflexivity|].
    exfalso. apply first_some_none in E. rewrite Forall_forall in E, IH.
    specialize (E c Hc). destruct (IH c Hc Ha) as [d Hd]. unfold downT in E. rewrite Hd in E. discriminate.
Qed.

Lemma downT_in a k d : downT a k = Some d -> In a (leaf_taxa k).
Proof. unfold downT, oadd. destruct (down a k) eqn:E; [|discriminate]. intros _. eapply down_in; eauto. Qed.

Lemma in_downT a k : In a (leaf_taxa k) -> exists d, downT a k = Some d.
Proof. intros H. destruct (in_down a k H) as [d Hd]. unfold downT. rewrite Hd. eexists; reflexivity. Qed.

Lemma downT_none a k : downT a k = None <-> ~ In a (leaf_taxa k).
Proof.
  split.
  - intros H Hin. destruct (in_downT a k Hin) as [d Hd]. congruence.
  - intros H. destruct (downT a k) eqn:E; [|reflexivity]. exfalso. apply H. eapply downT_in; eauto.
Qed.

Lemma downF_in a ks d : downF a ks = Some d -> In a (ltF ks).
Proof.
  intros H. apply first_some_some in H. destruct H as [c [Hc Hd]].
  apply in_flat_map. exists c. split; [assumption | eapply downT_in; eauto].
Qed.

Lemma in_downF a ks : In a (ltF ks) -> exists d, downF a ks = Some d.
Proof.
  intros H. apply in_flat_map in H. destruct H as [c [Hc Ha]].
  destruct (downF a ks) eqn:E; [eexists; reflexivity|]. exfalso.
  apply first_some_none in E. rewrite Forall_forall in E. specialize (E c Hc).
  apply downT_none in E. contradiction.
Qed.

Lemma downF_none a ks : downF a ks = None <-> ~ In a (ltF ks).
Proof.
  split.
  - intros H Hin. destruct (in_downF a ks Hin) as [d Hd]. congruence.
  - intros H. destruct (downF a ks) eqn:E; [|reflexivity]. exfalso. apply H. eapply downF_in; eauto.
Qed.

(* a distance exists only when both leaves are present *)
Lemma distF_none_r a b (D : tree -> option Z) ks : downF b ks = None -> distF_gen a b D ks = None.
Proof.
  induction ks as [|k r IH]; [reflexivity|]. rewrite downF_cons.
  destruct (downT b k) eqn:Eb; [discriminate|]. intros H. simpl. rewrite Eb.
  destruct (downT a k); [rewrite H; reflexivity | apply IH; assumption].
Qed.

Lemma distF_none_l a b (D : tree -> option Z) ks : downF a ks = None -> distF_gen a b D ks = None.
Proof.
  induction ks as [|k r IH]; [reflexivity|]. rewrite downF_cons.
  destruct (downT a k) eqn:Ea; [discriminate|]. intros H. simpl. rewrite Ea.
  destruct (downT b k); [rewrite H; reflexivity | apply IH; assumption].
Qed.

Lemma dist_none_r a b t : down b t = None -> dist a b t = None.
Proof.
  destruct t as [i x l e ks]. destruct ks as [|k r].
  - simpl. destruct (oz_eqb x b); [discriminate|]. rewrite andb_false_r. reflexivity.
  - rewrite down_node, dist_node by discriminate. apply distF_none_r.
Qed.

Lemma dist_none_l a b t : down a t = None -> dist a b t = None.
Proof.
  destruct t as [i x l e ks]. destruct ks as [|k r].
  - simpl. destruct (oz_eqb x a); [discriminate|]. reflexivity.
  - rewrite down_node, dist_node by discriminate. apply distF_none_l.
Qed.

Lemma downT_none_down a k : downT a k = None <-> down a k = None.
Proof. unfold downT, oadd. destruct (down a k); split; intros; try discriminate; reflexivity. Qed.

(* ---------- concatenation ---------- *)
Lemma distF_app a b X Y :
  distF a b (X ++ Y) =
  match downF a X, downF b X with
  | Some _, Some _ => distF a b X
  | Some da, None => oadd da (downF b Y)
  | None, Some db => oadd db (downF a Y)
  | None, None => distF a b Y
  end.
Proof.
  induction X as [|c X IH]; [reflexivity|].
  rewrite <- app_comm_cons, !distF_cons, !downF_cons, !downF_app.
  destruct (downT a c) eqn:Ea, (downT b c) eqn:Eb; try reflexivity.
  - destruct (downF b X); reflexivity.
  - destruct (downF a X); reflexivity.
  - exact IH.
Qed.

(* ---------- permutation of a child list (distinct leaf taxa) ---------- *)
Lemma ltF_perm X Y : Permutation X Y -> Permutation (ltF X) (ltF Y).
Proof.
  induction 1; simpl.
  - constructor.
  - apply Permutation_app_head. assumption.
  - rewrite !app_assoc. apply Permutation_app_tail. apply Permutation_app_comm.
  - eapply Permutation_trans; eauto.
Qed.

Lemma nodup_app_l {A} (X Y : list A) : NoDup (X ++ Y) -> NoDup X.
Proof. induction X; simpl; intros H; [constructor|]. inversion H; subst. constructor; [intro; apply H2; apply in_or_app; left; assumption | auto]. Qed.
Lemma nodup_app_r {A} (X Y : list A) : NoDup (X ++ Y) -> NoDup Y.
Proof. induction X; simpl; intros H; [assumption|]. inversion H; subst. auto. Qed.
Lemma nodup_app_disj {A} (X Y : list A) x : NoDup (X ++ Y) -> In x X -> In x Y -> False.
Proof.
  induction X; simpl; intros H HX HY; [contradiction|]. inversion H; subst.
  destruct HX as [->|HX]; [apply H2; apply in_or_app; right; assumption | eauto].
Qed.

Lemma downF_perm a X Y : Permutation X Y -> NoDup (ltF X) -> downF a X = downF a Y.
Proof.
  induction 1 as [|c X Y HP IH|c1 c2 X|X Y Z H1 IH1 H2 IH2]; intros ND.
  - reflexivity.
  - rewrite !downF_cons. simpl in ND. rewrite IH; [reflexivity | eapply nodup_app_r; eauto].
  - rewrite !downF_cons. simpl in ND.
    destruct (downT a c1) eqn:E1, (downT a c2) eqn:E2; try reflexivity.
    exfalso. apply downT_in in E1, E2. rewrite app_assoc in ND. apply nodup_app_l in ND.
    eapply (nodup_app_disj _ _ a ND); eauto.
  - rewrite IH1 by assumption. apply IH2.
    eapply Permutation_NoDup; [apply ltF_perm; eassumption | assumption].
Qed.

Lemma distF_perm a b X Y : Permutation X Y -> NoDup (ltF X) -> distF a b X = distF a b Y.
Proof.
  induction 1 as [|c X Y HP IH|c1 c2 X|X Y Z H1 IH1 H2 IH2]; intros ND.
  - reflexivity.
  - rewrite !distF_cons. simpl in ND. assert (ND' := nodup_app_r _ _ ND).
    rewrite IH by assumption. rewrite (downF_perm a X Y HP ND'), (downF_perm b X Y HP ND'). reflexivity.
  - simpl in ND.
    assert (EX : forall z d1 d2, downT z c1 = Some d1 -> downT z c2 = Some d2 -> False).
    { intros z d1 d2 E1 E2. apply downT_in in E1, E2. rewrite app_assoc in ND. apply nodup_app_l in ND.
      eapply (nodup_app_disj _ _ z ND); eauto. }
    rewrite !distF_cons, !downF_cons.
    destruct (downT a c1) eqn:A1, (downT a c2) eqn:A2; try (exfalso; eapply EX; eauto; fail);
    destruct (downT b c1) eqn:B1, (downT b c2) eqn:B2; try (exfalso; eapply EX; eauto; fail);
    try reflexivity; unfold oadd; simpl; f_equal; lia.
  - rewrite IH1 by assumption. apply IH2.
    eapply Permutation_NoDup; [apply ltF_perm; eassumption | assumption].
Qed.
