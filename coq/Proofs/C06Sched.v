(* C06: equivalence of summaries, histories, partitions, schedules, scores *)
From Coq Require Import ZArith List Bool Lia Permutation QArith.
From DV Require Import Model.PyPrims Gen.BitFns Model.C06Model Proofs.C06Lemmas Proofs.C06Proofs.
Import ListNotations.
Open Scope Z_scope.

(* ------------------------------------------------------------------ equivalence of two arrays *)

Definition ta_equiv (a b : tarr) : Prop :=
  ta_rooting a = ta_rooting b /\
  ta_ign_el a = ta_ign_el b /\ ta_ign_ages a = ta_ign_ages b /\ ta_use_w a = ta_use_w b /\
  Permutation (zip4 a) (zip4 b) /\
  (forall s, alook s (sd_counts (ta_sd a)) = alook s (sd_counts (ta_sd b))) /\
  (forall s, Permutation (lst s (sd_elens (ta_sd a))) (lst s (sd_elens (ta_sd b)))) /\
  (forall s, Permutation (lst s (sd_ages (ta_sd a))) (lst s (sd_ages (ta_sd b)))) /\
  sd_total (ta_sd a) = sd_total (ta_sd b) /\
  sd_sumw (ta_sd a) = sd_sumw (ta_sd b) /\
  sd_rt (ta_sd a) = sd_rt (ta_sd b) /\
  sd_rf (ta_sd a) = sd_rf (ta_sd b) /\
  aligned a /\ aligned b.

Lemma Repr_equiv c r a b l l' :
  Repr c r a l -> Repr c r b l' -> Permutation l l' -> ta_equiv a b.
Proof.
  intros Ha Hb P. apply (Repr_perm c r a l l') in Ha; [|exact P].
  destruct Ha as [Ra Hra], Hb as [Rb Hrb]. unfold ta_equiv.
  repeat split.
  - congruence.
  - rewrite (R_iel _ _ _ Ra), (R_iel _ _ _ Rb). reflexivity.
  - rewrite (R_iag _ _ _ Ra), (R_iag _ _ _ Rb). reflexivity.
  - rewrite (R_uw _ _ _ Ra), (R_uw _ _ _ Rb). reflexivity.
  - eapply perm_trans; [apply (R_trees _ _ _ Ra) | apply Permutation_sym, (R_trees _ _ _ Rb)].
  - intros s. rewrite (R_counts _ _ _ Ra), (R_counts _ _ _ Rb). reflexivity.
  - intros s. eapply perm_trans; [apply (R_el _ _ _ Ra) | apply Permutation_sym, (R_el _ _ _ Rb)].
  - intros s. eapply perm_trans; [apply (R_ag _ _ _ Ra) | apply Permutation_sym, (R_ag _ _ _ Rb)].
  - rewrite (R_total _ _ _ Ra), (R_total _ _ _ Rb). reflexivity.
  - rewrite (R_sumw _ _ _ Ra), (R_sumw _ _ _ Rb). reflexivity.
  - rewrite (R_rt _ _ _ Ra), (R_rt _ _ _ Rb). reflexivity.
  - rewrite (R_rf _ _ _ Ra), (R_rf _ _ _ Rb). reflexivity.
  - apply (R_aligned _ _ _ Ra).
  - apply (R_aligned _ _ _ Ra).
  - apply (R_aligned _ _ _ Ra).
  - apply (R_aligned _ _ _ Ra).
  - apply (R_aligned _ _ _ Rb).
  - apply (R_aligned _ _ _ Rb).
  - apply (R_aligned _ _ _ Rb).
  - apply (R_aligned _ _ _ Rb).
Qed.

(* ------------------------------------------------------------------ histories over several arrays *)

Definition op_ok (c : cfg) (r : option bool) (o : op) : Prop :=
  match o with OAdd _ x _ => ok_rec c r x | _ => True end.

Lemma set_nth_same {A} i (x : A) l : nth_error l i = Some x -> set_nth i x l = l.
Proof.
  revert i; induction l as [|y l IH]; intros [|i] E; simpl in *; try discriminate.
  - inversion E; reflexivity.
  - f_equal. apply IH. exact E.
Qed.

Lemma nth_error_nth_d {A} (l : list A) i x d : nth_error l i = Some x -> nth i l d = x.
Proof.
  revert i; induction l as [|y l IH]; intros [|i] E; simpl in *; try discriminate.
  - inversion E; reflexivity.
  - apply IH. exact E.
Qed.

Lemma step_Repr c r w g o :
  (c_rooting c = None \/ c_rooting c = r) ->
  Forall2 (Repr c r) w g -> op_ok c r o ->
  Forall2 (Repr c r) (fst (step w o)) (pool_step g o (snd (step w o))).
Proof.
  intros Hc F Ho. destruct o as [i x idx | i j | i j | i j | k i j]; cbn [step].
  - destruct (nth_error w i) as [t|] eqn:E; [|exact F].
    destruct (Forall2_nth_error_l _ _ _ _ _ F E) as [l [El Rl]].
    destruct (Repr_add c r Hc t l x idx Rl Ho) as [t' [Ea Ra]]. rewrite Ea. cbn [fst snd pool_step].
    rewrite (nth_error_nth_d _ _ _ [] El). apply Forall2_set_nth; assumption.
  - destruct (nth_error w i) as [a|] eqn:Ea; [|exact F].
    destruct (nth_error w j) as [b|] eqn:Eb; [|exact F].
    destruct (Forall2_nth_error_l _ _ _ _ _ F Ea) as [la [Ela Rla]].
    destruct (Forall2_nth_error_l _ _ _ _ _ F Eb) as [lb [Elb Rlb]].
    destruct (Repr_update c r a b la lb Rla Rlb) as [t' [Eu Ru]]. rewrite Eu. cbn [fst snd pool_step].
    rewrite (nth_error_nth_d _ _ _ [] Ela), (nth_error_nth_d _ _ _ [] Elb). apply Forall2_set_nth; assumption.
  - destruct (nth_error w i) as [a|] eqn:Ea; [|exact F].
    destruct (nth_error w j) as [b|] eqn:Eb; [|exact F].
    destruct (Forall2_nth_error_l _ _ _ _ _ F Ea) as [la [Ela Rla]].
    destruct (Forall2_nth_error_l _ _ _ _ _ F Eb) as [lb [Elb Rlb]].
    destruct (Repr_extend c r a b la lb Rla Rlb) as [Ee | [t' [Ee Re]]]; rewrite Ee; cbn [fst snd pool_step].
    + rewrite (set_nth_same _ _ _ Ea). exact F.
    + rewrite (nth_error_nth_d _ _ _ [] Ela), (nth_error_nth_d _ _ _ [] Elb). apply Forall2_set_nth; assumption.
  - destruct (nth_error w i) as [a|] eqn:Ea; [|exact F].
    destruct (nth_error w j) as [b|] eqn:Eb; [|exact F].
    destruct (Forall2_nth_error_l _ _ _ _ _ F Ea) as [la [Ela Rla]].
    destruct (Forall2_nth_error_l _ _ _ _ _ F Eb) as [lb [Elb Rlb]].
    destruct (Repr_extend c r a b la lb Rla Rlb) as [Ee | [t' [Ee Re]]]; rewrite Ee; cbn [fst snd pool_step].
    + rewrite (set_nth_same _ _ _ Ea). exact F.
    + rewrite (nth_error_nth_d _ _ _ [] Ela), (nth_error_nth_d _ _ _ [] Elb). apply Forall2_set_nth; assumption.
  - destruct (nth_error w i) as [a|] eqn:Ea; [|exact F].
    destruct (nth_error w j) as [b|] eqn:Eb; [|exact F].
    destruct (Forall2_nth_error_l _ _ _ _ _ F Ea) as [la [Ela Rla]].
    destruct (Forall2_nth_error_l _ _ _ _ _ F Eb) as [lb [Elb Rlb]].
    destruct (Repr_plus c r a b la lb Rla Rlb) as [Ee | [t' [Ee Re]]]; rewrite Ee; cbn [fst snd pool_step].
    + exact F.
    + rewrite (nth_error_nth_d _ _ _ [] Ela), (nth_error_nth_d _ _ _ [] Elb). apply Forall2_set_nth; assumption.
Qed.

Lemma run_pool_Repr c r :
  (c_rooting c = None \/ c_rooting c = r) ->
  forall ops w g w' g', Forall2 (Repr c r) w g -> Forall (op_ok c r) ops ->
  run_pool w g ops = (w', g') -> Forall2 (Repr c r) w' g'.
Proof.
  intros Hc. induction ops as [|o ops IH]; intros w g w' g' F Ho E; simpl in E.
  - inversion E; subst. exact F.
  - inversion Ho as [|? ? Ho1 Ho2]; subst.
    pose proof (step_Repr c r w g o Hc F Ho1) as S.
    destruct (step w o) as [w1 e]. cbn [fst snd] in S.
    eapply IH; [exact S | exact Ho2 | exact E].
Qed.

Lemma new_world_Repr c r n : Forall2 (Repr c r) (repeat (new_cfg c) n) (repeat [] n).
Proof. induction n; simpl; constructor; [apply Repr_new | assumption]. Qed.

Lemma merge_history_invariant_l : forall c r n1 n2 ops1 ops2 w1 g1 w2 g2 i j t1 t2,
  (c_rooting c = None \/ c_rooting c = r) ->
  Forall (op_ok c r) ops1 -> Forall (op_ok c r) ops2 ->
  run_pool (repeat (new_cfg c) n1) (repeat [] n1) ops1 = (w1, g1) ->
  run_pool (repeat (new_cfg c) n2) (repeat [] n2) ops2 = (w2, g2) ->
  nth_error w1 i = Some t1 -> nth_error w2 j = Some t2 ->
  Permutation (nth i g1 []) (nth j g2 []) ->
  ta_equiv t1 t2.
Proof.
  intros c r n1 n2 ops1 ops2 w1 g1 w2 g2 i j t1 t2 Hc O1 O2 E1 E2 N1 N2 P.
  pose proof (run_pool_Repr c r Hc ops1 _ _ _ _ (new_world_Repr c r n1) O1 E1) as F1.
  pose proof (run_pool_Repr c r Hc ops2 _ _ _ _ (new_world_Repr c r n2) O2 E2) as F2.
  destruct (Forall2_nth_error_l _ _ _ _ _ F1 N1) as [l1 [L1 R1]].
  destruct (Forall2_nth_error_l _ _ _ _ _ F2 N2) as [l2 [L2 R2]].
  rewrite (nth_error_nth_d _ _ _ [] L1), (nth_error_nth_d _ _ _ [] L2) in P.
  eapply Repr_equiv; eassumption.
Qed.

(* ------------------------------------------------------------------ partitions *)

Lemma add_all_Repr c r : (c_rooting c = None \/ c_rooting c = r) ->
  forall xs t l, Repr c r t l -> Forall (ok_rec c r) xs ->
  exists t', add_all t xs = (t', None) /\ Repr c r t' (l ++ xs).
Proof.
  intros Hc. induction xs as [|x xs IH]; intros t l R F; simpl.
  - exists t. rewrite app_nil_r. split; [reflexivity | exact R].
  - inversion F as [|? ? F1 F2]; subst.
    destruct (Repr_add c r Hc t l x None R F1) as [t1 [E1 R1]]. rewrite E1.
    destruct (IH t1 (l ++ [x]) R1 F2) as [t' [E' R']]. exists t'. split; [exact E'|].
    rewrite <- app_assoc in R'. exact R'.
Qed.

Lemma collate_Repr c r : (c_rooting c = None \/ c_rooting c = r) ->
  forall parts m l, Repr c r m l -> Forall (Forall (ok_rec c r)) parts ->
  exists m', collate m (map (add_all (new_cfg c)) parts) = (m', None) /\ Repr c r m' (l ++ concat parts).
Proof.
  intros Hc. induction parts as [|p parts IH]; intros m l R F; simpl.
  - exists m. rewrite app_nil_r. split; [reflexivity | exact R].
  - inversion F as [|? ? F1 F2]; subst.
    destruct (add_all_Repr c r Hc p (new_cfg c) [] (Repr_new c r) F1) as [tp [Ep Rp]]. rewrite Ep.
    simpl in Rp.
    destruct (Repr_update c r m tp l p R Rp) as [m1 [E1 R1]]. rewrite E1.
    destruct (IH m1 (l ++ p) R1 F2) as [m' [E' R']]. exists m'. split; [exact E'|].
    rewrite <- app_assoc in R'. exact R'.
Qed.

Lemma Forall_concat {A} (P : A -> Prop) (ls : list (list A)) : Forall P (concat ls) -> Forall (Forall P) ls.
Proof.
  induction ls as [|l ls IH]; simpl; intro H; constructor.
  - apply Forall_app in H. tauto.
  - apply IH. apply Forall_app in H. tauto.
Qed.

Lemma Forall_perm {A} (P : A -> Prop) l l' : Permutation l l' -> Forall P l -> Forall P l'.
Proof.
  intros Pm F. rewrite Forall_forall in *. intros x I. apply F. eapply Permutation_in; [apply Permutation_sym; exact Pm | exact I].
Qed.

Lemma merge_partition_l : forall c r trees parts,
  (c_rooting c = None \/ c_rooting c = r) ->
  Forall (ok_rec c r) trees ->
  Permutation (concat parts) trees ->
  exists m s,
    collate (new_cfg c) (map (add_all (new_cfg c)) parts) = (m, None) /\
    add_all (new_cfg c) trees = (s, None) /\
    ta_equiv m s.
Proof.
  intros c r trees parts Hc F P.
  assert (Fp : Forall (Forall (ok_rec c r)) parts).
  { apply Forall_concat. eapply Forall_perm; [apply Permutation_sym; exact P | exact F]. }
  destruct (collate_Repr c r Hc parts (new_cfg c) [] (Repr_new c r) Fp) as [m [Em Rm]].
  destruct (add_all_Repr c r Hc trees (new_cfg c) [] (Repr_new c r) F) as [s [Es Rs]].
  exists m, s. split; [exact Em | split; [exact Es|]].
  simpl in Rm, Rs. eapply Repr_equiv; [exact Rm | exact Rs | exact P].
Qed.

(* ------------------------------------------------------------------ schedules *)

Definition bucket {A} (items : list (nat * A)) (w : nat) : list A :=
  map snd (filter (fun p => Nat.eqb (fst p) w) items).

Lemma flat_map_ext_in' {A B} (f g : A -> list B) l :
  (forall x, In x l -> f x = g x) -> flat_map f l = flat_map g l.
Proof.
  induction l as [|x l IH]; intro H; simpl; [reflexivity|].
  rewrite H by (left; reflexivity). rewrite IH; [reflexivity|]. intros y I. apply H. right. exact I.
Qed.

Lemma flat_map_bucket_cons {A} (w0 : nat) (a : A) items ws :
  NoDup ws -> In w0 ws ->
  Permutation (flat_map (bucket ((w0, a) :: items)) ws) (a :: flat_map (bucket items) ws).
Proof.
  induction ws as [|w ws IH]; intros N I; [destruct I|].
  inversion N as [|? ? Nw Nws]; subst. simpl.
  unfold bucket at 1. simpl. fold (bucket items w).
  destruct (Nat.eqb_spec w0 w) as [->|Ne].
  - simpl. apply perm_skip. apply Permutation_app_head.
    assert (E : flat_map (bucket ((w, a) :: items)) ws = flat_map (bucket items) ws).
    { apply flat_map_ext_in'. intros w' I'. unfold bucket. simpl.
      destruct (Nat.eqb_spec w w') as [->|]; [contradiction | reflexivity]. }
    rewrite E. apply Permutation_refl.
  - destruct I as [E|I]; [congruence|].
    eapply perm_trans; [apply Permutation_app_head, IH; assumption|].
    apply Permutation_sym, Permutation_middle.
Qed.

Lemma flat_map_bucket_nil {A} ws : flat_map (@bucket A []) ws = [].
Proof. induction ws; simpl; auto. Qed.

Lemma buckets_perm {A} (items : list (nat * A)) ws :
  NoDup ws -> Forall (fun p => In (fst p) ws) items ->
  Permutation (flat_map (bucket items) ws) (map snd items).
Proof.
  intros N. induction items as [|[w0 a] items IH]; intro F.
  - rewrite flat_map_bucket_nil. apply perm_nil.
  - inversion F as [|? ? F1 F2]; subst. simpl.
    eapply perm_trans; [apply flat_map_bucket_cons; assumption|].
    apply perm_skip. apply IH. exact F2.
Qed.

Lemma concat_flat_map {A B} (f : A -> list (list B)) l :
  concat (flat_map f l) = flat_map (fun x => concat (f x)) l.
Proof. induction l as [|x l IH]; simpl; [reflexivity|]. rewrite concat_app, IH. reflexivity. Qed.

Lemma Permutation_concat' {A} (l l' : list (list A)) : Permutation l l' -> Permutation (concat l) (concat l').
Proof.
  intro P. rewrite <- (map_id l), <- (map_id l'), <- !flat_map_concat_map.
  apply Permutation_flat_map. exact P.
Qed.

Definition sched_ok (s : sched) (nfiles : nat) : Prop :=
  (1 <= s_workers s)%nat /\
  length (s_assign s) = nfiles /\
  Forall (fun w => (w < s_workers s)%nat) (s_assign s) /\
  Permutation (s_arrival s) (seq 0 (s_workers s)).

Lemma sched_parts_perm {A} (s : sched) (files : list (list A)) :
  sched_ok s (length files) ->
  Permutation (concat (map (fun w => concat (worker_files s files w)) (s_arrival s))) (concat files).
Proof.
  intros (_ & L & F & P).
  rewrite <- flat_map_concat_map, <- concat_flat_map.
  apply Permutation_concat'.
  assert (N : NoDup (s_arrival s)).
  { eapply Permutation_NoDup; [apply Permutation_sym; exact P | apply seq_NoDup]. }
  change (worker_files s files) with (bucket (combine (s_assign s) files)).
  eapply perm_trans; [apply buckets_perm; [exact N|]|].
  - rewrite Forall_forall. intros [w f] I. simpl.
    apply in_combine_l in I. rewrite Forall_forall in F. specialize (F w I).
    eapply Permutation_in; [apply Permutation_sym; exact P|]. apply in_seq. lia.
  - rewrite map_snd_combine by exact L. apply Permutation_refl.
Qed.

Lemma schedule_irrelevant_l : forall c r (s : sched) (files : list (list trec)),
  (c_rooting c = None \/ c_rooting c = r) ->
  Forall (ok_rec c r) (concat files) ->
  sched_ok s (length files) ->
  exists m t,
    parallel_collate c s files = (m, None) /\ serial c files = (t, None) /\ ta_equiv m t.
Proof.
  intros c r s files Hc F S.
  unfold parallel_collate, serial.
  assert (E : map (worker_result c s files) (s_arrival s)
              = map (add_all (new_cfg c)) (map (fun w => concat (worker_files s files w)) (s_arrival s))).
  { rewrite map_map. reflexivity. }
  rewrite E.
  apply merge_partition_l with (r := r); try assumption.
  apply sched_parts_perm. exact S.
Qed.

(* ------------------------------------------------------------------ functions of the summary *)

Lemma equiv_freq a b : ta_equiv a b -> forall s, freq (ta_sd a) s = freq (ta_sd b) s.
Proof.
  intros (_ & _ & _ & _ & _ & C & _ & _ & T & W & _) s. unfold freq, normw.
  rewrite (C s), T, W. reflexivity.
Qed.

Lemma tree_score_ext k f g incl x : (forall s, f s = g s) -> tree_score k f incl x = tree_score k g incl x.
Proof.
  intro E. destruct k; unfold tree_score, sum_score, prod_score.
  - generalize 0%Q. induction (snd x) as [|s l IH]; intro acc; simpl; [reflexivity|].
    rewrite E. apply IH.
  - generalize 1%Q. induction (snd x) as [|s l IH]; intro acc; simpl; [reflexivity|].
    rewrite E. apply IH.
Qed.

Definition p_ls (z : list Z * list (option Z) * Z * Z) : Z * list Z := (snd (fst z), fst (fst (fst z))).

Lemma splits_of_zip4 t : aligned t -> ta_splits t = map (fun z => fst (fst (fst z))) (zip4 t).
Proof.
  intros (A1 & A2 & A3 & _). unfold zip4.
  transitivity (map fst (map fst (map fst
     (combine (combine (combine (ta_splits t) (ta_elens t)) (ta_leafsets t)) (ta_weights t)))));
    [|rewrite !map_map; reflexivity].
  rewrite map_fst_combine by (rewrite !combine_length_eq; try congruence; rewrite combine_length_eq; congruence).
  rewrite map_fst_combine by (rewrite combine_length_eq by congruence; congruence).
  rewrite map_fst_combine by congruence. reflexivity.
Qed.

Lemma leafsets_of_zip4 t : aligned t -> ta_leafsets t = map (fun z => snd (fst z)) (zip4 t).
Proof.
  intros (A1 & A2 & A3 & _). unfold zip4.
  transitivity (map snd (map fst
     (combine (combine (combine (ta_splits t) (ta_elens t)) (ta_leafsets t)) (ta_weights t))));
    [|rewrite !map_map; reflexivity].
  rewrite map_fst_combine by (rewrite !combine_length_eq; try congruence; rewrite combine_length_eq; congruence).
  rewrite map_snd_combine by (rewrite combine_length_eq by congruence; congruence).
  reflexivity.
Qed.

Lemma ls_of_zip4 t : aligned t -> combine (ta_leafsets t) (ta_splits t) = map p_ls (zip4 t).
Proof.
  intro A. rewrite (leafsets_of_zip4 t A) at 1. rewrite (splits_of_zip4 t A) at 1.
  apply combine_map_map.
Qed.

Definition scores (k : score_kind) (incl : bool) (t : tarr) : list Q :=
  map (tree_score k (freq (ta_sd t)) incl) (combine (ta_leafsets t) (ta_splits t)).

Lemma scores_zip4 k incl t : aligned t ->
  scores k incl t = map (fun z => tree_score k (freq (ta_sd t)) incl (p_ls z)) (zip4 t).
Proof. intro A. unfold scores. rewrite (ls_of_zip4 t A), map_map. reflexivity. Qed.

Lemma equiv_scores_perm k incl a b : ta_equiv a b -> Permutation (scores k incl a) (scores k incl b).
Proof.
  intro E. pose proof E as (_ & _ & _ & _ & P & _ & _ & _ & _ & _ & _ & _ & Aa & Ab).
  rewrite (scores_zip4 k incl a Aa), (scores_zip4 k incl b Ab).
  eapply perm_trans; [apply Permutation_map; exact P|].
  erewrite map_ext; [apply Permutation_refl|].
  intro z. apply tree_score_ext. apply equiv_freq. exact E.
Qed.

(* the first maximum *)
Lemma argmax_from_spec : forall l i j0 m j q,
  argmax_from l i (Some (j0, m)) = Some (j, q) ->
  (m <= q)%Q /\ (forall x, In x l -> (x <= q)%Q) /\
  ((j = j0 /\ q = m) \/ exists k, j = (i + k)%nat /\ nth_error l k = Some q).
Proof.
  induction l as [|x l IH]; intros i j0 m j q H; simpl in H.
  - inversion H; subst. split; [apply Qle_refl|]. split; [intros x []|]. left; auto.
  - destruct (Qle_bool x m) eqn:E.
    + apply IH in H. destruct H as (H1 & H2 & H3). split; [exact H1|]. split.
      * intros y [->|I]; [|apply H2; exact I]. apply Qle_bool_iff in E. eapply Qle_trans; eassumption.
      * destruct H3 as [H3 | [k [K1 K2]]]; [left; exact H3|].
        right. exists (S k). split; [lia | exact K2].
    + apply IH in H. destruct H as (H1 & H2 & H3).
      assert (Lt : (m <= x)%Q).
      { apply Qlt_le_weak. apply Qnot_le_lt. intro C. apply Qle_bool_iff in C. congruence. }
      split; [eapply Qle_trans; eassumption|]. split.
      * intros y [->|I]; [exact H1 | apply H2; exact I].
      * right. destruct H3 as [[-> ->] | [k [K1 K2]]].
        -- exists O. split; [lia | reflexivity].
        -- exists (S k). split; [lia | exact K2].
Qed.

Lemma argmax_spec l j q :
  argmax_from l 0 None = Some (j, q) ->
  nth_error l j = Some q /\ forall x, In x l -> (x <= q)%Q.
Proof.
  destruct l as [|x l]; simpl; [discriminate|]. intro H.
  apply argmax_from_spec in H. destruct H as (H1 & H2 & H3). split.
  - destruct H3 as [[-> ->] | [k [-> K2]]]; [reflexivity | exact K2].
  - intros y [->|I]; [exact H1 | apply H2; exact I].
Qed.

Lemma argmax_from_some l : forall i b, exists p, argmax_from l i (Some b) = Some p.
Proof.
  induction l as [|x l IH]; intros i [j m]; simpl; [eauto|].
  destruct (Qle_bool x m); apply IH.
Qed.

Lemma argmax_nonempty x l : exists p, argmax_from (x :: l) 0 None = Some p.
Proof. simpl. apply argmax_from_some. Qed.

Lemma nth_error_map' {A B} (f : A -> B) l i : nth_error (map f l) i = option_map f (nth_error l i).
Proof. revert i; induction l as [|x l IH]; intros [|i]; simpl; auto. Qed.

Lemma py_index_nat {A} (l : list A) j : py_index l (Z.of_nat j) = nth_error l j.
Proof.
  unfold py_index.
  destruct (Z.ltb_spec (Z.of_nat j) (- Z.of_nat (length l))); [lia|]. simpl.
  destruct (Z.leb_spec (Z.of_nat (length l)) (Z.of_nat j)).
  - symmetry. apply nth_error_None. lia.
  - destruct (Z.ltb_spec (Z.of_nat j) 0); [lia|]. rewrite Nat2Z.id. reflexivity.
Qed.

(* what mcc returns *)
Lemma mcc_inv k incl t q sp el ro :
  mcc k incl t = Ok (q, (sp, el, ro)) ->
  exists j, nth_error (scores k incl t) j = Some q /\
            (forall x, In x (scores k incl t) -> (x <= q)%Q) /\
            nth_error (ta_splits t) j = Some sp /\ ro = ta_rooting t.
Proof.
  unfold mcc, calc_scores. fold (scores k incl t).
  destruct (negb (Nat.eqb (length (ta_leafsets t)) (length (ta_splits t)))); [discriminate|].
  destruct (argmax_from (scores k incl t) 0 None) as [[j q']|] eqn:E; simpl; [|discriminate].
  apply argmax_spec in E. destruct E as [E1 E2].
  unfold restore_args. rewrite py_index_nat.
  destruct (nth_error (ta_splits t) j) as [sp'|] eqn:S; [|discriminate].
  rewrite E1.
  destruct (ta_ign_el t).
  - intro H; inversion H; subst. exists j. auto.
  - destruct (negb (Nat.eqb (length (ta_splits t)) (length (ta_elens t)))); [discriminate|].
    rewrite py_index_nat. destruct (nth_error (ta_elens t) j); [|discriminate].
    intro H; inversion H; subst. exists j. auto.
Qed.

Lemma mcc_equiv_l : forall k incl a b qa spa ela ra qb spb elb rb,
  ta_equiv a b ->
  mcc k incl a = Ok (qa, (spa, ela, ra)) ->
  mcc k incl b = Ok (qb, (spb, elb, rb)) ->
  (qa == qb)%Q /\ ra = rb /\
  ((forall i i' q q' sp sp',
       nth_error (scores k incl b) i = Some q -> nth_error (scores k incl b) i' = Some q' ->
       (forall x, In x (scores k incl b) -> (x <= q)%Q) -> (forall x, In x (scores k incl b) -> (x <= q')%Q) ->
       nth_error (ta_splits b) i = Some sp -> nth_error (ta_splits b) i' = Some sp' -> sp = sp') ->
   spa = spb).
Proof.
  intros k incl a b qa spa ela ra qb spb elb rb E Ma Mb.
  apply mcc_inv in Ma. apply mcc_inv in Mb.
  destruct Ma as (ja & A1 & A2 & A3 & A4). destruct Mb as (jb & B1 & B2 & B3 & B4).
  pose proof (equiv_scores_perm k incl a b E) as P.
  pose proof E as (Er & _ & _ & _ & Pz & _ & _ & _ & _ & _ & _ & _ & Aa & Ab).
  assert (Ia : In qa (scores k incl b)).
  { eapply Permutation_in; [exact P|]. eapply nth_error_In; exact A1. }
  assert (Ib : In qb (scores k incl a)).
  { eapply Permutation_in; [apply Permutation_sym; exact P|]. eapply nth_error_In; exact B1. }
  split; [apply Qle_antisym; [apply B2; exact Ia | apply A2; exact Ib]|].
  split; [congruence|].
  intro U.
  (* the tuple of a's choice occurs in b, with the same score *)
  rewrite (scores_zip4 k incl a Aa), nth_error_map' in A1.
  rewrite (splits_of_zip4 a Aa), nth_error_map' in A3.
  destruct (nth_error (zip4 a) ja) as [z|] eqn:Z; [|discriminate]. simpl in A1, A3.
  assert (Iz : In z (zip4 b)).
  { eapply Permutation_in; [exact Pz|]. eapply nth_error_In; exact Z. }
  apply In_nth_error in Iz. destruct Iz as [i' Zi'].
  assert (S' : nth_error (scores k incl b) i' = Some qa).
  { rewrite (scores_zip4 k incl b Ab), nth_error_map', Zi'. simpl.
    inversion A1 as [A1']. f_equal. apply tree_score_ext. intro s. symmetry. apply equiv_freq. exact E. }
  assert (Sp' : nth_error (ta_splits b) i' = Some spa).
  { rewrite (splits_of_zip4 b Ab), nth_error_map', Zi'. simpl. exact A3. }
  symmetry. apply (U jb i' qb qa spb spa B1 S' B2); [|exact B3 | exact Sp'].
  intros x I. apply A2. eapply Permutation_in; [apply Permutation_sym; exact P | exact I].
Qed.

(* ------------------------------------------------------------------ queries are defined on aligned arrays *)

Lemma queries_defined_l : forall k incl t,
  aligned t ->
  (exists sc idx, calc_scores k incl t = Ok (sc, idx) /\ length sc = length (ta_splits t) /\
                  (ta_splits t <> [] -> exists j, idx = Some j /\ (j < length (ta_splits t))%nat)) /\
  (forall i, - Z.of_nat (length (ta_splits t)) <= i < Z.of_nat (length (ta_splits t)) ->
             exists args, restore_args t i = Ok args) /\
  topology_freqs_pre t = true /\
  (ta_splits t <> [] -> exists q args, mcc k incl t = Ok (q, args)).
Proof.
  intros k incl t A. pose proof A as (A1 & A2 & A3 & A4).
  assert (Ls : length (scores k incl t) = length (ta_splits t)).
  { unfold scores. rewrite map_length, combine_length. lia. }
  assert (Rs : forall i, - Z.of_nat (length (ta_splits t)) <= i < Z.of_nat (length (ta_splits t)) ->
                         exists args, restore_args t i = Ok args).
  { intros i Hi. unfold restore_args, py_index. rewrite A1.
    destruct (Z.ltb_spec i (- Z.of_nat (length (ta_splits t)))); [lia|].
    destruct (Z.leb_spec (Z.of_nat (length (ta_splits t))) i); [lia|]. simpl.
    set (n := Z.to_nat (if i <? 0 then i + Z.of_nat (length (ta_splits t)) else i)).
    assert (Hn : (n < length (ta_splits t))%nat).
    { subst n. destruct (Z.ltb_spec i 0); lia. }
    destruct (nth_error (ta_splits t) n) eqn:E1; [|apply nth_error_None in E1; lia].
    destruct (ta_ign_el t); [eauto|].
    rewrite Nat.eqb_refl. simpl.
    destruct (nth_error (ta_elens t) n) eqn:E2; [eauto | apply nth_error_None in E2; lia]. }
  assert (Cs : calc_scores k incl t
               = Ok (scores k incl t, option_map fst (argmax_from (scores k incl t) 0 None))).
  { unfold calc_scores. rewrite A2, Nat.eqb_refl. reflexivity. }
  split; [|split; [exact Rs | split]].
  - rewrite Cs. eexists _, _. split; [reflexivity|]. split; [exact Ls|].
    intro Ne. destruct (scores k incl t) as [|x sc] eqn:Es.
    + destruct (ta_splits t); [contradiction | simpl in Ls; discriminate].
    + destruct (argmax_nonempty x sc) as [[j q] Ej]. rewrite Ej. simpl. exists j. split; [reflexivity|].
      apply argmax_spec in Ej. destruct Ej as [Ej _].
      rewrite <- Ls. apply nth_error_Some. congruence.
  - unfold topology_freqs_pre. rewrite A3. apply Nat.eqb_refl.
  - intro Ne. unfold mcc. rewrite Cs.
    destruct (scores k incl t) as [|x sc] eqn:Es.
    + destruct (ta_splits t); [contradiction | simpl in Ls; discriminate].
    + destruct (argmax_nonempty x sc) as [[j q] Ej]. rewrite Ej. simpl.
      apply argmax_spec in Ej. destruct Ej as [Ej _].
      assert (Hj : (j < length (ta_splits t))%nat).
      { rewrite <- Ls. apply nth_error_Some. congruence. }
      destruct (Rs (Z.of_nat j)) as [args Ea]; [lia|]. rewrite Ea, Ej. eauto.
Qed.

(* ------------------------------------------------------------------ when merging raises *)

Lemma eqb_true_of_eq a b : a = b -> Bool.eqb a b = true.
Proof. intros ->. apply eqb_reflx. Qed.

Lemma update_total_l : forall a b,
  ta_splits a = [] \/ ta_splits b = [] \/
  (ta_rooting a = ta_rooting b /\ ta_ign_el a = ta_ign_el b /\ ta_ign_ages a = ta_ign_ages b /\
   ta_use_w a = ta_use_w b) ->
  exists t', update a b = (t', None) /\
             (ta_splits b = [] -> t' = a) /\
             (ta_splits b <> [] ->
              ta_splits t' = ta_splits a ++ ta_splits b /\ ta_elens t' = ta_elens a ++ ta_elens b /\
              ta_leafsets t' = ta_leafsets a ++ ta_leafsets b /\ ta_weights t' = ta_weights a ++ ta_weights b /\
              ta_sd t' = sd_update (ta_sd a) (ta_sd b) /\
              (ta_splits a <> [] -> ta_rooting t' = ta_rooting a) /\
              (ta_splits a = [] -> ta_rooting t' = ta_rooting b)).
Proof.
  intros a b H. unfold update.
  destruct (ta_splits b) as [|sb rb] eqn:Eb; cbn [is_nil].
  - exists a. split; [reflexivity|]. split; [reflexivity | intro N; contradiction].
  - destruct (ta_splits a) as [|sa ra] eqn:Ea; cbn [is_nil negb].
    + eexists. split; [reflexivity|]. split; [discriminate|]. intros _. cbn. rewrite ?Ea, ?Eb.
      repeat split; try reflexivity. intro N; exfalso; apply N; reflexivity.
    + destruct H as [H|[H|(H1 & H2 & H3 & H4)]]; try discriminate.
      rewrite H1, obool_eqb_refl, (eqb_true_of_eq _ _ H2), (eqb_true_of_eq _ _ H3), (eqb_true_of_eq _ _ H4).
      cbn [negb]. eexists. split; [reflexivity|]. split; [discriminate|]. intros _. cbn. rewrite ?Ea, ?Eb.
      repeat split; try reflexivity; intro N; first [discriminate | exact H1 | (symmetry; exact H1) | reflexivity].
Qed.

Lemma update_raises_only_l : forall a b t' e,
  update a b = (t', Some e) ->
  t' = a /\ ta_splits a <> [] /\ ta_splits b <> [] /\
  ((e = EIncRooting /\ ta_rooting a <> ta_rooting b) \/
   (e = EIncEdgeLens /\ ta_ign_el a <> ta_ign_el b) \/
   (e = EIncNodeAges /\ ta_ign_ages a <> ta_ign_ages b) \/
   (e = EIncWeights /\ ta_use_w a <> ta_use_w b)).
Proof.
  intros a b t' e. unfold update.
  destruct (ta_splits b) as [|sb rb] eqn:Eb; cbn [is_nil]; [discriminate|].
  destruct (ta_splits a) as [|sa ra] eqn:Ea; cbn [is_nil negb]; [discriminate|].
  destruct (obool_eqb (ta_rooting a) (ta_rooting b)) eqn:E1; cbn [negb].
  - destruct (Bool.eqb (ta_ign_el a) (ta_ign_el b)) eqn:E2; cbn [negb].
    + destruct (Bool.eqb (ta_ign_ages a) (ta_ign_ages b)) eqn:E3; cbn [negb].
      * destruct (Bool.eqb (ta_use_w a) (ta_use_w b)) eqn:E4; cbn [negb]; [discriminate|].
        intro H; inversion H; subst. repeat split; try discriminate.
        right; right; right. split; [reflexivity|]. intro C. rewrite C, eqb_reflx in E4. discriminate.
      * intro H; inversion H; subst. repeat split; try discriminate.
        right; right; left. split; [reflexivity|]. intro C. rewrite C, eqb_reflx in E3. discriminate.
    + intro H; inversion H; subst. repeat split; try discriminate.
      right; left. split; [reflexivity|]. intro C. rewrite C, eqb_reflx in E2. discriminate.
  - intro H; inversion H; subst. repeat split; try discriminate.
    left. split; [reflexivity|]. intro C. rewrite C, obool_eqb_refl in E1. discriminate.
Qed.

Lemma extend_total_partial_l : forall a b,
  ta_rooting a = ta_rooting b -> ta_ign_el a = ta_ign_el b -> ta_ign_ages a = ta_ign_ages b ->
  ta_use_w a = ta_use_w b ->
  extend a b = (extend_lists a b, None).
Proof.
  intros a b H1 H2 H3 H4. unfold extend.
  rewrite H1, obool_eqb_refl, (eqb_true_of_eq _ _ H2), (eqb_true_of_eq _ _ H3), (eqb_true_of_eq _ _ H4).
  reflexivity.
Qed.

(* concrete records: the 4-taxon tree ((A,B),(C,D)) as an unrooted tree, unit lengths *)
Definition ex_items : list item :=
  [mkItem 1 1024 None; mkItem 2 1024 None; mkItem 4 1024 None; mkItem 8 1024 None; mkItem 3 2048 None; mkItem 15 0 None].
Definition ex_rec (r : option bool) : trec := mkTrec ex_items 15 None r None.
Definition ex_cfg : cfg := mkCfg None false true true.

(* extend / += / + still refuse an EMPTY collection whose rooting is undefined *)
Lemma extend_empty_refuted_l :
  exists a b,
    a = fst (add_tree (new_cfg ex_cfg) (ex_rec (Some false)) None) /\ b = new_cfg ex_cfg /\
    ta_splits b = [] /\ ta_ign_el a = ta_ign_el b /\ ta_ign_ages a = ta_ign_ages b /\ ta_use_w a = ta_use_w b /\
    extend a b = (a, Some (EPy AssertErr)) /\ extend b a = (b, Some (EPy AssertErr)) /\
    plus a b = (None, Some (EPy AssertErr)) /\ plus b a = (None, Some (EPy AssertErr)) /\
    (exists t', update a b = (t', None)) /\ (exists t', update b a = (t', None)).
Proof.
  exists (fst (add_tree (new_cfg ex_cfg) (ex_rec (Some false)) None)), (new_cfg ex_cfg).
  split; [reflexivity|]. split; [reflexivity|].
  do 8 (split; [vm_compute; reflexivity|]).
  split; eexists; vm_compute; reflexivity.
Qed.

(* F20: trees of undefined rooting are seen as None or as Some false (encode_bipartitions turns an
   undefined rooting into "unrooted" on trees with a basal bifurcation), and then: *)
Lemma undefined_rooting_merge_refuted_l :
  exists a b,
    a = fst (add_tree (new_cfg ex_cfg) (ex_rec None) None) /\
    b = fst (add_tree (new_cfg ex_cfg) (ex_rec (Some false)) None) /\
    sd_rt (ta_sd a) = false /\ sd_rt (ta_sd b) = false /\
    update a b = (a, Some EIncRooting) /\ update b a = (b, Some EIncRooting) /\
    extend a b = (a, Some (EPy AssertErr)).
Proof.
  exists (fst (add_tree (new_cfg ex_cfg) (ex_rec None) None)),
         (fst (add_tree (new_cfg ex_cfg) (ex_rec (Some false)) None)).
  split; [reflexivity|]. split; [reflexivity|].
  do 4 (split; [vm_compute; reflexivity|]). vm_compute; reflexivity.
Qed.

Lemma undefined_rooting_order_refuted_l :
  exists x y t1 t2,
    tr_rooted x = false /\ tr_rooted y = false /\
    add_all (new_cfg ex_cfg) [x; y] = (t1, None) /\
    add_all (new_cfg ex_cfg) [y; x] = (t2, Some EMixedRooting).
Proof.
  exists (ex_rec None), (ex_rec (Some false)). eexists. eexists.
  split; [reflexivity|]. split; [reflexivity|]. split; vm_compute; reflexivity.
Qed.

(* non-vacuity of the hypotheses used by the theorems *)
Definition ex_sched : sched := mkSched 3 [2%nat; 0%nat] [1%nat; 2%nat; 0%nat].
Definition ex_files : list (list trec) := [[ex_rec (Some false); ex_rec (Some false)]; [ex_rec (Some false)]].

Lemma ex_hypotheses :
  (c_rooting ex_cfg = None \/ c_rooting ex_cfg = Some false) /\
  Forall (ok_rec ex_cfg (Some false)) (concat ex_files) /\
  sched_ok ex_sched (length ex_files).
Proof.
  split; [left; reflexivity|]. split.
  - repeat constructor; intro; discriminate.
  - unfold sched_ok, ex_sched. cbn. repeat split; try lia.
    + repeat constructor.
    + change [1%nat; 2%nat; 0%nat] with ([1%nat; 2%nat] ++ [0%nat]).
      apply Permutation_sym. apply Permutation_cons_append.
Qed.

Lemma ex_schedule_runs :
  exists m, parallel_collate ex_cfg ex_sched ex_files = (m, None) /\
            Z.of_nat (length (ta_splits m)) = 3 /\ cnt 3 (sd_counts (ta_sd m)) = 3 * UNITW /\
            ta_rooting m = Some false.
Proof.
  eexists. split; [vm_compute; reflexivity|]. split; [vm_compute; reflexivity|].
  split; vm_compute; reflexivity.
Qed.

(* any function of the count map (that only depends on its values) and of the totals *)
Lemma functions_of_counts_l : forall a b, ta_equiv a b ->
  forall (X : Type) (F : (Z -> option Z) -> Z -> Z -> X),
    (forall f g n w, (forall s, f s = g s) -> F f n w = F g n w) ->
    F (fun s => alook s (sd_counts (ta_sd a))) (sd_total (ta_sd a)) (sd_sumw (ta_sd a))
    = F (fun s => alook s (sd_counts (ta_sd b))) (sd_total (ta_sd b)) (sd_sumw (ta_sd b)).
Proof.
  intros a b (_ & _ & _ & _ & _ & C & _ & _ & T & W & _) X F HF. rewrite T, W. apply HF. exact C.
Qed.

(* ------------------------------------------------------------------ the repaired forms (DESIGN 5.2) *)

Lemma extend_r_total_l : forall a b,
  ta_ign_el a = ta_ign_el b -> ta_ign_ages a = ta_ign_ages b -> ta_use_w a = ta_use_w b ->
  ta_splits b = [] \/ (ta_splits a = [] /\ ta_rooting a = None) \/ ta_rooting a = ta_rooting b ->
  exists t', extend_r a b = (t', None) /\
             (ta_splits b = [] -> t' = a) /\
             (ta_splits b <> [] ->
              ta_splits t' = ta_splits a ++ ta_splits b /\ ta_elens t' = ta_elens a ++ ta_elens b /\
              ta_leafsets t' = ta_leafsets a ++ ta_leafsets b /\ ta_weights t' = ta_weights a ++ ta_weights b /\
              ta_sd t' = sd_update (ta_sd a) (ta_sd b) /\ ta_rooting t' = ta_rooting b).
Proof.
  intros a b F1 F2 F3 H. unfold extend_r.
  destruct (ta_splits b) as [|sb rb] eqn:Eb; cbn [is_nil].
  - exists a. split; [reflexivity|]. split; [reflexivity | intro N; exfalso; apply N; reflexivity].
  - set (a' := if is_nil (ta_splits a) && is_none (ta_rooting a) then set_rooting a (ta_rooting b) else a).
    assert (Ha : ta_rooting a' = ta_rooting b /\ ta_ign_el a' = ta_ign_el a /\ ta_ign_ages a' = ta_ign_ages a /\
                 ta_use_w a' = ta_use_w a /\ ta_splits a' = ta_splits a /\ ta_elens a' = ta_elens a /\
                 ta_leafsets a' = ta_leafsets a /\ ta_weights a' = ta_weights a /\ ta_sd a' = ta_sd a).
    { subst a'. destruct H as [H|[[H1 H2]|H]]; [discriminate | |].
      - assert (E : is_nil (ta_splits a) && is_none (ta_rooting a) = true) by (rewrite H1, H2; reflexivity).
        rewrite E. cbn. repeat split; reflexivity.
      - destruct (is_nil (ta_splits a) && is_none (ta_rooting a)); cbn; repeat split; try reflexivity; exact H. }
    destruct Ha as (R & G1 & G2 & G3 & L1 & L2 & L3 & L4 & L5).
    rewrite (extend_total_partial_l a' b) by congruence.
    eexists. split; [reflexivity|]. split; [discriminate|]. intros _.
    unfold extend_lists. cbn. rewrite L1, L2, L3, L4, L5, Eb. repeat split; try reflexivity. exact R.
Qed.

Lemma extend_r_example_l :
  exists a b ab ba,
    a = fst (add_tree (new_cfg ex_cfg) (ex_rec (Some false)) None) /\ b = new_cfg ex_cfg /\
    extend_r a b = (a, None) /\ extend_r b a = (ba, None) /\ plus_r a b = (Some ab, None) /\
    plus_r b a = (Some ba, None) /\ ta_rooting ba = Some false /\ ta_splits ba = ta_splits a.
Proof.
  exists (fst (add_tree (new_cfg ex_cfg) (ex_rec (Some false)) None)), (new_cfg ex_cfg).
  eexists. eexists. split; [reflexivity|]. split; [reflexivity|].
  split; [vm_compute; reflexivity|]. split; [vm_compute; reflexivity|].
  split; [vm_compute; reflexivity|]. split; [vm_compute; reflexivity|].
  split; vm_compute; reflexivity.
Qed.

Lemma norm_rooting_rooted x : tr_rooting (norm_rooting x) = Some (tr_rooted x).
Proof. unfold norm_rooting, tr_rooted. destruct (tr_rooting x) as [[|]|]; reflexivity. Qed.

Lemma merge_partition_repaired_l : forall c (rooted : bool) trees parts,
  (c_rooting c = None \/ c_rooting c = Some rooted) ->
  Forall (fun x => tr_rooted x = rooted /\ (c_ign_ages c = false -> tr_ages_err x = None)) trees ->
  Permutation (concat parts) trees ->
  exists m s,
    collate (new_cfg c) (map (fun p => add_all (new_cfg c) (map norm_rooting p)) parts) = (m, None) /\
    add_all (new_cfg c) (map norm_rooting trees) = (s, None) /\
    ta_equiv m s.
Proof.
  intros c rooted trees parts Hc F P.
  replace (map (fun p => add_all (new_cfg c) (map norm_rooting p)) parts)
    with (map (add_all (new_cfg c)) (map (map norm_rooting) parts)) by (rewrite map_map; reflexivity).
  apply merge_partition_l with (r := Some rooted); [exact Hc | |].
  - rewrite Forall_forall in *. intros y Iy. apply in_map_iff in Iy. destruct Iy as [x [<- Ix]].
    destruct (F x Ix) as [F1 F2]. split; [rewrite norm_rooting_rooted, F1; reflexivity | exact F2].
  - rewrite <- concat_map. apply Permutation_map. exact P.
Qed.

(* with the repaired add_tree the two F20 witnesses merge in both directions and both orders *)
Lemma undefined_rooting_repaired_example_l :
  exists a b t1 t2,
    a = fst (add_tree_r (new_cfg ex_cfg) (ex_rec None) None) /\
    b = fst (add_tree_r (new_cfg ex_cfg) (ex_rec (Some false)) None) /\
    (exists t', update a b = (t', None)) /\ (exists t', update b a = (t', None)) /\
    add_all (new_cfg ex_cfg) (map norm_rooting [ex_rec None; ex_rec (Some false)]) = (t1, None) /\
    add_all (new_cfg ex_cfg) (map norm_rooting [ex_rec (Some false); ex_rec None]) = (t2, None).
Proof.
  exists (fst (add_tree_r (new_cfg ex_cfg) (ex_rec None) None)),
         (fst (add_tree_r (new_cfg ex_cfg) (ex_rec (Some false)) None)).
  eexists. eexists. split; [reflexivity|]. split; [reflexivity|].
  split; [eexists; vm_compute; reflexivity|]. split; [eexists; vm_compute; reflexivity|].
  split; vm_compute; reflexivity.
Qed.
