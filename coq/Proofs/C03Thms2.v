(* C03 proofs, second wave: non-vacuity example for the full operation language. *)
From Coq Require Import ZArith List Bool Lia Permutation.
From DV Require Import Model.PyPrims Model.Tree Model.Heap Model.HeapOps Model.C03Spec
  Proofs.C03Base Proofs.C03Abs Proofs.C03Local Proofs.C03Prims Proofs.C03Ops Proofs.C03PruneLoops
  Proofs.C03Hist Proofs.C03Thms Proofs.C03More Proofs.C03More2 Proofs.C03More3 Proofs.C03SetKids Proofs.C03Hist2.
Import ListNotations.
Open Scope Z_scope.

(* ex_tree (C03Thms.v): 0 -> [1 -> [2; 3 -> [4 -> [5; 6]]]; 7 -> [8]; 9] *)
Definition ex_hist2 : list op :=
  [ORemoveChild 1 2 false;                  (* detaches leaf 2 *)
   OAddChild 7 2;                           (* ... and re-attaches it elsewhere *)
   OSetParentNode 4 (Some 0);               (* moves the subtree at 4 below the seed *)
   ORemoveChild 1 3 true;                   (* suppress_unifurcations branch of remove_child *)
   OCollapseClade 0;
   OResolvePolytomies 2 None false;
   ORerootAtMidpoint 5 9 false true true;
   OPruneNodes [8; 8; 99] false false true; (* repeated and unknown ids *)
   OPruneTaxa [5] false true true true;
   OPolytomizeRoot true;
   OShuffleTaxa false [0; 0; 0; 0; 0; 0]%nat].

Ltac live_tac2 := eexists; split; [vm_compute; reflexivity|vm_compute; tauto].
Ltac next_state2 := intros ? [E|[? E]]; vm_compute in E; inversion E; subst; clear E.

Example ex_hist2_valid : valid_hist2 ex_hist2 (of_tree ex_tree None).
Proof.
  unfold ex_hist2. simpl valid_hist2.
  split; [apply c2_old, cov_remove_child; [live_tac2|vm_compute; tauto]|].
  (* the state after the first step, with the proof that node 2 is detached in it *)
  assert (W0 : WFt (of_tree ex_tree None)
                 (plug (CNode CTop 0 None None (Some 7) [] [T 7 None None None [f18_leaf 8]; f18_leaf 9])
                    (T 1 None None (Some 1) ([] ++ f18_leaf 2 :: [T 3 None None (Some 3) [T 4 None None (Some 4) [f18_leaf 5; f18_leaf 6]]])))).
  { apply of_tree_WFt. apply has_dup_false. vm_compute. reflexivity. }
  destruct (remove_child_detaches _ _ _ _ _ _ _ _ _ W0) as [h1 [E1 [_ D1]]]. simpl t_id in E1, D1.
  intros h' [E|[e E]]; [|rewrite E1 in E; discriminate].
  assert (h' = h1) by (rewrite E1 in E; inversion E; reflexivity). subst h1. clear E1.
  vm_compute in E. inversion E; subst; clear E.
  split; [apply c2_add_child; [live_tac2|exact D1]|next_state2].
  split; [apply c2_set_parent_node; [live_tac2|vm_compute; discriminate|split; [live_tac2|vm_compute; intuition discriminate]]|next_state2].
  split; [apply c2_remove_child_su; [live_tac2|vm_compute; tauto]|next_state2].
  split; [apply c2_collapse_clade; live_tac2|next_state2].
  split; [apply c2_resolve; vm_compute; discriminate|next_state2].
  split; [apply c2_midpoint|next_state2].
  split; [apply c2_prune_nodes|next_state2].
  split; [apply c2_prune_taxa|next_state2].
  split; [apply c2_polytomize_root|next_state2].
  split; [apply c2_shuffle; vm_compute; discriminate|next_state2].
  exact I.
Qed.
