(* C04: concrete witnesses (all by computation on the model): the three deviations of the current
   code from the property, non-vacuity examples for the hypotheses used in Props/C04.v, and an
   example of a stale result with is_bipartitions_updated = True *)
From Coq Require Import ZArith List Bool Lia Permutation Relations.
From DV Require Import Model.PyPrims Model.Tree Model.C04Model Model.C04Spec Proofs.C04Lists Proofs.C04Loops Proofs.C04Core.
Import ListNotations.
Open Scope Z_scope.

Definition Lf i x e := T i (Some x) None e [].
Definition Nd i e ks := T i None None e ks.
Definition acc4 : acc_map := [(0, 0); (1, 1); (2, 2); (3, 3)].
Definition one := Some 1024.

(* F8: (A,B,C) without lengths against (A:1,B:1,C:1) *)
Definition w_nolen := Nd 0 None [Lf 1 0 None; Lf 2 1 None; Lf 3 2 None].
Definition w_len := Nd 0 None [Lf 1 0 one; Lf 2 1 one; Lf 3 2 one].

Lemma defined_sym_refuted_l : forall mg,
  exists acc s1 s2,
    well_formed acc s1 = true /\ well_formed acc s2 = true /\
    wrf mg Current acc s1 s2 = Ok 3072 /\ wrf mg Current acc s2 s1 = Err ValueErr /\
    euclid_sq mg Current acc s1 s2 = Ok 3145728 /\ euclid_sq mg Current acc s2 s1 = Err ValueErr.
Proof. intro mg. exists acc4, (w_nolen, Some false), (w_len, Some false). destruct mg; vm_compute; repeat split; reflexivity. Qed.

(* the two candidate repairs are symmetric on the witness *)
Example repaired_on_witness :
  wrf false ZeroBoth acc4 (w_nolen, Some false) (w_len, Some false) = Ok 3072 /\
  wrf false ZeroBoth acc4 (w_len, Some false) (w_nolen, Some false) = Ok 3072 /\
  wrf false RefuseBoth acc4 (w_nolen, Some false) (w_len, Some false) = Err ValueErr /\
  wrf false RefuseBoth acc4 (w_len, Some false) (w_nolen, Some false) = Err ValueErr.
Proof. vm_compute. repeat split; reflexivity. Qed.

(* a not-rooted tree whose seed keeps two children after encode_bipartitions():
   (((A:1,B:1):1):1,C:5) and the same tree with the two seed children exchanged *)
Definition w_uni := Nd 0 None [Nd 1 one [Nd 2 one [Lf 3 0 one; Lf 4 1 one]]; Lf 5 2 (Some 5120)].
Definition w_uni' := Nd 0 None [Lf 5 2 (Some 5120); Nd 1 one [Nd 2 one [Lf 3 0 one; Lf 4 1 one]]].

Lemma redraw_swap i x l e a b : redraw (T i x l e [a; b]) (T i x l e [b; a]).
Proof. apply rt_step. apply R_here. apply perm_swap. Qed.

Lemma zero_on_redrawing_refuted_l : forall mg p,
  exists acc r t t',
    redraw t t' /\ proper acc (t, r) = true /\ proper acc (t', r) = true /\ collides mg (t, r) = true /\
    rf mg acc (t, r) (t', r) = Ok 0 /\ wrf mg p acc (t, r) (t', r) = Ok 3072 /\ euclid_sq mg p acc (t, r) (t', r) = Ok 9437184.
Proof.
  intros mg p. exists acc4, (Some false), w_uni, w_uni'. split; [apply redraw_swap|].
  destruct mg, p; vm_compute; repeat split; reflexivity.
Qed.

(* ... and on the trees left behind by that call the same call returns 0: the normalisation is
   not idempotent *)
Example second_call_differs :
  let w := world2 acc4 (w_uni, Some false) (w_uni', Some false) in
  let '(r1, w1) := do_wrf false Current w 0 1 false in
  let '(r2, _) := do_wrf false Current w1 0 1 false in
  r1 = Ok 3072 /\ r2 = Ok 0.
Proof. vm_compute. split; reflexivity. Qed.

(* the smallest case: two leaves *)
Example two_leaf_collision :
  wrf false Current acc4 (Nd 0 None [Lf 1 0 one; Lf 2 1 (Some 2048)], Some false)
                   (Nd 0 None [Lf 2 1 (Some 2048); Lf 1 0 one], Some false) = Ok 1024.
Proof. vm_compute. reflexivity. Qed.

(* basal collapse drops a length: ((A:1,B:1),(C:1,D:1):1) and the same with the seed children exchanged *)
Definition w_drop := Nd 0 None [Nd 1 None [Lf 2 0 one; Lf 3 1 one]; Nd 4 one [Lf 5 2 one; Lf 6 3 one]].
Definition w_drop' := Nd 0 None [Nd 4 one [Lf 5 2 one; Lf 6 3 one]; Nd 1 None [Lf 2 0 one; Lf 3 1 one]].

Lemma child_order_invariant_refuted_l :
  exists p acc r t t',
    redraw t t' /\ well_formed acc (t, r) = true /\ well_formed acc (t', r) = true /\
    nodupb (splits false acc (t, r)) = true /\ nodupb (splits false acc (t', r)) = true /\
    rf false acc (t, r) (t', r) = Ok 0 /\ wrf false p acc (t, r) (t', r) = Ok 1024 /\
    wrf true p acc (t, r) (t', r) = Ok 0.
Proof.
  exists Current, acc4, (Some false), w_drop, w_drop'. split; [apply redraw_swap|].
  vm_compute. repeat split; reflexivity.
Qed.

(* non-vacuity: a rooted and a star-rooted unrooted structure satisfying every hypothesis used *)
Definition w_r1 := Nd 0 None [Nd 1 one [Lf 2 0 one; Lf 3 1 (Some 2048)]; Nd 4 one [Lf 5 2 one; Lf 6 3 (Some 512)]].
Definition w_r2 := Nd 0 None [Nd 1 (Some 512) [Lf 2 0 one; Lf 3 2 (Some 2048)]; Nd 4 one [Lf 5 1 one; Lf 6 3 one]].
Definition w_u1 := Nd 0 None [Lf 1 0 one; Lf 2 1 one; Nd 3 (Some 2048) [Lf 4 2 one; Lf 5 3 one]].

Example hypotheses_satisfiable :
  well_formed acc4 (w_r1, Some true) = true /\ well_formed acc4 (w_r2, Some true) = true /\
  well_formed acc4 (w_u1, None) = true /\
  nodupb (splits false acc4 (w_r1, Some true)) = true /\ nodupb (splits false acc4 (w_r2, Some true)) = true /\
  nodupb (splits false acc4 (w_u1, None)) = true /\
  rf false acc4 (w_r1, Some true) (w_r2, Some true) = Ok 4 /\
  fpfn false acc4 (w_r1, Some true) (w_r2, Some true) = Ok (2, 2) /\
  wrf false Current acc4 (w_r1, Some true) (w_r2, Some true) = Ok 6144 /\
  wrf false Current acc4 (w_r2, Some true) (w_r1, Some true) = Ok 6144 /\
  (exists v, wrf false Current acc4 (w_u1, None) (w_u1, None) = Ok v).
Proof. vm_compute. repeat split; try reflexivity. eexists; reflexivity. Qed.

(* the seed condition of child_order_invariant_partial on a not-rooted tree with two internal seed children *)
Definition w_b2 := Nd 0 None [Nd 1 one [Lf 2 0 one; Lf 3 1 one]; Nd 4 one [Lf 5 2 one; Lf 6 3 one]].
Example seed_condition_satisfiable :
  well_formed acc4 (w_b2, Some false) = true /\ nodupb (splits false acc4 (w_b2, Some false)) = true /\
  seed_ok false acc4 (w_b2, Some false).
Proof.
  split; [reflexivity|]. split; [reflexivity|]. intros _ c0 c1 Hk _. cbn [fst t_kids w_b2 Nd] in Hk.
  inversion Hk; subst. split; [right; split; discriminate | reflexivity].
Qed.

(* staleness is expressible: after an edit (here: the tree is replaced by the other topology) a call
   with is_bipartitions_updated = True still answers from the cached encoding, the default call
   does not *)
Example stale_with_flag_fresh_without :
  let w0 := world2 acc4 (w_r1, Some true) (w_r1, Some true) in
  let '(r0, w1) := step false Current w0 (OpSymDiff 0 1 false) in
  let '(_, w2) := step false Current w1 (OpEdit 1 w_r2 (Some true) [] false false) in
  let '(r_stale, w3) := step false Current w2 (OpSymDiff 0 1 true) in
  let '(r_fresh, _) := step false Current w3 (OpSymDiff 0 1 false) in
  r0 = OInt 0 /\ r_stale = OInt 0 /\ r_fresh = OInt 4.
Proof. vm_compute. repeat split; reflexivity. Qed.

(* error branches: a leaf taxon outside the namespace, and a tree whose leaves carry no taxon *)
Example unknown_taxon_is_key_error :
  rf false acc4 (Nd 0 None [Lf 1 0 None; Lf 2 9 None], None) (w_len, None) = Err KeyErr.
Proof. vm_compute. reflexivity. Qed.

Example no_taxa_is_assertion_error :
  rf false acc4 (Nd 0 None [T 1 None None None []; T 2 None None None []], None) (w_len, None) = Err AssertErr.
Proof. vm_compute. reflexivity. Qed.
