(* C14: UPGMA on an ultrametric matrix builds a tree whose path distances are the matrix *)
From Coq Require Import ZArith QArith Qabs List Bool Lia Permutation.
From DV Require Import Model.PyPrims Model.Tree Model.C14Model Model.C14Spec Proofs.C14Dict Proofs.C14Clu.
Import ListNotations.
Open Scope Z_scope.

(* ---------- trees with Q lengths ---------- *)
Lemma qhas_setlen a t l : qhas a (q_setlen t l) = qhas a t.
Proof. destruct t as [i x e ks]. destruct ks; reflexivity. Qed.

Lemma qdown_setlen a t l : qdown a (q_setlen t l) = qdown a t.
Proof. destruct t as [i x e ks]. destruct ks; reflexivity. Qed.

Lemma qlen0_setlen t l : qlen0 (q_setlen t l) = l.
Proof. destruct t. reflexivity. Qed.

Lemma qlca_node a b i x e ks :
  qlca a b (QT i x e ks) =
  if qhas a (QT i x e ks) && qhas b (QT i x e ks) then
    match first_some (qlca a b) ks with Some r => Some r | None => Some (QT i x e ks) end
  else None.
Proof. reflexivity. Qed.

Lemma qlca_none a b t : qhas a t && qhas b t = false -> qlca a b t = None.
Proof. destruct t as [i x e ks]. rewrite qlca_node. intros ->. reflexivity. Qed.

Lemma qdist_setlen t l a b : qdist (q_setlen t l) a b = qdist t a b.
Proof.
  destruct t as [i x e ks]. unfold qdist. simpl q_setlen. rewrite !qlca_node.
  change (qhas a (QT i x (Some l) ks)) with (qhas a (QT i x e ks)).
  change (qhas b (QT i x (Some l) ks)) with (qhas b (QT i x e ks)).
  destruct (qhas a (QT i x e ks) && qhas b (QT i x e ks)); [|reflexivity].
  destruct (first_some (qlca a b) ks); [reflexivity|].
  change (qdown a (QT i x (Some l) ks)) with (qdown a (QT i x e ks)).
  change (qdown b (QT i x (Some l) ks)) with (qdown b (QT i x e ks)). reflexivity.
Qed.

(* the node made by a join: two children with disjoint leaf sets *)
Section Join.
Variables (i : Z) (t0 t1 : qtree) (l0 l1 : Q).
Let J := QT i None None [q_setlen t0 l0; q_setlen t1 l1].

Lemma qhas_join a : qhas a J = qhas a t0 || qhas a t1.
Proof. unfold J. simpl. rewrite !qhas_setlen, orb_false_r. reflexivity. Qed.

Lemma qdown_join_l a d : qdown a t0 = Some d -> qdown a J = Some (d + l0)%Q.
Proof. intro H. unfold J. simpl. rewrite qdown_setlen, H, qlen0_setlen. reflexivity. Qed.

Lemma qdown_join_r a d : qdown a t0 = None -> qdown a t1 = Some d -> qdown a J = Some (d + l1)%Q.
Proof. intros H0 H. unfold J. simpl. rewrite !qdown_setlen, H0, H, qlen0_setlen. reflexivity. Qed.

Lemma qdist_join_l a b : qhas a t0 = true -> qhas b t0 = true -> qdist J a b = qdist t0 a b.
Proof.
  intros Ha Hb. unfold qdist, J. rewrite qlca_node. fold J. rewrite !qhas_join, Ha, Hb. simpl andb. simpl first_some.
  assert (E : qlca a b (q_setlen t0 l0) <> None).
  { destruct t0 as [i0 x0 e0 ks0]. simpl q_setlen. rewrite qlca_node.
    change (qhas a (QT i0 x0 (Some l0) ks0)) with (qhas a (QT i0 x0 e0 ks0)).
    change (qhas b (QT i0 x0 (Some l0) ks0)) with (qhas b (QT i0 x0 e0 ks0)).
    rewrite Ha, Hb. simpl. destruct (first_some (qlca a b) ks0); discriminate. }
  pose proof (qdist_setlen t0 l0 a b) as D. unfold qdist in D.
  destruct (qlca a b (q_setlen t0 l0)) as [r|]; [exact D | congruence].
Qed.

Lemma qdist_join_r a b : qhas a t0 = false -> qhas b t0 = false -> qhas a t1 = true -> qhas b t1 = true ->
  qdist J a b = qdist t1 a b.
Proof.
  intros Na Nb Ha Hb. unfold qdist, J. rewrite qlca_node. fold J. rewrite !qhas_join, Na, Nb, Ha, Hb. simpl andb. simpl first_some.
  rewrite (qlca_none a b (q_setlen t0 l0)) by (rewrite !qhas_setlen, Na; reflexivity).
  assert (E : qlca a b (q_setlen t1 l1) <> None).
  { destruct t1 as [i0 x0 e0 ks0]. simpl q_setlen. rewrite qlca_node.
    change (qhas a (QT i0 x0 (Some l1) ks0)) with (qhas a (QT i0 x0 e0 ks0)).
    change (qhas b (QT i0 x0 (Some l1) ks0)) with (qhas b (QT i0 x0 e0 ks0)).
    rewrite Ha, Hb. simpl. destruct (first_some (qlca a b) ks0); discriminate. }
  pose proof (qdist_setlen t1 l1 a b) as D. unfold qdist in D.
  destruct (qlca a b (q_setlen t1 l1)) as [r|]; [exact D | congruence].
Qed.

Lemma qdist_join_cross a b da db :
  qhas a t0 = true -> qhas b t0 = false -> qhas a t1 = false -> qhas b t1 = true ->
  qdown a t0 = Some da -> qdown b t0 = None -> qdown b t1 = Some db ->
  qdist J a b = Some ((da + l0) + (db + l1))%Q.
Proof.
  intros Ha0 Nb0 Na1 Hb1 Da Nb Db. unfold qdist. unfold J at 1. rewrite qlca_node. fold J.
  rewrite !qhas_join, Ha0, Hb1, orb_true_r. simpl andb. simpl first_some.
  rewrite (qlca_none a b (q_setlen t0 l0)) by (rewrite !qhas_setlen, Nb0; apply andb_false_r).
  rewrite (qlca_none a b (q_setlen t1 l1)) by (rewrite !qhas_setlen, Na1; reflexivity).
  rewrite (qdown_join_l a da Da), (qdown_join_r b db Nb Db). reflexivity.
Qed.

Lemma qdist_join_cross' a b da db :
  qhas a t0 = false -> qhas b t0 = true -> qhas a t1 = true -> qhas b t1 = false ->
  qdown a t0 = None -> qdown a t1 = Some da -> qdown b t0 = Some db ->
  qdist J a b = Some ((da + l1) + (db + l0))%Q.
Proof.
  intros Na0 Hb0 Ha1 Nb1 Na Da Db. unfold qdist. unfold J at 1. rewrite qlca_node. fold J.
  rewrite !qhas_join, Hb0, Ha1, orb_true_r. simpl andb. simpl first_some.
  rewrite (qlca_none a b (q_setlen t0 l0)) by (rewrite !qhas_setlen, Na0; reflexivity).
  rewrite (qlca_none a b (q_setlen t1 l1)) by (rewrite !qhas_setlen, Nb1; apply andb_false_r).
  rewrite (qdown_join_r a da Na Da), (qdown_join_l b db Db). reflexivity.
Qed.
End Join.

Lemma qdown_none a : forall t, qhas a t = false -> qdown a t = None.
Proof.
  fix IH 1. intros [i x e ks] H. destruct ks as [|k r].
  - simpl in *. rewrite H. reflexivity.
  - change (qhas a (QT i x e (k :: r))) with (existsb (qhas a) (k :: r)) in H.
    change (qdown a (QT i x e (k :: r))) with
      (first_some (fun c => match qdown a c with Some d => Some (d + qlen0 c)%Q | None => None end) (k :: r)).
    induction (k :: r) as [|c cs IHl]; [reflexivity|]. simpl in H. apply orb_false_iff in H. destruct H as [H1 H2].
    simpl. rewrite (IH c H1). apply IHl. exact H2.
Qed.

(* ---------- helper facts about pools ---------- *)
Lemma same_id_eq {A} (idf : A -> Z) l x y : NoDup (map idf l) -> In x l -> In y l -> idf x = idf y -> x = y.
Proof.
  induction l as [|z l IH]; [intros _ []|]. simpl. intro N. inversion N as [|? ? Hz N']; subst.
  intros [Hx|Hx] [Hy|Hy] E.
  - congruence.
  - subst z. exfalso. apply Hz. rewrite E. apply in_map. exact Hy.
  - subst z. exfalso. apply Hz. rewrite <- E. apply in_map. exact Hx.
  - apply IH; assumption.
Qed.

Lemma pairs_of_cover {A} (idf : A -> Z) l x y : In x l -> In y l -> idf x <> idf y ->
  In (x, y) (pairs_of l) \/ In (y, x) (pairs_of l).
Proof.
  induction l as [|z l IH]; [intros []|]. simpl. intros [Hx|Hx] [Hy|Hy] N.
  - congruence.
  - subst z. left. apply in_app_iff. left. apply in_map. exact Hy.
  - subst z. right. apply in_app_iff. left. apply in_map. exact Hx.
  - destruct (IH Hx Hy N) as [H|H]; [left | right]; apply in_app_iff; right; exact H.
Qed.

Section UpgmaRecover.
Variable Mf : Z -> Z -> Q.
Variable order : list Z.

Record UI (pool : list unode) : Prop := mkUI {
  ui_wf : uwf pool;
  ui_sym : forall u v, In u pool -> In v pool -> u_id u <> u_id v -> (ud u v == ud v u)%Q;
  ui_ultra : forall x y z, In x pool -> In y pool -> In z pool ->
      u_id x <> u_id y -> u_id y <> u_id z -> u_id x <> u_id z ->
      (ud x z <= ud x y)%Q \/ (ud x z <= ud y z)%Q;
  ui_depth : forall u a, In u pool -> qhas a (u_tree u) = true ->
      exists q, qdown a (u_tree u) = Some q /\ (q == u_tip u)%Q;
  ui_in : forall u a b, In u pool -> a <> b -> qhas a (u_tree u) = true -> qhas b (u_tree u) = true ->
      exists q, qdist (u_tree u) a b = Some q /\ (q == Mf a b)%Q;
  ui_cross : forall u v a b, In u pool -> In v pool -> u_id u <> u_id v ->
      qhas a (u_tree u) = true -> qhas b (u_tree v) = true -> (Mf a b == ud u v)%Q;
  ui_disj : forall u v a, In u pool -> In v pool -> u_id u <> u_id v ->
      qhas a (u_tree u) = true -> qhas a (u_tree v) = false;
  ui_cover : forall a, In a order -> exists u, In u pool /\ qhas a (u_tree u) = true
}.

(* the closest pair under an ultrametric is equidistant from every other node *)
Lemma closest_equidistant pool j0 j1 k :
  UI pool -> In (j0, j1) (pairs_of pool) ->
  (forall a b, In (a, b) (pairs_of pool) -> (ud j0 j1 <= ud a b)%Q) ->
  In k pool -> u_id k <> u_id j0 -> u_id k <> u_id j1 -> (ud j0 k == ud j1 k)%Q.
Proof.
  intros I Hab Min Hk K0 K1. destruct (pairs_of_In _ _ _ Hab) as [H0 H1].
  destruct (ui_wf pool I) as [N _].
  pose proof (pairs_of_distinct u_id _ _ _ N Hab) as Nd.
  assert (MinS : forall u v, In u pool -> In v pool -> u_id u <> u_id v -> (ud j0 j1 <= ud u v)%Q).
  { intros u v Hu Hv Huv. destruct (pairs_of_cover u_id pool u v Hu Hv Huv) as [H|H].
    - apply Min. exact H.
    - rewrite (ui_sym pool I u v Hu Hv Huv). apply Min. exact H. }
  apply Qle_antisym.
  - destruct (ui_ultra pool I j0 j1 k H0 H1 Hk Nd (not_eq_sym K1) (not_eq_sym K0)) as [L|L].
    + eapply Qle_trans; [exact L|]. apply MinS; auto.
    + exact L.
  - destruct (ui_ultra pool I j1 j0 k H1 H0 Hk (not_eq_sym Nd) (not_eq_sym K0) (not_eq_sym K1)) as [L|L].
    + eapply Qle_trans; [exact L|]. rewrite (ui_sym pool I j1 j0 H1 H0 (not_eq_sym Nd)). apply MinS; auto.
    + exact L.
Qed.

Lemma ui_step pool next :
  UI pool -> (2 <= length pool)%nat -> (forall i, In i (uids pool) -> i < next) ->
  exists pool', upgma_step pool next = Ok pool' /\ UI pool' /\
                S (length pool') = length pool /\ (forall i, In i (uids pool') -> i < next + 1).
Proof.
  intros I L Fr.
  assert (Nn : ~ In next (uids pool)) by (intro H; apply Fr in H; lia).
  destruct (upgma_step_sound_l pool next (ui_wf pool I) L Nn)
    as [j0 [j1 [rest [newn [E [Hab [Min [[l0 [l1 [Ht [Hl0 Hl1]]]] [Htip [Hsize [Hids [Hrest W']]]]]]]]]]]].
  destruct (ui_wf pool I) as [N [Dm Sz]].
  destruct (pairs_of_In _ _ _ Hab) as [H0 H1].
  pose proof (pairs_of_distinct u_id _ _ _ N Hab) as Nd.
  set (D := ud j0 j1) in *.
  assert (Hnew : u_id newn = next) by (unfold u_id; rewrite Ht; reflexivity).
  assert (N0 : NoDup (map u_id (remove_id u_id (u_id j0) pool))) by (apply remove_id_NoDup; exact N).
  assert (Io : forall k, In k (remove_id u_id (u_id j1) (remove_id u_id (u_id j0) pool)) <->
                         In k pool /\ u_id k <> u_id j0 /\ u_id k <> u_id j1).
  { intro k. rewrite (remove_id_In u_id _ _ _ N0), (remove_id_In u_id _ _ _ N). tauto. }
  (* every old node other than the two joined has its updated copy in rest *)
  assert (Back : forall k, In k pool -> u_id k <> u_id j0 -> u_id k <> u_id j1 ->
                 exists k', In k' rest /\ u_id k' = u_id k /\ u_tree k' = u_tree k).
  { intros k Hk K0 K1. assert (Hi : In (u_id k) (map u_id rest)).
    { rewrite Hids. apply in_map. apply Io. auto. }
    apply in_map_iff in Hi. destruct Hi as [k' [Ek Hk']]. exists k'. split; [exact Hk'|]. split; [exact Ek|].
    destruct (Hrest k' Hk') as [k0 [Hk0 [_ [_ [Eid [Etr _]]]]]].
    assert (k0 = k) by (apply (same_id_eq u_id pool); auto; congruence). subst k0. exact Etr. }
  (* view of a node of the new pool as a node of the old one: the new node stands for j0 *)
  set (R := fun (x xo : unode) =>
              (In x rest /\ In xo pool /\ u_id xo <> u_id j0 /\ u_id xo <> u_id j1 /\ u_id x = u_id xo /\
               u_tree x = u_tree xo /\ u_tip x = u_tip xo /\
               (forall b, b <> next -> dget b (u_d x) = dget b (u_d xo)) /\
               (ud x newn == ud j0 xo)%Q /\ ud newn x = ud x newn)
              \/ (x = newn /\ xo = j0)).
  assert (RX : forall x, In x (rest ++ [newn]) -> exists xo, R x xo).
  { intros x Hx. apply in_app_iff in Hx. destruct Hx as [Hx|[<-|[]]]; [|exists j0; right; auto].
    destruct (Hrest x Hx) as [k [Hk [K0 [K1 [Eid [Etr [_ [Etip [Hd [w [Hw1 [Hw2 [_ Hw4]]]]]]]]]]]]].
    exists k. left. repeat (split; [assumption|]).
    assert (Ew : ud x newn = w) by (unfold ud, qdef; rewrite Hnew, Hw1; reflexivity).
    split.
    - rewrite Ew. apply Hw4. apply (closest_equidistant pool j0 j1 k I Hab Min Hk K0 K1).
    - rewrite Ew. unfold ud, qdef. rewrite Eid, Hw2. reflexivity. }
  assert (Rpool : forall x xo, R x xo -> In xo pool).
  { intros x xo [[_ [H _]]|[_ ->]]; assumption. }
  assert (Rid : forall x z xo zo, R x xo -> R z zo -> u_id x <> u_id z -> u_id xo <> u_id zo).
  { intros x z xo zo [[_ [_ [X0 [_ [Ex _]]]]]|[-> ->]] [[_ [_ [Z0 [_ [Ez _]]]]]|[-> ->]] Hn; congruence. }
  assert (Rud : forall x z xo zo, R x xo -> R z zo -> u_id x <> u_id z -> (ud x z == ud xo zo)%Q).
  { intros x z xo zo Rx Rz Hn. destruct Rx as [[Hx [Hxo [X0 [X1 [Ex [_ [_ [Hdx [Hxn Hnx]]]]]]]]]|[-> ->]];
      destruct Rz as [[Hz [Hzo [Z0 [Z1 [Ez [_ [_ [Hdz [Hzn Hnz]]]]]]]]]|[-> ->]].
    - unfold ud, qdef. rewrite Ez, Hdx; [reflexivity|]. intro Eq. apply Nn. rewrite <- Eq. apply in_map. exact Hzo.
    - rewrite Hxn. apply (ui_sym pool I j0 xo H0 Hxo). congruence.
    - rewrite Hnz, Hzn. reflexivity.
    - congruence. }
  eexists. split; [exact E|]. split; [|split].
  - constructor.
    + exact W'.
    + (* symmetry *)
      intros u v Hu Hv Huv. destruct (RX u Hu) as [uo Ru]. destruct (RX v Hv) as [vo Rv].
      rewrite (Rud u v uo vo Ru Rv Huv), (Rud v u vo uo Rv Ru (not_eq_sym Huv)).
      apply (ui_sym pool I); eauto.
    + (* three-point condition *)
      intros x y z Hx Hy Hz Hxy Hyz Hxz. destruct (RX x Hx) as [xo Rx]. destruct (RX y Hy) as [yo Ry].
      destruct (RX z Hz) as [zo Rz].
      rewrite (Rud x z xo zo Rx Rz Hxz), (Rud x y xo yo Rx Ry Hxy), (Rud y z yo zo Ry Rz Hyz).
      apply (ui_ultra pool I); eauto.
    + (* every leaf below a pool node is at the node's distance from the tips *)
      intros u a Hu Ha. apply in_app_iff in Hu. destruct Hu as [Hu|[<-|[]]].
      * destruct (Hrest u Hu) as [k [Hk [_ [_ [_ [Etr [_ [Etip _]]]]]]]]. rewrite Etr in *. rewrite Etip.
        apply (ui_depth pool I k a Hk Ha).
      * rewrite Ht in *. rewrite qhas_join in Ha. destruct (qhas a (u_tree j0)) eqn:A0.
        -- destruct (ui_depth pool I j0 a H0 A0) as [q [Hq Eq]].
           exists (q + l0)%Q. split; [apply qdown_join_l; exact Hq|]. rewrite Htip, Eq, Hl0. ring.
        -- simpl in Ha. destruct (ui_depth pool I j1 a H1 Ha) as [q [Hq Eq]].
           exists (q + l1)%Q. split; [apply qdown_join_r; [apply qdown_none; exact A0 | exact Hq]|].
           rewrite Htip, Eq, Hl1. ring.
    + (* path distances inside a pool node are the matrix entries *)
      intros u a b Hu Nab Ha Hb. apply in_app_iff in Hu. destruct Hu as [Hu|[<-|[]]].
      * destruct (Hrest u Hu) as [k [Hk [_ [_ [_ [Etr _]]]]]]. rewrite Etr in *. apply (ui_in pool I k a b Hk Nab Ha Hb).
      * rewrite Ht in *. rewrite qhas_join in Ha, Hb.
        destruct (qhas a (u_tree j0)) eqn:A0; destruct (qhas b (u_tree j0)) eqn:B0; simpl in Ha, Hb.
        -- rewrite qdist_join_l by assumption. apply (ui_in pool I j0 a b H0 Nab A0 B0).
        -- pose proof (ui_disj pool I j0 j1 a H0 H1 Nd A0) as A1.
           destruct (ui_depth pool I j0 a H0 A0) as [qa [Hqa Eqa]]. destruct (ui_depth pool I j1 b H1 Hb) as [qb [Hqb Eqb]].
           rewrite (qdist_join_cross next (u_tree j0) (u_tree j1) l0 l1 a b qa qb A0 B0 A1 Hb Hqa (qdown_none b _ B0) Hqb).
           eexists. split; [reflexivity|]. rewrite (ui_cross pool I j0 j1 a b H0 H1 Nd A0 Hb).
           rewrite Eqa, Eqb, Hl0, Hl1. unfold D, ud. field.
        -- pose proof (ui_disj pool I j0 j1 b H0 H1 Nd B0) as B1.
           destruct (ui_depth pool I j1 a H1 Ha) as [qa [Hqa Eqa]]. destruct (ui_depth pool I j0 b H0 B0) as [qb [Hqb Eqb]].
           rewrite (qdist_join_cross' next (u_tree j0) (u_tree j1) l0 l1 a b qa qb A0 B0 Ha B1 (qdown_none a _ A0) Hqa Hqb).
           eexists. split; [reflexivity|]. rewrite (ui_cross pool I j1 j0 a b H1 H0 (not_eq_sym Nd) Ha B0).
           rewrite (ui_sym pool I j1 j0 H1 H0 (not_eq_sym Nd)). rewrite Eqa, Eqb, Hl0, Hl1. unfold D, ud. field.
        -- rewrite qdist_join_r by assumption. apply (ui_in pool I j1 a b H1 Nab Ha Hb).
    + (* the matrix entry of two leaves in different pool nodes is the nodes' distance *)
      intros u v a b Hu Hv Huv Ha Hb. destruct (RX u Hu) as [uo Ru]. destruct (RX v Hv) as [vo Rv].
      rewrite (Rud u v uo vo Ru Rv Huv).
      assert (Leaf : forall x xo c, R x xo -> qhas c (u_tree x) = true ->
                (qhas c (u_tree xo) = true) \/ (xo = j0 /\ qhas c (u_tree j1) = true)).
      { intros x xo c [[_ [_ [_ [_ [_ [Etr _]]]]]]|[-> ->]] Hc.
        - left. rewrite <- Etr. exact Hc.
        - rewrite Ht, qhas_join in Hc. apply orb_true_iff in Hc. destruct Hc as [Hc|Hc]; [left; exact Hc | right; auto]. }
      pose proof (Rid u v uo vo Ru Rv Huv) as Nuv.
      destruct (Leaf u uo a Ru Ha) as [Ha'|[-> Ha']]; destruct (Leaf v vo b Rv Hb) as [Hb'|[-> Hb']].
      * apply (ui_cross pool I uo vo a b); eauto.
      * (* b below j1, v stands for j0 *)
        assert (U0 : u_id uo <> u_id j0) by exact Nuv.
        assert (U1 : u_id uo <> u_id j1).
        { destruct Ru as [[_ [_ [_ [X1 _]]]]|[-> ->]]; [exact X1 | congruence]. }
        rewrite (ui_cross pool I uo j1 a b (Rpool u uo Ru) H1 U1 Ha' Hb').
        rewrite (ui_sym pool I uo j1 (Rpool u uo Ru) H1 U1), (ui_sym pool I uo j0 (Rpool u uo Ru) H0 U0).
        symmetry. apply (closest_equidistant pool j0 j1 uo I Hab Min (Rpool u uo Ru) U0 U1).
      * assert (V0 : u_id vo <> u_id j0) by (intro X; apply Nuv; congruence).
        assert (V1 : u_id vo <> u_id j1).
        { destruct Rv as [[_ [_ [_ [X1 _]]]]|[-> ->]]; [exact X1 | congruence]. }
        rewrite (ui_cross pool I j1 vo a b H1 (Rpool v vo Rv) (not_eq_sym V1) Ha' Hb').
        symmetry. apply (closest_equidistant pool j0 j1 vo I Hab Min (Rpool v vo Rv) V0 V1).
      * congruence.
    + (* leaf sets stay disjoint *)
      intros u v a Hu Hv Huv Ha. destruct (RX u Hu) as [uo Ru]. destruct (RX v Hv) as [vo Rv].
      pose proof (Rid u v uo vo Ru Rv Huv) as Nuv.
      destruct Ru as [[_ [Hxo [X0 [X1 [_ [Etr _]]]]]]|[-> ->]]; destruct Rv as [[_ [Hzo [Z0 [Z1 [_ [Etr' _]]]]]]|[-> ->]].
      * rewrite Etr in Ha. rewrite Etr'. apply (ui_disj pool I uo vo a); auto.
      * rewrite Etr in Ha. rewrite Ht, qhas_join.
        rewrite (ui_disj pool I uo j0 a Hxo H0 X0 Ha), (ui_disj pool I uo j1 a Hxo H1 X1 Ha). reflexivity.
      * rewrite Ht, qhas_join in Ha. rewrite Etr'. apply orb_true_iff in Ha. destruct Ha as [Ha|Ha].
        -- apply (ui_disj pool I j0 vo a); auto.
        -- apply (ui_disj pool I j1 vo a); auto.
      * congruence.
    + (* every taxon is still somewhere *)
      intros a Ha. destruct (ui_cover pool I a Ha) as [u [Hu Hau]].
      destruct (Z.eq_dec (u_id u) (u_id j0)) as [E0|E0].
      { assert (u = j0) by (apply (same_id_eq u_id pool); auto). subst u.
        exists newn. split; [apply in_app_iff; right; left; reflexivity|]. rewrite Ht, qhas_join, Hau. reflexivity. }
      destruct (Z.eq_dec (u_id u) (u_id j1)) as [E1|E1].
      { assert (u = j1) by (apply (same_id_eq u_id pool); auto). subst u.
        exists newn. split; [apply in_app_iff; right; left; reflexivity|]. rewrite Ht, qhas_join, Hau. apply orb_true_r. }
      destruct (Back u Hu E0 E1) as [k' [Hk' [_ Etr]]]. exists k'. split; [apply in_app_iff; left; exact Hk'|].
      rewrite Etr. exact Hau.
  - pose proof (others_length u_id pool j0 j1 N H0 H1 Nd) as Lo.
    rewrite app_length. change (length [newn]) with 1%nat.
    rewrite <- (map_length u_id rest), Hids, map_length. lia.
  - intros i Hi. unfold uids in Hi. rewrite map_app, in_app_iff in Hi. destruct Hi as [Hi|[Hi|[]]].
    + rewrite Hids in Hi. apply in_map_iff in Hi. destruct Hi as [k [<- Hk]]. apply Io in Hk.
      assert (u_id k < next) by (apply Fr; apply in_map; tauto). lia.
    + rewrite <- Hi, Hnew. lia.
Qed.

Lemma ui_loop : forall fuel pool next,
  UI pool -> (length pool <= S fuel)%nat -> (1 <= length pool)%nat ->
  (forall i, In i (uids pool) -> i < next) ->
  exists x, upgma_loop fuel pool next = Ok (u_tree x) /\ UI [x].
Proof.
  induction fuel as [|f IH]; intros pool next I Lf L1 Fr.
  - destruct pool as [|x [|y pool]]; simpl in *; try lia. exists x. auto.
  - destruct pool as [|x [|y pool]]; [simpl in L1; lia | exists x; auto|].
    cbn [upgma_loop]. set (P := x :: y :: pool) in *.
    destruct (ui_step P next I) as [pool' [E [I' [Ln Fr']]]]; [simpl; lia | exact Fr|].
    assert (LP : length P = S (S (length pool))) by reflexivity.
    rewrite E. cbn [bind]. apply IH; auto; lia.
Qed.

Lemma ui_final x : UI [x] ->
  (forall a b, In a order -> In b order -> a <> b ->
     exists q, qdist (u_tree x) a b = Some q /\ (q == Mf a b)%Q) /\
  (forall a, In a order -> exists q, qdown a (u_tree x) = Some q /\ (q == u_tip x)%Q).
Proof.
  intro I. split.
  - intros a b Ha Hb Nab. destruct (ui_cover [x] I a Ha) as [u [[<-|[]] Hau]].
    destruct (ui_cover [x] I b Hb) as [v [[<-|[]] Hbv]]. apply (ui_in [x] I x a b); simpl; auto.
  - intros a Ha. destruct (ui_cover [x] I a Ha) as [u [[<-|[]] Hau]]. apply (ui_depth [x] I x a); simpl; auto.
Qed.

End UpgmaRecover.

(* ---------- the initial pool satisfies the invariant ---------- *)
Section UInitUI.
Variables (M : tbl Q) (ids : list (Z * Z)).
Hypothesis Nf : NoDup (map fst ids).
Hypothesis Ns : NoDup (map snd ids).
Hypothesis Hc : mcomplete M (map snd ids).
Hypothesis Hs : msymmetric M (map snd ids).
Hypothesis Hu : ultrametric3 M (map snd ids).

Lemma urow_dget ia l jb : NoDup (map fst l) -> In jb l -> fst ia <> fst jb ->
  dget (fst jb) (urow M ia l) = Some (uent M ia jb).
Proof.
  induction l as [|x l IH]; intros N H Hn; [destruct H|]. simpl in N. inversion N as [|? ? Hx N']; subst.
  unfold urow. simpl. fold (urow M ia l). destruct H as [->|H].
  - assert (Z.eqb (fst ia) (fst jb) = false) as -> by (apply Z.eqb_neq; exact Hn). simpl. rewrite Z.eqb_refl. reflexivity.
  - destruct (Z.eqb (fst ia) (fst x)); simpl.
    + apply IH; assumption.
    + destruct (Z.eqb (fst jb) (fst x)) eqn:E; [|apply IH; assumption].
      apply Z.eqb_eq in E. exfalso. apply Hx. rewrite <- E. apply in_map. exact H.
Qed.

Lemma umk_ud ia jb : In ia ids -> In jb ids -> fst ia <> fst jb ->
  (ud (umk M ids ia) (umk M ids jb) == mval M (snd ia) (snd jb))%Q.
Proof.
  intros Ha Hb Hn. unfold ud, qdef. change (u_id (umk M ids jb)) with (fst jb).
  change (u_d (umk M ids ia)) with (urow M ia ids). rewrite (urow_dget ia ids jb Nf Hb Hn).
  unfold uent. destruct (fst ia <? fst jb); [reflexivity|].
  apply Hs; try (apply in_map; assumption). intro E. apply (ids_snd_neq ids Ns ia jb Ha Hb Hn). congruence.
Qed.

Lemma umk_qhas ia a : qhas a (u_tree (umk M ids ia)) = Z.eqb (snd ia) a.
Proof. reflexivity. Qed.

Lemma upgma_init_UI : UI (mval M) (map snd ids) (map (umk M ids) ids).
Proof.
  constructor.
  - apply upgma_init_wf; assumption.
  - intros u v Hu0 Hv0 Huv. apply in_map_iff in Hu0. destruct Hu0 as [ia [<- Ha]].
    apply in_map_iff in Hv0. destruct Hv0 as [jb [<- Hb]]. change (fst ia <> fst jb) in Huv.
    rewrite (umk_ud ia jb Ha Hb Huv), (umk_ud jb ia Hb Ha (not_eq_sym Huv)).
    apply Hs; try (apply in_map; assumption). apply (ids_snd_neq ids Ns); assumption.
  - intros x y z Hx Hy Hz Hxy Hyz Hxz.
    apply in_map_iff in Hx. destruct Hx as [ia [<- Ha]]. apply in_map_iff in Hy. destruct Hy as [jb [<- Hb]].
    apply in_map_iff in Hz. destruct Hz as [kc [<- Hk]].
    change (fst ia <> fst jb) in Hxy. change (fst jb <> fst kc) in Hyz. change (fst ia <> fst kc) in Hxz.
    rewrite (umk_ud ia kc Ha Hk Hxz), (umk_ud ia jb Ha Hb Hxy), (umk_ud jb kc Hb Hk Hyz).
    apply Hu; try (apply in_map; assumption); apply (ids_snd_neq ids Ns); assumption.
  - intros u a Hu0 Ha. apply in_map_iff in Hu0. destruct Hu0 as [ia [<- Hia]]. rewrite umk_qhas in Ha.
    exists 0%Q. split; [|reflexivity]. simpl. apply Z.eqb_eq in Ha. subst a. rewrite Z.eqb_refl. reflexivity.
  - intros u a b Hu0 Nab Ha Hb. apply in_map_iff in Hu0. destruct Hu0 as [ia [<- Hia]].
    rewrite umk_qhas in Ha, Hb. apply Z.eqb_eq in Ha. apply Z.eqb_eq in Hb. congruence.
  - intros u v a b Hu0 Hv0 Huv Ha Hb. apply in_map_iff in Hu0. destruct Hu0 as [ia [<- Hia]].
    apply in_map_iff in Hv0. destruct Hv0 as [jb [<- Hjb]]. change (fst ia <> fst jb) in Huv.
    rewrite umk_qhas in Ha, Hb. apply Z.eqb_eq in Ha. apply Z.eqb_eq in Hb. subst a b.
    symmetry. apply umk_ud; assumption.
  - intros u v a Hu0 Hv0 Huv Ha. apply in_map_iff in Hu0. destruct Hu0 as [ia [<- Hia]].
    apply in_map_iff in Hv0. destruct Hv0 as [jb [<- Hjb]]. change (fst ia <> fst jb) in Huv.
    rewrite umk_qhas in *. apply Z.eqb_eq in Ha. subst a. apply Z.eqb_neq. intro E.
    apply (ids_snd_neq ids Ns ia jb Hia Hjb Huv). congruence.
  - intros a Ha. apply in_map_iff in Ha. destruct Ha as [ia [<- Hia]].
    exists (umk M ids ia). split; [apply in_map; exact Hia|]. rewrite umk_qhas. apply Z.eqb_refl.
Qed.
End UInitUI.

(* ---------- UPGMA on an ultrametric matrix ---------- *)
Lemma upgma_realizes_ultrametric_l M order :
  NoDup order -> order <> [] -> mcomplete M order -> msymmetric M order -> ultrametric3 M order ->
  exists T, upgma_tree M order = Ok T /\
    (forall a b, In a order -> In b order -> a <> b ->
       exists q, qdist T a b = Some q /\ (q == mval M a b)%Q) /\
    (exists H, forall a, In a order -> exists q, qdown a T = Some q /\ (q == H)%Q).
Proof.
  intros N Ne Hc Hs Hu. destruct (ids_facts order) as [F [S0 [Nf [Li Fr]]]].
  set (ids := combine (map Z.of_nat (seq 0 (length order))) order) in *.
  assert (Ns : NoDup (map snd ids)) by (rewrite S0; exact N).
  assert (Hc' : mcomplete M (map snd ids)) by (rewrite S0; exact Hc).
  assert (Hs' : msymmetric M (map snd ids)) by (rewrite S0; exact Hs).
  assert (Hu' : ultrametric3 M (map snd ids)) by (rewrite S0; exact Hu).
  unfold upgma_tree. rewrite (upgma_init_eval M ids Ns Hc' order eq_refl). cbn [bind].
  assert (I : UI (mval M) (map snd ids) (map (umk M ids) ids)) by (apply upgma_init_UI; assumption).
  rewrite S0 in I.
  destruct (ui_loop (mval M) order (length order) (map (umk M ids) ids) (Z.of_nat (length order)) I) as [x [E Ix]].
  - rewrite map_length, Li. lia.
  - rewrite map_length, Li. destruct order; [congruence | simpl; lia].
  - intros i Hi. unfold uids in Hi. rewrite map_map in Hi. apply Fr. exact Hi.
  - exists (u_tree x). split; [exact E|]. destruct (ui_final (mval M) order x Ix) as [A B].
    split; [exact A|]. exists (u_tip x). exact B.
Qed.
